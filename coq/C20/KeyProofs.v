(* C20 proofs, part 4: the key-space model.
   - [execute_decide]: the command-returning control flow of KeyModel.decide IS Model.execute;
   - under [keys_disjoint] the SetData sequences on byte-string keys refine the slot updates: every transaction of
     the key-level model is simulated by the slot-level model on the view (so every slot-level theorem about one
     transaction holds for the key-level state read through GetData);
   - [keys_disjoint] is PROVED from: distinct ids, no id of the form H^a(id'), a = 1..3 (in particular ids that are not
     32 bytes long when H yields 32 bytes), and the collision-freedom instances of H on the 3-step chains of the ids;
   - without it the statements are FALSE: three witnesses (id' = H(id), H(H(id)), H(H(H(id)))) inside the model. *)
From Coq Require Import List ZArith NArith Lia Bool.
From V.C20 Require Import Model Proofs Unique Ledger KeyModel.
Import ListNotations.
Local Open Scope Z_scope.

(* ---------- decide = execute ---------- *)
Definition run_outcome (s : st) (o : outcome) : st * res :=
  ({| cur := apply_w (cur s) (o_w o); trie := trie s; bal := o_bal o; pend := o_pend o; esc := esc s; burned := o_burn o |},
   o_res o).

Lemma run_fail : forall s r, run_outcome s (fail s r) = (s, r).
Proof. intros [c t b p e bu] r. reflexivity. Qed.

Lemma execute_decide : forall e h t s, execute e h t s = run_outcome s (decide e h t s).
Proof.
  intros e h t s.
  Ltac fin e s := unfold wst; destruct (g003 (gates e)); destruct s; cbn [andb]; try reflexivity;
    repeat match goal with |- context [if ?c then _ else _] => destruct c end; reflexivity.
  destruct t as [src jok typ id stake acct kok | src jok id delta | src jok amount id | src jok id acct | src evm];
    cbn [execute decide].
  - destruct jok; cbn [negb]; [|now rewrite run_fail].
    destruct (N.eqb typ 0 || N.eqb typ 1)%bool; cbn [negb]; [|now rewrite run_fail].
    destruct (stake <? min_stake typ)%N; [now rewrite run_fail|].
    destruct kok; cbn [negb]; [|now rewrite run_fail].
    destruct (bal s src <? tok stake); [now rewrite run_fail|].
    destruct (is_some (get_miner s id)); [now rewrite run_fail|].
    destruct (is_some (by_account e s (if N.eqb acct 0 then src else acct))); [now rewrite run_fail|].
    fin e s.
  - destruct jok; cbn [negb]; [|now rewrite run_fail].
    destruct (N.eqb delta 0); [now rewrite run_fail|].
    destruct (bal s src <? tok delta); [now rewrite run_fail|].
    destruct (get_miner s id) as [[k sl]|] eqn:Eg; [|now rewrite run_fail].
    apply get_miner_some in Eg. destruct Eg as (_ & _ & ->). fin e s.
  - destruct jok; cbn [negb]; [|now rewrite run_fail].
    destruct amount as [money0|]; [|now rewrite run_fail].
    destruct (get_miner s id) as [[k sl]|] eqn:Eg; [|now rewrite run_fail].
    destruct (N.eqb_spec src (s_acct sl)) as [Hs|]; cbn [negb]; [|now rewrite run_fail].
    destruct (s_stake sl <? (if N.eqb money0 MAXU64 then s_stake sl else money0))%N; [now rewrite run_fail|].
    apply get_miner_some in Eg. destruct Eg as (_ & _ & ->).
    destruct (_ <? min_stake k)%N.
    + unfold remove_miner. destruct (N.eqb _ 0 && negb (contract e src))%bool; fin e s.
    + fin e s.
  - destruct jok; cbn [negb]; [|now rewrite run_fail].
    destruct (get_miner s id) as [[k sl]|] eqn:Eg; [|now rewrite run_fail].
    destruct (N.eqb (s_acct sl) acct); [now rewrite run_fail|].
    destruct (N.eqb (s_acct sl) src); cbn [negb]; [|now rewrite run_fail].
    destruct (is_some (by_account e s acct)); [now rewrite run_fail|].
    apply get_miner_some in Eg. destruct Eg as (_ & _ & ->). fin e s.
  - destruct (bal s src <? ten_tokens); [now rewrite run_fail|].
    set (s1 := set_bal s (fst (sub_bal (bal s) src ten_tokens))).
    assert (Hf : forall r, run_outcome s (fail s1 r) = (s1, r)) by (intros r; destruct s; reflexivity).
    destruct (by_account e s1 src) as [id|]; [|apply eq_sym, Hf].
    destruct (get_miner s1 id) as [[k sl]|] eqn:Eg; [|apply eq_sym, Hf].
    destruct evm as [c|]; [|apply eq_sym, Hf].
    apply get_miner_some in Eg. destruct Eg as (_ & _ & ->). fin e s.
Qed.

(* ---------- states that agree on every read ---------- *)
Definition st_eq (a b : st) : Prop :=
  (forall k i, cur a k i = cur b k i) /\ (forall k i, trie a k i = trie b k i) /\ bal a = bal b /\ pend a = pend b /\
  esc a = esc b /\ burned a = burned b.

Section Keys.
Variable H : key -> key.
Variable idkey : N -> key.
Variable acct_u64 : N -> N.
Notation kk a i := (Hn H a (idkey i)).
Notation view_cur := (view_cur H idkey acct_u64).
Notation k_apply_w := (k_apply_w H idkey).
Notation view := (view H idkey acct_u64).
Notation k_execute := (k_execute H idkey acct_u64).
Notation k_run_tx := (k_run_tx H idkey acct_u64).

Hypothesis Hd : keys_disjoint H idkey.

Definition kf (a : nat) (i : N) : key := Hn H a (idkey i).
Lemma k0_kf : forall i, k0 idkey i = kf 0 i. Proof. reflexivity. Qed.
Lemma k1_kf : forall i, k1 H idkey i = kf 1 i. Proof. reflexivity. Qed.
Lemma k2_kf : forall i, k2 H idkey i = kf 2 i. Proof. reflexivity. Qed.
Lemma k3_kf : forall i, k3 H idkey i = kf 3 i. Proof. reflexivity. Qed.

Lemma key_eqb : forall a b i' i, (a <= 3)%nat -> (b <= 3)%nat ->
  N.eqb (kf a i') (kf b i) = (N.eqb i' i && Nat.eqb a b)%bool.
Proof.
  intros a b i' i Ha Hb. unfold kf. destruct (N.eqb_spec (kk a i') (kk b i)) as [E|E].
  - destruct (Hd i' i a b Ha Hb E) as [-> ->]. now rewrite N.eqb_refl, Nat.eqb_refl.
  - destruct (N.eqb_spec i' i) as [->|]; [|reflexivity]. destruct (Nat.eqb_spec a b) as [->|]; [congruence|reflexivity].
Qed.

(* the SetData sequences refine the slot updates *)
Lemma apply_w_sim : forall st w k' i', view_cur (k_apply_w st w) k' i' = apply_w (view_cur st) w k' i'.
Proof.
  intros st w k' i'. destruct w as [|k i ap stake acct [|]|k i stake acct [x|]|k i|k i lft];
    cbn [KeyModel.k_apply_w apply_w]; try reflexivity; unfold KeyModel.view_cur, updr, kupd;
    rewrite ?k0_kf, ?k1_kf, ?k2_kf, ?k3_kf; rewrite ?key_eqb by lia; cbn [Nat.eqb andb];
    destruct (N.eqb_spec k' k) as [->|]; cbn [andb]; try reflexivity;
    destruct (N.eqb_spec i' i) as [->|]; cbn [andb rd_info rd_stake rd_acct rd_stat]; try reflexivity;
    rewrite ?Bool.andb_false_r; cbn [andb rd_info rd_stake rd_acct rd_stat]; reflexivity.
Qed.

Lemma k_execute_sim : forall e h t s,
  st_eq (view (fst (k_execute e h t s))) (fst (execute e h t (view s))) /\
  snd (k_execute e h t s) = snd (execute e h t (view s)).
Proof.
  intros e h t s. rewrite execute_decide. unfold k_execute, run_outcome. cbn [fst snd].
  split; [|reflexivity]. unfold st_eq. cbn [KeyModel.view cur trie bal pend esc burned kcur ktrie kbal kpend kesc kburned].
  repeat split; try reflexivity. intros k i. apply apply_w_sim.
Qed.

(* states that agree on every read run alike: execute only reads through cur / trie / bal *)
Lemma by_id_ext : forall a b k i, st_eq a b -> by_id a k i = by_id b k i.
Proof. intros a b k i (Hc & _). unfold by_id. now rewrite Hc. Qed.

Lemma get_miner_ext : forall a b i, st_eq a b -> get_miner a i = get_miner b i.
Proof. intros a b i E. unfold get_miner. now rewrite !(by_id_ext a b _ _ E). Qed.

Lemma iter_ids_ext : forall e a b k, st_eq a b -> iter_ids e a k = iter_ids e b k.
Proof.
  intros e a b k (_ & Ht & _). unfold iter_ids. apply filter_ext. intros i. now rewrite Ht.
Qed.

Lemma find_ext_in : forall (f g : N -> bool) l, (forall x, f x = g x) -> find f l = find g l.
Proof. intros f g l E. induction l as [|x r IH]; cbn; [reflexivity|]. rewrite E, IH. reflexivity. Qed.

Lemma by_account_ext : forall e a b x, st_eq a b -> by_account e a x = by_account e b x.
Proof.
  intros e a b x E. unfold by_account. rewrite !(iter_ids_ext e a b _ E). destruct E as (Hc & _).
  rewrite (find_ext_in (fun i => N.eqb (s_acct (cur a 0%N i)) x) (fun i => N.eqb (s_acct (cur b 0%N i)) x)) by (intros; now rewrite Hc).
  rewrite (find_ext_in (fun i => N.eqb (s_acct (cur a 1%N i)) x) (fun i => N.eqb (s_acct (cur b 1%N i)) x)) by (intros; now rewrite Hc).
  reflexivity.
Qed.

(* one loop iteration of the key-level model is one loop iteration of the slot-level model on the view *)
Theorem k_run_tx_sim : forall e h t s,
  st_eq (view (fst (k_run_tx e h t s))) (fst (run_tx e h t (view s))) /\
  snd (k_run_tx e h t s) = snd (run_tx e h t (view s)).
Proof.
  intros e h t s. unfold k_run_tx, run_tx, fee_step. cbn [KeyModel.view bal].
  destruct (kbal s (tx_src t) <? tx_fee e).
  - cbn. unfold st_eq. repeat split; reflexivity.
  - set (s1 := {| kcur := kcur s; ktrie := ktrie s; kbal := _; kpend := kpend s; kesc := kesc s; kburned := kburned s |}).
    assert (Hv : view s1 = set_bal (view s) (add_bal (fst (sub_bal (kbal s) (tx_src t) (tx_fee e))) fee_account (tx_fee e))) by reflexivity.
    rewrite <- Hv. destruct (k_execute_sim e h t s1) as [Hs Hr].
    destruct (k_execute e h t s1) as [s2 r] eqn:Ek. destruct (execute e h t (view s1)) as [s2' r'] eqn:Ee.
    cbn [fst snd] in Hs, Hr. subst r'.
    destruct r; cbn [fst snd]; try (split; [exact Hs|reflexivity]);
      (split; [|reflexivity]); destruct Hs as (_ & _ & Hb2 & Hp & _); unfold st_eq;
      cbn [KeyModel.view cur trie bal pend esc burned kcur ktrie kbal kpend kesc kburned]; repeat split; try reflexivity; try exact Hp;
      (destruct (g002 (gates e)); [reflexivity|exact Hb2]).
Qed.

(* ---------- the slot-level theorems about one transaction, for the key-level state ---------- *)
Lemma registered_ext : forall a b k i, st_eq a b -> (registered a k i <-> registered b k i).
Proof. intros a b k i (Hc & _). unfold registered. now rewrite Hc. Qed.

Lemma acct_unique_ext : forall a b, st_eq a b -> acct_unique b -> acct_unique a.
Proof.
  intros a b E Hu k i k' i' H1 H2 Ha. pose proof E as (Hc & _).
  apply (Hu k i k' i'); [apply (registered_ext a b _ _ E), H1|apply (registered_ext a b _ _ E), H2|now rewrite <- !Hc].
Qed.

Lemma reg_wf_ext : forall I a b, st_eq a b -> reg_wf I b -> reg_wf I a.
Proof.
  intros I a b E (Hk & Hcl & H1). pose proof E as (Hc & _). split; [|split].
  - intros k i Hr. apply Hk. apply (registered_ext a b _ _ E), Hr.
  - intros k i Hn. rewrite Hc in *. apply Hcl, Hn.
  - intros i [Ha Hb]. apply (H1 i). split; apply (registered_ext a b _ _ E); assumption.
Qed.

Lemma stake_of_ext : forall a b i, st_eq a b -> stake_of a i = stake_of b i.
Proof. intros a b i (Hc & _). unfold stake_of. now rewrite !Hc. Qed.

Lemma locked_sum_ext : forall I c c', (forall k i, c k i = c' k i) -> locked_sum I c = locked_sum I c'.
Proof. intros I c c' E. induction I as [|x r IH]; cbn [locked_sum]; [reflexivity|]. unfold stake_at. now rewrite !E, IH. Qed.

Lemma led_inv_ext : forall A I W a b, st_eq a b -> led_inv A I W b -> led_inv A I W a.
Proof.
  intros A I W a b E (Hwf & Hb & Hp & He & Hbu & Hw). pose proof E as (Hc & _ & Eb & Ep & Ee & Ebu).
  unfold led_inv, wealth in *. rewrite Eb, Ep, Ee, Ebu, (locked_sum_ext I (cur a) (cur b) Hc).
  exact (conj (reg_wf_ext I a b E Hwf) (conj Hb (conj Hp (conj He (conj Hbu Hw))))).
Qed.

(* an account controls at most one miner - key level, under the key guard AND the iterator guard *)
Theorem k_unique_step : forall e h t s, reg_wf (ids e) (view s) -> guard e t (view s) -> acct_unique (view s) ->
  acct_unique (view (fst (k_run_tx e h t s))).
Proof.
  intros e h t s Hwf Hg Hu. destruct (k_run_tx_sim e h t s) as [E _].
  apply (acct_unique_ext _ _ E). apply run_tx_unique; assumption.
Qed.

(* conservation, registry well-formedness - key level *)
Theorem k_inv_step : forall A I W e h t s, g002 (gates e) = true -> universe A I -> supply_bound W -> tx_closed A I t ->
  led_inv A I W (view s) -> led_inv A I W (view (fst (k_run_tx e h t s))).
Proof.
  intros A I W e h t s G2 HU HW Hcl Hinv. destruct (k_run_tx_sim e h t s) as [E _].
  apply (led_inv_ext _ _ _ _ _ E). apply run_tx_inv; assumption.
Qed.

(* stake = applied + added - refunded - key level *)
Theorem k_stake_step : forall A I W e h t s i, universe A I -> supply_bound W -> tx_closed A I t -> led_inv A I W (view s) ->
  stake_of (view (fst (k_run_tx e h t s))) i = stake_of (view s) i + booked t (snd (k_run_tx e h t s)) (view s) i.
Proof.
  intros A I W e h t s i HU HW Hcl Hinv. destruct (k_run_tx_sim e h t s) as [E Er].
  rewrite (stake_of_ext _ _ i E), Er. apply (run_tx_stake A I W); assumption.
Qed.

End Keys.

(* ---------- keys_disjoint from the shape of the ids ---------- *)
Section Disjoint.
Variable H : key -> key.
Variable idkey : N -> key.

(* the ids are distinct byte strings *)
Hypothesis id_inj : forall i j, idkey i = idkey j -> i = j.
(* no id is the hash, the double hash or the triple hash of an id (its own included) *)
Hypothesis no_alias : forall i j a, (1 <= a <= 3)%nat -> idkey i <> Hn H a (idkey j).
(* the instances of collision freedom that are needed: on the first three elements of the chains of the ids *)
Hypothesis cf : forall i j a b, (a <= 2)%nat -> (b <= 2)%nat ->
  H (Hn H a (idkey i)) = H (Hn H b (idkey j)) -> Hn H a (idkey i) = Hn H b (idkey j).

Lemma disjoint_aux : forall a b i j, (a <= 3)%nat -> (b <= 3)%nat -> (a <= b)%nat ->
  Hn H a (idkey i) = Hn H b (idkey j) -> i = j /\ a = b.
Proof.
  induction a as [|a IH]; intros b i j Ha Hb Hab E.
  - destruct b as [|b]; [split; [apply id_inj, E|reflexivity]|].
    exfalso. apply (no_alias i j (S b)); [lia|exact E].
  - destruct b as [|b]; [lia|]. cbn [Hn] in E. apply cf in E; try lia.
    destruct (IH b i j) as [-> ->]; try lia; auto.
Qed.

Theorem keys_disjoint_of_ids : keys_disjoint H idkey.
Proof.
  intros i j a b Ha Hb E. destruct (Nat.le_ge_cases a b) as [L|L].
  - apply disjoint_aux; assumption.
  - destruct (disjoint_aux b a j i Hb Ha L (eq_sym E)) as [-> ->]. auto.
Qed.
End Disjoint.

(* ids that are not 32 bytes long cannot be hashes: with a length function on keys and a 32-byte hash, [no_alias]
   holds for them *)
Lemma no_alias_by_length : forall (H : key -> key) (idkey : N -> key) (len : key -> N),
  (forall x, len (H x) = 32%N) -> forall i, len (idkey i) <> 32%N ->
  forall j a, (1 <= a <= 3)%nat -> idkey i <> Hn H a (idkey j).
Proof.
  intros H idkey len Hlen i Hi j a Ha E. destruct a as [|a]; [lia|]. cbn [Hn] in E. apply Hi. rewrite E. apply Hlen.
Qed.

(* ---------- without the guard: the three aliasing attacks inside the model ---------- *)
(* For ANY hash H, any storage st and any two ids x, y: if the bytes of y are the hash (double, triple hash) of the
   bytes of x, then (a) GetMinerById(y) finds no record although the key is in use - the stake / account / status
   cell of x does not parse as json - so AddMiner goes on, and (b) the SetData sequence that registers y rewrites
   what GetMinerById(x) reads. The side conditions only say that the chain of x has no short cycle. *)
Section Refuted.
Variable H : key -> key.
Variable idkey : N -> key.
Variable acct_u64 : N -> N.
Notation view_cur := (view_cur H idkey acct_u64).
Notation k_apply_w := (k_apply_w H idkey).
Notation X1 x := (H (idkey x)).
Notation X2 x := (H (H (idkey x))).
Notation X3 x := (H (H (H (idkey x)))).
Notation X4 x := (H (H (H (H (idkey x))))).
Notation X5 x := (H (H (H (H (H (idkey x)))))).
Notation X6 x := (H (H (H (H (H (H (idkey x))))))).

Lemma neq_eqb : forall a b : N, a <> b -> N.eqb a b = false.
Proof. intros a b Hn. now apply N.eqb_neq. Qed.

(* y = H(x): the json of y lands on the stake slot of x *)
Theorem alias_stake_refuted : forall st k x y n ap stake acct,
  idkey y = X1 x -> X1 x <> X2 x -> X1 x <> X3 x -> X1 x <> X4 x ->
  st k (k1 H idkey x) = Some (CStake n) ->
  rd_info (st k (k0 idkey y)) = None /\
  s_stake (view_cur (k_apply_w st (WNew k y ap stake acct true)) k x) = JSONPFX.
Proof.
  intros st k x y n ap stake acct Ey N2 N3 N4 Hs. unfold k0, k1 in *. split; [rewrite Ey, Hs; reflexivity|].
  cbn [KeyModel.k_apply_w]. unfold KeyModel.view_cur, kupd, k0, k1, k2, k3. cbn [s_stake]. rewrite !Ey, N.eqb_refl. cbn [andb].
  rewrite (neq_eqb _ _ N4), (neq_eqb _ _ N3), (neq_eqb _ _ N2), N.eqb_refl. reflexivity.
Qed.

(* y = H(H(x)): the json of y lands on the account slot of x: GetMinerIdByAccount(owner) misses x, the owner can
   never refund *)
Theorem alias_account_refuted : forall st k x y a ap stake acct,
  idkey y = X2 x -> X2 x <> X3 x -> X2 x <> X4 x -> X2 x <> X5 x ->
  st k (k2 H idkey x) = Some (CAcct a) ->
  rd_info (st k (k0 idkey y)) = None /\
  s_acct (view_cur (k_apply_w st (WNew k y ap stake acct true)) k x) = junk_json y.
Proof.
  intros st k x y a ap stake acct Ey N3 N4 N5 Hs. unfold k0, k2 in *. split; [rewrite Ey, Hs; reflexivity|].
  cbn [KeyModel.k_apply_w]. unfold KeyModel.view_cur, kupd, k0, k1, k2, k3. cbn [s_acct]. rewrite !Ey, N.eqb_refl. cbn [andb].
  rewrite (neq_eqb _ _ N5), (neq_eqb _ _ N4), (neq_eqb _ _ N3), N.eqb_refl. reflexivity.
Qed.

(* y = H(H(H(x))): the json of y lands on the status slot of an aborted x, which reads as normal again *)
Theorem alias_status_refuted : forall st k x y ap stake acct,
  idkey y = X3 x -> X3 x <> X4 x -> X3 x <> X5 x -> X3 x <> X6 x ->
  st k (k3 H idkey x) = Some (CStat 1) ->
  rd_info (st k (k0 idkey y)) = None /\
  s_stat (view_cur st k x) = 1%N /\
  s_stat (view_cur (k_apply_w st (WNew k y ap stake acct true)) k x) = 0%N.
Proof.
  intros st k x y ap stake acct Ey N4 N5 N6 Hs. unfold k0, k3 in *. split; [rewrite Ey, Hs; reflexivity|].
  split; [unfold KeyModel.view_cur, k3; cbn [s_stat]; rewrite Hs; reflexivity|].
  cbn [KeyModel.k_apply_w]. unfold KeyModel.view_cur, kupd, k0, k1, k2, k3. cbn [s_stat]. rewrite !Ey, N.eqb_refl. cbn [andb].
  rewrite (neq_eqb _ _ N6), (neq_eqb _ _ N5), (neq_eqb _ _ N4), N.eqb_refl. reflexivity.
Qed.
End Refuted.

(* end to end, on a concrete instance (H x = x + 1; id 1 = key 10, id 2 = key 11 = H(key 10)): both MinerApply
   transactions succeed through the whole key-level loop, and the stake accounting equation of k_stake_step fails
   for miner 1 in the second transaction - so the guard keys_disjoint cannot be dropped *)
Definition Hc (x : key) : key := (x + 1)%N.
Definition idc (i : N) : key := (9 + i)%N.
Definition env_a : env := {| ids := [1%N; 2%N]; contract := fun _ => false; gates := all_gates |}.
Definition rich2 : bals := fun a => if (N.eqb a 2 || N.eqb a 3)%bool then tok 10000 else 0.
Definition k_empty : kst :=
  {| kcur := fun _ _ => None; ktrie := fun _ _ => None; kbal := rich2; kpend := []; kesc := []; kburned := 0 |}.
Definition k_after1 : kst :=
  k_end_block 100 [] (fst (k_run_tx Hc idc (fun _ => 0%N) env_a 100 (TApply 2 true 0 1 800 0 true) k_empty)).

Theorem stake_accounting_keys_refuted :
  let t := TApply 3 true 0 2 400 0 true in
  let r := k_run_tx Hc idc (fun _ => 0%N) env_a 101 t k_after1 in
  snd r = ROk /\
  stake_of (view Hc idc (fun _ => 0%N) k_after1) 1 = 800 /\
  booked t (snd r) (view Hc idc (fun _ => 0%N) k_after1) 1 = 0 /\
  stake_of (view Hc idc (fun _ => 0%N) (fst r)) 1 = Z.of_N JSONPFX.
Proof. vm_compute. repeat split; reflexivity. Qed.

(* keys_disjoint is satisfiable *)
Lemma keys_disjoint_example : keys_disjoint (fun x => 10 * x)%N (fun i => 10 * i + 1)%N.
Proof.
  intros i j a b Ha Hb.
  destruct a as [|[|[|[|a]]]]; try lia; destruct b as [|[|[|[|b]]]]; try lia; cbn [Hn]; intros E; split; lia.
Qed.

(* ---------- cross-registry key equality is harmless for HEAD's lookups ---------- *)
(* the two registries are different accounts: a write into registry k changes no read of another registry,
   whatever the keys are (no disjointness hypothesis) *)
Definition wkind (w : wcmd) : option N :=
  match w with WNone => None | WNew k _ _ _ _ _ => Some k | WUpd k _ _ _ _ => Some k | WDel k _ => Some k | WAbort k _ _ => Some k end.

Theorem cross_registry_write : forall H idkey au st w k' i', wkind w <> Some k' ->
  view_cur H idkey au (k_apply_w H idkey st w) k' i' = view_cur H idkey au st k' i'.
Proof.
  intros H idkey au st w k' i' Hk.
  assert (E : forall k, Some k <> Some k' -> N.eqb k' k = false) by (intros k Hn; apply N.eqb_neq; congruence).
  destruct w as [|k i ap stake acct [|]|k i stake acct [x|]|k i|k i lft]; cbn [k_apply_w wkind] in *; try reflexivity;
    unfold view_cur, kupd; rewrite (E k Hk); reflexivity.
Qed.

(* the typeless GetMiner: a key of the proposer registry that holds something else than a record (the stake / account /
   status cell of ANOTHER proposer whose derived key equals this id) decodes to nothing, and the validator registry
   answers *)
Theorem typeless_falls_back : forall H idkey au (s : kst) i,
  rd_info (kcur s 1%N (k0 idkey i)) = None ->
  get_miner (view H idkey au s) i =
  match by_id (view H idkey au s) 0%N i with Some x => Some (0%N, x) | None => None end.
Proof.
  intros H idkey au s i Hn. unfold get_miner, by_id at 1. cbn [view cur view_cur s_info]. rewrite Hn. reflexivity.
Qed.

(* the variant that picks the registry by probing the proposer key for ANY bytes is wrong exactly there *)
Definition get_miner_probe (H : key -> key) (idkey : N -> key) (au : N -> N) (s : kst) (i : N) : option (N * slot) :=
  match kcur s 1%N (k0 idkey i) with
  | None | Some CEmpty => match by_id (view H idkey au s) 0%N i with Some x => Some (0%N, x) | None => None end
  | Some _ => match by_id (view H idkey au s) 1%N i with Some x => Some (1%N, x) | None => None end
  end.

Theorem typeless_probe_refuted : forall H idkey au (s : kst) i n sl,
  kcur s 1%N (k0 idkey i) = Some (CStake n) ->          (* id i = H(id of a proposer): its stake cell sits here *)
  by_id (view H idkey au s) 0%N i = Some sl ->          (* and id i is a registered validator *)
  get_miner (view H idkey au s) i = Some (0%N, sl) /\ get_miner_probe H idkey au s i = None.
Proof.
  intros H idkey au s i n sl Hc Hv. split.
  - rewrite typeless_falls_back by (rewrite Hc; reflexivity). now rewrite Hv.
  - unfold get_miner_probe, by_id. rewrite Hc. cbn [view cur view_cur s_info]. rewrite Hc. reflexivity.
Qed.
