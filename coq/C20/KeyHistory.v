(* C20 proofs, part 5: key-level HISTORIES.
   - [store_inv]: every cell under the key of an id holds a record of that id (or nothing); the cells under H(id),
     H(H(id)), H(H(H(id))) are a stake, an account, a status (or nothing); no other key is used. Established by the
     empty registry, preserved by every write command and by the flush, under keys_disjoint.
   - the slot-level run only depends on what can be read (st_eq is a congruence for run_tx / end_block / run_chain);
   - with both: a whole key-level chain of blocks (transactions on byte-string keys, after(), flush) is simulated by
     the slot-level chain on the view, and the history theorems are lifted. *)
From Coq Require Import List ZArith NArith Lia Bool.
From V.C20 Require Import Model Proofs Unique Ledger KeyModel KeyProofs.
Import ListNotations.
Local Open Scope Z_scope.

(* ---------- the slot-level run is a function of what can be read ---------- *)
Lemma st_eq_refl : forall a, st_eq a a.
Proof. intros a. unfold st_eq. repeat split; reflexivity. Qed.

Lemma st_eq_trans : forall a b c, st_eq a b -> st_eq b c -> st_eq a c.
Proof.
  intros a b c (H1 & H2 & H3 & H4 & H5 & H6) (G1 & G2 & G3 & G4 & G5 & G6). unfold st_eq.
  split; [intros k i; rewrite H1; apply G1|]. split; [intros k i; rewrite H2; apply G2|]. repeat split; congruence.
Qed.

Lemma st_eq_set_bal : forall a b x, st_eq a b -> st_eq (set_bal a x) (set_bal b x).
Proof. intros a b x (H1 & H2 & H3 & H4 & H5 & H6). unfold st_eq, set_bal; cbn. repeat split; assumption. Qed.

Lemma decide_ext : forall e h t a b, st_eq a b -> decide e h t a = decide e h t b.
Proof.
  intros e h t a b E. pose proof E as (Hc & Ht & Hb & Hp & He & Hbu).
  assert (Hf : forall r, fail a r = fail b r) by (intros r; unfold fail; now rewrite Hb, Hp, Hbu).
  destruct t as [src jok typ id stake acct kok | src jok id delta | src jok amount id | src jok id acct | src evm];
    cbn [decide]; rewrite ?(get_miner_ext a b _ E), ?(by_account_ext e a b _ E), ?Hb, ?Hp, ?Hbu, ?Hf.
  - reflexivity.
  - reflexivity.
  - reflexivity.
  - reflexivity.
  - destruct (bal b src <? ten_tokens); [reflexivity|].
    pose proof (st_eq_set_bal a b (fst (sub_bal (bal b) src ten_tokens)) E) as E1.
    assert (Hf1 : forall r, fail (set_bal a (fst (sub_bal (bal b) src ten_tokens))) r = fail (set_bal b (fst (sub_bal (bal b) src ten_tokens))) r)
      by (intros r; unfold fail, set_bal; cbn; now rewrite Hp, Hbu).
    rewrite (by_account_ext e _ _ src E1).
    destruct (by_account e (set_bal b (fst (sub_bal (bal b) src ten_tokens))) src) as [id|]; [|apply Hf1].
    rewrite (get_miner_ext _ _ id E1).
    destruct (get_miner (set_bal b (fst (sub_bal (bal b) src ten_tokens))) id) as [[k sl]|]; [|apply Hf1].
    destruct evm; [reflexivity|apply Hf1].
Qed.

Lemma apply_w_ext : forall c c' w, (forall k i, c k i = c' k i) -> forall k i, apply_w c w k i = apply_w c' w k i.
Proof.
  intros c c' w E k i. destruct w as [|k0 i0 ap stake acct ws|k0 i0 stake acct stat|k0 i0|k0 i0 lft]; cbn [apply_w];
    try apply E; unfold updr; destruct (N.eqb k k0 && N.eqb i i0)%bool; try apply E; try reflexivity; now rewrite E.
Qed.

Lemma execute_ext : forall e h t a b, st_eq a b ->
  st_eq (fst (execute e h t a)) (fst (execute e h t b)) /\ snd (execute e h t a) = snd (execute e h t b).
Proof.
  intros e h t a b E. rewrite !execute_decide, (decide_ext e h t a b E). unfold run_outcome. cbn [fst snd].
  split; [|reflexivity]. destruct E as (Hc & Ht & Hb & Hp & He & Hbu). unfold st_eq. cbn [cur trie bal pend esc burned].
  repeat split; try assumption; try reflexivity. intros k i. apply apply_w_ext, Hc.
Qed.

Lemma run_tx_ext : forall e h t a b, st_eq a b ->
  st_eq (fst (run_tx e h t a)) (fst (run_tx e h t b)) /\ snd (run_tx e h t a) = snd (run_tx e h t b).
Proof.
  intros e h t a b E. unfold run_tx, fee_step. pose proof E as (Hc & Ht & Hb & Hp & He & Hbu). rewrite Hb.
  destruct (bal b (tx_src t) <? tx_fee e); cbn [fst snd]; [split; [exact E|reflexivity]|].
  pose proof (st_eq_set_bal a b (add_bal (fst (sub_bal (bal b) (tx_src t) (tx_fee e))) fee_account (tx_fee e)) E) as E1.
  destruct (execute_ext e h t _ _ E1) as [Es Er].
  destruct (execute e h t (set_bal a _)) as [a2 ra]. destruct (execute e h t (set_bal b _)) as [b2 rb].
  cbn [fst snd] in Es, Er. subst rb.
  destruct ra; cbn [fst snd]; try (split; [exact Es|reflexivity]); (split; [|reflexivity]);
    destruct Es as (_ & _ & Hb2 & Hp2 & _); destruct E1 as (G1 & G2 & G3 & G4 & G5 & G6);
    unfold st_eq; cbn [cur trie bal pend esc burned]; repeat split; try assumption;
    (destruct (g002 (gates e)); assumption).
Qed.

Lemma run_txs_ext : forall e h ts a b, st_eq a b ->
  st_eq (fst (run_txs e h ts a)) (fst (run_txs e h ts b)) /\ snd (run_txs e h ts a) = snd (run_txs e h ts b).
Proof.
  intros e h ts. induction ts as [|t r IH]; intros a b E; [split; [exact E|reflexivity]|]. cbn [run_txs].
  destruct (run_tx_ext e h t a b E) as [E1 R1].
  destruct (run_tx e h t a) as [a1 x]. destruct (run_tx e h t b) as [b1 y]. cbn [fst snd] in E1, R1. subst y.
  destruct (IH a1 b1 E1) as [E2 R2].
  destruct (run_txs e h r a1) as [a2 xs]. destruct (run_txs e h r b1) as [b2 ys]. cbn [fst snd] in *. subst ys. auto.
Qed.

Lemma end_block_ext : forall h rw a b, st_eq a b -> st_eq (end_block h rw a) (end_block h rw b).
Proof.
  intros h rw a b (Hc & Ht & Hb & Hp & He & Hbu). unfold end_block. rewrite Hb, Hp, He.
  destruct (credit_due h (pend b ++ rw ++ esc b) (bal b)) as [x l]. unfold st_eq. cbn [cur trie bal pend esc burned].
  repeat split; try assumption; try reflexivity. intros k i. now rewrite Hc.
Qed.

Lemma run_chain_ext : forall e bs a b, st_eq a b -> st_eq (run_chain e bs a) (run_chain e bs b).
Proof.
  intros e bs. induction bs as [|[[h ts] rw] r IH]; intros a b E; [exact E|]. cbn [run_chain].
  apply IH. rewrite !run_block_fst. apply end_block_ext. apply run_txs_ext, E.
Qed.

Lemma guarded_txs_ext : forall e h ts a b, st_eq a b -> guarded_txs e h ts b -> guarded_txs e h ts a.
Proof.
  intros e h ts. induction ts as [|t r IH]; intros a b E G; [exact I|]. destruct G as [[Gc Gf] Gr]. split; [split|].
  - intros k i Hr. destruct E as (Hc & Ht & _). rewrite Ht. apply Gc. unfold registered in *. now rewrite <- Hc.
  - unfold target_fresh in *. destruct (opnode_target t); [|exact I]. intros k i Hr. destruct E as (Hc & _).
    unfold reg in *. rewrite Hc in *. apply Gf, Hr.
  - apply (IH _ (fst (run_tx e h t b))); [apply run_tx_ext, E|exact Gr].
Qed.

(* ---------- the store invariant ---------- *)
Section Store.
Variable H : key -> key.
Variable idkey : N -> key.
Variable acct_u64 : N -> N.
Notation kf := (kf H idkey).
Notation view_cur := (view_cur H idkey acct_u64).
Notation view_trie := (view_trie idkey).
Notation k_apply_w := (k_apply_w H idkey).
Notation view := (view H idkey acct_u64).
Notation k_run_tx := (k_run_tx H idkey acct_u64).
Notation k_run_txs := (k_run_txs H idkey acct_u64).

Hypothesis Hd : keys_disjoint H idkey.

Definition cell_ok (a : nat) (i : N) (c : option cell) : Prop :=
  match c with
  | None | Some CEmpty => True
  | Some (CInfo j _) => a = 0%nat /\ j = i
  | Some (CStake _) => a = 1%nat
  | Some (CAcct _) => a = 2%nat
  | Some (CStat _) => a = 3%nat
  end.

Definition store_inv (st : kstore) : Prop :=
  (forall k i a, (a <= 3)%nat -> cell_ok a i (st k (kf a i))) /\
  (forall k x, (forall i a, (a <= 3)%nat -> x <> kf a i) -> st k x = None).

Lemma store_inv_empty : store_inv (fun _ _ => None).
Proof. split; intros; cbn; auto. Qed.

Lemma kupd_inv : forall st k i a c, (a <= 3)%nat -> cell_ok a i (Some c) -> store_inv st -> store_inv (kupd st k (kf a i) c).
Proof.
  intros st k i a c Ha Hc [H1 H2]. split.
  - intros k' i' a' Ha'. unfold kupd. rewrite (key_eqb H idkey Hd) by assumption.
    destruct (N.eqb k' k); cbn [andb]; [|apply H1, Ha'].
    destruct (N.eqb_spec i' i) as [->|]; cbn [andb]; [|apply H1, Ha'].
    destruct (Nat.eqb_spec a' a) as [->|]; [exact Hc|apply H1, Ha'].
  - intros k' x Hx. unfold kupd. destruct (N.eqb k' k); cbn [andb]; [|apply H2, Hx].
    destruct (N.eqb_spec x (kf a i)) as [->|]; [exfalso; apply (Hx i a Ha); reflexivity|apply H2, Hx].
Qed.

Lemma apply_w_inv : forall st w, store_inv st -> store_inv (k_apply_w st w).
Proof.
  intros st w Hs. destruct w as [|k i ap stake acct [|]|k i stake acct [x|]|k i|k i lft]; cbn [KeyModel.k_apply_w]; try exact Hs;
    rewrite ?(k0_kf H idkey), ?(k1_kf H idkey), ?(k2_kf H idkey), ?(k3_kf H idkey); repeat (apply kupd_inv; [lia|cbn; auto|]); exact Hs.
Qed.

Lemma flush_inv : forall st, store_inv st -> store_inv (flush st).
Proof.
  intros st [H1 H2]. split.
  - intros k i a Ha. unfold flush. specialize (H1 k i a Ha). destruct (st k (kf a i)) as [[]|]; cbn in *; auto.
  - intros k x Hx. unfold flush. rewrite (H2 k x Hx). reflexivity.
Qed.

(* the flush changes no read; under the invariant the iterator's view of the flushed store is the set of records *)
Lemma view_cur_flush : forall st k i, view_cur (flush st) k i = view_cur st k i.
Proof.
  intros st k i. unfold KeyModel.view_cur, flush.
  destruct (st k (k0 idkey i)) as [[]|]; destruct (st k (k1 H idkey i)) as [[]|];
    destruct (st k (k2 H idkey i)) as [[]|]; destruct (st k (k3 H idkey i)) as [[]|]; reflexivity.
Qed.

Lemma view_trie_flush : forall st k i, store_inv st -> view_trie (flush st) k i = s_info (view_cur st k i).
Proof.
  intros st k i [H1 _]. unfold KeyModel.view_trie, KeyModel.view_cur, flush. cbn [s_info]. rewrite (k0_kf H idkey).
  specialize (H1 k i 0%nat ltac:(lia)). unfold kf in *. cbn [Hn] in *.
  destruct (st k (idkey i)) as [[j ap| | | |]|]; cbn in *; try reflexivity.
  destruct H1 as [_ ->]. now rewrite N.eqb_refl.
Qed.

Definition kst_inv (s : kst) : Prop := store_inv (kcur s).

Lemma k_run_tx_inv_store : forall e h t s, kst_inv s -> kst_inv (fst (k_run_tx e h t s)).
Proof.
  intros e h t s Hs. unfold KeyModel.k_run_tx. destruct (kbal s (tx_src t) <? tx_fee e); [exact Hs|].
  unfold KeyModel.k_execute. cbn [fst snd kcur].
  match goal with |- context [o_res ?o] => destruct (o_res o) end; cbn [fst kcur kst_inv]; unfold kst_inv; cbn [kcur];
    try exact Hs; apply apply_w_inv, Hs.
Qed.

(* ---------- key-level blocks and chains ---------- *)
Definition k_run_block (e : env) (h : N) (ts : list tx) (rw : list (N * N * Z)) (s : kst) : kst :=
  k_end_block h rw (fst (k_run_txs e h ts s)).

Fixpoint k_run_chain (e : env) (bs : list block) (s : kst) : kst :=
  match bs with
  | [] => s
  | (h, ts, rw) :: r => k_run_chain e r (k_run_block e h ts rw s)
  end.

Lemma k_run_txs_sim : forall e h ts s, kst_inv s ->
  kst_inv (fst (k_run_txs e h ts s)) /\ st_eq (view (fst (k_run_txs e h ts s))) (fst (run_txs e h ts (view s))).
Proof.
  intros e h ts. induction ts as [|t r IH]; intros s Hs; [split; [exact Hs|apply st_eq_refl]|].
  cbn [KeyModel.k_run_txs run_txs].
  pose proof (k_run_tx_inv_store e h t s Hs) as Hs1. destruct (k_run_tx_sim H idkey acct_u64 Hd e h t s) as [E1 _].
  destruct (k_run_tx e h t s) as [s1 x]. cbn [fst] in Hs1, E1.
  destruct (IH s1 Hs1) as [Hs2 E2]. destruct (k_run_txs e h r s1) as [s2 xs]. cbn [fst] in *.
  split; [exact Hs2|].
  destruct (run_tx e h t (view s)) as [v1 y] eqn:Ev. cbn [fst] in E1.
  pose proof (run_txs_ext e h r _ _ E1) as [E3 _].
  destruct (run_txs e h r v1) as [v2 ys]. cbn [fst] in *. eapply st_eq_trans; eassumption.
Qed.

Lemma k_end_block_sim : forall h rw s, kst_inv s ->
  kst_inv (k_end_block h rw s) /\ st_eq (view (k_end_block h rw s)) (end_block h rw (view s)).
Proof.
  intros h rw s Hs. unfold k_end_block, end_block. cbn [KeyModel.view bal pend esc cur burned].
  destruct (credit_due h (kpend s ++ rw ++ kesc s) (kbal s)) as [b l]. split.
  - unfold kst_inv. cbn [kcur]. apply flush_inv, Hs.
  - unfold st_eq. cbn [KeyModel.view cur trie bal pend esc burned kcur ktrie kbal kpend kesc kburned].
    repeat split; try reflexivity; intros k i; [apply view_cur_flush|apply view_trie_flush, Hs].
Qed.

(* a whole key-level chain is the slot-level chain on the view *)
Theorem k_run_chain_sim : forall e bs s, kst_inv s ->
  kst_inv (k_run_chain e bs s) /\ st_eq (view (k_run_chain e bs s)) (run_chain e bs (view s)).
Proof.
  intros e bs. induction bs as [|[[h ts] rw] r IH]; intros s Hs; [split; [exact Hs|apply st_eq_refl]|].
  cbn [k_run_chain run_chain]. unfold k_run_block.
  destruct (k_run_txs_sim e h ts s Hs) as [Hs1 E1].
  destruct (k_end_block_sim h rw _ Hs1) as [Hs2 E2].
  destruct (IH _ Hs2) as [Hs3 E3]. split; [exact Hs3|].
  eapply st_eq_trans; [exact E3|]. apply run_chain_ext. rewrite run_block_fst.
  eapply st_eq_trans; [exact E2|]. apply end_block_ext, E1.
Qed.

(* ---------- the history theorems on byte-string keys ---------- *)
Lemma boundary_ext : forall a b, st_eq a b -> boundary b -> boundary a.
Proof. intros a b (Hc & Ht & _) Hb k i. now rewrite Ht, Hc. Qed.

Theorem k_history_conservation : forall A I e bs W s, g002 (gates e) = true -> kst_inv s -> universe A I -> supply_bound (W + minted_chain bs) ->
  Forall (block_closed_led A I) bs -> led_inv A I W (view s) ->
  led_inv A I (W + minted_chain bs) (view (k_run_chain e bs s)).
Proof.
  intros A I e bs W s G2 Hs HU HW Hcl Hinv. destruct (k_run_chain_sim e bs s Hs) as [_ E].
  apply (led_inv_ext _ _ _ _ _ E). apply run_chain_inv; assumption.
Qed.

Theorem k_history_stake : forall A I e bs W s i, g002 (gates e) = true -> kst_inv s -> universe A I -> supply_bound (W + minted_chain bs) ->
  Forall (block_closed_led A I) bs -> led_inv A I W (view s) ->
  stake_of (view (k_run_chain e bs s)) i = stake_of (view s) i + booked_chain e bs (view s) i.
Proof.
  intros A I e bs W s i G2 Hs HU HW Hcl Hinv. destruct (k_run_chain_sim e bs s Hs) as [_ E].
  rewrite (stake_of_ext _ _ i E). apply (run_chain_stake A I e bs W); assumption.
Qed.

Theorem k_history_unique : forall e bs s, kst_inv s -> reg_wf (ids e) (view s) ->
  Forall (fun b => block_closed (ids e) (block_txs b)) bs -> guarded_chain e bs (view s) -> acct_unique (view s) ->
  reg_wf (ids e) (view (k_run_chain e bs s)) /\ acct_unique (view (k_run_chain e bs s)).
Proof.
  intros e bs s Hs Hwf Hcl Hg Hu. destruct (k_run_chain_sim e bs s Hs) as [_ E].
  destruct (run_chain_unique e bs (view s) Hwf Hcl Hg Hu) as [Hwf' Hu'].
  split; [apply (reg_wf_ext _ _ _ E), Hwf'|apply (acct_unique_ext _ _ E), Hu'].
Qed.

Theorem k_history_views_agree : forall e bs s, kst_inv s -> boundary (view s) -> reg_wf (ids e) (view s) ->
  acct_unique (view s) -> Forall (fun b => block_closed (ids e) (block_txs b)) bs -> guarded_chain e bs (view s) ->
  let s' := view (k_run_chain e bs s) in
  forall k i, registered s' k i ->
    get_miner s' i = Some (k, cur s' k i) /\ In i (iter_ids e s' k) /\ by_account e s' (s_acct (cur s' k i)) = Some i.
Proof.
  intros e bs s Hs Hb Hwf Hu Hcl Hg s' k i Hr. destruct (k_run_chain_sim e bs s Hs) as [_ E].
  destruct (k_history_unique e bs s Hs Hwf Hcl Hg Hu) as [Hwf' Hu'].
  apply views_agree; try assumption.
  apply (boundary_ext _ _ E). apply run_chain_boundary, Hb.
Qed.

End Store.
