(* C20 property theorems (statements only; proofs in Proofs.v / Unique.v / Ledger.v).
   Property: after any sequence of miner apply / add-stake / refund / change-account (and operator-node)
   transactions, looking a miner up by id, by account or by iterating the registry returns the same record, whose
   stake equals applied + added - refunded; the total stake and proposer count used for leader election equal the
   sum over active records; locked + scheduled + liquid tokens stay constant; an account controls at most one
   miner; a rejected miner transaction changes nothing but the fee. *)
From Coq Require Import List ZArith NArith Lia Bool.
From V.C20 Require Import Model Proofs Unique Ledger KeyModel KeyProofs KeyHistory Tolerance.
From V.C20 Require Harness.
Import ListNotations.
Local Open Scope Z_scope.

(* ---- the three lookup paths ---- *)
(* At a block boundary (after the flush of IntermediateRoot) and with unique accounts: GetMiner(id) returns the
   record, the iterator of its kind meets it, GetMinerIdByAccount(record.account) returns its id. *)
Theorem C20_views_agree : forall e s k i, boundary s -> reg_wf (ids e) s -> acct_unique s -> registered s k i ->
  get_miner s i = Some (k, cur s k i) /\
  In i (iter_ids e s k) /\
  by_account e s (s_acct (cur s k i)) = Some i.
Proof. exact views_agree. Qed.
Print Assumptions C20_views_agree.

(* Conversely: what GetMinerIdByAccount returns is a registered miner carrying that account, and nil means that
   no registered miner carries it (no uniqueness hypothesis needed). *)
Theorem C20_by_account_sound : forall e s a i, boundary s -> reg_wf (ids e) s -> by_account e s a = Some i ->
  exists k, get_miner s i = Some (k, cur s k i) /\ s_acct (cur s k i) = a /\ In i (iter_ids e s k).
Proof. exact by_account_is_holder. Qed.
Print Assumptions C20_by_account_sound.

Theorem C20_by_account_nil : forall e s a, boundary s -> reg_wf (ids e) s -> by_account e s a = None ->
  forall k i, registered s k i -> s_acct (cur s k i) <> a.
Proof. exact by_account_nil_is_free. Qed.
Print Assumptions C20_by_account_nil.

(* For every history: after any chain of blocks that starts at a boundary and in which the guard holds whenever a
   transaction starts, the three views agree on every registered miner. *)
Theorem C20_history_views_agree : forall e bs s, boundary s -> reg_wf (ids e) s -> acct_unique s ->
  Forall (fun b => block_closed (ids e) (block_txs b)) bs -> guarded_chain e bs s ->
  let s' := run_chain e bs s in
  forall k i, registered s' k i ->
    get_miner s' i = Some (k, cur s' k i) /\ In i (iter_ids e s' k) /\ by_account e s' (s_acct (cur s' k i)) = Some i.
Proof. exact history_views_agree. Qed.
Print Assumptions C20_history_views_agree.

(* ---- totals used for leader election ---- *)
(* GetProposerTotalStakeWithDetail(h) = sum / count over the registered proposer records that are normal and
   whose apply height has been reached. *)
Theorem C20_totals : forall e s h, boundary s ->
  proposer_total e s h = sum_active s 1 h (ids e) /\ proposer_count e s h = count_active s 1 h (ids e).
Proof. exact totals_agree. Qed.
Print Assumptions C20_totals.

(* ---- conservation: liquid + locked + scheduled (+ operator-node charge destroyed) ---- *)
(* every loop iteration (fee, snapshot, Execute, revert on failure), successful or rejected *)
Theorem C20_conservation_tx : forall A I W e h t s, g002 (gates e) = true -> universe A I -> supply_bound W -> tx_closed A I t ->
  led_inv A I W s -> led_inv A I W (fst (run_tx e h t s)).
Proof. exact run_tx_inv. Qed.
Print Assumptions C20_conservation_tx.

(* every history of blocks (transactions, RefundManager.Add of refunds and of the block's rewards, CheckAndMove,
   flush): wealth = initial wealth + the rewards the blocks' after() phases scheduled, balances stay non-negative,
   the registry stays well-formed *)
Theorem C20_conservation : forall A I e bs W s, g002 (gates e) = true -> universe A I -> supply_bound (W + minted_chain bs) ->
  Forall (block_closed_led A I) bs -> led_inv A I W s -> led_inv A I (W + minted_chain bs) (run_chain e bs s).
Proof. exact run_chain_inv. Qed.
Print Assumptions C20_conservation.

(* ---- stake = applied + added - refunded, per miner and per transaction ---- *)
Theorem C20_stake_accounting : forall A I W e h t s i, universe A I -> supply_bound W -> tx_closed A I t ->
  led_inv A I W s ->
  stake_of (fst (run_tx e h t s)) i = stake_of s i + booked t (snd (run_tx e h t s)) s i.
Proof. exact run_tx_stake. Qed.
Print Assumptions C20_stake_accounting.

(* for every history: the stake of miner i after the chain = its stake before + everything the successful
   apply / add / refund transactions of the chain booked for it *)
Theorem C20_stake_history : forall A I e bs W s i, g002 (gates e) = true -> universe A I -> supply_bound (W + minted_chain bs) ->
  Forall (block_closed_led A I) bs -> led_inv A I W s ->
  stake_of (run_chain e bs s) i = stake_of s i + booked_chain e bs s i.
Proof. exact run_chain_stake. Qed.
Print Assumptions C20_stake_history.

(* ---- a rejected transaction changes nothing but the fee ---- *)
(* (in the model the revert is exact; that AccountDB.RevertToSnapshot restores the state is property C04; the
   refund requests of the executor context are outside the snapshot and are shown untouched here) *)
Theorem C20_rejected_noop : forall e h t s s' r, g002 (gates e) = true -> run_tx e h t s = (s', r) -> r <> ROk ->
  (r = REvict /\ s' = s) \/
  (r <> REvict /\ tx_fee e <= bal s (tx_src t) /\ same_but_bal s s' /\
   bal s' = add_bal (fst (sub_bal (bal s) (tx_src t) (tx_fee e))) fee_account (tx_fee e)).
Proof. exact rejected_noop. Qed.
Print Assumptions C20_rejected_noop.

(* Before proposal002 (historic behaviour kept for replay) the guard g002 cannot be dropped: balance writes were not
   journalled, the 10-token charge of a REJECTED operator-node transaction survives the revert *)
Theorem C20_rejected_noop_pre002_refuted :
  let s := empty_state rich in
  let r := run_tx env_pre002 100 (TOpNode 2 None) s in
  snd r = RNoMiner /\
  bal (fst r) 2%N = bal s 2%N - tx_fee env_pre002 - ten_tokens /\
  wealth [1%N; 2%N] [1%N; 2%N] (fst r) = wealth [1%N; 2%N] [1%N; 2%N] s - ten_tokens.
Proof. exact rejected_noop_pre002_refuted. Qed.
Print Assumptions C20_rejected_noop_pre002_refuted.

(* ---- an account controls at most one miner ---- *)
(* The unguarded statement is FALSE for the code as written: two MinerApply naming one account in one block both
   succeed (GetMinerIdByAccount iterates the storage trie, which does not hold the first registration yet). *)
Theorem C20_account_unique_refuted :
  exists e h ts s, boundary s /\ reg_wf (ids e) s /\ acct_unique s /\ block_closed (ids e) ts /\
    snd (run_block e h ts [] s) = [ROk; ROk] /\ ~ acct_unique (fst (run_block e h ts [] s)).
Proof. exact account_unique_refuted. Qed.
Print Assumptions C20_account_unique_refuted.

(* ... and through the operator-node transaction, one transaction per block: the executor never asks whether the
   address reported by the main-node contract already carries a miner. *)
Theorem C20_account_unique_refuted_opnode :
  exists e bs s, boundary s /\ reg_wf (ids e) s /\ acct_unique s /\
    Forall (fun b => length (block_txs b) = 1%nat) bs /\ ~ acct_unique (run_chain e bs s).
Proof. exact account_unique_refuted_opnode. Qed.
Print Assumptions C20_account_unique_refuted_opnode.

(* Under the exact guard that excludes the two defects - when the transaction starts, the iterator meets every
   registered miner, and an operator-node target address is carried by nobody - uniqueness is preserved by every
   transaction, successful or not ... *)
Theorem C20_account_unique_step : forall e h t s, reg_wf (ids e) s -> guard e t s -> acct_unique s ->
  acct_unique (fst (run_tx e h t s)).
Proof. exact run_tx_unique. Qed.
Print Assumptions C20_account_unique_step.

(* ... and by every guarded history. *)
Theorem C20_account_unique : forall e bs s, reg_wf (ids e) s -> Forall (fun b => block_closed (ids e) (block_txs b)) bs ->
  guarded_chain e bs s -> acct_unique s ->
  reg_wf (ids e) (run_chain e bs s) /\ acct_unique (run_chain e bs s).
Proof. exact run_chain_unique. Qed.
Print Assumptions C20_account_unique.

(* The guard is not vacuous: it holds for the first transaction of every block unless that is an operator-node
   call, and only a successful MinerApply can break the iterator's completeness for the rest of the block. *)
Theorem C20_guard_at_boundary : forall e t s, boundary s -> opnode_target t = None -> guard e t s.
Proof. exact guard_at_boundary. Qed.
Print Assumptions C20_guard_at_boundary.

Theorem C20_covers_kept : forall e h t s, apply_id t = None -> covers e s -> covers e (fst (run_tx e h t s)).
Proof. exact run_tx_covers. Qed.
Print Assumptions C20_covers_kept.

(* ---- the key space: registry storage keyed by byte strings, H = SHA-256 as a parameter ---- *)
(* the command-returning control flow used by the key-level model is Model.execute *)
Theorem C20_decide_is_execute : forall e h t s, execute e h t s = run_outcome s (decide e h t s).
Proof. exact execute_decide. Qed.
Print Assumptions C20_decide_is_execute.

(* the 4 storage keys of every id are pairwise distinct from those of every other id whenever the ids are distinct,
   no id is H^a of an id (a = 1..3), and H has no collision on the 3-step chains of the ids *)
Theorem C20_keys_disjoint : forall (H : key -> key) (idkey : N -> key),
  (forall i j, idkey i = idkey j -> i = j) ->
  (forall i j a, (1 <= a <= 3)%nat -> idkey i <> Hn H a (idkey j)) ->
  (forall i j a b, (a <= 2)%nat -> (b <= 2)%nat ->
     H (Hn H a (idkey i)) = H (Hn H b (idkey j)) -> Hn H a (idkey i) = Hn H b (idkey j)) ->
  keys_disjoint H idkey.
Proof. exact keys_disjoint_of_ids. Qed.
Print Assumptions C20_keys_disjoint.

(* ... in particular an id whose length is not the hash length cannot alias *)
Theorem C20_no_alias_by_length : forall (H : key -> key) (idkey : N -> key) (len : key -> N),
  (forall x, len (H x) = 32%N) -> forall i, len (idkey i) <> 32%N ->
  forall j a, (1 <= a <= 3)%nat -> idkey i <> Hn H a (idkey j).
Proof. exact no_alias_by_length. Qed.
Print Assumptions C20_no_alias_by_length.

(* under keys_disjoint one loop iteration on byte-string keys (the real SetData sequences) IS one loop iteration of
   the slot model on what GetData reads *)
Theorem C20_key_simulation : forall H idkey au, keys_disjoint H idkey -> forall e h t s,
  st_eq (view H idkey au (fst (k_run_tx H idkey au e h t s))) (fst (run_tx e h t (view H idkey au s))) /\
  snd (k_run_tx H idkey au e h t s) = snd (run_tx e h t (view H idkey au s)).
Proof. exact k_run_tx_sim. Qed.
Print Assumptions C20_key_simulation.

(* views agree on the key-level state (an instance: the reads of the key level are the view) *)
Theorem C20_views_agree_keys : forall H idkey au e (s : kst) k i,
  boundary (view H idkey au s) -> reg_wf (ids e) (view H idkey au s) -> acct_unique (view H idkey au s) ->
  registered (view H idkey au s) k i ->
  get_miner (view H idkey au s) i = Some (k, cur (view H idkey au s) k i) /\
  In i (iter_ids e (view H idkey au s) k) /\
  by_account e (view H idkey au s) (s_acct (cur (view H idkey au s) k i)) = Some i.
Proof. intros H idkey au e s. exact (views_agree e (view H idkey au s)). Qed.
Print Assumptions C20_views_agree_keys.

(* stake accounting, conservation and account uniqueness per transaction on byte-string keys, guard keys_disjoint *)
Theorem C20_stake_accounting_keys : forall H idkey au, keys_disjoint H idkey ->
  forall A I W e h t s i, universe A I -> supply_bound W -> tx_closed A I t -> led_inv A I W (view H idkey au s) ->
  stake_of (view H idkey au (fst (k_run_tx H idkey au e h t s))) i =
  stake_of (view H idkey au s) i + booked t (snd (k_run_tx H idkey au e h t s)) (view H idkey au s) i.
Proof. exact k_stake_step. Qed.
Print Assumptions C20_stake_accounting_keys.

Theorem C20_conservation_keys : forall H idkey au, keys_disjoint H idkey ->
  forall A I W e h t s, g002 (gates e) = true -> universe A I -> supply_bound W -> tx_closed A I t -> led_inv A I W (view H idkey au s) ->
  led_inv A I W (view H idkey au (fst (k_run_tx H idkey au e h t s))).
Proof. exact k_inv_step. Qed.
Print Assumptions C20_conservation_keys.

Theorem C20_account_unique_keys : forall H idkey au, keys_disjoint H idkey ->
  forall e h t s, reg_wf (ids e) (view H idkey au s) -> guard e t (view H idkey au s) -> acct_unique (view H idkey au s) ->
  acct_unique (view H idkey au (fst (k_run_tx H idkey au e h t s))).
Proof. exact k_unique_step. Qed.
Print Assumptions C20_account_unique_keys.

(* ---- key-level HISTORIES: the store invariant and the lifted history theorems ---- *)
(* every key of an id holds a record of that id, its H / H^2 / H^3 keys hold a stake / an account / a status, no
   other key is used: true of the empty registry, kept by every executor's write command and by the flush *)
Theorem C20_store_inv_empty : forall H idkey, store_inv H idkey (fun _ _ => None).
Proof. exact store_inv_empty. Qed.
Print Assumptions C20_store_inv_empty.

Theorem C20_store_inv_preserved : forall H idkey, keys_disjoint H idkey -> forall st w,
  store_inv H idkey st -> store_inv H idkey (k_apply_w H idkey st w) /\ store_inv H idkey (flush st).
Proof. intros H idkey Hd st w Hs. split; [apply apply_w_inv; assumption|apply flush_inv; assumption]. Qed.
Print Assumptions C20_store_inv_preserved.

(* a whole chain of blocks on byte-string keys (transactions, after(), flush) is the slot-level chain on the view *)
Theorem C20_key_chain_simulation : forall H idkey au, keys_disjoint H idkey -> forall e bs s, kst_inv H idkey s ->
  kst_inv H idkey (k_run_chain H idkey au e bs s) /\
  st_eq (view H idkey au (k_run_chain H idkey au e bs s)) (run_chain e bs (view H idkey au s)).
Proof. exact k_run_chain_sim. Qed.
Print Assumptions C20_key_chain_simulation.

Theorem C20_conservation_keys_history : forall H idkey au, keys_disjoint H idkey ->
  forall A I e bs W s, g002 (gates e) = true -> kst_inv H idkey s -> universe A I -> supply_bound (W + minted_chain bs) ->
  Forall (block_closed_led A I) bs -> led_inv A I W (view H idkey au s) ->
  led_inv A I (W + minted_chain bs) (view H idkey au (k_run_chain H idkey au e bs s)).
Proof. exact k_history_conservation. Qed.
Print Assumptions C20_conservation_keys_history.

Theorem C20_stake_history_keys : forall H idkey au, keys_disjoint H idkey ->
  forall A I e bs W s i, g002 (gates e) = true -> kst_inv H idkey s -> universe A I -> supply_bound (W + minted_chain bs) ->
  Forall (block_closed_led A I) bs -> led_inv A I W (view H idkey au s) ->
  stake_of (view H idkey au (k_run_chain H idkey au e bs s)) i =
  stake_of (view H idkey au s) i + booked_chain e bs (view H idkey au s) i.
Proof. exact k_history_stake. Qed.
Print Assumptions C20_stake_history_keys.

Theorem C20_account_unique_keys_history : forall H idkey au, keys_disjoint H idkey ->
  forall e bs s, kst_inv H idkey s -> reg_wf (ids e) (view H idkey au s) ->
  Forall (fun b => block_closed (ids e) (block_txs b)) bs -> guarded_chain e bs (view H idkey au s) ->
  acct_unique (view H idkey au s) ->
  reg_wf (ids e) (view H idkey au (k_run_chain H idkey au e bs s)) /\
  acct_unique (view H idkey au (k_run_chain H idkey au e bs s)).
Proof. exact k_history_unique. Qed.
Print Assumptions C20_account_unique_keys_history.

Theorem C20_history_views_agree_keys : forall H idkey au, keys_disjoint H idkey ->
  forall e bs s, kst_inv H idkey s -> boundary (view H idkey au s) -> reg_wf (ids e) (view H idkey au s) ->
  acct_unique (view H idkey au s) -> Forall (fun b => block_closed (ids e) (block_txs b)) bs ->
  guarded_chain e bs (view H idkey au s) ->
  let s' := view H idkey au (k_run_chain H idkey au e bs s) in
  forall k i, registered s' k i ->
    get_miner s' i = Some (k, cur s' k i) /\ In i (iter_ids e s' k) /\ by_account e s' (s_acct (cur s' k i)) = Some i.
Proof. exact k_history_views_agree. Qed.
Print Assumptions C20_history_views_agree_keys.

(* without keys_disjoint the statements are FALSE, for ANY hash: y = H(x) / H(H(x)) / H(H(H(x))) *)
Theorem C20_alias_stake_refuted : forall (H : key -> key) idkey au st k x y n ap stake acct,
  idkey y = H (idkey x) -> H (idkey x) <> H (H (idkey x)) -> H (idkey x) <> H (H (H (idkey x))) ->
  H (idkey x) <> H (H (H (H (idkey x)))) ->
  st k (k1 H idkey x) = Some (CStake n) ->
  rd_info (st k (k0 idkey y)) = None /\
  s_stake (view_cur H idkey au (k_apply_w H idkey st (WNew k y ap stake acct true)) k x) = JSONPFX.
Proof. exact alias_stake_refuted. Qed.
Print Assumptions C20_alias_stake_refuted.

Theorem C20_alias_account_refuted : forall (H : key -> key) idkey au st k x y a ap stake acct,
  idkey y = H (H (idkey x)) -> H (H (idkey x)) <> H (H (H (idkey x))) -> H (H (idkey x)) <> H (H (H (H (idkey x)))) ->
  H (H (idkey x)) <> H (H (H (H (H (idkey x))))) ->
  st k (k2 H idkey x) = Some (CAcct a) ->
  rd_info (st k (k0 idkey y)) = None /\
  s_acct (view_cur H idkey au (k_apply_w H idkey st (WNew k y ap stake acct true)) k x) = junk_json y.
Proof. exact alias_account_refuted. Qed.
Print Assumptions C20_alias_account_refuted.

Theorem C20_alias_status_refuted : forall (H : key -> key) idkey au st k x y ap stake acct,
  idkey y = H (H (H (idkey x))) -> H (H (H (idkey x))) <> H (H (H (H (idkey x)))) ->
  H (H (H (idkey x))) <> H (H (H (H (H (idkey x))))) -> H (H (H (idkey x))) <> H (H (H (H (H (H (idkey x)))))) ->
  st k (k3 H idkey x) = Some (CStat 1) ->
  rd_info (st k (k0 idkey y)) = None /\
  s_stat (view_cur H idkey au st k x) = 1%N /\
  s_stat (view_cur H idkey au (k_apply_w H idkey st (WNew k y ap stake acct true)) k x) = 0%N.
Proof. exact alias_status_refuted. Qed.
Print Assumptions C20_alias_status_refuted.

(* end to end through the key-level loop on a concrete hash: both applies succeed, nothing is booked for miner 1,
   its stake reads the json prefix *)
Theorem C20_stake_accounting_keys_refuted :
  let t := TApply 3 true 0 2 400 0 true in
  let r := k_run_tx Hc idc (fun _ => 0%N) env_a 101 t k_after1 in
  snd r = ROk /\
  stake_of (view Hc idc (fun _ => 0%N) k_after1) 1 = 800 /\
  booked t (snd r) (view Hc idc (fun _ => 0%N) k_after1) 1 = 0 /\
  stake_of (view Hc idc (fun _ => 0%N) (fst r)) 1 = Z.of_N JSONPFX.
Proof. exact stake_accounting_keys_refuted. Qed.
Print Assumptions C20_stake_accounting_keys_refuted.

(* ---- the reward comparison tolerance is a consequence of the way the code computes ---- *)
(* per account: at most 16 terms, each a float64 value within 2^-41 (relative) of its exact rational and truncated to
   whole wei => the sum passes the comparison "relative 2^-40 plus 16 wei" against the exact specification *)
Theorem C20_reward_tolerance_sound : forall D ts, 0 < D -> Forall (term_ok D) ts -> (length ts <= 16)%nat ->
  Tolerance.close (sum_a ts) (sum_v ts) D = true.
Proof. exact tolerance_sound. Qed.
Print Assumptions C20_reward_tolerance_sound.

Theorem C20_reward_tolerance_is_the_harness_one : forall obs num den, Harness.close obs num den = Tolerance.close obs num den.
Proof. reflexivity. Qed.
Print Assumptions C20_reward_tolerance_is_the_harness_one.

(* ---- RemoveMiner's second branch, and lookups across the two registries ---- *)
(* a contract-owned miner that takes its whole stake out is kept as an aborted record with stake 0, the whole stake is
   scheduled once; a further "refund everything" schedules nothing *)
Theorem C20_refund_all_contract_kept : forall e h s src id k sl,
  get_miner s id = Some (k, sl) -> s_acct sl = src -> contract e src = true ->
  let r := execute e h (TRefund src true (Some MAXU64) id) s in
  snd r = ROk /\
  cur (fst r) k id = {| s_info := s_info sl; s_stake := 0%N; s_acct := s_acct sl; s_stat := 1%N |} /\
  pend (fst r) = (refund_height e k h, src, tok (s_stake sl)) :: pend s.
Proof. exact refund_all_contract_kept. Qed.
Print Assumptions C20_refund_all_contract_kept.

Theorem C20_refund_all_again_books_zero : forall e h s src id k sl,
  get_miner s id = Some (k, sl) -> s_acct sl = src -> contract e src = true -> s_stake sl = 0%N ->
  pend (fst (execute e h (TRefund src true (Some MAXU64) id) s)) = (refund_height e k h, src, 0) :: pend s.
Proof. exact refund_all_again_books_zero. Qed.
Print Assumptions C20_refund_all_again_books_zero.

(* key equality ACROSS the registries is harmless: a write into one registry changes no read of the other, for any
   keys; the typeless GetMiner falls back to the validator registry when the proposer key holds a non-record cell;
   the variant that picks the registry by probing that key for any bytes loses the validator *)
Theorem C20_cross_registry_write : forall H idkey au st w k' i', wkind w <> Some k' ->
  view_cur H idkey au (k_apply_w H idkey st w) k' i' = view_cur H idkey au st k' i'.
Proof. exact cross_registry_write. Qed.
Print Assumptions C20_cross_registry_write.

Theorem C20_typeless_falls_back : forall H idkey au (s : kst) i,
  rd_info (kcur s 1%N (k0 idkey i)) = None ->
  get_miner (view H idkey au s) i =
  match by_id (view H idkey au s) 0%N i with Some x => Some (0%N, x) | None => None end.
Proof. exact typeless_falls_back. Qed.
Print Assumptions C20_typeless_falls_back.

Theorem C20_typeless_probe_refuted : forall H idkey au (s : kst) i n sl,
  kcur s 1%N (k0 idkey i) = Some (CStake n) -> by_id (view H idkey au s) 0%N i = Some sl ->
  get_miner (view H idkey au s) i = Some (0%N, sl) /\ get_miner_probe H idkey au s i = None.
Proof. exact typeless_probe_refuted. Qed.
Print Assumptions C20_typeless_probe_refuted.

(* ---- the hypotheses are satisfiable ---- *)
Example C20_hypotheses_satisfiable :
  universe [1%N; 2%N] [1%N; 2%N] /\ supply_bound (tok 10000) /\
  led_inv [1%N; 2%N] [1%N; 2%N] (tok 10000) (empty_state rich) /\
  boundary (empty_state rich) /\ reg_wf (ids env2) (empty_state rich) /\ acct_unique (empty_state rich) /\
  guarded_chain env2 [(100%N, [TApply 2 true 0 1 400 0 true], [])] (empty_state rich) /\
  registered (run_chain env2 [(100%N, [TApply 2 true 0 1 400 0 true], [])] (empty_state rich)) 0 1.
Proof.
  split; [exact example_universe|]. split; [vm_compute; reflexivity|]. split; [exact example_inv|].
  split; [apply empty_boundary|]. split; [apply empty_reg_wf|]. split; [apply empty_unique|].
  split; [exact example_guarded|]. unfold registered. vm_compute. discriminate.
Qed.

Example C20_keys_disjoint_satisfiable : keys_disjoint (fun x => 10 * x)%N (fun i => 10 * i + 1)%N.
Proof. exact keys_disjoint_example. Qed.
