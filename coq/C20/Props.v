(* C20 property theorems (statements only; proofs in Proofs.v / Unique.v / Ledger.v).
   Property: after any sequence of miner apply / add-stake / refund / change-account (and operator-node)
   transactions, looking a miner up by id, by account or by iterating the registry returns the same record, whose
   stake equals applied + added - refunded; the total stake and proposer count used for leader election equal the
   sum over active records; locked + scheduled + liquid tokens stay constant; an account controls at most one
   miner; a rejected miner transaction changes nothing but the fee. *)
From Coq Require Import List ZArith NArith Lia Bool.
From V.C20 Require Import Model Proofs Unique Ledger.
Import ListNotations.
Local Open Scope Z_scope.

(* ---- the three lookup paths ---- *)
(* At a block boundary (after the flush of IntermediateRoot) and with unique accounts: GetMiner(id) returns the
   record, the iterator of its kind meets it, GetMinerIdByAccount(record.account) returns its id. *)
Theorem C20_views_agree : forall e s k i, boundary s -> reg_wf (ids e) s -> acct_unique s -> registered s k i ->
  get_miner s i = Some (k, cur s k i) /\
  In i (iter_ids e s k) /\
  by_account e s (s_acct (cur s k i)) = Some i.
Proof. exact views_agree. Qed.
Print Assumptions C20_views_agree.

(* Conversely: what GetMinerIdByAccount returns is a registered miner carrying that account, and nil means that
   no registered miner carries it (no uniqueness hypothesis needed). *)
Theorem C20_by_account_sound : forall e s a i, boundary s -> reg_wf (ids e) s -> by_account e s a = Some i ->
  exists k, get_miner s i = Some (k, cur s k i) /\ s_acct (cur s k i) = a /\ In i (iter_ids e s k).
Proof. exact by_account_is_holder. Qed.
Print Assumptions C20_by_account_sound.

Theorem C20_by_account_nil : forall e s a, boundary s -> reg_wf (ids e) s -> by_account e s a = None ->
  forall k i, registered s k i -> s_acct (cur s k i) <> a.
Proof. exact by_account_nil_is_free. Qed.
Print Assumptions C20_by_account_nil.

(* For every history: after any chain of blocks that starts at a boundary and in which the guard holds whenever a
   transaction starts, the three views agree on every registered miner. *)
Theorem C20_history_views_agree : forall e bs s, boundary s -> reg_wf (ids e) s -> acct_unique s ->
  Forall (fun b => block_closed (ids e) (block_txs b)) bs -> guarded_chain e bs s ->
  let s' := run_chain e bs s in
  forall k i, registered s' k i ->
    get_miner s' i = Some (k, cur s' k i) /\ In i (iter_ids e s' k) /\ by_account e s' (s_acct (cur s' k i)) = Some i.
Proof. exact history_views_agree. Qed.
Print Assumptions C20_history_views_agree.

(* ---- totals used for leader election ---- *)
(* GetProposerTotalStakeWithDetail(h) = sum / count over the registered proposer records that are normal and
   whose apply height has been reached. *)
Theorem C20_totals : forall e s h, boundary s ->
  proposer_total e s h = sum_active s 1 h (ids e) /\ proposer_count e s h = count_active s 1 h (ids e).
Proof. exact totals_agree. Qed.
Print Assumptions C20_totals.

(* ---- conservation: liquid + locked + scheduled (+ operator-node charge destroyed) ---- *)
(* every loop iteration (fee, snapshot, Execute, revert on failure), successful or rejected *)
Theorem C20_conservation_tx : forall A I W e h t s, universe A I -> supply_bound W -> tx_closed A I t ->
  led_inv A I W s -> led_inv A I W (fst (run_tx e h t s)).
Proof. exact run_tx_inv. Qed.
Print Assumptions C20_conservation_tx.

(* every history of blocks (transactions, RefundManager.Add of refunds and of the block's rewards, CheckAndMove,
   flush): wealth = initial wealth + the rewards the blocks' after() phases scheduled, balances stay non-negative,
   the registry stays well-formed *)
Theorem C20_conservation : forall A I e bs W s, universe A I -> supply_bound (W + minted_chain bs) ->
  Forall (block_closed_led A I) bs -> led_inv A I W s -> led_inv A I (W + minted_chain bs) (run_chain e bs s).
Proof. exact run_chain_inv. Qed.
Print Assumptions C20_conservation.

(* ---- stake = applied + added - refunded, per miner and per transaction ---- *)
Theorem C20_stake_accounting : forall A I W e h t s i, universe A I -> supply_bound W -> tx_closed A I t ->
  led_inv A I W s ->
  stake_of (fst (run_tx e h t s)) i = stake_of s i + booked t (snd (run_tx e h t s)) s i.
Proof. exact run_tx_stake. Qed.
Print Assumptions C20_stake_accounting.

(* for every history: the stake of miner i after the chain = its stake before + everything the successful
   apply / add / refund transactions of the chain booked for it *)
Theorem C20_stake_history : forall A I e bs W s i, universe A I -> supply_bound (W + minted_chain bs) ->
  Forall (block_closed_led A I) bs -> led_inv A I W s ->
  stake_of (run_chain e bs s) i = stake_of s i + booked_chain e bs s i.
Proof. exact run_chain_stake. Qed.
Print Assumptions C20_stake_history.

(* ---- a rejected transaction changes nothing but the fee ---- *)
(* (in the model the revert is exact; that AccountDB.RevertToSnapshot restores the state is property C04; the
   refund requests of the executor context are outside the snapshot and are shown untouched here) *)
Theorem C20_rejected_noop : forall e h t s s' r, run_tx e h t s = (s', r) -> r <> ROk ->
  (r = REvict /\ s' = s) \/
  (r <> REvict /\ tx_fee <= bal s (tx_src t) /\ same_but_bal s s' /\
   bal s' = add_bal (fst (sub_bal (bal s) (tx_src t) tx_fee)) fee_account tx_fee).
Proof. exact rejected_noop. Qed.
Print Assumptions C20_rejected_noop.

(* ---- an account controls at most one miner ---- *)
(* The unguarded statement is FALSE for the code as written: two MinerApply naming one account in one block both
   succeed (GetMinerIdByAccount iterates the storage trie, which does not hold the first registration yet). *)
Theorem C20_account_unique_refuted :
  exists e h ts s, boundary s /\ reg_wf (ids e) s /\ acct_unique s /\ block_closed (ids e) ts /\
    snd (run_block e h ts [] s) = [ROk; ROk] /\ ~ acct_unique (fst (run_block e h ts [] s)).
Proof. exact account_unique_refuted. Qed.
Print Assumptions C20_account_unique_refuted.

(* ... and through the operator-node transaction, one transaction per block: the executor never asks whether the
   address reported by the main-node contract already carries a miner. *)
Theorem C20_account_unique_refuted_opnode :
  exists e bs s, boundary s /\ reg_wf (ids e) s /\ acct_unique s /\
    Forall (fun b => length (block_txs b) = 1%nat) bs /\ ~ acct_unique (run_chain e bs s).
Proof. exact account_unique_refuted_opnode. Qed.
Print Assumptions C20_account_unique_refuted_opnode.

(* Under the exact guard that excludes the two defects - when the transaction starts, the iterator meets every
   registered miner, and an operator-node target address is carried by nobody - uniqueness is preserved by every
   transaction, successful or not ... *)
Theorem C20_account_unique_step : forall e h t s, reg_wf (ids e) s -> guard e t s -> acct_unique s ->
  acct_unique (fst (run_tx e h t s)).
Proof. exact run_tx_unique. Qed.
Print Assumptions C20_account_unique_step.

(* ... and by every guarded history. *)
Theorem C20_account_unique : forall e bs s, reg_wf (ids e) s -> Forall (fun b => block_closed (ids e) (block_txs b)) bs ->
  guarded_chain e bs s -> acct_unique s ->
  reg_wf (ids e) (run_chain e bs s) /\ acct_unique (run_chain e bs s).
Proof. exact run_chain_unique. Qed.
Print Assumptions C20_account_unique.

(* The guard is not vacuous: it holds for the first transaction of every block unless that is an operator-node
   call, and only a successful MinerApply can break the iterator's completeness for the rest of the block. *)
Theorem C20_guard_at_boundary : forall e t s, boundary s -> opnode_target t = None -> guard e t s.
Proof. exact guard_at_boundary. Qed.
Print Assumptions C20_guard_at_boundary.

Theorem C20_covers_kept : forall e h t s, apply_id t = None -> covers e s -> covers e (fst (run_tx e h t s)).
Proof. exact run_tx_covers. Qed.
Print Assumptions C20_covers_kept.

(* ---- the hypotheses are satisfiable ---- *)
Example C20_hypotheses_satisfiable :
  universe [1%N; 2%N] [1%N; 2%N] /\ supply_bound (tok 10000) /\
  led_inv [1%N; 2%N] [1%N; 2%N] (tok 10000) (empty_state rich) /\
  boundary (empty_state rich) /\ reg_wf (ids env2) (empty_state rich) /\ acct_unique (empty_state rich) /\
  guarded_chain env2 [(100%N, [TApply 2 true 0 1 400 0 true], [])] (empty_state rich) /\
  registered (run_chain env2 [(100%N, [TApply 2 true 0 1 400 0 true], [])] (empty_state rich)) 0 1.
Proof.
  split; [exact example_universe|]. split; [vm_compute; reflexivity|]. split; [exact example_inv|].
  split; [apply empty_boundary|]. split; [apply empty_reg_wf|]. split; [apply empty_unique|].
  split; [exact example_guarded|]. unfold registered. vm_compute. discriminate.
Qed.
