(* C13 — collecting signature pieces that carry the hash they were made for (the king's collection of
   parent-group pieces, tryRecoverParentGroupSig: "gHash diff" pieces are refused before the collector
   sees them).  Running the collector over a multiset of (hash, id, share) pieces is running it over the
   pieces for the current hash only: the refused ones cannot influence the result, whatever their
   position in the arrival order. *)
From mathcomp Require Import all_ssreflect all_algebra.
From V.C13 Require Import Model Proofs.
Set Implicit Arguments. Unset Strict Implicit. Unset Printing Implicit Defensive.
Import GRing.Theory.
Local Open Scope ring_scope.

Section ParentSign.
Variables (F : fieldType) (Hh : eqType).

(* a piece: the hash it signs, and (member id, share, order used if it triggers the recovery) *)
Definition pstep (cur : Hh) (g : @gen F) (m : Hh * (F * F * seq nat)) : @gen F :=
  if m.1 == cur then (gen_add (fops F) eq_op m.2.2 g m.2.1.1 m.2.1.2).1.1 else g.

Definition prun (cur : Hh) (g : @gen F) msgs : @gen F := foldl (pstep cur) g msgs.

Lemma prun_filter cur g msgs :
  prun cur g msgs = grun g [seq m.2 | m <- msgs & m.1 == cur].
Proof.
elim: msgs g => [|m msgs IH] g //=; rewrite /pstep.
by case: ifP => _ /=; rewrite IH.
Qed.

(* two arrival sequences with the same current-hash pieces in the same relative order end in the same state *)
Corollary prun_ignores_other cur g msgs1 msgs2 :
  [seq m.2 | m <- msgs1 & m.1 == cur] = [seq m.2 | m <- msgs2 & m.1 == cur] ->
  prun cur g msgs1 = prun cur g msgs2.
Proof. by rewrite !prun_filter => ->. Qed.

Variables (k : nat) (dealers : seq (seq F)) (h : F).
Hypothesis dealers_k : all (fun cs => size cs <= k)%N dealers.

(* whatever pieces for other hashes are interleaved (valid or not), if the pieces for the current hash are
   members' valid shares the recovered value is the group key's signature, and k different members'
   pieces for the current hash suffice *)
Theorem parent_sign_result cur msgs s :
  (0 < k)%N -> all (fun m => (m.1 == cur) ==> msg_ok k dealers h m.2) msgs ->
  g_sig (prun cur (gen_new k) msgs) = Some s -> s = group_secret (fops F) dealers * h.
Proof.
move=> k0 oks; rewrite prun_filter; apply: (collector_result dealers_k k0).
rewrite all_map all_filter; by apply: sub_all oks => m /=.
Qed.

Theorem parent_sign_live cur msgs :
  (0 < k)%N -> all (fun m => (m.1 == cur) ==> msg_ok k dealers h m.2) msgs ->
  (k <= size (undup [seq m.2.1.1 | m <- msgs & m.1 == cur]))%N ->
  g_sig (prun cur (gen_new k) msgs) <> None.
Proof.
move=> k0 oks kk; rewrite prun_filter.
have oks' : all (msg_ok k dealers h) [seq m.2 | m <- msgs & m.1 == cur].
  by rewrite all_map all_filter; apply: sub_all oks => m /=.
apply: (collector_live dealers_k k0 oks').
by rewrite -map_comp.
Qed.
End ParentSign.
