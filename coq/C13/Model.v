(* C13 — model of the node's threshold key generation and signature recovery
   (src/consensus/groupsig/{seckey,sig}.go, model/group_sign.go, model/param.go,
   logical/group_create/group_node_info.go).

   Everything is written once, over an operations record [ops T]; it is instantiated
   (a) with the operations of an arbitrary field (Proofs.v, mathcomp) for the theorems and
   (b) with arithmetic on Z modulo the curve order (this file) for execution against the
   node (Harness.v).  Signatures live "in the exponent": the share of member i on message m is
   s_i * H(m), so recovery of signatures is the same linear map applied to the scalars s_i. *)
From Coq Require Import ZArith List Bool.
Import ListNotations.

Record ops (T : Type) := Ops {
  o0 : T; o1 : T;
  oadd : T -> T -> T; omul : T -> T -> T; osub : T -> T -> T;
  oinv : T -> T }.
Arguments Ops {T}.
Arguments o0 {T}. Arguments o1 {T}. Arguments oadd {T}. Arguments omul {T}.
Arguments osub {T}. Arguments oinv {T}.

Section Generic.
Context {T : Type} (o : ops T).

(* seckey.go ShareSeckey: secret = msec[k]; for j = k-1 .. 0: secret = secret*x + msec[j].
   [cs] = c0 :: c1 :: ... :: ck (lowest coefficient first, as in the Go slice). *)
Fixpoint eval_poly (cs : list T) (x : T) : T :=
  match cs with
  | [] => o.(o0)
  | c :: cs' =>
      match cs' with
      | [] => c
      | _ :: _ => o.(oadd) (o.(omul) (eval_poly cs' x) x) c
      end
  end.

(* seckey.go AggregateSeckeys / pubkey.go AggregatePubkeys (in the exponent): the sum *)
Fixpoint osum (l : list T) : T :=
  match l with
  | [] => o.(o0)
  | a :: l' => o.(oadd) a (osum l')
  end.

(* sig.go recoverSignature, inner loop over j for a fixed i:
     if j != i { num *= xs[j]; den *= xs[j] - xs[i] } *)
Fixpoint numden (xs : list T) (i : nat) (xi : T) (j : nat) (num den : T) : T * T :=
  match xs with
  | [] => (num, den)
  | xj :: rest =>
      if Nat.eqb j i then numden rest i xi (S j) num den
      else numden rest i xi (S j) (o.(omul) num xj) (o.(omul) den (o.(osub) xj xi))
  end.

(* delta_i = num * den^{-1} *)
Definition delta (xs : list T) (i : nat) : T :=
  let xi := nth i xs o.(o0) in
  let nd := numden xs i xi 0 o.(o1) o.(o1) in
  o.(omul) (fst nd) (o.(oinv) (snd nd)).

(* outer loop: sum_i delta_i * y_i  (y_i = the share; in the code the share signature) *)
Fixpoint recover_aux (xs ys : list T) (i : nat) : T :=
  match ys with
  | [] => o.(o0)
  | y :: ys' => o.(oadd) (o.(omul) (delta xs i) y) (recover_aux xs ys' (S i))
  end.

Definition recover (xs ys : list T) : T := recover_aux xs ys 0.

(* ---- distributed key generation (group_node_info.go) ----
   every dealer d has a coefficient list [dealers_d] of length k (genSecKeyList), sends
   ShareSeckey(coeffs_d, id_j) to member j (genSharePiece) together with the public key of its
   constant coefficient (getSeedPubKey); member j sums what it receives (genMinerSignSecKey),
   the group public key is the sum of the dealers' public keys (genGroupPubKey). *)
Definition member_key (dealers : list (list T)) (x : T) : T :=
  osum (map (fun cs => eval_poly cs x) dealers).

Definition group_secret (dealers : list (list T)) : T :=
  osum (map (fun cs => nth 0 cs o.(o0)) dealers).

(* RecoverGroupSignature takes k entries of the share map — a random k-subset (getRandomKSignInfo)
   in Go-map iteration order.  The choice is a parameter: [sel] lists the positions used. *)
Definition pick {A} (d : A) (sel : list nat) (l : list A) : list A := map (fun i => nth i l d) sel.

Definition recover_sel (sel : list nat) (xs ys : list T) : T :=
  recover (pick o.(o0) sel xs) (pick o.(o0) sel ys).

(* ---- model/group_sign.go GroupSignGenerator (in the exponent) ----
   [g_map] = witnessSignMap in arrival order (the Go map has no order; the order in which
   recoverSignature sees the entries is the parameter [sel] below), [g_sig] = groupSign once
   recovered.  [ideq] compares member ids (map keys: id.GetHexString()). *)
Variable ideq : T -> T -> bool.

Record gen := Gen { g_thr : nat; g_map : list (T * T); g_sig : option T }.

Definition gen_new (thr : nat) : gen := Gen thr [] None.

Fixpoint has_id (id : T) (m : list (T * T)) : bool :=
  match m with [] => false | (i, _) :: m' => ideq i id || has_id id m' end.

(* AddWitnessSign: refused once recovered (SignRecovered); duplicates refused (addWitnessForce);
   when the map reaches the threshold, genGroupSign -> RecoverGroupSignature over the entries at
   positions [sel].  Result: (state, add, generated). *)
Definition gen_add (sel : list nat) (g : gen) (id s : T) : gen * bool * bool :=
  match g.(g_sig) with
  | Some _ => (g, false, true)
  | None =>
      if has_id id g.(g_map) then (g, false, false)
      else
        let m := g.(g_map) ++ [(id, s)] in
        if Nat.leb g.(g_thr) (length m) then
          (Gen g.(g_thr) m (Some (recover_sel sel (map fst m) (map snd m))), true, true)
        else (Gen g.(g_thr) m None, true, false)
  end.

End Generic.

(* ---- instance: integers modulo q (q = bn256.Order in the node) ---- *)

(* big.Int.ModInverse by the extended Euclidean algorithm; invariant t_i * a = r_i (mod q).
   [None] = out of fuel (excluded by ModInv.inv_loop_fuel). *)
Fixpoint inv_loop (n : nat) (r0 r1 t0 t1 : Z) : option (Z * Z) :=
  match n with
  | O => None
  | S n' =>
      if (r1 =? 0)%Z then Some (r0, t0)
      else let k := (r0 / r1)%Z in inv_loop n' r1 (r0 - k * r1)%Z t1 (t0 - k * t1)%Z
  end.

Definition inv_fuel (q : Z) : nat := 2 * Z.to_nat (Z.log2 q) + 4.

(* Go: den.ModInverse(den, q) leaves den unchanged when it has no inverse *)
Definition modinv (q a : Z) : Z :=
  let a' := (a mod q)%Z in
  match inv_loop (inv_fuel q) q a' 0 1 with
  | Some (g, t) => if (g =? 1)%Z then (t mod q)%Z else a'
  | None => a'
  end.

Definition zq (q : Z) : ops Z :=
  Ops 0%Z (1 mod q)%Z
      (fun a b => ((a + b) mod q)%Z) (fun a b => ((a * b) mod q)%Z)
      (fun a b => ((a - b) mod q)%Z) (modinv q).

(* bn256/constants.go: Order *)
Definition curve_order : Z :=
  65000549695646603732796438742359905742570406053903786389881062969044166799969%Z.

(* NewSeckeyFromBigInt reduces once more *)
Definition share_seckey (q : Z) (coeffs : list Z) (id : Z) : Z := (eval_poly (zq q) coeffs id mod q)%Z.
Definition aggregate_seckeys (q : Z) (l : list Z) : Z := (osum (zq q) l mod q)%Z.
Definition recover_z (q : Z) (xs ys : list Z) : Z := (recover (zq q) xs ys mod q)%Z.

(* ---- threshold: param.go GetGroupK = int(math.Ceil(float64(n*51) / 100)) ----
   modelled in integers; the float64 quotient of two integers below 2^53 is within 2^-53 relative
   error of the real quotient, which for a non-integral n*51/100 is at least 1/100 away from every
   integer, so Ceil sees the same integer part (stated as the model, tied by the harness for every
   n up to 10^6). *)
Definition ssss_threshold : Z := 51.
Definition group_k (n : Z) : Z := ((n * ssss_threshold + 99) / 100)%Z.

Definition group_member_min_dev : Z := 3.   (* param.go: GroupMemberMin in dev; 5 otherwise *)
Definition group_member_max : Z := 10.      (* GROUP_MAX_MEMBERS; configurable upper bound below *)
Definition group_member_max_cfg : Z := 1000.

(* the order used by the executable model: all entries, in arrival order *)
Definition all_positions (thr : nat) : list nat := seq 0 thr.

(* ======================================================================================
   Additions (group level, the code's own subset selection, the DKG node state machine)
   ====================================================================================== *)

(* ---- sig.go recoverSignature at the level of group elements ----
   [G] = bn256.G1 with its operations: the zero value / point at infinity, Add, ScalarMult by a scalar.
     sig := nil; for i: new_sig := sigs[i] * delta_i; if i == 0 { sig = new_sig } else { sig.add(new_sig) } *)
Record gops (T G : Type) := GOps { gzero : G; gadd : G -> G -> G; gsmul : T -> G -> G }.
Arguments GOps {T G}.
Arguments gzero {T G}. Arguments gadd {T G}. Arguments gsmul {T G}.

Section GroupLevel.
Context {T G : Type} (o : ops T) (go : gops T G).

Fixpoint recover_sig_loop (xs : list T) (sigs : list G) (i : nat) (acc : G) : G :=
  match sigs with
  | [] => acc
  | s :: rest => recover_sig_loop xs rest (S i) (go.(gadd) acc (go.(gsmul) (delta o xs i) s))
  end.

Definition recover_sig (xs : list T) (sigs : list G) : G :=
  match sigs with
  | [] => go.(gzero)
  | s0 :: rest => recover_sig_loop xs rest 1 (go.(gsmul) (delta o xs 0) s0)
  end.

(* Sign(sec, msg) = H(msg) * sec; GeneratePubkey(sec) = g2 * sec; AggregatePubkeys = sum *)
Definition sign_g (sk : T) (hm : G) : G := go.(gsmul) sk hm.

(* pub := pubs[0]; for i >= 1: pub.add(pubs[i]) *)
Definition gsum (l : list G) : G :=
  match l with
  | [] => go.(gzero)
  | a :: l' => fold_left go.(gadd) l' a
  end.
End GroupLevel.

(* ---- base.Rand.RandomPerm(n, k) and sig.go getRandomKSignInfo / RecoverGroupSignature ----
     l := [0..n); for i < k { j := r.Deri(i).Modulo(n-i) + i; l[i], l[j] = l[j], l[i] }; return l[:k]
   the derived random numbers are the parameter [js] (js_i = the j of round i). *)
Fixpoint upd {A} (l : list A) (i : nat) (v : A) : list A :=
  match l, i with
  | [], _ => []
  | _ :: t, O => v :: t
  | h :: t, S i' => h :: upd t i' v
  end.

Definition swap (l : list nat) (i j : nat) : list nat :=
  let a := nth i l 0%nat in let b := nth j l 0%nat in upd (upd l i b) j a.

Fixpoint perm_steps (l : list nat) (i : nat) (js : list nat) : list nat :=
  match js with
  | [] => l
  | j :: js' => perm_steps (swap l i j) (S i) js'
  end.

Definition random_perm (n k : nat) (js : list nat) : list nat :=
  firstn k (perm_steps (seq 0 n) 0 (firstn k js)).

(* sort.Ints *)
Fixpoint ins_nat (a : nat) (l : list nat) : list nat :=
  match l with
  | [] => [a]
  | b :: t => if Nat.leb a b then a :: l else b :: ins_nat a t
  end.
Definition sort_ints (l : list nat) : list nat := fold_right ins_nat [] l.

(* getRandomKSignInfo's loop over the map (entries in this iteration's order):
     i, j := 0, 0; for key, sign := range m { if i == indexs[j] { ret[key] = sign; j++; if j >= k { break } }; i++ } *)
Fixpoint select_loop {A} (entries : list A) (idx : list nat) (i : nat) : list A :=
  match entries, idx with
  | _, [] => []
  | [], _ => []
  | e :: es, ix :: idx' =>
      if Nat.eqb i ix then e :: select_loop es idx' (S i) else select_loop es idx (S i)
  end.

(* RecoverGroupSignature(memberSignMap, k): which positions of a reference list of the n map entries
   end up, in which order, in ids[]/sigs[].  [pi1] = iteration order of the map inside
   getRandomKSignInfo (when k < n), else of the loop in RecoverGroupSignature; [pi2] = iteration
   order of the k-entry map returned by getRandomKSignInfo; the loop stops after k entries. *)
Definition code_selection (n k : nat) (pi1 js pi2 : list nat) : list nat :=
  if Nat.ltb k n then
    pick 0%nat pi2 (select_loop pi1 (sort_ints (random_perm n k js)) 0)
  else firstn k pi1.

(* ---- group_node_info.go: one member's pool of received share pieces ----
   receivedSharePiece: dealer id -> (share, dealer's seed public key (in the exponent)).
   handleSharePiece: -1 for a second piece of the same dealer; when the pool holds groupMemberNum
   pieces: aggregateKeys (sums over the Go map, iteration orders [ord1] for genGroupPubKey and [ord2]
   for genMinerSignSecKey) and 1 (or -1 when the aggregated secret key is not IsValid, i.e. 0);
   otherwise 0. *)
Section Node.
Context {T : Type} (o : ops T) (ideq : T -> T -> bool) (iszero : T -> bool).

Record node := Node { n_num : nat; n_pool : list (T * (T * T)); n_sk : T; n_gpk : T; n_done : bool }.

Definition node_new (n : nat) : node := Node n [] o.(o0) o.(o0) false.

Fixpoint pool_has (id : T) (p : list (T * (T * T))) : bool :=
  match p with [] => false | (i, _) :: p' => ideq i id || pool_has id p' end.

Definition node_handle (ord1 ord2 : list nat) (nd : node) (id share pub : T) : node * Z :=
  if pool_has id nd.(n_pool) then (nd, (-1)%Z)
  else
    let pool := nd.(n_pool) ++ [(id, (share, pub))] in
    if Nat.eqb (length pool) nd.(n_num) then
      let d := (o.(o0), (o.(o0), o.(o0))) in
      let gpk := osum o (map (fun e => snd (snd e)) (pick d ord1 pool)) in
      let sk := osum o (map (fun e => fst (snd e)) (pick d ord2 pool)) in
      (Node nd.(n_num) pool sk gpk true, if iszero sk then (-1)%Z else 1%Z)
    else (Node nd.(n_num) pool nd.(n_sk) nd.(n_gpk) nd.(n_done), 0%Z).

(* genSharePiece + getSeedPubKey of dealer (id, coefficients) for the member with id x *)
Definition piece_for (x : T) (dealer : T * list T) : T * T * T :=
  (fst dealer, eval_poly o (snd dealer) x, nth 0 (snd dealer) o.(o0)).
End Node.
