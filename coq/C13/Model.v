(* C13 — model of the node's threshold key generation and signature recovery
   (src/consensus/groupsig/{seckey,sig}.go, model/group_sign.go, model/param.go,
   logical/group_create/group_node_info.go).

   Everything is written once, over an operations record [ops T]; it is instantiated
   (a) with the operations of an arbitrary field (Proofs.v, mathcomp) for the theorems and
   (b) with arithmetic on Z modulo the curve order (this file) for execution against the
   node (Harness.v).  Signatures live "in the exponent": the share of member i on message m is
   s_i * H(m), so recovery of signatures is the same linear map applied to the scalars s_i. *)
From Coq Require Import ZArith List Bool.
Import ListNotations.

Record ops (T : Type) := Ops {
  o0 : T; o1 : T;
  oadd : T -> T -> T; omul : T -> T -> T; osub : T -> T -> T;
  oinv : T -> T }.
Arguments Ops {T}.
Arguments o0 {T}. Arguments o1 {T}. Arguments oadd {T}. Arguments omul {T}.
Arguments osub {T}. Arguments oinv {T}.

Section Generic.
Context {T : Type} (o : ops T).

(* seckey.go ShareSeckey: secret = msec[k]; for j = k-1 .. 0: secret = secret*x + msec[j].
   [cs] = c0 :: c1 :: ... :: ck (lowest coefficient first, as in the Go slice). *)
Fixpoint eval_poly (cs : list T) (x : T) : T :=
  match cs with
  | [] => o.(o0)
  | c :: cs' =>
      match cs' with
      | [] => c
      | _ :: _ => o.(oadd) (o.(omul) (eval_poly cs' x) x) c
      end
  end.

(* seckey.go AggregateSeckeys / pubkey.go AggregatePubkeys (in the exponent): the sum *)
Fixpoint osum (l : list T) : T :=
  match l with
  | [] => o.(o0)
  | a :: l' => o.(oadd) a (osum l')
  end.

(* sig.go recoverSignature, inner loop over j for a fixed i:
     if j != i { num *= xs[j]; den *= xs[j] - xs[i] } *)
Fixpoint numden (xs : list T) (i : nat) (xi : T) (j : nat) (num den : T) : T * T :=
  match xs with
  | [] => (num, den)
  | xj :: rest =>
      if Nat.eqb j i then numden rest i xi (S j) num den
      else numden rest i xi (S j) (o.(omul) num xj) (o.(omul) den (o.(osub) xj xi))
  end.

(* delta_i = num * den^{-1} *)
Definition delta (xs : list T) (i : nat) : T :=
  let xi := nth i xs o.(o0) in
  let nd := numden xs i xi 0 o.(o1) o.(o1) in
  o.(omul) (fst nd) (o.(oinv) (snd nd)).

(* outer loop: sum_i delta_i * y_i  (y_i = the share; in the code the share signature) *)
Fixpoint recover_aux (xs ys : list T) (i : nat) : T :=
  match ys with
  | [] => o.(o0)
  | y :: ys' => o.(oadd) (o.(omul) (delta xs i) y) (recover_aux xs ys' (S i))
  end.

Definition recover (xs ys : list T) : T := recover_aux xs ys 0.

(* ---- distributed key generation (group_node_info.go) ----
   every dealer d has a coefficient list [dealers_d] of length k (genSecKeyList), sends
   ShareSeckey(coeffs_d, id_j) to member j (genSharePiece) together with the public key of its
   constant coefficient (getSeedPubKey); member j sums what it receives (genMinerSignSecKey),
   the group public key is the sum of the dealers' public keys (genGroupPubKey). *)
Definition member_key (dealers : list (list T)) (x : T) : T :=
  osum (map (fun cs => eval_poly cs x) dealers).

Definition group_secret (dealers : list (list T)) : T :=
  osum (map (fun cs => nth 0 cs o.(o0)) dealers).

(* RecoverGroupSignature takes k entries of the share map — a random k-subset (getRandomKSignInfo)
   in Go-map iteration order.  The choice is a parameter: [sel] lists the positions used. *)
Definition pick {A} (d : A) (sel : list nat) (l : list A) : list A := map (fun i => nth i l d) sel.

Definition recover_sel (sel : list nat) (xs ys : list T) : T :=
  recover (pick o.(o0) sel xs) (pick o.(o0) sel ys).

(* ---- model/group_sign.go GroupSignGenerator (in the exponent) ----
   [g_map] = witnessSignMap in arrival order (the Go map has no order; the order in which
   recoverSignature sees the entries is the parameter [sel] below), [g_sig] = groupSign once
   recovered.  [ideq] compares member ids (map keys: id.GetHexString()). *)
Variable ideq : T -> T -> bool.

Record gen := Gen { g_thr : nat; g_map : list (T * T); g_sig : option T }.

Definition gen_new (thr : nat) : gen := Gen thr [] None.

Fixpoint has_id (id : T) (m : list (T * T)) : bool :=
  match m with [] => false | (i, _) :: m' => ideq i id || has_id id m' end.

(* AddWitnessSign: refused once recovered (SignRecovered); duplicates refused (addWitnessForce);
   when the map reaches the threshold, genGroupSign -> RecoverGroupSignature over the entries at
   positions [sel].  Result: (state, add, generated). *)
Definition gen_add (sel : list nat) (g : gen) (id s : T) : gen * bool * bool :=
  match g.(g_sig) with
  | Some _ => (g, false, true)
  | None =>
      if has_id id g.(g_map) then (g, false, false)
      else
        let m := g.(g_map) ++ [(id, s)] in
        if Nat.leb g.(g_thr) (length m) then
          (Gen g.(g_thr) m (Some (recover_sel sel (map fst m) (map snd m))), true, true)
        else (Gen g.(g_thr) m None, true, false)
  end.

End Generic.

(* ---- instance: integers modulo q (q = bn256.Order in the node) ---- *)

(* big.Int.ModInverse by the extended Euclidean algorithm; invariant t_i * a = r_i (mod q).
   [None] = out of fuel (excluded by ModInv.inv_loop_fuel). *)
Fixpoint inv_loop (n : nat) (r0 r1 t0 t1 : Z) : option (Z * Z) :=
  match n with
  | O => None
  | S n' =>
      if (r1 =? 0)%Z then Some (r0, t0)
      else let k := (r0 / r1)%Z in inv_loop n' r1 (r0 - k * r1)%Z t1 (t0 - k * t1)%Z
  end.

Definition inv_fuel (q : Z) : nat := 2 * Z.to_nat (Z.log2 q) + 4.

(* Go: den.ModInverse(den, q) leaves den unchanged when it has no inverse *)
Definition modinv (q a : Z) : Z :=
  let a' := (a mod q)%Z in
  match inv_loop (inv_fuel q) q a' 0 1 with
  | Some (g, t) => if (g =? 1)%Z then (t mod q)%Z else a'
  | None => a'
  end.

Definition zq (q : Z) : ops Z :=
  Ops 0%Z (1 mod q)%Z
      (fun a b => ((a + b) mod q)%Z) (fun a b => ((a * b) mod q)%Z)
      (fun a b => ((a - b) mod q)%Z) (modinv q).

(* bn256/constants.go: Order *)
Definition curve_order : Z :=
  65000549695646603732796438742359905742570406053903786389881062969044166799969%Z.

(* NewSeckeyFromBigInt reduces once more *)
Definition share_seckey (q : Z) (coeffs : list Z) (id : Z) : Z := (eval_poly (zq q) coeffs id mod q)%Z.
Definition aggregate_seckeys (q : Z) (l : list Z) : Z := (osum (zq q) l mod q)%Z.
Definition recover_z (q : Z) (xs ys : list Z) : Z := (recover (zq q) xs ys mod q)%Z.

(* ---- threshold: param.go GetGroupK = int(math.Ceil(float64(n*51) / 100)) ----
   modelled in integers; the float64 quotient of two integers below 2^53 is within 2^-53 relative
   error of the real quotient, which for a non-integral n*51/100 is at least 1/100 away from every
   integer, so Ceil sees the same integer part (stated as the model, tied by the harness for every
   n up to 10^6). *)
Definition ssss_threshold : Z := 51.
Definition group_k (n : Z) : Z := ((n * ssss_threshold + 99) / 100)%Z.

Definition group_member_min_dev : Z := 3.   (* param.go: GroupMemberMin in dev; 5 otherwise *)
Definition group_member_max : Z := 10.      (* GROUP_MAX_MEMBERS; configurable upper bound below *)
Definition group_member_max_cfg : Z := 1000.

(* the order used by the executable model: all entries, in arrival order *)
Definition all_positions (thr : nat) : list nat := seq 0 thr.
