(* C13 — the member's share pool (group_node_info.go handleSharePiece / aggregateKeys): whatever the
   order in which the dealers' pieces arrive (duplicates included) and whatever the Go-map iteration
   orders used by the two aggregation loops, a member that completes holds
   sum_d f_d(x) as its signing key and sum_d f_d(0) (in the exponent) as the group public key. *)
From mathcomp Require Import all_ssreflect all_algebra zify.
From V.C13 Require Import Model Proofs Select.
Set Implicit Arguments. Unset Strict Implicit. Unset Printing Implicit Defensive.
Import GRing.Theory.
Local Open Scope ring_scope.

Lemma is_perm_iota n l : is_perm n l -> perm_eq l (iota 0 n).
Proof.
move=> /and3P [/eqP sz u a]; apply: uniq_perm; rewrite ?iota_uniq //.
have sub : {subset l <= iota 0 n} by move=> y /(allP a); rewrite mem_iota.
by have [] := uniq_min_size u sub; rewrite size_iota sz.
Qed.

Lemma pick_perm (A : eqType) (d : A) (l : seq A) ord : is_perm (size l) ord -> perm_eq (pick d ord l) l.
Proof.
move=> /is_perm_iota p; rewrite pickE.
have E : [seq nth d l i | i <- iota 0 (size l)] = l by exact: mkseq_nth.
by rewrite -{2}E; exact: perm_map.
Qed.

Section NodeF.
Variable F : fieldType.
Variables (x : F) (ds : seq (F * seq F)).
Hypothesis uds : uniq (map fst ds).
Let n := size ds.
Let dealers := map snd ds.
Notation handle := (node_handle (fops F) eq_op (fun z : F => z == 0)).

(* the pool entry the dealer with index d sends to the member with id x *)
Definition pc (d : nat) : F * (F * F) :=
  let p := piece_for (fops F) x (nth (0, [::]) ds d) in (p.1.1, (p.1.2, p.2)).

Definition nstep (nd : @node F) (m : nat * seq nat * seq nat) : @node F :=
  (handle m.1.2 m.2 nd (pc m.1.1).1 (pc m.1.1).2.1 (pc m.1.1).2.2).1.
Definition nrun (nd : @node F) msgs : @node F := foldl nstep nd msgs.

Definition nmsg_ok (m : nat * seq nat * seq nat) : bool :=
  [&& (m.1.1 < n)%N, is_perm n m.1.2 & is_perm n m.2].

Definition ninv (P : seq nat) (nd : @node F) : Prop :=
  n_num nd = n /\
  exists2 seen : seq nat,
    [/\ uniq seen, all (fun d => d < n)%N seen, n_pool nd = map pc seen & {subset P <= seen}] &
    if n_done nd then
      [/\ size seen = n, n_sk nd = member_key (fops F) dealers x
        & n_gpk nd = group_secret (fops F) dealers]
    else (size seen < n)%N.

Lemma pool_hasE z (p : seq (F * (F * F))) : pool_has eq_op z p = (z \in map fst p).
Proof. by elim: p => [|[i s] p IH] //=; rewrite IH inE eq_sym. Qed.

Lemma pc_fst d : (pc d).1 = nth 0 (map fst ds) d.
Proof.
rewrite /pc /piece_for /=; case: (ltnP d (size ds)) => dl; first by rewrite (nth_map (0, [::])).
by rewrite !nth_default ?size_map.
Qed.

Lemma pc_sk d : (pc d).2.1 = eval_poly (fops F) (nth (0, [::]) ds d).2 x.
Proof. by []. Qed.
Lemma pc_pk d : (pc d).2.2 = List.nth 0 (nth (0, [::]) ds d).2 0.
Proof. by []. Qed.
Opaque pc.

Lemma sum_seen (f : F * seq F -> F) seen :
  is_perm n seen -> \sum_(d <- seen) f (nth (0, [::]) ds d) = \sum_(e <- ds) f e.
Proof.
move=> /is_perm_iota p; rewrite (perm_big _ p) /= [RHS](big_nth (0, [::])) -/n.
by rewrite /index_iota subn0.
Qed.

Lemma nstep_inv P nd m : ninv P nd -> nmsg_ok m -> ninv (m.1.1 :: P) (nstep nd m).
Proof.
case: m => [[d ord1] ord2] [num [seen [us als pool sub] dn]] /and3P /= [dlt p1 p2].
rewrite /nstep /node_handle /= pool_hasE pool -map_comp.
have -> : ((pc d).1 \in [seq (fst \o pc) i | i <- seen]) = (d \in seen).
  apply/mapP/idP => [[d' d'in /=]|din]; last by exists d.
  rewrite !pc_fst => /eqP; rewrite nth_uniq ?size_map //; first by move=> /eqP ->.
  exact: (allP als).
case: ifP => [din|/negbT dnin].
  by split => //; exists seen => //; split => // y; rewrite inE => /orP [/eqP ->|/sub].
have sub' : {subset d :: P <= seen ++ [:: d]}.
  by move=> y; rewrite inE mem_cat inE => /orP [->|/sub ->] //; rewrite orbT.
have us' : uniq (seen ++ [:: d]) by rewrite cat_uniq us /= orbF andbT dnin.
have als' : all (fun d => d < n)%N (seen ++ [:: d]) by rewrite all_cat als /= dlt.
have pool' : (map pc seen ++ [:: ((pc d).1, ((pc d).2.1, (pc d).2.2))])%list = map pc (seen ++ [:: d]).
  by rewrite lappE map_cat /=; case: (pc d) => a [b c].
have szle : (size (seen ++ [:: d]) <= n)%N.
  rewrite -(size_iota 0 n); apply: uniq_leq_size => // y /(allP als').
  by rewrite mem_iota.
have ndone : n_done nd = false.
  case E: (n_done nd) dn => //; case=> szn _ _.
  by move: szle; rewrite size_cat /= szn; lia.
rewrite ndone in dn.
rewrite pool' llenE size_map num eqbE; case: eqP => [szn|szne] /=; last first.
  split => //; exists (seen ++ [:: d]) => //; rewrite ndone.
  by move: szle szne; rewrite size_cat /=; lia.
split => //; exists (seen ++ [:: d]) => //.
have PP : is_perm n (seen ++ [:: d]) by rewrite /is_perm szn eqxx us' als'.
have szp : size (map pc (seen ++ [:: d])) = n by rewrite size_map.
split => //.
- rewrite /= lmapE osumE big_map (perm_big _ (pick_perm _ _)) ?szp //= big_map.
  rewrite (eq_bigr _ (fun i _ => pc_sk i)).
  rewrite (sum_seen (fun e => eval_poly (fops F) e.2 x)) //.
  by rewrite /member_key lmapE osumE /dealers !big_map.
rewrite /= lmapE osumE big_map (perm_big _ (pick_perm _ _)) ?szp //= big_map.
rewrite (eq_bigr _ (fun i _ => pc_pk i)).
rewrite (sum_seen (fun e => List.nth 0 e.2 0)) //.
by rewrite /group_secret lmapE osumE /dealers !big_map.
Qed.

Lemma ninv_new : (0 < n)%N -> ninv [::] (node_new (fops F) n).
Proof. by move=> n0; split => //; exists [::]. Qed.

Lemma nrun_inv P nd msgs :
  ninv P nd -> all nmsg_ok msgs -> ninv (rev (map (fun m => m.1.1) msgs) ++ P) (nrun nd msgs).
Proof.
elim: msgs P nd => [|m msgs IH] P nd //= inv /andP [ok oks].
by rewrite rev_cons cat_rcons; apply: IH oks; apply: nstep_inv.
Qed.

(* safety: a member that has completed holds the right keys *)
Theorem node_keys msgs :
  (0 < n)%N -> all nmsg_ok msgs ->
  let nd := nrun (node_new (fops F) n) msgs in
  n_done nd ->
  n_sk nd = member_key (fops F) dealers x /\ n_gpk nd = group_secret (fops F) dealers.
Proof.
move=> n0 oks /=; have [_ [seen _]] := nrun_inv (ninv_new n0) oks.
by case: (n_done _) => // [[_ -> ->]].
Qed.

(* liveness: once a piece of every dealer has been handled (any order, duplicates allowed) the member
   has completed *)
Theorem node_completes msgs :
  (0 < n)%N -> all nmsg_ok msgs -> {subset iota 0 n <= map (fun m => m.1.1) msgs} ->
  n_done (nrun (node_new (fops F) n) msgs).
Proof.
move=> n0 oks all_in; have [_ [seen [us _ _ sub]]] := nrun_inv (ninv_new n0) oks.
case: (n_done _) => // lt.
have : {subset iota 0 n <= seen} by move=> y /all_in yin; apply: sub; rewrite cats0 mem_rev.
by move=> /(uniq_leq_size (iota_uniq 0 n)); rewrite size_iota => le; move: lt; rewrite ltnNge le.
Qed.
End NodeF.
