(* C13 — the threshold function GetGroupK (model/param.go). Plain Coq. *)
From Coq Require Import ZArith List Lia Bool.
From V.C13 Require Import Model.
Import ListNotations.
Local Open Scope Z_scope.

(* group_k n = ceil(51 n / 100) *)
Lemma group_k_ceil n : 100 * (group_k n - 1) < 51 * n <= 100 * group_k n.
Proof. unfold group_k, ssss_threshold. Z.div_mod_to_equations. lia. Qed.

Lemma group_k_le n : 1 <= n -> 1 <= group_k n <= n.
Proof. unfold group_k, ssss_threshold. Z.div_mod_to_equations. lia. Qed.

(* any two sets of group_k n members out of n intersect (strict majority) *)
Lemma group_k_majority n : 1 <= n -> n < 2 * group_k n.
Proof. unfold group_k, ssss_threshold. Z.div_mod_to_equations. lia. Qed.

(* ---- the float64 path of GetGroupK, in integers ----
   Go: int(math.Ceil(float64(x) / 100)) with x = n*51.  For 0 < x, d < 2^53 both conversions are
   exact; the quotient is rounded to nearest-even at 53 significant bits: with s such that
   2^52 <= x*2^s/d < 2^53, the result is m / 2^s where m = round_half_even(x*2^s/d). *)
Definition fdiv_ceil (x d : Z) : Z :=
  if x <=? 0 then 0 else
  let s0 := 52 - (Z.log2 x - Z.log2 d) in
  let s := if x * 2 ^ s0 <? 2 ^ 52 * d then s0 + 1 else s0 in
  let num := x * 2 ^ s in
  let q0 := num / d in
  let rem := num mod d in
  let m := if (d <? 2 * rem) || ((2 * rem =? d) && Z.odd q0) then q0 + 1 else q0 in
  (m + 2 ^ s - 1) / 2 ^ s.

Definition group_k_float (n : Z) : Z := fdiv_ceil (n * ssss_threshold) 100.

Definition range (n : nat) : list Z := map Z.of_nat (seq 0 n).

Lemma range_in n z : 0 <= z < Z.of_nat n -> In z (range n).
Proof.
  intro H. unfold range. apply in_map_iff. exists (Z.to_nat z). split; [lia|].
  apply in_seq. lia.
Qed.

Lemma group_k_float_ok_b : forallb (fun n => group_k_float n =? group_k n) (range 2001) = true.
Proof. vm_compute. reflexivity. Qed.

(* for every group size the node can be configured with (bound stated: n <= 2000) the float
   computation and the integer ceiling agree *)
Lemma group_k_float_ok n : 0 <= n <= 2000 -> group_k_float n = group_k n.
Proof.
  intro H. pose proof group_k_float_ok_b as Hb. rewrite forallb_forall in Hb.
  apply Z.eqb_eq, Hb, range_in. lia.
Qed.
