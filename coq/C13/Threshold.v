(* C13 — the threshold function GetGroupK (model/param.go). Plain Coq. *)
From Coq Require Import ZArith List Lia Bool.
From V.C13 Require Import Model.
Import ListNotations.
Local Open Scope Z_scope.

(* group_k n = ceil(51 n / 100) *)
Lemma group_k_ceil n : 100 * (group_k n - 1) < 51 * n <= 100 * group_k n.
Proof. unfold group_k, ssss_threshold. Z.div_mod_to_equations. lia. Qed.

Lemma group_k_le n : 1 <= n -> 1 <= group_k n <= n.
Proof. unfold group_k, ssss_threshold. Z.div_mod_to_equations. lia. Qed.

(* any two sets of group_k n members out of n intersect (strict majority) *)
Lemma group_k_majority n : 1 <= n -> n < 2 * group_k n.
Proof. unfold group_k, ssss_threshold. Z.div_mod_to_equations. lia. Qed.

(* ---- the float64 path of GetGroupK, in integers ----
   Go: int(math.Ceil(float64(x) / 100)) with x = n*51.  For 0 < x, d < 2^53 both conversions are
   exact; the quotient is rounded to nearest-even at 53 significant bits: with s such that
   2^52 <= x*2^s/d < 2^53, the result is m / 2^s where m = round_half_even(x*2^s/d). *)
Definition fdiv_ceil (x d : Z) : Z :=
  if x <=? 0 then 0 else
  let s0 := 52 - (Z.log2 x - Z.log2 d) in
  let s := if x * 2 ^ s0 <? 2 ^ 52 * d then s0 + 1 else s0 in
  let num := x * 2 ^ s in
  let q0 := num / d in
  let rem := num mod d in
  let m := if (d <? 2 * rem) || ((2 * rem =? d) && Z.odd q0) then q0 + 1 else q0 in
  (m + 2 ^ s - 1) / 2 ^ s.

Definition group_k_float (n : Z) : Z := fdiv_ceil (n * ssss_threshold) 100.

Definition range (n : nat) : list Z := map Z.of_nat (seq 0 n).

Lemma range_in n z : 0 <= z < Z.of_nat n -> In z (range n).
Proof.
  intro H. unfold range. apply in_map_iff. exists (Z.to_nat z). split; [lia|].
  apply in_seq. lia.
Qed.

Lemma group_k_float_ok_b : forallb (fun n => group_k_float n =? group_k n) (range 2001) = true.
Proof. vm_compute. reflexivity. Qed.

(* for every group size the node can be configured with (bound stated: n <= 2000) the float
   computation and the integer ceiling agree *)
Lemma group_k_float_ok n : 0 <= n <= 2000 -> group_k_float n = group_k n.
Proof.
  intro H. pose proof group_k_float_ok_b as Hb. rewrite forallb_forall in Hb.
  apply Z.eqb_eq, Hb, range_in. lia.
Qed.

(* ---- the general statement: no bound from a finite sweep ----
   For 0 < x < 2^52 the scaling exponent s is at least 7 (x < 2^52, 100 >= 2^6), so one unit in the
   last place of the quotient is at most 2^-7 while a non-integral x/100 is at least 1/100 away from
   every integer: the rounded quotient m/2^s lies strictly between the same two integers as x/100
   (and is exact when 100 | x), hence Ceil sees the same value. *)
Lemma fdiv_ceil_100 x : 0 <= x < 2 ^ 52 -> fdiv_ceil x 100 = (x + 99) / 100.
Proof.
  intros [x0 xlt]. unfold fdiv_ceil.
  destruct (Z.leb_spec x 0) as [xle|xpos].
  - assert (x = 0) by lia. subst x. reflexivity.
  - assert (Hl : Z.log2 x < 52) by (apply Z.log2_lt_pow2; lia).
    change (Z.log2 100) with 6.
    set (s0 := 52 - (Z.log2 x - 6)).
    set (s := if x * 2 ^ s0 <? 2 ^ 52 * 100 then s0 + 1 else s0).
    assert (Hs : 7 <= s) by (unfold s, s0; destruct (_ <? _); lia).
    assert (HP : 128 <= 2 ^ s) by (change 128 with (2 ^ 7); apply Z.pow_le_mono_r; lia).
    set (P := 2 ^ s) in *. clearbody P. clear s0 s Hs Hl.
    set (c := (x + 99) / 100).
    assert (Hc : 100 * (c - 1) < x <= 100 * c) by (unfold c; Z.div_mod_to_equations; lia).
    clearbody c.
    pose proof (Z.div_mod (x * P) 100 ltac:(lia)) as Hdm.
    pose proof (Z.mod_pos_bound (x * P) 100 ltac:(lia)) as Hrem.
    set (q0 := x * P / 100) in *. set (rem := (x * P) mod 100) in *. clearbody q0 rem.
    (* the two products, linearised *)
    assert (H1 : 100 * (P * (c - 1)) + P <= x * P) by nia.
    assert (H2 : x * P <= 100 * (P * c)) by nia.
    assert (Hb : P * c = P * (c - 1) + P) by ring.
    set (a := P * (c - 1)) in *. set (b := P * c) in *. set (xp := x * P) in *.
    assert (Hbdef : P * c = b) by reflexivity.
    clearbody a b xp.
    set (m := if (100 <? 2 * rem) || ((2 * rem =? 100) && Z.odd q0) then q0 + 1 else q0).
    assert (Hm : a < m <= b).
    { unfold m. destruct (Z.ltb_spec 100 (2 * rem)); cbn [orb]; cbv iota.
      - lia.
      - destruct (Z.eqb_spec (2 * rem) 100); cbn [andb]; [destruct (Z.odd q0)|]; cbv iota; lia. }
    clearbody m.
    symmetry. apply Z.div_unique with (r := m - 1 - a); lia.
Qed.

(* GetGroupK's float64 computation equals the integer ceiling for every n with 51 n < 2^52
   (n below 8.8 * 10^13; int -> float64 conversion is exact in that range) *)
Lemma group_k_float_general n : 0 <= n -> 51 * n < 2 ^ 52 -> group_k_float n = group_k n.
Proof.
  intros n0 nlt. unfold group_k_float, group_k, ssss_threshold.
  rewrite fdiv_ceil_100 by lia. reflexivity.
Qed.
