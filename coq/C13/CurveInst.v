(* C13 — the group-level recovery instantiated on the EXECUTABLE curve model of C14 (coq/C14/Model.v:
   affine law g1_add, the code's Jacobian double-and-add g1_scalar_mult = curvePoint.Mul + MakeAffine).
   (1) [cgo]: the operations record used by the correspondence cases (Harness.v): recover_sig (zq r) cgo
       is recoverSignature's loop running on curve points.
   (2) Section [Module]: which hypotheses of the abstract vector-space theorem (C13_group_level) are
       discharged for the concrete curve and which remain.  Discharged (C14/Curve.v, proved): closure,
       identity, inverse, commutativity of g1_add; r prime (Base).  Remaining, stated as hypotheses:
         [add_assoc]   associativity of g1_add on curve points,
         [order_r]     every curve point is killed by r (the curve group has order r),
         [smul_spec]   the code's double-and-add equals repeated addition (follows from associativity and
                       C14's Jacobian representation lemmas; tied here by executing g1_scalar_mult).
       From these three the module laws needed by the recovery are derived, and the recovery of share
       signatures y_i * H on the curve equals (the scalar recovery) * H. *)
From Coq Require Import ZArith Lia List Znumtheory.
From V.C14 Require Import Model Curve.
From V.C13 Require Import Model.
Import ListNotations.
Local Open Scope Z_scope.

Definition cgo : gops Z g1 := GOps G1Inf g1_add g1_scalar_mult.

(* the loop with precomputed terms delta_i * sig_i (used to spread the expensive scalar
   multiplications over separately evaluated cases) *)
Definition combine (terms : list g1) : g1 :=
  match terms with [] => G1Inf | t0 :: rest => fold_left g1_add rest t0 end.

Fixpoint terms_from (q : Z) (xs : list Z) (sigs : list g1) (i : nat) : list g1 :=
  match sigs with
  | [] => []
  | s :: rest => g1_scalar_mult (delta (zq q) xs i) s :: terms_from q xs rest (S i)
  end.

Lemma recover_sig_loop_terms q xs sigs : forall i acc,
  recover_sig_loop (zq q) cgo xs sigs i acc = fold_left g1_add (terms_from q xs sigs i) acc.
Proof.
  induction sigs as [|s sigs IH]; intros i acc; cbn [recover_sig_loop terms_from fold_left]; [reflexivity|].
  apply IH.
Qed.

Lemma recover_sig_terms q xs sigs :
  recover_sig (zq q) cgo xs sigs = combine (terms_from q xs sigs 0).
Proof. destruct sigs as [|s sigs]; [reflexivity|]. cbn [recover_sig terms_from combine]. apply recover_sig_loop_terms. Qed.

(* the scalar side: recover_aux over Z mod q is the plain linear combination, reduced *)
Fixpoint lin (q : Z) (xs ys : list Z) (i : nat) : Z :=
  match ys with [] => 0 | y :: r => delta (zq q) xs i * y + lin q xs r (S i) end.

Lemma delta_range q xs i : 1 < q -> 0 <= delta (zq q) xs i < q.
Proof. intro Hq. unfold delta. cbn [zq omul]. apply Z.mod_pos_bound. lia. Qed.

Lemma lin_nonneg q xs ys : 1 < q -> Forall (fun y => 0 <= y) ys -> forall i, 0 <= lin q xs ys i.
Proof.
  intros Hq H. induction H as [|y ys Hy _ IH]; intro i; cbn [lin]; [lia|].
  pose proof (delta_range q xs i Hq). specialize (IH (S i)). nia.
Qed.

Lemma recover_aux_lin q xs ys : 1 < q -> forall i, recover_aux (zq q) xs ys i = lin q xs ys i mod q.
Proof.
  intro Hq. induction ys as [|y ys IH]; intro i; cbn [recover_aux lin zq o0 oadd omul].
  - rewrite Z.mod_0_l by lia. reflexivity.
  - rewrite IH. rewrite <- Zplus_mod. reflexivity.
Qed.

Section Module.
Hypothesis add_assoc : forall a b c, g1_pt a -> g1_pt b -> g1_pt c ->
  g1_add (g1_add a b) c = g1_add a (g1_add b c).
Hypothesis order_r : forall a, g1_pt a -> g1_mul_nat (Z.to_nat R) a = G1Inf.
Hypothesis smul_spec : forall k a, g1_pt a -> 0 <= k -> g1_scalar_mult k a = g1_mul_nat (Z.to_nat k) a.

Notation mn := g1_mul_nat.

Lemma mn_add m n a : g1_pt a -> mn (m + n) a = g1_add (mn m a) (mn n a).
Proof.
  intro Ha. induction n as [|n IH].
  - rewrite Nat.add_0_r. cbn [g1_mul_nat]. symmetry. apply add_inf_r.
  - rewrite Nat.add_succ_r. cbn [g1_mul_nat]. rewrite IH.
    apply add_assoc; auto using mul_nat_closed.
Qed.

Lemma mn_inf m : mn m G1Inf = G1Inf.
Proof. induction m as [|m IH]; cbn [g1_mul_nat]; [reflexivity|]. rewrite IH. reflexivity. Qed.

Lemma mn_mul m n a : g1_pt a -> mn (m * n) a = mn m (mn n a).
Proof.
  intro Ha. induction m as [|m IH]; [reflexivity|].
  cbn [Nat.mul g1_mul_nat]. rewrite mn_add, IH by assumption.
  apply add_comm; auto using mul_nat_closed.
Qed.

Lemma mn_mod_r N a : g1_pt a -> 0 <= N -> mn (Z.to_nat N) a = mn (Z.to_nat (N mod R)) a.
Proof.
  intros Ha HN. assert (HR : 0 < R) by reflexivity.
  pose proof (Z.div_mod N R ltac:(lia)) as E. pose proof (Z.mod_pos_bound N R HR) as Hb.
  assert (Hd : 0 <= N / R) by (apply Z.div_pos; lia).
  rewrite E at 1. rewrite Z2Nat.inj_add, Z2Nat.inj_mul by nia.
  rewrite mn_add by assumption. rewrite Nat.mul_comm, mn_mul, order_r, mn_inf by assumption.
  apply add_inf_l.
Qed.

(* recoverSignature on the curve over share signatures y_i * H: the running value is a multiple of H *)
Lemma loop_multiple xs ys H : g1_pt H -> Forall (fun y => 0 <= y) ys -> forall i A,
  recover_sig_loop (zq R) cgo xs (map (fun y => g1_scalar_mult y H) ys) i (mn A H) =
  mn (A + Z.to_nat (lin R xs ys i)) H.
Proof.
  intros HH Hy. assert (HR : 1 < R) by reflexivity.
  induction Hy as [|y ys Hy0 Hys IH]; intros i A; cbn [map recover_sig_loop lin].
  - rewrite Nat.add_0_r. reflexivity.
  - cbn [cgo gadd gsmul].
    pose proof (delta_range R xs i HR) as Hd. pose proof (lin_nonneg R xs ys HR Hys (S i)) as Hl.
    rewrite (smul_spec y H HH Hy0).
    rewrite (smul_spec _ _ (mul_nat_closed _ _ HH) (proj1 Hd)).
    rewrite <- mn_mul, <- mn_add by assumption. rewrite IH. f_equal.
    rewrite Z2Nat.inj_add, Z2Nat.inj_mul by nia. lia.
Qed.

Theorem curve_recover_exponent xs ys H :
  g1_pt H -> Forall (fun y => 0 <= y) ys ->
  recover_sig (zq R) cgo xs (map (fun y => g1_scalar_mult y H) ys) = g1_scalar_mult (recover_z R xs ys) H.
Proof.
  intros HH Hy. assert (HR : 1 < R) by reflexivity.
  assert (E : recover_z R xs ys = lin R xs ys 0 mod R).
  { unfold recover_z, recover. rewrite recover_aux_lin by assumption. apply Z.mod_mod. lia. }
  rewrite E, smul_spec; [|assumption|apply Z.mod_pos_bound; lia].
  rewrite <- mn_mod_r by (auto using lin_nonneg).
  destruct ys as [|y ys]; [reflexivity|].
  inversion Hy as [|? ? Hy0 Hys]; subst.
  cbn [map recover_sig lin cgo gsmul].
  pose proof (delta_range R xs 0 HR) as Hd. pose proof (lin_nonneg R xs ys HR Hys 1%nat) as Hl.
  rewrite (smul_spec y H HH Hy0), (smul_spec _ _ (mul_nat_closed _ _ HH) (proj1 Hd)).
  rewrite <- mn_mul by assumption.
  change (recover_sig_loop (zq R) (GOps G1Inf g1_add g1_scalar_mult)) with (recover_sig_loop (zq R) cgo).
  rewrite loop_multiple by assumption. f_equal.
  rewrite Z2Nat.inj_add, Z2Nat.inj_mul by nia. lia.
Qed.
End Module.
