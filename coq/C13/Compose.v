(* C13 — composition: the members that answered (any k or more, any arrival order) + the code's own
   random choice among them (Select.v) + Lagrange recovery (Proofs.v). *)
From mathcomp Require Import all_ssreflect all_algebra.
From V.C13 Require Import Model Proofs Select.
Set Implicit Arguments. Unset Strict Implicit. Unset Printing Implicit Defensive.
Import GRing.Theory.
Local Open Scope ring_scope.

Lemma pick_pick (A : Type) (d : A) (sel arrived : seq nat) (l : seq A) :
  all (fun i => i < size arrived)%N sel ->
  pick d sel (pick d arrived l) = pick d (pick 0%N sel arrived) l.
Proof.
move=> insel; rewrite !pickE -map_comp; apply/eq_in_map => i /(allP insel) lt /=.
by rewrite (nth_map 0%N).
Qed.

Section Compose.
Variable F : fieldType.
Variables (k : nat) (dealers : seq (seq F)).
Hypothesis dealers_k : all (fun cs => size cs <= k)%N dealers.

Theorem any_responders (ids : seq F) (arrived pi1 js pi2 : seq nat) (h : F) :
  uniq ids -> uniq arrived -> all (fun i => i < size ids)%N arrived -> (k <= size arrived)%N ->
  is_perm (size arrived) pi1 -> is_perm k pi2 ->
  all (fun j => j < size arrived)%N (take k js) ->
  let shares := map (fun z => member_key (fops F) dealers z * h) ids in
  recover_sel (fops F) (code_selection (size arrived) k pi1 js pi2)
              (pick 0 arrived ids) (pick 0 arrived shares)
  = group_secret (fops F) dealers * h.
Proof.
move=> uids uarr inarr karr p1 p2 jsok /=.
have [szs us als] := code_selection_ok karr p1 p2 jsok.
set sel := code_selection _ _ _ _ _ in szs us als *.
rewrite /recover_sel !pick_pick //.
have [sz u a] := pick_ok uarr inarr us als.
by apply: (dkg_recover_sel dealers_k) => //; rewrite sz szs.
Qed.
End Compose.
