(* C13 — recovery at the level of group elements: G1 (signatures) and G2 (public keys) are vector
   spaces over the scalar field F (= groups of prime order r, written additively), the pairing is a
   map that commutes with scalar multiplication in each argument.  Everything is proved for the
   literal loops of Model.v ([recover_sig], [gsum]) instantiated with the module operations. *)
From mathcomp Require Import all_ssreflect all_algebra.
From V.C13 Require Import Model Proofs.
Set Implicit Arguments. Unset Strict Implicit. Unset Printing Implicit Defensive.
Import GRing.Theory.
Local Open Scope ring_scope.

Section GroupLevel.
Variable F : fieldType.
Variable G : lmodType F.
Definition lops : gops F G := GOps 0 +%R *:%R.

Lemma recover_sig_loopE (xs : seq F) (sigs : seq G) i acc :
  recover_sig_loop (fops F) lops xs sigs i acc =
  acc + \sum_(t < size sigs) delta (fops F) xs (i + t)%N *: nth 0 sigs t.
Proof.
elim: sigs i acc => [|s sigs IH] i acc /=; first by rewrite big_ord0 addr0.
rewrite IH big_ord_recl /= addn0 addrA; congr (_ + _).
by apply: eq_bigr => t _; rewrite /bump /= add1n addnS addSn.
Qed.

Lemma recover_sigE (xs : seq F) (sigs : seq G) :
  recover_sig (fops F) lops xs sigs = \sum_(t < size sigs) delta (fops F) xs t *: nth 0 sigs t.
Proof.
case: sigs => [|s0 sigs] /=; first by rewrite big_ord0.
by rewrite recover_sig_loopE big_ord_recl /=; congr (_ + _).
Qed.

(* recoverSignature applied to the share signatures key_i * H is (the scalar recovery) * H *)
Lemma recover_sig_exponent (xs ys : seq F) (H : G) :
  recover_sig (fops F) lops xs (map (fun y => y *: H) ys) = recover (fops F) xs ys *: H.
Proof.
rewrite recover_sigE /recover recover_auxE size_map scaler_suml; apply: eq_bigr => t _.
by rewrite add0n (nth_map 0) // scalerA.
Qed.

Lemma gsumE (l : seq G) : gsum lops l = \sum_(a <- l) a.
Proof.
case: l => [|a l] /=; first by rewrite big_nil.
rewrite big_cons; elim: l a => [|b l IH] a /=; first by rewrite big_nil addr0.
by rewrite IH big_cons addrA.
Qed.

Section DKG.
Variables (k : nat) (dealers : seq (seq F)).
Hypothesis dealers_k : all (fun cs => size cs <= k)%N dealers.
Let key := member_key (fops F) dealers.
Let gsk := group_secret (fops F) dealers.

(* any k or more distinct positions of the arrived (id, share signature) list, in any order *)
Theorem dkg_recover_sig (ids : seq F) (sel : seq nat) (H : G) :
  uniq ids -> uniq sel -> all (fun i => i < size ids)%N sel -> (k <= size sel)%N ->
  recover_sig (fops F) lops (pick 0 sel ids) (pick 0 sel (map (fun z => sign_g lops (key z) H) ids))
  = sign_g lops gsk H.
Proof.
move=> uids usel insel ksel.
have -> : pick 0 sel (map (fun z => sign_g lops (key z) H) ids) =
          map (fun y => y *: H) (pick 0 sel (map key ids)).
  rewrite !pickE -map_comp; apply/eq_in_map => i /(allP insel) lti /=.
  by rewrite !(nth_map 0) ?size_map.
rewrite recover_sig_exponent /sign_g /=; congr (_ *: _).
rewrite /gsk -[group_secret _ _]mulr1.
rewrite -(@dkg_recover_sel F k dealers dealers_k ids sel 1 uids usel insel ksel).
rewrite /recover_sel; congr (recover _ _ _).
by rewrite !pickE; apply/eq_in_map => i /(allP insel) lti; rewrite !(nth_map 0) ?mulr1.
Qed.
End DKG.
End GroupLevel.

(* ---- public keys and verification ---- *)
Section Pairing.
Variable F : fieldType.
Variables G1 G2 GT : lmodType F.
Variable e : G1 -> G2 -> GT.
Hypothesis e_l : forall a x y, e (a *: x) y = a *: e x y.
Hypothesis e_r : forall a x y, e x (a *: y) = a *: e x y.
Variable P2 : G2.                                  (* the G2 base point *)

Definition pubkey_g (sk : F) : G2 := sign_g (lops G2) sk P2.       (* GeneratePubkey *)
(* VerifySig: e(sig, P2) == e(H(m), pub) *)
Definition verify_g (pk : G2) (hm : G1) (sg : G1) : bool := e sg P2 == e hm pk.

Lemma sign_verifies sk hm : verify_g (pubkey_g sk) hm (sign_g (lops G1) sk hm).
Proof. by rewrite /verify_g /pubkey_g /sign_g /= e_l e_r. Qed.

Variables (k : nat) (dealers : seq (seq F)).
Hypothesis dealers_k : all (fun cs => size cs <= k)%N dealers.

(* group_node_info.go genGroupPubKey: the sum of the dealers' seed public keys (coefficient 0) *)
Definition group_pubkey : G2 :=
  gsum (lops G2) (List.map (fun cs => pubkey_g (List.nth 0 cs (o0 (fops F)))) dealers).

Lemma group_pubkeyE : group_pubkey = pubkey_g (group_secret (fops F) dealers).
Proof.
rewrite /group_pubkey gsumE lmapE big_map /pubkey_g /sign_g /= /group_secret lmapE osumE big_map.
by rewrite scaler_suml.
Qed.

(* every member's share verifies under its public share; the signature recovered from any k or more
   members in any order verifies under the aggregated group public key *)
Theorem share_verifies (z : F) hm :
  verify_g (pubkey_g (member_key (fops F) dealers z)) hm
           (sign_g (lops G1) (member_key (fops F) dealers z) hm).
Proof. exact: sign_verifies. Qed.

Theorem recovered_verifies (ids : seq F) (sel : seq nat) (hm : G1) :
  uniq ids -> uniq sel -> all (fun i => i < size ids)%N sel -> (k <= size sel)%N ->
  verify_g group_pubkey hm
    (recover_sig (fops F) (lops G1) (pick 0 sel ids)
       (pick 0 sel (map (fun z => sign_g (lops G1) (member_key (fops F) dealers z) hm) ids))).
Proof.
move=> uids usel insel ksel.
by rewrite (dkg_recover_sig dealers_k) // group_pubkeyE; exact: sign_verifies.
Qed.
End Pairing.
