(* Correctness of the model's modular inverse (extended Euclid with fuel): the fuel always suffices,
   and the result is the inverse whenever one exists. Plain Coq (lia/nia). *)
From Coq Require Import ZArith Lia Znumtheory.
From V.C13 Require Import Model.
Local Open Scope Z_scope.

Lemma inv_loop_sound a q : forall n r0 r1 t0 t1 g t,
  inv_loop n r0 r1 t0 t1 = Some (g, t) ->
  0 <= r0 -> 0 <= r1 ->
  (exists c, t0 * a = r0 + c * q) -> (exists c, t1 * a = r1 + c * q) ->
  g = Z.gcd r0 r1 /\ exists c, t * a = g + c * q.
Proof.
  induction n as [|n IH]; intros r0 r1 t0 t1 g t H H0 H1 [c0 E0] [c1 E1]; cbn [inv_loop] in H.
  - discriminate.
  - destruct (Z.eqb_spec r1 0) as [->|Hne].
    + inversion H; subst. split; [rewrite Z.gcd_0_r, Z.abs_eq; lia | exists c0; exact E0].
    + assert (Hm : r0 - r0 / r1 * r1 = r0 mod r1) by (rewrite Z.mod_eq by lia; ring).
      rewrite Hm in H.
      apply IH in H.
      * destruct H as [Hg Hc]. split; [|exact Hc].
        rewrite Hg. rewrite Z.gcd_comm, Z.gcd_mod by lia. apply Z.gcd_comm.
      * lia.
      * apply Z.mod_pos_bound; lia.
      * exists c1; exact E1.
      * exists (c0 - r0 / r1 * c1). rewrite <- Hm. nia.
Qed.

Lemma inv_loop_fuel : forall n r0 r1 t0 t1 m,
  0 <= r1 < r0 -> r1 < 2 ^ Z.of_nat n -> (2 * n + 1 <= m)%nat ->
  exists res, inv_loop m r0 r1 t0 t1 = Some res.
Proof.
  induction n as [|n IH]; intros r0 r1 t0 t1 m Hr Hp Hm.
  - destruct m as [|m]; [lia|]. cbn [inv_loop]. change (2 ^ Z.of_nat 0) with 1 in Hp.
    assert (r1 = 0) by lia. subst. cbn. eauto.
  - destruct m as [|m]; [lia|]. cbn [inv_loop].
    destruct (Z.eqb_spec r1 0) as [->|Hne]; [eauto|].
    assert (Hm1 : r0 - r0 / r1 * r1 = r0 mod r1) by (rewrite Z.mod_eq by lia; ring).
    rewrite Hm1.
    pose proof (Z.mod_pos_bound r0 r1 ltac:(lia)) as Hb1.
    destruct m as [|m]; [lia|]. cbn [inv_loop].
        destruct (Z.eqb_spec (r0 mod r1) 0) as [_|Hne2]; [eauto|].
    set (r2 := r0 mod r1) in *.
    assert (Hm2 : r1 - r1 / r2 * r2 = r1 mod r2) by (rewrite Z.mod_eq by lia; ring).
    rewrite Hm2.
    pose proof (Z.mod_pos_bound r1 r2 ltac:(lia)) as Hb2.
    apply IH; [lia | | lia].
    (* r1 = k*r2 + r1 mod r2 with k >= 1, hence 2 * (r1 mod r2) < r1 < 2^(n+1) *)
    pose proof (Z.div_mod r1 r2 ltac:(lia)) as Hd.
    assert (1 <= r1 / r2) by (apply Z.div_le_lower_bound; lia).
    rewrite Nat2Z.inj_succ, Z.pow_succ_r in Hp by lia. nia.
Qed.

Lemma inv_fuel_enough q a : 1 < q ->
  exists g t, inv_loop (inv_fuel q) q (a mod q) 0 1 = Some (g, t).
Proof.
  intro Hq.
  destruct (inv_loop_fuel (S (Z.to_nat (Z.log2 q))) q (a mod q) 0 1 (inv_fuel q)) as [[g t] H].
  - pose proof (Z.mod_pos_bound a q ltac:(lia)). lia.
  - pose proof (Z.mod_pos_bound a q ltac:(lia)).
    rewrite Nat2Z.inj_succ, Z2Nat.id by (apply Z.log2_nonneg).
    pose proof (Z.log2_spec q ltac:(lia)). lia.
  - unfold inv_fuel. lia.
  - eauto.
Qed.

(* the specification of big.Int.ModInverse as the code uses it *)
Theorem modinv_spec q a : 1 < q ->
  0 <= modinv q a < q /\
  (Z.gcd (a mod q) q = 1 -> (a * modinv q a) mod q = 1) /\
  (Z.gcd (a mod q) q <> 1 -> modinv q a = a mod q).
Proof.
  intro Hq. unfold modinv.
  pose proof (Z.mod_pos_bound a q ltac:(lia)) as Hb.
  destruct (inv_fuel_enough q a Hq) as (g & t & E). rewrite E.
  destruct (inv_loop_sound (a mod q) q _ _ _ _ _ _ _ E ltac:(lia) ltac:(lia)) as [Hg [c Hc]].
  - exists (-1). ring.
  - exists 0. ring.
  - rewrite Z.gcd_comm in Hg.
    destruct (Z.eqb_spec g 1) as [->|Hne].
    + split; [apply Z.mod_pos_bound; lia|]. split; [|congruence].
      intros _. rewrite Z.mul_mod_idemp_r by lia.
      rewrite <- Z.mul_mod_idemp_l by lia. rewrite Z.mul_comm, Hc.
      rewrite Z.mod_add by lia. apply Z.mod_1_l; lia.
    + split; [lia|]. split; [congruence | reflexivity].
Qed.

(* for a prime modulus every non-zero residue is invertible, and 0 is mapped to 0 *)
Corollary modinv_prime q a : prime q ->
  0 <= modinv q a < q /\
  (a mod q <> 0 -> (a * modinv q a) mod q = 1) /\
  (a mod q = 0 -> modinv q a = 0).
Proof.
  intro Hp. pose proof (prime_ge_2 q Hp) as H2.
  destruct (modinv_spec q a ltac:(lia)) as (Hr & Hinv & Hno). split; [exact Hr|]. split.
  - intro Hnz. apply Hinv.
    pose proof (Z.mod_pos_bound a q ltac:(lia)) as Hb.
    apply Zgcd_1_rel_prime. apply rel_prime_sym. apply prime_rel_prime; [exact Hp|].
    intro Hd. apply Zdivide_mod in Hd. rewrite Z.mod_mod in Hd by lia. contradiction.
  - intro Hz. rewrite Hz in Hno. apply Hno.
    rewrite Z.gcd_0_l, Z.abs_eq; lia.
Qed.
