(* C13 — the code's own choice of the k shares it recovers from (base.Rand.RandomPerm, sort.Ints,
   getRandomKSignInfo's loop, the two Go-map iterations in RecoverGroupSignature) always yields k
   pairwise distinct positions of the share map: the hypothesis [sel_ok] of the recovery theorems. *)
From mathcomp Require Import all_ssreflect zify.
From V.C13 Require Import Model Proofs.
Set Implicit Arguments. Unset Strict Implicit. Unset Printing Implicit Defensive.

Lemma lfirstnE (A : Type) k (l : seq A) : List.firstn k l = take k l.
Proof. by elim: k l => [|k IH] [|a l] //=; rewrite IH. Qed.
Lemma lseqE a n : List.seq a n = iota a n.
Proof. by elim: n a => [|n IH] a //=; rewrite IH. Qed.
Lemma ltbE a b : Nat.ltb a b = (a < b).
Proof. by rewrite /Nat.ltb lebE. Qed.

(* a list that is a rearrangement of [0..n) *)
Definition is_perm (n : nat) (l : seq nat) : bool := [&& size l == n, uniq l & all (fun x => x < n) l].

Lemma size_upd (A : Type) (l : seq A) i v : size (upd l i v) = size l.
Proof. by elim: l i => [|a l IH] [|i] //=; rewrite IH. Qed.

Lemma nth_upd (A : Type) (d : A) (l : seq A) i v t :
  nth d (upd l i v) t = if (t == i) && (i < size l) then v else nth d l t.
Proof.
elim: l i t => [|a l IH] [|i] [|t] //=; first by rewrite andbF.
by rewrite IH.
Qed.

Definition tr (i j t : nat) : nat := if t == i then j else if t == j then i else t.

Lemma tr_inv i j t : tr i j (tr i j t) = t.
Proof. by rewrite /tr; do !case: eqP => //; lia. Qed.

Lemma tr_lt n i j t : i < n -> j < n -> t < n -> tr i j t < n.
Proof. by rewrite /tr; do !case: eqP. Qed.

Lemma swap_size l i j : size (swap l i j) = size l.
Proof. by rewrite /swap !size_upd. Qed.

Lemma swap_nth l i j t : i < size l -> j < size l -> nth 0 (swap l i j) t = nth 0 l (tr i j t).
Proof.
move=> il jl; rewrite /swap !nth_upd !lnthE size_upd il jl !andbT /tr.
by have [->|nj] := eqVneq t j; have [E|ni] := eqVneq _ i => //; rewrite ?E ?eqxx.
Qed.

Lemma swap_perm n l i j : i < n -> j < n -> is_perm n l -> is_perm n (swap l i j).
Proof.
move=> il jl /and3P [/eqP sz u a]; apply/and3P; split; first by rewrite swap_size sz.
- apply/(uniqP 0) => s t; rewrite !inE swap_size sz => sn tn.
  rewrite !swap_nth ?sz // => /(uniqP 0 u); rewrite !inE sz !tr_lt // => /(_ isT isT) E.
  by rewrite -(tr_inv i j s) E tr_inv.
apply/(all_nthP 0) => t; rewrite swap_size sz => tn; rewrite swap_nth ?sz //.
by apply: (all_nthP 0 a); rewrite sz tr_lt.
Qed.

Lemma perm_steps_perm n l i js :
  all (fun x => x < n) js -> i + size js <= n -> is_perm n l -> is_perm n (perm_steps l i js).
Proof.
elim: js l i => [|j js IH] l i //= /andP [jn jsn] le P.
apply: IH => //; first by lia.
by apply: swap_perm => //; lia.
Qed.

Lemma iota_perm n : is_perm n (iota 0 n).
Proof.
apply/and3P; split; rewrite ?size_iota ?iota_uniq //.
by apply/allP => x; rewrite mem_iota add0n.
Qed.

(* RandomPerm(n, k): k pairwise distinct indices below n, whatever the derived random numbers *)
Lemma random_perm_ok n k js :
  k <= n -> all (fun x => x < n) (take k js) ->
  let r := random_perm n k js in [/\ size r = k, uniq r & all (fun x => x < n) r].
Proof.
move=> kn jsn; rewrite /random_perm !lfirstnE lseqE.
have /and3P [/eqP sz u a] : is_perm n (perm_steps (iota 0 n) 0 (take k js)).
  apply: perm_steps_perm => //; last exact: iota_perm.
  by rewrite add0n size_take; case: ltnP => // /leq_trans; apply.
split; first by rewrite size_takel // sz.
- by rewrite take_uniq.
by apply/allP => x /mem_take /(allP a).
Qed.

(* sort.Ints *)
Lemma ins_perm a l : perm_eq (ins_nat a l) (a :: l).
Proof.
elim: l => [|b l IH] //=; rewrite lebE; case: ifP => _ //.
rewrite -(perm_cons b) in IH; apply: perm_trans IH _.
by apply/permP => p /=; rewrite addnCA.
Qed.

Lemma sort_ints_perm l : perm_eq (sort_ints l) l.
Proof.
elim: l => [|a l IH] //=.
by apply: perm_trans (ins_perm _ _) _; rewrite perm_cons.
Qed.

Lemma ins_sorted a l : sorted leq l -> sorted leq (ins_nat a l).
Proof.
elim: l => [|b l IH] //= pb; rewrite lebE; case: leqP => ab /=; first by rewrite ab.
have sl := path_sorted pb; rewrite path_min_sorted ?IH //.
apply/allP => x; rewrite (perm_mem (ins_perm a l)) inE => /orP [/eqP ->|xl]; first exact: ltnW.
by move: pb; rewrite path_sortedE; [move=> /andP [/allP H _]; apply: H | exact: leq_trans].
Qed.

Lemma sort_ints_sorted l : sorted leq (sort_ints l).
Proof. by elim: l => [|a l IH] //=; apply: ins_sorted. Qed.

(* getRandomKSignInfo's loop takes exactly the entries at the (strictly increasing) indices *)
Lemma select_loopE (A : Type) (d : A) (entries : seq A) (idx : seq nat) i :
  sorted ltn idx -> all (fun x => i <= x < i + size entries) idx ->
  select_loop entries idx i = [seq nth d entries (x - i) | x <- idx].
Proof.
elim: entries idx i => [|e es IH] [|ix idx] i //=.
  by move=> _ /andP [H _]; lia.
move=> p /andP [bx ba]; rewrite eqbE; case: (i =P ix) => [E|ne].
  subst ix; rewrite subnn /=; congr (_ :: _).
  have gt : all (fun x => i < x) idx by move: p; rewrite path_sortedE //; [case/andP | exact: ltn_trans].
  rewrite IH ?(path_sorted p) //; last first.
    by apply/allP => x xin; have := allP ba _ xin; have := allP gt _ xin; lia.
  by apply/eq_in_map => x /(allP gt) ix; have -> : (x - i = (x - i.+1).+1)%N by lia.
have lt : i < ix by lia.
have gt : all (fun x => i < x) (ix :: idx).
  rewrite /= lt /=; move: p; rewrite path_sortedE; last exact: ltn_trans.
  by case/andP => /allP H _; apply/allP => x /H; lia.
have bb : all (fun x => i <= x < i + (size es).+1) (ix :: idx) by rewrite /= bx ba.
have H : all (fun x => i.+1 <= x < i.+1 + size es) (ix :: idx).
  by apply/allP => x xin; have := allP gt _ xin; have := allP bb _ xin; rewrite /=; lia.
rewrite (IH (ix :: idx) i.+1 p H).
by apply/eq_in_map => x xin; have := allP gt _ xin => ?; have -> : (x - i = (x - i.+1).+1)%N by lia.
Qed.

(* choosing entries of a rearrangement at pairwise distinct positions gives pairwise distinct values *)
Lemma pick_ok n (l s : seq nat) :
  uniq l -> all (fun x => x < n) l -> uniq s -> all (fun x => x < size l) s ->
  [/\ size (pick 0 s l) = size s, uniq (pick 0 s l) & all (fun x => x < n) (pick 0 s l)].
Proof.
move=> ul al us ass; rewrite pickE; split; first by rewrite size_map.
- rewrite map_inj_in_uniq // => x y /(allP ass) xl /(allP ass) yl /eqP.
  by rewrite nth_uniq // => /eqP.
by apply/allP => v /mapP [x /(allP ass) xl ->]; apply: (allP al); rewrite mem_nth.
Qed.

(* RecoverGroupSignature: whatever the two map iteration orders and the random numbers, the ids/sigs
   it recovers from are those of k pairwise distinct entries of the share map *)
Theorem code_selection_ok n k pi1 js pi2 :
  k <= n -> is_perm n pi1 -> is_perm k pi2 -> all (fun x => x < n) (take k js) ->
  let sel := code_selection n k pi1 js pi2 in
  [/\ size sel = k, uniq sel & all (fun x => x < n) sel].
Proof.
move=> kn /and3P [/eqP sz1 u1 a1] /and3P [/eqP sz2 u2 a2] jsn; rewrite /code_selection ltbE.
case: ltnP => [lt|ge]; last first.
  have E : k = n by lia.
  by rewrite lfirstnE E take_oversize ?sz1.
have [szr ur ar] := random_perm_ok kn jsn.
set idx := sort_ints _.
have pidx : perm_eq idx (random_perm n k js) := sort_ints_perm _.
have sidx : sorted ltn idx by rewrite ltn_sorted_uniq_leq (perm_uniq pidx) ur sort_ints_sorted.
have aidx : all (fun x => x < n) idx by rewrite (perm_all _ pidx).
rewrite (select_loopE 0) //; last by rewrite add0n sz1.
have -> : [seq nth 0 pi1 (x - 0) | x <- idx] = pick 0 idx pi1.
  by rewrite pickE; apply: eq_map => x; rewrite subn0.
have [szc uc ac] : [/\ size (pick 0 idx pi1) = size idx, uniq (pick 0 idx pi1)
                     & all (fun x => x < n) (pick 0 idx pi1)].
  by apply: pick_ok => //; rewrite ?sz1 // (perm_uniq pidx).
have szi : size idx = k by rewrite (perm_size pidx).
have a2' : all (fun x => x < size (pick 0 idx pi1)) pi2 by rewrite szc szi.
have [sz u a] := pick_ok uc ac u2 a2'.
by split => //; rewrite sz sz2.
Qed.
