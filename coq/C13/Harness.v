(* Evaluation of the C13 model (instance Z mod bn256.Order) on harness-written cases. *)
From Coq Require Import List ZArith Bool.
From V.C14 Require Import Model.
From V.C13 Require Import Model Threshold CurveInst.
Import ListNotations.
Local Open Scope Z_scope.

Definition r := curve_order.

Fixpoint zlist_eqb (a b : list Z) : bool :=
  match a, b with
  | [], [] => true
  | x :: a', y :: b' => (x =? y) && zlist_eqb a' b'
  | _, _ => false
  end.

Inductive case :=
  (* ShareSeckey(coeffs, id).GetBigInt() *)
| CShare (coeffs : list Z) (id : Z) (share : Z)
  (* AggregateSeckeys(list).GetBigInt() *)
| CAgg (l : list Z) (sum : Z)
  (* RecoverGroupSignature over exactly these (id, share-scalar) entries equals Sign(Seckey(s), msg)
     on the curve; arbitrary (also inconsistent) share scalars *)
| CRecover (xs ys : list Z) (s : Z)
  (* key generation: dealers' coefficient lists, member ids, the members' aggregated keys as the node
     computed them, and the scalar whose public key equals the node's aggregated group public key;
     [sels]: recovery from these position lists must give that scalar as well *)
| CDkg (dealers : list (list Z)) (ids : list Z) (keys : list Z) (gsk : Z) (sels : list (list nat))
  (* GetGroupK(n) = k for every pair *)
| CK (pairs : list (Z * Z))
  (* GroupSignGenerator: threshold, (id, share scalar) in arrival order, observed (add, generated) per
     call, and the scalar of the recovered signature (0 when nothing was recovered) *)
| CGen (thr : nat) (msgs : list (Z * Z)) (obs : list (bool * bool)) (recovered : bool) (s : Z)
  (* base.Rand.RandomPerm(n, k) = out, where js_i = r.Deri(i).Modulo(n-i)+i *)
| CPerm (n k : nat) (js out : list nat)
  (* group_node_info.go: member with id x, dealers (id, coefficients); [arrivals]: the dealer index of
     every handleSharePiece call (pieces produced by the dealers' own genSharePiece); observed return
     codes; whether the member completed and its signing key *)
| CNode (x : Z) (ds : list (Z * list Z)) (arrivals : list nat) (rcs : list Z) (done : bool) (sk : Z)
  (* ---- on the executable curve model (C14): points are affine (x, y) as G1.Marshal prints them ----
     Sign(k, msg) = s where h = HashToPoint(msg): the code's double-and-add on h *)
| CCSign (k : Z) (h s : Z * Z)
  (* term i of recoverSignature: (delta_i computed by the model from the ids) * sig_i = t *)
| CCTerm (xs : list Z) (i : nat) (sg t : Z * Z)
  (* first term assigned, the others added: the terms combine to what RecoverGroupSignature returned *)
| CCCombine (terms : list (Z * Z)) (out : Z * Z)
  (* the whole loop in one evaluation (thorough tier): ids, share signatures, result *)
| CCFull (xs : list Z) (sigs : list (Z * Z)) (out : Z * Z).

Definition pt (p : Z * Z) : g1 := G1Aff (fst p) (snd p).
Definition pt_ok (p : Z * Z) : bool := on_curve (fst p) (snd p).

Fixpoint natlist_eqb (a b : list nat) : bool :=
  match a, b with
  | [], [] => true
  | x :: a', y :: b' => Nat.eqb x y && natlist_eqb a' b'
  | _, _ => false
  end.

Fixpoint node_run (n : nat) (x : Z) (ds : list (Z * list Z)) (nd : @node Z) (arrivals : list nat)
  : @node Z * list Z :=
  match arrivals with
  | [] => (nd, [])
  | d :: rest =>
      let '(id, sh, pub) := piece_for (zq r) x (nth d ds (0, [])) in
      let '(nd', rc) := node_handle (zq r) Z.eqb (fun z => z mod r =? 0) (seq 0 n) (seq 0 n) nd id (sh mod r) pub in
      let '(ndf, l) := node_run n x ds nd' rest in (ndf, rc :: l)
  end.

Fixpoint gen_run (g : @gen Z) (msgs : list (Z * Z)) : @gen Z * list (bool * bool) :=
  match msgs with
  | [] => (g, [])
  | (id, s) :: rest =>
      let '(g', a, b) := gen_add (zq r) Z.eqb (all_positions (g_thr g)) g id s in
      let '(gf, l) := gen_run g' rest in (gf, (a, b) :: l)
  end.

Fixpoint obs_eqb (a b : list (bool * bool)) : bool :=
  match a, b with
  | [], [] => true
  | (x1, x2) :: a', (y1, y2) :: b' => Bool.eqb x1 y1 && Bool.eqb x2 y2 && obs_eqb a' b'
  | _, _ => false
  end.

Definition check (c : case) : bool :=
  match c with
  | CShare cs id sh => share_seckey r cs id =? sh
  | CAgg l s => aggregate_seckeys r l =? s
  | CRecover xs ys s => recover_z r xs ys =? s
  | CDkg dealers ids keys gsk sels =>
      zlist_eqb (map (fun x => member_key (zq r) dealers x mod r) ids) keys
      && (group_secret (zq r) dealers mod r =? gsk)
      && forallb (fun sel => recover_sel (zq r) sel ids keys mod r =? gsk) sels
  | CK pairs => forallb (fun p => (group_k (fst p) =? snd p) && (group_k_float (fst p) =? snd p)) pairs
  | CCSign k h sg => pt_ok h && g1_eqb (g1_scalar_mult k (pt h)) (pt sg)
  | CCTerm xs i sg t => pt_ok sg && g1_eqb (g1_scalar_mult (delta (zq r) xs i) (pt sg)) (pt t)
  | CCCombine terms out => g1_eqb (combine (map pt terms)) (pt out)
  | CCFull xs sigs out => g1_eqb (recover_sig (zq r) cgo xs (map pt sigs)) (pt out)
  | CPerm n k js out => natlist_eqb (random_perm n k js) out
  | CNode x ds arrivals rcs done sk =>
      let n := length ds in
      let '(nd, l) := node_run n x ds (node_new (zq r) n) arrivals in
      zlist_eqb l rcs && Bool.eqb (n_done nd) done && (if done then n_sk nd mod r =? sk else true)
  | CGen thr msgs obs rec s =>
      let '(g, l) := gen_run (gen_new thr) msgs in
      obs_eqb l obs &&
      match g_sig g with
      | Some v => rec && (v mod r =? s)
      | None => negb rec
      end
  end.
