From mathcomp Require Import all_ssreflect all_algebra zify.
From V.C13 Require Import Model.
Set Implicit Arguments. Unset Strict Implicit. Unset Printing Implicit Defensive.
Import GRing.Theory.
Local Open Scope ring_scope.

Lemma lnthE (T : Type) (d : T) (s : seq T) i : List.nth i s d = nth d s i.
Proof. by elim: s i => [|a s IH] [|i] //=. Qed.
Lemma lmapE (A B : Type) (f : A -> B) (s : seq A) : List.map f s = map f s.
Proof. by elim: s => //= a s ->. Qed.
Lemma llenE (A : Type) (s : seq A) : List.length s = size s.
Proof. by elim: s => //= a s ->. Qed.
Lemma lappE (A : Type) (s t : seq A) : List.app s t = s ++ t.
Proof. by elim: s => //= a s ->. Qed.
Lemma lebE (a b : nat) : Nat.leb a b = (a <= b)%N.
Proof. by elim: a b => [|a IH] [|b] //=; rewrite IH. Qed.
Lemma eqbE (a b : nat) : Nat.eqb a b = (a == b).
Proof. by elim: a b => [|a IH] [|b] //=. Qed.

Section Field.
Variable F : fieldType.
Definition fops : ops F := Ops 0 1 +%R *%R (fun a b => a - b) GRing.inv.

Lemma eval_polyE cs x : eval_poly fops cs x = (Poly cs).[x].
Proof.
elim: cs => [|c cs IH] /=; first by rewrite horner0.
rewrite horner_cons; case: cs IH => [|c' cs] IH; first by rewrite /= horner0 mul0r add0r.
by rewrite -IH.
Qed.

Lemma osumE (l : seq F) : osum fops l = \sum_(a <- l) a.
Proof. by elim: l => [|a l IH] /=; rewrite ?big_nil ?big_cons ?IH. Qed.


Section Lagrange.
Variable xs : seq F.
Let n := size xs.
Let x (i : nat) : F := nth 0 xs i.

Definition num (i : nat) : F := \prod_(j < n | (j : nat) != i) x j.
Definition den (i : nat) : F := \prod_(j < n | (j : nat) != i) (x j - x i).

Lemma numdenE (s : seq F) i xi j a b :
  numden fops s i xi j a b =
  (a * \prod_(t < size s) (if (j + t)%N != i then nth 0 s t else 1),
   b * \prod_(t < size s) (if (j + t)%N != i then nth 0 s t - xi else 1)).
Proof.
elim: s j a b => [|xj s IH] j a b /=; first by rewrite !big_ord0 !mulr1.
rewrite eqbE !big_ord_recl /= addn0.
have E (G : nat -> F) : \prod_(t < size s) (if (j + bump 0 t)%N != i then G t else 1) =
    \prod_(t < size s) (if (j.+1 + t)%N != i then G t else 1).
  by apply: eq_bigr => t _; rewrite /bump /= add1n addnS addSn.
rewrite (E (fun t => nth 0 s t)) (E (fun t => nth 0 s t - xi)).
by case: eqP => [_|_] /=; rewrite IH ?mul1r ?mulrA.
Qed.

Lemma deltaE i : delta fops xs i = num i / den i.
Proof.
rewrite /delta numdenE /= !mul1r lnthE /num /den.
by congr (_ / _); rewrite [RHS]big_mkcond /=; apply: eq_bigr => t _; rewrite add0n.
Qed.

Lemma recover_auxE (ys : seq F) i :
  recover_aux fops xs ys i = \sum_(t < size ys) delta fops xs (i + t)%N * nth 0 ys t.
Proof.
elim: ys i => [|y ys IH] i /=; first by rewrite big_ord0.
rewrite big_ord_recl /= addn0 IH; congr (_ + _).
by apply: eq_bigr => t _; rewrite /bump /= add1n addnS addSn.
Qed.

Lemma recoverE (ys : seq F) :
  recover fops xs ys = \sum_(t < size ys) num t / den t * nth 0 ys t.
Proof. by rewrite /recover recover_auxE; apply: eq_bigr => t _; rewrite add0n deltaE. Qed.

End Lagrange.

Section Interp.
Variable xs : seq F.
Hypothesis uniq_xs : uniq xs.
Let n := size xs.
Let x (i : nat) : F := nth 0 xs i.

Definition Lb (i : nat) : {poly F} := \prod_(j < n | (j : nat) != i) ((x j)%:P - 'X).

Lemma Lb0 i : (Lb i).[0] = num xs i.
Proof. by rewrite /Lb horner_prod; apply: eq_bigr => j _; rewrite !hornerE subr0. Qed.

Lemma x_inj (i j : 'I_n) : (x i == x j) = (i == j).
Proof. by rewrite /x nth_uniq. Qed.

Lemma Lb_at (i m : 'I_n) : (Lb i).[x m] = if m == i then den xs i else 0.
Proof.
rewrite /Lb horner_prod; case: eqP => [->|/eqP ne].
  by apply: eq_bigr => j _; rewrite !hornerE.
by rewrite (bigD1 m) //= !hornerE subrr mul0r.
Qed.

Lemma den_neq0 (i : 'I_n) : den xs i != 0.
Proof. by apply/prodf_neq0 => j ne; rewrite subr_eq0 x_inj. Qed.

Lemma size_Lb (i : 'I_n) : (size (Lb i) <= n)%N.
Proof.
apply: leq_trans (size_prod_leq _ _) _.
have sz (j : 'I_n) : (size ((x j)%:P - 'X)%R <= 2)%N.
  apply: leq_trans (size_add _ _) _; rewrite size_opp size_polyX geq_max leqnn andbT.
  exact: leq_trans (size_polyC_leq1 _) _.
have cE : #|(fun j : 'I_n => (j : nat) != i)| = n.-1.
  by rewrite -[in RHS](card_ord n) -(cardC1 i); apply: eq_card => j; rewrite !inE.
have le2 : (\sum_(j < n | (j : nat) != i) size ((x j)%:P - 'X)%R <= n.-1 * 2)%N.
  by rewrite -cE -sum_nat_const; apply: leq_sum => j _; apply: sz.
have := ltn_ord i; rewrite cE -/n => lt_in.
apply: (@leq_trans ((n.-1 * 2).+1 - n.-1)%N); last by lia.
exact: leq_sub2r.
Qed.


Theorem lagrange_zero (p : {poly F}) :
  (size p <= n)%N -> recover fops xs (map (horner p) xs) = p.[0].
Proof.
move=> szp.
pose q : {poly F} := \sum_(i < n) (p.[x i] / den xs i) *: Lb i.
have qx (m : 'I_n) : q.[x m] = p.[x m].
  rewrite /q horner_sum (bigD1 m) //= hornerZ Lb_at eqxx divfK ?den_neq0 //.
  rewrite big1 ?addr0 // => i ne.
  by rewrite hornerZ Lb_at eq_sym (negbTE ne) mulr0.
have szq : (size q <= n)%N.
  apply: leq_trans (size_sum _ _ _) _; apply/bigmax_leqP => i _.
  exact: leq_trans (size_scale_leq _ _) (size_Lb i).
have pq : p = q.
  apply/eqP; rewrite -subr_eq0; apply/eqP; apply: (@roots_geq_poly_eq0 _ _ xs) => //.
    apply/allP => z /(nthP 0) [m ltm <-].
    by rewrite /root hornerD hornerN (qx (Ordinal ltm)) subrr.
  by apply: leq_trans (size_add _ _) _; rewrite size_opp geq_max szp szq.
rewrite recoverE size_map {2}pq /q horner_sum; apply: eq_bigr => i _.
rewrite hornerZ Lb0 (nth_map 0) //. by rewrite mulrC mulrA [RHS]mulrAC.
Qed.

End Interp.

(* recovery is linear: recovering from the shares multiplied by h (the signature shares
   s_i * H(m) in the exponent) gives the recovered secret multiplied by h *)
Lemma recover_scale (xs ys : seq F) (h : F) :
  recover fops xs (map (fun y => y * h) ys) = recover fops xs ys * h.
Proof.
rewrite !recoverE size_map mulr_suml; apply: eq_bigr => i _.
by rewrite (nth_map 0) // mulrA.
Qed.

Section DKG.
Variables (k : nat) (dealers : seq (seq F)).
Hypothesis dealers_k : all (fun cs => size cs <= k)%N dealers.

Definition dkg_poly : {poly F} := \sum_(cs <- dealers) Poly cs.

Lemma member_keyE z : member_key fops dealers z = dkg_poly.[z].
Proof.
rewrite /member_key lmapE osumE big_map /dkg_poly horner_sum.
by apply: eq_bigr => cs _; rewrite eval_polyE.
Qed.

Lemma group_secretE : group_secret fops dealers = dkg_poly.[0].
Proof.
rewrite /group_secret lmapE osumE big_map /dkg_poly horner_sum.
by apply: eq_bigr => cs _; rewrite lnthE horner_coef0 coef_Poly.
Qed.

Lemma size_dkg_poly : (size dkg_poly <= k)%N.
Proof.
apply: leq_trans (size_sum _ _ _) _; apply/bigmax_leqP_seq => cs cs_in _.
exact: leq_trans (size_Poly _) (allP dealers_k _ cs_in).
Qed.

Theorem dkg_recover (xs : seq F) :
  uniq xs -> (k <= size xs)%N ->
  recover fops xs (map (member_key fops dealers) xs) = group_secret fops dealers.
Proof.
move=> uxs kxs; rewrite group_secretE -(lagrange_zero uxs (leq_trans size_dkg_poly kxs)).
by congr (recover _ _ _); apply: eq_map => z; rewrite member_keyE.
Qed.

(* the implementation's choice: positions [sel] of the arrived shares *)
Lemma pickE (A : Type) (d : A) sel (l : seq A) : pick d sel l = [seq nth d l i | i <- sel].
Proof. by rewrite /pick lmapE; apply: eq_map => i; rewrite lnthE. Qed.

Theorem dkg_recover_sel (ids : seq F) (sel : seq nat) (h : F) :
  uniq ids -> uniq sel -> all (fun i => i < size ids)%N sel -> (k <= size sel)%N ->
  recover_sel fops sel ids (map (fun z => member_key fops dealers z * h) ids)
  = group_secret fops dealers * h.
Proof.
move=> uids usel /allP insel ksel; rewrite /recover_sel !pickE.
have -> : [seq nth 0 (map (fun z => member_key fops dealers z * h) ids) i | i <- sel] =
          map (fun y => y * h) (map (member_key fops dealers) [seq nth 0 ids i | i <- sel]).
  rewrite -!map_comp; apply/eq_in_map => i /insel lti /=.
  by rewrite (nth_map 0).
rewrite recover_scale dkg_recover ?size_map // map_inj_in_uniq // => i j /insel lti /insel ltj /eqP.
by rewrite nth_uniq // => /eqP.
Qed.

End DKG.

(* ---- the share collector (GroupSignGenerator) fed with valid shares ---- *)
Section Collector.
Variables (k : nat) (dealers : seq (seq F)) (h : F).
Hypothesis dealers_k : all (fun cs => size cs <= k)%N dealers.

Let key := member_key fops dealers.
Let gsk := group_secret fops dealers.
Notation gadd := (gen_add fops eq_op).

(* what the implementation may choose when it recovers from a map of n entries *)
Definition sel_ok (n : nat) (sel : seq nat) : bool :=
  [&& uniq sel, all (fun i => i < n)%N sel & (n <= size sel)%N].

Definition ginv (g : @gen F) : Prop :=
  [/\ g_thr g = k, uniq (map fst (g_map g)),
      all (fun e => e.2 == key e.1 * h) (g_map g) &
      match g_sig g with
      | Some s => s = gsk * h
      | None => (size (g_map g) < k)%N
      end].

Lemma has_idE z (m : seq (F * F)) : has_id eq_op z m = (z \in map fst m).
Proof. by elim: m => [|[i s] m IH] //=; rewrite IH inE eq_sym. Qed.

Lemma gadd_inv sel g z s :
  (0 < k)%N -> ginv g -> s = key z * h -> sel_ok k sel ->
  ginv (gadd sel g z s).1.1.
Proof.
move=> k0 inv; have [thr um vm sg] := inv => sE /and3P [usel insel ksel].
rewrite /gen_add; case E: (g_sig g) => [s0|] //=; rewrite E in sg.
rewrite has_idE; case: ifP => [//|/negbT nin]; rewrite thr llenE !lappE size_cat /= addn1.
have um' : uniq (map fst (g_map g ++ [:: (z, s)])).
  by rewrite map_cat cat_uniq um /= orbF andbT nin.
have vm' : all (fun e => e.2 == key e.1 * h) (g_map g ++ [:: (z, s)]).
  by rewrite all_cat vm /= sE eqxx.
rewrite lebE; case: ifP => [|/negbT] kn; split => //=.
  rewrite !lmapE.
  have -> : [seq i.2 | i <- g_map g ++ [:: (z, s)]] =
            map (fun y => key y * h) [seq i.1 | i <- g_map g ++ [:: (z, s)]].
    by rewrite -map_comp; apply/eq_in_map => e /(allP vm') /eqP.
  apply: (dkg_recover_sel dealers_k) => //.
  rewrite size_map size_cat /= addn1.
  by apply: sub_all insel => i ik; apply: leq_trans ik kn.
by rewrite size_cat /= addn1 ltnNge.
Qed.

(* a run: messages (member id, share, order used if this message triggers the recovery) *)
Definition grun (g : @gen F) (msgs : seq (F * F * seq nat)) : @gen F :=
  foldl (fun g m => (gadd m.2 g m.1.1 m.1.2).1.1) g msgs.

Definition msg_ok (m : F * F * seq nat) : bool := (m.1.2 == key m.1.1 * h) && sel_ok k m.2.

Lemma ginv_new : (0 < k)%N -> ginv (gen_new k).
Proof. by move=> k0; split. Qed.

Lemma grun_inv g msgs : (0 < k)%N -> ginv g -> all msg_ok msgs -> ginv (grun g msgs).
Proof.
move=> k0; elim: msgs g => [|[[z s] sel] msgs IH] g //= inv /andP [/andP [/eqP sE selok] oks].
by apply: IH oks; apply: gadd_inv.
Qed.

(* whatever the arrival order and whichever entries the recovery uses, the recovered value is the
   group secret times h — the signature of the group key on the message *)
Theorem collector_result msgs s :
  (0 < k)%N -> all msg_ok msgs -> g_sig (grun (gen_new k) msgs) = Some s -> s = gsk * h.
Proof.
move=> k0 oks; have [_ _ _] := grun_inv k0 (ginv_new k0) oks.
by move=> + E; rewrite E.
Qed.

(* liveness of the collector: k distinct members' shares are enough *)
Lemma grun_some g msgs s : g_sig g = Some s -> g_sig (grun g msgs) = Some s.
Proof. by elim: msgs g => [|m ms IH] g //= E; apply: IH; rewrite /gen_add E. Qed.

Lemma gadd_seen sel g z s : g_sig (gadd sel g z s).1.1 = None ->
  {subset z :: map fst (g_map g) <= map fst (g_map (gadd sel g z s).1.1)}.
Proof.
rewrite /gen_add; case E: (g_sig g) => [s0|] /=; first by rewrite E.
rewrite has_idE; case: ifP => [zin _|_] /=.
  by move=> y; rewrite inE => /orP [/eqP ->|].
case: ifP => _ _ y /=; by rewrite lappE map_cat mem_cat /= !inE orbC.
Qed.

Lemma grun_none g msgs : g_sig (grun g msgs) = None ->
  {subset map fst (g_map g) ++ map (fun m => m.1.1) msgs <= map fst (g_map (grun g msgs))}.
Proof.
elim: msgs g => [|[[z s] sel] msgs IH] g /= E y; first by rewrite cats0.
have noneg : g_sig (gadd sel g z s).1.1 = None.
  by case E1 : (g_sig (gadd sel g z s).1.1) => [s1|] //; rewrite (grun_some _ E1) in E.
rewrite mem_cat inE => /or3P [yin|/eqP ->|yin]; apply: (IH _ E); rewrite mem_cat.
- by rewrite (gadd_seen noneg) // inE yin orbT.
- by rewrite (gadd_seen noneg) // inE eqxx.
by rewrite yin orbT.
Qed.

Theorem collector_live msgs :
  (0 < k)%N -> all msg_ok msgs -> (k <= size (undup (map (fun m => m.1.1) msgs)))%N ->
  g_sig (grun (gen_new k) msgs) <> None.
Proof.
move=> k0 oks kmsgs E.
have [thr _ _] := grun_inv k0 (ginv_new k0) oks; rewrite E => lt.
have sub : {subset undup (map (fun m => m.1.1) msgs) <= map fst (g_map (grun (gen_new k) msgs))}.
  by move=> y; rewrite mem_undup => yin; apply: (grun_none E).
have := uniq_leq_size (undup_uniq _) sub; rewrite size_map => le.
by have := leq_ltn_trans (leq_trans kmsgs le) lt; rewrite ltnn.
Qed.

End Collector.
End Field.
