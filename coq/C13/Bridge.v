(* Bridge from the field-generic theorems (Proofs.v) to the executable instance Z mod q (Model.zq):
   for a prime q, z |-> (z mod q) is a homomorphism from the model's operations on Z into the
   field 'F_q that is injective on residues, and every model function commutes with it. *)
From Coq Require Import ZArith Znumtheory.
From mathcomp Require Import all_ssreflect all_algebra zify ssrZ.
From V.C13 Require Import Model ModInv Proofs.
Set Implicit Arguments. Unset Strict Implicit. Unset Printing Implicit Defensive.
Import GRing.Theory.
Local Open Scope ring_scope.
Delimit Scope Z_scope with ZZ.

(* ---- model functions commute with homomorphisms of the operation records ---- *)
Record ops_morph (T1 T2 : Type) (a : ops T1) (b : ops T2) (f : T1 -> T2) : Prop := OpsMorph {
  m0 : f (o0 a) = o0 b;
  m1 : f (o1 a) = o1 b;
  madd : forall x y, f (oadd a x y) = oadd b (f x) (f y);
  mmul : forall x y, f (omul a x y) = omul b (f x) (f y);
  msub : forall x y, f (osub a x y) = osub b (f x) (f y);
  minv : forall x, f (oinv a x) = oinv b (f x) }.

Section Morph.
Variables (T1 T2 : Type) (a : ops T1) (b : ops T2) (f : T1 -> T2).
Hypothesis fm : ops_morph a b f.
Let f0 := m0 fm.
Let f1 := m1 fm.
Let fadd := madd fm.
Let fmul := mmul fm.
Let fsub := msub fm.
Let finv := minv fm.

Lemma eval_poly_morph cs x : f (eval_poly a cs x) = eval_poly b (map f cs) (f x).
Proof.
elim: cs => [|c cs IH] //=; case: cs IH => [|c' cs] IH //.
by rewrite fadd fmul IH.
Qed.

Lemma osum_morph l : f (osum a l) = osum b (map f l).
Proof. by elim: l => [|x l IH] //=; rewrite fadd IH. Qed.

Lemma numden_morph xs i xi j n d :
  numden b (map f xs) i (f xi) j (f n) (f d) =
  (f (numden a xs i xi j n d).1, f (numden a xs i xi j n d).2).
Proof.
elim: xs j n d => [|xj xs IH] j n d //=; case: (Nat.eqb j i); first exact: IH.
by rewrite -IH fmul fmul fsub.
Qed.

Lemma nth_morph i xs : f (List.nth i xs (o0 a)) = List.nth i (map f xs) (o0 b).
Proof. by elim: xs i => [|x xs IH] [|i] //=. Qed.

Lemma delta_morph xs i : f (delta a xs i) = delta b (map f xs) i.
Proof. by rewrite /delta -nth_morph -f1 numden_morph /= fmul finv. Qed.

Lemma recover_aux_morph xs ys i : f (recover_aux a xs ys i) = recover_aux b (map f xs) (map f ys) i.
Proof. by elim: ys i => [|y ys IH] i //=; rewrite fadd fmul delta_morph IH. Qed.

Lemma recover_morph xs ys : f (recover a xs ys) = recover b (map f xs) (map f ys).
Proof. exact: recover_aux_morph. Qed.

Lemma member_key_morph dealers x :
  f (member_key a dealers x) = member_key b (map (map f) dealers) (f x).
Proof.
rewrite /member_key osum_morph !lmapE -!map_comp; congr (osum _ _).
by apply: eq_map => cs /=; rewrite eval_poly_morph.
Qed.

Lemma group_secret_morph dealers :
  f (group_secret a dealers) = group_secret b (map (map f) dealers).
Proof.
rewrite /group_secret osum_morph !lmapE -!map_comp; congr (osum _ _).
by apply: eq_map => cs /=; rewrite nth_morph.
Qed.

Lemma pick_morph sel xs : map f (pick (o0 a) sel xs) = pick (o0 b) sel (map f xs).
Proof. by rewrite /pick !lmapE -map_comp; apply: eq_map => i /=; rewrite nth_morph. Qed.

Lemma recover_sel_morph sel xs ys :
  f (recover_sel a sel xs ys) = recover_sel b sel (map f xs) (map f ys).
Proof. by rewrite /recover_sel recover_morph !pick_morph. Qed.

End Morph.

(* ---- Z modulo a prime q into 'F_q ---- *)
Section Zq.
Variable q : Z.
Hypothesis q_prime : Znumtheory.prime q.
Let p : nat := Z.to_nat q.

Lemma q_gt1 : (1 < q)%ZZ.
Proof. by have := prime_ge_2 q q_prime; lia. Qed.

Lemma p_prime : prime p.
Proof.
have q1 := q_gt1; apply/primeP; split; first by rewrite /p; lia.
move=> d /dvdnP [c E].
have dq : (Z.of_nat d | q)%ZZ.
  by exists (Z.of_nat c); rewrite -Nat2Z.inj_mul -[(c * d)%coq_nat]/(c * d)%N -E /p; lia.
have := prime_divisors q q_prime _ dq; rewrite /p.
case=> [|[|[|]]] H; apply/orP; [lia|left|right|lia]; apply/eqP; lia.
Qed.

Lemma modn_Zmod (m n : nat) : (0 < n)%N -> Z.of_nat (m %% n) = Z.modulo (Z.of_nat m) (Z.of_nat n).
Proof.
move=> n0; apply: (Z.mod_unique_pos _ _ (Z.of_nat (m %/ n))).
  by have := ltn_pmod m n0; lia.
by rewrite {1}(divn_eq m n); nia.
Qed.

Definition phi (z : Z) : 'F_p := (Z.to_nat (z mod q))%:R.

Lemma natr_modp (m : nat) : (m %% p)%:R = m%:R :> 'F_p.
Proof. by rewrite {2}(divn_eq m p) natrD natrM (char_Fp_0 p_prime) mulr0 add0r. Qed.

Lemma to_nat_mod (a : Z) : (0 <= a)%ZZ -> Z.to_nat (a mod q) = (Z.to_nat a %% p)%N.
Proof.
move=> a0; have q1 := q_gt1; apply: Nat2Z.inj; rewrite modn_Zmod; last by rewrite /p; lia.
by rewrite /p !Z2Nat.id //; have := Z.mod_pos_bound a q; lia.
Qed.

Lemma phi_nat (a : Z) : (0 <= a)%ZZ -> phi a = (Z.to_nat a)%:R.
Proof. by move=> a0; rewrite /phi to_nat_mod // natr_modp. Qed.

Lemma phi_mod a : phi (a mod q) = phi a.
Proof. by rewrite /phi Z.mod_mod //; have := q_gt1; lia. Qed.

Lemma mod_bound a : (0 <= a mod q < q)%ZZ.
Proof. by apply: Z.mod_pos_bound; have := q_gt1; lia. Qed.

Lemma phiD a b : phi ((a + b) mod q) = phi a + phi b.
Proof.
have E : phi (a + b) = phi (a mod q + b mod q) by rewrite -phi_mod Zplus_mod phi_mod.
have [? ?] := (mod_bound a, mod_bound b).
rewrite phi_mod E phi_nat; last by lia.
by rewrite Z2Nat.inj_add ?natrD //; lia.
Qed.

Lemma phiM a b : phi ((a * b) mod q) = phi a * phi b.
Proof.
have E : phi (a * b) = phi ((a mod q) * (b mod q)) by rewrite -phi_mod Zmult_mod phi_mod.
have [? ?] := (mod_bound a, mod_bound b).
rewrite phi_mod E phi_nat; last by nia.
by rewrite Z2Nat.inj_mul ?natrM //; lia.
Qed.

Lemma phi0 : phi 0 = 0.
Proof. by rewrite /phi Z.mod_0_l //; have := q_gt1; lia. Qed.

Lemma phi1 : phi (1 mod q) = 1.
Proof. by rewrite phi_mod /phi Z.mod_1_l //; exact: q_gt1. Qed.

Lemma phiB a b : phi ((a - b) mod q) = phi a - phi b.
Proof.
apply/eqP; rewrite eq_sym subr_eq -phiD -[phi a]phi_mod; apply/eqP; congr phi.
by rewrite Zplus_mod_idemp_l; congr (_ mod _)%ZZ; lia.
Qed.

Lemma phi_inj a b : phi a = phi b -> (a mod q = b mod q)%ZZ.
Proof.
move=> /(congr1 (@nat_of_ord _)); rewrite /phi !(val_Fp_nat p_prime).
have [? ?] := (mod_bound a, mod_bound b).
by rewrite !modn_small /p; lia.
Qed.

Lemma phi_eq0 a : (phi a == 0) = (a mod q =? 0)%ZZ.
Proof.
apply/eqP/idP => [|/Z.eqb_spec E]; last by rewrite -phi_mod E phi0.
by rewrite -phi0 => /phi_inj; rewrite Z.mod_0_l; [move=> ->|have := q_gt1; lia].
Qed.

Lemma phiV a : phi (modinv q a) = (phi a)^-1.
Proof.
have [_ [inv1 inv0]] := modinv_prime q a q_prime.
case: (Z.eqb_spec (a mod q) 0) (phi_eq0 a) => [/inv0 -> /eqP ->|/inv1 E nz].
  by rewrite phi0 invr0.
have nz' : phi a != 0 by rewrite nz.
apply: (mulfI nz'); rewrite divff // -phiM E -[1%ZZ](Z.mod_1_l q) ?phi1 //.
exact: q_gt1.
Qed.


(* ---- transfer of the theorems to the executable instance ---- *)
Notation Fq := (fops [fieldType of 'F_p]).
Lemma phi_morph : ops_morph (zq q) Fq phi.
Proof. by split; [exact: phi0|exact: phi1|exact: phiD|exact: phiM|exact: phiB|exact: phiV]. Qed.
Notation mor L := (L _ _ _ _ _ phi_morph).

Definition residues (xs : seq Z) : seq Z := map (fun x => x mod q)%ZZ xs.

Lemma uniq_phi xs : uniq (residues xs) -> uniq (map phi xs).
Proof.
move=> u; have -> : map phi xs = map phi (residues xs).
  by rewrite /residues -map_comp; apply: eq_map => x /=; rewrite phi_mod.
rewrite map_inj_in_uniq // => x y /mapP [x0 _ ->] /mapP [y0 _ ->] /phi_inj.
by rewrite !Z.mod_mod //; have := q_gt1; lia.
Qed.

(* Lagrange recovery at 0 over Z mod q: from the shares of ANY list of ids that are distinct modulo q
   and at least as many as the polynomial has coefficients, recoverSignature's coefficients give
   back the constant coefficient. *)
Theorem lagrange_zero_Zq (cs xs : seq Z) :
  uniq (residues xs) -> (size cs <= size xs)%N ->
  recover_z q xs (map (share_seckey q cs) xs) = (nth 0 cs 0 mod q)%ZZ.
Proof.
move=> u szc; apply: phi_inj; rewrite (mor recover_morph).
have -> : map phi (map (share_seckey q cs) xs) = map (horner (Poly (map phi cs))) (map phi xs).
  rewrite -!map_comp; apply: eq_map => x /=.
  by rewrite /share_seckey phi_mod (mor eval_poly_morph) eval_polyE.
rewrite lagrange_zero ?uniq_phi //; last first.
  by rewrite size_map; apply: leq_trans (size_Poly _) _; rewrite size_map.
rewrite horner_coef0 coef_Poly; case: cs {szc} => [|c cs] /=; first by rewrite phi0.
by [].
Qed.

(* the node's key generation and recovery over Z mod q: every dealer d has at most k coefficients;
   the shares of the members at the positions [sel] (any k or more distinct positions of the arrived
   list, in any order), each multiplied by h (= the share signatures on the message, in the
   exponent), recover to the group secret times h *)
Theorem dkg_recover_Zq (k : nat) (dealers : seq (seq Z)) (ids : seq Z) (sel : seq nat) (h : Z) :
  all (fun cs => size cs <= k)%N dealers ->
  uniq (residues ids) -> uniq sel -> all (fun i => i < size ids)%N sel -> (k <= size sel)%N ->
  (recover_sel (zq q) sel ids
     (map (fun z => (member_key (zq q) dealers z * h) mod q)%ZZ ids) mod q)%ZZ
  = ((group_secret (zq q) dealers * h) mod q)%ZZ.
Proof.
move=> dk u usel insel ksel; apply: phi_inj.
rewrite (mor recover_sel_morph) -[RHS]phi_mod phiM (mor group_secret_morph).
have -> : map phi (map (fun z => (member_key (zq q) dealers z * h) mod q)%ZZ ids) =
          map (fun z => member_key Fq (map (map phi) dealers) z * phi h) (map phi ids).
  by rewrite -!map_comp; apply: eq_map => z /=; rewrite phiM (mor member_key_morph).
apply: (@dkg_recover_sel _ k) => //; rewrite ?size_map ?uniq_phi //.
by rewrite all_map; apply: sub_all dk => cs /=; rewrite size_map.
Qed.

End Zq.
