(* C13 — what the code does OUTSIDE the guards of the headline theorems (ids pairwise distinct modulo r,
   k <= number of collected shares).  Plain Coq, instance Z mod q.
   (a) two ids congruent modulo q: recoverSignature ignores the failure of big.Int.ModInverse (den = 0,
       ModInverse returns nil and leaves den unchanged), so both members get the coefficient 0: their
       shares are ignored and the recovered value is wrong (witness below);
   (b) GroupSignGenerator calls the recovery only with at least threshold-many collected shares. *)
From Coq Require Import ZArith Lia List Bool Znumtheory.
From V.C13 Require Import Model ModInv.
Import ListNotations.
Local Open Scope Z_scope.

Lemma modinv_zero q a : 1 < q -> a mod q = 0 -> modinv q a = 0.
Proof.
  intros Hq Ha. destruct (modinv_spec q a Hq) as (_ & _ & Hno).
  rewrite Hno, Ha; [reflexivity|]. rewrite Ha, Z.gcd_0_l, Z.abs_eq; lia.
Qed.

Lemma numden_den_zero q xs : forall i xi j num,
  snd (numden (zq q) xs i xi j num 0) = 0.
Proof.
  induction xs as [|x xs IH]; intros i xi j num; cbn [numden snd]; [reflexivity|].
  destruct (Nat.eqb j i); [apply IH|]. cbn [zq omul osub]. rewrite Z.mul_0_l, Zmod_0_l. apply IH.
Qed.

Lemma numden_hits_zero q xs : forall i xi j0 num den t xt,
  nth_error xs t = Some xt -> (j0 + t)%nat <> i -> (xt - xi) mod q = 0 ->
  snd (numden (zq q) xs i xi j0 num den) = 0.
Proof.
  induction xs as [|x xs IH]; intros i xi j0 num den t xt Ht Hne Hz.
  - destruct t; discriminate.
  - cbn [numden]. destruct t as [|t].
    + injection Ht as ->. rewrite Nat.add_0_r in Hne.
      destruct (Nat.eqb_spec j0 i) as [E|_]; [contradiction|].
      cbn [zq omul osub]. rewrite Hz, Z.mul_0_r, Zmod_0_l. apply numden_den_zero.
    + cbn [nth_error] in Ht.
      destruct (Nat.eqb j0 i); apply (IH _ _ _ _ _ t xt Ht); try exact Hz; lia.
Qed.

(* the Lagrange coefficient of a member whose id is congruent to another member's id is 0 *)
Theorem delta_congruent_zero q xs i j : 1 < q ->
  (i < length xs)%nat -> (j < length xs)%nat -> i <> j ->
  nth i xs 0 mod q = nth j xs 0 mod q ->
  delta (zq q) xs i = 0 /\ delta (zq q) xs j = 0.
Proof.
  intros Hq Hi Hj Hne Hc.
  assert (D : forall a b, (a < length xs)%nat -> (b < length xs)%nat -> a <> b ->
              nth a xs 0 mod q = nth b xs 0 mod q -> delta (zq q) xs a = 0).
  { intros a b Ha Hb Hab Hcab. unfold delta. cbn [zq omul oinv o0 o1].
    assert (Hd : snd (numden (zq q) xs a (nth a xs 0) 0 (1 mod q) (1 mod q)) = 0).
    { apply (numden_hits_zero q xs a (nth a xs 0) 0%nat _ _ b (nth b xs 0)).
      - apply nth_error_nth'. exact Hb.
      - cbn. lia.
      - rewrite Zminus_mod, Hcab, Z.sub_diag. apply Zmod_0_l. }
    change (zq q) with (zq q) in Hd. cbn [zq o0 o1] in Hd. rewrite Hd.
    rewrite (modinv_zero q 0 Hq) by (apply Zmod_0_l). rewrite Z.mul_0_r. apply Zmod_0_l. }
  split; [apply (D i j) | apply (D j i)]; auto.
Qed.

(* a share whose coefficient is 0 does not influence the recovered value *)
Lemma recover_aux_ignores q xs : forall ys i0 t y',
  delta (zq q) xs (i0 + t) = 0 ->
  recover_aux (zq q) xs (upd ys t y') i0 = recover_aux (zq q) xs ys i0.
Proof.
  induction ys as [|y ys IH]; intros i0 t y' Hd; [destruct t; reflexivity|].
  destruct t as [|t]; cbn [upd recover_aux].
  - rewrite Nat.add_0_r in Hd. cbn [zq oadd omul]. rewrite Hd, !Z.mul_0_l. reflexivity.
  - rewrite (IH (S i0) t y'); [reflexivity|]. replace (S i0 + t)%nat with (i0 + S t)%nat by lia. exact Hd.
Qed.

Theorem recover_ignores_congruent q xs ys i j y' : 1 < q ->
  (i < length xs)%nat -> (j < length xs)%nat -> i <> j ->
  nth i xs 0 mod q = nth j xs 0 mod q ->
  recover (zq q) xs (upd ys i y') = recover (zq q) xs ys.
Proof.
  intros Hq Hi Hj Hne Hc. unfold recover. apply recover_aux_ignores.
  apply (delta_congruent_zero q xs i j); assumption.
Qed.

(* witness over the real curve order: ids 1, 1+r, 2 (pairwise distinct integers, all below 2^256),
   polynomial 5 + 7x + 11x^2: the recovery returns p(2) = 63 instead of p(0) = 5 *)
Theorem congruent_ids_wrong_value :
  let q := curve_order in
  let cs := [5; 7; 11] in let xs := [1; 1 + q; 2] in
  NoDup xs /\ Forall (fun x => 0 < x < 2 ^ 256) xs /\ (length cs <= length xs)%nat /\
  recover_z q xs (map (share_seckey q cs) xs) = 63 /\ 63 <> nth 0 cs 0 mod q.
Proof.
  cbv zeta. split; [|split; [|split; [|split]]].
  - repeat constructor; cbn; unfold curve_order; intuition lia.
  - repeat constructor; unfold curve_order; lia.
  - cbn. lia.
  - vm_compute. reflexivity.
  - vm_compute. discriminate.
Qed.

(* (b) the collector (both GroupSignGenerator copies: model/group_sign.go and round_sign_piece.go) reaches
   RecoverGroupSignature only through "len(witnessSignMap) >= threshold": whenever a call of
   AddWitnessSign produces a group signature, at least threshold-many entries were in the map, so the
   padded ids/sigs slots of RecoverGroupSignature (nil signature => nil-pointer panic in
   recoverSignature) are never reached from there. *)
Theorem gen_add_recovers_only_with_enough {T} (o : ops T) ideq sel (g : @gen T) id s v :
  g_sig g = None -> g_sig (fst (fst (gen_add o ideq sel g id s))) = Some v ->
  (g_thr g <= length (g_map (fst (fst (gen_add o ideq sel g id s)))))%nat.
Proof.
  unfold gen_add. intros E. rewrite E.
  destruct (has_id ideq id (g_map g)); cbn [fst g_sig]; [congruence|].
  destruct (Nat.leb_spec (g_thr g) (length (g_map g ++ [(id, s)]))); cbn [fst g_sig g_map]; [lia|congruence].
Qed.

(* (c) re-dealing.  In the model a dealer's pieces are a function of the dealer (its polynomial is fixed by
   (miner secret, group hash)): a piece dealt again after a restart IS the first one, so "receivers keep the
   first piece per dealer" (Node.v: duplicates refused) cannot mix polynomials and C13_node_keys covers
   every re-delivery schedule.  If a restarted dealer dealt a FRESH polynomial instead, members served
   before and after the restart would hold shares of different polynomials: over Z mod 7, threshold 2,
   dealer 1 deals 3 + x first and 4 + 2x after its restart, dealer 2 deals 1 + 5x; the member with id 1 kept
   the first piece, the members with ids 2 and 3 took the second: two threshold subsets recover different
   values. *)
Theorem redeal_fresh_polynomial_refuted :
  let o := zq 7 in
  let key p x := oadd o (eval_poly o p x) (eval_poly o [1; 5] x) in
  let kA := key [3; 1] 1 in let kB := key [4; 2] 2 in let kC := key [4; 2] 3 in
  recover o [1; 2] [kA; kB] <> recover o [2; 3] [kB; kC].
Proof. vm_compute. discriminate. Qed.

Lemma redeal_same_piece {T} (o : ops T) (x : T) (dealer : T * list T) :
  forall first second, first = piece_for o x dealer -> second = piece_for o x dealer -> second = first.
Proof. intros; subst; reflexivity. Qed.
