(* C13 — property theorems only (statements + [exact]); proofs are in Proofs.v, ModInv.v, Bridge.v,
   Threshold.v.  [fops F] are the operations of an arbitrary field F; [zq q] those of Z modulo q. *)
From Coq Require Import ZArith Znumtheory.
From mathcomp Require Import all_ssreflect all_algebra ssrZ.
From V.Base Require Import PrimeBn256Order.
From V.C14 Require Model Curve.
From V.C13 Require Import Model ModInv Proofs Bridge Threshold Group Select Compose Node Robust CurveInst ParentSign.
Import GRing.Theory.
Local Open Scope ring_scope.
Delimit Scope Z_scope with ZZ.

(* ShareSeckey's Horner loop evaluates the dealer polynomial at the member id. *)
Theorem C13_share_is_evaluation : forall (F : fieldType) (cs : seq F) (x : F),
  eval_poly (fops F) cs x = (Poly cs).[x].
Proof. exact: eval_polyE. Qed.
Print Assumptions C13_share_is_evaluation.

(* recoverSignature's coefficients (delta_i = prod_{j<>i} x_j (x_j - x_i)^-1, indices as in the code)
   recover p(0) from the values of p at ANY list of pairwise distinct points that is at least as
   long as p has coefficients. *)
Theorem C13_lagrange_zero : forall (F : fieldType) (xs : seq F) (p : {poly F}),
  uniq xs -> (size p <= size xs)%N -> recover (fops F) xs (map (horner p) xs) = p.[0].
Proof. move=> F xs p u sz; exact: lagrange_zero. Qed.
Print Assumptions C13_lagrange_zero.

(* Key generation as in group_node_info.go (every dealer at most k coefficients, member key = sum of
   the received shares, group secret = sum of the dealers' constant coefficients): the signature
   shares key(id)*h of the members at ANY k or more distinct positions [sel] of the arrived list, in
   ANY order, recover to (group secret)*h, i.e. the signature of the group key. *)
Theorem C13_dkg_any_subset_any_order :
  forall (F : fieldType) (k : nat) (dealers : seq (seq F)) (ids : seq F) (sel : seq nat) (h : F),
  all (fun cs => size cs <= k)%N dealers ->
  uniq ids -> uniq sel -> all (fun i => i < size ids)%N sel -> (k <= size sel)%N ->
  recover_sel (fops F) sel ids (map (fun z => member_key (fops F) dealers z * h) ids)
  = group_secret (fops F) dealers * h.
Proof. move=> F k dealers ids sel h dk; exact: dkg_recover_sel. Qed.
Print Assumptions C13_dkg_any_subset_any_order.

(* Corollary: two different choices of members / orders give the same signature. *)
Theorem C13_subset_order_independent :
  forall (F : fieldType) (k : nat) (dealers : seq (seq F)) (ids : seq F) (sel1 sel2 : seq nat) (h : F),
  all (fun cs => size cs <= k)%N dealers -> uniq ids ->
  uniq sel1 -> all (fun i => i < size ids)%N sel1 -> (k <= size sel1)%N ->
  uniq sel2 -> all (fun i => i < size ids)%N sel2 -> (k <= size sel2)%N ->
  let shares := map (fun z => member_key (fops F) dealers z * h) ids in
  recover_sel (fops F) sel1 ids shares = recover_sel (fops F) sel2 ids shares.
Proof.
move=> F k dealers ids sel1 sel2 h dk ui u1 i1 k1 u2 i2 k2 /=.
by rewrite (dkg_recover_sel dk) // (dkg_recover_sel dk).
Qed.
Print Assumptions C13_subset_order_independent.

(* The share collector (GroupSignGenerator.AddWitnessSign) fed with members' valid shares in any
   arrival order, duplicates allowed, whatever entry order the recovery uses: what it recovers is the
   group key's signature, and it does recover as soon as k distinct members have been heard. *)
Theorem C13_collector_result :
  forall (F : fieldType) (k : nat) (dealers : seq (seq F)) (h : F) (msgs : seq (F * F * seq nat)) (s : F),
  all (fun cs => size cs <= k)%N dealers -> (0 < k)%N ->
  all (msg_ok k dealers h) msgs ->
  g_sig (grun (gen_new k) msgs) = Some s -> s = group_secret (fops F) dealers * h.
Proof. move=> F k dealers h msgs s dk; exact: collector_result. Qed.
Print Assumptions C13_collector_result.

Theorem C13_collector_live :
  forall (F : fieldType) (k : nat) (dealers : seq (seq F)) (h : F) (msgs : seq (F * F * seq nat)),
  all (fun cs => size cs <= k)%N dealers -> (0 < k)%N ->
  all (msg_ok k dealers h) msgs -> (k <= size (undup (map (fun m => m.1.1) msgs)))%N ->
  g_sig (grun (gen_new k) msgs) <> None.
Proof. move=> F k dealers h msgs dk; exact: collector_live. Qed.
Print Assumptions C13_collector_live.

(* The code's own choice of shares (base.Rand.RandomPerm with arbitrary derived random numbers [js],
   sort.Ints, getRandomKSignInfo's loop, both Go-map iteration orders [pi1], [pi2] arbitrary): k
   pairwise distinct entries of the n-entry share map. *)
Theorem C13_code_selection :
  forall (n k : nat) (pi1 js pi2 : seq nat),
  (k <= n)%N -> is_perm n pi1 -> is_perm k pi2 -> all (fun x => x < n)%N (take k js) ->
  let sel := code_selection n k pi1 js pi2 in
  [/\ size sel = k, uniq sel & all (fun x => x < n)%N sel].
Proof. exact: code_selection_ok. Qed.
Print Assumptions C13_code_selection.

(* Headline: whichever k or more members answered ([arrived]: distinct positions in the member list, any
   order), whatever RecoverGroupSignature's internal random choice and map orders, the recovered value
   is the group key's signature. *)
Theorem C13_any_responders :
  forall (F : fieldType) (k : nat) (dealers : seq (seq F)) (ids : seq F)
         (arrived pi1 js pi2 : seq nat) (h : F),
  all (fun cs => size cs <= k)%N dealers ->
  uniq ids -> uniq arrived -> all (fun i => i < size ids)%N arrived -> (k <= size arrived)%N ->
  is_perm (size arrived) pi1 -> is_perm k pi2 ->
  all (fun j => j < size arrived)%N (take k js) ->
  let shares := map (fun z => member_key (fops F) dealers z * h) ids in
  recover_sel (fops F) (code_selection (size arrived) k pi1 js pi2)
              (pick 0 arrived ids) (pick 0 arrived shares)
  = group_secret (fops F) dealers * h.
Proof. move=> F k dealers ids arrived pi1 js pi2 h dk; exact: any_responders. Qed.
Print Assumptions C13_any_responders.

(* The same at the level of group elements: G1 any vector space over the scalar field (a group of
   prime order), recoverSignature's literal loop (first term assigned, the others added) over the
   share signatures key(id) *: H(m). *)
Theorem C13_group_level :
  forall (F : fieldType) (G : lmodType F) (k : nat) (dealers : seq (seq F)) (ids : seq F)
         (sel : seq nat) (H : G),
  all (fun cs => size cs <= k)%N dealers ->
  uniq ids -> uniq sel -> all (fun i => i < size ids)%N sel -> (k <= size sel)%N ->
  recover_sig (fops F) (lops G) (pick 0 sel ids)
     (pick 0 sel (map (fun z => sign_g (lops G) (member_key (fops F) dealers z) H) ids))
  = sign_g (lops G) (group_secret (fops F) dealers) H.
Proof. move=> F G k dealers ids sel H dk; exact: dkg_recover_sig. Qed.
Print Assumptions C13_group_level.

(* Verification (G1, G2, GT vector spaces over F, e compatible with scalar multiplication in both
   arguments, P2 the G2 base point; VerifySig: e(sig, P2) == e(H(m), pk)): every member's share
   verifies under its public share, and the signature recovered from any k or more members in any
   order verifies under the aggregated group public key (sum of the dealers' seed public keys). *)
Theorem C13_share_verifies :
  forall (F : fieldType) (G1 G2 GT : lmodType F) (e : G1 -> G2 -> GT) (P2 : G2),
  (forall a x y, e (a *: x) y = a *: e x y) -> (forall a x y, e x (a *: y) = a *: e x y) ->
  forall (dealers : seq (seq F)) (z : F) (hm : G1),
  verify_g e P2 (pubkey_g P2 (member_key (fops F) dealers z)) hm
           (sign_g (lops G1) (member_key (fops F) dealers z) hm).
Proof. move=> F G1 G2 GT e P2 el er dealers z hm; exact: share_verifies. Qed.
Print Assumptions C13_share_verifies.

Theorem C13_recovered_verifies :
  forall (F : fieldType) (G1 G2 GT : lmodType F) (e : G1 -> G2 -> GT) (P2 : G2),
  (forall a x y, e (a *: x) y = a *: e x y) -> (forall a x y, e x (a *: y) = a *: e x y) ->
  forall (k : nat) (dealers : seq (seq F)) (ids : seq F) (sel : seq nat) (hm : G1),
  all (fun cs => size cs <= k)%N dealers ->
  uniq ids -> uniq sel -> all (fun i => i < size ids)%N sel -> (k <= size sel)%N ->
  verify_g e P2 (group_pubkey P2 dealers) hm
    (recover_sig (fops F) (lops G1) (pick 0 sel ids)
       (pick 0 sel (map (fun z => sign_g (lops G1) (member_key (fops F) dealers z) hm) ids))).
Proof. move=> F G1 G2 GT e P2 el er k dealers ids sel hm dk; exact: recovered_verifies. Qed.
Print Assumptions C13_recovered_verifies.

(* Key generation, member side (handleSharePiece/aggregateKeys): pieces of the dealers [ds] = (id,
   coefficients) arriving in any order, duplicates included ([msgs]: dealer index and the two Go-map
   iteration orders of the aggregation loops): a member that completed holds sum_d f_d(x) and (in the
   exponent) the group public key sum_d f_d(0); it completes once every dealer has been heard. *)
Theorem C13_node_keys :
  forall (F : fieldType) (x : F) (ds : seq (F * seq F)) (msgs : seq (nat * seq nat * seq nat)),
  uniq (map fst ds) -> (0 < size ds)%N -> all (nmsg_ok ds) msgs ->
  let nd := nrun x ds (node_new (fops F) (size ds)) msgs in
  n_done nd ->
  n_sk nd = member_key (fops F) (map snd ds) x /\ n_gpk nd = group_secret (fops F) (map snd ds).
Proof. move=> F x ds msgs u; exact: node_keys. Qed.
Print Assumptions C13_node_keys.

Theorem C13_node_completes :
  forall (F : fieldType) (x : F) (ds : seq (F * seq F)) (msgs : seq (nat * seq nat * seq nat)),
  uniq (map fst ds) -> (0 < size ds)%N -> all (nmsg_ok ds) msgs ->
  {subset iota 0 (size ds) <= map (fun m => m.1.1) msgs} ->
  n_done (nrun x ds (node_new (fops F) (size ds)) msgs).
Proof. move=> F x ds msgs u; exact: node_completes. Qed.
Print Assumptions C13_node_completes.

(* The executable instance.  big.Int.ModInverse as modelled (extended Euclid) never runs out of
   fuel and returns the inverse whenever there is one. *)
Theorem C13_modinv : forall q a : Z, (1 < q)%ZZ ->
  (0 <= modinv q a < q)%ZZ /\
  (Z.gcd (a mod q) q = 1 -> (a * modinv q a) mod q = 1)%ZZ /\
  (Z.gcd (a mod q) q <> 1 -> modinv q a = a mod q)%ZZ.
Proof. exact: modinv_spec. Qed.
Print Assumptions C13_modinv.

(* Transfer to Z modulo the curve order r (the code's arithmetic on big.Int), under the hypothesis
   that r is prime: ids distinct modulo r. *)
Theorem C13_zr_lagrange : Znumtheory.prime curve_order ->
  forall (cs xs : seq Z),
  uniq (residues curve_order xs) -> (size cs <= size xs)%N ->
  recover_z curve_order xs (map (share_seckey curve_order cs) xs) = (nth 0 cs 0 mod curve_order)%ZZ.
Proof. move=> pr cs xs; exact: lagrange_zero_Zq. Qed.
Print Assumptions C13_zr_lagrange.

Theorem C13_zr_dkg : Znumtheory.prime curve_order ->
  forall (k : nat) (dealers : seq (seq Z)) (ids : seq Z) (sel : seq nat) (h : Z),
  all (fun cs => size cs <= k)%N dealers ->
  uniq (residues curve_order ids) -> uniq sel -> all (fun i => i < size ids)%N sel -> (k <= size sel)%N ->
  (recover_sel (zq curve_order) sel ids
     (map (fun z => (member_key (zq curve_order) dealers z * h) mod curve_order)%ZZ ids)
     mod curve_order)%ZZ
  = ((group_secret (zq curve_order) dealers * h) mod curve_order)%ZZ.
Proof. move=> pr k dealers ids sel h; exact: dkg_recover_Zq. Qed.
Print Assumptions C13_zr_dkg.

(* The curve order IS prime (Base/PrimeBn256Order.v: Pocklington certificate checked by Coq, no axiom):
   the two transfers without the primality hypothesis. *)
Theorem C13_curve_order_prime : Znumtheory.prime curve_order.
Proof. exact: bn256_order_prime. Qed.

Theorem C13_zr_lagrange_unconditional :
  forall (cs xs : seq Z),
  uniq (residues curve_order xs) -> (size cs <= size xs)%N ->
  recover_z curve_order xs (map (share_seckey curve_order cs) xs) = (nth 0 cs 0 mod curve_order)%ZZ.
Proof. exact: (C13_zr_lagrange C13_curve_order_prime). Qed.
Print Assumptions C13_zr_lagrange_unconditional.

Theorem C13_zr_dkg_unconditional :
  forall (k : nat) (dealers : seq (seq Z)) (ids : seq Z) (sel : seq nat) (h : Z),
  all (fun cs => size cs <= k)%N dealers ->
  uniq (residues curve_order ids) -> uniq sel -> all (fun i => i < size ids)%N sel -> (k <= size sel)%N ->
  (recover_sel (zq curve_order) sel ids
     (map (fun z => (member_key (zq curve_order) dealers z * h) mod curve_order)%ZZ ids)
     mod curve_order)%ZZ
  = ((group_secret (zq curve_order) dealers * h) mod curve_order)%ZZ.
Proof. exact: (C13_zr_dkg C13_curve_order_prime). Qed.
Print Assumptions C13_zr_dkg_unconditional.

(* GetGroupK(n) is ceil(51 n / 100), lies in 1..n and is a strict majority; the float64 computation
   the code performs gives the same integer for every n up to 2000 (the node's maximum is 10). *)
Theorem C13_threshold : forall n : Z, (1 <= n)%ZZ ->
  (100 * (group_k n - 1) < 51 * n <= 100 * group_k n)%ZZ /\ (1 <= group_k n <= n)%ZZ /\
  (n < 2 * group_k n)%ZZ.
Proof.
move=> n n1; split; first exact: group_k_ceil.
by split; [exact: group_k_le | exact: group_k_majority].
Qed.
Print Assumptions C13_threshold.

Theorem C13_threshold_float : forall n : Z, (0 <= n <= 2000)%ZZ -> group_k_float n = group_k n.
Proof. exact: group_k_float_ok. Qed.
Print Assumptions C13_threshold_float.

(* The float64 path of GetGroupK equals the integer ceiling for EVERY n with 51 n < 2^52 (general
   argument: the scaling exponent is at least 7, a non-integral 51n/100 is at least 1/100 from every
   integer) - no finite sweep. *)
Theorem C13_threshold_float_general : forall n : Z,
  (0 <= n)%ZZ -> (51 * n < 2 ^ 52)%ZZ -> group_k_float n = group_k n.
Proof. exact: group_k_float_general. Qed.
Print Assumptions C13_threshold_float_general.

(* ---- outside the guards (ids pairwise distinct modulo r, k <= collected shares) ----
   Two members whose ids are congruent modulo q both get the Lagrange coefficient 0 (the code ignores
   the nil result of ModInverse): their shares do not influence the result ... *)
Theorem C13_congruent_ids_zero_coefficient : forall (q : Z) (xs : list Z) (i j : nat),
  (1 < q)%ZZ -> (i < List.length xs)%coq_nat -> (j < List.length xs)%coq_nat -> i <> j ->
  (List.nth i xs 0 mod q = List.nth j xs 0 mod q)%ZZ ->
  delta (zq q) xs i = 0%ZZ /\ delta (zq q) xs j = 0%ZZ.
Proof. exact: delta_congruent_zero. Qed.
Print Assumptions C13_congruent_ids_zero_coefficient.

Theorem C13_congruent_ids_share_ignored : forall (q : Z) (xs ys : list Z) (i j : nat) (y' : Z),
  (1 < q)%ZZ -> (i < List.length xs)%coq_nat -> (j < List.length xs)%coq_nat -> i <> j ->
  (List.nth i xs 0 mod q = List.nth j xs 0 mod q)%ZZ ->
  recover (zq q) xs (upd ys i y') = recover (zq q) xs ys.
Proof. exact: recover_ignores_congruent. Qed.
Print Assumptions C13_congruent_ids_share_ignored.

(* ... and the recovered value is wrong: over the real curve order, ids 1, 1+r, 2 (distinct 256-bit
   integers) and the polynomial 5 + 7x + 11x^2 recover p(2) = 63, not p(0) = 5.  This is why the
   headline theorems carry the hypothesis "ids distinct modulo r". *)
Theorem C13_congruent_ids_refuted :
  exists (cs xs : list Z),
    List.NoDup xs /\ List.Forall (fun x => 0 < x < 2 ^ 256)%ZZ xs /\
    (List.length cs <= List.length xs)%coq_nat /\
    recover_z curve_order xs (List.map (share_seckey curve_order cs) xs)
      <> (List.nth 0 cs 0 mod curve_order)%ZZ.
Proof.
exists [:: 5; 7; 11]%ZZ, [:: 1; 1 + curve_order; 2]%ZZ.
have [nd [fa [le [-> ne]]]] := congruent_ids_wrong_value.
by split; [|split; [|split]].
Qed.
Print Assumptions C13_congruent_ids_refuted.

(* The collector reaches the recovery only with at least threshold-many collected shares (k <= n at the
   only call sites of RecoverGroupSignature): the nil-signature slots of a too short map are not
   reachable through GroupSignGenerator. *)
Theorem C13_collector_guard :
  forall (T : Type) (o : ops T) (ideq : T -> T -> bool) (sel : list nat) (g : @gen T) (id s v : T),
  g_sig g = None -> g_sig (gen_add o ideq sel g id s).1.1 = Some v ->
  (g_thr g <= List.length (g_map (gen_add o ideq sel g id s).1.1))%coq_nat.
Proof. move=> T o ideq sel g id s v; exact: gen_add_recovers_only_with_enough. Qed.
Print Assumptions C13_collector_guard.

(* ---- the group-level statement on the concrete curve (C14's executable model of bn256 G1) ----
   C13_group_level holds for any vector space over the scalar field.  For the concrete (G1, g1_add,
   g1_scalar_mult) over Z_r the following are DISCHARGED: r prime (Base), closure / identity / inverse /
   commutativity of the affine law (C14/Curve.v), the scalar recovery (C13_zr_dkg_unconditional).
   What REMAINS is exactly the three premises below - associativity of the affine law, "r kills every
   curve point" (group order), and "the code's Jacobian double-and-add equals repeated addition" - plus,
   for C13_recovered_verifies, bilinearity of the pairing (not modelled).  Under these premises the
   literal recoverSignature loop on curve points over the share signatures key(id) * H, for any k or more
   distinct members in any order, yields (group secret) * H.  The correspondence cases CCTerm/CCCombine/
   CCSign/CCFull execute the same [recover_sig (zq r) cgo] on real keys against the code. *)
Theorem C13_curve_group_level :
  (forall a b c, C14.Curve.g1_pt a -> C14.Curve.g1_pt b -> C14.Curve.g1_pt c ->
     C14.Model.g1_add (C14.Model.g1_add a b) c = C14.Model.g1_add a (C14.Model.g1_add b c)) ->
  (forall a, C14.Curve.g1_pt a -> C14.Model.g1_mul_nat (Z.to_nat C14.Model.R) a = C14.Model.G1Inf) ->
  (forall k a, C14.Curve.g1_pt a -> (0 <= k)%ZZ ->
     C14.Model.g1_scalar_mult k a = C14.Model.g1_mul_nat (Z.to_nat k) a) ->
  forall (k : nat) (dealers : seq (seq Z)) (ids : seq Z) (sel : seq nat) (H : C14.Model.g1),
  all (fun cs => size cs <= k)%N dealers ->
  uniq (residues curve_order ids) -> uniq sel -> all (fun i => i < size ids)%N sel -> (k <= size sel)%N ->
  C14.Curve.g1_pt H ->
  recover_sig (zq curve_order) cgo (pick 0%ZZ sel ids)
    (map (fun z => C14.Model.g1_scalar_mult (member_key (zq curve_order) dealers z mod curve_order)%ZZ H)
         (pick 0%ZZ sel ids))
  = C14.Model.g1_scalar_mult (group_secret (zq curve_order) dealers mod curve_order)%ZZ H.
Proof.
move=> assoc ord spec k dealers ids sel H dk u usel insel ksel HH.
have := @curve_recover_exponent assoc ord spec (pick 0%ZZ sel ids)
          (map (fun z => member_key (zq curve_order) dealers z mod curve_order)%ZZ (pick 0%ZZ sel ids)) H HH.
rewrite -!lmapE List.map_map => -> ; last first.
  apply/List.Forall_forall => y /List.in_map_iff [z [<- _]].
  by have [] := Z.mod_pos_bound (member_key (zq curve_order) dealers z) curve_order (erefl : (0 < curve_order)%ZZ).
congr (C14.Model.g1_scalar_mult _ _).
have := @C13_zr_dkg_unconditional k dealers ids sel 1%ZZ dk u usel insel ksel.
rewrite Z.mul_1_r => <-; rewrite /recover_z /recover_sel; congr (recover _ _ _ mod _)%ZZ.
rewrite !pickE lmapE -map_comp; apply/eq_in_map => i /(allP insel) lti /=.
by rewrite (nth_map 0%ZZ) // Z.mul_1_r.
Qed.
Print Assumptions C13_curve_group_level.

(* Pieces that carry the hash they sign (the king's collection of parent-group pieces: pieces for another
   hash are refused before the collector): the state after any arrival sequence is the state after the
   current-hash pieces alone; if those are members' valid shares the recovered value is the group key's
   signature however pieces for other hashes (valid or not) are interleaved, and k different members'
   current-hash pieces suffice. *)
Theorem C13_parent_sign_ignores_other_hashes :
  forall (F : fieldType) (Hh : eqType) (cur : Hh) (g : @gen F) (msgs1 msgs2 : seq (Hh * (F * F * seq nat))),
  [seq m.2 | m <- msgs1 & m.1 == cur] = [seq m.2 | m <- msgs2 & m.1 == cur] ->
  prun cur g msgs1 = prun cur g msgs2.
Proof. move=> F Hh cur g m1 m2; exact: prun_ignores_other. Qed.
Print Assumptions C13_parent_sign_ignores_other_hashes.

Theorem C13_parent_sign_result :
  forall (F : fieldType) (Hh : eqType) (k : nat) (dealers : seq (seq F)) (h : F) (cur : Hh)
         (msgs : seq (Hh * (F * F * seq nat))) (s : F),
  all (fun cs => size cs <= k)%N dealers -> (0 < k)%N ->
  all (fun m => (m.1 == cur) ==> msg_ok k dealers h m.2) msgs ->
  g_sig (prun cur (gen_new k) msgs) = Some s -> s = group_secret (fops F) dealers * h.
Proof. move=> F Hh k dealers h cur msgs s dk; exact: parent_sign_result. Qed.
Print Assumptions C13_parent_sign_result.

Theorem C13_parent_sign_live :
  forall (F : fieldType) (Hh : eqType) (k : nat) (dealers : seq (seq F)) (h : F) (cur : Hh)
         (msgs : seq (Hh * (F * F * seq nat))),
  all (fun cs => size cs <= k)%N dealers -> (0 < k)%N ->
  all (fun m => (m.1 == cur) ==> msg_ok k dealers h m.2) msgs ->
  (k <= size (undup [seq m.2.1.1 | m <- msgs & m.1 == cur]))%N ->
  g_sig (prun cur (gen_new k) msgs) <> None.
Proof. move=> F Hh k dealers h cur msgs dk; exact: parent_sign_live. Qed.
Print Assumptions C13_parent_sign_live.

(* Re-dealing after a dealer restart: in the model the dealer's pieces are a function of the dealer (its
   polynomial is fixed by miner secret and group hash), so every re-delivery schedule is covered by
   C13_node_keys (duplicates refused, first wins).  A restarted dealer dealing a FRESH polynomial breaks
   the property (witness over Z mod 7, threshold 2: two threshold subsets recover different values). *)
Theorem C13_redeal_fresh_polynomial_refuted :
  let o := zq 7 in
  let key p x := oadd o (eval_poly o p x) (eval_poly o [:: 1; 5]%ZZ x) in
  let kA := key [:: 3; 1]%ZZ 1%ZZ in let kB := key [:: 4; 2]%ZZ 2%ZZ in let kC := key [:: 4; 2]%ZZ 3%ZZ in
  recover o [:: 1; 2]%ZZ [:: kA; kB] <> recover o [:: 2; 3]%ZZ [:: kB; kC].
Proof. exact: redeal_fresh_polynomial_refuted. Qed.
Print Assumptions C13_redeal_fresh_polynomial_refuted.

(* Non-vacuity: (a) the hypotheses of the Z-mod-q theorems are satisfiable (q = 3, ids 1,2, dealer
   polynomials 2+x and 1+2x); (b) a run over the real curve order: n = 5, k = 3, two dealers, two
   different member subsets recover the same value = group secret * h. *)
Example C13_example_small :
  let dealers := [:: [:: 2; 1]; [:: 1; 2]]%ZZ in let ids := [:: 1; 2]%ZZ in
  Znumtheory.prime 3 /\ uniq (residues 3 ids) /\
  (recover_sel (zq 3) [:: 1%N; 0%N] ids
     (map (fun z => (member_key (zq 3) dealers z * 2) mod 3)%ZZ ids) mod 3 =
   (group_secret (zq 3) dealers * 2) mod 3)%ZZ.
Proof.
split; first exact: prime_3. split; first by [].
by apply: (@dkg_recover_Zq 3 prime_3 2).
Qed.

Example C13_example_curve :
  let q := curve_order in
  let dealers := [:: [:: 11; 22; 33]; [:: 44; 55; 66]]%ZZ in
  let ids := [:: 101; 202; 303; 404; 505]%ZZ in
  let h := 123456789%ZZ in
  let shares := map (fun z => (member_key (zq q) dealers z * h) mod q)%ZZ ids in
  group_k 5 = 3%ZZ /\
  (recover_sel (zq q) [:: 0; 1; 2]%N ids shares = (55 * h) mod q)%ZZ /\
  (recover_sel (zq q) [:: 4; 2; 3]%N ids shares = (55 * h) mod q)%ZZ.
Proof. by vm_compute. Qed.

(* Non-vacuity of the selection theorem: 5 entries, k = 3, concrete map orders and random numbers. *)
Example C13_example_selection :
  let pi1 := [:: 2; 0; 4; 1; 3]%N in let pi2 := [:: 1; 2; 0]%N in let js := [:: 3; 1; 4]%N in
  let sel := code_selection 5 3 pi1 js pi2 in
  [/\ is_perm 5 pi1, is_perm 3 pi2, all (fun x => x < 5)%N (take 3 js), sel = [:: 1; 3; 0]%N & uniq sel].
Proof. by []. Qed.

(* Non-vacuity of the member-side key generation: Z mod 7, two dealers (ids 1, 2; polynomials 3+x and
   5+2x), member id 3, pieces arriving as dealer 1, dealer 1 again, dealer 0: return codes 0, -1, 1 and
   the aggregated key (3+3) + (5+6) = 3 mod 7, group key exponent 3+5 = 1 mod 7. *)
Example C13_example_node :
  let o := zq 7 in
  let ds := [:: (1, [:: 3; 1]); (2, [:: 5; 2])]%ZZ in
  let h nd d := let '(id, sh, pub) := piece_for o 3%ZZ (nth (0, [::])%ZZ ds d) in
                node_handle o Z.eqb (fun z => (z mod 7 =? 0)%ZZ) [:: 0; 1]%N [:: 1; 0]%N nd id sh pub in
  let s1 := h (node_new o 2) 1%N in let s2 := h s1.1 1%N in let s3 := h s2.1 0%N in
  (s1.2, s2.2, s3.2) = (0, -1, 1)%ZZ /\ n_done s3.1 /\ n_sk s3.1 = 3%ZZ /\ n_gpk s3.1 = 1%ZZ /\
  member_key o (map snd ds) 3%ZZ = 3%ZZ /\ group_secret o (map snd ds) = 1%ZZ.
Proof. by vm_compute. Qed.
