(* C10 — EVM computational opcodes: specification layer, implementation layer, jump analysis.

   Words are Z in [0, 2^256).

   [spec_op]  : the Yellow-Paper / EIP-145 definitions, written over unbounded integers and the
                two's-complement interpretation.
   [impl_op]  : what src/vm/instructions.go computes: operand order as popped/peeked, the guards
                and thresholds written in instructions.go, and holiman/uint256 v1.1.1 methods at
                the level of their control flow (case splits, sign handling, masks, square-and-
                multiply).  uint256's limb arithmetic proper (Add/Sub/Mul/udivrem/Lsh/Rsh on four
                64-bit limbs) is modelled by its mathematical meaning.
   [code_bitmap] / [valid_jumpdest] : analysis.go codeBitmap and contract.go validJumpdest. *)
From Coq Require Import ZArith List Bool.
Import ListNotations.
Local Open Scope Z_scope.

(* literals (the VM would otherwise recompute the power at every use) *)
Definition W : Z := Eval vm_compute in 2 ^ 256.
Definition HALF : Z := Eval vm_compute in 2 ^ 255.
Definition U64 : Z := Eval vm_compute in 2 ^ 64.
Definition word (x : Z) : Prop := 0 <= x < W.
Definition wordb (x : Z) : bool := (0 <=? x) && (x <? W).

Definition to_signed (x : Z) : Z := if x <? HALF then x else x - W.
Definition of_signed (s : Z) : Z := s mod W.
Definition b2z (b : bool) : Z := if b then 1 else 0.

Inductive op :=
| ADD | MUL | SUB | DIV | SDIV | MOD | SMOD | ADDMOD | MULMOD | EXP | SIGNEXTEND
| LT | GT | SLT | SGT | EQ | ISZERO | AND | OR | XOR | NOT | BYTE | SHL | SHR | SAR.

(* ------------------------------------------------------------------------------------------ *)
(* Specification.  x = top of stack (mu_s[0]), y = second, z = third.                          *)

Definition spec_signextend (b v : Z) : Z :=
  if b <? 31 then
    let m := 2 ^ (8 * b + 8) in
    let low := v mod m in
    of_signed (if low <? m / 2 then low else low - m)
  else v.

Definition spec_op (o : op) (x y z : Z) : Z :=
  match o with
  | ADD => (x + y) mod W
  | MUL => (x * y) mod W
  | SUB => (x - y) mod W
  | DIV => if y =? 0 then 0 else x / y
  | SDIV => if y =? 0 then 0 else of_signed (Z.quot (to_signed x) (to_signed y))
  | MOD => if y =? 0 then 0 else x mod y
  | SMOD => if y =? 0 then 0 else of_signed (Z.rem (to_signed x) (to_signed y))
  | ADDMOD => if z =? 0 then 0 else (x + y) mod z
  | MULMOD => if z =? 0 then 0 else (x * y) mod z
  | EXP => (x ^ y) mod W
  | SIGNEXTEND => spec_signextend x y
  | LT => b2z (x <? y)
  | GT => b2z (y <? x)
  | SLT => b2z (to_signed x <? to_signed y)
  | SGT => b2z (to_signed y <? to_signed x)
  | EQ => b2z (x =? y)
  | ISZERO => b2z (x =? 0)
  | AND => Z.land x y
  | OR => Z.lor x y
  | XOR => Z.lxor x y
  | NOT => W - 1 - x
  | BYTE => if x <? 32 then (y / 2 ^ (8 * (31 - x))) mod 256 else 0
  | SHL => (y * 2 ^ x) mod W
  | SHR => y / 2 ^ x
  | SAR => of_signed (to_signed y / 2 ^ x)
  end.

(* ------------------------------------------------------------------------------------------ *)
(* Implementation: uint256 methods as used by instructions.go.                                  *)

Definition u_add (x y : Z) := (x + y) mod W.
Definition u_sub (x y : Z) := (x - y) mod W.
Definition u_mul (x y : Z) := (x * y) mod W.
Definition u_neg (x : Z) := u_sub 0 x.                         (* Neg: z.Sub(new(Int), x) *)
Definition u_sign (x : Z) : Z := if x =? 0 then 0 else if x <? HALF then 1 else -1.
Definition u_lt (z x : Z) : bool := z <? x.                    (* borrow out of the 4-limb subtraction *)
Definition u_gt (z x : Z) : bool := u_lt x z.                  (* Gt: x.Lt(z) *)
Definition u_is_uint64 (x : Z) : bool := x <? U64.

(* Div: y == 0 || y > x -> 0 ; x == y -> 1 ; (64-bit shortcut and udivrem) -> quotient *)
Definition u_div (x y : Z) : Z :=
  if (y =? 0) || u_gt y x then 0 else if x =? y then 1 else x / y.

(* Mod: x == 0 || y == 0 -> 0 ; Cmp -1 -> x ; Cmp 0 -> 0 ; -> remainder *)
Definition u_mod (x y : Z) : Z :=
  if (x =? 0) || (y =? 0) then 0
  else match x ?= y with Lt => x | Eq => 0 | Gt => x mod y end.

Definition u_sdiv (n d : Z) : Z :=
  if 0 <? u_sign n then
    if 0 <? u_sign d then u_div n d
    else u_neg (u_div n (u_neg d))
  else if u_sign d <? 0 then u_div (u_neg n) (u_neg d)
  else u_neg (u_div (u_neg n) d).

Definition u_smod (x y : Z) : Z :=
  let ys := u_sign y in
  let xs := u_sign x in
  let x' := if xs =? -1 then u_neg x else x in
  let y' := if ys =? -1 then u_neg y else y in
  let r := u_mod x' y' in
  if xs =? -1 then u_neg r else r.

(* AddMod: m == 0 -> 0 ; AddOverflow -> 5-limb sum reduced by udivrem ; else Mod(sum, m) *)
Definition u_addmod (x y m : Z) : Z :=
  if m =? 0 then 0
  else let s := x + y in
       if W <=? s then s mod m else u_mod (s mod W) m.

(* MulMod: any of x, y, m zero -> 0 ; high half zero -> Mod(low, m) ; else 8-limb udivrem *)
Definition u_mulmod (x y m : Z) : Z :=
  if (x =? 0) || (y =? 0) || (m =? 0) then 0
  else let p := x * y in
       if p / W =? 0 then u_mod (p mod W) m else p mod m.

Definition u_slt (z x : Z) : bool :=
  let zs := u_sign z in let xs := u_sign x in
  if (0 <=? zs) && (xs <? 0) then false
  else if (zs <? 0) && (0 <=? xs) then true
  else u_lt z x.

Definition u_sgt (z x : Z) : bool :=
  let zs := u_sign z in let xs := u_sign x in
  if (0 <=? zs) && (xs <? 0) then true
  else if (zs <? 0) && (0 <=? xs) then false
  else u_gt z x.

(* Lsh / Rsh for a shift count n (the count's own reduction is in the callers). *)
Definition u_lsh (x n : Z) : Z := if 256 <=? n then 0 else (x * 2 ^ n) mod W.
Definition u_rsh (x n : Z) : Z := if 256 <=? n then 0 else x / 2 ^ n.

(* SRsh: MSB clear -> Rsh ; otherwise n >= 256 -> all ones ; else shifted value with the top n bits set *)
Definition u_srsh (x n : Z) : Z :=
  if x <? HALF then u_rsh x n
  else if 256 <=? n then W - 1
  else Z.lor (x / 2 ^ n) (W - 2 ^ (256 - n)).

(* Byte: n fits 64 bits and n < 32 -> pick the limb, mask one byte by a shifted constant, shift down *)
Definition u_byte (z n : Z) : Z :=
  if u_is_uint64 n && (n <? 32) then
    let limb := (z / 2 ^ (64 * (3 - n / 8))) mod U64 in
    let offset := 8 * (n mod 8) in
    Z.shiftr (Z.land limb (Z.shiftr 18374686479671623680 offset)) (56 - offset)   (* 0xff00000000000000 *)
  else 0.

(* Exp: square-and-multiply over the exponent's bits, least significant first, BitLen iterations *)
Fixpoint u_exp_loop (fuel : nat) (res mult e : Z) : Z :=
  match fuel with
  | O => res
  | S k =>
    if e =? 0 then res
    else u_exp_loop k (if Z.odd e then u_mul res mult else res) (u_mul mult mult) (e / 2)
  end.
Definition u_exp (base e : Z) : Z := u_exp_loop 256 1 base e.

(* ExtendSign(x, byteNum) *)
Definition u_extendsign (x b : Z) : Z :=
  if 31 <? b then x
  else
    let bit := b * 8 + 7 in
    let mask := u_sub (u_lsh 1 bit) 1 in
    if Z.testbit x bit then Z.lor x (W - 1 - mask) else Z.land x mask.

(* instructions.go: x = first pop, y = the peeked slot that receives the result (z third for *MOD) *)
Definition impl_op (o : op) (x y z : Z) : Z :=
  match o with
  | ADD => u_add x y                                     (* y.Add(&x, y) *)
  | MUL => u_mul x y
  | SUB => u_sub x y                                     (* y.Sub(&x, y) *)
  | DIV => u_div x y
  | SDIV => u_sdiv x y
  | MOD => u_mod x y
  | SMOD => u_smod x y
  | ADDMOD => if z =? 0 then 0 else u_addmod x y z       (* opAddmod's own zero guard *)
  | MULMOD => u_mulmod x y z
  | EXP => u_exp x y                                     (* exponent.Exp(&base, exponent) *)
  | SIGNEXTEND => u_extendsign y x                       (* num.ExtendSign(num, &back) *)
  | LT => b2z (u_lt x y)
  | GT => b2z (u_gt x y)
  | SLT => b2z (u_slt x y)
  | SGT => b2z (u_sgt x y)
  | EQ => b2z (x =? y)
  | ISZERO => b2z (x =? 0)
  | AND => Z.land x y
  | OR => Z.lor x y
  | XOR => Z.lxor x y
  | NOT => Z.lxor x (W - 1)
  | BYTE => u_byte y x                                   (* val.Byte(&th) *)
  | SHL => if x <? 256 then u_lsh y x else 0             (* shift.LtUint64(256) *)
  | SHR => if x <? 256 then u_rsh y x else 0
  | SAR => if 256 <? x                                   (* shift.GtUint64(256) *)
           then (if 0 <=? u_sign y then 0 else W - 1)
           else u_srsh y x
  end.

(* ------------------------------------------------------------------------------------------ *)
(* Jump destination analysis.                                                                   *)

Definition code := list Z.
Definition clen (c : code) : Z := Z.of_nat (length c).
Definition cnth (c : code) (i : Z) : Z := if (0 <=? i) && (i <? clen c) then nth (Z.to_nat i) c 0 else 0.

Definition is_push (b : Z) : bool := (96 <=? b) && (b <=? 127).        (* PUSH1 .. PUSH32 *)
Definition push_len (b : Z) : Z := if is_push b then b - 95 else 0.

(* The bit vector is modelled by its characteristic function on bit positions (true = push data). *)
Definition bitfn := Z -> bool.
Definition bv_set (f : bitfn) (pos : Z) : bitfn := fun i => f i || (i =? pos).
(* set8(pos): 0xFF >> (pos%8) into byte pos/8 and the complement into the next byte = positions pos..pos+7 *)
Definition bv_set8 (f : bitfn) (pos : Z) : bitfn := fun i => f i || ((pos <=? i) && (i <? pos + 8)).

(* for ; numbits >= 8; numbits -= 8 { bits.set8(pc); pc += 8 } *)
Fixpoint mark8 (fuel : nat) (f : bitfn) (pc numbits : Z) : bitfn * Z * Z :=
  match fuel with
  | O => (f, pc, numbits)
  | S k => if 8 <=? numbits then mark8 k (bv_set8 f pc) (pc + 8) (numbits - 8) else (f, pc, numbits)
  end.
(* for ; numbits > 0; numbits-- { bits.set(pc); pc++ } *)
Fixpoint mark1 (fuel : nat) (f : bitfn) (pc numbits : Z) : bitfn * Z :=
  match fuel with
  | O => (f, pc)
  | S k => if 0 <? numbits then mark1 k (bv_set f pc) (pc + 1) (numbits - 1) else (f, pc)
  end.

Fixpoint bitmap_walk (fuel : nat) (c : code) (pc : Z) (f : bitfn) : bitfn :=
  match fuel with
  | O => f
  | S k =>
    if pc <? clen c then
      let o := cnth c pc in
      if is_push o then
        let '(f1, pc1, nb1) := mark8 4 f (pc + 1) (o - 96 + 1) in
        let '(f2, pc2) := mark1 8 f1 pc1 nb1 in
        bitmap_walk k c pc2 f2
      else bitmap_walk k c (pc + 1) f
    else f
  end.

Definition code_bitmap (c : code) : bitfn := bitmap_walk (length c) c 0 (fun _ => false).
Definition code_segment (f : bitfn) (pos : Z) : bool := negb (f pos).

(* validJumpdest: the destination must fit 64 bits, lie inside the code, be a JUMPDEST byte, and be code *)
Definition valid_jumpdest (c : code) (d : Z) : bool :=
  if negb (u_is_uint64 d) || (clen c <=? d) then false
  else if negb (cnth c d =? 91) then false
  else code_segment (code_bitmap c) d.

(* Instruction boundaries: reachable from 0 by stepping over an opcode and its push data. *)
Inductive boundary (c : code) : Z -> Prop :=
| boundary_0 : boundary c 0
| boundary_next p : boundary c p -> p < clen c -> boundary c (p + 1 + push_len (cnth c p)).
