(* C10 — property theorems only (statements + [exact]); the proofs are in Proofs.v, Jump.v, Fast.v. *)
From Coq Require Import ZArith List Bool.
From V.C10 Require Import Model Machine Proofs Jump Fast Refine YP Sim.
Import ListNotations.
Local Open Scope Z_scope.

(* Every computational opcode, as instructions.go + uint256 compute it (operand order as popped and
   peeked, LtUint64(256)/GtUint64(256) thresholds, zero guards, sign handling by negation, mask-based
   sign extension, limb/byte selection in Byte, square-and-multiply Exp), equals the Yellow-Paper /
   EIP-145 definition for ALL 256-bit operands. *)
Theorem C10_op_correct : forall o x y z, word x -> word y -> word z -> impl_op o x y z = spec_op o x y z.
Proof. exact op_correct. Qed.
Print Assumptions C10_op_correct.

(* The specified result is again a 256-bit word (so the stack invariant is kept). *)
Theorem C10_op_result_is_word : forall o x y z, word x -> word y -> word z -> word (spec_op o x y z).
Proof. exact spec_op_word. Qed.
Print Assumptions C10_op_result_is_word.

(* codeBitmap + validJumpdest accept exactly the JUMPDEST bytes that lie inside the code at an
   instruction boundary (reachable from offset 0 by stepping over opcodes and their push data) —
   for every byte string, including a PUSH whose data runs past the end of the code. *)
Theorem C10_jumpdest : forall c d, 0 <= d -> clen c <= U64 ->
  (valid_jumpdest c d = true <-> d < clen c /\ cnth c d = 91 /\ boundary c d).
Proof. exact valid_jumpdest_spec. Qed.
Print Assumptions C10_jumpdest.

(* A jump into the data of a PUSH is rejected whatever byte is there. *)
Theorem C10_jump_into_push_data_rejected : forall c p d, 0 <= d -> clen c <= U64 ->
  boundary c p -> p < clen c -> p < d < p + 1 + push_len (cnth c p) -> valid_jumpdest c d = false.
Proof. exact jump_into_push_data_rejected. Qed.
Print Assumptions C10_jump_into_push_data_rejected.

(* Machine level: the interpreter loop (table lookup, stack bounds, constant and dynamic gas, memory
   expansion, execute, pc update) run with the implementation layer and the same loop run with the
   specification layer -- the Yellow-Paper word operations and ANY jump test that accepts exactly the
   JUMPDEST bytes at instruction boundaries -- end in the same outcome (halt kind, return data, gas left,
   fault) with the same maximal stack height, for every jump table, code, call data, gas amount and
   step bound.  The stack/memory/pc handling is common to both runs; it is tied to the code by the
   correspondence run and searched against the independent reference machine of the harness. *)
Theorem C10_machine_refines : forall jd2 hash E P c input,
  clen c <= U64 ->
  (forall d, 0 <= d -> (jd2 c d = true <-> d < clen c /\ cnth c d = 91 /\ boundary c d)) ->
  forall fuel gas,
    call impl_op valid_jumpdest hash E P c input fuel gas = call spec_op jd2 hash E P c input fuel gas.
Proof. exact machine_refines. Qed.
Print Assumptions C10_machine_refines.

(* Every stack slot stays a 256-bit word along a run. *)
Theorem C10_stack_slots_are_words : forall jd2 hash E P c input st st',
  Forall word (s_stk st) -> step spec_op jd2 hash E P c input st = Next st' -> Forall word (s_stk st').
Proof. exact spec_step_keeps_words. Qed.
Print Assumptions C10_stack_slots_are_words.

(* The correspondence run evaluates the machine with mask-based reductions; it is the same function. *)
Theorem C10_eval_is_model : forall hash E P c input fuel gas,
  run_fast hash E P c input fuel gas = run_impl hash E P c input fuel gas.
Proof. exact run_fast_eq. Qed.
Print Assumptions C10_eval_is_model.

(* ---- Yellow-Paper machine ------------------------------------------------------------------------------- *)

(* The destination set D(c) of the Yellow Paper (recursion D_J / N(i, w)) is exactly the set of JUMPDEST bytes at
   instruction boundaries, hence (with C10_jumpdest) exactly what codeBitmap + validJumpdest accept. *)
Theorem C10_yp_destination_set : forall c d, in_D c d = true <-> d < clen c /\ cnth c d = 91 /\ boundary c d.
Proof. exact in_D_spec. Qed.
Print Assumptions C10_yp_destination_set.

Theorem C10_validJumpdest_is_D : forall c d, 0 <= d -> clen c <= U64 -> valid_jumpdest c d = in_D c d.
Proof. exact valid_jumpdest_in_D. Qed.
Print Assumptions C10_validJumpdest_is_D.

(* Refinement of the independent Yellow-Paper machine (YP.v: own decoding by opcode number, delta/alpha table,
   memory as a total byte map with the active-word counter, D(c), no gas) by the interpreter-shaped machine
   (Machine.v: jump-table row checks, memorySize/dynamic gas/Resize before execute, pop/peek order, uint256
   operations, bitmap analysis), on the gas-free projection.  For every jump table that agrees with delta/alpha on
   the instructions it defines, every code and call data (bytes, shorter than 2^62), every environment of words,
   every gas amount and every number of iterations: whenever the interpreter run ends -- STOP, RETURN, REVERT with
   its data, or a fault other than running out of gas -- the Yellow-Paper run of the same length ends the same way
   with the same output (or has met an instruction outside the gas-free set: GAS, storage, other calls, logs ...).
   CALL / STATICCALL to the identity precompile (0x04) are inside both machines and make the return-data buffer
   non-empty; the hypothesis on the ghost monitor [run_flag] excludes the runs in which such a call ran out of callee
   gas (not expressible without gas) or left return data that differs from its input -- the latter happens in the
   code as it is (C10_returndata_overlap_refuted below).
   The simulation relation (Sim.R) ties pc, stack and every memory byte of the two states after every step. *)
Theorem C10_refines_yellow_paper : forall defined hash E P c input,
  table_ok defined P = true ->
  clen c < 2 ^ 62 -> zlen input < 2 ^ 62 ->
  (forall x, 0 <= cnth c x < 256) -> (forall x, 0 <= cnth input x < 256) ->
  (forall l, word (hash l)) -> (forall k, word (env_get E k)) ->
  forall fuel gas,
    run_flag impl_op valid_jumpdest hash E P c input fuel (init gas) = false ->
    (exists w, yrun spec_op defined hash E c input fuel y0 = YOutside w) \/
    match proj (fst (run impl_op valid_jumpdest hash E P c input fuel (init gas))) with
    | Some r => yrun spec_op defined hash E c input fuel y0 = r
    | None => True
    end.
Proof. exact impl_refines_yp. Qed.
Print Assumptions C10_refines_yellow_paper.

(* One iteration: related states step to related states (or both halt alike). *)
Theorem C10_step_simulation : forall defined hash E P c input,
  table_ok defined P = true ->
  clen c < 2 ^ 62 -> zlen input < 2 ^ 62 ->
  (forall x, 0 <= cnth c x < 256) -> (forall x, 0 <= cnth input x < 256) ->
  (forall l, word (hash l)) -> (forall k, word (env_get E k)) ->
  forall st y, R st y -> Qsim defined hash E c input y (step impl_op valid_jumpdest hash E P c input st).
Proof. exact step_sim. Qed.
Print Assumptions C10_step_simulation.

(* The correspondence run evaluates the Yellow-Paper machine with the mask-based word operations: the machine only
   looks at their values, and fast_op = impl_op everywhere (which equals spec_op on words, C10_op_correct). *)
Theorem C10_yp_eval : forall defined hash E c input fuel y,
  yrun fast_op defined hash E c input fuel y = yrun impl_op defined hash E c input fuel y.
Proof. intros. apply yrun_ext. apply fast_op_eq. Qed.
Print Assumptions C10_yp_eval.

(* Hypotheses are satisfiable: the table built from delta/alpha itself is accepted, and on it a program that
   stores 5 - 3, hashes nothing, reads the environment and returns runs identically on both machines. *)
Example C10_example_yp :
  let defined := fun w => match delta_alpha w with Some _ => true | None => false end in
  let P := mkParams (map (fun k => match delta_alpha (Z.of_nat k) with
                                   | Some (d, a) => mkRow true 3 d (1024 + d - a)
                                   | None => no_row end) (seq 0 256)) 1 in
  let E := mkEnv 1 2 3 4 5 6 7 8 9 10 11 12 in
  let c := [96; 3; 96; 5; 3; 51; 1; 96; 0; 82; 96; 32; 96; 0; 243] in
  table_ok defined P = true /\
  fst (run_impl (fun _ => 0) E P c [] 100 1000) = OReturn (repeat 0 31 ++ [5]) (1000 - 10 * 3 - 3) /\
  yrun spec_op defined (fun _ => 0) E c [] 100 y0 = YReturn (repeat 0 31 ++ [5]).
Proof. cbv zeta. repeat (match goal with |- _ /\ _ => split end); vm_compute; reflexivity. Qed.

(* Non-vacuity: the boundary cases named in the property. *)
Example C10_example_words :
  word (2 ^ 255) /\ word (2 ^ 256 - 1) /\
  impl_op SDIV (2 ^ 255) (2 ^ 256 - 1) 0 = 2 ^ 255 /\          (* -2^255 / -1 *)
  impl_op SMOD (2 ^ 256 - 3) 2 0 = 2 ^ 256 - 1 /\               (* -3 smod 2 = -1: sign of the dividend *)
  impl_op SAR 256 (2 ^ 255) 0 = 2 ^ 256 - 1 /\                  (* shift count = 256, negative value *)
  impl_op SAR 257 (2 ^ 255 - 1) 0 = 0 /\
  impl_op SHL 256 1 0 = 0 /\ impl_op SHR 255 (2 ^ 255) 0 = 1 /\
  impl_op BYTE 32 (2 ^ 256 - 1) 0 = 0 /\ impl_op BYTE 31 258 0 = 2 /\
  impl_op SIGNEXTEND 0 255 0 = 2 ^ 256 - 1 /\ impl_op SIGNEXTEND 31 255 0 = 255 /\
  impl_op ADDMOD (2 ^ 256 - 1) (2 ^ 256 - 1) (2 ^ 256 - 1) = 0 /\ impl_op MULMOD 5 5 0 = 0 /\
  impl_op EXP 3 (2 ^ 256 - 1) 0 = 77194726158210796949047323339125271902179989777093709359638389338608753093291.
Proof.
  unfold word. repeat (match goal with |- _ /\ _ => split end); try (vm_compute; reflexivity); vm_compute; discriminate.
Qed.

(* PUSH2 0x5b5b; JUMPDEST; PUSH1 (truncated): offset 3 is a destination, offsets 1 and 2 are push data. *)
Example C10_example_jumpdest :
  let c := [97; 91; 91; 91; 96] in
  clen c <= U64 /\ valid_jumpdest c 3 = true /\ valid_jumpdest c 1 = false /\ valid_jumpdest c 2 = false /\
  valid_jumpdest c 5 = false /\ valid_jumpdest c (U64 + 3) = false /\ boundary c 3.
Proof.
  cbv zeta. repeat (match goal with |- _ /\ _ => split end); try (vm_compute; reflexivity); try (vm_compute; discriminate).
  change 3 with (0 + 1 + push_len (cnth [97; 91; 91; 91; 96] 0)). apply boundary_next; [apply boundary_0|vm_compute; reflexivity].
Qed.

(* A run: PUSH1 3; PUSH1 5; SUB; PUSH1 0; MSTORE; PUSH1 32; PUSH1 0; RETURN under a table with every row
   defined at 3 gas: returns the word 5 - 3 = 2 (first popped minus second), 8 instructions * 3 gas + 3 gas of
   memory expansion used. *)
Example C10_example_run :
  let P := mkParams (map (fun _ => mkRow true 3 0 1024) (seq 0 256)) 1 in
  let c := [96; 3; 96; 5; 3; 96; 0; 82; 96; 32; 96; 0; 243] in
  clen c <= U64 /\
  run_impl (fun _ => 0) (mkEnv 0 0 0 0 0 0 0 0 0 0 0 0) P c [] 100 1000 = (OReturn (repeat 0 31 ++ [2]) (1000 - 8 * 3 - 3), 2).
Proof. cbv zeta. split; vm_compute; [discriminate|reflexivity]. Qed.

(* KNOWN FINDING C10/returndata:identity-in-out-overlap, in the model as in the code: the refinement does not hold
   without the monitor hypothesis.  Code: MSTORE(0, bytes 1..32); STATICCALL(gas 0xffff, to 4, in = mem[0..32),
   out = mem[16..32)); RETURNDATACOPY(64, 0, 32); RETURN(64, 32).  The identity precompile's output is bytes 1..32 (the
   Yellow-Paper run returns them); the interpreter-shaped run returns bytes 1..16 twice, because dataCopy.Run hands back
   the caller's memory window, opCall copies the output into it and only then is the window snapshotted. *)
Theorem C10_returndata_overlap_refuted :
  exists defined hash E P c input fuel gas r,
    table_ok defined P = true /\
    run_flag impl_op valid_jumpdest hash E P c input fuel (init gas) = true /\
    proj (fst (run impl_op valid_jumpdest hash E P c input fuel (init gas))) = Some r /\
    yrun spec_op defined hash E c input fuel y0 = YReturn (map Z.of_nat (seq 1 32)) /\
    r = YReturn (map Z.of_nat (seq 1 16 ++ seq 1 16)).
Proof.
  exists (fun w => match delta_alpha w with Some _ => true | None => false end), (fun _ => 0),
         (mkEnv 1 2 3 4 5 6 7 8 9 10 11 12),
         (mkParams (map (fun k => match delta_alpha (Z.of_nat k) with
                                  | Some (d, a) => mkRow true 3 d (1024 + d - a)
                                  | None => no_row end) (seq 0 256)) 1),
         ([127] ++ map Z.of_nat (seq 1 32) ++
          [96; 0; 82; 96; 16; 96; 16; 96; 32; 96; 0; 96; 4; 97; 255; 255; 250; 80;
           96; 32; 96; 0; 96; 64; 62; 96; 32; 96; 64; 243]),
         [], 100%nat, 100000, (YReturn (map Z.of_nat (seq 1 16 ++ seq 1 16))).
  repeat (match goal with |- _ /\ _ => split end); vm_compute; reflexivity.
Qed.
Print Assumptions C10_returndata_overlap_refuted.

(* Return data after a callee frame: non-empty only after a message call that returned or reverted, or a creation whose
   initcode reverted; every other way a creation can end leaves the buffer empty. *)
Theorem C10_returndata_after_frame : forall e, rd_after e <> [] ->
  exists o, rd_after e = o /\ (e = FCallOk o \/ e = FCallRevert o \/ e = FCreateRevert o).
Proof.
  intros e H. destruct e as [o|o| | |o| ]; cbn [rd_after] in *; try congruence; exists o; split; auto.
Qed.
Print Assumptions C10_returndata_after_frame.
