(* C10 — the interpreter-shaped machine of Machine.v (instructions.go / interpreter.go: pop/peek
   order, memorySize + Resize before execute, codeBitmap analysis, uint256 operations) refines the
   Yellow-Paper machine of YP.v on the gas-free projection (pc, stack, memory, output, halting
   status): forward simulation, one interpreter iteration against one YP instruction, with an
   explicit state relation. *)
From Coq Require Import ZArith List Bool Lia.
From V.C10 Require Import Model Machine Proofs Jump Refine YP SimLemmas.
Import ListNotations.
Local Open Scope Z_scope.

(* ---- D(c) = the destinations accepted by the bitmap analysis ------------------------------------- *)

Lemma Nn_next c i : Nn i (byte_at c i) = next c i.
Proof.
  unfold Nn, next, push_len, is_push. rewrite byte_at_cnth.
  destruct ((96 <=? cnth c i) && (cnth c i <=? 127)); lia.
Qed.

Lemma DJ_sound c fuel : forall i d, DJ c fuel i d = true -> reach c i d /\ d < clen c /\ cnth c d = 91.
Proof.
  induction fuel as [|k IH]; intros i d H; [discriminate|].
  cbn [DJ] in H. change (len c) with (clen c) in H.
  destruct (Z.leb_spec (clen c) i) as [Hl|Hl]; [discriminate|].
  destruct ((byte_at c i =? 91) && (i =? d)) eqn:Eb.
  - apply andb_true_iff in Eb as [E1 E2]. apply Z.eqb_eq in E1, E2. subst d.
    repeat split; [apply reach_refl|assumption|rewrite <- byte_at_cnth; assumption].
  - rewrite Nn_next in H. apply IH in H as [R [A B]].
    repeat split; try assumption. apply reach_step; assumption.
Qed.

Lemma DJ_complete c : forall fuel i d, reach c i d -> d < clen c -> cnth c d = 91 ->
  d - i < Z.of_nat fuel -> DJ c fuel i d = true.
Proof.
  induction fuel as [|k IH]; intros i d R Hd H91 Hf.
  - apply reach_le in R. lia.
  - cbn [DJ]. change (len c) with (clen c).
    inversion R as [p|p q Hp Hr]; subst.
    + destruct (Z.leb_spec (clen c) d); [lia|]. rewrite byte_at_cnth, H91, !Z.eqb_refl. reflexivity.
    + destruct (Z.leb_spec (clen c) i); [lia|].
      destruct ((byte_at c i =? 91) && (i =? d)); [reflexivity|].
      rewrite Nn_next. apply IH; try assumption. pose proof (next_gt c i). lia.
Qed.

Theorem in_D_spec c d : in_D c d = true <-> d < clen c /\ cnth c d = 91 /\ boundary c d.
Proof.
  unfold in_D. rewrite boundary_reach. split.
  - intros H. apply DJ_sound in H. tauto.
  - intros [A [B R]]. apply DJ_complete; try assumption.
    pose proof (reach_le c 0 d R). unfold clen in *. lia.
Qed.

Lemma valid_jumpdest_in_D c d : 0 <= d -> clen c <= U64 -> valid_jumpdest c d = in_D c d.
Proof.
  intros Hd Hl. pose proof (valid_jumpdest_spec c d Hd Hl) as A. pose proof (in_D_spec c d) as B.
  destruct (valid_jumpdest c d), (in_D c d); try reflexivity.
  - symmetry. apply B, A. reflexivity.
  - apply A, B. reflexivity.
Qed.

(* ---- the interpreter's decoding against the opcode numbers of appendix H ---------------------------- *)

Lemma decode_spec b :
  match decode b with
  | KStop => b = 0
  | KArith2 o => arith_of b = Some (o, 2)
  | KArith3 o => arith_of b = Some (o, 3)
  | KArith1 o => arith_of b = Some (o, 1)
  | KCallDataLoad => b = 53 | KCallDataSize => b = 54 | KCallDataCopy => b = 55 | KCodeSize => b = 56
  | KCodeCopy => b = 57 | KPop => b = 80 | KMload => b = 81 | KMstore => b = 82 | KMstore8 => b = 83
  | KJump => b = 86 | KJumpi => b = 87 | KPc => b = 88 | KMsize => b = 89 | KGas => b = 90
  | KJumpdest => b = 91 | KMcopy => b = 94 | KPush0 => b = 95
  | KPush n => 96 <= b <= 127 /\ n = b - 95
  | KDup n => 128 <= b <= 143 /\ n = b - 127
  | KSwap n => 144 <= b <= 159 /\ n = b - 143
  | KReturn => b = 243 | KRevert => b = 253 | KSha3 => b = 32
  | KEnv e => arith_of b = None /\ env_of b = Some e
  | KRetDataSize => b = 61 | KRetDataCopy => b = 62
  | KOther => delta_alpha b = None
  end.
Proof.
  unfold decode.
  repeat match goal with
         | |- context [if ?x =? ?n then _ else _] =>
             let E := fresh "E" in
             destruct (x =? n) eqn:E;
             [apply Z.eqb_eq in E; subst b; cbn; try reflexivity; try (split; reflexivity)|]
         end.
  destruct ((96 <=? b) && (b <=? 127)) eqn:R1.
  { apply andb_true_iff in R1 as [A B]. apply Z.leb_le in A, B. split; [lia|reflexivity]. }
  destruct ((128 <=? b) && (b <=? 143)) eqn:R2.
  { apply andb_true_iff in R2 as [A B]. apply Z.leb_le in A, B. split; [lia|reflexivity]. }
  destruct ((144 <=? b) && (b <=? 159)) eqn:R3.
  { apply andb_true_iff in R3 as [A B]. apply Z.leb_le in A, B. split; [lia|reflexivity]. }
  unfold delta_alpha, arith_of, env_of.
  repeat match goal with H : _ = false |- _ => rewrite H; clear H end.
  reflexivity.
Qed.

(* ---- the jump table agrees with delta / alpha -------------------------------------------------------- *)

Definition row_ok (defined : Z -> bool) (P : params) (w : Z) : bool :=
  let rw := znth (p_tab P) w no_row in
  Bool.eqb (r_def rw) (defined w) &&
  (negb (defined w) ||
   match delta_alpha w with
   | Some (dl, al) => (r_min rw =? dl) && (r_max rw =? 1024 + dl - al)
   | None => true
   end).
Definition table_ok (defined : Z -> bool) (P : params) : bool :=
  forallb (fun k => row_ok defined P (Z.of_nat k)) (seq 0 256).

Lemma table_ok_row defined P w : table_ok defined P = true -> 0 <= w < 256 -> row_ok defined P w = true.
Proof.
  intros H Hw. unfold table_ok in H. rewrite forallb_forall in H.
  specialize (H (Z.to_nat w)). rewrite Z2Nat.id in H by lia. apply H. apply in_seq. lia.
Qed.

(* ---- state relation ------------------------------------------------------------------------------------ *)

Definition MAXMEM : Z := 137438953440.      (* 0x1FFFFFFFE0, the largest size memoryGasCost accepts *)

Definition mem_rel (mem : list Z) (m : Z -> Z) (i : Z) : Prop :=
  zlen mem = 32 * i /\ zlen mem <= MAXMEM /\ (forall x, 0 <= cnth mem x < 256) /\ (forall x, m x = cnth mem x).

Definition R (st : state) (y : ystate) : Prop :=
  s_pc st = y_pc y /\ 0 <= y_pc y /\ s_stk st = y_s y /\ Forall word (y_s y) /\
  mem_rel (s_mem st) (y_m y) (y_i y).

Definition expanded (mem : list Z) (msize : Z) : list Z := if 0 <? msize then mem_resize mem msize else mem.

Lemma expand_rel mem m i w :
  mem_rel mem m i -> 0 <= w -> 32 * w <= MAXMEM -> mem_rel (expanded mem (32 * w)) m (Z.max i w).
Proof.
  intros [A [B [C D]]] Hw Hb. pose proof (zlen_nonneg mem).
  unfold expanded. destruct (Z.ltb_spec 0 (32 * w)).
  - repeat split.
    + rewrite zlen_resize. lia.
    + rewrite zlen_resize. lia.
    + rewrite cnth_resize. apply C.
    + rewrite cnth_resize. apply C.
    + intros x. rewrite cnth_resize. apply D.
  - assert (w = 0) by lia. subst w. replace (Z.max i 0) with i by lia. repeat split; try assumption; apply C.
Qed.

Lemma write_rel mem m i off size v f :
  mem_rel mem m i -> 0 <= off -> 0 <= size -> off + size <= zlen mem -> zlen v = size ->
  (forall k, 0 <= k < size -> nth (Z.to_nat k) v 0 = f k) -> (forall k, 0 <= k < size -> 0 <= f k < 256) ->
  mem_rel (mem_set mem off size v) (mwrite m off size f) i.
Proof.
  intros [A [B [C D]]] Ho Hs Hb Hv Hf Hr.
  assert (G : forall x, cnth (mem_set mem off size v) x = mwrite m off size f x /\ 0 <= cnth (mem_set mem off size v) x < 256).
  { intros x. rewrite cnth_mem_set by assumption. unfold mwrite.
    destruct (Z.leb_spec off x); destruct (Z.ltb_spec x (off + size)); cbn [andb];
      try (rewrite D; split; [reflexivity|apply C]).
    rewrite Hf by lia. split; [reflexivity|apply Hr; lia]. }
  repeat split.
  - rewrite zlen_mem_set by assumption. assumption.
  - rewrite zlen_mem_set by assumption. assumption.
  - apply G.
  - apply G.
  - intros x. symmetry. apply G.
Qed.

Lemma read_rel mem m i a n : mem_rel mem m i -> 0 <= a -> 0 <= n -> a + n <= zlen mem ->
  slice mem a n = mread m a n.
Proof.
  intros [_ [_ [_ D]]] Ha Hn Hb. rewrite slice_mread by assumption. apply mread_ext. intros. symmetry. apply D.
Qed.

Lemma mem_rel_bytes mem m i : mem_rel mem m i -> forall x, 0 <= m x < 256.
Proof. intros [_ [_ [C D]]] x. rewrite D. apply C. Qed.
