(* C10 — the interpreter-shaped machine of Machine.v (instructions.go / interpreter.go: pop/peek
   order, memorySize + Resize before execute, codeBitmap analysis, uint256 operations) refines the
   Yellow-Paper machine of YP.v on the gas-free projection (pc, stack, memory, output, halting
   status): forward simulation, one interpreter iteration against one YP instruction, with an
   explicit state relation. *)
From Coq Require Import ZArith List Bool Lia Znumtheory.
From V.C10 Require Import Model Machine Proofs Jump Refine YP SimLemmas.
Import ListNotations.
Local Open Scope Z_scope.

(* ---- D(c) = the destinations accepted by the bitmap analysis ------------------------------------- *)

Lemma Nn_next c i : Nn i (byte_at c i) = next c i.
Proof.
  unfold Nn, next, push_len, is_push. rewrite byte_at_cnth.
  destruct ((96 <=? cnth c i) && (cnth c i <=? 127)); lia.
Qed.

Lemma DJ_sound c fuel : forall i d, DJ c fuel i d = true -> reach c i d /\ d < clen c /\ cnth c d = 91.
Proof.
  induction fuel as [|k IH]; intros i d H; [discriminate|].
  cbn [DJ] in H. change (len c) with (clen c) in H.
  destruct (Z.leb_spec (clen c) i) as [Hl|Hl]; [discriminate|].
  destruct ((byte_at c i =? 91) && (i =? d)) eqn:Eb.
  - apply andb_true_iff in Eb as [E1 E2]. apply Z.eqb_eq in E1, E2. subst d.
    repeat split; [apply reach_refl|assumption|rewrite <- byte_at_cnth; assumption].
  - rewrite Nn_next in H. apply IH in H as [R [A B]].
    repeat split; try assumption. apply reach_step; assumption.
Qed.

Lemma DJ_complete c : forall fuel i d, reach c i d -> d < clen c -> cnth c d = 91 ->
  d - i < Z.of_nat fuel -> DJ c fuel i d = true.
Proof.
  induction fuel as [|k IH]; intros i d R Hd H91 Hf.
  - apply reach_le in R. lia.
  - cbn [DJ]. change (len c) with (clen c).
    inversion R as [p|p q Hp Hr]; subst.
    + destruct (Z.leb_spec (clen c) d); [lia|]. rewrite byte_at_cnth, H91, !Z.eqb_refl. reflexivity.
    + destruct (Z.leb_spec (clen c) i); [lia|].
      destruct ((byte_at c i =? 91) && (i =? d)); [reflexivity|].
      rewrite Nn_next. apply IH; try assumption. pose proof (next_gt c i). lia.
Qed.

Theorem in_D_spec c d : in_D c d = true <-> d < clen c /\ cnth c d = 91 /\ boundary c d.
Proof.
  unfold in_D. rewrite boundary_reach. split.
  - intros H. apply DJ_sound in H. tauto.
  - intros [A [B R]]. apply DJ_complete; try assumption.
    pose proof (reach_le c 0 d R). unfold clen in *. lia.
Qed.

Lemma valid_jumpdest_in_D c d : 0 <= d -> clen c <= U64 -> valid_jumpdest c d = in_D c d.
Proof.
  intros Hd Hl. pose proof (valid_jumpdest_spec c d Hd Hl) as A. pose proof (in_D_spec c d) as B.
  destruct (valid_jumpdest c d), (in_D c d); try reflexivity.
  - symmetry. apply B, A. reflexivity.
  - apply A, B. reflexivity.
Qed.

(* ---- the interpreter's decoding against the opcode numbers of appendix H ---------------------------- *)

Lemma decode_spec b :
  match decode b with
  | KStop => b = 0
  | KArith2 o => arith_of b = Some (o, 2)
  | KArith3 o => arith_of b = Some (o, 3)
  | KArith1 o => arith_of b = Some (o, 1)
  | KCallDataLoad => b = 53 | KCallDataSize => b = 54 | KCallDataCopy => b = 55 | KCodeSize => b = 56
  | KCodeCopy => b = 57 | KPop => b = 80 | KMload => b = 81 | KMstore => b = 82 | KMstore8 => b = 83
  | KJump => b = 86 | KJumpi => b = 87 | KPc => b = 88 | KMsize => b = 89 | KGas => b = 90
  | KJumpdest => b = 91 | KMcopy => b = 94 | KPush0 => b = 95
  | KPush n => 96 <= b <= 127 /\ n = b - 95
  | KDup n => 128 <= b <= 143 /\ n = b - 127
  | KSwap n => 144 <= b <= 159 /\ n = b - 143
  | KReturn => b = 243 | KRevert => b = 253 | KSha3 => b = 32
  | KEnv e => arith_of b = None /\ env_of b = Some e
  | KRetDataSize => b = 61 | KRetDataCopy => b = 62 | KCall => b = 241 | KStaticCall => b = 250
  | KOther => delta_alpha b = None
  end.
Proof.
  unfold decode.
  repeat match goal with
         | |- context [if ?x =? ?n then _ else _] =>
             let E := fresh "E" in
             destruct (x =? n) eqn:E;
             [apply Z.eqb_eq in E; subst b; cbn; try reflexivity; try (split; reflexivity)|]
         end.
  destruct ((96 <=? b) && (b <=? 127)) eqn:R1.
  { apply andb_true_iff in R1 as [A B]. apply Z.leb_le in A, B. split; [lia|reflexivity]. }
  destruct ((128 <=? b) && (b <=? 143)) eqn:R2.
  { apply andb_true_iff in R2 as [A B]. apply Z.leb_le in A, B. split; [lia|reflexivity]. }
  destruct ((144 <=? b) && (b <=? 159)) eqn:R3.
  { apply andb_true_iff in R3 as [A B]. apply Z.leb_le in A, B. split; [lia|reflexivity]. }
  unfold delta_alpha, arith_of, env_of.
  repeat match goal with H : _ = false |- _ => rewrite H; clear H end.
  reflexivity.
Qed.

(* ---- the jump table agrees with delta / alpha -------------------------------------------------------- *)

Definition row_ok (defined : Z -> bool) (P : params) (w : Z) : bool :=
  let rw := znth (p_tab P) w no_row in
  Bool.eqb (r_def rw) (defined w) &&
  (negb (defined w) ||
   match delta_alpha w with
   | Some (dl, al) => (r_min rw =? dl) && (r_max rw =? 1024 + dl - al)
   | None => true
   end).
Definition table_ok (defined : Z -> bool) (P : params) : bool :=
  forallb (fun k => row_ok defined P (Z.of_nat k)) (seq 0 256).

Lemma table_ok_row defined P w : table_ok defined P = true -> 0 <= w < 256 -> row_ok defined P w = true.
Proof.
  intros H Hw. unfold table_ok in H. rewrite forallb_forall in H.
  specialize (H (Z.to_nat w)). rewrite Z2Nat.id in H by lia. apply H. apply in_seq. lia.
Qed.

(* ---- state relation ------------------------------------------------------------------------------------ *)

Definition MAXMEM : Z := 137438953440.      (* 0x1FFFFFFFE0, the largest size memoryGasCost accepts *)

Definition mem_rel (mem : list Z) (m : Z -> Z) (i : Z) : Prop :=
  zlen mem = 32 * i /\ zlen mem <= MAXMEM /\ (forall x, 0 <= cnth mem x < 256) /\ (forall x, m x = cnth mem x).

(* the return-data buffer: a byte string no longer than the memory can be *)
Definition rd_ok (o : list Z) : Prop := zlen o <= MAXMEM /\ forall x, 0 <= cnth o x < 256.

Definition R (st : state) (y : ystate) : Prop :=
  s_pc st = y_pc y /\ 0 <= y_pc y /\ s_stk st = y_s y /\ Forall word (y_s y) /\
  mem_rel (s_mem st) (y_m y) (y_i y) /\ (s_rd st = y_o y /\ rd_ok (y_o y)).

Definition expanded (mem : list Z) (msize : Z) : list Z := if 0 <? msize then mem_resize mem msize else mem.

Lemma expand_rel mem m i w :
  mem_rel mem m i -> 0 <= w -> 32 * w <= MAXMEM -> mem_rel (expanded mem (32 * w)) m (Z.max i w).
Proof.
  intros [A [B [C D]]] Hw Hb. pose proof (zlen_nonneg mem).
  unfold expanded. destruct (Z.ltb_spec 0 (32 * w)).
  - repeat split.
    + rewrite zlen_resize. lia.
    + rewrite zlen_resize. lia.
    + rewrite cnth_resize. apply C.
    + rewrite cnth_resize. apply C.
    + intros x. rewrite cnth_resize. apply D.
  - assert (w = 0) by lia. subst w. replace (Z.max i 0) with i by lia. repeat split; try assumption; apply C.
Qed.

Lemma write_rel mem m i off size v f :
  mem_rel mem m i -> 0 <= off -> 0 <= size -> off + size <= zlen mem -> zlen v = size ->
  (forall k, 0 <= k < size -> nth (Z.to_nat k) v 0 = f k) -> (forall k, 0 <= k < size -> 0 <= f k < 256) ->
  mem_rel (mem_set mem off size v) (mwrite m off size f) i.
Proof.
  intros [A [B [C D]]] Ho Hs Hb Hv Hf Hr.
  assert (G : forall x, cnth (mem_set mem off size v) x = mwrite m off size f x /\ 0 <= cnth (mem_set mem off size v) x < 256).
  { intros x. rewrite cnth_mem_set by assumption. unfold mwrite.
    destruct (Z.leb_spec off x); destruct (Z.ltb_spec x (off + size)); cbn [andb];
      try (rewrite D; split; [reflexivity|apply C]).
    rewrite Hf by lia. split; [reflexivity|apply Hr; lia]. }
  repeat split.
  - rewrite zlen_mem_set by assumption. assumption.
  - rewrite zlen_mem_set by assumption. assumption.
  - apply G.
  - apply G.
  - intros x. symmetry. apply G.
Qed.

Lemma read_rel mem m i a n : mem_rel mem m i -> 0 <= a -> 0 <= n -> a + n <= zlen mem ->
  slice mem a n = mread m a n.
Proof.
  intros [_ [_ [_ D]]] Ha Hn Hb. rewrite slice_mread by assumption. apply mread_ext. intros. symmetry. apply D.
Qed.

Lemma mem_rel_bytes mem m i : mem_rel mem m i -> forall x, 0 <= m x < 256.
Proof. intros [_ [_ [C D]]] x. rewrite D. apply C. Qed.

(* ---- the interpreter iteration, taken apart ------------------------------------------------------------ *)


Definition is_other (k : kind) : bool := match k with KOther => true | _ => false end.
Lemma match_other {A} k (a b : A) : is_other k = false ->
  match k with KOther => a | _ => b end = b.
Proof. destruct k; try reflexivity. discriminate. Qed.
Lemma is_other_true k : is_other k = true -> k = KOther.
Proof. destruct k; try discriminate. reflexivity. Qed.

Lemma mgc_bound mag L fee n p : memory_gas_cost mag L fee n = Some p -> n = 0 \/ n <= MAXMEM.
Proof.
  unfold memory_gas_cost, MAXMEM. destruct (Z.eqb_spec n 0); [left; assumption|].
  destruct (Z.ltb_spec 137438953440 n); [discriminate|]. right. assumption.
Qed.
Lemma copier_bound mag L fee n wo p : copier_gas mag L fee n wo = Some p -> n = 0 \/ n <= MAXMEM.
Proof.
  unfold copier_gas. destruct (memory_gas_cost mag L fee n) as [[g l]|] eqn:Em; [|discriminate].
  intros _. eapply mgc_bound; eassumption.
Qed.
Lemma sha3_bound mag L fee n wo p : sha3_gas mag L fee n wo = Some p -> n = 0 \/ n <= MAXMEM.
Proof.
  unfold sha3_gas. destruct (memory_gas_cost mag L fee n) as [[g l]|] eqn:Em; [|discriminate].
  intros _. eapply mgc_bound; eassumption.
Qed.

Lemma calc_u_nonneg off l : 0 <= fst (calc_mem_size_u off l).
Proof.
  unfold calc_mem_size_u. destruct (l =? 0); [cbn; lia|]. destruct (negb (off <? U64)); [cbn; lia|].
  cbn [fst]. apply Z.mod_pos_bound. reflexivity.
Qed.
Lemma calc_nonneg off l : 0 <= fst (calc_mem_size off l).
Proof. unfold calc_mem_size. destruct (negb (l <? U64)); [cbn; lia|apply calc_u_nonneg]. Qed.

Lemma call_mem_nonneg a b c0 d : 0 <= fst (call_mem_size a b c0 d).
Proof.
  unfold call_mem_size. pose proof (calc_nonneg a b). pose proof (calc_nonneg c0 d).
  destruct (calc_mem_size a b) as [x ox]. destruct ox; [cbn; lia|].
  destruct (calc_mem_size c0 d) as [y oy]. destruct oy; [cbn; lia|]. cbn [fst] in *. destruct (y <? x); lia.
Qed.
Lemma call_gas_bound mag av L fee n co p : call_gas mag av L fee n co = Some p -> n = 0 \/ n <= MAXMEM.
Proof.
  unfold call_gas. destruct (memory_gas_cost mag L fee n) as [[g l]|] eqn:Em; [|discriminate].
  intros _. eapply mgc_bound; eassumption.
Qed.

Lemma tws_nonneg sz : 0 <= sz -> 0 <= to_word_size sz.
Proof.
  intros. unfold to_word_size. destruct (MAXU64 - 31 <? sz); [vm_compute; discriminate|].
  apply Z.div_pos; lia.
Qed.

Section S.
  Variable hash : list Z -> Z.
  Variable E : env.
  Variable P : params.
  Variable c : code.
  Variable input : list Z.

  Lemma mem_size_nonneg k s sz ovf : mem_size_of k s = Some (sz, ovf) -> 0 <= sz.
  Proof.
    destruct k; cbn [mem_size_of]; try discriminate; intros H; injection H as H;
      match type of H with
      | calc_mem_size_u ?a ?b = _ => pose proof (calc_u_nonneg a b) as Q
      | calc_mem_size ?a ?b = _ => pose proof (calc_nonneg a b) as Q
      | call_mem_size ?a ?b ?c1 ?d = _ => pose proof (call_mem_nonneg a b c1 d) as Q
      end; rewrite H in Q; exact Q.
  Qed.

  Lemma dyn_bound k st ms p s x : mem_size_of k s = Some x -> dyn_gas_of P k st ms = Some (Some p) -> ms = 0 \/ ms <= MAXMEM.
  Proof.
    destruct k; cbn [mem_size_of dyn_gas_of]; try discriminate; intros _ H; injection H as H;
      first [eapply mgc_bound; eassumption | eapply copier_bound; eassumption | eapply sha3_bound; eassumption | eapply call_gas_bound; eassumption].
  Qed.
  Lemma dyn_none k st ms s x : mem_size_of k s = Some x -> dyn_gas_of P k st ms = None -> False.
  Proof. destruct k; cbn [mem_size_of dyn_gas_of]; discriminate. Qed.

  Lemma step_inv st (Q : stepres -> Prop) :
    (r_def (znth (p_tab P) (cnth c (s_pc st)) no_row) = false -> Q (Done (OFail EInvalidOp))) ->
    (r_def (znth (p_tab P) (cnth c (s_pc st)) no_row) = true ->
     zlen (s_stk st) < r_min (znth (p_tab P) (cnth c (s_pc st)) no_row) -> Q (Done (OFail EUnderflow))) ->
    (r_def (znth (p_tab P) (cnth c (s_pc st)) no_row) = true ->
     r_max (znth (p_tab P) (cnth c (s_pc st)) no_row) < zlen (s_stk st) -> Q (Done (OFail EOverflow))) ->
    Q (Done (OFail EOOG)) -> Q (Done (OFail EGasOverflow)) ->
    (decode (cnth c (s_pc st)) = KOther -> Q (Done (OUnmodelled (cnth c (s_pc st))))) ->
    (forall w fee' gas' cgt',
       r_def (znth (p_tab P) (cnth c (s_pc st)) no_row) = true ->
       r_min (znth (p_tab P) (cnth c (s_pc st)) no_row) <= zlen (s_stk st) <= r_max (znth (p_tab P) (cnth c (s_pc st)) no_row) ->
       decode (cnth c (s_pc st)) <> KOther ->
       0 <= w -> 32 * w <= MAXMEM ->
       match mem_size_of (decode (cnth c (s_pc st))) (s_stk st) with
       | None => w = 0
       | Some (sz, ovf) => ovf = false /\ w = to_word_size sz
       end ->
       Q (exec impl_op valid_jumpdest hash E c input (decode (cnth c (s_pc st))) (cnth c (s_pc st))
            (mkState (s_pc st) (s_stk st) (expanded (s_mem st) (32 * w)) fee' gas' (s_maxh st) (s_rd st) cgt' (s_bad st)))) ->
    Q (step impl_op valid_jumpdest hash E P c input st).
  Proof.
    intros H1 H2 H3 H4 H5 H6 H7. unfold step. cbv zeta.
    set (opc := cnth c (s_pc st)) in *. set (rw := znth (p_tab P) opc no_row) in *.
    destruct (r_def rw) eqn:Ed; cbn [negb]; [|apply H1; reflexivity].
    destruct (Z.ltb_spec (zlen (s_stk st)) (r_min rw)); [apply H2; [reflexivity|assumption]|].
    destruct (Z.ltb_spec (r_max rw) (zlen (s_stk st))); [apply H3; [reflexivity|assumption]|].
    destruct (Z.ltb_spec (s_gas st) (r_gas rw)); [apply H4|].
    destruct (is_other (decode opc)) eqn:Eo; [apply is_other_true in Eo; rewrite Eo; apply H6; exact Eo|].
    rewrite match_other by exact Eo.
    assert (Hne : decode opc <> KOther) by (intros Q0; rewrite Q0 in Eo; discriminate).
    destruct (mem_size_of (decode opc) (s_stk st)) as [[sz ovf]|] eqn:Em.
    - destruct ovf; [apply H5|].
      pose proof (mem_size_nonneg _ _ _ _ Em) as Hsz. pose proof (tws_nonneg sz Hsz) as Ht.
      unfold safe_mul. destruct (Z.eqb_spec (to_word_size sz) 0) as [Z0|Z0]; cbn [orb].
      + (* msize = 0 *)
        match goal with |- context [dyn_gas_of P ?k ?s ?m] => destruct (dyn_gas_of P k s m) as [[[g fee']|]|] eqn:Edyn end.
        * cbn [s_gas]. destruct (s_gas st - r_gas rw <? g); [apply H4|].
          match goal with |- context [cgt_of P ?k0 ?s0 ?m0] => set (CG := cgt_of P k0 s0 m0) end. cbn -[exec]. specialize (H7 0 fee' (s_gas st - r_gas rw - g) CG eq_refl (conj H H0) Hne).
          try rewrite Em in H7; cbn beta iota in H7. apply H7; [lia|unfold MAXMEM; lia|split; [reflexivity|symmetry; exact Z0]].
        * apply H4.
        * exfalso. eapply dyn_none; eassumption.
      + cbn [Z.eqb orb]. destruct (Z.leb_spec U64 (to_word_size sz * 32)); [apply H5|].
        rewrite Z.mod_small by lia.
        match goal with |- context [dyn_gas_of P ?k ?s ?m] => destruct (dyn_gas_of P k s m) as [[[g fee']|]|] eqn:Edyn end.
        * cbn [s_gas]. destruct (s_gas st - r_gas rw <? g); [apply H4|].
          pose proof (dyn_bound _ _ _ _ _ _ Em Edyn) as Hb.
          match goal with |- context [cgt_of P ?k0 ?s0 ?m0] => set (CG := cgt_of P k0 s0 m0) end. specialize (H7 (to_word_size sz) fee' (s_gas st - r_gas rw - g) CG eq_refl (conj H H0) Hne).
          try rewrite Em in H7; cbn beta iota in H7.
          assert (Q0 : Q (exec impl_op valid_jumpdest hash E c input (decode opc) opc
                 {| s_pc := s_pc st; s_stk := s_stk st; s_mem := expanded (s_mem st) (32 * to_word_size sz);
                    s_fee := fee'; s_gas := s_gas st - r_gas rw - g; s_maxh := s_maxh st;
                    s_rd := s_rd st; s_cgt := CG; s_bad := s_bad st |}))
            by (apply H7; [lia|lia|split; reflexivity]).
          unfold expanded in Q0. replace (32 * to_word_size sz) with (to_word_size sz * 32) in Q0 by lia.
          cbn [s_pc s_stk s_mem s_fee s_gas s_maxh s_rd s_cgt s_bad].
          destruct (0 <? to_word_size sz * 32); exact Q0.
        * apply H4.
        * exfalso. eapply dyn_none; eassumption.
    - match goal with |- context [dyn_gas_of P ?k ?s ?m] => destruct (dyn_gas_of P k s m) as [[[g fee']|]|] eqn:Edyn end.
      + cbn [s_gas]. destruct (s_gas st - r_gas rw <? g); [apply H4|].
        match goal with |- context [cgt_of P ?k0 ?s0 ?m0] => set (CG := cgt_of P k0 s0 m0) end. specialize (H7 0 fee' (s_gas st - r_gas rw - g) CG eq_refl (conj H H0) Hne).
        try rewrite Em in H7; cbn beta iota in H7. apply H7; [lia|unfold MAXMEM; lia|reflexivity].
      + apply H4.
      + specialize (H7 0 (s_fee st) (s_gas st - r_gas rw) (s_cgt st) eq_refl (conj H H0) Hne).
        try rewrite Em in H7; cbn beta iota in H7. apply H7; [lia|unfold MAXMEM; lia|reflexivity].
  Qed.
End S.

(* ---- one iteration against one Yellow-Paper instruction ------------------------------------------------- *)


Definition proj (o : outcome) : option yres :=
  match o with
  | OStop _ => Some YStop
  | OReturn d _ => Some (YReturn d)
  | ORevert d _ => Some (YRevert d)
  | OFail EOOG | OFail EGasOverflow => None
  | OFail _ => Some YExc
  | OFuel | OUnmodelled _ => None
  end.

Lemma wpush_word v s : word v -> wpush v s = v :: s.
Proof.
  intros [A B]. unfold wpush. f_equal. change (W - 1) with (Z.ones 256). rewrite Z.land_ones by lia.
  change (2 ^ 256) with W. apply Z.mod_small. lia.
Qed.

Lemma word_small x : 0 <= x < 2 ^ 64 -> word x.
Proof. intros. unfold word. change W with (2 ^ 256). assert (2 ^ 64 < 2 ^ 256) by reflexivity. lia. Qed.

Ltac zl := unfold zlen, len in *; cbn [length] in *.
Ltac pn := repeat match goal with H : word ?x |- _ => lazymatch goal with _ : 0 <= x |- _ => fail | _ => assert (0 <= x) by (destruct H; assumption) end end.
Ltac finR := unfold R; cbn [s_pc s_stk s_mem s_rd y_pc y_s y_m y_i y_o upd upd_call nth skipn];
  split; [|split; [|split; [|split; [|split; [|try (split; [reflexivity|assumption])]]]]].

Lemma bigend_all_zero l : (forall b, In b l -> b = 0) -> bigend l = 0.
Proof.
  induction l as [|b l IH]; intros H; [reflexivity|].
  unfold bigend. cbn [fold_left]. rewrite bigend_acc. rewrite IH by (intros; apply H; right; assumption).
  rewrite (H b) by (left; reflexivity). lia.
Qed.

Lemma bigend_mread_zero m a n : (forall x, 0 <= x < n -> m (a + x) = 0) -> bigend (mread m a n) = 0.
Proof.
  intros H. apply bigend_all_zero. intros b Hb. unfold mread in Hb. apply in_map_iff in Hb as [k [<- Hk]].
  apply in_seq in Hk. apply H. lia.
Qed.

Lemma cnth_nonzero_in l x : cnth l x <> 0 -> 0 <= x < zlen l.
Proof.
  intros H. destruct (Z.lt_ge_cases x 0); [exfalso; apply H, cnth_out; left; assumption|].
  destruct (Z.lt_ge_cases x (zlen l)); [lia|exfalso; apply H, cnth_out; right; assumption].
Qed.

Lemma tws_ceil sz w : 0 <= sz -> w = to_word_size sz -> 32 * w <= MAXMEM -> w = ceil32 sz /\ sz <= 32 * w.
Proof.
  intros Hs -> Hb. unfold to_word_size in *. destruct (Z.ltb_spec (MAXU64 - 31) sz).
  - exfalso. revert Hb. vm_compute. intros Q. apply Q. reflexivity.
  - unfold ceil32. split; [reflexivity|].
    pose proof (Z.div_mod (sz + 31) 32 ltac:(lia)). pose proof (Z.mod_pos_bound (sz + 31) 32 ltac:(lia)). lia.
Qed.

Lemma calc_u_facts a l sz w : 0 <= a -> 0 < l < U64 -> calc_mem_size_u a l = (sz, false) ->
  w = to_word_size sz -> 32 * w <= MAXMEM -> a < U64 /\ a + l <= 32 * w /\ w = ceil32 (a + l).
Proof.
  intros Ha Hl H Hw Hb. unfold calc_mem_size_u in H.
  destruct (Z.eqb_spec l 0); [lia|]. destruct (Z.ltb_spec a U64); cbn [negb] in H; [|discriminate].
  injection H as H1 H2. apply Z.ltb_ge in H2.
  assert (Hnw : a + l < U64).
  { destruct (Z.lt_ge_cases (a + l) U64); [assumption|exfalso].
    assert ((a + l) mod U64 = a + l - U64).
    { symmetry. apply (Zmod_unique (a + l) U64 1); change U64 with 18446744073709551616 in *; lia. }
    change U64 with 18446744073709551616 in *. lia. }
  rewrite Z.mod_small in H1 by (change U64 with 18446744073709551616 in *; lia). subst sz.
  destruct (tws_ceil (a + l) w ltac:(lia) Hw Hb). repeat split; assumption.
Qed.

Lemma calc_facts a l sz w : 0 <= a -> 0 <= l -> calc_mem_size a l = (sz, false) ->
  w = to_word_size sz -> 32 * w <= MAXMEM ->
  l < U64 /\ (l = 0 -> w = 0) /\ (0 < l -> a < U64 /\ a + l <= 32 * w /\ w = ceil32 (a + l)).
Proof.
  intros Ha Hl H Hw Hb. unfold calc_mem_size in H.
  destruct (Z.ltb_spec l U64); cbn [negb] in H; [|discriminate].
  split; [assumption|]. split.
  - intros ->. unfold calc_mem_size_u in H. cbn in H. injection H as <-. subst w. reflexivity.
  - intros Hp. eapply calc_u_facts; try eassumption. lia.
Qed.

Lemma Mx_eq yi a l w : 0 <= yi -> 0 <= l -> (l = 0 -> w = 0) -> (0 < l -> w = ceil32 (a + l)) -> Mx yi a l = Z.max yi w.
Proof.
  intros Hy Hl H0 H1. unfold Mx. destruct (Z.eqb_spec l 0) as [->|Hn].
  - rewrite H0 by reflexivity. lia.
  - rewrite <- H1 by lia. reflexivity.
Qed.

Lemma mem_rel_ext mem m m' i : mem_rel mem m i -> (forall x, m' x = m x) -> mem_rel mem m' i.
Proof. intros [A [B [C D]]] H. repeat split; try assumption; try apply C. intros x. rewrite H. apply D. Qed.

Lemma mwrite_empty m a f x : mwrite m a 0 f x = m x.
Proof. unfold mwrite. destruct (Z.leb_spec a x); destruct (Z.ltb_spec x (a + 0)); cbn [andb]; try reflexivity; lia. Qed.

Lemma mod_u64_256 v : (v mod U64) mod 256 = v mod 256.
Proof. symmetry. apply Zmod_div_mod; [lia|reflexivity|]. exists 72057594037927936. reflexivity. Qed.

Lemma set_nth_length l : forall n v, length (set_nth l n v) = length l.
Proof. induction l as [|x l IH]; intros [|n] v; cbn; auto. Qed.

Lemma nth_set_nth l : forall n v k, (n < length l)%nat ->
  nth k (set_nth l n v) 0 = if Nat.eqb k n then v else nth k l 0.
Proof.
  induction l as [|x l IH]; intros n v k H; [cbn in H; lia|].
  destruct n, k; cbn [set_nth nth Nat.eqb]; try reflexivity. apply IH. cbn in H. lia.
Qed.

Lemma swap_eq t r n : 1 <= n < zlen (t :: r) ->
  set_nth (znth (t :: r) n 0 :: r) (Z.to_nat n) t = yswap (t :: r) n.
Proof.
  intros H. unfold zlen in H. cbn [length] in H.
  apply (nth_ext _ _ 0 0).
  - rewrite set_nth_length. unfold yswap. rewrite map_length, seq_length. reflexivity.
  - intros k Hk. rewrite set_nth_length in Hk. cbn [length] in Hk.
    rewrite nth_set_nth by (cbn [length]; lia).
    unfold yswap. rewrite nth_map_seq by (cbn [length]; lia). cbv zeta.
    destruct (Nat.eqb_spec k (Z.to_nat n)) as [->|Hne].
    + rewrite Z2Nat.id by lia. destruct (Z.eqb_spec n 0); [lia|]. rewrite Z.eqb_refl. reflexivity.
    + destruct (Z.eqb_spec (Z.of_nat k) 0) as [E0|E0].
      * assert (k = 0)%nat by lia. subst k. reflexivity.
      * destruct (Z.eqb_spec (Z.of_nat k) n); [lia|]. destruct k; [lia|]. reflexivity.
Qed.

Ltac noteq w := repeat match goal with
  | |- context [w =? ?k] => replace (w =? k) with false by (symmetry; apply Z.eqb_neq; lia)
  end.

Lemma range_arith_env w : 96 <= w <= 159 -> arith_of w = None /\ env_of w = None.
Proof. intros H. unfold arith_of, env_of. noteq w. split; reflexivity. Qed.

Lemma da_push w : 96 <= w <= 127 -> delta_alpha w = Some (0, 1).
Proof.
  intros H. unfold delta_alpha. destruct (range_arith_env w ltac:(lia)) as [-> ->]. noteq w. cbn [orb].
  destruct (Z.leb_spec 96 w); [|lia]. destruct (Z.leb_spec w 127); [|lia]. reflexivity.
Qed.
Lemma da_dup w : 128 <= w <= 143 -> delta_alpha w = Some (w - 127, w - 127 + 1).
Proof.
  intros H. unfold delta_alpha. destruct (range_arith_env w ltac:(lia)) as [-> ->]. noteq w. cbn [orb].
  destruct (Z.leb_spec 96 w); [|lia]. destruct (Z.leb_spec w 127); [lia|]. cbn [andb].
  destruct (Z.leb_spec 128 w); [|lia]. destruct (Z.leb_spec w 143); [|lia]. reflexivity.
Qed.
Lemma da_swap w : 144 <= w <= 159 -> delta_alpha w = Some (w - 143 + 1, w - 143 + 1).
Proof.
  intros H. unfold delta_alpha. destruct (range_arith_env w ltac:(lia)) as [-> ->]. noteq w. cbn [orb].
  destruct (Z.leb_spec 96 w); [|lia]. destruct (Z.leb_spec w 127); [lia|]. cbn [andb].
  destruct (Z.leb_spec 128 w); [|lia]. destruct (Z.leb_spec w 143); [lia|]. cbn [andb].
  destruct (Z.leb_spec 144 w); [|lia]. destruct (Z.leb_spec w 159); [|lia]. reflexivity.
Qed.

Lemma sem_push hash E Ib Id w y : 96 <= w <= 127 ->
  sem spec_op hash E Ib Id w y =
  YNext (mkY (y_pc y + (w - 95) + 1) (bigend (mread (byte_at Ib) (y_pc y + 1) (w - 95)) :: y_s y) (y_m y) (y_i y) (y_o y)).
Proof.
  intros H. unfold sem. destruct (range_arith_env w ltac:(lia)) as [-> ->]. noteq w.
  destruct (Z.leb_spec 96 w); [|lia]. destruct (Z.leb_spec w 127); [|lia]. reflexivity.
Qed.
Lemma sem_dup hash E Ib Id w y : 128 <= w <= 143 ->
  sem spec_op hash E Ib Id w y =
  YNext (mkY (y_pc y + 1) (nth (Z.to_nat (w - 128)) (y_s y) 0 :: y_s y) (y_m y) (y_i y) (y_o y)).
Proof.
  intros H. unfold sem. destruct (range_arith_env w ltac:(lia)) as [-> ->]. noteq w.
  destruct (Z.leb_spec 96 w); [|lia]. destruct (Z.leb_spec w 127); [lia|]. cbn [andb].
  destruct (Z.leb_spec 128 w); [|lia]. destruct (Z.leb_spec w 143); [|lia]. reflexivity.
Qed.
Lemma sem_swap hash E Ib Id w y : 144 <= w <= 159 ->
  sem spec_op hash E Ib Id w y = YNext (mkY (y_pc y + 1) (yswap (y_s y) (w - 143)) (y_m y) (y_i y) (y_o y)).
Proof.
  intros H. unfold sem. destruct (range_arith_env w ltac:(lia)) as [-> ->]. noteq w.
  destruct (Z.leb_spec 96 w); [|lia]. destruct (Z.leb_spec w 127); [lia|]. cbn [andb].
  destruct (Z.leb_spec 128 w); [|lia]. destruct (Z.leb_spec w 143); [lia|]. cbn [andb].
  destruct (Z.leb_spec 144 w); [|lia]. destruct (Z.leb_spec w 159); [|lia]. reflexivity.
Qed.

Lemma zlen_expanded_ge mem3 ym i w : mem_rel mem3 ym (Z.max i w) -> 32 * w <= zlen mem3.
Proof. intros [A _]. lia. Qed.

Lemma copy_rel mem3 ym i3 data mo dof l :
  mem_rel mem3 ym i3 -> (forall x, 0 <= cnth data x < 256) -> zlen data < 2 ^ 62 ->
  0 <= mo -> 0 <= dof -> 0 <= l < U64 -> l <= MAXMEM -> (0 < l -> mo < U64 /\ mo + l <= zlen mem3) ->
  mem_rel (mem_set mem3 (mo mod U64) (l mod U64) (get_data data (if dof <? U64 then dof else MAXU64) (l mod U64)))
          (mwrite ym mo l (fun k => byte_at data (dof + k))) i3.
Proof.
  intros Hm Hb Hlen Hmo Hdof Hl Hlm Hp. rewrite (Z.mod_small l) by lia.
  destruct (Z.eqb_spec l 0) as [->|Hn].
  - unfold mem_set. cbn [Z.eqb]. eapply mem_rel_ext; [exact Hm|]. intros x. apply mwrite_empty.
  - destruct Hp as [Hmu Hfit]; [lia|]. rewrite (Z.mod_small mo) by lia.
    set (d64 := if dof <? U64 then dof else MAXU64).
    assert (Hd64 : 0 <= d64) by (unfold d64; destruct (dof <? U64); [assumption|vm_compute; discriminate]).
    rewrite get_data_mread; [|assumption|lia|unfold MAXMEM in Hlm; change U64 with 18446744073709551616; change (2 ^ 62) with 4611686018427387904 in Hlen; lia].
    apply write_rel; try assumption; try lia.
    + apply zlen_mread. lia.
    + intros k Hk. rewrite <- cnth_in by (rewrite zlen_mread; lia). rewrite cnth_mread by lia.
      cbv beta. change (byte_at data) with (cnth data). unfold d64. destruct (Z.ltb_spec dof U64); [reflexivity|].
      rewrite !cnth_out; [reflexivity|right|right];
        change U64 with 18446744073709551616 in *; change MAXU64 with 18446744073709551615; change (2 ^ 62) with 4611686018427387904 in Hlen; lia.
    + intros k Hk. change (byte_at data) with (cnth data). apply Hb.
Qed.

Lemma zlist_eq_true a : forall b, zlist_eq a b = true -> a = b.
Proof.
  induction a as [|x a IH]; intros [|y b] H; cbn in H; try discriminate; [reflexivity|].
  apply andb_true_iff in H as [H1 H2]. apply Z.eqb_eq in H1. subst. f_equal. apply IH. exact H2.
Qed.

Lemma ceil32_mono x y : x <= y -> ceil32 x <= ceil32 y.
Proof. intros. unfold ceil32. apply Z.div_le_mono; lia. Qed.

Lemma tws_small x : 0 <= x <= MAXMEM -> to_word_size x = ceil32 x.
Proof.
  intros H. unfold to_word_size, ceil32. destruct (Z.ltb_spec (MAXU64 - 31) x); [|reflexivity].
  exfalso. unfold MAXMEM in H. change (MAXU64 - 31) with 18446744073709551584 in *. lia.
Qed.

Lemma call_mem_facts roff rsz ioff isz sz w yi :
  0 <= roff -> 0 <= rsz -> 0 <= ioff -> 0 <= isz -> 0 <= yi ->
  call_mem_size roff rsz ioff isz = (sz, false) -> w = to_word_size sz -> 32 * w <= MAXMEM ->
  rsz < U64 /\ isz < U64 /\
  (0 < rsz -> roff < U64 /\ roff + rsz <= 32 * w) /\ (0 < isz -> ioff < U64 /\ ioff + isz <= 32 * w) /\
  Mx (Mx yi ioff isz) roff rsz = Z.max yi w.
Proof.
  intros Hro Hrs Hio His Hyi H Hw Hb. unfold call_mem_size in H.
  pose proof (calc_nonneg roff rsz) as Nx. pose proof (calc_nonneg ioff isz) as Ny.
  destruct (calc_mem_size roff rsz) as [x ox] eqn:Ex. destruct ox; [discriminate|].
  destruct (calc_mem_size ioff isz) as [y oy] eqn:Ey. destruct oy; [discriminate|].
  cbn [fst] in Nx, Ny. injection H as Hsz.
  assert (Hmax : sz = Z.max x y) by (destruct (Z.ltb_spec y x); lia).
  assert (Hsz0 : 0 <= sz) by lia.
  destruct (tws_ceil sz w Hsz0 Hw Hb) as [Hwc Hle].
  assert (Hx : x <= MAXMEM) by lia. assert (Hy : y <= MAXMEM) by lia.
  assert (Hwx : 32 * to_word_size x <= MAXMEM).
  { rewrite tws_small by lia. pose proof (ceil32_mono x sz ltac:(lia)). lia. }
  assert (Hwy : 32 * to_word_size y <= MAXMEM).
  { rewrite tws_small by lia. pose proof (ceil32_mono y sz ltac:(lia)). lia. }
  destruct (calc_facts roff rsz x (to_word_size x) Hro Hrs Ex eq_refl Hwx) as [A1 [A2 A3]].
  destruct (calc_facts ioff isz y (to_word_size y) Hio His Ey eq_refl Hwy) as [B1 [B2 B3]].
  assert (Hwmax : w = Z.max (to_word_size x) (to_word_size y)).
  { rewrite !tws_small by lia. rewrite Hwc, Hmax.
    destruct (Z.le_ge_cases x y) as [Q|Q]; pose proof (ceil32_mono _ _ Q); [rewrite Z.max_r by lia|rewrite Z.max_l by lia]; lia. }
  split; [assumption|]. split; [assumption|]. split; [|split].
  - intros Q. destruct (A3 Q) as [C1 [C2 _]]. split; [assumption|lia].
  - intros Q. destruct (B3 Q) as [C1 [C2 _]]. split; [assumption|lia].
  - rewrite (Mx_eq yi ioff isz (to_word_size y)) by (try assumption; intros Q; apply B3; exact Q).
    rewrite (Mx_eq (Z.max yi (to_word_size y)) roff rsz (to_word_size x)) by (try assumption; try lia; intros Q; apply A3; exact Q).
    lia.
Qed.

Lemma firstn_seq' k : forall a n, firstn k (seq a n) = seq a (Nat.min k n).
Proof. induction k as [|k IH]; intros a [|n]; cbn; try reflexivity. f_equal. apply IH. Qed.

Lemma firstn_mread m a n k : 0 <= k -> 0 <= n -> firstn (Z.to_nat k) (mread m a n) = mread m a (Z.min k n).
Proof.
  intros Hk Hn. unfold mread. rewrite firstn_map. f_equal. rewrite firstn_seq'. f_equal. lia.
Qed.

Lemma mem_set_short m off size v : 0 <= off -> off <= zlen m -> 0 < size ->
  mem_set m off size v = mem_set m off (Z.min size (zlen v)) (firstn (Z.to_nat size) v).
Proof.
  intros Ho Hol Hs. unfold mem_set at 1. destruct (Z.eqb_spec size 0); [lia|]. cbv zeta.
  pose proof (zlen_nonneg v) as Hv.
  destruct (Z.eqb_spec (Z.min size (zlen v)) 0) as [E0|E0].
  - assert (zlen v = 0) by lia. assert (v = []) by (destruct v; [reflexivity|unfold zlen in *; cbn in *; lia]). subst v.
    unfold mem_set. rewrite E0. cbn [Z.eqb]. rewrite firstn_nil. cbn [app length]. rewrite Nat.add_0_r. apply firstn_skipn.
  - unfold mem_set. destruct (Z.eqb_spec (Z.min size (zlen v)) 0); [lia|]. cbv zeta.
    rewrite firstn_firstn. replace (Init.Nat.min (Z.to_nat (Z.min size (zlen v))) (Z.to_nat size)) with (Z.to_nat (Z.min size (zlen v))) by lia.
    assert (Ef : firstn (Z.to_nat (Z.min size (zlen v))) v = firstn (Z.to_nat size) v).
    { destruct (Z.le_ge_cases size (zlen v)); [rewrite Z.min_l by lia; reflexivity|].
      rewrite Z.min_r by lia. rewrite !firstn_all2 by (unfold zlen in *; lia). reflexivity. }
    rewrite Ef. reflexivity.
Qed.

Section Sim.
  Variable defined : Z -> bool.
  Variable hash : list Z -> Z.
  Variable E : env.
  Variable P : params.
  Variable c : code.
  Variable input : list Z.
  Hypothesis Htab : table_ok defined P = true.
  Hypothesis Hclen : clen c < 2 ^ 62.
  Hypothesis Hinlen : zlen input < 2 ^ 62.
  Hypothesis Hcb : forall x, 0 <= cnth c x < 256.
  Hypothesis Hib : forall x, 0 <= cnth input x < 256.
  Hypothesis Hhash : forall l, word (hash l).
  Hypothesis Henv : forall k, word (env_get E k).

  Notation ystep' := (ystep spec_op defined hash E c input).
  Notation istep := (step impl_op valid_jumpdest hash E P c input).

  (* excluded: the Yellow-Paper machine met an instruction outside its set, or the ghost monitor fired (a call to the
     identity precompile ran out of callee gas -- not expressible without gas -- or left return data different from
     its input: known finding C10/returndata:identity-in-out-overlap) *)
  Definition Excl (y : ystate) (res : stepres) : Prop :=
    (exists w, ystep' y = YOutside w) \/ (exists st', res = Next st' /\ s_bad st' = true).
  Definition Qsim (y : ystate) (res : stepres) : Prop :=
    Excl y res \/
    match res with
    | Next st' => exists y', ystep' y = YNext y' /\ R st' y'
    | Done o => match proj o with Some r => ystep' y = r | None => True end
    end.

  Lemma ystep_sem y dl al :
    defined (cur_op c (y_pc y)) = true -> delta_alpha (cur_op c (y_pc y)) = Some (dl, al) ->
    dl <= len (y_s y) -> len (y_s y) - dl + al <= 1024 ->
    ystep' y = sem spec_op hash E c input (cur_op c (y_pc y)) y.
  Proof.
    intros Hd Hda H1 H2. unfold ystep. cbv zeta. rewrite Hd, Hda. cbn [negb].
    destruct (Z.ltb_spec (len (y_s y)) dl); [lia|].
    destruct (Z.ltb_spec 1024 (len (y_s y) - dl + al)); [lia|]. reflexivity.
  Qed.

  Lemma call_sim opc wn pc stk0 ys mem w fee' gas' maxh rd cgt' bad ym yi addr ioff isz roff rsz r :
    0 <= pc -> 0 <= yi -> 0 <= w -> 32 * w <= MAXMEM ->
    mem_rel (expanded mem (32 * w)) ym (Z.max yi w) ->
    (let (sz, ovf) := call_mem_size roff rsz ioff isz in ovf = false /\ w = to_word_size sz) ->
    0 <= addr -> 0 <= ioff -> 0 <= isz -> 0 <= roff -> 0 <= rsz -> Forall word r -> rd_ok rd ->
    ystep' {| y_pc := pc; y_s := ys; y_m := ym; y_i := yi; y_o := rd |} =
      ycall addr ioff isz roff rsz r {| y_pc := pc; y_s := ys; y_m := ym; y_i := yi; y_o := rd |} wn ->
    Qsim {| y_pc := pc; y_s := ys; y_m := ym; y_i := yi; y_o := rd |}
      (call_identity opc {| s_pc := pc; s_stk := stk0; s_mem := expanded mem (32 * w); s_fee := fee'; s_gas := gas';
                            s_maxh := maxh; s_rd := rd; s_cgt := cgt'; s_bad := bad |} addr ioff isz roff rsz r).
  Proof.
    intros Hpc0 Hyi Hw0 Hwb Hm' Hms Ha Hio His Hro0 Hrs Hr Hrok Hy.
    destruct (call_mem_size roff rsz ioff isz) as [sz ovf] eqn:Ec. destruct Hms as [-> Hwv].
    destruct (call_mem_facts roff rsz ioff isz sz w yi Hro0 Hrs Hio His Hyi Ec Hwv Hwb) as [Hrl [Hil [Hrp [Hip HMx]]]].
    pose proof (zlen_expanded_ge _ _ _ _ Hm') as Hge.
    set (mem3 := expanded mem (32 * w)) in *.
    unfold call_identity. cbv zeta. cbn [s_pc s_mem s_cgt s_gas].
    unfold ycall in Hy. cbv zeta in Hy. cbn [y_m y_pc y_i] in Hy.
    destruct (addr mod 2 ^ 160 =? 4); cbn [negb] in *; [|right; exact I].
    assert (Eargs : (if isz mod U64 =? 0 then [] else slice mem3 (ioff mod U64) (isz mod U64)) = mread ym ioff isz).
    { rewrite (Z.mod_small isz) by lia. destruct (Z.eqb_spec isz 0) as [->|Hn]; [reflexivity|].
      destruct Hip as [Q1 Q2]; [lia|]. rewrite (Z.mod_small ioff) by lia. apply (read_rel _ _ _ ioff isz Hm'); lia. }
    rewrite Eargs.
    match goal with |- context [if ?b then Next _ else _] => destruct b end.
    { left. right. eexists. split; [reflexivity|]. cbn [s_bad upd_call]. apply orb_true_r. }
    match goal with |- context [negb (zlist_eq ?a ?b)] => destruct (zlist_eq a b) eqn:Eq end; cbn [negb].
    2:{ left. right. eexists. split; [reflexivity|]. cbn [s_bad upd_call]. apply orb_true_r. }
    apply zlist_eq_true in Eq.
    right. rewrite wpush_word by (unfold word; split; [lia|reflexivity]).
    eexists. split; [exact Hy|].
    assert (Hbytes : forall x, 0 <= ym x < 256) by (apply (mem_rel_bytes _ _ _ Hm')).
    assert (Hmem : mem_rel (mem_set mem3 (roff mod U64) (rsz mod U64) (mread ym ioff isz))
                           (mwrite ym roff (Z.min rsz isz) (fun k => ym (ioff + k))) (Z.max yi w)).
    { rewrite (Z.mod_small rsz) by lia.
      destruct (Z.eqb_spec rsz 0) as [->|Hn].
      { unfold mem_set. cbn [Z.eqb]. eapply mem_rel_ext; [exact Hm'|]. intros x. rewrite Z.min_l by lia. apply mwrite_empty. }
      destruct Hrp as [Q1 Q2]; [lia|]. rewrite (Z.mod_small roff) by lia.
      rewrite mem_set_short by lia. rewrite zlen_mread by lia. rewrite firstn_mread by lia.
      destruct (Z.eqb_spec (Z.min rsz isz) 0) as [E0|E0].
      { rewrite E0. unfold mem_set. cbn [Z.eqb]. eapply mem_rel_ext; [exact Hm'|]. intros x. apply mwrite_empty. }
      apply write_rel; try assumption; try lia.
      - apply zlen_mread. lia.
      - intros k Hkk. rewrite <- cnth_in by (rewrite zlen_mread; lia). rewrite cnth_mread by lia. reflexivity.
      - intros k Hkk. apply Hbytes. }
    finR; try reflexivity; try lia.
    - constructor; [unfold word; split; [lia|reflexivity]|assumption].
    - rewrite HMx. exact Hmem.
    - split; [exact Eq|]. split.
      + rewrite zlen_mread by lia. destruct (Z.eq_dec isz 0); [unfold MAXMEM; lia|]. destruct Hip; lia.
      + intros x. destruct (Z.lt_ge_cases x 0); [rewrite cnth_out by (left; assumption); lia|].
        destruct (Z.lt_ge_cases x isz); [rewrite cnth_mread by lia; apply Hbytes|rewrite cnth_out by (right; rewrite zlen_mread by lia; assumption); lia].
  Qed.

  Lemma step_sim st y : R st y -> Qsim y (istep st).
  Proof.
    intros [Hpc [Hpc0 [Hs [Hw [Hm [Hrdeq Hro]]]]]].
    assert (Hop : cur_op c (y_pc y) = cnth c (s_pc st)) by (unfold cur_op; rewrite byte_at_cnth, Hpc; reflexivity).
    pose proof (table_ok_row defined P (cnth c (s_pc st)) Htab (Hcb _)) as Hrow.
    unfold row_ok in Hrow. cbv zeta in Hrow. apply andb_true_iff in Hrow as [Hrd Hrda].
    apply eqb_prop in Hrd.
    assert (Hlen : len (y_s y) = zlen (s_stk st)) by (rewrite Hs; reflexivity).
    apply step_inv.
    - (* invalid *) intros Hf. right. cbn [proj]. unfold ystep. cbv zeta. rewrite Hop, <- Hrd, Hf. reflexivity.
    - (* underflow *) intros Ht Hu. rewrite Ht in Hrd. rewrite <- Hrd in Hrda. cbn [negb orb] in Hrda.
      unfold Qsim, Excl, ystep. cbv zeta. rewrite Hop, <- Hrd. cbn [negb].
      destruct (delta_alpha (cnth c (s_pc st))) as [[dl al]|]; [|left; left; eexists; reflexivity].
      right. cbn [proj]. apply andb_true_iff in Hrda as [A B]. apply Z.eqb_eq in A, B.
      rewrite Hlen. destruct (Z.ltb_spec (zlen (s_stk st)) dl); [reflexivity|lia].
    - (* overflow *) intros Ht Hu. rewrite Ht in Hrd. rewrite <- Hrd in Hrda. cbn [negb orb] in Hrda.
      unfold Qsim, Excl, ystep. cbv zeta. rewrite Hop, <- Hrd. cbn [negb].
      destruct (delta_alpha (cnth c (s_pc st))) as [[dl al]|]; [|left; left; eexists; reflexivity].
      right. cbn [proj]. apply andb_true_iff in Hrda as [A B]. apply Z.eqb_eq in A, B.
      rewrite Hlen. destruct (Z.ltb_spec (zlen (s_stk st)) dl); [reflexivity|].
      destruct (Z.ltb_spec 1024 (zlen (s_stk st) - dl + al)); [reflexivity|lia].
    - right. exact I.
    - right. exact I.
    - intros _. right. exact I.
    - intros w fee' gas' cgt' Ht Hh Hk Hw0 Hwb Hms.
      rewrite Ht in Hrd. rewrite <- Hrd in Hrda. cbn [negb orb] in Hrda. symmetry in Hrd.
      rewrite <- Hop in *.
      set (opc := cur_op c (y_pc y)) in *.
      pose proof (decode_spec opc) as Hd.
      assert (Hsem : forall dl al, delta_alpha opc = Some (dl, al) ->
                ystep' y = sem spec_op hash E c input opc y /\ dl <= zlen (s_stk st) /\ zlen (s_stk st) - dl + al <= 1024).
      { intros dl al Hda. rewrite Hda in Hrda. apply andb_true_iff in Hrda as [A B]. apply Z.eqb_eq in A, B.
        split; [|lia]. apply (ystep_sem y dl al); try assumption; rewrite Hlen; lia. }
      clear Hrda.
      pose proof (expand_rel _ _ _ w Hm Hw0 Hwb) as Hm'.
      destruct st as [pc stk mem fee gas maxh rd cgt bad]. destruct y as [ypc ys ym yi yo].
      cbn [s_pc s_stk s_mem s_fee s_gas s_maxh s_rd s_cgt s_bad y_pc y_s y_m y_i y_o] in *. subst ypc ys yo.
      assert (Hyi : 0 <= yi) by (destruct Hm as [A _]; pose proof (zlen_nonneg mem); lia).
      clearbody opc.
      assert (Hnomem : w = 0 -> mem_rel mem ym yi).
      { intros ->. replace (Z.max yi 0) with yi in Hm' by lia. exact Hm'. }
      destruct (decode opc) eqn:Ek; cbn [mem_size_of] in Hms.
      + (* KStop *)
        destruct (Hsem 0 0) as [Hy _]; [rewrite Hd; reflexivity|].
        right. cbn [exec proj]. rewrite Hy, Hd. reflexivity.
      + (* KArith2 *)
        destruct (Hsem 2 1) as [Hy [Hlo Hhi]]; [unfold delta_alpha; rewrite Hd; reflexivity|].
        destruct stk as [|a [|b r]]; try (zl; lia). inv_words. try subst w.
        right. cbn [exec s_stk s_pc s_mem]. rewrite op_correct by (assumption || apply word_0).
        rewrite wpush_word by (apply spec_op_word; assumption || apply word_0).
        eexists. split; [rewrite Hy; unfold sem; rewrite Hd; reflexivity|].
        finR; try reflexivity; try lia.
        * constructor; [apply spec_op_word; assumption || apply word_0|assumption].
        * apply Hnomem; reflexivity.
      + (* KArith3 *)
        destruct (Hsem 3 1) as [Hy [Hlo Hhi]]; [unfold delta_alpha; rewrite Hd; reflexivity|].
        destruct stk as [|a [|b [|d r]]]; try (zl; lia). inv_words. try subst w.
        right. cbn [exec s_stk s_pc s_mem]. rewrite op_correct by assumption.
        rewrite wpush_word by (apply spec_op_word; assumption).
        eexists. split; [rewrite Hy; unfold sem; rewrite Hd; reflexivity|]. finR; try reflexivity; try lia.
        * constructor; [apply spec_op_word; assumption|assumption].
        * apply Hnomem; reflexivity.
      + (* KArith1 *)
        destruct (Hsem 1 1) as [Hy [Hlo Hhi]]; [unfold delta_alpha; rewrite Hd; reflexivity|].
        destruct stk as [|a r]; try (zl; lia). inv_words. try subst w.
        right. cbn [exec s_stk s_pc s_mem]. rewrite op_correct by (assumption || apply word_0).
        rewrite wpush_word by (apply spec_op_word; assumption || apply word_0).
        eexists. split; [rewrite Hy; unfold sem; rewrite Hd; reflexivity|]. finR; try reflexivity; try lia.
        * constructor; [apply spec_op_word; assumption || apply word_0|assumption].
        * apply Hnomem; reflexivity.
      + (* KCallDataLoad *)
        rewrite Hd in *. destruct (Hsem 1 1) as [Hy [Hlo Hhi]]; [reflexivity|].
        destruct stk as [|a r]; try (zl; lia). inv_words. try subst w.
        assert (Ev : (if a <? U64 then be_word (get_data input a 32) else 0) = bigend (mread (byte_at input) a 32)).
        { destruct (Z.ltb_spec a U64).
          - rewrite get_data_mread.
            + rewrite be_word_bigend. change (byte_at input) with (cnth input). reflexivity.
            + destruct H1; lia.
            + lia.
            + change U64 with 18446744073709551616. change (2 ^ 62) with 4611686018427387904 in Hinlen. lia.
          - symmetry. apply bigend_mread_zero. intros x Hx. rewrite byte_at_cnth. apply cnth_out. right.
            change U64 with 18446744073709551616 in *; change (2 ^ 62) with 4611686018427387904 in *; lia. }
        assert (Wv : word (bigend (mread (byte_at input) a 32))) by (apply bigend_mread_word; intros; rewrite byte_at_cnth; apply Hib).
        right. cbn [exec s_stk s_pc s_mem]. rewrite Ev. rewrite wpush_word by exact Wv.
        eexists. split; [rewrite Hy; reflexivity|]. finR; try reflexivity; try lia.
        * constructor; assumption.
        * apply Hnomem; reflexivity.
      + (* KCallDataSize *)
        rewrite Hd in *. destruct (Hsem 0 1) as [Hy [Hlo Hhi]]; [reflexivity|]. try subst w.
        assert (Wv : word (zlen input)) by (apply word_small; pose proof (zlen_nonneg input); change (2 ^ 62) with 4611686018427387904 in *; change (2 ^ 64) with 18446744073709551616; lia).
        right. cbn [exec s_stk s_pc s_mem]. rewrite wpush_word by exact Wv.
        eexists. split; [rewrite Hy; reflexivity|]. finR; try reflexivity; try lia.
        * constructor; assumption.
        * apply Hnomem; reflexivity.
      + (* KCallDataCopy *)
        rewrite Hd in *. destruct (Hsem 3 0) as [Hy [Hlo Hhi]]; [reflexivity|].
        destruct stk as [|mo [|dof [|l r]]]; try (zl; lia). inv_words. pn.
        change (znth (mo :: dof :: l :: r) 0 0) with mo in Hms. change (znth (mo :: dof :: l :: r) 2 0) with l in Hms.
        destruct (calc_mem_size mo l) as [sz ovf] eqn:Ec. destruct Hms as [-> Hwv].
        destruct (calc_facts mo l sz w ltac:(lia) ltac:(lia) Ec Hwv Hwb) as [Hl [Hl0 Hlp]].
        pose proof (zlen_expanded_ge _ _ _ _ Hm') as Hge.
        right. cbn [exec s_stk s_pc s_mem].
        eexists. split; [rewrite Hy; reflexivity|]. finR; try reflexivity; try lia; try assumption.
        rewrite (Mx_eq yi mo l w) by (try assumption; try lia; intros Q0; apply Hlp; exact Q0).
        apply copy_rel; try assumption; try lia.
      + (* KCodeSize *)
        rewrite Hd in *. destruct (Hsem 0 1) as [Hy [Hlo Hhi]]; [reflexivity|]. try subst w.
        assert (Wv : word (zlen c)) by (apply word_small; pose proof (zlen_nonneg c); unfold clen in Hclen; unfold zlen in *; change (2 ^ 62) with 4611686018427387904 in *; change (2 ^ 64) with 18446744073709551616; lia).
        right. cbn [exec s_stk s_pc s_mem]. rewrite wpush_word by exact Wv.
        eexists. split; [rewrite Hy; reflexivity|]. finR; try reflexivity; try lia.
        * constructor; assumption.
        * apply Hnomem; reflexivity.
      + (* KCodeCopy *)
        rewrite Hd in *. destruct (Hsem 3 0) as [Hy [Hlo Hhi]]; [reflexivity|].
        destruct stk as [|mo [|dof [|l r]]]; try (zl; lia). inv_words. pn.
        change (znth (mo :: dof :: l :: r) 0 0) with mo in Hms. change (znth (mo :: dof :: l :: r) 2 0) with l in Hms.
        destruct (calc_mem_size mo l) as [sz ovf] eqn:Ec. destruct Hms as [-> Hwv].
        destruct (calc_facts mo l sz w ltac:(lia) ltac:(lia) Ec Hwv Hwb) as [Hl [Hl0 Hlp]].
        pose proof (zlen_expanded_ge _ _ _ _ Hm') as Hge.
        right. cbn [exec s_stk s_pc s_mem].
        eexists. split; [rewrite Hy; reflexivity|]. finR; try reflexivity; try lia; try assumption.
        rewrite (Mx_eq yi mo l w) by (try assumption; try lia; intros Q0; apply Hlp; exact Q0).
        apply copy_rel; try assumption; try lia.
      + (* KPop *)
        rewrite Hd in *. destruct (Hsem 1 0) as [Hy [Hlo Hhi]]; [reflexivity|].
        destruct stk as [|a r]; try (zl; lia). inv_words. try subst w.
        right. cbn [exec s_stk s_pc s_mem].
        eexists. split; [rewrite Hy; reflexivity|]. finR; try reflexivity; try lia; try assumption.
      + (* KMload *)
        rewrite Hd in *. destruct (Hsem 1 1) as [Hy [Hlo Hhi]]; [reflexivity|].
        destruct stk as [|a r]; try (zl; lia). inv_words. pn.
        change (znth (a :: r) 0 0) with a in Hms.
        destruct (calc_mem_size_u a 32) as [sz ovf] eqn:Ec. destruct Hms as [-> Hwv].
        destruct (calc_u_facts a 32 sz w ltac:(lia) ltac:(split; [lia|reflexivity]) Ec Hwv Hwb) as [Ha [Hfit Hwc]].
        pose proof (zlen_expanded_ge _ _ _ _ Hm') as Hge.
        assert (Wv : word (bigend (mread ym a 32))) by (apply bigend_mread_word; apply (mem_rel_bytes _ _ _ Hm)).
        right. cbn [exec s_stk s_pc s_mem]. rewrite (Z.mod_small a) by lia.
        rewrite (read_rel _ _ _ a 32 Hm') by lia. rewrite be_word_bigend. rewrite wpush_word by exact Wv.
        eexists. split; [rewrite Hy; reflexivity|]. finR; try reflexivity; try lia.
        * constructor; assumption.
        * rewrite <- Hwc. exact Hm'.
      + (* KMstore *)
        rewrite Hd in *. destruct (Hsem 2 0) as [Hy [Hlo Hhi]]; [reflexivity|].
        destruct stk as [|a [|v r]]; try (zl; lia). inv_words. pn.
        change (znth (a :: v :: r) 0 0) with a in Hms.
        destruct (calc_mem_size_u a 32) as [sz ovf] eqn:Ec. destruct Hms as [-> Hwv].
        destruct (calc_u_facts a 32 sz w ltac:(lia) ltac:(split; [lia|reflexivity]) Ec Hwv Hwb) as [Ha [Hfit Hwc]].
        pose proof (zlen_expanded_ge _ _ _ _ Hm') as Hge.
        right. cbn [exec s_stk s_pc s_mem]. rewrite (Z.mod_small a) by lia.
        eexists. split; [rewrite Hy; reflexivity|]. finR; try reflexivity; try lia; try assumption.
        rewrite <- Hwc. apply write_rel; try assumption; try lia; try reflexivity.
        * intros k Hkk. apply nth_word_bytes. exact Hkk.
        * intros k Hkk. apply word_byte_range.
      + (* KMstore8 *)
        rewrite Hd in *. destruct (Hsem 2 0) as [Hy [Hlo Hhi]]; [reflexivity|].
        destruct stk as [|a [|v r]]; try (zl; lia). inv_words. pn.
        change (znth (a :: v :: r) 0 0) with a in Hms.
        destruct (calc_mem_size_u a 1) as [sz ovf] eqn:Ec. destruct Hms as [-> Hwv].
        destruct (calc_u_facts a 1 sz w ltac:(lia) ltac:(split; [lia|reflexivity]) Ec Hwv Hwb) as [Ha [Hfit Hwc]].
        pose proof (zlen_expanded_ge _ _ _ _ Hm') as Hge.
        right. cbn [exec s_stk s_pc s_mem]. rewrite (Z.mod_small a) by lia.
        eexists. split; [rewrite Hy; reflexivity|]. finR; try reflexivity; try lia; try assumption.
        rewrite <- Hwc. apply write_rel; try assumption; try lia; try reflexivity.
        * intros k Hkk. assert (k = 0) by lia. subst k. cbn [Z.to_nat nth]. apply mod_u64_256.
        * intros k Hkk. apply Z.mod_pos_bound. lia.
      + (* KJump *)
        rewrite Hd in *. destruct (Hsem 1 0) as [Hy [Hlo Hhi]]; [reflexivity|].
        destruct stk as [|a r]; try (zl; lia). inv_words. pn. try subst w.
        assert (Hcl : clen c <= U64) by (change U64 with 18446744073709551616 in *; change (2 ^ 62) with 4611686018427387904 in *; lia).
        right. cbn [exec s_stk s_pc s_mem]. rewrite (valid_jumpdest_in_D c a) by assumption.
        destruct (in_D c a) eqn:Ed.
        * pose proof Ed as Ed'. apply in_D_spec in Ed' as [Q0 _]. rewrite (Z.mod_small a) by (change U64 with 18446744073709551616 in *; change (2 ^ 62) with 4611686018427387904 in *; lia).
          eexists. split; [rewrite Hy; unfold sem; cbn [arith_of env_of Z.eqb Pos.eqb nth skipn y_s y_pc y_m y_i]; rewrite Ed; reflexivity|].
          finR; try reflexivity; try lia; try assumption.
        * cbn [proj]. rewrite Hy. unfold sem. cbn [arith_of env_of Z.eqb Pos.eqb nth skipn y_s y_pc y_m y_i]. rewrite Ed. reflexivity.
      + (* KJumpi *)
        rewrite Hd in *. destruct (Hsem 2 0) as [Hy [Hlo Hhi]]; [reflexivity|].
        destruct stk as [|a [|b r]]; try (zl; lia). inv_words. pn. try subst w.
        assert (Hcl : clen c <= U64) by (change U64 with 18446744073709551616 in *; change (2 ^ 62) with 4611686018427387904 in *; lia).
        right. cbn [exec s_stk s_pc s_mem]. rewrite (valid_jumpdest_in_D c a) by assumption.
        destruct (b =? 0) eqn:Eb.
        { eexists. split; [rewrite Hy; unfold sem; cbn [arith_of env_of Z.eqb Pos.eqb nth skipn y_s y_pc y_m y_i]; rewrite Eb; reflexivity|].
          finR; try reflexivity; try lia; try assumption. }
        destruct (in_D c a) eqn:Ed.
        * pose proof Ed as Ed'. apply in_D_spec in Ed' as [Q0 _]. rewrite (Z.mod_small a) by (change U64 with 18446744073709551616 in *; change (2 ^ 62) with 4611686018427387904 in *; lia).
          eexists. split; [rewrite Hy; unfold sem; cbn [arith_of env_of Z.eqb Pos.eqb nth skipn y_s y_pc y_m y_i]; rewrite Eb, Ed; reflexivity|].
          finR; try reflexivity; try lia; try assumption.
        * cbn [proj]. rewrite Hy. unfold sem. cbn [arith_of env_of Z.eqb Pos.eqb nth skipn y_s y_pc y_m y_i]. rewrite Eb, Ed. reflexivity.
      + (* KPc *)
        rewrite Hd in *. destruct (Hsem 0 1) as [Hy [Hlo Hhi]]; [reflexivity|]. try subst w.
        assert (Hin : 0 <= pc < zlen c) by (apply cnth_nonzero_in; rewrite <- Hop; discriminate).
        assert (Wv : word pc) by (apply word_small; unfold clen, zlen in *; change (2 ^ 62) with 4611686018427387904 in *; change (2 ^ 64) with 18446744073709551616; lia).
        right. cbn [exec s_stk s_pc s_mem]. rewrite wpush_word by exact Wv.
        eexists. split; [rewrite Hy; reflexivity|]. finR; try reflexivity; try lia; try assumption.
        constructor; assumption.
      + (* KMsize *)
        rewrite Hd in *. destruct (Hsem 0 1) as [Hy [Hlo Hhi]]; [reflexivity|]. try subst w.
        assert (Hz : zlen (expanded mem (32 * 0)) = 32 * yi) by (destruct Hm as [A _]; exact A).
        assert (Wv : word (32 * yi)).
        { destruct Hm as [A [B _]]. apply word_small. unfold MAXMEM in B. change (2 ^ 64) with 18446744073709551616. lia. }
        right. cbn [exec s_stk s_pc s_mem]. rewrite Hz. rewrite wpush_word by exact Wv.
        eexists. split; [rewrite Hy; reflexivity|]. finR; try reflexivity; try lia; try assumption.
        constructor; assumption.
      + (* KGas *)
        rewrite Hd in *. destruct (Hsem 0 1) as [Hy _]; [reflexivity|].
        left. left. exists 90. rewrite Hy. reflexivity.
      + (* KJumpdest *)
        rewrite Hd in *. destruct (Hsem 0 0) as [Hy [Hlo Hhi]]; [reflexivity|]. try subst w.
        right. cbn [exec s_stk s_pc s_mem].
        eexists. split; [rewrite Hy; reflexivity|]. finR; try reflexivity; try lia; try assumption.
      + (* KMcopy *)
        rewrite Hd in *. destruct (Hsem 3 0) as [Hy [Hlo Hhi]]; [reflexivity|].
        destruct stk as [|dst [|src [|l r]]]; try (zl; lia). inv_words. pn.
        change (znth (dst :: src :: l :: r) 0 0) with dst in Hms. change (znth (dst :: src :: l :: r) 1 0) with src in Hms.
        change (znth (dst :: src :: l :: r) 2 0) with l in Hms.
        assert (Emax : (if dst <? src then src else dst) = Z.max dst src) by (destruct (Z.ltb_spec dst src); lia).
        rewrite Emax in Hms.
        destruct (calc_mem_size (Z.max dst src) l) as [sz ovf] eqn:Ec. destruct Hms as [-> Hwv].
        destruct (calc_facts (Z.max dst src) l sz w ltac:(lia) ltac:(lia) Ec Hwv Hwb) as [Hl [Hl0 Hlp]].
        pose proof (zlen_expanded_ge _ _ _ _ Hm') as Hge.
        right. cbn [exec s_stk s_pc s_mem]. rewrite (Z.mod_small l) by lia.
        eexists. split; [rewrite Hy; reflexivity|]. finR; try reflexivity; try lia; try assumption.
        rewrite (Mx_eq yi (Z.max dst src) l w) by (try assumption; try lia; intros Q0; apply Hlp; exact Q0).
        destruct (Z.eqb_spec l 0) as [->|Hn].
        * eapply mem_rel_ext; [exact Hm'|]. intros x. apply mwrite_empty.
        * destruct Hlp as [Q1 [Q2 _]]; [lia|].
          rewrite (Z.mod_small dst), (Z.mod_small src) by lia.
          rewrite (read_rel _ _ _ src l Hm') by lia.
          apply write_rel; try assumption; try lia.
          -- apply zlen_mread. lia.
          -- intros k Hkk. rewrite <- cnth_in by (rewrite zlen_mread; lia). rewrite cnth_mread by lia. reflexivity.
          -- intros k Hkk. apply (mem_rel_bytes _ _ _ Hm).
      + (* KPush0 *)
        rewrite Hd in *. destruct (Hsem 0 1) as [Hy [Hlo Hhi]]; [reflexivity|]. try subst w.
        right. cbn [exec s_stk s_pc s_mem]. rewrite wpush_word by apply word_0.
        eexists. split; [rewrite Hy; reflexivity|]. finR; try reflexivity; try lia; try assumption.
        constructor; [apply word_0|assumption].
      + (* KPush *)
        destruct Hd as [Hr ->]. destruct (Hsem 0 1) as [Hy [Hlo Hhi]]; [apply da_push; exact Hr|]. try subst w.
        assert (Wv : word (bigend (mread (byte_at c) (pc + 1) (opc - 95)))).
        { apply bigend_mread_bound; [intros; change (byte_at c) with (cnth c); apply Hcb|lia]. }
        right. cbn [exec s_stk s_pc s_mem]. cbv zeta.
        rewrite (padded_window c (pc + 1) (opc - 95)) by lia. rewrite be_word_bigend.
        change (cnth c) with (byte_at c). rewrite wpush_word by exact Wv.
        eexists. split; [rewrite Hy; apply sem_push; exact Hr|]. finR; cbn [y_pc y_s y_m y_i]; try reflexivity; try lia; try assumption.
        constructor; assumption.
      + (* KDup *)
        destruct Hd as [Hr ->]. destruct (Hsem (opc - 127) (opc - 127 + 1)) as [Hy [Hlo Hhi]]; [apply da_dup; exact Hr|]. try subst w.
        assert (Wv : word (znth stk (opc - 127 - 1) 0)) by (apply znth_word; assumption).
        right. cbn [exec s_stk s_pc s_mem]. rewrite wpush_word by exact Wv.
        eexists. split; [rewrite Hy; apply sem_dup; exact Hr|]. finR; cbn [y_pc y_s y_m y_i]; try lia; try assumption.
        * unfold znth. replace (opc - 127 - 1) with (opc - 128) by lia. reflexivity.
        * constructor; [|assumption]. replace (opc - 128) with (opc - 127 - 1) by lia. exact Wv.
      + (* KSwap *)
        destruct Hd as [Hr ->]. destruct (Hsem (opc - 143 + 1) (opc - 143 + 1)) as [Hy [Hlo Hhi]]; [apply da_swap; exact Hr|]. try subst w.
        destruct stk as [|t r]; try (zl; lia).
        right. cbn [exec s_stk s_pc s_mem].
        eexists. split; [rewrite Hy; apply sem_swap; exact Hr|]. finR; cbn [y_pc y_s y_m y_i]; try lia; try assumption.
        * apply swap_eq. lia.
        * rewrite <- swap_eq by lia. inversion Hw; subst. apply set_nth_words; [constructor; [apply znth_word; assumption|assumption]|assumption].
      + (* KReturn *)
        rewrite Hd in *. destruct (Hsem 2 0) as [Hy [Hlo Hhi]]; [reflexivity|].
        destruct stk as [|off [|size r]]; try (zl; lia). inv_words. pn.
        change (znth (off :: size :: r) 0 0) with off in Hms. change (znth (off :: size :: r) 1 0) with size in Hms.
        destruct (calc_mem_size off size) as [sz ovf] eqn:Ec. destruct Hms as [-> Hwv].
        destruct (calc_facts off size sz w ltac:(lia) ltac:(lia) Ec Hwv Hwb) as [Hl [Hl0 Hlp]].
        pose proof (zlen_expanded_ge _ _ _ _ Hm') as Hge.
        right. cbn [exec s_stk s_pc s_mem proj]. rewrite (Z.mod_small size) by lia. rewrite Hy.
        destruct (Z.eqb_spec size 0) as [->|Hn]; [reflexivity|].
        destruct Hlp as [Q1 [Q2 _]]; [lia|]. rewrite (Z.mod_small off) by lia.
        rewrite (read_rel _ _ _ off size Hm') by lia. reflexivity.
      + (* KRevert *)
        rewrite Hd in *. destruct (Hsem 2 0) as [Hy [Hlo Hhi]]; [reflexivity|].
        destruct stk as [|off [|size r]]; try (zl; lia). inv_words. pn.
        change (znth (off :: size :: r) 0 0) with off in Hms. change (znth (off :: size :: r) 1 0) with size in Hms.
        destruct (calc_mem_size off size) as [sz ovf] eqn:Ec. destruct Hms as [-> Hwv].
        destruct (calc_facts off size sz w ltac:(lia) ltac:(lia) Ec Hwv Hwb) as [Hl [Hl0 Hlp]].
        pose proof (zlen_expanded_ge _ _ _ _ Hm') as Hge.
        right. cbn [exec s_stk s_pc s_mem proj]. rewrite (Z.mod_small size) by lia. rewrite Hy.
        destruct (Z.eqb_spec size 0) as [->|Hn]; [reflexivity|].
        destruct Hlp as [Q1 [Q2 _]]; [lia|]. rewrite (Z.mod_small off) by lia.
        rewrite (read_rel _ _ _ off size Hm') by lia. reflexivity.
      + (* KSha3 *)
        rewrite Hd in *. destruct (Hsem 2 1) as [Hy [Hlo Hhi]]; [reflexivity|].
        destruct stk as [|off [|size r]]; try (zl; lia). inv_words. pn.
        change (znth (off :: size :: r) 0 0) with off in Hms. change (znth (off :: size :: r) 1 0) with size in Hms.
        destruct (calc_mem_size off size) as [sz ovf] eqn:Ec. destruct Hms as [-> Hwv].
        destruct (calc_facts off size sz w ltac:(lia) ltac:(lia) Ec Hwv Hwb) as [Hl [Hl0 Hlp]].
        pose proof (zlen_expanded_ge _ _ _ _ Hm') as Hge.
        assert (Edata : (if size mod U64 =? 0 then [] else slice (expanded mem (32 * w)) (off mod U64) (size mod U64)) = mread ym off size).
        { rewrite (Z.mod_small size) by lia. destruct (Z.eqb_spec size 0) as [->|Hn]; [reflexivity|].
          destruct Hlp as [Q1 [Q2 _]]; [lia|]. rewrite (Z.mod_small off) by lia. apply (read_rel _ _ _ off size Hm'); lia. }
        right. cbn [exec s_stk s_pc s_mem]. cbv zeta. rewrite Edata. rewrite wpush_word by apply Hhash.
        eexists. split; [rewrite Hy; reflexivity|]. finR; try reflexivity; try lia; try assumption.
        * constructor; [apply Hhash|assumption].
        * rewrite (Mx_eq yi off size w) by (try assumption; try lia; intros Q0; apply Hlp; exact Q0). exact Hm'.
      + (* KEnv *)
        destruct Hd as [Ha He]. destruct (Hsem 0 1) as [Hy [Hlo Hhi]]; [unfold delta_alpha; rewrite Ha, He; reflexivity|]. try subst w.
        right. cbn [exec s_stk s_pc s_mem]. rewrite wpush_word by apply Henv.
        eexists. split; [rewrite Hy; unfold sem; rewrite Ha, He; reflexivity|]. finR; try reflexivity; try lia; try assumption.
        constructor; [apply Henv|assumption].
      + (* KRetDataSize *)
        rewrite Hd in *. destruct (Hsem 0 1) as [Hy [Hlo Hhi]]; [reflexivity|]. try subst w.
        assert (Wv : word (zlen rd)).
        { destruct Hro as [B _]. apply word_small. pose proof (zlen_nonneg rd). unfold MAXMEM in B. change (2 ^ 64) with 18446744073709551616. lia. }
        right. cbn [exec s_stk s_pc s_mem s_rd]. rewrite wpush_word by exact Wv.
        eexists. split; [rewrite Hy; reflexivity|]. finR; try reflexivity; try lia; try assumption.
        constructor; assumption.
      + (* KRetDataCopy *)
        rewrite Hd in *. destruct (Hsem 3 0) as [Hy [Hlo Hhi]]; [reflexivity|].
        destruct stk as [|mo [|dof [|l r]]]; try (zl; lia). inv_words. pn.
        change (znth (mo :: dof :: l :: r) 0 0) with mo in Hms. change (znth (mo :: dof :: l :: r) 2 0) with l in Hms.
        destruct (calc_mem_size mo l) as [sz ovf] eqn:Ec. destruct Hms as [-> Hwv].
        destruct (calc_facts mo l sz w ltac:(lia) ltac:(lia) Ec Hwv Hwb) as [Hl [Hl0 Hlp]].
        pose proof (zlen_expanded_ge _ _ _ _ Hm') as Hge.
        destruct Hro as [Hrl Hrb]. pose proof (zlen_nonneg rd) as Hrn.
        right. cbn [exec s_stk s_pc s_mem s_rd].
        assert (Hsm : sem spec_op hash E c input 62 {| y_pc := pc; y_s := mo :: dof :: l :: r; y_m := ym; y_i := yi; y_o := rd |} =
                      if len rd <? dof + l then YExc
                      else YNext (mkY (pc + 1) r (mwrite ym mo l (fun k => byte_at rd (dof + k))) (Mx yi mo l) rd)) by reflexivity.
        change (len rd) with (zlen rd) in Hsm.
        destruct (Z.ltb_spec dof U64) as [Hdu|Hdu]; cbn [negb].
        2:{ cbn [proj]. rewrite Hy, Hsm. destruct (Z.ltb_spec (zlen rd) (dof + l)); [reflexivity|unfold MAXMEM in Hrl; change U64 with 18446744073709551616 in *; lia]. }
        assert (Esum : (dof + l) mod W = dof + l).
        { apply Z.mod_small. change U64 with 18446744073709551616 in *. change W with 115792089237316195423570985008687907853269984665640564039457584007913129639936. lia. }
        rewrite Esum.
        destruct (Z.ltb_spec (dof + l) U64) as [He|He]; cbn [negb orb].
        2:{ cbn [proj]. rewrite Hy, Hsm. destruct (Z.ltb_spec (zlen rd) (dof + l)); [reflexivity|unfold MAXMEM in Hrl; change U64 with 18446744073709551616 in *; lia]. }
        destruct (Z.ltb_spec (zlen rd) (dof + l)) as [Hp|Hp].
        { cbn [proj]. rewrite Hy, Hsm. destruct (Z.ltb_spec (zlen rd) (dof + l)); [reflexivity|lia]. }
        eexists. split; [rewrite Hy, Hsm; destruct (Z.ltb_spec (zlen rd) (dof + l)); [lia|reflexivity]|].
        finR; cbn [y_pc y_s y_m y_i y_o]; try reflexivity; try lia; try assumption; try (split; [reflexivity|split; assumption]).
        rewrite (Mx_eq yi mo l w) by (try assumption; try lia; intros Q0; apply Hlp; exact Q0).
        rewrite (Z.mod_small l) by lia. replace (dof + l - dof) with l by lia.
        destruct (Z.eqb_spec l 0) as [->|Hn].
        * unfold mem_set. cbn [Z.eqb]. eapply mem_rel_ext; [exact Hm'|]. intros x. apply mwrite_empty.
        * destruct Hlp as [Q1 [Q2 _]]; [lia|]. rewrite (Z.mod_small mo) by lia.
          rewrite (slice_mread rd dof l) by lia.
          apply write_rel; try assumption; try lia.
          -- apply zlen_mread. lia.
          -- intros k Hkk. rewrite <- cnth_in by (rewrite zlen_mread; lia). rewrite cnth_mread by lia. reflexivity.
          -- intros k Hkk. change (byte_at rd) with (cnth rd). apply Hrb.
      + (* KCall *)
        rewrite Hd in *. destruct (Hsem 7 1) as [Hy [Hlo Hhi]]; [reflexivity|].
        destruct stk as [|g0 [|addr [|v [|ioff [|isz [|roff [|rsz r]]]]]]]; try (zl; lia). inv_words. pn.
        change (znth (g0 :: addr :: v :: ioff :: isz :: roff :: rsz :: r) 5 0) with roff in Hms.
        change (znth (g0 :: addr :: v :: ioff :: isz :: roff :: rsz :: r) 6 0) with rsz in Hms.
        change (znth (g0 :: addr :: v :: ioff :: isz :: roff :: rsz :: r) 3 0) with ioff in Hms.
        change (znth (g0 :: addr :: v :: ioff :: isz :: roff :: rsz :: r) 4 0) with isz in Hms.
        cbn [exec s_stk].
        assert (Hsm : sem spec_op hash E c input 241 {| y_pc := pc; y_s := g0 :: addr :: v :: ioff :: isz :: roff :: rsz :: r; y_m := ym; y_i := yi; y_o := rd |} =
                      if v =? 0 then ycall addr ioff isz roff rsz r {| y_pc := pc; y_s := g0 :: addr :: v :: ioff :: isz :: roff :: rsz :: r; y_m := ym; y_i := yi; y_o := rd |} 241
                      else YOutside 241) by reflexivity.
        destruct (v =? 0); [|right; exact I].
        rewrite Hsm in Hy.
        eapply call_sim; try eassumption; try lia.
      + (* KStaticCall *)
        rewrite Hd in *. destruct (Hsem 6 1) as [Hy [Hlo Hhi]]; [reflexivity|].
        destruct stk as [|g0 [|addr [|ioff [|isz [|roff [|rsz r]]]]]]; try (zl; lia). inv_words. pn.
        change (znth (g0 :: addr :: ioff :: isz :: roff :: rsz :: r) 4 0) with roff in Hms.
        change (znth (g0 :: addr :: ioff :: isz :: roff :: rsz :: r) 5 0) with rsz in Hms.
        change (znth (g0 :: addr :: ioff :: isz :: roff :: rsz :: r) 2 0) with ioff in Hms.
        change (znth (g0 :: addr :: ioff :: isz :: roff :: rsz :: r) 3 0) with isz in Hms.
        cbn [exec s_stk].
        assert (Hsm : sem spec_op hash E c input 250 {| y_pc := pc; y_s := g0 :: addr :: ioff :: isz :: roff :: rsz :: r; y_m := ym; y_i := yi; y_o := rd |} =
                      ycall addr ioff isz roff rsz r {| y_pc := pc; y_s := g0 :: addr :: ioff :: isz :: roff :: rsz :: r; y_m := ym; y_i := yi; y_o := rd |} 250) by reflexivity.
        rewrite Hsm in Hy.
        eapply call_sim; try eassumption; try lia.
      + (* KOther *)
        exfalso. apply Hk. reflexivity.
  Qed.

  Notation yrun' := (yrun spec_op defined hash E c input).
  Notation irun := (run impl_op valid_jumpdest hash E P c input).
  Notation iflag := (run_flag impl_op valid_jumpdest hash E P c input).

  (* the ghost monitor is sticky *)
  Lemma exec_bad k opc st st' :
    exec impl_op valid_jumpdest hash E c input k opc st = Next st' -> s_bad st = true -> s_bad st' = true.
  Proof.
    destruct k; cbn [exec]; unfold call_identity;
      try (destruct (s_stk st) as [|g0 [|a0 [|v0 [|i1 [|i2 [|i3 [|i4 r0]]]]]]]);
      repeat match goal with |- context [if ?b then _ else _] => destruct b end;
      intros HE Hb; try discriminate; apply Next_inj in HE; rewrite <- HE; cbn [s_bad upd upd_call];
      rewrite ?Hb; reflexivity.
  Qed.

  Lemma step_bad st st' : istep st = Next st' -> s_bad st = true -> s_bad st' = true.
  Proof.
    intros H Hb. unfold step in H. cbv zeta in H.
    set (k := decode _) in H.
    repeat match type of H with
           | context [match ?x with _ => _ end] =>
               lazymatch x with
               | exec _ _ _ _ _ _ _ _ _ => fail
               | context [match _ with _ => _ end] => fail
               | _ => destruct x
               end
           end; try discriminate;
      (eapply exec_bad; [exact H|cbn [s_bad]; exact Hb]).
  Qed.

  Lemma flag_sticky fuel : forall st, s_bad st = true -> iflag fuel st = true.
  Proof.
    induction fuel as [|k IH]; intros st Hb; [exact Hb|].
    cbn [run_flag]. destruct (istep st) eqn:Es; [|exact Hb]. apply IH. eapply step_bad; eassumption.
  Qed.

  (* whole runs: by induction on the number of iterations *)
  Lemma run_sim fuel : forall st y, R st y -> iflag fuel st = false ->
    (exists w, yrun' fuel y = YOutside w) \/
    match proj (fst (irun fuel st)) with Some r => yrun' fuel y = r | None => True end.
  Proof.
    induction fuel as [|k IH]; intros st y HR Hf; [right; exact I|].
    cbn [run yrun run_flag] in *. destruct (step_sim st y HR) as [[[w Hw]|[st' [Hst Hb]]]|H].
    - left. exists w. rewrite Hw. reflexivity.
    - exfalso. rewrite Hst in Hf. rewrite (flag_sticky k st' Hb) in Hf. discriminate.
    - destruct (istep st) as [st'|o].
      + destruct H as [y' [Hy HR']]. rewrite Hy. apply IH; assumption.
      + right. cbn [fst]. destruct o as [g|d g|d g|e| |u]; cbn [proj] in *; try exact I;
          try (rewrite H; reflexivity).
        destruct e; cbn [proj] in *; try exact I; rewrite H; reflexivity.
  Qed.

  Lemma R_init gas : R (init gas) y0.
  Proof.
    assert (Z0 : forall x, cnth [] x = 0) by (intros x; unfold cnth; destruct ((0 <=? x) && (x <? clen [])); [destruct (Z.to_nat x)|]; reflexivity).
    unfold R, init, y0, mem_rel, rd_ok. cbn [s_pc s_stk s_mem s_rd y_pc y_s y_m y_i y_o].
    split; [reflexivity|]. split; [lia|]. split; [reflexivity|]. split; [constructor|].
    split.
    - split; [reflexivity|]. split; [unfold MAXMEM, zlen; cbn; lia|].
      split; intros x; rewrite Z0; [lia|reflexivity].
    - split; [reflexivity|]. split; [unfold MAXMEM, zlen; cbn; lia|]. intros x. rewrite Z0. lia.
  Qed.

  Theorem impl_refines_yp fuel gas :
    iflag fuel (init gas) = false ->
    (exists w, yrun' fuel y0 = YOutside w) \/
    match proj (fst (irun fuel (init gas))) with Some r => yrun' fuel y0 = r | None => True end.
  Proof. intros Hf. apply run_sim; [apply R_init|exact Hf]. Qed.
End Sim.

(* ---- the Yellow-Paper machine only looks at the values of the word operations ---------------------------- *)

Section YExt.
  Variables w1 w2 : op -> Z -> Z -> Z -> Z.
  Hypothesis Hw : forall o x y z, w1 o x y z = w2 o x y z.
  Variable defined : Z -> bool.
  Variable hash : list Z -> Z.
  Variable E : env.
  Variables Ib Id : list Z.

  Lemma sem_ext w y : sem w1 hash E Ib Id w y = sem w2 hash E Ib Id w y.
  Proof. unfold sem. destruct (arith_of w) as [[o a]|]; [rewrite !Hw; reflexivity|reflexivity]. Qed.

  Lemma ystep_ext y : ystep w1 defined hash E Ib Id y = ystep w2 defined hash E Ib Id y.
  Proof. unfold ystep. rewrite sem_ext. reflexivity. Qed.

  Lemma yrun_ext fuel : forall y, yrun w1 defined hash E Ib Id fuel y = yrun w2 defined hash E Ib Id fuel y.
  Proof.
    induction fuel as [|k IH]; intros y; [reflexivity|]. cbn [yrun]. rewrite ystep_ext.
    destruct (ystep w2 defined hash E Ib Id y); try reflexivity. apply IH.
  Qed.
End YExt.
