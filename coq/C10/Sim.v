(* C10 — the interpreter-shaped machine of Machine.v (instructions.go / interpreter.go: pop/peek
   order, memorySize + Resize before execute, codeBitmap analysis, uint256 operations) refines the
   Yellow-Paper machine of YP.v on the gas-free projection (pc, stack, memory, output, halting
   status): forward simulation, one interpreter iteration against one YP instruction, with an
   explicit state relation. *)
From Coq Require Import ZArith List Bool Lia Znumtheory.
From V.C10 Require Import Model Machine Proofs Jump Refine YP SimLemmas.
Import ListNotations.
Local Open Scope Z_scope.

(* ---- D(c) = the destinations accepted by the bitmap analysis ------------------------------------- *)

Lemma Nn_next c i : Nn i (byte_at c i) = next c i.
Proof.
  unfold Nn, next, push_len, is_push. rewrite byte_at_cnth.
  destruct ((96 <=? cnth c i) && (cnth c i <=? 127)); lia.
Qed.

Lemma DJ_sound c fuel : forall i d, DJ c fuel i d = true -> reach c i d /\ d < clen c /\ cnth c d = 91.
Proof.
  induction fuel as [|k IH]; intros i d H; [discriminate|].
  cbn [DJ] in H. change (len c) with (clen c) in H.
  destruct (Z.leb_spec (clen c) i) as [Hl|Hl]; [discriminate|].
  destruct ((byte_at c i =? 91) && (i =? d)) eqn:Eb.
  - apply andb_true_iff in Eb as [E1 E2]. apply Z.eqb_eq in E1, E2. subst d.
    repeat split; [apply reach_refl|assumption|rewrite <- byte_at_cnth; assumption].
  - rewrite Nn_next in H. apply IH in H as [R [A B]].
    repeat split; try assumption. apply reach_step; assumption.
Qed.

Lemma DJ_complete c : forall fuel i d, reach c i d -> d < clen c -> cnth c d = 91 ->
  d - i < Z.of_nat fuel -> DJ c fuel i d = true.
Proof.
  induction fuel as [|k IH]; intros i d R Hd H91 Hf.
  - apply reach_le in R. lia.
  - cbn [DJ]. change (len c) with (clen c).
    inversion R as [p|p q Hp Hr]; subst.
    + destruct (Z.leb_spec (clen c) d); [lia|]. rewrite byte_at_cnth, H91, !Z.eqb_refl. reflexivity.
    + destruct (Z.leb_spec (clen c) i); [lia|].
      destruct ((byte_at c i =? 91) && (i =? d)); [reflexivity|].
      rewrite Nn_next. apply IH; try assumption. pose proof (next_gt c i). lia.
Qed.

Theorem in_D_spec c d : in_D c d = true <-> d < clen c /\ cnth c d = 91 /\ boundary c d.
Proof.
  unfold in_D. rewrite boundary_reach. split.
  - intros H. apply DJ_sound in H. tauto.
  - intros [A [B R]]. apply DJ_complete; try assumption.
    pose proof (reach_le c 0 d R). unfold clen in *. lia.
Qed.

Lemma valid_jumpdest_in_D c d : 0 <= d -> clen c <= U64 -> valid_jumpdest c d = in_D c d.
Proof.
  intros Hd Hl. pose proof (valid_jumpdest_spec c d Hd Hl) as A. pose proof (in_D_spec c d) as B.
  destruct (valid_jumpdest c d), (in_D c d); try reflexivity.
  - symmetry. apply B, A. reflexivity.
  - apply A, B. reflexivity.
Qed.

(* ---- the interpreter's decoding against the opcode numbers of appendix H ---------------------------- *)

Lemma decode_spec b :
  match decode b with
  | KStop => b = 0
  | KArith2 o => arith_of b = Some (o, 2)
  | KArith3 o => arith_of b = Some (o, 3)
  | KArith1 o => arith_of b = Some (o, 1)
  | KCallDataLoad => b = 53 | KCallDataSize => b = 54 | KCallDataCopy => b = 55 | KCodeSize => b = 56
  | KCodeCopy => b = 57 | KPop => b = 80 | KMload => b = 81 | KMstore => b = 82 | KMstore8 => b = 83
  | KJump => b = 86 | KJumpi => b = 87 | KPc => b = 88 | KMsize => b = 89 | KGas => b = 90
  | KJumpdest => b = 91 | KMcopy => b = 94 | KPush0 => b = 95
  | KPush n => 96 <= b <= 127 /\ n = b - 95
  | KDup n => 128 <= b <= 143 /\ n = b - 127
  | KSwap n => 144 <= b <= 159 /\ n = b - 143
  | KReturn => b = 243 | KRevert => b = 253 | KSha3 => b = 32
  | KEnv e => arith_of b = None /\ env_of b = Some e
  | KRetDataSize => b = 61 | KRetDataCopy => b = 62
  | KOther => delta_alpha b = None
  end.
Proof.
  unfold decode.
  repeat match goal with
         | |- context [if ?x =? ?n then _ else _] =>
             let E := fresh "E" in
             destruct (x =? n) eqn:E;
             [apply Z.eqb_eq in E; subst b; cbn; try reflexivity; try (split; reflexivity)|]
         end.
  destruct ((96 <=? b) && (b <=? 127)) eqn:R1.
  { apply andb_true_iff in R1 as [A B]. apply Z.leb_le in A, B. split; [lia|reflexivity]. }
  destruct ((128 <=? b) && (b <=? 143)) eqn:R2.
  { apply andb_true_iff in R2 as [A B]. apply Z.leb_le in A, B. split; [lia|reflexivity]. }
  destruct ((144 <=? b) && (b <=? 159)) eqn:R3.
  { apply andb_true_iff in R3 as [A B]. apply Z.leb_le in A, B. split; [lia|reflexivity]. }
  unfold delta_alpha, arith_of, env_of.
  repeat match goal with H : _ = false |- _ => rewrite H; clear H end.
  reflexivity.
Qed.

(* ---- the jump table agrees with delta / alpha -------------------------------------------------------- *)

Definition row_ok (defined : Z -> bool) (P : params) (w : Z) : bool :=
  let rw := znth (p_tab P) w no_row in
  Bool.eqb (r_def rw) (defined w) &&
  (negb (defined w) ||
   match delta_alpha w with
   | Some (dl, al) => (r_min rw =? dl) && (r_max rw =? 1024 + dl - al)
   | None => true
   end).
Definition table_ok (defined : Z -> bool) (P : params) : bool :=
  forallb (fun k => row_ok defined P (Z.of_nat k)) (seq 0 256).

Lemma table_ok_row defined P w : table_ok defined P = true -> 0 <= w < 256 -> row_ok defined P w = true.
Proof.
  intros H Hw. unfold table_ok in H. rewrite forallb_forall in H.
  specialize (H (Z.to_nat w)). rewrite Z2Nat.id in H by lia. apply H. apply in_seq. lia.
Qed.

(* ---- state relation ------------------------------------------------------------------------------------ *)

Definition MAXMEM : Z := 137438953440.      (* 0x1FFFFFFFE0, the largest size memoryGasCost accepts *)

Definition mem_rel (mem : list Z) (m : Z -> Z) (i : Z) : Prop :=
  zlen mem = 32 * i /\ zlen mem <= MAXMEM /\ (forall x, 0 <= cnth mem x < 256) /\ (forall x, m x = cnth mem x).

Definition R (st : state) (y : ystate) : Prop :=
  s_pc st = y_pc y /\ 0 <= y_pc y /\ s_stk st = y_s y /\ Forall word (y_s y) /\
  mem_rel (s_mem st) (y_m y) (y_i y).

Definition expanded (mem : list Z) (msize : Z) : list Z := if 0 <? msize then mem_resize mem msize else mem.

Lemma expand_rel mem m i w :
  mem_rel mem m i -> 0 <= w -> 32 * w <= MAXMEM -> mem_rel (expanded mem (32 * w)) m (Z.max i w).
Proof.
  intros [A [B [C D]]] Hw Hb. pose proof (zlen_nonneg mem).
  unfold expanded. destruct (Z.ltb_spec 0 (32 * w)).
  - repeat split.
    + rewrite zlen_resize. lia.
    + rewrite zlen_resize. lia.
    + rewrite cnth_resize. apply C.
    + rewrite cnth_resize. apply C.
    + intros x. rewrite cnth_resize. apply D.
  - assert (w = 0) by lia. subst w. replace (Z.max i 0) with i by lia. repeat split; try assumption; apply C.
Qed.

Lemma write_rel mem m i off size v f :
  mem_rel mem m i -> 0 <= off -> 0 <= size -> off + size <= zlen mem -> zlen v = size ->
  (forall k, 0 <= k < size -> nth (Z.to_nat k) v 0 = f k) -> (forall k, 0 <= k < size -> 0 <= f k < 256) ->
  mem_rel (mem_set mem off size v) (mwrite m off size f) i.
Proof.
  intros [A [B [C D]]] Ho Hs Hb Hv Hf Hr.
  assert (G : forall x, cnth (mem_set mem off size v) x = mwrite m off size f x /\ 0 <= cnth (mem_set mem off size v) x < 256).
  { intros x. rewrite cnth_mem_set by assumption. unfold mwrite.
    destruct (Z.leb_spec off x); destruct (Z.ltb_spec x (off + size)); cbn [andb];
      try (rewrite D; split; [reflexivity|apply C]).
    rewrite Hf by lia. split; [reflexivity|apply Hr; lia]. }
  repeat split.
  - rewrite zlen_mem_set by assumption. assumption.
  - rewrite zlen_mem_set by assumption. assumption.
  - apply G.
  - apply G.
  - intros x. symmetry. apply G.
Qed.

Lemma read_rel mem m i a n : mem_rel mem m i -> 0 <= a -> 0 <= n -> a + n <= zlen mem ->
  slice mem a n = mread m a n.
Proof.
  intros [_ [_ [_ D]]] Ha Hn Hb. rewrite slice_mread by assumption. apply mread_ext. intros. symmetry. apply D.
Qed.

Lemma mem_rel_bytes mem m i : mem_rel mem m i -> forall x, 0 <= m x < 256.
Proof. intros [_ [_ [C D]]] x. rewrite D. apply C. Qed.

(* ---- the interpreter iteration, taken apart ------------------------------------------------------------ *)


Definition is_other (k : kind) : bool := match k with KOther => true | _ => false end.
Lemma match_other {A} k (a b : A) : is_other k = false ->
  match k with KOther => a | _ => b end = b.
Proof. destruct k; try reflexivity. discriminate. Qed.
Lemma is_other_true k : is_other k = true -> k = KOther.
Proof. destruct k; try discriminate. reflexivity. Qed.

Lemma mgc_bound mag L fee n p : memory_gas_cost mag L fee n = Some p -> n = 0 \/ n <= MAXMEM.
Proof.
  unfold memory_gas_cost, MAXMEM. destruct (Z.eqb_spec n 0); [left; assumption|].
  destruct (Z.ltb_spec 137438953440 n); [discriminate|]. right. assumption.
Qed.
Lemma copier_bound mag L fee n wo p : copier_gas mag L fee n wo = Some p -> n = 0 \/ n <= MAXMEM.
Proof.
  unfold copier_gas. destruct (memory_gas_cost mag L fee n) as [[g l]|] eqn:Em; [|discriminate].
  intros _. eapply mgc_bound; eassumption.
Qed.
Lemma sha3_bound mag L fee n wo p : sha3_gas mag L fee n wo = Some p -> n = 0 \/ n <= MAXMEM.
Proof.
  unfold sha3_gas. destruct (memory_gas_cost mag L fee n) as [[g l]|] eqn:Em; [|discriminate].
  intros _. eapply mgc_bound; eassumption.
Qed.

Lemma calc_u_nonneg off l : 0 <= fst (calc_mem_size_u off l).
Proof.
  unfold calc_mem_size_u. destruct (l =? 0); [cbn; lia|]. destruct (negb (off <? U64)); [cbn; lia|].
  cbn [fst]. apply Z.mod_pos_bound. reflexivity.
Qed.
Lemma calc_nonneg off l : 0 <= fst (calc_mem_size off l).
Proof. unfold calc_mem_size. destruct (negb (l <? U64)); [cbn; lia|apply calc_u_nonneg]. Qed.

Lemma tws_nonneg sz : 0 <= sz -> 0 <= to_word_size sz.
Proof.
  intros. unfold to_word_size. destruct (MAXU64 - 31 <? sz); [vm_compute; discriminate|].
  apply Z.div_pos; lia.
Qed.

Section S.
  Variable hash : list Z -> Z.
  Variable E : env.
  Variable P : params.
  Variable c : code.
  Variable input : list Z.

  Lemma mem_size_nonneg k s sz ovf : mem_size_of k s = Some (sz, ovf) -> 0 <= sz.
  Proof.
    destruct k; cbn [mem_size_of]; try discriminate; intros H; injection H as H;
      match type of H with
      | calc_mem_size_u ?a ?b = _ => pose proof (calc_u_nonneg a b) as Q
      | calc_mem_size ?a ?b = _ => pose proof (calc_nonneg a b) as Q
      end; rewrite H in Q; exact Q.
  Qed.

  Lemma dyn_bound k st ms p s x : mem_size_of k s = Some x -> dyn_gas_of P k st ms = Some (Some p) -> ms = 0 \/ ms <= MAXMEM.
  Proof.
    destruct k; cbn [mem_size_of dyn_gas_of]; try discriminate; intros _ H; injection H as H;
      first [eapply mgc_bound; eassumption | eapply copier_bound; eassumption | eapply sha3_bound; eassumption].
  Qed.
  Lemma dyn_none k st ms s x : mem_size_of k s = Some x -> dyn_gas_of P k st ms = None -> False.
  Proof. destruct k; cbn [mem_size_of dyn_gas_of]; discriminate. Qed.

  Lemma step_inv st (Q : stepres -> Prop) :
    (r_def (znth (p_tab P) (cnth c (s_pc st)) no_row) = false -> Q (Done (OFail EInvalidOp))) ->
    (r_def (znth (p_tab P) (cnth c (s_pc st)) no_row) = true ->
     zlen (s_stk st) < r_min (znth (p_tab P) (cnth c (s_pc st)) no_row) -> Q (Done (OFail EUnderflow))) ->
    (r_def (znth (p_tab P) (cnth c (s_pc st)) no_row) = true ->
     r_max (znth (p_tab P) (cnth c (s_pc st)) no_row) < zlen (s_stk st) -> Q (Done (OFail EOverflow))) ->
    Q (Done (OFail EOOG)) -> Q (Done (OFail EGasOverflow)) ->
    (decode (cnth c (s_pc st)) = KOther -> Q (Done (OUnmodelled (cnth c (s_pc st))))) ->
    (forall w fee' gas',
       r_def (znth (p_tab P) (cnth c (s_pc st)) no_row) = true ->
       r_min (znth (p_tab P) (cnth c (s_pc st)) no_row) <= zlen (s_stk st) <= r_max (znth (p_tab P) (cnth c (s_pc st)) no_row) ->
       decode (cnth c (s_pc st)) <> KOther ->
       0 <= w -> 32 * w <= MAXMEM ->
       match mem_size_of (decode (cnth c (s_pc st))) (s_stk st) with
       | None => w = 0
       | Some (sz, ovf) => ovf = false /\ w = to_word_size sz
       end ->
       Q (exec impl_op valid_jumpdest hash E c input (decode (cnth c (s_pc st))) (cnth c (s_pc st))
            (mkState (s_pc st) (s_stk st) (expanded (s_mem st) (32 * w)) fee' gas' (s_maxh st)))) ->
    Q (step impl_op valid_jumpdest hash E P c input st).
  Proof.
    intros H1 H2 H3 H4 H5 H6 H7. unfold step. cbv zeta.
    set (opc := cnth c (s_pc st)) in *. set (rw := znth (p_tab P) opc no_row) in *.
    destruct (r_def rw) eqn:Ed; cbn [negb]; [|apply H1; reflexivity].
    destruct (Z.ltb_spec (zlen (s_stk st)) (r_min rw)); [apply H2; [reflexivity|assumption]|].
    destruct (Z.ltb_spec (r_max rw) (zlen (s_stk st))); [apply H3; [reflexivity|assumption]|].
    destruct (Z.ltb_spec (s_gas st) (r_gas rw)); [apply H4|].
    destruct (is_other (decode opc)) eqn:Eo; [apply is_other_true in Eo; rewrite Eo; apply H6; exact Eo|].
    rewrite match_other by exact Eo.
    assert (Hne : decode opc <> KOther) by (intros Q0; rewrite Q0 in Eo; discriminate).
    destruct (mem_size_of (decode opc) (s_stk st)) as [[sz ovf]|] eqn:Em.
    - destruct ovf; [apply H5|].
      pose proof (mem_size_nonneg _ _ _ _ Em) as Hsz. pose proof (tws_nonneg sz Hsz) as Ht.
      unfold safe_mul. destruct (Z.eqb_spec (to_word_size sz) 0) as [Z0|Z0]; cbn [orb].
      + (* msize = 0 *)
        match goal with |- context [dyn_gas_of P ?k ?s ?m] => destruct (dyn_gas_of P k s m) as [[[g fee']|]|] eqn:Edyn end.
        * cbn [s_gas]. destruct (s_gas st - r_gas rw <? g); [apply H4|].
          cbn -[exec]. specialize (H7 0 fee' (s_gas st - r_gas rw - g) eq_refl (conj H H0) Hne).
          try rewrite Em in H7; cbn beta iota in H7. apply H7; [lia|unfold MAXMEM; lia|split; [reflexivity|symmetry; exact Z0]].
        * apply H4.
        * exfalso. eapply dyn_none; eassumption.
      + cbn [Z.eqb orb]. destruct (Z.leb_spec U64 (to_word_size sz * 32)); [apply H5|].
        rewrite Z.mod_small by lia.
        match goal with |- context [dyn_gas_of P ?k ?s ?m] => destruct (dyn_gas_of P k s m) as [[[g fee']|]|] eqn:Edyn end.
        * cbn [s_gas]. destruct (s_gas st - r_gas rw <? g); [apply H4|].
          pose proof (dyn_bound _ _ _ _ _ _ Em Edyn) as Hb.
          specialize (H7 (to_word_size sz) fee' (s_gas st - r_gas rw - g) eq_refl (conj H H0) Hne).
          try rewrite Em in H7; cbn beta iota in H7.
          assert (Q0 : Q (exec impl_op valid_jumpdest hash E c input (decode opc) opc
                 {| s_pc := s_pc st; s_stk := s_stk st; s_mem := expanded (s_mem st) (32 * to_word_size sz);
                    s_fee := fee'; s_gas := s_gas st - r_gas rw - g; s_maxh := s_maxh st |}))
            by (apply H7; [lia|lia|split; reflexivity]).
          unfold expanded in Q0. replace (32 * to_word_size sz) with (to_word_size sz * 32) in Q0 by lia.
          cbn [s_pc s_stk s_mem s_fee s_gas s_maxh].
          destruct (0 <? to_word_size sz * 32); exact Q0.
        * apply H4.
        * exfalso. eapply dyn_none; eassumption.
    - match goal with |- context [dyn_gas_of P ?k ?s ?m] => destruct (dyn_gas_of P k s m) as [[[g fee']|]|] eqn:Edyn end.
      + cbn [s_gas]. destruct (s_gas st - r_gas rw <? g); [apply H4|].
        specialize (H7 0 fee' (s_gas st - r_gas rw - g) eq_refl (conj H H0) Hne).
        try rewrite Em in H7; cbn beta iota in H7. apply H7; [lia|unfold MAXMEM; lia|reflexivity].
      + apply H4.
      + specialize (H7 0 (s_fee st) (s_gas st - r_gas rw) eq_refl (conj H H0) Hne).
        try rewrite Em in H7; cbn beta iota in H7. apply H7; [lia|unfold MAXMEM; lia|reflexivity].
  Qed.
End S.

(* ---- one iteration against one Yellow-Paper instruction ------------------------------------------------- *)


Definition proj (o : outcome) : option yres :=
  match o with
  | OStop _ => Some YStop
  | OReturn d _ => Some (YReturn d)
  | ORevert d _ => Some (YRevert d)
  | OFail EOOG | OFail EGasOverflow => None
  | OFail _ => Some YExc
  | OFuel | OUnmodelled _ => None
  end.

Lemma wpush_word v s : word v -> wpush v s = v :: s.
Proof.
  intros [A B]. unfold wpush. f_equal. change (W - 1) with (Z.ones 256). rewrite Z.land_ones by lia.
  change (2 ^ 256) with W. apply Z.mod_small. lia.
Qed.

Lemma word_small x : 0 <= x < 2 ^ 64 -> word x.
Proof. intros. unfold word. change W with (2 ^ 256). assert (2 ^ 64 < 2 ^ 256) by reflexivity. lia. Qed.

Ltac zl := unfold zlen, len in *; cbn [length] in *.
Ltac pn := repeat match goal with H : word ?x |- _ => lazymatch goal with _ : 0 <= x |- _ => fail | _ => assert (0 <= x) by (destruct H; assumption) end end.
Ltac finR := unfold R; cbn [s_pc s_stk s_mem y_pc y_s y_m y_i upd nth skipn]; split; [|split; [|split; [|split]]].

Lemma bigend_all_zero l : (forall b, In b l -> b = 0) -> bigend l = 0.
Proof.
  induction l as [|b l IH]; intros H; [reflexivity|].
  unfold bigend. cbn [fold_left]. rewrite bigend_acc. rewrite IH by (intros; apply H; right; assumption).
  rewrite (H b) by (left; reflexivity). lia.
Qed.

Lemma bigend_mread_zero m a n : (forall x, 0 <= x < n -> m (a + x) = 0) -> bigend (mread m a n) = 0.
Proof.
  intros H. apply bigend_all_zero. intros b Hb. unfold mread in Hb. apply in_map_iff in Hb as [k [<- Hk]].
  apply in_seq in Hk. apply H. lia.
Qed.

Lemma cnth_nonzero_in l x : cnth l x <> 0 -> 0 <= x < zlen l.
Proof.
  intros H. destruct (Z.lt_ge_cases x 0); [exfalso; apply H, cnth_out; left; assumption|].
  destruct (Z.lt_ge_cases x (zlen l)); [lia|exfalso; apply H, cnth_out; right; assumption].
Qed.

Lemma tws_ceil sz w : 0 <= sz -> w = to_word_size sz -> 32 * w <= MAXMEM -> w = ceil32 sz /\ sz <= 32 * w.
Proof.
  intros Hs -> Hb. unfold to_word_size in *. destruct (Z.ltb_spec (MAXU64 - 31) sz).
  - exfalso. revert Hb. vm_compute. intros Q. apply Q. reflexivity.
  - unfold ceil32. split; [reflexivity|].
    pose proof (Z.div_mod (sz + 31) 32 ltac:(lia)). pose proof (Z.mod_pos_bound (sz + 31) 32 ltac:(lia)). lia.
Qed.

Lemma calc_u_facts a l sz w : 0 <= a -> 0 < l < U64 -> calc_mem_size_u a l = (sz, false) ->
  w = to_word_size sz -> 32 * w <= MAXMEM -> a < U64 /\ a + l <= 32 * w /\ w = ceil32 (a + l).
Proof.
  intros Ha Hl H Hw Hb. unfold calc_mem_size_u in H.
  destruct (Z.eqb_spec l 0); [lia|]. destruct (Z.ltb_spec a U64); cbn [negb] in H; [|discriminate].
  injection H as H1 H2. apply Z.ltb_ge in H2.
  assert (Hnw : a + l < U64).
  { destruct (Z.lt_ge_cases (a + l) U64); [assumption|exfalso].
    assert ((a + l) mod U64 = a + l - U64).
    { symmetry. apply (Zmod_unique (a + l) U64 1); change U64 with 18446744073709551616 in *; lia. }
    change U64 with 18446744073709551616 in *. lia. }
  rewrite Z.mod_small in H1 by (change U64 with 18446744073709551616 in *; lia). subst sz.
  destruct (tws_ceil (a + l) w ltac:(lia) Hw Hb). repeat split; assumption.
Qed.

Lemma calc_facts a l sz w : 0 <= a -> 0 <= l -> calc_mem_size a l = (sz, false) ->
  w = to_word_size sz -> 32 * w <= MAXMEM ->
  l < U64 /\ (l = 0 -> w = 0) /\ (0 < l -> a < U64 /\ a + l <= 32 * w /\ w = ceil32 (a + l)).
Proof.
  intros Ha Hl H Hw Hb. unfold calc_mem_size in H.
  destruct (Z.ltb_spec l U64); cbn [negb] in H; [|discriminate].
  split; [assumption|]. split.
  - intros ->. unfold calc_mem_size_u in H. cbn in H. injection H as <-. subst w. reflexivity.
  - intros Hp. eapply calc_u_facts; try eassumption. lia.
Qed.

Lemma Mx_eq yi a l w : 0 <= yi -> 0 <= l -> (l = 0 -> w = 0) -> (0 < l -> w = ceil32 (a + l)) -> Mx yi a l = Z.max yi w.
Proof.
  intros Hy Hl H0 H1. unfold Mx. destruct (Z.eqb_spec l 0) as [->|Hn].
  - rewrite H0 by reflexivity. lia.
  - rewrite <- H1 by lia. reflexivity.
Qed.

Lemma mem_rel_ext mem m m' i : mem_rel mem m i -> (forall x, m' x = m x) -> mem_rel mem m' i.
Proof. intros [A [B [C D]]] H. repeat split; try assumption; try apply C. intros x. rewrite H. apply D. Qed.

Lemma mwrite_empty m a f x : mwrite m a 0 f x = m x.
Proof. unfold mwrite. destruct (Z.leb_spec a x); destruct (Z.ltb_spec x (a + 0)); cbn [andb]; try reflexivity; lia. Qed.

Lemma mod_u64_256 v : (v mod U64) mod 256 = v mod 256.
Proof. symmetry. apply Zmod_div_mod; [lia|reflexivity|]. exists 72057594037927936. reflexivity. Qed.

Lemma set_nth_length l : forall n v, length (set_nth l n v) = length l.
Proof. induction l as [|x l IH]; intros [|n] v; cbn; auto. Qed.

Lemma nth_set_nth l : forall n v k, (n < length l)%nat ->
  nth k (set_nth l n v) 0 = if Nat.eqb k n then v else nth k l 0.
Proof.
  induction l as [|x l IH]; intros n v k H; [cbn in H; lia|].
  destruct n, k; cbn [set_nth nth Nat.eqb]; try reflexivity. apply IH. cbn in H. lia.
Qed.

Lemma swap_eq t r n : 1 <= n < zlen (t :: r) ->
  set_nth (znth (t :: r) n 0 :: r) (Z.to_nat n) t = yswap (t :: r) n.
Proof.
  intros H. unfold zlen in H. cbn [length] in H.
  apply (nth_ext _ _ 0 0).
  - rewrite set_nth_length. unfold yswap. rewrite map_length, seq_length. reflexivity.
  - intros k Hk. rewrite set_nth_length in Hk. cbn [length] in Hk.
    rewrite nth_set_nth by (cbn [length]; lia).
    unfold yswap. rewrite nth_map_seq by (cbn [length]; lia). cbv zeta.
    destruct (Nat.eqb_spec k (Z.to_nat n)) as [->|Hne].
    + rewrite Z2Nat.id by lia. destruct (Z.eqb_spec n 0); [lia|]. rewrite Z.eqb_refl. reflexivity.
    + destruct (Z.eqb_spec (Z.of_nat k) 0) as [E0|E0].
      * assert (k = 0)%nat by lia. subst k. reflexivity.
      * destruct (Z.eqb_spec (Z.of_nat k) n); [lia|]. destruct k; [lia|]. reflexivity.
Qed.

Ltac noteq w := repeat match goal with
  | |- context [w =? ?k] => replace (w =? k) with false by (symmetry; apply Z.eqb_neq; lia)
  end.

Lemma range_arith_env w : 96 <= w <= 159 -> arith_of w = None /\ env_of w = None.
Proof. intros H. unfold arith_of, env_of. noteq w. split; reflexivity. Qed.

Lemma da_push w : 96 <= w <= 127 -> delta_alpha w = Some (0, 1).
Proof.
  intros H. unfold delta_alpha. destruct (range_arith_env w ltac:(lia)) as [-> ->]. noteq w. cbn [orb].
  destruct (Z.leb_spec 96 w); [|lia]. destruct (Z.leb_spec w 127); [|lia]. reflexivity.
Qed.
Lemma da_dup w : 128 <= w <= 143 -> delta_alpha w = Some (w - 127, w - 127 + 1).
Proof.
  intros H. unfold delta_alpha. destruct (range_arith_env w ltac:(lia)) as [-> ->]. noteq w. cbn [orb].
  destruct (Z.leb_spec 96 w); [|lia]. destruct (Z.leb_spec w 127); [lia|]. cbn [andb].
  destruct (Z.leb_spec 128 w); [|lia]. destruct (Z.leb_spec w 143); [|lia]. reflexivity.
Qed.
Lemma da_swap w : 144 <= w <= 159 -> delta_alpha w = Some (w - 143 + 1, w - 143 + 1).
Proof.
  intros H. unfold delta_alpha. destruct (range_arith_env w ltac:(lia)) as [-> ->]. noteq w. cbn [orb].
  destruct (Z.leb_spec 96 w); [|lia]. destruct (Z.leb_spec w 127); [lia|]. cbn [andb].
  destruct (Z.leb_spec 128 w); [|lia]. destruct (Z.leb_spec w 143); [lia|]. cbn [andb].
  destruct (Z.leb_spec 144 w); [|lia]. destruct (Z.leb_spec w 159); [|lia]. reflexivity.
Qed.

Lemma sem_push hash E Ib Id w y : 96 <= w <= 127 ->
  sem spec_op hash E Ib Id w y =
  YNext (mkY (y_pc y + (w - 95) + 1) (bigend (mread (byte_at Ib) (y_pc y + 1) (w - 95)) :: y_s y) (y_m y) (y_i y)).
Proof.
  intros H. unfold sem. destruct (range_arith_env w ltac:(lia)) as [-> ->]. noteq w.
  destruct (Z.leb_spec 96 w); [|lia]. destruct (Z.leb_spec w 127); [|lia]. reflexivity.
Qed.
Lemma sem_dup hash E Ib Id w y : 128 <= w <= 143 ->
  sem spec_op hash E Ib Id w y =
  YNext (mkY (y_pc y + 1) (nth (Z.to_nat (w - 128)) (y_s y) 0 :: y_s y) (y_m y) (y_i y)).
Proof.
  intros H. unfold sem. destruct (range_arith_env w ltac:(lia)) as [-> ->]. noteq w.
  destruct (Z.leb_spec 96 w); [|lia]. destruct (Z.leb_spec w 127); [lia|]. cbn [andb].
  destruct (Z.leb_spec 128 w); [|lia]. destruct (Z.leb_spec w 143); [|lia]. reflexivity.
Qed.
Lemma sem_swap hash E Ib Id w y : 144 <= w <= 159 ->
  sem spec_op hash E Ib Id w y = YNext (mkY (y_pc y + 1) (yswap (y_s y) (w - 143)) (y_m y) (y_i y)).
Proof.
  intros H. unfold sem. destruct (range_arith_env w ltac:(lia)) as [-> ->]. noteq w.
  destruct (Z.leb_spec 96 w); [|lia]. destruct (Z.leb_spec w 127); [lia|]. cbn [andb].
  destruct (Z.leb_spec 128 w); [|lia]. destruct (Z.leb_spec w 143); [lia|]. cbn [andb].
  destruct (Z.leb_spec 144 w); [|lia]. destruct (Z.leb_spec w 159); [|lia]. reflexivity.
Qed.

Lemma zlen_expanded_ge mem3 ym i w : mem_rel mem3 ym (Z.max i w) -> 32 * w <= zlen mem3.
Proof. intros [A _]. lia. Qed.

Lemma copy_rel mem3 ym i3 data mo dof l :
  mem_rel mem3 ym i3 -> (forall x, 0 <= cnth data x < 256) -> zlen data < 2 ^ 62 ->
  0 <= mo -> 0 <= dof -> 0 <= l < U64 -> l <= MAXMEM -> (0 < l -> mo < U64 /\ mo + l <= zlen mem3) ->
  mem_rel (mem_set mem3 (mo mod U64) (l mod U64) (get_data data (if dof <? U64 then dof else MAXU64) (l mod U64)))
          (mwrite ym mo l (fun k => byte_at data (dof + k))) i3.
Proof.
  intros Hm Hb Hlen Hmo Hdof Hl Hlm Hp. rewrite (Z.mod_small l) by lia.
  destruct (Z.eqb_spec l 0) as [->|Hn].
  - unfold mem_set. cbn [Z.eqb]. eapply mem_rel_ext; [exact Hm|]. intros x. apply mwrite_empty.
  - destruct Hp as [Hmu Hfit]; [lia|]. rewrite (Z.mod_small mo) by lia.
    set (d64 := if dof <? U64 then dof else MAXU64).
    assert (Hd64 : 0 <= d64) by (unfold d64; destruct (dof <? U64); [assumption|vm_compute; discriminate]).
    rewrite get_data_mread; [|assumption|lia|unfold MAXMEM in Hlm; change U64 with 18446744073709551616; change (2 ^ 62) with 4611686018427387904 in Hlen; lia].
    apply write_rel; try assumption; try lia.
    + apply zlen_mread. lia.
    + intros k Hk. rewrite <- cnth_in by (rewrite zlen_mread; lia). rewrite cnth_mread by lia.
      cbv beta. change (byte_at data) with (cnth data). unfold d64. destruct (Z.ltb_spec dof U64); [reflexivity|].
      rewrite !cnth_out; [reflexivity|right|right];
        change U64 with 18446744073709551616 in *; change MAXU64 with 18446744073709551615; change (2 ^ 62) with 4611686018427387904 in Hlen; lia.
    + intros k Hk. change (byte_at data) with (cnth data). apply Hb.
Qed.

Section Sim.
  Variable defined : Z -> bool.
  Variable hash : list Z -> Z.
  Variable E : env.
  Variable P : params.
  Variable c : code.
  Variable input : list Z.
  Hypothesis Htab : table_ok defined P = true.
  Hypothesis Hclen : clen c < 2 ^ 62.
  Hypothesis Hinlen : zlen input < 2 ^ 62.
  Hypothesis Hcb : forall x, 0 <= cnth c x < 256.
  Hypothesis Hib : forall x, 0 <= cnth input x < 256.
  Hypothesis Hhash : forall l, word (hash l).
  Hypothesis Henv : forall k, word (env_get E k).

  Notation ystep' := (ystep spec_op defined hash E c input).
  Notation istep := (step impl_op valid_jumpdest hash E P c input).

  Definition Qsim (y : ystate) (res : stepres) : Prop :=
    (exists w, ystep' y = YOutside w) \/
    match res with
    | Next st' => exists y', ystep' y = YNext y' /\ R st' y'
    | Done o => match proj o with Some r => ystep' y = r | None => True end
    end.

  Lemma ystep_sem y dl al :
    defined (cur_op c (y_pc y)) = true -> delta_alpha (cur_op c (y_pc y)) = Some (dl, al) ->
    dl <= len (y_s y) -> len (y_s y) - dl + al <= 1024 ->
    ystep' y = sem spec_op hash E c input (cur_op c (y_pc y)) y.
  Proof.
    intros Hd Hda H1 H2. unfold ystep. cbv zeta. rewrite Hd, Hda. cbn [negb].
    destruct (Z.ltb_spec (len (y_s y)) dl); [lia|].
    destruct (Z.ltb_spec 1024 (len (y_s y) - dl + al)); [lia|]. reflexivity.
  Qed.

  Lemma step_sim st y : R st y -> Qsim y (istep st).
  Proof.
    intros [Hpc [Hpc0 [Hs [Hw Hm]]]].
    assert (Hop : cur_op c (y_pc y) = cnth c (s_pc st)) by (unfold cur_op; rewrite byte_at_cnth, Hpc; reflexivity).
    pose proof (table_ok_row defined P (cnth c (s_pc st)) Htab (Hcb _)) as Hrow.
    unfold row_ok in Hrow. cbv zeta in Hrow. apply andb_true_iff in Hrow as [Hrd Hrda].
    apply eqb_prop in Hrd.
    assert (Hlen : len (y_s y) = zlen (s_stk st)) by (rewrite Hs; reflexivity).
    apply step_inv.
    - (* invalid *) intros Hf. right. cbn [proj]. unfold ystep. cbv zeta. rewrite Hop, <- Hrd, Hf. reflexivity.
    - (* underflow *) intros Ht Hu. rewrite Ht in Hrd. rewrite <- Hrd in Hrda. cbn [negb orb] in Hrda.
      unfold Qsim, ystep. cbv zeta. rewrite Hop, <- Hrd. cbn [negb].
      destruct (delta_alpha (cnth c (s_pc st))) as [[dl al]|]; [|left; eexists; reflexivity].
      right. cbn [proj]. apply andb_true_iff in Hrda as [A B]. apply Z.eqb_eq in A, B.
      rewrite Hlen. destruct (Z.ltb_spec (zlen (s_stk st)) dl); [reflexivity|lia].
    - (* overflow *) intros Ht Hu. rewrite Ht in Hrd. rewrite <- Hrd in Hrda. cbn [negb orb] in Hrda.
      unfold Qsim, ystep. cbv zeta. rewrite Hop, <- Hrd. cbn [negb].
      destruct (delta_alpha (cnth c (s_pc st))) as [[dl al]|]; [|left; eexists; reflexivity].
      right. cbn [proj]. apply andb_true_iff in Hrda as [A B]. apply Z.eqb_eq in A, B.
      rewrite Hlen. destruct (Z.ltb_spec (zlen (s_stk st)) dl); [reflexivity|].
      destruct (Z.ltb_spec 1024 (zlen (s_stk st) - dl + al)); [reflexivity|lia].
    - right. exact I.
    - right. exact I.
    - intros _. right. exact I.
    - intros w fee' gas' Ht Hh Hk Hw0 Hwb Hms.
      rewrite Ht in Hrd. rewrite <- Hrd in Hrda. cbn [negb orb] in Hrda. symmetry in Hrd.
      rewrite <- Hop in *.
      set (opc := cur_op c (y_pc y)) in *.
      pose proof (decode_spec opc) as Hd.
      assert (Hsem : forall dl al, delta_alpha opc = Some (dl, al) ->
                ystep' y = sem spec_op hash E c input opc y /\ dl <= zlen (s_stk st) /\ zlen (s_stk st) - dl + al <= 1024).
      { intros dl al Hda. rewrite Hda in Hrda. apply andb_true_iff in Hrda as [A B]. apply Z.eqb_eq in A, B.
        split; [|lia]. apply (ystep_sem y dl al); try assumption; rewrite Hlen; lia. }
      clear Hrda.
      pose proof (expand_rel _ _ _ w Hm Hw0 Hwb) as Hm'.
      destruct st as [pc stk mem fee gas maxh]. destruct y as [ypc ys ym yi].
      cbn [s_pc s_stk s_mem s_fee s_gas s_maxh y_pc y_s y_m y_i] in *. subst ypc ys.
      assert (Hyi : 0 <= yi) by (destruct Hm as [A _]; pose proof (zlen_nonneg mem); lia).
      clearbody opc.
      assert (Hnomem : w = 0 -> mem_rel mem ym yi).
      { intros ->. replace (Z.max yi 0) with yi in Hm' by lia. exact Hm'. }
      destruct (decode opc) eqn:Ek; cbn [mem_size_of] in Hms.
      + (* KStop *)
        destruct (Hsem 0 0) as [Hy _]; [rewrite Hd; reflexivity|].
        right. cbn [exec proj]. rewrite Hy, Hd. reflexivity.
      + (* KArith2 *)
        destruct (Hsem 2 1) as [Hy [Hlo Hhi]]; [unfold delta_alpha; rewrite Hd; reflexivity|].
        destruct stk as [|a [|b r]]; try (zl; lia). inv_words. try subst w.
        right. cbn [exec s_stk s_pc s_mem]. rewrite op_correct by (assumption || apply word_0).
        rewrite wpush_word by (apply spec_op_word; assumption || apply word_0).
        eexists. split; [rewrite Hy; unfold sem; rewrite Hd; reflexivity|].
        unfold R. cbn [s_pc s_stk s_mem y_pc y_s y_m y_i upd nth skipn].
        repeat split; try lia; [constructor; [apply spec_op_word; assumption || apply word_0|assumption]|apply Hnomem; reflexivity..].
      + (* KArith3 *)
        destruct (Hsem 3 1) as [Hy [Hlo Hhi]]; [unfold delta_alpha; rewrite Hd; reflexivity|].
        destruct stk as [|a [|b [|d r]]]; try (zl; lia). inv_words. try subst w.
        right. cbn [exec s_stk s_pc s_mem]. rewrite op_correct by assumption.
        rewrite wpush_word by (apply spec_op_word; assumption).
        eexists. split; [rewrite Hy; unfold sem; rewrite Hd; reflexivity|]. finR; try reflexivity; try lia.
        * constructor; [apply spec_op_word; assumption|assumption].
        * apply Hnomem; reflexivity.
      + (* KArith1 *)
        destruct (Hsem 1 1) as [Hy [Hlo Hhi]]; [unfold delta_alpha; rewrite Hd; reflexivity|].
        destruct stk as [|a r]; try (zl; lia). inv_words. try subst w.
        right. cbn [exec s_stk s_pc s_mem]. rewrite op_correct by (assumption || apply word_0).
        rewrite wpush_word by (apply spec_op_word; assumption || apply word_0).
        eexists. split; [rewrite Hy; unfold sem; rewrite Hd; reflexivity|]. finR; try reflexivity; try lia.
        * constructor; [apply spec_op_word; assumption || apply word_0|assumption].
        * apply Hnomem; reflexivity.
      + (* KCallDataLoad *)
        rewrite Hd in *. destruct (Hsem 1 1) as [Hy [Hlo Hhi]]; [reflexivity|].
        destruct stk as [|a r]; try (zl; lia). inv_words. try subst w.
        assert (Ev : (if a <? U64 then be_word (get_data input a 32) else 0) = bigend (mread (byte_at input) a 32)).
        { destruct (Z.ltb_spec a U64).
          - rewrite get_data_mread.
            + rewrite be_word_bigend. change (byte_at input) with (cnth input). reflexivity.
            + destruct H1; lia.
            + lia.
            + change U64 with 18446744073709551616. change (2 ^ 62) with 4611686018427387904 in Hinlen. lia.
          - symmetry. apply bigend_mread_zero. intros x Hx. rewrite byte_at_cnth. apply cnth_out. right.
            change U64 with 18446744073709551616 in *; change (2 ^ 62) with 4611686018427387904 in *; lia. }
        assert (Wv : word (bigend (mread (byte_at input) a 32))) by (apply bigend_mread_word; intros; rewrite byte_at_cnth; apply Hib).
        right. cbn [exec s_stk s_pc s_mem]. rewrite Ev. rewrite wpush_word by exact Wv.
        eexists. split; [rewrite Hy; reflexivity|]. finR; try reflexivity; try lia.
        * constructor; assumption.
        * apply Hnomem; reflexivity.
      + (* KCallDataSize *)
        rewrite Hd in *. destruct (Hsem 0 1) as [Hy [Hlo Hhi]]; [reflexivity|]. try subst w.
        assert (Wv : word (zlen input)) by (apply word_small; pose proof (zlen_nonneg input); change (2 ^ 62) with 4611686018427387904 in *; change (2 ^ 64) with 18446744073709551616; lia).
        right. cbn [exec s_stk s_pc s_mem]. rewrite wpush_word by exact Wv.
        eexists. split; [rewrite Hy; reflexivity|]. finR; try reflexivity; try lia.
        * constructor; assumption.
        * apply Hnomem; reflexivity.
      + (* KCallDataCopy *)
        rewrite Hd in *. destruct (Hsem 3 0) as [Hy [Hlo Hhi]]; [reflexivity|].
        destruct stk as [|mo [|dof [|l r]]]; try (zl; lia). inv_words. pn.
        change (znth (mo :: dof :: l :: r) 0 0) with mo in Hms. change (znth (mo :: dof :: l :: r) 2 0) with l in Hms.
        destruct (calc_mem_size mo l) as [sz ovf] eqn:Ec. destruct Hms as [-> Hwv].
        destruct (calc_facts mo l sz w ltac:(lia) ltac:(lia) Ec Hwv Hwb) as [Hl [Hl0 Hlp]].
        pose proof (zlen_expanded_ge _ _ _ _ Hm') as Hge.
        right. cbn [exec s_stk s_pc s_mem].
        eexists. split; [rewrite Hy; reflexivity|]. finR; try reflexivity; try lia; try assumption.
        rewrite (Mx_eq yi mo l w) by (try assumption; try lia; intros Q0; apply Hlp; exact Q0).
        apply copy_rel; try assumption; try lia.
      + (* KCodeSize *)
        rewrite Hd in *. destruct (Hsem 0 1) as [Hy [Hlo Hhi]]; [reflexivity|]. try subst w.
        assert (Wv : word (zlen c)) by (apply word_small; pose proof (zlen_nonneg c); unfold clen in Hclen; unfold zlen in *; change (2 ^ 62) with 4611686018427387904 in *; change (2 ^ 64) with 18446744073709551616; lia).
        right. cbn [exec s_stk s_pc s_mem]. rewrite wpush_word by exact Wv.
        eexists. split; [rewrite Hy; reflexivity|]. finR; try reflexivity; try lia.
        * constructor; assumption.
        * apply Hnomem; reflexivity.
      + (* KCodeCopy *)
        rewrite Hd in *. destruct (Hsem 3 0) as [Hy [Hlo Hhi]]; [reflexivity|].
        destruct stk as [|mo [|dof [|l r]]]; try (zl; lia). inv_words. pn.
        change (znth (mo :: dof :: l :: r) 0 0) with mo in Hms. change (znth (mo :: dof :: l :: r) 2 0) with l in Hms.
        destruct (calc_mem_size mo l) as [sz ovf] eqn:Ec. destruct Hms as [-> Hwv].
        destruct (calc_facts mo l sz w ltac:(lia) ltac:(lia) Ec Hwv Hwb) as [Hl [Hl0 Hlp]].
        pose proof (zlen_expanded_ge _ _ _ _ Hm') as Hge.
        right. cbn [exec s_stk s_pc s_mem].
        eexists. split; [rewrite Hy; reflexivity|]. finR; try reflexivity; try lia; try assumption.
        rewrite (Mx_eq yi mo l w) by (try assumption; try lia; intros Q0; apply Hlp; exact Q0).
        apply copy_rel; try assumption; try lia.
      + (* KPop *)
        rewrite Hd in *. destruct (Hsem 1 0) as [Hy [Hlo Hhi]]; [reflexivity|].
        destruct stk as [|a r]; try (zl; lia). inv_words. try subst w.
        right. cbn [exec s_stk s_pc s_mem].
        eexists. split; [rewrite Hy; reflexivity|]. finR; try reflexivity; try lia; try assumption.
      + (* KMload *)
        rewrite Hd in *. destruct (Hsem 1 1) as [Hy [Hlo Hhi]]; [reflexivity|].
        destruct stk as [|a r]; try (zl; lia). inv_words. pn.
        change (znth (a :: r) 0 0) with a in Hms.
        destruct (calc_mem_size_u a 32) as [sz ovf] eqn:Ec. destruct Hms as [-> Hwv].
        destruct (calc_u_facts a 32 sz w ltac:(lia) ltac:(split; [lia|reflexivity]) Ec Hwv Hwb) as [Ha [Hfit Hwc]].
        pose proof (zlen_expanded_ge _ _ _ _ Hm') as Hge.
        assert (Wv : word (bigend (mread ym a 32))) by (apply bigend_mread_word; apply (mem_rel_bytes _ _ _ Hm)).
        right. cbn [exec s_stk s_pc s_mem]. rewrite (Z.mod_small a) by lia.
        rewrite (read_rel _ _ _ a 32 Hm') by lia. rewrite be_word_bigend. rewrite wpush_word by exact Wv.
        eexists. split; [rewrite Hy; reflexivity|]. finR; try reflexivity; try lia.
        * constructor; assumption.
        * rewrite <- Hwc. exact Hm'.
      + (* KMstore *)
        rewrite Hd in *. destruct (Hsem 2 0) as [Hy [Hlo Hhi]]; [reflexivity|].
        destruct stk as [|a [|v r]]; try (zl; lia). inv_words. pn.
        change (znth (a :: v :: r) 0 0) with a in Hms.
        destruct (calc_mem_size_u a 32) as [sz ovf] eqn:Ec. destruct Hms as [-> Hwv].
        destruct (calc_u_facts a 32 sz w ltac:(lia) ltac:(split; [lia|reflexivity]) Ec Hwv Hwb) as [Ha [Hfit Hwc]].
        pose proof (zlen_expanded_ge _ _ _ _ Hm') as Hge.
        right. cbn [exec s_stk s_pc s_mem]. rewrite (Z.mod_small a) by lia.
        eexists. split; [rewrite Hy; reflexivity|]. finR; try reflexivity; try lia; try assumption.
        rewrite <- Hwc. apply write_rel; try assumption; try lia; try reflexivity.
        * intros k Hkk. apply nth_word_bytes. exact Hkk.
        * intros k Hkk. apply word_byte_range.
      + (* KMstore8 *)
        rewrite Hd in *. destruct (Hsem 2 0) as [Hy [Hlo Hhi]]; [reflexivity|].
        destruct stk as [|a [|v r]]; try (zl; lia). inv_words. pn.
        change (znth (a :: v :: r) 0 0) with a in Hms.
        destruct (calc_mem_size_u a 1) as [sz ovf] eqn:Ec. destruct Hms as [-> Hwv].
        destruct (calc_u_facts a 1 sz w ltac:(lia) ltac:(split; [lia|reflexivity]) Ec Hwv Hwb) as [Ha [Hfit Hwc]].
        pose proof (zlen_expanded_ge _ _ _ _ Hm') as Hge.
        right. cbn [exec s_stk s_pc s_mem]. rewrite (Z.mod_small a) by lia.
        eexists. split; [rewrite Hy; reflexivity|]. finR; try reflexivity; try lia; try assumption.
        rewrite <- Hwc. apply write_rel; try assumption; try lia; try reflexivity.
        * intros k Hkk. assert (k = 0) by lia. subst k. cbn [Z.to_nat nth]. apply mod_u64_256.
        * intros k Hkk. apply Z.mod_pos_bound. lia.
      + (* KJump *)
        rewrite Hd in *. destruct (Hsem 1 0) as [Hy [Hlo Hhi]]; [reflexivity|].
        destruct stk as [|a r]; try (zl; lia). inv_words. pn. try subst w.
        assert (Hcl : clen c <= U64) by (change U64 with 18446744073709551616 in *; change (2 ^ 62) with 4611686018427387904 in *; lia).
        right. cbn [exec s_stk s_pc s_mem]. rewrite (valid_jumpdest_in_D c a) by assumption.
        destruct (in_D c a) eqn:Ed.
        * pose proof Ed as Ed'. apply in_D_spec in Ed' as [Q0 _]. rewrite (Z.mod_small a) by (change U64 with 18446744073709551616 in *; change (2 ^ 62) with 4611686018427387904 in *; lia).
          eexists. split; [rewrite Hy; unfold sem; cbn [arith_of env_of Z.eqb Pos.eqb nth skipn y_s y_pc y_m y_i]; rewrite Ed; reflexivity|].
          finR; try reflexivity; try lia; try assumption.
        * cbn [proj]. rewrite Hy. unfold sem. cbn [arith_of env_of Z.eqb Pos.eqb nth skipn y_s y_pc y_m y_i]. rewrite Ed. reflexivity.
      + (* KJumpi *)
        rewrite Hd in *. destruct (Hsem 2 0) as [Hy [Hlo Hhi]]; [reflexivity|].
        destruct stk as [|a [|b r]]; try (zl; lia). inv_words. pn. try subst w.
        assert (Hcl : clen c <= U64) by (change U64 with 18446744073709551616 in *; change (2 ^ 62) with 4611686018427387904 in *; lia).
        right. cbn [exec s_stk s_pc s_mem]. rewrite (valid_jumpdest_in_D c a) by assumption.
        destruct (b =? 0) eqn:Eb.
        { eexists. split; [rewrite Hy; unfold sem; cbn [arith_of env_of Z.eqb Pos.eqb nth skipn y_s y_pc y_m y_i]; rewrite Eb; reflexivity|].
          finR; try reflexivity; try lia; try assumption. }
        destruct (in_D c a) eqn:Ed.
        * pose proof Ed as Ed'. apply in_D_spec in Ed' as [Q0 _]. rewrite (Z.mod_small a) by (change U64 with 18446744073709551616 in *; change (2 ^ 62) with 4611686018427387904 in *; lia).
          eexists. split; [rewrite Hy; unfold sem; cbn [arith_of env_of Z.eqb Pos.eqb nth skipn y_s y_pc y_m y_i]; rewrite Eb, Ed; reflexivity|].
          finR; try reflexivity; try lia; try assumption.
        * cbn [proj]. rewrite Hy. unfold sem. cbn [arith_of env_of Z.eqb Pos.eqb nth skipn y_s y_pc y_m y_i]. rewrite Eb, Ed. reflexivity.
      + (* KPc *)
        rewrite Hd in *. destruct (Hsem 0 1) as [Hy [Hlo Hhi]]; [reflexivity|]. try subst w.
        assert (Hin : 0 <= pc < zlen c) by (apply cnth_nonzero_in; rewrite <- Hop; discriminate).
        assert (Wv : word pc) by (apply word_small; unfold clen, zlen in *; change (2 ^ 62) with 4611686018427387904 in *; change (2 ^ 64) with 18446744073709551616; lia).
        right. cbn [exec s_stk s_pc s_mem]. rewrite wpush_word by exact Wv.
        eexists. split; [rewrite Hy; reflexivity|]. finR; try reflexivity; try lia; try assumption.
        constructor; assumption.
      + (* KMsize *)
        rewrite Hd in *. destruct (Hsem 0 1) as [Hy [Hlo Hhi]]; [reflexivity|]. try subst w.
        assert (Hz : zlen (expanded mem (32 * 0)) = 32 * yi) by (destruct Hm as [A _]; exact A).
        assert (Wv : word (32 * yi)).
        { destruct Hm as [A [B _]]. apply word_small. unfold MAXMEM in B. change (2 ^ 64) with 18446744073709551616. lia. }
        right. cbn [exec s_stk s_pc s_mem]. rewrite Hz. rewrite wpush_word by exact Wv.
        eexists. split; [rewrite Hy; reflexivity|]. finR; try reflexivity; try lia; try assumption.
        constructor; assumption.
      + (* KGas *)
        rewrite Hd in *. destruct (Hsem 0 1) as [Hy _]; [reflexivity|].
        left. exists 90. rewrite Hy. reflexivity.
      + (* KJumpdest *)
        rewrite Hd in *. destruct (Hsem 0 0) as [Hy [Hlo Hhi]]; [reflexivity|]. try subst w.
        right. cbn [exec s_stk s_pc s_mem].
        eexists. split; [rewrite Hy; reflexivity|]. finR; try reflexivity; try lia; try assumption.
      + (* KMcopy *)
        rewrite Hd in *. destruct (Hsem 3 0) as [Hy [Hlo Hhi]]; [reflexivity|].
        destruct stk as [|dst [|src [|l r]]]; try (zl; lia). inv_words. pn.
        change (znth (dst :: src :: l :: r) 0 0) with dst in Hms. change (znth (dst :: src :: l :: r) 1 0) with src in Hms.
        change (znth (dst :: src :: l :: r) 2 0) with l in Hms.
        assert (Emax : (if dst <? src then src else dst) = Z.max dst src) by (destruct (Z.ltb_spec dst src); lia).
        rewrite Emax in Hms.
        destruct (calc_mem_size (Z.max dst src) l) as [sz ovf] eqn:Ec. destruct Hms as [-> Hwv].
        destruct (calc_facts (Z.max dst src) l sz w ltac:(lia) ltac:(lia) Ec Hwv Hwb) as [Hl [Hl0 Hlp]].
        pose proof (zlen_expanded_ge _ _ _ _ Hm') as Hge.
        right. cbn [exec s_stk s_pc s_mem]. rewrite (Z.mod_small l) by lia.
        eexists. split; [rewrite Hy; reflexivity|]. finR; try reflexivity; try lia; try assumption.
        rewrite (Mx_eq yi (Z.max dst src) l w) by (try assumption; try lia; intros Q0; apply Hlp; exact Q0).
        destruct (Z.eqb_spec l 0) as [->|Hn].
        * eapply mem_rel_ext; [exact Hm'|]. intros x. apply mwrite_empty.
        * destruct Hlp as [Q1 [Q2 _]]; [lia|].
          rewrite (Z.mod_small dst), (Z.mod_small src) by lia.
          rewrite (read_rel _ _ _ src l Hm') by lia.
          apply write_rel; try assumption; try lia.
          -- apply zlen_mread. lia.
          -- intros k Hkk. rewrite <- cnth_in by (rewrite zlen_mread; lia). rewrite cnth_mread by lia. reflexivity.
          -- intros k Hkk. apply (mem_rel_bytes _ _ _ Hm).
      + (* KPush0 *)
        rewrite Hd in *. destruct (Hsem 0 1) as [Hy [Hlo Hhi]]; [reflexivity|]. try subst w.
        right. cbn [exec s_stk s_pc s_mem]. rewrite wpush_word by apply word_0.
        eexists. split; [rewrite Hy; reflexivity|]. finR; try reflexivity; try lia; try assumption.
        constructor; [apply word_0|assumption].
      + (* KPush *)
        destruct Hd as [Hr ->]. destruct (Hsem 0 1) as [Hy [Hlo Hhi]]; [apply da_push; exact Hr|]. try subst w.
        assert (Wv : word (bigend (mread (byte_at c) (pc + 1) (opc - 95)))).
        { apply bigend_mread_bound; [intros; change (byte_at c) with (cnth c); apply Hcb|lia]. }
        right. cbn [exec s_stk s_pc s_mem]. cbv zeta.
        rewrite (padded_window c (pc + 1) (opc - 95)) by lia. rewrite be_word_bigend.
        change (cnth c) with (byte_at c). rewrite wpush_word by exact Wv.
        eexists. split; [rewrite Hy; apply sem_push; exact Hr|]. finR; cbn [y_pc y_s y_m y_i]; try reflexivity; try lia; try assumption.
        constructor; assumption.
      + (* KDup *)
        destruct Hd as [Hr ->]. destruct (Hsem (opc - 127) (opc - 127 + 1)) as [Hy [Hlo Hhi]]; [apply da_dup; exact Hr|]. try subst w.
        assert (Wv : word (znth stk (opc - 127 - 1) 0)) by (apply znth_word; assumption).
        right. cbn [exec s_stk s_pc s_mem]. rewrite wpush_word by exact Wv.
        eexists. split; [rewrite Hy; apply sem_dup; exact Hr|]. finR; cbn [y_pc y_s y_m y_i]; try lia; try assumption.
        * unfold znth. replace (opc - 127 - 1) with (opc - 128) by lia. reflexivity.
        * constructor; [|assumption]. replace (opc - 128) with (opc - 127 - 1) by lia. exact Wv.
      + (* KSwap *)
        destruct Hd as [Hr ->]. destruct (Hsem (opc - 143 + 1) (opc - 143 + 1)) as [Hy [Hlo Hhi]]; [apply da_swap; exact Hr|]. try subst w.
        destruct stk as [|t r]; try (zl; lia).
        right. cbn [exec s_stk s_pc s_mem].
        eexists. split; [rewrite Hy; apply sem_swap; exact Hr|]. finR; cbn [y_pc y_s y_m y_i]; try lia; try assumption.
        * apply swap_eq. lia.
        * rewrite <- swap_eq by lia. inversion Hw; subst. apply set_nth_words; [constructor; [apply znth_word; assumption|assumption]|assumption].
      + (* KReturn *)
        rewrite Hd in *. destruct (Hsem 2 0) as [Hy [Hlo Hhi]]; [reflexivity|].
        destruct stk as [|off [|size r]]; try (zl; lia). inv_words. pn.
        change (znth (off :: size :: r) 0 0) with off in Hms. change (znth (off :: size :: r) 1 0) with size in Hms.
        destruct (calc_mem_size off size) as [sz ovf] eqn:Ec. destruct Hms as [-> Hwv].
        destruct (calc_facts off size sz w ltac:(lia) ltac:(lia) Ec Hwv Hwb) as [Hl [Hl0 Hlp]].
        pose proof (zlen_expanded_ge _ _ _ _ Hm') as Hge.
        right. cbn [exec s_stk s_pc s_mem proj]. rewrite (Z.mod_small size) by lia. rewrite Hy.
        destruct (Z.eqb_spec size 0) as [->|Hn]; [reflexivity|].
        destruct Hlp as [Q1 [Q2 _]]; [lia|]. rewrite (Z.mod_small off) by lia.
        rewrite (read_rel _ _ _ off size Hm') by lia. reflexivity.
      + (* KRevert *)
        rewrite Hd in *. destruct (Hsem 2 0) as [Hy [Hlo Hhi]]; [reflexivity|].
        destruct stk as [|off [|size r]]; try (zl; lia). inv_words. pn.
        change (znth (off :: size :: r) 0 0) with off in Hms. change (znth (off :: size :: r) 1 0) with size in Hms.
        destruct (calc_mem_size off size) as [sz ovf] eqn:Ec. destruct Hms as [-> Hwv].
        destruct (calc_facts off size sz w ltac:(lia) ltac:(lia) Ec Hwv Hwb) as [Hl [Hl0 Hlp]].
        pose proof (zlen_expanded_ge _ _ _ _ Hm') as Hge.
        right. cbn [exec s_stk s_pc s_mem proj]. rewrite (Z.mod_small size) by lia. rewrite Hy.
        destruct (Z.eqb_spec size 0) as [->|Hn]; [reflexivity|].
        destruct Hlp as [Q1 [Q2 _]]; [lia|]. rewrite (Z.mod_small off) by lia.
        rewrite (read_rel _ _ _ off size Hm') by lia. reflexivity.
      + (* KSha3 *)
        rewrite Hd in *. destruct (Hsem 2 1) as [Hy [Hlo Hhi]]; [reflexivity|].
        destruct stk as [|off [|size r]]; try (zl; lia). inv_words. pn.
        change (znth (off :: size :: r) 0 0) with off in Hms. change (znth (off :: size :: r) 1 0) with size in Hms.
        destruct (calc_mem_size off size) as [sz ovf] eqn:Ec. destruct Hms as [-> Hwv].
        destruct (calc_facts off size sz w ltac:(lia) ltac:(lia) Ec Hwv Hwb) as [Hl [Hl0 Hlp]].
        pose proof (zlen_expanded_ge _ _ _ _ Hm') as Hge.
        assert (Edata : (if size mod U64 =? 0 then [] else slice (expanded mem (32 * w)) (off mod U64) (size mod U64)) = mread ym off size).
        { rewrite (Z.mod_small size) by lia. destruct (Z.eqb_spec size 0) as [->|Hn]; [reflexivity|].
          destruct Hlp as [Q1 [Q2 _]]; [lia|]. rewrite (Z.mod_small off) by lia. apply (read_rel _ _ _ off size Hm'); lia. }
        right. cbn [exec s_stk s_pc s_mem]. cbv zeta. rewrite Edata. rewrite wpush_word by apply Hhash.
        eexists. split; [rewrite Hy; reflexivity|]. finR; try reflexivity; try lia; try assumption.
        * constructor; [apply Hhash|assumption].
        * rewrite (Mx_eq yi off size w) by (try assumption; try lia; intros Q0; apply Hlp; exact Q0). exact Hm'.
      + (* KEnv *)
        destruct Hd as [Ha He]. destruct (Hsem 0 1) as [Hy [Hlo Hhi]]; [unfold delta_alpha; rewrite Ha, He; reflexivity|]. try subst w.
        right. cbn [exec s_stk s_pc s_mem]. rewrite wpush_word by apply Henv.
        eexists. split; [rewrite Hy; unfold sem; rewrite Ha, He; reflexivity|]. finR; try reflexivity; try lia; try assumption.
        constructor; [apply Henv|assumption].
      + (* KRetDataSize *)
        rewrite Hd in *. destruct (Hsem 0 1) as [Hy [Hlo Hhi]]; [reflexivity|]. try subst w.
        right. cbn [exec s_stk s_pc s_mem]. rewrite wpush_word by apply word_0.
        eexists. split; [rewrite Hy; reflexivity|]. finR; try reflexivity; try lia; try assumption.
        constructor; [apply word_0|assumption].
      + (* KRetDataCopy *)
        rewrite Hd in *. destruct (Hsem 3 0) as [Hy [Hlo Hhi]]; [reflexivity|].
        destruct stk as [|mo [|dof [|l r]]]; try (zl; lia). inv_words. pn.
        change (znth (mo :: dof :: l :: r) 0 0) with mo in Hms. change (znth (mo :: dof :: l :: r) 2 0) with l in Hms.
        destruct (calc_mem_size mo l) as [sz ovf] eqn:Ec. destruct Hms as [-> Hwv].
        destruct (calc_facts mo l sz w ltac:(lia) ltac:(lia) Ec Hwv Hwb) as [Hl [Hl0 Hlp]].
        right. cbn [exec s_stk s_pc s_mem].
        assert (Hsm : sem spec_op hash E c input 62 {| y_pc := pc; y_s := mo :: dof :: l :: r; y_m := ym; y_i := yi |} =
                      if 0 <? dof + l then YExc else YNext (mkY (pc + 1) r ym (Mx yi mo l))) by reflexivity.
        destruct (Z.ltb_spec dof U64) as [Hdu|Hdu]; cbn [negb].
        2:{ cbn [proj]. rewrite Hy, Hsm. destruct (Z.ltb_spec 0 (dof + l)); [reflexivity|change U64 with 18446744073709551616 in *; lia]. }
        assert (Esum : (dof + l) mod W = dof + l).
        { apply Z.mod_small. change U64 with 18446744073709551616 in *. change W with 115792089237316195423570985008687907853269984665640564039457584007913129639936. lia. }
        rewrite Esum.
        destruct (Z.ltb_spec (dof + l) U64) as [He|He]; cbn [negb orb].
        2:{ cbn [proj]. rewrite Hy, Hsm. destruct (Z.ltb_spec 0 (dof + l)); [reflexivity|change U64 with 18446744073709551616 in *; lia]. }
        destruct (Z.ltb_spec 0 (dof + l)) as [Hp|Hp].
        { cbn [proj]. rewrite Hy, Hsm. destruct (Z.ltb_spec 0 (dof + l)); [reflexivity|lia]. }
        assert (l = 0) by lia. subst l. rewrite Hl0 in * by reflexivity.
        eexists. split; [rewrite Hy, Hsm; destruct (Z.ltb_spec 0 (dof + 0)); [lia|reflexivity]|].
        finR; cbn [y_pc y_s y_m y_i]; try reflexivity; try lia; try assumption.
      + (* KOther *)
        exfalso. apply Hk. reflexivity.
  Qed.

  Notation yrun' := (yrun spec_op defined hash E c input).
  Notation irun := (run impl_op valid_jumpdest hash E P c input).

  (* whole runs: by induction on the number of iterations *)
  Lemma run_sim fuel : forall st y, R st y ->
    (exists w, yrun' fuel y = YOutside w) \/
    match proj (fst (irun fuel st)) with Some r => yrun' fuel y = r | None => True end.
  Proof.
    induction fuel as [|k IH]; intros st y HR; [right; exact I|].
    cbn [run yrun]. destruct (step_sim st y HR) as [[w Hw]|H].
    - left. exists w. rewrite Hw. reflexivity.
    - destruct (istep st) as [st'|o].
      + destruct H as [y' [Hy HR']]. rewrite Hy. apply IH. exact HR'.
      + right. cbn [fst]. destruct o as [g|d g|d g|e| |u]; cbn [proj] in *; try exact I;
          try (rewrite H; reflexivity).
        destruct e; cbn [proj] in *; try exact I; rewrite H; reflexivity.
  Qed.

  Lemma R_init gas : R (init gas) y0.
  Proof.
    assert (Z0 : forall x, cnth [] x = 0) by (intros x; unfold cnth; destruct ((0 <=? x) && (x <? clen [])); [destruct (Z.to_nat x)|]; reflexivity).
    unfold R, init, y0, mem_rel. cbn [s_pc s_stk s_mem y_pc y_s y_m y_i].
    split; [reflexivity|]. split; [lia|]. split; [reflexivity|]. split; [constructor|].
    split; [reflexivity|]. split; [unfold MAXMEM, zlen; cbn; lia|].
    split; intros x; rewrite Z0; [lia|reflexivity].
  Qed.

  Theorem impl_refines_yp fuel gas :
    (exists w, yrun' fuel y0 = YOutside w) \/
    match proj (fst (irun fuel (init gas))) with Some r => yrun' fuel y0 = r | None => True end.
  Proof. apply run_sim. apply R_init. Qed.
End Sim.

(* ---- the Yellow-Paper machine only looks at the values of the word operations ---------------------------- *)

Section YExt.
  Variables w1 w2 : op -> Z -> Z -> Z -> Z.
  Hypothesis Hw : forall o x y z, w1 o x y z = w2 o x y z.
  Variable defined : Z -> bool.
  Variable hash : list Z -> Z.
  Variable E : env.
  Variables Ib Id : list Z.

  Lemma sem_ext w y : sem w1 hash E Ib Id w y = sem w2 hash E Ib Id w y.
  Proof. unfold sem. destruct (arith_of w) as [[o a]|]; [rewrite !Hw; reflexivity|reflexivity]. Qed.

  Lemma ystep_ext y : ystep w1 defined hash E Ib Id y = ystep w2 defined hash E Ib Id y.
  Proof. unfold ystep. rewrite sem_ext. reflexivity. Qed.

  Lemma yrun_ext fuel : forall y, yrun w1 defined hash E Ib Id fuel y = yrun w2 defined hash E Ib Id fuel y.
  Proof.
    induction fuel as [|k IH]; intros y; [reflexivity|]. cbn [yrun]. rewrite ystep_ext.
    destruct (ystep w2 defined hash E Ib Id y); try reflexivity. apply IH.
  Qed.
End YExt.
