(* C10 — evaluation-only variants of the word operations: reduction mod 2^256 written as a mask
   (linear in the VM; Z.modulo is quadratic), proved equal to [impl_op] for ALL integer arguments,
   and the machine instantiated with them proved equal to [run_impl].  Harness.v evaluates the
   fast variants; the equalities below carry every result over to the model proper. *)
From Coq Require Import ZArith List Bool Lia.
From V.C10 Require Import Model Machine.
Import ListNotations.
Local Open Scope Z_scope.

Definition MASK : Z := W - 1.
Definition wrap (v : Z) : Z := Z.land v MASK.

Lemma wrap_mod v : wrap v = v mod W.
Proof.
  unfold wrap, MASK. change (W - 1) with (Z.ones 256). change W with (2 ^ 256).
  apply Z.land_ones. lia.
Qed.

Fixpoint f_exp_loop (fuel : nat) (res mult e : Z) : Z :=
  match fuel with
  | O => res
  | S k =>
    if e =? 0 then res
    else f_exp_loop k (if Z.odd e then wrap (res * mult) else res) (wrap (mult * mult)) (Z.shiftr e 1)
  end.

Lemma f_exp_loop_eq fuel : forall res mult e, f_exp_loop fuel res mult e = u_exp_loop fuel res mult e.
Proof.
  induction fuel as [|k IH]; intros; [reflexivity|].
  cbn [f_exp_loop u_exp_loop]. destruct (e =? 0); [reflexivity|].
  rewrite IH. unfold u_mul. rewrite !wrap_mod. rewrite Z.shiftr_div_pow2 by lia.
  change (2 ^ 1) with 2. reflexivity.
Qed.

Definition fast_op (o : op) (x y z : Z) : Z :=
  match o with
  | ADD => wrap (x + y)
  | MUL => wrap (x * y)
  | SUB => wrap (x - y)
  | EXP => f_exp_loop 256 1 x y
  | SHL => if x <? 256 then (if 256 <=? x then 0 else wrap (y * 2 ^ x)) else 0
  | _ => impl_op o x y z
  end.

Theorem fast_op_eq : forall o x y z, fast_op o x y z = impl_op o x y z.
Proof.
  intros o x y z. destruct o; try reflexivity; cbn [fast_op impl_op].
  - apply wrap_mod.
  - apply wrap_mod.
  - apply wrap_mod.
  - unfold u_exp. apply f_exp_loop_eq.
  - unfold u_lsh. rewrite wrap_mod. reflexivity.
Qed.

(* validJumpdest with the analysis computed once per code (as Contract.analysis caches it): partially
   applied to the code it evaluates codeBitmap and returns the test on destinations *)
Definition jd_cached (c : code) : Z -> bool :=
  let bm := code_bitmap c in
  let n := clen c in
  fun d =>
    if negb (u_is_uint64 d) || (n <=? d) then false
    else if negb (cnth c d =? 91) then false
    else code_segment bm d.

Lemma jd_cached_eq c d : jd_cached c d = valid_jumpdest c d.
Proof. reflexivity. Qed.

(* the machine only looks at the values of the word operation and of the jump test on its own code, so
   pointwise equal operations and tests give equal runs *)
Section Ext.
  Variables op1 op2 : op -> Z -> Z -> Z -> Z.
  Hypothesis Hop : forall o x y z, op1 o x y z = op2 o x y z.
  Variables jd1 jd2 : code -> Z -> bool.
  Variable hash : list Z -> Z.
  Variable E : env.
  Variable P : params.
  Variable c : code.
  Hypothesis Hjd : forall d, jd1 c d = jd2 c d.
  Variable input : list Z.

  Lemma exec_ext k opc st : exec op1 jd1 hash E c input k opc st = exec op2 jd2 hash E c input k opc st.
  Proof.
    destruct k; cbn [exec]; try reflexivity;
      destruct (s_stk st) as [|a [|b [|d r]]]; rewrite ?Hop, ?Hjd; reflexivity.
  Qed.

  Lemma step_ext st : step op1 jd1 hash E P c input st = step op2 jd2 hash E P c input st.
  Proof.
    unfold step.
    repeat match goal with
           | |- (if ?b then _ else _) = (if ?b then _ else _) => destruct b; [try reflexivity|try reflexivity]
           | |- (let x := _ in _) = _ => cbv zeta
           end.
    set (k := decode _).
    destruct k; try reflexivity;
      repeat match goal with
             | |- context [match ?x with _ => _ end] =>
                 match x with
                 | exec _ _ _ _ _ _ _ _ _ => fail 1
                 | _ => destruct x
                 end
             end; try reflexivity; apply exec_ext.
  Qed.

  Lemma run_ext fuel : forall st, run op1 jd1 hash E P c input fuel st = run op2 jd2 hash E P c input fuel st.
  Proof.
    induction fuel as [|k IH]; intros st; [reflexivity|].
    cbn [run]. rewrite step_ext. destruct (step op2 jd2 hash E P c input st); [apply IH|reflexivity].
  Qed.
End Ext.

Lemma call_ext op1 op2 jd1 jd2 hash E P c input fuel gas :
  (forall o x y z, op1 o x y z = op2 o x y z) -> (forall d, jd1 c d = jd2 c d) ->
  call op1 jd1 hash E P c input fuel gas = call op2 jd2 hash E P c input fuel gas.
Proof. intros Ho Hj. unfold call. destruct c eqn:Ec; [reflexivity|]. rewrite <- Ec in *. apply run_ext; assumption. Qed.

Definition run_fast (hash : list Z -> Z) (E : env) (P : params) (c : code) (input : list Z) (fuel : nat) (gas : Z) : outcome * Z :=
  let jd := jd_cached c in
  call fast_op (fun _ => jd) hash E P c input fuel gas.

Theorem run_fast_eq hash E P c input fuel gas : run_fast hash E P c input fuel gas = run_impl hash E P c input fuel gas.
Proof.
  unfold run_fast, run_impl. cbv zeta. apply call_ext; [apply fast_op_eq|apply jd_cached_eq].
Qed.
