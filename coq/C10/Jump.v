(* C10 — jump destination analysis: codeBitmap marks exactly the push data of the instructions
   reachable from offset 0, so validJumpdest accepts exactly the JUMPDEST bytes at instruction
   boundaries.  Holds for every byte string, including a PUSH whose data runs past the end. *)
From Coq Require Import ZArith List Bool Lia.
From V.C10 Require Import Model.
Import ListNotations.
Local Open Scope Z_scope.

Definition next (c : code) (p : Z) : Z := p + 1 + push_len (cnth c p).

Lemma push_len_range b : 0 <= push_len b <= 32.
Proof.
  unfold push_len, is_push. destruct (Z.leb_spec 96 b); destruct (Z.leb_spec b 127); cbn [andb]; lia.
Qed.

Lemma next_gt c p : p < next c p.
Proof. unfold next. pose proof (push_len_range (cnth c p)). lia. Qed.

(* ---- the two marking loops ---------------------------------------------------------------- *)

Definition in_range (a b i : Z) : bool := (a <=? i) && (i <? b).

Lemma in_range_empty a b i : b <= a -> in_range a b i = false.
Proof.
  intros. unfold in_range. destruct (Z.leb_spec a i); destruct (Z.ltb_spec i b); cbn [andb]; try reflexivity; lia.
Qed.

Lemma mark8_spec fuel : forall f p nb,
  0 <= nb < 8 * Z.of_nat fuel + 8 ->
  let '(f1, p1, nb1) := mark8 fuel f p nb in
  0 <= nb1 < 8 /\ nb1 <= nb /\ p1 = p + (nb - nb1) /\ forall i, f1 i = f i || in_range p p1 i.
Proof.
  induction fuel as [|k IH]; intros f p nb H.
  - cbn [mark8]. cbv beta iota. repeat split; try lia. intros i. rewrite in_range_empty by lia. now rewrite orb_false_r.
  - cbn [mark8]. destruct (Z.leb_spec 8 nb).
    + specialize (IH (bv_set8 f p) (p + 8) (nb - 8)).
      destruct (mark8 k (bv_set8 f p) (p + 8) (nb - 8)) as [[f1 p1] nb1].
      destruct IH as [A [A' [B C]]]; [lia|]. repeat split; try lia.
      intros i. rewrite C. unfold bv_set8, in_range.
      destruct (Z.leb_spec p i); destruct (Z.ltb_spec i (p + 8)); destruct (Z.leb_spec (p + 8) i);
        destruct (Z.ltb_spec i p1); cbn [andb orb]; try lia;
        rewrite ?orb_false_r, ?orb_true_r; reflexivity.
    + cbv beta iota. repeat split; try lia. intros i. rewrite in_range_empty by lia. now rewrite orb_false_r.
Qed.

Lemma mark1_spec fuel : forall f p nb,
  0 <= nb <= Z.of_nat fuel ->
  let '(f1, p1) := mark1 fuel f p nb in
  p1 = p + nb /\ forall i, f1 i = f i || in_range p p1 i.
Proof.
  induction fuel as [|k IH]; intros f p nb H.
  - cbn [mark1]. cbv beta iota. assert (nb = 0) by lia. subst. split; [lia|]. intros i. rewrite in_range_empty by lia. now rewrite orb_false_r.
  - cbn [mark1]. destruct (Z.ltb_spec 0 nb).
    + specialize (IH (bv_set f p) (p + 1) (nb - 1)).
      destruct (mark1 k (bv_set f p) (p + 1) (nb - 1)) as [f1 p1].
      destruct IH as [B C]; [lia|]. split; [lia|].
      intros i. rewrite C. unfold bv_set, in_range.
      destruct (Z.eqb_spec i p); destruct (Z.leb_spec p i); destruct (Z.leb_spec (p + 1) i);
        destruct (Z.ltb_spec i p1); cbn [andb orb]; try lia;
        rewrite ?orb_false_r, ?orb_true_r; reflexivity.
    + cbv beta iota. assert (nb = 0) by lia. subst. split; [lia|]. intros i. rewrite in_range_empty by lia. now rewrite orb_false_r.
Qed.

(* one PUSH: exactly its data bytes are marked and the walk resumes after them *)
Lemma mark_push f p o : is_push o = true ->
  let '(f1, p1, nb1) := mark8 4 f (p + 1) (o - 96 + 1) in
  let '(f2, p2) := mark1 8 f1 p1 nb1 in
  p2 = p + 1 + push_len o /\ forall i, f2 i = f i || in_range (p + 1) p2 i.
Proof.
  intros Hp. unfold push_len. rewrite Hp. unfold is_push in Hp.
  apply andb_true_iff in Hp as [H1 H2]. apply Z.leb_le in H1, H2.
  pose proof (mark8_spec 4 f (p + 1) (o - 96 + 1)) as M8.
  destruct (mark8 4 f (p + 1) (o - 96 + 1)) as [[f1 p1] nb1].
  destruct M8 as [A [A' [B C]]]; [cbn; lia|].
  pose proof (mark1_spec 8 f1 p1 nb1) as M1.
  destruct (mark1 8 f1 p1 nb1) as [f2 p2].
  destruct M1 as [D E]; [cbn; lia|]. split; [lia|].
  intros i. rewrite E, C. unfold in_range.
  destruct (Z.leb_spec (p + 1) i); destruct (Z.ltb_spec i p1); destruct (Z.leb_spec p1 i);
    destruct (Z.ltb_spec i p2); cbn [andb orb]; try lia;
    rewrite ?orb_false_r, ?orb_true_r; reflexivity.
Qed.

(* ---- reachability along instruction starts ------------------------------------------------ *)

Inductive reach (c : code) : Z -> Z -> Prop :=
| reach_refl p : reach c p p
| reach_step p q : p < clen c -> reach c (next c p) q -> reach c p q.

Definition indata (c : code) (pc i : Z) : Prop :=
  exists p, reach c pc p /\ p < clen c /\ p < i < next c p.

Lemma reach_le c a b : reach c a b -> a <= b.
Proof. induction 1; [lia|]. pose proof (next_gt c p). lia. Qed.

Lemma reach_snoc c a p : reach c a p -> p < clen c -> reach c a (next c p).
Proof.
  induction 1; intros.
  - apply reach_step; [assumption|apply reach_refl].
  - apply reach_step; [assumption|]. apply IHreach. assumption.
Qed.

Lemma reach_linear c a b : reach c a b -> forall d, reach c a d -> reach c b d \/ reach c d b.
Proof.
  induction 1 as [p|p q Hp Hr IH]; intros d Hd.
  - left. exact Hd.
  - inversion Hd; subst.
    + right. apply reach_step; assumption.
    + apply IH. assumption.
Qed.

Lemma boundary_reach c d : boundary c d <-> reach c 0 d.
Proof.
  split.
  - induction 1; [apply reach_refl|]. apply (reach_snoc c 0 p); assumption.
  - assert (G : forall a, reach c a d -> boundary c a -> boundary c d).
    { induction 1; intros; [assumption|]. apply IHreach. apply boundary_next; assumption. }
    intros H. apply (G 0 H). apply boundary_0.
Qed.

Lemma cover c : forall n pc d, 0 <= d - pc <= Z.of_nat n -> d < clen c -> reach c pc d \/ indata c pc d.
Proof.
  induction n as [|n IH]; intros pc d H Hd.
  - assert (pc = d) by lia. subst. left. apply reach_refl.
  - destruct (Z.eq_dec pc d) as [->|Hne]; [left; apply reach_refl|].
    pose proof (next_gt c pc).
    destruct (Z.lt_ge_cases d (next c pc)).
    + right. exists pc. split; [apply reach_refl|]. lia.
    + destruct (IH (next c pc) d) as [R|[p [R [Pl Pr]]]]; try lia.
      * left. apply reach_step; [lia|assumption].
      * right. exists p. split; [apply reach_step; [lia|assumption]|]. lia.
Qed.

Lemma exclusive c pc d : reach c pc d -> indata c pc d -> False.
Proof.
  intros R [p [Rp [Pl Pr]]].
  destruct (reach_linear c pc d R p Rp) as [H|H].
  - apply reach_le in H. lia.
  - inversion H; subst; [lia|]. apply reach_le in H1. lia.
Qed.

(* ---- the walk ----------------------------------------------------------------------------- *)

Lemma indata_unfold c pc i :
  indata c pc i <-> pc < clen c /\ (pc < i < next c pc \/ indata c (next c pc) i).
Proof.
  split.
  - intros [p [R [Pl Pr]]]. inversion R; subst.
    + split; [assumption|]. left. assumption.
    + split; [assumption|]. right. exists p. repeat split; assumption || lia.
  - intros [Hl [H|[p [R [Pl Pr]]]]].
    + exists pc. split; [apply reach_refl|]. split; assumption.
    + exists p. split; [apply reach_step; assumption|]. split; assumption.
Qed.

Lemma walk_spec c : forall fuel pc f, 0 <= pc -> clen c - pc <= Z.of_nat fuel ->
  forall i, bitmap_walk fuel c pc f i = true <-> f i = true \/ indata c pc i.
Proof.
  induction fuel as [|k IH]; intros pc f Hpc Hf i.
  - cbn [bitmap_walk]. split; [intros; left; assumption|].
    intros [H|H]; [assumption|]. apply indata_unfold in H. lia.
  - cbn [bitmap_walk]. destruct (Z.ltb_spec pc (clen c)) as [Hl|Hl].
    2:{ split; [intros; left; assumption|]. intros [H|H]; [assumption|]. apply indata_unfold in H. lia. }
    rewrite indata_unfold.
    destruct (is_push (cnth c pc)) eqn:Hpush.
    + pose proof (mark_push f pc (cnth c pc) Hpush) as M.
      destruct (mark8 4 f (pc + 1) (cnth c pc - 96 + 1)) as [[f1 p1] nb1].
      destruct (mark1 8 f1 p1 nb1) as [f2 p2]. destruct M as [E2 F2].
      assert (p2 = next c pc) by (unfold next; lia). subst p2.
      pose proof (next_gt c pc).
      rewrite IH by lia. rewrite F2. unfold in_range.
      rewrite orb_true_iff, andb_true_iff, Z.leb_le, Z.ltb_lt. intuition lia.
    + assert (next c pc = pc + 1) by (unfold next, push_len; rewrite Hpush; lia).
      rewrite H. rewrite IH by lia. intuition lia.
Qed.

Lemma bitmap_spec c i : code_bitmap c i = true <-> indata c 0 i.
Proof.
  unfold code_bitmap. rewrite walk_spec; [|lia|unfold clen; lia].
  split; [intros [H|H]; [discriminate|assumption]|intros; right; assumption].
Qed.

Theorem valid_jumpdest_spec c d : 0 <= d -> clen c <= U64 ->
  valid_jumpdest c d = true <-> d < clen c /\ cnth c d = 91 /\ boundary c d.
Proof.
  intros Hd Hlen. unfold valid_jumpdest, u_is_uint64, code_segment.
  destruct (Z.ltb_spec d U64) as [H64|H64]; cbn [negb orb].
  2:{ split; [discriminate|]. intros [H _]. lia. }
  destruct (Z.leb_spec (clen c) d) as [Hl|Hl].
  { split; [discriminate|]. intros [H _]. lia. }
  destruct (Z.eqb_spec (cnth c d) 91) as [H5b|H5b]; cbn [negb].
  2:{ split; [discriminate|]. intros [_ [H _]]. contradiction. }
  rewrite negb_true_iff, boundary_reach.
  split.
  - intros Hb. repeat split; try assumption.
    destruct (cover c (Z.to_nat d) 0 d) as [R|I]; try lia; [assumption|].
    apply bitmap_spec in I. congruence.
  - intros [_ [_ R]]. destruct (code_bitmap c d) eqn:E; [|reflexivity].
    apply bitmap_spec in E. exfalso. exact (exclusive c 0 d R E).
Qed.

(* A jump into push data is rejected whatever the byte there is. *)
Corollary jump_into_push_data_rejected c p d : 0 <= d -> clen c <= U64 ->
  boundary c p -> p < clen c -> p < d < next c p -> valid_jumpdest c d = false.
Proof.
  intros Hd Hlen Hb Hp Hr. destruct (valid_jumpdest c d) eqn:E; [|reflexivity].
  apply valid_jumpdest_spec in E; try assumption. destruct E as [_ [_ Hbd]].
  apply boundary_reach in Hb, Hbd. exfalso.
  apply (exclusive c 0 d Hbd). exists p. repeat split; assumption || lia.
Qed.
