(* C10 — the interpreter loop of interpreter.go over the computational opcode set:
   stack / memory / pc / gas of one call frame, following EVMInterpreter.Run step by step
   (table lookup, stack bounds, constant gas, memorySize with overflow flag, word rounding,
   dynamic gas, Resize, execute), with the opcode bodies of instructions.go / eips.go.

   The machine is parametric in the word-operation semantics and the jump-destination test so
   that the same loop can be instantiated with the implementation layer ([impl_op],
   [valid_jumpdest]) and with the specification layer ([spec_op], instruction boundaries).

   Every value stored in a stack slot is reduced mod 2^256: a slot is a uint256.Int. *)
From Coq Require Import ZArith List Bool Lia.
From V.C10 Require Import Model.
Import ListNotations.
Local Open Scope Z_scope.

(* one jump table row as exported from the running binary: defined, constant gas, minStack, maxStack *)
Record row := mkRow { r_def : bool; r_gas : Z; r_min : Z; r_max : Z }.
Definition no_row := mkRow false 0 0 0.

Record params := mkParams {
  p_tab : list row;       (* 256 rows *)
  p_mag : Z               (* 30 when Proposal026 is active (common.GasMagnification), else 1 *)
}.

Inductive err := EInvalidOp | EUnderflow | EOverflow | EOOG | EGasOverflow | EBadJump | ERetDataOOB.
Inductive outcome :=
| OStop (gas : Z)
| OReturn (data : list Z) (gas : Z)
| ORevert (data : list Z) (gas : Z)
| OFail (e : err)
| OFuel
| OUnmodelled (opcode : Z).

Record state := mkState {
  s_pc : Z; s_stk : list Z; s_mem : list Z; s_fee : Z (* Memory.lastGasCost *); s_gas : Z;
  s_maxh : Z (* largest stack height seen *);
  s_rd : list Z (* EVMInterpreter.returnData *);
  s_cgt : Z (* evm.callGasTemp: gas handed to the callee, set by the call's dynamic gas function *);
  s_bad : bool (* ghost monitor, not part of the implementation: set once a call to the identity precompile either
                  ran out of callee gas or returned data that differs from its input (see call_identity) *)
}.

(* ---- bytes and words ---------------------------------------------------------------------- *)

Definition be_word (bs : list Z) : Z := fold_left (fun acc b => acc * 256 + b) bs 0.
(* uint256.WriteToSlice: byte i (big-endian) = bits 8*(31-i) .. 8*(31-i)+7; shift and mask are linear in the VM,
   division by a power is not *)
Definition word_bytes (v : Z) : list Z := map (fun i => Z.land (Z.shiftr v (8 * (31 - Z.of_nat i))) 255) (seq 0 32).
Definition zlen {A} (l : list A) : Z := Z.of_nat (length l).
Definition slice (l : list Z) (a n : Z) : list Z := firstn (Z.to_nat n) (skipn (Z.to_nat a) l).
Definition zeros (n : Z) : list Z := repeat 0 (Z.to_nat n).
(* utility.RightPadBytes(slice, l): the slice itself when already long enough *)
Definition right_pad (bs : list Z) (n : Z) : list Z := if n <=? zlen bs then bs else bs ++ zeros (n - zlen bs).
(* common.go getData: start and end clipped to the data; end computed in uint64 *)
Definition get_data (data : list Z) (start size : Z) : list Z :=
  let len := zlen data in
  let start := if len <? start then len else start in
  let e := (start + size) mod U64 in
  let e := if len <? e then len else e in
  right_pad (slice data start (e - start)) size.
(* Memory.Set: copy(m.store[offset:offset+size], value) when size > 0 *)
Definition mem_set (mem : list Z) (off size : Z) (v : list Z) : list Z :=
  if size =? 0 then mem
  else let v' := firstn (Z.to_nat size) v in
       firstn (Z.to_nat off) mem ++ v' ++ skipn (Z.to_nat off + length v') mem.
Definition mem_resize (mem : list Z) (size : Z) : list Z :=
  if zlen mem <? size then mem ++ zeros (size - zlen mem) else mem.

(* ---- common.go: memory size arithmetic in uint64 ------------------------------------------ *)

Definition MAXU64 : Z := U64 - 1.
(* calcMemSize64WithUint(off, length64) -> (size, overflow) *)
Definition calc_mem_size_u (off len64 : Z) : Z * bool :=
  if len64 =? 0 then (0, false)
  else if negb (off <? U64) then (0, true)
  else let v := (off + len64) mod U64 in (v, v <? off).
(* calcMemSize64(off, l) *)
Definition calc_mem_size (off l : Z) : Z * bool :=
  if negb (l <? U64) then (0, true) else calc_mem_size_u off l.
Definition to_word_size (size : Z) : Z :=
  if MAXU64 - 31 <? size then MAXU64 / 32 + 1 else (size + 31) / 32.
Definition safe_mul (x y : Z) : Z * bool :=
  if (x =? 0) || (y =? 0) then (0, false) else ((x * y) mod U64, U64 <=? x * y).
Definition safe_add (x y : Z) : Z * bool := ((x + y) mod U64, U64 <=? x + y).

(* gas_table.go memoryGasCost: Some (fee, newLastGasCost) or None for ErrGasUintOverflow *)
Definition memory_gas_cost (mag : Z) (memlen lastfee newsize : Z) : option (Z * Z) :=
  if newsize =? 0 then Some (0, lastfee)
  else if 137438953440 <? newsize then None                       (* 0x1FFFFFFFE0 *)
  else
    let words := to_word_size newsize in
    let newsize := words * 32 in
    if memlen <? newsize then
      let total := (words * 3 + (words * words) / 512) mod U64 in
      let fee := (total - lastfee) mod U64 in
      Some ((fee * mag) mod U64, total)
    else Some (0, lastfee).

(* memoryCopierGas(stackpos): memory fee (already magnified by memoryGasCost) + 3 per copied word,
   SafeMul/SafeAdd, then the magnification once more through magnifyGas = SafeMul (repo commit
   a88a71e; before it the product wrapped); with Proposal026 off the code does not multiply at
   all, which [mag] = 1 reproduces *)
Definition copier_gas (mag : Z) (memlen lastfee newsize words_operand : Z) : option (Z * Z) :=
  match memory_gas_cost mag memlen lastfee newsize with
  | None => None
  | Some (g, last') =>
    if negb (words_operand <? U64) then None
    else let '(w, o1) := safe_mul (to_word_size words_operand) 3 in
         if o1 then None
         else let '(g2, o2) := safe_add g w in
              if o2 then None
              else let '(g3, o3) := safe_mul g2 mag in
                   if o3 then None else Some (g3, last')
  end.

(* gasSha3: memory fee + 6 per hashed word, SafeMul/SafeAdd, magnifyGas *)
Definition sha3_gas (mag : Z) (memlen lastfee newsize words_operand : Z) : option (Z * Z) :=
  match memory_gas_cost mag memlen lastfee newsize with
  | None => None
  | Some (g, last') =>
    if negb (words_operand <? U64) then None
    else let '(w, o1) := safe_mul (to_word_size words_operand) 6 in
         if o1 then None
         else let '(g2, o2) := safe_add g w in
              if o2 then None
              else let '(g3, o3) := safe_mul g2 mag in
                   if o3 then None else Some (g3, last')
  end.

(* gas.go callGas (EIP-150 branch): all but one 64th of what is left after the base cost, capped by the request;
   the subtraction is a plain uint64 one *)
Definition call_temp (avail base cost : Z) : Z :=
  let a := (avail - base) mod U64 in
  let g := a - a / 64 in
  if negb (cost <? U64) || (g <? cost) then g else cost.
(* gasStaticCall, and gasCall for a call that transfers no value: memory fee + callGasTemp *)
Definition call_gas (mag : Z) (avail memlen lastfee newsize cost : Z) : option (Z * Z) :=
  match memory_gas_cost mag memlen lastfee newsize with
  | None => None
  | Some (mg, last') =>
    let '(g, o) := safe_add mg (call_temp avail mg cost) in
    if o then None else Some (g, last')
  end.
Definition call_temp_of (mag : Z) (avail memlen lastfee newsize cost : Z) : Z :=
  match memory_gas_cost mag memlen lastfee newsize with
  | None => 0
  | Some (mg, _) => call_temp avail mg cost
  end.
(* memoryCall / memoryStaticCall: the larger of the output and input ranges *)
Definition call_mem_size (roff rsz ioff isz : Z) : Z * bool :=
  let '(x, ox) := calc_mem_size roff rsz in
  if ox then (0, true)
  else let '(y, oy) := calc_mem_size ioff isz in
       if oy then (0, true) else (if y <? x then x else y, false).

Definition bit_len (x : Z) : Z := if x =? 0 then 0 else Z.log2 x + 1.
(* gasExpEIP158 *)
Definition exp_gas (mag exponent : Z) : option Z :=
  let bytes := (bit_len exponent + 7) / 8 in
  let '(g, o) := safe_add (bytes * 50) 10 in
  if o then None else Some ((g * mag) mod U64).

(* ---- opcode decoding (opcodes.go numbering) ------------------------------------------------ *)

(* environment reads: values of the call frame / block context, parameters of a run *)
Inductive envk := EAddress | EOrigin | ECaller | ECallValue | EGasPrice | ECoinbase | ETimestamp | ENumber
| EDifficulty | EGasLimit | EChainId | ESelfBalance.
Record env := mkEnv { e_address : Z; e_origin : Z; e_caller : Z; e_callvalue : Z; e_gasprice : Z; e_coinbase : Z;
  e_timestamp : Z; e_number : Z; e_difficulty : Z; e_gaslimit : Z; e_chainid : Z; e_selfbalance : Z }.
Definition env_get (E : env) (k : envk) : Z :=
  match k with
  | EAddress => e_address E | EOrigin => e_origin E | ECaller => e_caller E | ECallValue => e_callvalue E
  | EGasPrice => e_gasprice E | ECoinbase => e_coinbase E | ETimestamp => e_timestamp E | ENumber => e_number E
  | EDifficulty => e_difficulty E | EGasLimit => e_gaslimit E | EChainId => e_chainid E | ESelfBalance => e_selfbalance E
  end.

Inductive kind :=
| KStop | KArith2 (o : op) | KArith3 (o : op) | KArith1 (o : op)
| KCallDataLoad | KCallDataSize | KCallDataCopy | KCodeSize | KCodeCopy
| KPop | KMload | KMstore | KMstore8 | KJump | KJumpi | KPc | KMsize | KGas | KJumpdest
| KMcopy | KPush0 | KPush (n : Z) | KDup (n : Z) | KSwap (n : Z) | KReturn | KRevert
| KSha3 | KEnv (e : envk) | KRetDataSize | KRetDataCopy | KCall | KStaticCall | KOther.

Definition decode (b : Z) : kind :=
  if b =? 0 then KStop else if b =? 1 then KArith2 ADD else if b =? 2 then KArith2 MUL
  else if b =? 3 then KArith2 SUB else if b =? 4 then KArith2 DIV else if b =? 5 then KArith2 SDIV
  else if b =? 6 then KArith2 MOD else if b =? 7 then KArith2 SMOD else if b =? 8 then KArith3 ADDMOD
  else if b =? 9 then KArith3 MULMOD else if b =? 10 then KArith2 EXP else if b =? 11 then KArith2 SIGNEXTEND
  else if b =? 16 then KArith2 LT else if b =? 17 then KArith2 GT else if b =? 18 then KArith2 SLT
  else if b =? 19 then KArith2 SGT else if b =? 20 then KArith2 EQ else if b =? 21 then KArith1 ISZERO
  else if b =? 22 then KArith2 AND else if b =? 23 then KArith2 OR else if b =? 24 then KArith2 XOR
  else if b =? 25 then KArith1 NOT else if b =? 26 then KArith2 BYTE else if b =? 27 then KArith2 SHL
  else if b =? 28 then KArith2 SHR else if b =? 29 then KArith2 SAR
  else if b =? 32 then KSha3
  else if b =? 48 then KEnv EAddress else if b =? 50 then KEnv EOrigin else if b =? 51 then KEnv ECaller
  else if b =? 52 then KEnv ECallValue else if b =? 58 then KEnv EGasPrice
  else if b =? 61 then KRetDataSize else if b =? 62 then KRetDataCopy
  else if b =? 65 then KEnv ECoinbase else if b =? 66 then KEnv ETimestamp else if b =? 67 then KEnv ENumber
  else if b =? 68 then KEnv EDifficulty else if b =? 69 then KEnv EGasLimit else if b =? 70 then KEnv EChainId
  else if b =? 71 then KEnv ESelfBalance
  else if b =? 53 then KCallDataLoad else if b =? 54 then KCallDataSize else if b =? 55 then KCallDataCopy
  else if b =? 56 then KCodeSize else if b =? 57 then KCodeCopy
  else if b =? 80 then KPop else if b =? 81 then KMload else if b =? 82 then KMstore
  else if b =? 83 then KMstore8 else if b =? 86 then KJump else if b =? 87 then KJumpi
  else if b =? 88 then KPc else if b =? 89 then KMsize else if b =? 90 then KGas
  else if b =? 91 then KJumpdest else if b =? 94 then KMcopy else if b =? 95 then KPush0
  else if (96 <=? b) && (b <=? 127) then KPush (b - 95)
  else if (128 <=? b) && (b <=? 143) then KDup (b - 127)
  else if (144 <=? b) && (b <=? 159) then KSwap (b - 143)
  else if b =? 241 then KCall else if b =? 250 then KStaticCall
  else if b =? 243 then KReturn else if b =? 253 then KRevert
  else KOther.

Definition znth {A} (l : list A) (i : Z) (d : A) : A := nth (Z.to_nat i) l d.

Fixpoint zlist_eq (a b : list Z) : bool :=
  match a, b with
  | [], [] => true
  | x :: a', y :: b' => (x =? y) && zlist_eq a' b'
  | _, _ => false
  end.

(* stack helpers: head of the list is the top of the stack *)
(* a slot holds 256 bits: v mod 2^256, computed as a mask (Z.land_ones) *)
Definition wpush (v : Z) (s : list Z) : list Z := Z.land v (W - 1) :: s.
Fixpoint set_nth (l : list Z) (n : nat) (v : Z) : list Z :=
  match l, n with
  | [], _ => []
  | _ :: r, O => v :: r
  | x :: r, S k => x :: set_nth r k v
  end.

Section Machine.
  Variable opsem : op -> Z -> Z -> Z -> Z.
  Variable jumpdest_ok : code -> Z -> bool.
  Variable hash : list Z -> Z.            (* KECCAK-256 of a byte string, as a 256-bit big-endian number *)
  Variable E : env.
  Variable P : params.
  Variable c : code.
  Variable input : list Z.

  Definition mag := p_mag P.

  (* memorySize function of the table row (memory_table.go), on the current stack *)
  Definition mem_size_of (k : kind) (s : list Z) : option (Z * bool) :=
    let b i := znth s i 0 in
    match k with
    | KMload | KMstore => Some (calc_mem_size_u (b 0) 32)
    | KMstore8 => Some (calc_mem_size_u (b 0) 1)
    | KCallDataCopy | KCodeCopy | KRetDataCopy => Some (calc_mem_size (b 0) (b 2))
    | KSha3 => Some (calc_mem_size (b 0) (b 1))
    | KStaticCall => Some (call_mem_size (b 4) (b 5) (b 2) (b 3))
    | KCall => Some (call_mem_size (b 5) (b 6) (b 3) (b 4))
    | KMcopy => Some (calc_mem_size (if b 0 <? b 1 then b 1 else b 0) (b 2))
    | KReturn | KRevert => Some (calc_mem_size (b 0) (b 1))
    | _ => None
    end.

  (* dynamicGas function of the row: Some (Some (gas, lastGasCost')) | Some None = error | None = no function *)
  Definition dyn_gas_of (k : kind) (st : state) (msize : Z) : option (option (Z * Z)) :=
    let b i := znth (s_stk st) i 0 in
    match k with
    | KMload | KMstore | KMstore8 | KReturn | KRevert =>
        Some (memory_gas_cost mag (zlen (s_mem st)) (s_fee st) msize)
    | KCallDataCopy | KCodeCopy | KMcopy | KRetDataCopy =>
        Some (copier_gas mag (zlen (s_mem st)) (s_fee st) msize (b 2))
    | KSha3 => Some (sha3_gas mag (zlen (s_mem st)) (s_fee st) msize (b 1))
    | KCall | KStaticCall => Some (call_gas mag (s_gas st) (zlen (s_mem st)) (s_fee st) msize (b 0))
    | KArith2 EXP => Some (match exp_gas mag (b 1) with Some g => Some (g, s_fee st) | None => None end)
    | _ => None
    end.

  (* evm.callGasTemp as left behind by the dynamic gas function *)
  Definition cgt_of (k : kind) (st : state) (msize : Z) : Z :=
    match k with
    | KCall | KStaticCall => call_temp_of mag (s_gas st) (zlen (s_mem st)) (s_fee st) msize (znth (s_stk st) 0 0)
    | _ => s_cgt st
    end.

  Inductive stepres := Next (st : state) | Done (o : outcome).

  Definition upd (st : state) (pc : Z) (stk mem : list Z) : state :=
    mkState pc stk mem (s_fee st) (s_gas st) (Z.max (s_maxh st) (zlen stk)) (s_rd st) (s_cgt st) (s_bad st).
  Definition upd_call (st : state) (pc : Z) (stk mem rd : list Z) (gas : Z) (bad : bool) : state :=
    mkState pc stk mem (s_fee st) gas (Z.max (s_maxh st) (zlen stk)) rd (s_cgt st) (s_bad st || bad).

  (* opCall / opStaticCall towards the identity precompile (address 4, contracts.go dataCopy), no value:
     args is a window into the caller's memory (GetPtr), dataCopy.Run returns that very slice, opCall copies it into
     the output area (memory.Set; Go's copy behaves as if the source were read first) and Run then snapshots the
     window -- AFTER that copy -- as the return data. *)
  Definition call_identity (opc : Z) (st : state) (addr ioff isz roff rsz : Z) (r : list Z) : stepres :=
    let pc := s_pc st in let m := s_mem st in
    if negb (addr mod 2 ^ 160 =? 4) then Done (OUnmodelled opc)
    else
      let args := if isz mod U64 =? 0 then [] else slice m (ioff mod U64) (isz mod U64) in
      let cost := (zlen args + 31) / 32 * 3 + 15 in                      (* dataCopy.RequiredGas *)
      if s_cgt st <? cost
      then Next (upd_call st (pc + 1) (wpush 0 r) m [] (s_gas st) true) (* callee out of gas: 0, nothing written, no data *)
      else
        let m' := mem_set m (roff mod U64) (rsz mod U64) args in
        let rd := if isz mod U64 =? 0 then [] else slice m' (ioff mod U64) (isz mod U64) in
        Next (upd_call st (pc + 1) (wpush 1 r) m' rd (s_gas st + (s_cgt st - cost)) (negb (zlist_eq rd args))).

  (* execute + the interpreter's pc update.  [st] already has gas deducted and memory resized. *)
  Definition exec (k : kind) (opc : Z) (st : state) : stepres :=
    let pc := s_pc st in let s := s_stk st in let m := s_mem st in
    match k, s with
    | KStop, _ => Done (OStop (s_gas st))
    | KArith2 o, x :: y :: r => Next (upd st (pc + 1) (wpush (opsem o x y 0) r) m)
    | KArith3 o, x :: y :: z :: r => Next (upd st (pc + 1) (wpush (opsem o x y z) r) m)
    | KArith1 o, x :: r => Next (upd st (pc + 1) (wpush (opsem o x 0 0) r) m)
    | KCallDataLoad, x :: r =>
        let v := if x <? U64 then be_word (get_data input x 32) else 0 in
        Next (upd st (pc + 1) (wpush v r) m)
    | KCallDataSize, _ => Next (upd st (pc + 1) (wpush (zlen input) s) m)
    | KCodeSize, _ => Next (upd st (pc + 1) (wpush (zlen c) s) m)
    | KCallDataCopy, mo :: dof :: l :: r =>
        let dof64 := if dof <? U64 then dof else MAXU64 in
        Next (upd st (pc + 1) r (mem_set m (mo mod U64) (l mod U64) (get_data input dof64 (l mod U64))))
    | KCodeCopy, mo :: cof :: l :: r =>
        let cof64 := if cof <? U64 then cof else MAXU64 in
        Next (upd st (pc + 1) r (mem_set m (mo mod U64) (l mod U64) (get_data c cof64 (l mod U64))))
    | KMcopy, dst :: src :: l :: r =>
        let l64 := l mod U64 in
        Next (upd st (pc + 1) r (if l64 =? 0 then m else mem_set m (dst mod U64) l64 (slice m (src mod U64) l64)))
    | KPop, _ :: r => Next (upd st (pc + 1) r m)
    | KMload, x :: r => Next (upd st (pc + 1) (wpush (be_word (slice m (x mod U64) 32)) r) m)
    | KMstore, a :: v :: r => Next (upd st (pc + 1) r (mem_set m (a mod U64) 32 (word_bytes v)))
    | KMstore8, a :: v :: r => Next (upd st (pc + 1) r (mem_set m (a mod U64) 1 [(v mod U64) mod 256]))
    | KJump, d :: r =>
        if jumpdest_ok c d then Next (upd st (d mod U64) r m) else Done (OFail EBadJump)
    | KJumpi, d :: cond :: r =>
        if cond =? 0 then Next (upd st (pc + 1) r m)
        else if jumpdest_ok c d then Next (upd st (d mod U64) r m) else Done (OFail EBadJump)
    | KPc, _ => Next (upd st (pc + 1) (wpush pc s) m)
    | KMsize, _ => Next (upd st (pc + 1) (wpush (zlen m) s) m)
    | KGas, _ => Next (upd st (pc + 1) (wpush (s_gas st) s) m)
    | KJumpdest, _ => Next (upd st (pc + 1) s m)
    | KPush0, _ => Next (upd st (pc + 1) (wpush 0 s) m)
    | KPush n, _ =>
        (* opPush1 / makePush: data clipped at the end of the code, right-padded with zeros *)
        let codelen := zlen c in
        let start := Z.min codelen (pc + 1) in
        let e := Z.min codelen (start + n) in
        Next (upd st (pc + n + 1) (wpush (be_word (right_pad (slice c start (e - start)) n)) s) m)
    | KDup n, _ => Next (upd st (pc + 1) (wpush (znth s (n - 1) 0) s) m)
    | KSwap n, t :: r =>
        let other := znth s n 0 in
        Next (upd st (pc + 1) (set_nth (other :: r) (Z.to_nat n) t) m)
    | KSha3, off :: size :: r =>
        (* opSha3: data := memory.GetPtr(offset, size) (nil when size = 0); the digest replaces the size slot *)
        let data := if size mod U64 =? 0 then [] else slice m (off mod U64) (size mod U64) in
        Next (upd st (pc + 1) (wpush (hash data) r) m)
    | KEnv e, _ => Next (upd st (pc + 1) (wpush (env_get E e) s) m)
    | KRetDataSize, _ => Next (upd st (pc + 1) (wpush (zlen (s_rd st)) s) m)
    | KRetDataCopy, mo :: dof :: l :: r =>
        (* opReturnDataCopy: the data offset must fit 64 bits, end = offset + length (256-bit add) must fit 64 bits
           and not exceed len(returnData) *)
        if negb (dof <? U64) then Done (OFail ERetDataOOB)
        else let e := (dof + l) mod W in
             if negb (e <? U64) || (zlen (s_rd st) <? e) then Done (OFail ERetDataOOB)
             else Next (upd st (pc + 1) r (mem_set m (mo mod U64) (l mod U64) (slice (s_rd st) dof (e - dof))))
    | KStaticCall, _ :: addr :: ioff :: isz :: roff :: rsz :: r => call_identity opc st addr ioff isz roff rsz r
    | KCall, _ :: addr :: v :: ioff :: isz :: roff :: rsz :: r =>
        if v =? 0 then call_identity opc st addr ioff isz roff rsz r else Done (OUnmodelled opc)
    | KReturn, off :: size :: _ =>
        Done (OReturn (if size mod U64 =? 0 then [] else slice m (off mod U64) (size mod U64)) (s_gas st))
    | KRevert, off :: size :: _ =>
        Done (ORevert (if size mod U64 =? 0 then [] else slice m (off mod U64) (size mod U64)) (s_gas st))
    | _, _ => Done (OUnmodelled opc)
    end.

  (* one iteration of the loop in EVMInterpreter.Run *)
  Definition step (st : state) : stepres :=
    let opc := cnth c (s_pc st) in                          (* contract.GetOp(pc): 0 past the end *)
    let rw := znth (p_tab P) opc no_row in
    if negb (r_def rw) then Done (OFail EInvalidOp)
    else
      let h := zlen (s_stk st) in
      if h <? r_min rw then Done (OFail EUnderflow)
      else if r_max rw <? h then Done (OFail EOverflow)
      else if s_gas st <? r_gas rw then Done (OFail EOOG)
      else
        let st1 := mkState (s_pc st) (s_stk st) (s_mem st) (s_fee st) (s_gas st - r_gas rw) (s_maxh st) (s_rd st) (s_cgt st) (s_bad st) in
        let k := decode opc in
        match k with
        | KOther => Done (OUnmodelled opc)
        | _ =>
          (* memory size *)
          let ms := match mem_size_of k (s_stk st) with
                    | None => Some 0
                    | Some (sz, ovf) =>
                        if ovf then None
                        else let '(v, o) := safe_mul (to_word_size sz) 32 in if o then None else Some v
                    end in
          match ms with
          | None => Done (OFail EGasOverflow)
          | Some msize =>
            (* dynamic gas *)
            let after_dyn :=
              match dyn_gas_of k st1 msize with
              | None => Some st1
              | Some None => None
              | Some (Some (g, fee')) =>
                  if s_gas st1 <? g then None
                  else Some (mkState (s_pc st1) (s_stk st1) (s_mem st1) fee' (s_gas st1 - g) (s_maxh st1) (s_rd st1) (cgt_of k st1 msize) (s_bad st1))
              end in
            match after_dyn with
            | None => Done (OFail EOOG)
            | Some st2 =>
              let st3 := if 0 <? msize
                         then mkState (s_pc st2) (s_stk st2) (mem_resize (s_mem st2) msize) (s_fee st2) (s_gas st2) (s_maxh st2) (s_rd st2) (s_cgt st2) (s_bad st2)
                         else st2 in
              exec k opc st3
            end
          end
        end.

  Fixpoint run (fuel : nat) (st : state) : outcome * Z :=
    match fuel with
    | O => (OFuel, s_maxh st)
    | S k => match step st with
             | Done o => (o, s_maxh st)
             | Next st' => run k st'
             end
    end.

  (* the ghost monitor at the end of a run *)
  Fixpoint run_flag (fuel : nat) (st : state) : bool :=
    match fuel with
    | O => s_bad st
    | S k => match step st with
             | Done _ => s_bad st
             | Next st' => run_flag k st'
             end
    end.

  Definition init (gas : Z) : state := mkState 0 [] [] 0 gas 0 [] 0 false.

  (* evm.Call on an account holding [c]: empty code returns at once with the gas untouched *)
  Definition call (fuel : nat) (gas : Z) : outcome * Z :=
    match c with
    | [] => (OStop gas, 0)
    | _ => run fuel (init gas)
    end.
End Machine.

(* The return-data buffer the caller sees after a callee frame has ended (opCall / opCallCode / opDelegateCall /
   opStaticCall `return ret, nil`; opCreate / opCreate2 return the callee's data only for ErrExecutionReverted):
   a message call leaves its output, successful or reverted (nothing when it faulted); a creation leaves data only
   when the initcode reverted -- success, oversized or unpayable runtime code, faults in the initcode, depth, balance
   and address-collision failures all leave it empty. *)
Inductive frame_end :=
| FCallOk (out : list Z) | FCallRevert (out : list Z) | FCallFail
| FCreateOk | FCreateRevert (out : list Z) | FCreateFail.
Definition rd_after (e : frame_end) : list Z :=
  match e with
  | FCallOk o | FCallRevert o | FCreateRevert o => o
  | FCallFail | FCreateOk | FCreateFail => []
  end.

Definition run_impl := call impl_op valid_jumpdest.
(* run_impl hash E P c input fuel gas *)
