(* C10 — machine-level refinement: the interpreter loop run with the implementation layer
   ([impl_op], [valid_jumpdest] = codeBitmap analysis) and the same loop run with the specification
   layer ([spec_op], any jump test that accepts exactly the JUMPDEST bytes at instruction boundaries)
   produce the same outcome — stack, memory, pc, gas, return data — for every program over the
   modelled opcode set, every input, every gas amount and every number of steps.
   Invariant: every stack slot holds a 256-bit word. *)
From Coq Require Import ZArith List Bool Lia.
From V.C10 Require Import Model Machine Proofs Jump.
Import ListNotations.
Local Open Scope Z_scope.

Lemma mask_word v : word (Z.land v (W - 1)).
Proof.
  unfold word. change (W - 1) with (Z.ones 256). rewrite Z.land_ones by lia.
  change (2 ^ 256) with W. apply Z.mod_pos_bound. reflexivity.
Qed.

Lemma word_0 : word 0.
Proof. unfold word. split; [lia|reflexivity]. Qed.

Lemma wpush_words v s : Forall word s -> Forall word (wpush v s).
Proof. intros. unfold wpush. constructor; [apply mask_word|assumption]. Qed.

Lemma znth_word s i : Forall word s -> word (znth s i 0).
Proof.
  intros H. unfold znth. destruct (nth_in_or_default (Z.to_nat i) s 0) as [Hin|Heq]; [|rewrite Heq; apply word_0].
  rewrite Forall_forall in H. apply H. assumption.
Qed.

Lemma set_nth_words l : forall n v, Forall word l -> word v -> Forall word (set_nth l n v).
Proof.
  induction l as [|x l IH]; intros n v Hl Hv; [constructor|].
  inversion Hl; subst. destruct n; cbn [set_nth]; constructor; auto.
Qed.

Lemma Next_inj a b : Next a = Next b -> a = b.
Proof. congruence. Qed.

Ltac inv_words :=
  repeat match goal with
         | H : Forall word (_ :: _) |- _ => inversion H; clear H; subst
         end.

Lemma call_identity_words opc st addr ioff isz roff rsz r st' :
  call_identity opc st addr ioff isz roff rsz r = Next st' -> Forall word r -> Forall word (s_stk st').
Proof.
  unfold call_identity. cbv zeta.
  repeat match goal with |- context [if ?b then _ else _] => destruct b end;
    intros HE Hr; try discriminate; apply Next_inj in HE; rewrite <- HE; cbn [s_stk upd_call]; apply wpush_words; exact Hr.
Qed.

Section Refine.
  Variable jd2 : code -> Z -> bool.
  Variable hash : list Z -> Z.
  Variable E : env.
  Variable P : params.
  Variable c : code.
  Variable input : list Z.
  Hypothesis Hlen : clen c <= U64.
  Hypothesis Hjd : forall d, 0 <= d -> (jd2 c d = true <-> d < clen c /\ cnth c d = 91 /\ boundary c d).

  Lemma jd_eq d : word d -> valid_jumpdest c d = jd2 c d.
  Proof.
    intros [Hd _]. pose proof (valid_jumpdest_spec c d Hd Hlen) as A. pose proof (Hjd d Hd) as B.
    destruct (valid_jumpdest c d), (jd2 c d); try reflexivity.
    - symmetry. apply B, A. reflexivity.
    - apply A, B. reflexivity.
  Qed.

  Lemma exec_refine k opc st : Forall word (s_stk st) ->
    exec impl_op valid_jumpdest hash E c input k opc st = exec spec_op jd2 hash E c input k opc st.
  Proof.
    intros Hw. destruct k; cbn [exec]; try reflexivity;
      destruct (s_stk st) as [|a [|b [|d r]]]; try reflexivity; inv_words;
      rewrite ?op_correct by (assumption || apply word_0); rewrite ?jd_eq by assumption; reflexivity.
  Qed.

  Lemma exec_words k opc st st' : Forall word (s_stk st) ->
    exec spec_op jd2 hash E c input k opc st = Next st' -> Forall word (s_stk st').
  Proof.
    intros Hw. destruct k; cbn [exec];
      try (lazymatch goal with
           | |- context [call_identity] =>
               destruct (s_stk st) as [|g0 [|a0 [|v0 [|i1 [|i2 [|i3 [|i4 r0]]]]]]] eqn:Es;
               repeat match goal with |- context [if ?b then _ else _] => destruct b end;
               intros HE; try discriminate;
               (eapply call_identity_words; [exact HE|try rewrite Es in Hw; inv_words; first [assumption | constructor; assumption | constructor]])
           end; fail 1);
      try (lazymatch goal with
           | |- context [set_nth] =>
               destruct (s_stk st) as [|t r] eqn:Es; intros HE; [discriminate|];
               apply Next_inj in HE; rewrite <- HE; cbn [s_stk upd];
               apply set_nth_words; [constructor; [apply znth_word; assumption|inv_words; assumption]|inv_words; assumption]
           end; fail 1);
      try (destruct (s_stk st) as [|a [|b [|d r]]] eqn:Es);
      repeat match goal with |- context [if ?b then _ else _] => destruct b end;
      intros HE; try discriminate; apply Next_inj in HE; rewrite <- HE; cbn [s_stk upd]; inv_words;
      repeat first [assumption | apply wpush_words | constructor | apply znth_word | rewrite Es ].
  Qed.

  Lemma step_refine st : Forall word (s_stk st) ->
    step impl_op valid_jumpdest hash E P c input st = step spec_op jd2 hash E P c input st.
  Proof.
    intros Hw. unfold step.
    repeat match goal with
           | |- (if ?b then _ else _) = (if ?b then _ else _) => destruct b; [try reflexivity|try reflexivity]
           | |- (let x := _ in _) = _ => cbv zeta
           end.
    set (k := decode _).
    destruct k; try reflexivity;
      repeat match goal with
             | |- context [match ?x with _ => _ end] =>
                 lazymatch x with
                 | exec _ _ _ _ _ _ _ _ _ => fail
                 | context [match _ with _ => _ end] => fail
                 | _ => destruct x
                 end
             end; try reflexivity; apply exec_refine; cbn [s_stk]; assumption.
  Qed.

  Lemma step_words st st' : Forall word (s_stk st) ->
    step spec_op jd2 hash E P c input st = Next st' -> Forall word (s_stk st').
  Proof.
    intros Hw H. unfold step in H. cbv zeta in H.
    set (k := decode _) in H.
    repeat match type of H with
           | context [match ?x with _ => _ end] =>
               lazymatch x with
               | exec _ _ _ _ _ _ _ _ _ => fail
               | context [match _ with _ => _ end] => fail
               | _ => destruct x
               end
           end; try discriminate;
      (eapply exec_words; [|exact H]; cbn [s_stk]; assumption).
  Qed.

  Lemma run_refine fuel : forall st, Forall word (s_stk st) ->
    run impl_op valid_jumpdest hash E P c input fuel st = run spec_op jd2 hash E P c input fuel st.
  Proof.
    induction fuel as [|n IH]; intros st Hw; [reflexivity|].
    cbn [run]. rewrite step_refine by assumption.
    destruct (step spec_op jd2 hash E P c input st) eqn:Est; [|reflexivity].
    apply IH. eapply step_words; eassumption.
  Qed.

End Refine.

Theorem machine_refines jd2 hash E P c input :
  clen c <= U64 ->
  (forall d, 0 <= d -> (jd2 c d = true <-> d < clen c /\ cnth c d = 91 /\ boundary c d)) ->
  forall fuel gas,
    call impl_op valid_jumpdest hash E P c input fuel gas = call spec_op jd2 hash E P c input fuel gas.
Proof.
  intros Hlen Hjd fuel gas. unfold call.
  destruct c eqn:Ec; [reflexivity|]. rewrite <- Ec in *.
  apply run_refine; [assumption|assumption|constructor].
Qed.

(* the specification run keeps every stack slot a 256-bit word (the invariant used above) *)
Theorem spec_step_keeps_words jd2 hash E P c input st st' :
  Forall word (s_stk st) -> step spec_op jd2 hash E P c input st = Next st' -> Forall word (s_stk st').
Proof. apply step_words. Qed.
