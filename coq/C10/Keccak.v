(* Keccak-256 (original padding 0x01, rate 136) over 64-bit lanes held in [N]: copy of the executable
   specification used by C02/C07 (not imported, to keep the cones separate). It instantiates the [hash]
   parameter of the C10 machines when they are evaluated against the implementation; it is validated by the
   compared KECCAK256 results and the known vectors below, not proved against a bit-level specification. *)
From Coq Require Import String List NArith Bool.
From V.Base Require Import Hex BigEndian.
Import ListNotations.
Local Open Scope N_scope.

Definition mask64 : N := 18446744073709551615.

Definition rotl (x : N) (n : N) : N :=
  if n =? 0 then x
  else N.lor (N.land (N.shiftl x n) mask64) (N.shiftr x (64 - n)).

Definition lane (s : list N) (i : nat) : N := nth i s 0.

Definition RC : list N :=
  [ 0x0000000000000001; 0x0000000000008082; 0x800000000000808A; 0x8000000080008000;
    0x000000000000808B; 0x0000000080000001; 0x8000000080008081; 0x8000000000008009;
    0x000000000000008A; 0x0000000000000088; 0x0000000080008009; 0x000000008000000A;
    0x000000008000808B; 0x800000000000008B; 0x8000000000008089; 0x8000000000008003;
    0x8000000000008002; 0x8000000000000080; 0x000000000000800A; 0x800000008000000A;
    0x8000000080008081; 0x8000000000008080; 0x0000000080000001; 0x8000000080008008 ].

(* rotation offsets r[x + 5y] *)
Definition ROT : list N :=
  [ 0; 1; 62; 28; 27;
    36; 44; 6; 55; 20;
    3; 10; 43; 25; 39;
    41; 45; 15; 21; 8;
    18; 2; 61; 56; 14 ].

Definition idx5 : list nat := [0; 1; 2; 3; 4]%nat.
Definition idx25 : list nat := seq 0 25.

Definition theta (a : list N) : list N :=
  let c := map (fun x : nat => N.lxor (lane a x) (N.lxor (lane a (x + 5)%nat) (N.lxor (lane a (x + 10)%nat)
                          (N.lxor (lane a (x + 15)%nat) (lane a (x + 20)%nat))))) idx5 in
  let d := map (fun x : nat => N.lxor (lane c (Nat.modulo (x + 4) 5)) (rotl (lane c (Nat.modulo (x + 1) 5)) 1)) idx5 in
  map (fun i : nat => N.lxor (lane a i) (lane d (Nat.modulo i 5))) idx25.

(* B[y, 2x+3y] = rot(A[x,y]);  inverse: B[X,Y] with X = y, Y = 2x+3y  =>  x = (X + 3Y) mod 5, y = X *)
Definition rho_pi (a : list N) : list N :=
  map (fun j : nat => let X := Nat.modulo j 5 in let Y := Nat.div j 5 in
                let x := Nat.modulo (X + 3 * Y) 5 in let y := X in
                let i := (x + 5 * y)%nat in
                rotl (lane a i) (nth i ROT 0)) idx25.

Definition chi (b : list N) : list N :=
  map (fun j : nat => let x := Nat.modulo j 5 in let y5 := (5 * Nat.div j 5)%nat in
                N.lxor (lane b j)
                  (N.land (N.lxor (lane b (y5 + Nat.modulo (x + 1) 5)%nat) mask64) (lane b (y5 + Nat.modulo (x + 2) 5)%nat))) idx25.

Definition iota (rc : N) (a : list N) : list N :=
  match a with x :: r => N.lxor x rc :: r | [] => [] end.

Definition round (a : list N) (rc : N) : list N := iota rc (chi (rho_pi (theta a))).

Definition keccak_f (a : list N) : list N := fold_left round RC a.

Definition rate : nat := 136.

(* pad10*1 with domain byte 0x01 *)
Definition pad (m : bytes) : bytes :=
  let r := (rate - Nat.modulo (length m) rate)%nat in   (* 1..136 bytes of padding *)
  match r with
  | 1%nat => m ++ [129]
  | _ => m ++ [1] ++ repeat 0 (r - 2) ++ [128]
  end.

Fixpoint lanes_of (fuel : nat) (b : bytes) : list N :=
  match fuel with
  | O => []
  | S f => le_val (firstn 8 b) :: lanes_of f (skipn 8 b)
  end.

Fixpoint xor_in (s blk : list N) : list N :=
  match s, blk with
  | x :: s', y :: b' => N.lxor x y :: xor_in s' b'
  | _, [] => s
  | [], _ => []
  end.

Fixpoint absorb (fuel : nat) (s : list N) (m : bytes) : list N :=
  match fuel with
  | O => s
  | S f =>
    match m with
    | [] => s
    | _ => absorb f (keccak_f (xor_in s (lanes_of 17 (firstn rate m)))) (skipn rate m)
    end
  end.

Definition lane_bytes (x : N) : bytes :=
  map (fun i : nat => N.land (N.shiftr x (8 * N.of_nat i)) 255) (seq 0 8).

Definition keccak256 (m : bytes) : bytes :=
  let p := pad m in
  let s := absorb (S (Nat.div (length p) rate)) (repeat 0 25) p in
  concat (map lane_bytes (firstn 4 s)).

Example keccak256_empty :
  hex (keccak256 []) = "c5d2460186f7233c927e7db2dcc703c0e500b653ca82273b7bfad8045d85a470"%string.
Proof. vm_compute. reflexivity. Qed.

(* keccak256(0x80) = root of the empty trie (emptyRoot in trie.go) *)
Example keccak256_rlp_empty :
  hex (keccak256 [128]) = "56e81f171bcc55a6ff8345e692c0f86e5b48e01b996cadc001622fb5e363b421"%string.
Proof. vm_compute. reflexivity. Qed.

(* "abc" *)
Example keccak256_abc :
  hex (keccak256 [97; 98; 99]) = "4e03657aea45a94fc7d47ba826c8d667c0d1e6e33a64a036ec44f58fa12d6c45"%string.
Proof. vm_compute. reflexivity. Qed.
