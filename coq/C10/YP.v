(* C10 — specification machine written from the Yellow Paper (section 9.4, appendix H) and
   EIP-145 / EIP-3855 (PUSH0) / EIP-5656 (MCOPY), independently of the interpreter-shaped model of
   Machine.v: it has its own instruction decoding by opcode number, its own delta/alpha table, memory
   as a total byte map mu_m : Z -> Z with the active-word counter mu_i, the jump-destination set
   D(c) by the recursion D_J / N(i, w), and no gas (the gas-free projection of mu).

   Shared with the rest of C10: only the word-operation specification [spec_op] (itself the
   appendix-H arithmetic) and the environment record. *)
From Coq Require Import ZArith List Bool Lia.
From V.C10 Require Import Model Machine.
Import ListNotations.
Local Open Scope Z_scope.

Record ystate := mkY {
  y_pc : Z;            (* mu_pc *)
  y_s : list Z;        (* mu_s, head = mu_s[0] *)
  y_m : Z -> Z;        (* mu_m, a byte at every address; all zero initially *)
  y_i : Z;             (* mu_i, number of active 32-byte words *)
  y_o : list Z         (* mu_o, output of the last call; empty before the first call *)
}.

Inductive yres :=
| YNext (y : ystate)           (* execution continues *)
| YStop                        (* normal halt, empty output *)
| YReturn (o : list Z)         (* normal halt with output H_RETURN *)
| YRevert (o : list Z)         (* REVERT with output *)
| YExc                         (* exceptional halt Z(sigma, mu, I), gas clause projected away *)
| YOutside (w : Z).            (* instruction outside the gas-free computational set (GAS, storage, calls, ...) *)

Definition len (l : list Z) : Z := Z.of_nat (length l).
(* I_b[x] / I_d[x], zero beyond the end *)
Definition byte_at (l : list Z) (x : Z) : Z :=
  if (0 <=? x) && (x <? len l) then nth (Z.to_nat x) l 0 else 0.

Definition ceil32 (x : Z) : Z := (x + 31) / 32.
(* M(s, f, l): memory expansion for a range *)
Definition Mx (s f l : Z) : Z := if l =? 0 then s else Z.max s (ceil32 (f + l)).
Definition mread (m : Z -> Z) (a n : Z) : list Z := map (fun k => m (a + Z.of_nat k)) (seq 0 (Z.to_nat n)).
Definition mwrite (m : Z -> Z) (a n : Z) (f : Z -> Z) : Z -> Z :=
  fun x => if (a <=? x) && (x <? a + n) then f (x - a) else m x.
Definition bigend (bs : list Z) : Z := fold_left (fun acc b => acc * 256 + b) bs 0.
(* byte k (0 = most significant) of a 256-bit value *)
Definition word_byte (v k : Z) : Z := (v / 256 ^ (31 - k)) mod 256.
(* SWAPn: exchange mu_s[0] and mu_s[n] *)
Definition yswap (s : list Z) (n : Z) : list Z :=
  map (fun k => let z := Z.of_nat k in
                if z =? 0 then nth (Z.to_nat n) s 0 else if z =? n then nth 0 s 0 else nth k s 0)
      (seq 0 (length s)).

(* N(i, w): next valid instruction position *)
Definition Nn (i w : Z) : Z := if (96 <=? w) && (w <=? 127) then i + (w - 96) + 2 else i + 1.

(* appendix H.2 opcode numbers of the word operations, with their arity *)
Definition arith_of (w : Z) : option (op * Z) :=
  if w =? 1 then Some (ADD, 2) else if w =? 2 then Some (MUL, 2) else if w =? 3 then Some (SUB, 2)
  else if w =? 4 then Some (DIV, 2) else if w =? 5 then Some (SDIV, 2) else if w =? 6 then Some (MOD, 2)
  else if w =? 7 then Some (SMOD, 2) else if w =? 8 then Some (ADDMOD, 3) else if w =? 9 then Some (MULMOD, 3)
  else if w =? 10 then Some (EXP, 2) else if w =? 11 then Some (SIGNEXTEND, 2)
  else if w =? 16 then Some (LT, 2) else if w =? 17 then Some (GT, 2) else if w =? 18 then Some (SLT, 2)
  else if w =? 19 then Some (SGT, 2) else if w =? 20 then Some (EQ, 2) else if w =? 21 then Some (ISZERO, 1)
  else if w =? 22 then Some (AND, 2) else if w =? 23 then Some (OR, 2) else if w =? 24 then Some (XOR, 2)
  else if w =? 25 then Some (NOT, 1) else if w =? 26 then Some (BYTE, 2) else if w =? 27 then Some (SHL, 2)
  else if w =? 28 then Some (SHR, 2) else if w =? 29 then Some (SAR, 2)
  else None.

Definition env_of (w : Z) : option envk :=
  if w =? 48 then Some EAddress else if w =? 50 then Some EOrigin else if w =? 51 then Some ECaller
  else if w =? 52 then Some ECallValue else if w =? 58 then Some EGasPrice else if w =? 65 then Some ECoinbase
  else if w =? 66 then Some ETimestamp else if w =? 67 then Some ENumber else if w =? 68 then Some EDifficulty
  else if w =? 69 then Some EGasLimit else if w =? 70 then Some EChainId else if w =? 71 then Some ESelfBalance
  else None.

(* (delta_w, alpha_w): items removed / added *)
Definition delta_alpha (w : Z) : option (Z * Z) :=
  match arith_of w with
  | Some (_, a) => Some (a, 1)
  | None =>
    match env_of w with
    | Some _ => Some (0, 1)
    | None =>
      if w =? 0 then Some (0, 0)                                          (* STOP *)
      else if w =? 32 then Some (2, 1)                                    (* KECCAK256 *)
      else if w =? 53 then Some (1, 1)                                    (* CALLDATALOAD *)
      else if (w =? 54) || (w =? 56) || (w =? 61) then Some (0, 1)        (* CALLDATASIZE CODESIZE RETURNDATASIZE *)
      else if (w =? 55) || (w =? 57) || (w =? 62) || (w =? 94) then Some (3, 0)   (* *COPY, MCOPY *)
      else if w =? 80 then Some (1, 0)                                    (* POP *)
      else if w =? 81 then Some (1, 1)                                    (* MLOAD *)
      else if (w =? 82) || (w =? 83) then Some (2, 0)                     (* MSTORE MSTORE8 *)
      else if w =? 86 then Some (1, 0)                                    (* JUMP *)
      else if w =? 87 then Some (2, 0)                                    (* JUMPI *)
      else if (w =? 88) || (w =? 89) || (w =? 90) || (w =? 95) then Some (0, 1)   (* PC MSIZE GAS PUSH0 *)
      else if w =? 91 then Some (0, 0)                                    (* JUMPDEST *)
      else if (96 <=? w) && (w <=? 127) then Some (0, 1)                  (* PUSHn *)
      else if (128 <=? w) && (w <=? 143) then Some (w - 127, w - 127 + 1) (* DUPn *)
      else if (144 <=? w) && (w <=? 159) then Some (w - 143 + 1, w - 143 + 1)     (* SWAPn *)
      else if w =? 241 then Some (7, 1)                                   (* CALL *)
      else if w =? 250 then Some (6, 1)                                   (* STATICCALL *)
      else if (w =? 243) || (w =? 253) then Some (2, 0)                   (* RETURN REVERT *)
      else None
    end
  end.

Section YP.
  (* the word operations of appendix H.2; the theorems instantiate this with [spec_op], the correspondence run with
     the evaluation-friendly variant (Z.pow with a 256-bit exponent cannot be evaluated) *)
  Variable wop : op -> Z -> Z -> Z -> Z.
  Variable defined : Z -> bool.      (* the instructions of the fork: delta_w is defined *)
  Variable hash : list Z -> Z.       (* KEC, as a number *)
  Variable E : env.                  (* I_a, I_o, I_s, I_v, I_p, I_H fields, chain id, sigma[I_a]_b *)
  Variable Ib : list Z.              (* the code being run *)
  Variable Id : list Z.              (* the input data *)

  (* w = I_b[mu_pc] if mu_pc < |I_b|, STOP otherwise *)
  Definition cur_op (pc : Z) : Z := byte_at Ib pc.

  (* D(c) = D_J(c, 0);  D_J(c, i) = {} if i >= |c|, {i} u D_J(c, N(i, c[i])) if c[i] = JUMPDEST,
     D_J(c, N(i, c[i])) otherwise — as a membership test; N strictly increases, so |c| unfoldings suffice *)
  Fixpoint DJ (fuel : nat) (i d : Z) : bool :=
    match fuel with
    | O => false
    | S k =>
      if len Ib <=? i then false
      else if (byte_at Ib i =? 91) && (i =? d) then true
      else DJ k (Nn i (byte_at Ib i)) d
    end.
  Definition in_D (d : Z) : bool := DJ (length Ib) 0 d.

  (* message call to the identity precompile (address 4, appendix E: output = input), no value, assumed to have been
     given enough gas: mu_o := the input, the first min(outsize, |o|) bytes of it go to the output area, both ranges
     count for mu_i, 1 is pushed.  Any other callee is outside the machine. *)
  Definition ycall (to ioff isz roff rsz : Z) (rest : list Z) (y : ystate) (w : Z) : yres :=
    let m := y_m y in
    if negb (to mod 2 ^ 160 =? 4) then YOutside w
    else
      let o := mread m ioff isz in
      let m' := mwrite m roff (Z.min rsz isz) (fun k => m (ioff + k)) in
      YNext (mkY (y_pc y + 1) (1 :: rest) m' (Mx (Mx (y_i y) ioff isz) roff rsz) o).

  Definition sem (w : Z) (y : ystate) : yres :=
    let s := y_s y in let pc := y_pc y in let m := y_m y in let i := y_i y in let o := y_o y in
    let s0 := nth 0 s 0 in let s1 := nth 1 s 0 in let s2 := nth 2 s 0 in
    let cont stk := YNext (mkY (pc + 1) stk m i o) in
    match arith_of w with
    | Some (o, a) =>
        if a =? 1 then cont (wop o s0 0 0 :: skipn 1 s)
        else if a =? 2 then cont (wop o s0 s1 0 :: skipn 2 s)
        else cont (wop o s0 s1 s2 :: skipn 3 s)
    | None =>
    match env_of w with
    | Some k => cont (env_get E k :: s)
    | None =>
      if w =? 0 then YStop
      else if w =? 32 then YNext (mkY (pc + 1) (hash (mread m s0 s1) :: skipn 2 s) m (Mx i s0 s1) o)
      else if w =? 53 then cont (bigend (mread (byte_at Id) s0 32) :: skipn 1 s)
      else if w =? 54 then cont (len Id :: s)
      else if w =? 55 then YNext (mkY (pc + 1) (skipn 3 s) (mwrite m s0 s2 (fun k => byte_at Id (s1 + k))) (Mx i s0 s2) o)
      else if w =? 56 then cont (len Ib :: s)
      else if w =? 57 then YNext (mkY (pc + 1) (skipn 3 s) (mwrite m s0 s2 (fun k => byte_at Ib (s1 + k))) (Mx i s0 s2) o)
      else if w =? 61 then cont (len o :: s)                               (* |mu_o| *)
      else if w =? 62 then if len o <? s1 + s2 then YExc                   (* mu_s[1] + mu_s[2] > |mu_o| *)
                           else YNext (mkY (pc + 1) (skipn 3 s) (mwrite m s0 s2 (fun k => byte_at o (s1 + k))) (Mx i s0 s2) o)
      else if w =? 80 then cont (skipn 1 s)
      else if w =? 81 then YNext (mkY (pc + 1) (bigend (mread m s0 32) :: skipn 1 s) m (Z.max i (ceil32 (s0 + 32))) o)
      else if w =? 82 then YNext (mkY (pc + 1) (skipn 2 s) (mwrite m s0 32 (word_byte s1)) (Z.max i (ceil32 (s0 + 32))) o)
      else if w =? 83 then YNext (mkY (pc + 1) (skipn 2 s) (mwrite m s0 1 (fun _ => s1 mod 256)) (Z.max i (ceil32 (s0 + 1))) o)
      else if w =? 86 then if in_D s0 then YNext (mkY s0 (skipn 1 s) m i o) else YExc
      else if w =? 87 then if s1 =? 0 then YNext (mkY (pc + 1) (skipn 2 s) m i o)
                           else if in_D s0 then YNext (mkY s0 (skipn 2 s) m i o) else YExc
      else if w =? 88 then cont (pc :: s)
      else if w =? 89 then cont (32 * i :: s)
      else if w =? 91 then cont s
      else if w =? 94 then YNext (mkY (pc + 1) (skipn 3 s) (mwrite m s0 s2 (fun k => m (s1 + k))) (Mx i (Z.max s0 s1) s2) o)
      else if w =? 95 then cont (0 :: s)
      else if (96 <=? w) && (w <=? 127) then
        let n := w - 95 in
        YNext (mkY (pc + n + 1) (bigend (mread (byte_at Ib) (pc + 1) n) :: s) m i o)
      else if (128 <=? w) && (w <=? 143) then cont (nth (Z.to_nat (w - 128)) s 0 :: s)
      else if (144 <=? w) && (w <=? 159) then cont (yswap s (w - 143))
      else if w =? 250 then                                                (* STATICCALL: gas, to, in, insize, out, outsize *)
        ycall (nth 1 s 0) (nth 2 s 0) (nth 3 s 0) (nth 4 s 0) (nth 5 s 0) (skipn 6 s) y w
      else if w =? 241 then                                                (* CALL: gas, to, value, in, insize, out, outsize *)
        if nth 2 s 0 =? 0 then ycall (nth 1 s 0) (nth 3 s 0) (nth 4 s 0) (nth 5 s 0) (nth 6 s 0) (skipn 7 s) y w
        else YOutside w
      else if w =? 243 then YReturn (mread m s0 s1)
      else if w =? 253 then YRevert (mread m s0 s1)
      else YOutside w
    end end.

  Definition ystep (y : ystate) : yres :=
    let w := cur_op (y_pc y) in
    if negb (defined w) then YExc                                  (* delta_w undefined *)
    else match delta_alpha w with
         | None => YOutside w
         | Some (dl, al) =>
           let n := len (y_s y) in
           if n <? dl then YExc                                    (* ||mu_s|| < delta_w *)
           else if 1024 <? n - dl + al then YExc                   (* ||mu_s|| - delta_w + alpha_w > 1024 *)
           else sem w y
         end.

  (* [YNext y] as a result of [yrun] means: still running after [fuel] instructions, in state y *)
  Fixpoint yrun (fuel : nat) (y : ystate) : yres :=
    match fuel with
    | O => YNext y
    | S k => match ystep y with
             | YNext y' => yrun k y'
             | r => r
             end
    end.

  Definition y0 : ystate := mkY 0 [] (fun _ => 0) 0 [].
End YP.
