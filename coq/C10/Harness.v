(* Evaluation of the C10 model on harness-written cases (correspondence check). *)
From Coq Require Import List ZArith NArith String Bool.
From V.Base Require Import Hex.
From V.C10 Require Import Model Machine Fast Keccak YP Sim.
Import ListNotations.
Local Open Scope Z_scope.

Definition zbytes (h : string) : list Z := map Z.of_N (unhex h).

(* KECCAK-256 (Gallina, coq/C10/Keccak.v) as the [hash] parameter of both machines *)
Definition khash (bs : list Z) : Z := be_word (map Z.of_N (keccak256 (map Z.to_N bs))).

Fixpoint zlist_eqb (a b : list Z) : bool :=
  match a, b with
  | [], [] => true
  | x :: a', y :: b' => (x =? y) && zlist_eqb a' b'
  | _, _ => false
  end.

(* observed result of a program run on the real EVM *)
Inductive pobs :=
| PStop (gas : Z) | PRet (data : string) (gas : Z) | PRev (data : string) (gas : Z) | PFail (code : Z).

Definition err_code (e : err) : Z :=
  match e with
  | EInvalidOp => 1 | EUnderflow => 2 | EOverflow => 3 | EOOG => 4 | EGasOverflow => 5 | EBadJump => 6
  | ERetDataOOB => 7
  end.

Definition obs_eqb (o : outcome) (p : pobs) : bool :=
  match o, p with
  | OStop g, PStop g' => g =? g'
  | OStop g, PRet d' g' => zlist_eqb [] (zbytes d') && (g =? g')   (* STOP and RETURN of 0 bytes look alike from outside *)
  | OReturn d g, PRet d' g' => zlist_eqb d (zbytes d') && (g =? g')
  | ORevert d g, PRev d' g' => zlist_eqb d (zbytes d') && (g =? g')
  | OFail e, PFail c => err_code e =? c
  | _, _ => false
  end.

Definition op_of_code (b : Z) : option op :=
  match decode b with
  | KArith2 o | KArith3 o | KArith1 o => Some o
  | _ => None
  end.

(* spec_op is evaluated directly except for EXP with an exponent above 8 (Z.pow on unary-iterated
   binary positives takes minutes for a 255-th power of a dense word) and for shifts by 600 or more (the
   specification's 2 ^ x does not fit in memory); op_correct covers those cases. *)
Definition spec_agrees (o : op) (x y z r : Z) : bool :=
  match o with
  | EXP => if y <? 9 then spec_op o x y z =? r else true
  | SHL | SHR | SAR => if x <? 600 then spec_op o x y z =? r else true   (* 2 ^ x is materialised by the specification *)
  | _ => spec_op o x y z =? r
  end.

(* bit vector of codeBitmap as bytes, MSB first *)
Definition pack_byte (f : bitfn) (j : Z) : Z :=
  fold_left (fun acc b => acc * 2 + b2z (f (8 * j + Z.of_nat b))) (seq 0 8) 0.
Definition bitmap_bytes_of (f : bitfn) (c : code) : list Z :=
  map (fun j => pack_byte f (Z.of_nat j)) (seq 0 (Z.to_nat (clen c / 8 + 1 + 4))).

(* specification side, written independently of the bit vector: one pass over the code that marks
   every instruction start (skip = number of push-data bytes still to pass) *)
Fixpoint starts (l : list Z) (skip : Z) : list bool :=
  match l with
  | [] => []
  | b :: r => if 0 <? skip then false :: starts r (skip - 1) else true :: starts r (push_len b)
  end.
Definition spec_jumpdest_tbl (c : code) : Z -> bool :=
  let st := starts c 0 in
  let n := clen c in
  (* [if], not [&&]: the VM is call-by-value and Z.to_nat of a 200-bit destination must never be built *)
  fun d => if (0 <=? d) && (d <? n) then (cnth c d =? 91) && nth (Z.to_nat d) st false else false.

(* the Yellow-Paper machine on the same program: compared with the observed run on the gas-free projection.
   Its word operations are evaluated through [fast_op] (= impl_op = spec_op on words, Fast.fast_op_eq and
   Proofs.op_correct): spec_op's Z.pow / 2^shift cannot be evaluated for 256-bit exponents. *)
Definition defined_of (P : params) (w : Z) : bool := r_def (znth (p_tab P) w no_row).
Definition ycheck (P : params) (E : env) (c input : list Z) (fuel : nat) (p : pobs) : bool :=
  match p with
  | PFail 4 | PFail 5 => true      (* out of gas / gas overflow: projected away; the gas-free machine is not even run
                                      (it would go on, e.g. into a RETURN of 2^64 bytes) *)
  | _ =>
    match yrun fast_op (defined_of P) khash E c input fuel y0, p with
    | YOutside _, _ => true                       (* GAS or an instruction outside the gas-free set *)
    | YStop, PStop _ => true
    | YStop, PRet d _ => zlist_eqb [] (zbytes d)
    | YReturn o, PRet d _ => zlist_eqb o (zbytes d)
    | YRevert o, PRev d _ => zlist_eqb o (zbytes d)
    | YExc, PFail _ => true
    | _, _ => false
    end
  end.

Inductive ccase :=
| COp (opcode x y z : Z) (result : Z)
| CProg (code input : string) (gas : Z) (E : env) (obs : pobs)
| CProgImpl (code input : string) (gas : Z) (E : env) (obs : pobs)   (* interpreter-shaped model only: runs on which the
     ghost monitor fires (identity call with overlapping areas), where the Yellow-Paper machine is expected to differ *)
| CRd (kind : Z) (out observed : string)   (* one callee frame of the given ending; RETURNDATACOPY of the whole buffer *)
| CTable
| CJump (code bitmap : string) (dests : list (Z * bool)).

Definition check (P : params) (cs : ccase) : bool :=
  match cs with
  | COp b x y z r =>
      match op_of_code b with
      | Some o => wordb x && wordb y && wordb z && (impl_op o x y z =? r) && (fast_op o x y z =? r) && spec_agrees o x y z r
      | None => false
      end
  | CProg code input gas E obs =>
      let c := zbytes code in
      let inp := zbytes input in
      (* run_fast = run_impl (Fast.run_fast_eq); every non-halting step costs at least 1 gas, so gas + 2 iterations
         always suffice; the cap keeps the fuel numeral small (the harness generates programs well below it) *)
      let fuel := (Z.to_nat (Z.min gas 40000) + 2)%nat in
      let '(o, maxh) := run_fast khash E P c inp fuel gas in
      obs_eqb o obs && (maxh <=? 1024) && ycheck P E c inp fuel obs
  | CProgImpl code input gas E obs =>
      let c := zbytes code in
      let inp := zbytes input in
      let fuel := (Z.to_nat (Z.min gas 40000) + 2)%nat in
      let '(o, maxh) := run_fast khash E P c inp fuel gas in
      obs_eqb o obs && (maxh <=? 1024)
  | CRd k out observed =>
      let o := zbytes out in
      let e := if k =? 0 then FCallOk o else if k =? 1 then FCallRevert o else if k =? 2 then FCallFail
               else if k =? 3 then FCreateOk else if k =? 4 then FCreateRevert o else FCreateFail in
      zlist_eqb (rd_after e) (zbytes observed)
  | CTable => table_ok (defined_of P) P
  | CJump code bm dests =>
      let c := zbytes code in
      let f := code_bitmap c in
      let jd := jd_cached c in               (* = valid_jumpdest c (Fast.jd_cached_eq) *)
      let sj := spec_jumpdest_tbl c in
      zlist_eqb (bitmap_bytes_of f c) (zbytes bm)
      && forallb (fun dv => Bool.eqb (jd (fst dv)) (snd dv) && Bool.eqb (sj (fst dv)) (snd dv)) dests
  end.

Definition R (d : bool) (g mn mx : Z) : row := mkRow d g mn mx.
