(* C10 — proofs: impl_op = spec_op for every opcode and every 256-bit operand. *)
From Coq Require Import ZArith List Bool Lia Zpow_facts.
From V.C10 Require Import Model.
Import ListNotations.
Local Open Scope Z_scope.

Lemma W_pos : 0 < W. Proof. reflexivity. Qed.
Lemma W_val : W = 2 ^ 256. Proof. reflexivity. Qed.
Lemma HALF_val : HALF = 2 ^ 255. Proof. reflexivity. Qed.
Lemma W_HALF : W = 2 * HALF. Proof. reflexivity. Qed.
Lemma HALF_pos : 0 < HALF. Proof. reflexivity. Qed.
Global Opaque W HALF U64.

Ltac word_facts := pose proof W_pos; pose proof HALF_pos; pose proof W_HALF.

(* ---- unsigned division / modulo -------------------------------------------------------------- *)

Lemma u_div_spec x y : 0 <= x -> 0 <= y -> u_div x y = if y =? 0 then 0 else x / y.
Proof.
  intros Hx Hy. unfold u_div, u_gt, u_lt.
  destruct (Z.eqb_spec y 0) as [->|Hy0]; cbn [orb]; [reflexivity|].
  destruct (Z.ltb_spec x y); cbn [orb].
  - symmetry. apply Z.div_small. lia.
  - destruct (Z.eqb_spec x y) as [->|]; [|reflexivity].
    symmetry. apply Z_div_same_full. exact Hy0.
Qed.

Lemma u_mod_spec x y : 0 <= x -> 0 <= y -> u_mod x y = if y =? 0 then 0 else x mod y.
Proof.
  intros Hx Hy. unfold u_mod.
  destruct (Z.eqb_spec y 0) as [->|Hy0].
  - rewrite orb_true_r. reflexivity.
  - rewrite orb_false_r.
    destruct (Z.eqb_spec x 0) as [->|Hx0]; [symmetry; apply Z.mod_0_l; exact Hy0|].
    destruct (Z.compare_spec x y) as [->|Hlt|Hgt].
    + symmetry. apply Z_mod_same_full.
    + symmetry. apply Z.mod_small. lia.
    + reflexivity.
Qed.

Lemma u_neg_spec x : word x -> u_neg x = if x =? 0 then 0 else W - x.
Proof.
  unfold word, u_neg, u_sub. intros Hx. word_facts.
  destruct (Z.eqb_spec x 0) as [->|Hx0]; [reflexivity|].
  replace (0 - x) with ((W - x) + (-1) * W) by lia. rewrite Z.mod_add by lia.
  apply Z.mod_small. lia.
Qed.

(* magnitude of the signed interpretation *)
Lemma to_signed_nonneg x : word x -> x < HALF -> to_signed x = x.
Proof. unfold to_signed. intros _ H. destruct (Z.ltb_spec x HALF); lia. Qed.
Lemma to_signed_neg x : word x -> HALF <= x -> to_signed x = x - W.
Proof. unfold to_signed. intros _ H. destruct (Z.ltb_spec x HALF); lia. Qed.

Lemma u_sign_cases x : word x ->
  (x = 0 /\ u_sign x = 0) \/ (0 < x < HALF /\ u_sign x = 1) \/ (HALF <= x /\ u_sign x = -1).
Proof.
  unfold word, u_sign. intros Hx. word_facts.
  destruct (Z.eqb_spec x 0); [left; lia|].
  destruct (Z.ltb_spec x HALF); [right; left; lia | right; right; lia].
Qed.

Lemma of_signed_small v : 0 <= v < W -> of_signed v = v.
Proof. unfold of_signed. intros. apply Z.mod_small. lia. Qed.
Lemma of_signed_opp v : 0 < v <= W -> of_signed (- v) = W - v.
Proof.
  unfold of_signed. intros. replace (- v) with ((W - v) + (-1) * W) by lia.
  rewrite Z.mod_add by lia. apply Z.mod_small. lia.
Qed.
Lemma of_signed_opp0 v : 0 <= v < W -> of_signed (- v) = if v =? 0 then 0 else W - v.
Proof.
  intros. destruct (Z.eqb_spec v 0) as [->|]; [reflexivity|]. apply of_signed_opp. lia.
Qed.

Lemma div_le_self a b : 0 <= a -> 0 < b -> 0 <= a / b <= a.
Proof.
  intros. split; [apply Z.div_pos; lia|].
  apply Z.div_le_upper_bound; [lia|]. nia.
Qed.

Lemma u_neg_of_signed q : u_neg q = of_signed (- q).
Proof. unfold u_neg, u_sub, of_signed. f_equal. Qed.

Lemma u_neg_word x : word x -> u_neg x = if x =? 0 then 0 else W - x.
Proof. exact (u_neg_spec x). Qed.

Lemma sdiv_correct x y z : word x -> word y -> impl_op SDIV x y z = spec_op SDIV x y z.
Proof.
  intros Hx Hy. cbn [impl_op spec_op]. unfold u_sdiv. word_facts.
  pose proof Hx as Hx'. pose proof Hy as Hy'. unfold word in Hx', Hy'.
  destruct (u_sign_cases x Hx) as [[-> Sx]|[[Hxr Sx]|[Hxr Sx]]];
  destruct (u_sign_cases y Hy) as [[-> Sy]|[[Hyr Sy]|[Hyr Sy]]];
  rewrite ?Sx, ?Sy; cbn [Z.ltb Z.compare Z.eqb].
  - (* 0 / 0 *) reflexivity.
  - (* 0 / pos *)
    destruct (Z.eqb_spec y 0); [lia|].
    rewrite (u_neg_word 0) by (unfold word; lia). cbn [Z.eqb].
    rewrite u_div_spec by lia. destruct (Z.eqb_spec y 0); [lia|].
    rewrite Z.div_0_l by lia. rewrite to_signed_nonneg by (unfold word; lia).
    rewrite Z.quot_0_l; [reflexivity|]. rewrite to_signed_nonneg by (unfold word; lia). lia.
  - (* 0 / neg *)
    destruct (Z.eqb_spec y 0); [lia|].
    rewrite (u_neg_word 0) by (unfold word; lia). cbn [Z.eqb].
    rewrite (u_neg_word y) by (unfold word; lia). destruct (Z.eqb_spec y 0); [lia|].
    rewrite u_div_spec by lia. destruct (Z.eqb_spec (W - y) 0); [lia|].
    rewrite Z.div_0_l by lia. rewrite (to_signed_nonneg 0) by (unfold word; lia).
    rewrite Z.quot_0_l; [reflexivity|]. rewrite to_signed_neg by (unfold word; lia). lia.
  - (* pos / 0 *)
    rewrite (u_neg_word 0) by (unfold word; lia). cbn [Z.eqb].
    rewrite u_div_spec by lia. reflexivity.
  - (* pos / pos *)
    destruct (Z.eqb_spec y 0); [lia|].
    rewrite u_div_spec by lia. destruct (Z.eqb_spec y 0); [lia|].
    rewrite !to_signed_nonneg by (unfold word; lia).
    rewrite Z.quot_div_nonneg by lia. pose proof (div_le_self x y). rewrite of_signed_small; lia.
  - (* pos / neg *)
    destruct (Z.eqb_spec y 0); [lia|].
    rewrite u_neg_of_signed. rewrite (u_neg_word y) by (unfold word; lia).
    destruct (Z.eqb_spec y 0); [lia|].
    rewrite u_div_spec by lia. destruct (Z.eqb_spec (W - y) 0); [lia|].
    rewrite to_signed_nonneg by (unfold word; lia). rewrite to_signed_neg by (unfold word; lia).
    replace (y - W) with (- (W - y)) by lia. rewrite Z.quot_opp_r by lia.
    rewrite Z.quot_div_nonneg by lia. reflexivity.
  - (* neg / 0 *)
    rewrite u_neg_of_signed. rewrite u_div_spec; [reflexivity| |lia].
    rewrite u_neg_word by (unfold word; lia). destruct (Z.eqb_spec x 0); lia.
  - (* neg / pos *)
    destruct (Z.eqb_spec y 0); [lia|].
    rewrite u_neg_of_signed. rewrite (u_neg_word x) by (unfold word; lia).
    destruct (Z.eqb_spec x 0); [lia|].
    rewrite u_div_spec by lia. destruct (Z.eqb_spec y 0); [lia|].
    rewrite to_signed_neg by (unfold word; lia). rewrite to_signed_nonneg by (unfold word; lia).
    replace (x - W) with (- (W - x)) by lia. rewrite Z.quot_opp_l by lia.
    rewrite Z.quot_div_nonneg by lia. reflexivity.
  - (* neg / neg *)
    destruct (Z.eqb_spec y 0); [lia|].
    rewrite (u_neg_word x), (u_neg_word y) by (unfold word; lia).
    destruct (Z.eqb_spec x 0); [lia|]. destruct (Z.eqb_spec y 0); [lia|].
    rewrite u_div_spec by lia. destruct (Z.eqb_spec (W - y) 0); [lia|].
    rewrite !to_signed_neg by (unfold word; lia).
    replace (x - W) with (- (W - x)) by lia. replace (y - W) with (- (W - y)) by lia.
    rewrite Z.quot_opp_opp by lia. rewrite Z.quot_div_nonneg by lia.
    pose proof (div_le_self (W - x) (W - y)). rewrite of_signed_small; lia.
Qed.

Lemma smod_correct x y z : word x -> word y -> impl_op SMOD x y z = spec_op SMOD x y z.
Proof.
  intros Hx Hy. cbn [impl_op spec_op]. unfold u_smod. word_facts.
  pose proof Hx as Hx'. pose proof Hy as Hy'. unfold word in Hx', Hy'.
  destruct (u_sign_cases x Hx) as [[-> Sx]|[[Hxr Sx]|[Hxr Sx]]];
  destruct (u_sign_cases y Hy) as [[-> Sy]|[[Hyr Sy]|[Hyr Sy]]];
  rewrite ?Sx, ?Sy; cbn [Z.eqb Pos.eqb].
  - reflexivity.
  - destruct (Z.eqb_spec y 0); [lia|]. rewrite u_mod_spec by lia.
    destruct (Z.eqb_spec y 0); [lia|]. rewrite Z.mod_0_l by lia.
    rewrite (to_signed_nonneg 0) by (unfold word; lia). rewrite Z.rem_0_l; [reflexivity|].
    rewrite to_signed_nonneg by (unfold word; lia). lia.
  - destruct (Z.eqb_spec y 0); [lia|]. rewrite (u_neg_word y) by (unfold word; lia).
    destruct (Z.eqb_spec y 0); [lia|]. rewrite u_mod_spec by lia.
    destruct (Z.eqb_spec (W - y) 0); [lia|]. rewrite Z.mod_0_l by lia.
    rewrite (to_signed_nonneg 0) by (unfold word; lia). rewrite Z.rem_0_l; [reflexivity|].
    rewrite to_signed_neg by (unfold word; lia). lia.
  - rewrite u_mod_spec by lia. reflexivity.
  - destruct (Z.eqb_spec y 0); [lia|]. rewrite u_mod_spec by lia.
    destruct (Z.eqb_spec y 0); [lia|]. rewrite !to_signed_nonneg by (unfold word; lia).
    rewrite Z.rem_mod_nonneg by lia. pose proof (Z.mod_pos_bound x y). rewrite of_signed_small; lia.
  - destruct (Z.eqb_spec y 0); [lia|]. rewrite (u_neg_word y) by (unfold word; lia).
    destruct (Z.eqb_spec y 0); [lia|]. rewrite u_mod_spec by lia.
    destruct (Z.eqb_spec (W - y) 0); [lia|].
    rewrite to_signed_nonneg by (unfold word; lia). rewrite to_signed_neg by (unfold word; lia).
    replace (y - W) with (- (W - y)) by lia. rewrite Z.rem_opp_r by lia.
    rewrite Z.rem_mod_nonneg by lia. pose proof (Z.mod_pos_bound x (W - y)). rewrite of_signed_small; lia.
  - rewrite u_neg_of_signed. rewrite u_mod_spec; [reflexivity| |lia].
    rewrite u_neg_word by (unfold word; lia). destruct (Z.eqb_spec x 0); lia.
  - destruct (Z.eqb_spec y 0); [lia|]. rewrite u_neg_of_signed.
    rewrite (u_neg_word x) by (unfold word; lia). destruct (Z.eqb_spec x 0); [lia|].
    rewrite u_mod_spec by lia. destruct (Z.eqb_spec y 0); [lia|].
    rewrite to_signed_neg by (unfold word; lia). rewrite to_signed_nonneg by (unfold word; lia).
    replace (x - W) with (- (W - x)) by lia. rewrite Z.rem_opp_l by lia.
    rewrite Z.rem_mod_nonneg by lia. reflexivity.
  - destruct (Z.eqb_spec y 0); [lia|]. rewrite u_neg_of_signed.
    rewrite (u_neg_word x), (u_neg_word y) by (unfold word; lia).
    destruct (Z.eqb_spec x 0); [lia|]. destruct (Z.eqb_spec y 0); [lia|].
    rewrite u_mod_spec by lia. destruct (Z.eqb_spec (W - y) 0); [lia|].
    rewrite !to_signed_neg by (unfold word; lia).
    replace (x - W) with (- (W - x)) by lia. replace (y - W) with (- (W - y)) by lia.
    rewrite Z.rem_opp_r by lia. rewrite Z.rem_opp_l by lia.
    rewrite Z.rem_mod_nonneg by lia. reflexivity.
Qed.

Lemma addmod_correct x y z : word x -> word y -> word z -> impl_op ADDMOD x y z = spec_op ADDMOD x y z.
Proof.
  unfold word. intros Hx Hy Hz. cbn [impl_op spec_op]. unfold u_addmod. word_facts.
  destruct (Z.eqb_spec z 0); [reflexivity|].
  destruct (Z.leb_spec W (x + y)); [reflexivity|].
  rewrite (Z.mod_small (x + y)) by lia. rewrite u_mod_spec by lia.
  destruct (Z.eqb_spec z 0); [lia|reflexivity].
Qed.

Lemma mulmod_correct x y z : word x -> word y -> word z -> impl_op MULMOD x y z = spec_op MULMOD x y z.
Proof.
  unfold word. intros Hx Hy Hz. cbn [impl_op spec_op]. unfold u_mulmod. word_facts.
  destruct (Z.eqb_spec z 0) as [->|Hz0]; [rewrite !orb_true_r; reflexivity|]. rewrite orb_false_r.
  destruct (Z.eqb_spec x 0) as [->|Hx0]; cbn [orb]; [rewrite Z.mul_0_l, Z.mod_0_l by lia; reflexivity|].
  destruct (Z.eqb_spec y 0) as [->|Hy0]; cbn [orb]; [rewrite Z.mul_0_r, Z.mod_0_l by lia; reflexivity|].
  destruct (Z.eqb_spec (x * y / W) 0) as [Hq|Hq]; [|reflexivity].
  assert (0 <= x * y) by nia.
  assert (x * y < W).
  { apply Z.div_small_iff in Hq; lia. }
  rewrite (Z.mod_small (x * y)) by lia. rewrite u_mod_spec by lia.
  destruct (Z.eqb_spec z 0); [lia|reflexivity].
Qed.

Lemma slt_correct x y z : word x -> word y -> impl_op SLT x y z = spec_op SLT x y z.
Proof.
  intros Hx Hy. cbn [impl_op spec_op]. unfold u_slt, u_lt. word_facts. f_equal.
  pose proof Hx as Hx'. pose proof Hy as Hy'. unfold word in Hx', Hy'.
  destruct (u_sign_cases x Hx) as [[-> Sx]|[[Hxr Sx]|[Hxr Sx]]];
  destruct (u_sign_cases y Hy) as [[-> Sy]|[[Hyr Sy]|[Hyr Sy]]];
  rewrite ?Sx, ?Sy; cbn [Z.leb Z.ltb Z.compare andb];
  rewrite ?(to_signed_nonneg 0) by (unfold word; lia);
  try rewrite (to_signed_nonneg x) by (unfold word; lia);
  try rewrite (to_signed_neg x) by (unfold word; lia);
  try rewrite (to_signed_nonneg y) by (unfold word; lia);
  try rewrite (to_signed_neg y) by (unfold word; lia);
  try reflexivity;
  repeat match goal with |- context [?a <? ?b] => destruct (Z.ltb_spec a b) end; try reflexivity; lia.
Qed.

Lemma sgt_correct x y z : word x -> word y -> impl_op SGT x y z = spec_op SGT x y z.
Proof.
  intros Hx Hy. cbn [impl_op spec_op]. unfold u_sgt, u_gt, u_lt. word_facts. f_equal.
  pose proof Hx as Hx'. pose proof Hy as Hy'. unfold word in Hx', Hy'.
  destruct (u_sign_cases x Hx) as [[-> Sx]|[[Hxr Sx]|[Hxr Sx]]];
  destruct (u_sign_cases y Hy) as [[-> Sy]|[[Hyr Sy]|[Hyr Sy]]];
  rewrite ?Sx, ?Sy; cbn [Z.leb Z.ltb Z.compare andb];
  rewrite ?(to_signed_nonneg 0) by (unfold word; lia);
  try rewrite (to_signed_nonneg x) by (unfold word; lia);
  try rewrite (to_signed_neg x) by (unfold word; lia);
  try rewrite (to_signed_nonneg y) by (unfold word; lia);
  try rewrite (to_signed_neg y) by (unfold word; lia);
  try reflexivity;
  repeat match goal with |- context [?a <? ?b] => destruct (Z.ltb_spec a b) end; try reflexivity; lia.
Qed.

(* ---- bit-level helpers ------------------------------------------------------------------------ *)

(* low part below bit k and a multiple of 2^k do not interact: OR is addition *)
Lemma lor_split l h k : 0 <= k -> 0 <= l < 2 ^ k -> 0 <= h -> Z.lor l (h * 2 ^ k) = l + h * 2 ^ k.
Proof.
  intros Hk Hl Hh. apply Z.bits_inj'. intros i Hi.
  rewrite Z.lor_spec.
  assert (P : 0 < 2 ^ k) by (apply Z.pow_pos_nonneg; lia).
  destruct (Z.lt_ge_cases i k) as [Hik|Hik].
  - rewrite <- (Z.mod_pow2_bits_low (l + h * 2 ^ k) k i) by lia.
    rewrite Z.mod_add by lia. rewrite Z.mod_small by lia.
    rewrite Z.mul_pow2_bits_low by lia. apply orb_false_r.
  - assert (Hl0 : Z.testbit l i = false).
    { destruct (Z.eq_dec l 0) as [->|]; [apply Z.testbit_0_l|].
      apply Z.bits_above_log2; [lia|].
      apply Z.log2_lt_pow2; [lia|]. apply Z.lt_le_trans with (2 ^ k); [lia|].
      apply Z.pow_le_mono_r; lia. }
    rewrite Hl0. cbn [orb]. replace i with ((i - k) + k) at 2 by lia.
    rewrite <- (Z.div_pow2_bits (l + h * 2 ^ k) k (i - k)) by lia.
    rewrite Z.div_add by lia. rewrite Z.div_small by lia. cbn [Z.add].
    rewrite Z.mul_pow2_bits by lia. reflexivity.
Qed.

Lemma word_high_bits x i : word x -> 256 <= i -> Z.testbit x i = false.
Proof.
  unfold word. rewrite W_val. intros Hx Hi.
  rewrite <- (Z.mod_small x (2 ^ 256)) by lia. apply Z.mod_pow2_bits_high. lia.
Qed.

Lemma not_correct x y z : word x -> impl_op NOT x y z = spec_op NOT x y z.
Proof.
  intros Hx. cbn [impl_op spec_op]. pose proof Hx as Hx'. unfold word in Hx'. rewrite W_val in *.
  replace (2 ^ 256 - 1 - x) with ((Z.lnot x) mod 2 ^ 256).
  2:{ unfold Z.lnot. replace (Z.pred (- x)) with ((2 ^ 256 - 1 - x) + (-1) * 2 ^ 256) by lia.
      rewrite Z.mod_add by lia. apply Z.mod_small. lia. }
  apply Z.bits_inj'. intros i Hi. rewrite Z.lxor_spec.
  replace (2 ^ 256 - 1) with (Z.ones 256) by reflexivity.
  destruct (Z.lt_ge_cases i 256).
  - rewrite Z.mod_pow2_bits_low by lia. rewrite Z.lnot_spec by lia.
    rewrite Z.ones_spec_low by lia. apply xorb_true_r.
  - rewrite Z.mod_pow2_bits_high by lia. rewrite Z.ones_spec_high by lia.
    rewrite (word_high_bits x i) by (unfold word; rewrite ?W_val; lia). reflexivity.
Qed.

Lemma pow2_256_le x : 256 <= x -> exists k, 0 < k /\ 2 ^ x = W * k.
Proof.
  intros. exists (2 ^ (x - 256)). split; [apply Z.pow_pos_nonneg; lia|].
  rewrite W_val, <- Z.pow_add_r by lia. f_equal. lia.
Qed.

Lemma shl_correct x y z : word x -> word y -> impl_op SHL x y z = spec_op SHL x y z.
Proof.
  unfold word. intros Hx Hy. cbn [impl_op spec_op]. unfold u_lsh. word_facts.
  destruct (Z.ltb_spec x 256).
  - destruct (Z.leb_spec 256 x); [lia|reflexivity].
  - destruct (pow2_256_le x) as [k [Hk ->]]; [lia|].
    replace (y * (W * k)) with ((y * k) * W) by lia. symmetry. apply Z.mod_mul. lia.
Qed.

Lemma shr_correct x y z : word x -> word y -> impl_op SHR x y z = spec_op SHR x y z.
Proof.
  unfold word. intros Hx Hy. cbn [impl_op spec_op]. unfold u_rsh. word_facts.
  destruct (Z.ltb_spec x 256).
  - destruct (Z.leb_spec 256 x); [lia|reflexivity].
  - destruct (pow2_256_le x) as [k [Hk ->]]; [lia|].
    symmetry. apply Z.div_small. nia.
Qed.

Lemma sar_correct x y z : word x -> word y -> impl_op SAR x y z = spec_op SAR x y z.
Proof.
  intros Hx Hy. cbn [impl_op spec_op]. unfold u_srsh, u_rsh. word_facts.
  pose proof Hx as Hx'. pose proof Hy as Hy'. unfold word in Hx', Hy'.
  assert (P : 0 < 2 ^ x) by (apply Z.pow_pos_nonneg; lia).
  destruct (Z.ltb_spec y HALF) as [Hyn|Hyn].
  - (* non-negative value *)
    rewrite to_signed_nonneg by (unfold word; lia).
    pose proof (div_le_self y (2 ^ x)).
    rewrite of_signed_small by lia.
    assert (S : 0 <=? u_sign y = true).
    { destruct (u_sign_cases y Hy) as [[_ ->]|[[_ ->]|[? _]]]; [reflexivity|reflexivity|lia]. }
    rewrite S.
    assert (Big : 256 <= x -> y / 2 ^ x = 0).
    { intros. destruct (pow2_256_le x) as [k [Hk ->]]; [lia|]. apply Z.div_small. nia. }
    destruct (Z.ltb_spec 256 x); [symmetry; apply Big; lia|].
    destruct (Z.leb_spec 256 x); [symmetry; apply Big; lia|reflexivity].
  - (* negative value *)
    rewrite to_signed_neg by (unfold word; lia).
    assert (S : 0 <=? u_sign y = false).
    { destruct (u_sign_cases y Hy) as [[? _]|[[? _]|[_ ->]]]; [lia|lia|reflexivity]. }
    rewrite S.
    assert (Big : 256 <= x -> of_signed ((y - W) / 2 ^ x) = W - 1).
    { intros. destruct (pow2_256_le x) as [k [Hk E]]; [lia|].
      assert ((y - W) / 2 ^ x = -1).
      { symmetry. apply Z.div_unique with (r := y - W + 2 ^ x); nia. }
      rewrite H3. apply (of_signed_opp 1). lia. }
    destruct (Z.ltb_spec 256 x); [symmetry; apply Big; lia|].
    destruct (Z.leb_spec 256 x); [symmetry; apply Big; lia|].
    (* 0 <= x < 256 *)
    assert (EW : W = 2 ^ (256 - x) * 2 ^ x) by (rewrite W_val, <- Z.pow_add_r by lia; f_equal; lia).
    assert (Q : 0 < 2 ^ (256 - x)) by (apply Z.pow_pos_nonneg; lia).
    replace (y - W) with (y + (- 2 ^ (256 - x)) * 2 ^ x) by lia.
    rewrite Z.div_add by lia.
    assert (0 <= y / 2 ^ x < 2 ^ (256 - x)).
    { split; [apply Z.div_pos; lia|]. apply Z.div_lt_upper_bound; lia. }
    replace (W - 2 ^ (256 - x)) with ((2 ^ x - 1) * 2 ^ (256 - x)) by lia.
    rewrite lor_split by lia.
    replace (y / 2 ^ x + - 2 ^ (256 - x)) with (- (2 ^ (256 - x) - y / 2 ^ x)) by lia.
    rewrite of_signed_opp by nia. lia.
Qed.

(* ---- BYTE ------------------------------------------------------------------------------------- *)

Lemma byte_extract Y s : 0 <= Y -> 0 <= s <= 56 ->
  Z.shiftr (Z.land (Y mod 2 ^ 64) (Z.shiftl 255 s)) s = (Y / 2 ^ s) mod 256.
Proof.
  intros HY Hs. rewrite Z.shiftr_land. rewrite Z.shiftr_shiftl_l by lia.
  replace (s - s) with 0 by lia. rewrite Z.shiftl_0_r.
  replace 255 with (Z.ones 8) by reflexivity. rewrite Z.land_ones by lia.
  rewrite Z.shiftr_div_pow2 by lia. change (2 ^ 8) with 256.
  replace 256 with (2 ^ 8) by reflexivity.
  apply Z.bits_inj'. intros i Hi.
  destruct (Z.lt_ge_cases i 8).
  - rewrite !Z.mod_pow2_bits_low by lia. rewrite !Z.div_pow2_bits by lia.
    apply Z.mod_pow2_bits_low. lia.
  - rewrite !Z.mod_pow2_bits_high by lia. reflexivity.
Qed.

Lemma byte_correct x y z : word x -> word y -> impl_op BYTE x y z = spec_op BYTE x y z.
Proof.
  unfold word. intros Hx Hy. cbn [impl_op spec_op]. unfold u_byte, u_is_uint64.
  destruct (Z.ltb_spec x 32) as [H32|H32].
  2:{ rewrite andb_false_r. reflexivity. }
  assert (x <? U64 = true) as -> by (apply Z.ltb_lt; change U64 with (2 ^ 64); lia).
  cbn [andb].
  assert (E : exists q r, x = 8 * q + r /\ 0 <= q <= 3 /\ 0 <= r <= 7).
  { exists (x / 8), (x mod 8). pose proof (Z.div_mod x 8). pose proof (Z.mod_pos_bound x 8).
    assert (0 <= x / 8 <= 3); [|lia]. split; [apply Z.div_pos; lia|].
    apply Z.lt_succ_r. apply Z.div_lt_upper_bound; lia. }
  destruct E as [q [r [-> [Hq Hr]]]].
  replace ((8 * q + r) / 8) with q by (apply Z.div_unique with (r := r); lia).
  replace ((8 * q + r) mod 8) with r by (apply Z.mod_unique with (q := q); lia).
  replace (8 * (31 - (8 * q + r))) with (64 * (3 - q) + (56 - 8 * r)) by lia.
  rewrite Z.pow_add_r by lia. rewrite <- Z.div_div by (try apply Z.pow_pos_nonneg; lia).
  assert (M : Z.shiftr 18374686479671623680 (8 * r) = Z.shiftl 255 (56 - 8 * r)).
  { assert (r = 0 \/ r = 1 \/ r = 2 \/ r = 3 \/ r = 4 \/ r = 5 \/ r = 6 \/ r = 7) by lia.
    repeat match goal with H : _ \/ _ |- _ => destruct H end; subst r; reflexivity. }
  rewrite M. change U64 with (2 ^ 64).
  apply byte_extract; [|lia]. apply Z.div_pos; [lia|]. apply Z.pow_pos_nonneg; lia.
Qed.

(* ---- SIGNEXTEND ------------------------------------------------------------------------------- *)

Lemma testbit_true_mod x k : 0 <= x -> 0 <= k ->
  x mod 2 ^ (k + 1) = x mod 2 ^ k + 2 ^ k * Z.b2z (Z.testbit x k).
Proof.
  intros. replace (k + 1) with (Z.succ k) by lia. rewrite Z.pow_succ_r by lia. rewrite (Z.mul_comm 2).
  rewrite Z.rem_mul_r by (try apply Z.pow_nonzero; lia).
  rewrite Z.testbit_spec' by lia. reflexivity.
Qed.

Lemma signextend_correct x y z : word x -> word y -> impl_op SIGNEXTEND x y z = spec_op SIGNEXTEND x y z.
Proof.
  intros Hx Hy. cbn [impl_op spec_op]. unfold u_extendsign, spec_signextend. word_facts.
  pose proof Hx as Hx'. pose proof Hy as Hy'. unfold word in Hx', Hy'.
  destruct (Z.ltb_spec 31 x) as [Hb|Hb].
  { destruct (Z.ltb_spec x 31); [lia|reflexivity]. }
  set (k := x * 8 + 7).
  assert (Hk : 0 <= k <= 255) by (unfold k; lia).
  assert (Pk : 0 < 2 ^ k) by (apply Z.pow_pos_nonneg; lia).
  assert (EW : W = 2 ^ (256 - k) * 2 ^ k) by (rewrite W_val, <- Z.pow_add_r by lia; f_equal; lia).
  assert (Q : 0 < 2 ^ (256 - k)) by (apply Z.pow_pos_nonneg; lia).
  assert (Q2 : 2 <= 2 ^ (256 - k)).
  { replace 2 with (2 ^ 1) at 1 by reflexivity. apply Z.pow_le_mono_r; lia. }
  assert (Emask : u_sub (u_lsh 1 k) 1 = 2 ^ k - 1).
  { unfold u_lsh, u_sub. destruct (Z.leb_spec 256 k); [lia|].
    rewrite Z.mul_1_l. assert (2 ^ k < W) by nia.
    rewrite (Z.mod_small (2 ^ k)) by lia. apply Z.mod_small. lia. }
  rewrite Emask.
  (* both sides in terms of the low k bits of y *)
  assert (Hlow := Z.mod_pos_bound y (2 ^ k) Pk).
  assert (Eimpl1 : Z.lor y (W - 1 - (2 ^ k - 1)) = y mod 2 ^ k + (W - 2 ^ k)).
  { replace (W - 1 - (2 ^ k - 1)) with ((2 ^ (256 - k) - 1) * 2 ^ k) by lia.
    replace (y mod 2 ^ k + (W - 2 ^ k)) with (y mod 2 ^ k + (2 ^ (256 - k) - 1) * 2 ^ k) by lia.
    rewrite <- lor_split by lia.
    apply Z.bits_inj'. intros i Hi. rewrite !Z.lor_spec.
    destruct (Z.lt_ge_cases i k).
    - rewrite Z.mod_pow2_bits_low by lia. reflexivity.
    - rewrite Z.mod_pow2_bits_high by lia. cbn [orb].
      replace i with ((i - k) + k) at 2 3 by lia. rewrite Z.mul_pow2_bits by lia.
      replace (2 ^ (256 - k) - 1) with (Z.ones (256 - k)) by (rewrite Z.ones_equiv; lia).
      destruct (Z.lt_ge_cases i 256).
      + rewrite Z.ones_spec_low by lia. apply orb_true_r.
      + rewrite Z.ones_spec_high by lia. rewrite word_high_bits by (unfold word; lia). reflexivity. }
  assert (Eimpl0 : Z.land y (2 ^ k - 1) = y mod 2 ^ k).
  { replace (2 ^ k - 1) with (Z.ones k) by (rewrite Z.ones_equiv; lia). apply Z.land_ones. lia. }
  (* the specification, for every b <= 31 *)
  assert (Espec : (if x <? 31 then
             of_signed (if y mod 2 ^ (8 * x + 8) <? 2 ^ (8 * x + 8) / 2
                        then y mod 2 ^ (8 * x + 8) else y mod 2 ^ (8 * x + 8) - 2 ^ (8 * x + 8))
           else y)
          = if Z.testbit y k then y mod 2 ^ k + (W - 2 ^ k) else y mod 2 ^ k).
  { replace (8 * x + 8) with (k + 1) by (unfold k; lia).
    assert (E2 : 2 ^ (k + 1) / 2 = 2 ^ k).
    { replace (k + 1) with (Z.succ k) by lia. rewrite Z.pow_succ_r by lia. rewrite Z.mul_comm. apply Z.div_mul. lia. }
    pose proof (testbit_true_mod y k ltac:(lia) ltac:(lia)) as T.
    destruct (Z.ltb_spec x 31) as [H31|H31].
    - rewrite E2. destruct (Z.testbit y k); cbn [Z.b2z] in T.
      + destruct (Z.ltb_spec (y mod 2 ^ (k + 1)) (2 ^ k)); [lia|].
        rewrite T. replace (k + 1) with (Z.succ k) by lia. rewrite Z.pow_succ_r by lia.
        replace (y mod 2 ^ k + 2 ^ k * 1 - 2 * 2 ^ k) with (- (2 ^ k - y mod 2 ^ k)) by lia.
        rewrite of_signed_opp by nia. lia.
      + destruct (Z.ltb_spec (y mod 2 ^ (k + 1)) (2 ^ k)); [|lia].
        rewrite T. rewrite of_signed_small by nia. lia.
    - assert (x = 31) by lia. assert (k = 255) by (unfold k; lia).
      assert (EWk : W = 2 ^ (k + 1)) by (rewrite W_val; f_equal; lia).
      rewrite <- EWk in T. rewrite (Z.mod_small y W) in T by lia.
      assert (EH : 2 ^ k = HALF) by (rewrite HALF_val; f_equal; lia).
      rewrite EH in *. destruct (Z.testbit y k); cbn [Z.b2z] in T; lia. }
  rewrite Espec. destruct (Z.testbit y k); [exact Eimpl1 | exact Eimpl0].
Qed.

(* ---- EXP -------------------------------------------------------------------------------------- *)

Lemma mul_mod_pow a b n : 0 <= n -> ((a mod W) * (b mod W) ^ n) mod W = (a * b ^ n) mod W.
Proof.
  intros. word_facts. rewrite Z.mul_mod by lia. rewrite <- (Zpower_mod b n W) by lia.
  rewrite Z.mod_mod by lia. rewrite <- Z.mul_mod by lia. reflexivity.
Qed.

Lemma u_exp_loop_spec fuel : forall res mult e,
  word res -> 0 <= e < 2 ^ Z.of_nat fuel ->
  u_exp_loop fuel res mult e = (res * mult ^ e) mod W.
Proof.
  induction fuel as [|k IH]; intros res mult e Hres He; word_facts; unfold word in Hres.
  - cbn in He. assert (e = 0) by lia. subst e. cbn [u_exp_loop].
    rewrite Z.pow_0_r, Z.mul_1_r. symmetry. apply Z.mod_small. lia.
  - cbn [u_exp_loop]. destruct (Z.eqb_spec e 0) as [->|He0].
    + rewrite Z.pow_0_r, Z.mul_1_r. symmetry. apply Z.mod_small. lia.
    + rewrite Nat2Z.inj_succ, Z.pow_succ_r in He by lia.
      assert (He2 : 0 <= e / 2 < 2 ^ Z.of_nat k).
      { split; [apply Z.div_pos; lia|]. apply Z.div_lt_upper_bound; lia. }
      pose proof (Z.div_mod e 2 ltac:(lia)) as Ed.
      assert (Epow : mult ^ e = (mult * mult) ^ (e / 2) * mult ^ (e mod 2)).
      { rewrite Ed at 1. rewrite Z.pow_add_r by (try apply Z.mod_pos_bound; lia).
        rewrite Z.pow_mul_r by lia. rewrite Z.pow_2_r. reflexivity. }
      rewrite IH; [| |exact He2].
      2:{ unfold word. destruct (Z.odd e); [apply Z.mod_pos_bound; lia|lia]. }
      unfold u_mul. rewrite Epow. rewrite (Zmod_odd e).
      destruct (Z.odd e).
      * rewrite Z.pow_1_r. rewrite mul_mod_pow by lia. f_equal. lia.
      * rewrite Z.pow_0_r, Z.mul_1_r.
        rewrite <- (Z.mod_small res W) at 1 by lia. rewrite mul_mod_pow by lia. reflexivity.
Qed.

Lemma exp_correct x y z : word x -> word y -> impl_op EXP x y z = spec_op EXP x y z.
Proof.
  unfold word. intros Hx Hy. cbn [impl_op spec_op]. unfold u_exp. word_facts.
  rewrite u_exp_loop_spec.
  - rewrite Z.mul_1_l. reflexivity.
  - unfold word. lia.
  - change (Z.of_nat 256) with 256. rewrite <- W_val. lia.
Qed.

(* ---- all opcodes ------------------------------------------------------------------------------ *)

Lemma div_correct x y z : word x -> word y -> impl_op DIV x y z = spec_op DIV x y z.
Proof. unfold word. intros. cbn [impl_op spec_op]. apply u_div_spec; lia. Qed.
Lemma mod_correct x y z : word x -> word y -> impl_op MOD x y z = spec_op MOD x y z.
Proof. unfold word. intros. cbn [impl_op spec_op]. apply u_mod_spec; lia. Qed.

Theorem op_correct : forall o x y z, word x -> word y -> word z -> impl_op o x y z = spec_op o x y z.
Proof.
  intros o x y z Hx Hy Hz. destruct o.
  - reflexivity.
  - reflexivity.
  - reflexivity.
  - apply div_correct; assumption.
  - apply sdiv_correct; assumption.
  - apply mod_correct; assumption.
  - apply smod_correct; assumption.
  - apply addmod_correct; assumption.
  - apply mulmod_correct; assumption.
  - apply exp_correct; assumption.
  - apply signextend_correct; assumption.
  - reflexivity.
  - reflexivity.
  - apply slt_correct; assumption.
  - apply sgt_correct; assumption.
  - reflexivity.
  - reflexivity.
  - reflexivity.
  - reflexivity.
  - reflexivity.
  - apply not_correct; assumption.
  - apply byte_correct; assumption.
  - apply shl_correct; assumption.
  - apply shr_correct; assumption.
  - apply sar_correct; assumption.
Qed.

(* results are words again *)
Lemma land_word x y : word x -> word y -> word (Z.land x y).
Proof.
  unfold word. rewrite W_val. intros Hx Hy. split; [apply Z.land_nonneg; lia|].
  destruct (Z.eq_dec (Z.land x y) 0) as [->|Hn]; [reflexivity|].
  apply Z.log2_lt_pow2; [pose proof (Z.land_nonneg x y); lia|].
  apply Z.le_lt_trans with (Z.min (Z.log2 x) (Z.log2 y)); [apply Z.log2_land; lia|].
  destruct (Z.eq_dec x 0) as [->|]; [rewrite Z.land_0_l in Hn; lia|].
  apply Z.min_lt_iff. left. apply Z.log2_lt_pow2; lia.
Qed.
Lemma lor_word x y : word x -> word y -> word (Z.lor x y).
Proof.
  unfold word. rewrite W_val. intros Hx Hy. split; [apply Z.lor_nonneg; lia|].
  destruct (Z.eq_dec (Z.lor x y) 0) as [->|Hn]; [reflexivity|].
  apply Z.log2_lt_pow2; [pose proof (Z.lor_nonneg x y); lia|].
  rewrite Z.log2_lor by lia.
  apply Z.max_lub_lt.
  - destruct (Z.eq_dec x 0) as [->|]; [cbn; lia|]. apply Z.log2_lt_pow2; lia.
  - destruct (Z.eq_dec y 0) as [->|]; [cbn; lia|]. apply Z.log2_lt_pow2; lia.
Qed.
Lemma lxor_word x y : word x -> word y -> word (Z.lxor x y).
Proof.
  unfold word. rewrite W_val. intros Hx Hy. split; [apply Z.lxor_nonneg; lia|].
  destruct (Z.eq_dec (Z.lxor x y) 0) as [->|Hn]; [reflexivity|].
  apply Z.log2_lt_pow2; [pose proof (Z.lxor_nonneg x y); lia|].
  apply Z.le_lt_trans with (Z.max (Z.log2 x) (Z.log2 y)); [apply Z.log2_lxor; lia|].
  apply Z.max_lub_lt.
  - destruct (Z.eq_dec x 0) as [->|]; [cbn; lia|]. apply Z.log2_lt_pow2; lia.
  - destruct (Z.eq_dec y 0) as [->|]; [cbn; lia|]. apply Z.log2_lt_pow2; lia.
Qed.

Lemma b2z_word b : word (b2z b).
Proof. unfold word. word_facts. destruct b; cbn [b2z]; lia. Qed.

Lemma mod_word a : word (a mod W).
Proof. unfold word. word_facts. apply Z.mod_pos_bound. lia. Qed.

Theorem spec_op_word : forall o x y z, word x -> word y -> word z -> word (spec_op o x y z).
Proof.
  intros o x y z Hx Hy Hz. pose proof Hx as Hx'. pose proof Hy as Hy'. pose proof Hz as Hz'.
  unfold word in Hx', Hy', Hz'. word_facts.
  destruct o; cbn [spec_op].
  - apply mod_word.
  - apply mod_word.
  - apply mod_word.
  - (* DIV *) destruct (Z.eqb_spec y 0); [unfold word; lia|]. pose proof (div_le_self x y). unfold word. lia.
  - (* SDIV *) destruct (Z.eqb_spec y 0); [unfold word; lia|]. apply mod_word.
  - (* MOD *) destruct (Z.eqb_spec y 0); [unfold word; lia|]. pose proof (Z.mod_pos_bound x y). unfold word. lia.
  - (* SMOD *) destruct (Z.eqb_spec y 0); [unfold word; lia|]. apply mod_word.
  - (* ADDMOD *) destruct (Z.eqb_spec z 0); [unfold word; lia|]. pose proof (Z.mod_pos_bound (x + y) z). unfold word. lia.
  - (* MULMOD *) destruct (Z.eqb_spec z 0); [unfold word; lia|]. pose proof (Z.mod_pos_bound (x * y) z). unfold word. lia.
  - apply mod_word.
  - (* SIGNEXTEND *) unfold spec_signextend. destruct (x <? 31); [|assumption]. apply mod_word.
  - apply b2z_word.
  - apply b2z_word.
  - apply b2z_word.
  - apply b2z_word.
  - apply b2z_word.
  - apply b2z_word.
  - apply land_word; assumption.
  - apply lor_word; assumption.
  - apply lxor_word; assumption.
  - unfold word. lia.
  - (* BYTE *) destruct (x <? 32); [|unfold word; lia].
    pose proof (Z.mod_pos_bound (y / 2 ^ (8 * (31 - x))) 256 ltac:(lia)).
    assert (256 < W) by (rewrite W_val; reflexivity). unfold word. lia.
  - apply mod_word.
  - (* SHR *) assert (0 < 2 ^ x) by (apply Z.pow_pos_nonneg; lia). pose proof (div_le_self y (2 ^ x)). unfold word. lia.
  - apply mod_word.
Qed.
