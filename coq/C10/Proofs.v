(* C10 — proofs: impl_op = spec_op for every opcode and every 256-bit operand. *)
From Coq Require Import ZArith List Bool Lia Zpow_facts.
From V.C10 Require Import Model.
Import ListNotations.
Local Open Scope Z_scope.

Lemma W_pos : 0 < W. Proof. reflexivity. Qed.
Lemma W_val : W = 2 ^ 256. Proof. reflexivity. Qed.
Lemma HALF_val : HALF = 2 ^ 255. Proof. reflexivity. Qed.
Lemma W_HALF : W = 2 * HALF. Proof. reflexivity. Qed.
Lemma HALF_pos : 0 < HALF. Proof. reflexivity. Qed.
Global Opaque W HALF U64.

Ltac word_facts := pose proof W_pos; pose proof HALF_pos; pose proof W_HALF.

(* ---- unsigned division / modulo -------------------------------------------------------------- *)

Lemma u_div_spec x y : 0 <= x -> 0 <= y -> u_div x y = if y =? 0 then 0 else x / y.
Proof.
  intros Hx Hy. unfold u_div, u_gt, u_lt.
  destruct (Z.eqb_spec y 0) as [->|Hy0]; cbn [orb]; [reflexivity|].
  destruct (Z.ltb_spec x y); cbn [orb].
  - symmetry. apply Z.div_small. lia.
  - destruct (Z.eqb_spec x y) as [->|]; [|reflexivity].
    symmetry. apply Z_div_same_full. exact Hy0.
Qed.

Lemma u_mod_spec x y : 0 <= x -> 0 <= y -> u_mod x y = if y =? 0 then 0 else x mod y.
Proof.
  intros Hx Hy. unfold u_mod.
  destruct (Z.eqb_spec y 0) as [->|Hy0].
  - rewrite orb_true_r. reflexivity.
  - rewrite orb_false_r.
    destruct (Z.eqb_spec x 0) as [->|Hx0]; [symmetry; apply Z.mod_0_l; exact Hy0|].
    destruct (Z.compare_spec x y) as [->|Hlt|Hgt].
    + symmetry. apply Z_mod_same_full.
    + symmetry. apply Z.mod_small. lia.
    + reflexivity.
Qed.

Lemma u_neg_spec x : word x -> u_neg x = if x =? 0 then 0 else W - x.
Proof.
  unfold word, u_neg, u_sub. intros Hx. word_facts.
  destruct (Z.eqb_spec x 0) as [->|Hx0]; [reflexivity|].
  replace (0 - x) with ((W - x) + (-1) * W) by lia. rewrite Z.mod_add by lia.
  apply Z.mod_small. lia.
Qed.

(* magnitude of the signed interpretation *)
Lemma to_signed_nonneg x : word x -> x < HALF -> to_signed x = x.
Proof. unfold to_signed. intros _ H. destruct (Z.ltb_spec x HALF); lia. Qed.
Lemma to_signed_neg x : word x -> HALF <= x -> to_signed x = x - W.
Proof. unfold to_signed. intros _ H. destruct (Z.ltb_spec x HALF); lia. Qed.

Lemma u_sign_cases x : word x ->
  (x = 0 /\ u_sign x = 0) \/ (0 < x < HALF /\ u_sign x = 1) \/ (HALF <= x /\ u_sign x = -1).
Proof.
  unfold word, u_sign. intros Hx. word_facts.
  destruct (Z.eqb_spec x 0); [left; lia|].
  destruct (Z.ltb_spec x HALF); [right; left; lia | right; right; lia].
Qed.

Lemma of_signed_small v : 0 <= v < W -> of_signed v = v.
Proof. unfold of_signed. intros. apply Z.mod_small. lia. Qed.
Lemma of_signed_opp v : 0 < v <= W -> of_signed (- v) = W - v.
Proof.
  unfold of_signed. intros. replace (- v) with ((W - v) + (-1) * W) by lia.
  rewrite Z.mod_add by lia. apply Z.mod_small. lia.
Qed.
Lemma of_signed_opp0 v : 0 <= v < W -> of_signed (- v) = if v =? 0 then 0 else W - v.
Proof.
  intros. destruct (Z.eqb_spec v 0) as [->|]; [reflexivity|]. apply of_signed_opp. lia.
Qed.

Lemma div_le_self a b : 0 <= a -> 0 < b -> 0 <= a / b <= a.
Proof.
  intros. split; [apply Z.div_pos; lia|].
  apply Z.div_le_upper_bound; [lia|]. nia.
Qed.

Lemma sdiv_correct x y : word x -> word y -> impl_op SDIV x y 0 = spec_op SDIV x y 0.
Proof.
  intros Hx Hy. cbn [impl_op spec_op]. unfold u_sdiv. word_facts.
  pose proof Hx as Hx'. pose proof Hy as Hy'. unfold word in Hx', Hy'.
  destruct (u_sign_cases x Hx) as [[-> Sx]|[[Hxr Sx]|[Hxr Sx]]];
  destruct (u_sign_cases y Hy) as [[-> Sy]|[[Hyr Sy]|[Hyr Sy]]];
  rewrite ?Sx, ?Sy; cbn [Z.ltb Z.compare Z.eqb];
  rewrite ?u_neg_spec by (unfold word; lia);
  try rewrite (to_signed_nonneg x) by (unfold word; lia);
  try rewrite (to_signed_neg x) by (unfold word; lia);
  try rewrite (to_signed_nonneg y) by (unfold word; lia);
  try rewrite (to_signed_neg y) by (unfold word; lia).
  all: repeat match goal with |- context [?a =? 0] =>
         destruct (Z.eqb_spec a 0); try lia end.
  all: rewrite ?u_div_spec by lia.
  all: repeat match goal with |- context [?a =? 0] =>
         destruct (Z.eqb_spec a 0); try lia end.
  all: rewrite ?u_neg_spec by (unfold word; try lia;
         match goal with |- context [?a / ?b] => pose proof (div_le_self a b); lia end).
  all: rewrite ?Z.quot_0_l by lia; rewrite ?Z.div_0_l by lia; try reflexivity.
  - (* pos / pos *)
    rewrite Z.quot_div_nonneg by lia. pose proof (div_le_self x y). rewrite of_signed_small; lia.
  - (* pos / neg *)
    replace (y - W) with (- (W - y)) by lia. rewrite Z.quot_opp_r by lia.
    rewrite Z.quot_div_nonneg by lia. pose proof (div_le_self x (W - y)).
    rewrite of_signed_opp0 by lia. reflexivity.
  - (* neg / pos *)
    replace (x - W) with (- (W - x)) by lia. rewrite Z.quot_opp_l by lia.
    rewrite Z.quot_div_nonneg by lia. pose proof (div_le_self (W - x) y).
    rewrite of_signed_opp0 by lia. reflexivity.
  - (* neg / neg *)
    replace (x - W) with (- (W - x)) by lia. replace (y - W) with (- (W - y)) by lia.
    rewrite Z.quot_opp_opp by lia. rewrite Z.quot_div_nonneg by lia.
    pose proof (div_le_self (W - x) (W - y)). rewrite of_signed_small; lia.
Qed.
