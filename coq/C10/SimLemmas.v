(* C10 — list / byte-map lemmas for the simulation between the interpreter-shaped machine (memory as a
   Go slice: list Z, Resize, Set, GetPtr) and the Yellow-Paper machine (memory as a total byte map). *)
From Coq Require Import ZArith List Bool Lia.
From V.C10 Require Import Model Machine YP.
Import ListNotations.
Local Open Scope Z_scope.

Lemma byte_at_cnth l x : byte_at l x = cnth l x.
Proof. reflexivity. Qed.

Lemma be_word_bigend l : be_word l = bigend l.
Proof. reflexivity. Qed.

(* ---- nth over firstn / skipn / repeat / map-seq ------------------------------------------------ *)

Lemma nth_firstn_lt {A} (l : list A) : forall n k d, (k < n)%nat -> nth k (firstn n l) d = nth k l d.
Proof.
  induction l as [|x l IH]; intros n k d H; [destruct n; reflexivity|].
  destruct n; [lia|]. destruct k; [reflexivity|]. cbn. apply IH. lia.
Qed.

Lemma nth_skipn_add {A} (l : list A) : forall a k d, nth k (skipn a l) d = nth (a + k) l d.
Proof.
  induction l as [|x l IH]; intros a k d; [destruct a, k; reflexivity|].
  destruct a; [reflexivity|]. cbn. apply IH.
Qed.

Lemma nth_repeat0 n k : nth k (repeat 0 n) 0 = 0.
Proof. revert k. induction n; intros [|k]; cbn; auto. Qed.

Lemma nth_map_seq {A} (f : nat -> A) n k d : (k < n)%nat -> nth k (map f (seq 0 n)) d = f k.
Proof.
  intros H. rewrite (nth_indep _ d (f 0%nat)) by (rewrite map_length, seq_length; exact H).
  rewrite map_nth. rewrite seq_nth by exact H. reflexivity.
Qed.

Lemma zlen_nonneg {A} (l : list A) : 0 <= zlen l.
Proof. unfold zlen. lia. Qed.

Lemma cnth_in l x : 0 <= x < zlen l -> cnth l x = nth (Z.to_nat x) l 0.
Proof.
  intros H. unfold cnth, clen, zlen in *.
  destruct (Z.leb_spec 0 x); destruct (Z.ltb_spec x (Z.of_nat (length l))); cbn [andb]; try lia; reflexivity.
Qed.

Lemma cnth_out l x : x < 0 \/ zlen l <= x -> cnth l x = 0.
Proof.
  intros H. unfold cnth, clen, zlen in *.
  destruct (Z.leb_spec 0 x); destruct (Z.ltb_spec x (Z.of_nat (length l))); cbn [andb]; try lia; reflexivity.
Qed.

(* pointwise characterisation of a list by cnth *)
Lemma list_ext_cnth (l1 l2 : list Z) :
  zlen l1 = zlen l2 -> (forall x, 0 <= x < zlen l1 -> cnth l1 x = cnth l2 x) -> l1 = l2.
Proof.
  intros Hl H. apply (nth_ext l1 l2 0 0); [unfold zlen in Hl; lia|].
  intros k Hk. specialize (H (Z.of_nat k)).
  rewrite !cnth_in in H by (unfold zlen in *; lia). rewrite Nat2Z.id in H. apply H. unfold zlen. lia.
Qed.

(* ---- mread ------------------------------------------------------------------------------------- *)

Lemma zlen_mread m a n : 0 <= n -> zlen (mread m a n) = n.
Proof. intros. unfold zlen, mread. rewrite map_length, seq_length. lia. Qed.

Lemma cnth_mread m a n x : 0 <= x < n -> cnth (mread m a n) x = m (a + x).
Proof.
  intros H. rewrite cnth_in by (rewrite zlen_mread; lia). unfold mread.
  rewrite nth_map_seq by lia. rewrite Z2Nat.id by lia. reflexivity.
Qed.

Lemma mread_ext m1 m2 a n : (forall x, 0 <= x < n -> m1 (a + x) = m2 (a + x)) -> mread m1 a n = mread m2 a n.
Proof.
  intros H. unfold mread. apply map_ext_in. intros k Hk. apply in_seq in Hk. apply H. lia.
Qed.

(* ---- slice -------------------------------------------------------------------------------------- *)

Lemma zlen_slice l a n : 0 <= a -> 0 <= n -> a + n <= zlen l -> zlen (slice l a n) = n.
Proof.
  intros Ha Hn H. unfold zlen, slice in *. rewrite firstn_length, skipn_length. lia.
Qed.

Lemma slice_mread l a n : 0 <= a -> 0 <= n -> a + n <= zlen l -> slice l a n = mread (cnth l) a n.
Proof.
  intros Ha Hn H. apply list_ext_cnth.
  - rewrite zlen_slice, zlen_mread by assumption. reflexivity.
  - rewrite zlen_slice by assumption. intros x Hx.
    rewrite cnth_mread by assumption. rewrite cnth_in by (rewrite zlen_slice; assumption).
    unfold slice. rewrite nth_firstn_lt by lia. rewrite nth_skipn_add.
    rewrite cnth_in by lia. f_equal. lia.
Qed.

(* ---- Resize -------------------------------------------------------------------------------------- *)

Lemma cnth_app_zeros l n x : cnth (l ++ zeros n) x = cnth l x.
Proof.
  destruct (Z.lt_ge_cases x 0) as [H|H]; [rewrite !cnth_out by (left; exact H); reflexivity|].
  destruct (Z.lt_ge_cases x (zlen l)) as [H1|H1].
  - rewrite !cnth_in; [|lia|unfold zlen in *; rewrite app_length; lia].
    apply app_nth1. unfold zlen in H1. lia.
  - rewrite (cnth_out l) by (right; exact H1).
    destruct (Z.lt_ge_cases x (zlen (l ++ zeros n))) as [H2|H2]; [|apply cnth_out; right; exact H2].
    rewrite cnth_in by lia. rewrite app_nth2 by (unfold zlen in H1; lia). apply nth_repeat0.
Qed.

Lemma cnth_resize m n x : cnth (mem_resize m n) x = cnth m x.
Proof. unfold mem_resize. destruct (zlen m <? n); [apply cnth_app_zeros|reflexivity]. Qed.

Lemma zlen_zeros n : 0 <= n -> zlen (zeros n) = n.
Proof. intros. unfold zlen, zeros. rewrite repeat_length. lia. Qed.

Lemma zlen_resize m n : zlen (mem_resize m n) = Z.max (zlen m) n.
Proof.
  unfold mem_resize. destruct (Z.ltb_spec (zlen m) n); [|lia].
  unfold zlen at 1. rewrite app_length. fold (zlen m). fold (zlen (zeros (n - zlen m))).
  rewrite Nat2Z.inj_add. fold (zlen m). fold (zlen (zeros (n - zlen m))). rewrite zlen_zeros by lia. lia.
Qed.

(* ---- Set ------------------------------------------------------------------------------------------ *)

Lemma zlen_mem_set m off size v :
  0 <= off -> 0 <= size -> off + size <= zlen m -> zlen v = size -> zlen (mem_set m off size v) = zlen m.
Proof.
  intros Ho Hs H Hv. unfold mem_set. destruct (Z.eqb_spec size 0); [reflexivity|].
  cbv zeta. unfold zlen in *. repeat (rewrite app_length || rewrite firstn_length || rewrite skipn_length). lia.
Qed.

Lemma cnth_mem_set m off size v x :
  0 <= off -> 0 <= size -> off + size <= zlen m -> zlen v = size ->
  cnth (mem_set m off size v) x =
    if (off <=? x) && (x <? off + size) then nth (Z.to_nat (x - off)) v 0 else cnth m x.
Proof.
  intros Ho Hs H Hv.
  destruct (Z.lt_ge_cases x 0) as [Hx|Hx].
  { rewrite !cnth_out by (left; exact Hx). destruct (Z.leb_spec off x); [lia|reflexivity]. }
  destruct (Z.lt_ge_cases x (zlen m)) as [Hx2|Hx2].
  2:{ rewrite !cnth_out; [|right; exact Hx2|right; rewrite zlen_mem_set by assumption; exact Hx2].
      destruct (Z.leb_spec off x); destruct (Z.ltb_spec x (off + size)); cbn [andb]; try reflexivity; lia. }
  rewrite cnth_in by (rewrite zlen_mem_set by assumption; lia).
  unfold mem_set. destruct (Z.eqb_spec size 0) as [->|Hne].
  { rewrite cnth_in by lia. destruct (Z.leb_spec off x); destruct (Z.ltb_spec x (off + 0)); cbn [andb]; try reflexivity; lia. }
  cbv zeta.
  assert (Ef : firstn (Z.to_nat size) v = v) by (apply firstn_all2; unfold zlen in Hv; lia).
  rewrite Ef.
  assert (Lf : length (firstn (Z.to_nat off) m) = Z.to_nat off) by (rewrite firstn_length; unfold zlen in *; lia).
  assert (Lv : length v = Z.to_nat size) by (unfold zlen in Hv; lia).
  destruct (Z.leb_spec off x) as [H1|H1]; cbn [andb].
  - destruct (Z.ltb_spec x (off + size)) as [H2|H2].
    + rewrite app_nth2 by lia. rewrite app_nth1 by lia. f_equal. lia.
    + rewrite app_nth2 by lia. rewrite app_nth2 by lia. rewrite nth_skipn_add.
      rewrite cnth_in by lia. f_equal. lia.
  - rewrite app_nth1 by lia. rewrite nth_firstn_lt by lia. rewrite cnth_in by lia. reflexivity.
Qed.

(* ---- right-padded window of a byte string (getData / makePush) -------------------------------------- *)

Lemma padded_window l start n :
  0 <= start -> 0 <= n ->
  let s' := Z.min (zlen l) start in
  let e := Z.min (zlen l) (s' + n) in
  right_pad (slice l s' (e - s')) n = mread (cnth l) start n.
Proof.
  intros Hs Hn s' e.
  assert (Hs' : 0 <= s' <= zlen l) by (pose proof (zlen_nonneg l); unfold s'; lia).
  assert (He : s' <= e <= zlen l) by (unfold e; lia).
  assert (Lsl : zlen (slice l s' (e - s')) = e - s') by (apply zlen_slice; lia).
  apply list_ext_cnth.
  - rewrite zlen_mread by assumption. unfold right_pad. rewrite Lsl.
    destruct (Z.leb_spec n (e - s')); [unfold e in *; lia|].
    unfold zlen at 1. rewrite app_length. rewrite Nat2Z.inj_add.
    fold (zlen (slice l s' (e - s'))). fold (zlen (zeros (n - (e - s')))). rewrite Lsl, zlen_zeros by lia. lia.
  - intros x Hx.
    assert (Hxn : 0 <= x < n).
    { unfold right_pad in Hx. rewrite Lsl in Hx. destruct (Z.leb_spec n (e - s')) as [Q|Q].
      - rewrite Lsl in Hx. unfold e in *. lia.
      - unfold zlen in Hx at 1. rewrite app_length, Nat2Z.inj_add in Hx.
        fold (zlen (slice l s' (e - s'))) in Hx. fold (zlen (zeros (n - (e - s')))) in Hx.
        rewrite Lsl, zlen_zeros in Hx by lia. lia. }
    rewrite cnth_mread by assumption.
    assert (Epad : cnth (right_pad (slice l s' (e - s')) n) x = cnth (slice l s' (e - s')) x).
    { unfold right_pad. destruct (n <=? zlen (slice l s' (e - s'))); [reflexivity|apply cnth_app_zeros]. }
    rewrite Epad.
    destruct (Z.lt_ge_cases x (e - s')) as [Q|Q].
    + rewrite slice_mread by lia. rewrite cnth_mread by lia.
      f_equal. unfold s', e in *. lia.
    + rewrite cnth_out by (right; rewrite Lsl; exact Q).
      symmetry. apply cnth_out. right. unfold s', e in *. lia.
Qed.

Lemma get_data_mread data start size :
  0 <= start -> 0 <= size -> zlen data + size < U64 ->
  get_data data start size = mread (cnth data) start size.
Proof.
  intros Hs Hn Hb. unfold get_data. cbv zeta.
  pose proof (zlen_nonneg data) as Hd.
  set (s' := if zlen data <? start then zlen data else start).
  assert (Es : s' = Z.min (zlen data) start) by (unfold s'; destruct (Z.ltb_spec (zlen data) start); lia).
  rewrite Z.mod_small by (change U64 with 18446744073709551616 in *; lia).
  set (e := if zlen data <? s' + size then zlen data else s' + size).
  assert (Ee : e = Z.min (zlen data) (s' + size)) by (unfold e; destruct (Z.ltb_spec (zlen data) (s' + size)); lia).
  rewrite Ee, Es. apply padded_window; assumption.
Qed.

(* ---- big-endian numbers ------------------------------------------------------------------------------ *)

Lemma bigend_acc l : forall acc, fold_left (fun a b => a * 256 + b) l acc = acc * 256 ^ zlen l + bigend l.
Proof.
  unfold bigend. induction l as [|b l IH]; intros acc.
  - cbn. lia.
  - cbn [fold_left]. rewrite IH. rewrite (IH (0 * 256 + b)).
    unfold zlen. cbn [length]. rewrite Nat2Z.inj_succ. rewrite Z.pow_succ_r by lia. lia.
Qed.

Lemma bigend_range l : (forall b, In b l -> 0 <= b < 256) -> 0 <= bigend l < 256 ^ zlen l.
Proof.
  induction l as [|b l IH]; intros H.
  - cbn. lia.
  - unfold bigend. cbn [fold_left]. rewrite bigend_acc.
    assert (Hb : 0 <= b < 256) by (apply H; left; reflexivity).
    assert (Hl : 0 <= bigend l < 256 ^ zlen l) by (apply IH; intros; apply H; right; assumption).
    unfold zlen at 3. cbn [length]. rewrite Nat2Z.inj_succ. rewrite Z.pow_succ_r by lia.
    fold (zlen l). nia.
Qed.

Lemma bigend_mread_word m a : (forall x, 0 <= m x < 256) -> word (bigend (mread m a 32)).
Proof.
  intros H. unfold word.
  assert (R : 0 <= bigend (mread m a 32) < 256 ^ zlen (mread m a 32)).
  { apply bigend_range. intros b Hb. unfold mread in Hb. apply in_map_iff in Hb. destruct Hb as [k [<- _]]. apply H. }
  rewrite zlen_mread in R by lia. change (256 ^ 32) with W in R. exact R.
Qed.

Lemma bigend_mread_bound m a n : (forall x, 0 <= m x < 256) -> 0 <= n <= 32 -> word (bigend (mread m a n)).
Proof.
  intros H Hn. unfold word.
  assert (R : 0 <= bigend (mread m a n) < 256 ^ zlen (mread m a n)).
  { apply bigend_range. intros b Hb. unfold mread in Hb. apply in_map_iff in Hb. destruct Hb as [k [<- _]]. apply H. }
  rewrite zlen_mread in R by lia.
  assert (256 ^ n <= 256 ^ 32) by (apply Z.pow_le_mono_r; lia).
  change (256 ^ 32) with W in *. lia.
Qed.

(* ---- word_bytes ---------------------------------------------------------------------------------------- *)

Lemma zlen_word_bytes v : zlen (word_bytes v) = 32.
Proof. reflexivity. Qed.

Lemma nth_word_bytes v k : 0 <= k < 32 -> nth (Z.to_nat k) (word_bytes v) 0 = word_byte v k.
Proof.
  intros Hk. unfold word_bytes. rewrite nth_map_seq by lia. rewrite Z2Nat.id by lia.
  unfold word_byte. rewrite Z.shiftr_div_pow2 by lia.
  change 255 with (Z.ones 8). rewrite Z.land_ones by lia.
  replace (2 ^ (8 * (31 - k))) with (256 ^ (31 - k)); [reflexivity|].
  change 256 with (2 ^ 8). rewrite <- Z.pow_mul_r by lia. reflexivity.
Qed.

Lemma word_byte_range v k : 0 <= word_byte v k < 256.
Proof. unfold word_byte. apply Z.mod_pos_bound. lia. Qed.
