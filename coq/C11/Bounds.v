(* C11 — proofs. Part 4: every memory region an execute function touches lies inside the memory the
   interpreter has resized to (and charged for) before calling it.  This is the obligation the AUTH row
   violated before fix 5b93819. *)
From Coq Require Import ZArith List Bool String Lia.
From V.C11 Require Import Model Arith Interp.
Import ListNotations.
Local Open Scope Z_scope.

Lemma lenspec_eqb_eq a b : lenspec_eqb a b = true -> a = b.
Proof.
  destruct a as [i|n], b as [j|m]; cbn; try discriminate.
  - intros H. apply Nat.eqb_eq in H. subst. reflexivity.
  - intros H. apply Z.eqb_eq in H. subst. reflexivity.
Qed.
Lemma region_in_In r rs : region_in r rs = true -> In r rs.
Proof.
  unfold region_in. intros H. apply existsb_exists in H. destruct H as [r' [Hin He]].
  unfold region_eqb in He. apply andb_prop in He. destruct He as [A B].
  apply Nat.eqb_eq in A. apply lenspec_eqb_eq in B. destruct r, r'. cbn in *. subst. exact Hin.
Qed.

Lemma msize_of_cover mem stk msize : mem <> ""%string -> msize_of mem stk = inr msize ->
  exists rs sz, memsize_regions mem = Some rs /\ regions_size stk rs = (sz, false) /\ sz <= msize.
Proof.
  intros Hne. unfold msize_of, mem_size_named.
  destruct (String.eqb_spec mem ""); [contradiction|].
  destruct (memsize_regions mem) as [rs|]; [|discriminate].
  destruct (regions_size stk rs) as [sz ovf] eqn:Er. destruct ovf; [discriminate|].
  destruct (safe_mul (to_word_size sz) 32) as [v o] eqn:Es. destruct o; [discriminate|].
  intros H. inversion H; subst v. exists rs, sz. split; [reflexivity|]. split; [exact Er|].
  assert (Hsz := regions_size_nonneg _ _ _ _ Er).
  apply safe_mul_ok in Es; [|apply to_word_size_nonneg; assumption|lia]. destruct Es as [-> Hlt].
  unfold to_word_size, MAXU64 in *. rewrite U64_val in *.
  destruct (Z.ltb_spec (18446744073709551616 - 1 - 31) sz).
  - change ((18446744073709551616 - 1) / 32 + 1) with 576460752303423488 in Hlt. lia.
  - assert (sz + 31 < 32 * ((sz + 31) / 32) + 32).
    { assert (Hdm := Z.div_mod (sz + 31) 32 ltac:(lia)). assert (Hmb := Z.mod_pos_bound (sz + 31) 32 ltac:(lia)). lia. }
    lia.
Qed.

Section Bounds.
  Context {W : Type}.
  Variable cfg : config.
  Variable orc : oracle W.
  Hypothesis Hwf : wf_table (c_tab cfg) = true.

  Theorem access_in_bounds env fr w opc e fr1 cgt x r :
    inv fr -> charge cfg orc env fr w = inr (opc, e, fr1, cgt) ->
    exec_info (e_exec e) opc = Some x -> In r (x_mem x) ->
    (match snd r with LConst n => 0 <= n < U64 | LArg _ => True end) ->
    region_len (f_stk fr) r = 0 \/ sget (f_stk fr) (fst r) + region_len (f_stk fr) r <= f_mlen fr1.
  Proof.
    intros Hinv Hch Hex Hin Hconst.
    destruct (charge_facts cfg orc Hwf _ _ _ _ _ _ _ Hinv Hch) as (Hopc & He & Hdef & x' & k & k' & Hx & _).
    rewrite (rf_info _ _ _ Hx) in Hex. inversion Hex; subst x'. clear Hex.
    destruct (rf_cover _ _ _ Hx) as (covered & Hcov & Hall); [intros E; rewrite E in Hin; contradiction|].
    rewrite forallb_forall in Hall. assert (Hrc := region_in_In _ _ (Hall r Hin)).
    assert (Hmemne : e_mem e <> ""%string).
    { intros E. rewrite E in Hcov. cbv in Hcov. discriminate. }
    (* unfold charge to get at the requested size *)
    revert Hch. unfold charge.
    set (opc0 := code_at (v_code env) (f_pc fr)). set (e0 := nth (Z.to_nat opc0) (c_tab cfg) noE).
    destruct (negb (e_def e0)); [discriminate|].
    destruct (zlen (f_stk fr) <? e_min e0); [discriminate|].
    destruct (e_max e0 <? zlen (f_stk fr)); [discriminate|].
    destruct (v_ro env && _); [discriminate|].
    destruct (f_gas fr <? e_gas e0); [discriminate|].
    destruct (msize_of (e_mem e0) (f_stk fr)) as [f|msize] eqn:Ems; [discriminate|].
    destruct (dyn_of cfg orc opc0 e0 env fr w msize (f_gas fr - e_gas e0)) as [[[[cost fee'] t]|]|]; try discriminate.
    destruct (f_gas fr - e_gas e0 <? cost); [discriminate|].
    intros H. inversion H; subst opc e fr1 cgt. clear H. cbn [f_mlen].
    destruct (msize_of_cover _ _ _ Hmemne Ems) as (rs & sz & Hrs & Hsz & Hle).
    rewrite Hcov in Hrs. inversion Hrs; subst rs.
    destruct (regions_size_ge _ _ _ Hsz r Hrc) as (x0 & Hx0 & Hx0le).
    destruct Hinv as (_ & Hs & _ & kk & (Hkk & Hml & _)).
    assert (Hlen0 : 0 <= region_len (f_stk fr) r).
    { unfold region_len. destruct (snd r); [apply sget_nonneg; exact Hs|lia]. }
    destruct (region_size_covers _ _ _ Hs Hlen0 ltac:(destruct (snd r); [exact I|lia]) Hx0) as [Hz|[Hcov2 _]]; [left; exact Hz|right].
    rewrite <- Hcov2.
    assert (0 <= x0) by (eapply region_size_nonneg; exact Hx0).
    destruct (Z.ltb_spec 0 msize); destruct (Z.ltb_spec (f_mlen fr) msize); cbn [andb]; lia.
  Qed.
End Bounds.

(* an access the extractor found, justified by the declared regions, stays inside the resized memory:
   either it is a declared region, or it is a literal window behind a guard on the region's length *)
Definition access_len (s : list Z) (a : access) : Z :=
  match snd a with LArg j => sget s j | LConst n => n end.

Lemma acc_justified_sound guards regs s mlen i c sz :
  acc_justified guards regs (i, c, sz) = true ->
  nonneg_stack s ->
  (forall r, In r regs -> region_len s r = 0 \/ sget s (fst r) + region_len s r <= mlen) ->
  (forall g, In g guards -> snd g <= sget s (fst g)) ->        (* the guards did not return on this path *)
  access_len s (i, c, sz) = 0 \/ sget s i + c + access_len s (i, c, sz) <= mlen.
Proof.
  unfold acc_justified. intros H Hs Hreg Hg. apply orb_prop in H. destruct H as [H|H].
  - apply andb_prop in H. destruct H as [Hc Hin]. apply Z.eqb_eq in Hc. subst c.
    apply region_in_In in Hin. destruct (Hreg _ Hin) as [Hz|Hle].
    + left. exact Hz.
    + right. unfold access_len, region_len in *. cbn [fst snd] in *. lia.
  - destruct sz as [j|n]; [discriminate|].
    apply andb_prop in H. destruct H as [H Hex]. apply andb_prop in H. destruct H as [Hc Hn].
    apply Z.leb_le in Hc. apply Z.ltb_lt in Hn.
    apply existsb_exists in Hex. destruct Hex as [[i' [j|m]] [Hin Hr]]; [|discriminate].
    apply andb_prop in Hr. destruct Hr as [Hi Hgd]. apply Nat.eqb_eq in Hi. subst i'.
    apply existsb_exists in Hgd. destruct Hgd as [[gj K] [HinG HK]]. cbn [fst snd] in HK.
    apply andb_prop in HK. destruct HK as [Hj HKle]. apply Nat.eqb_eq in Hj. subst gj. apply Z.leb_le in HKle.
    specialize (Hg _ HinG). cbn [fst snd] in Hg.
    right. unfold access_len. cbn [snd].
    destruct (Hreg _ Hin) as [Hz|Hle]; unfold region_len in *; cbn [fst snd] in *; lia.
Qed.

(* ---- conversions to uint64 ---------------------------------------------------------------------------- *)
(* RETURNDATACOPY: when the code's bound check passes, the slice returnData[offset : offset+length] is inside
   the return data and offset+length is below 2^64 (the uint64 conversions are the identity).  [len < 2^64] is
   what the interpreter has established before execute runs: memoryReturnDataCopy = calcMemSize64(_, length)
   reports an overflow for any longer length (see region_size_covers). *)
Lemma retdata_guard_sound rds off len :
  0 <= off -> 0 <= len < U64 -> 0 <= rds ->
  retdata_guard rds off len = true -> off + len <= rds /\ off < U64 /\ off + len < U64.
Proof.
  unfold retdata_guard. intros Ho Hl Hr H.
  apply andb_prop in H. destruct H as [H1 H2]. apply andb_prop in H2. destruct H2 as [H2 H3].
  apply Z.ltb_lt in H1. apply Z.ltb_lt in H2. apply Z.leb_le in H3.
  assert (HU := U64_val). rewrite HU in *.
  assert (Hsm : (off + len) mod W256 = off + len).
  { apply Z.mod_small. split; [lia|]. assert (W256 = 2 ^ 256) by reflexivity.
    assert (2 ^ 65 < 2 ^ 256) by (apply Z.pow_lt_mono_r; lia). change (2 ^ 65) with 36893488147419103232 in *. lia. }
  rewrite Hsm in *. lia.
Qed.

(* computing the end in uint64 instead would accept a range that is not inside the return data *)
Lemma retdata_guard_wrap64_refuted :
  retdata_guard_wrap64 0 (2 ^ 64 - 1) 1 = true /\ retdata_guard 0 (2 ^ 64 - 1) 1 = false.
Proof. split; vm_compute; reflexivity. Qed.

(* every offset and length an execute function converts with Uint64() for a memory access is below 2^64
   once the interpreter has charged for the operation: the conversions lose nothing *)
Section Fits.
  Context {W : Type}.
  Variable cfg : config.
  Variable orc : oracle W.
  Hypothesis Hwf : wf_table (c_tab cfg) = true.

  Theorem access_fits_u64 env fr w opc e fr1 cgt x r :
    inv fr -> charge cfg orc env fr w = inr (opc, e, fr1, cgt) ->
    exec_info (e_exec e) opc = Some x -> In r (x_mem x) ->
    (match snd r with LConst n => 0 <= n < U64 | LArg _ => True end) ->
    region_len (f_stk fr) r = 0 \/
    (sget (f_stk fr) (fst r) < U64 /\ region_len (f_stk fr) r < U64 /\ sget (f_stk fr) (fst r) + region_len (f_stk fr) r < U64).
  Proof.
    intros Hinv Hch Hex Hin Hc.
    destruct (access_in_bounds cfg orc Hwf _ _ _ _ _ _ _ _ _ Hinv Hch Hex Hin Hc) as [Hz|Hle]; [left; exact Hz|right].
    destruct (charge_facts cfg orc Hwf _ _ _ _ _ _ _ Hinv Hch) as (_ & _ & _ & x' & k & k' & _ & _ & _ & _ & _ & _ & Hmk' & _).
    destruct Hmk' as (Hk' & Hml & _).
    destruct Hinv as (_ & Hs & _).
    assert (Ho : 0 <= sget (f_stk fr) (fst r)) by (apply sget_nonneg; exact Hs).
    assert (Hl : 0 <= region_len (f_stk fr) r).
    { unfold region_len. destruct (snd r); [apply sget_nonneg; exact Hs|lia]. }
    rewrite U64_val. change (2 ^ 32) with 4294967296 in Hk'. lia.
  Qed.
End Fits.
