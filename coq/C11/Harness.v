(* C11 — evaluation of the model on the harness's observations of the real EVM.

   tcase families:
     TEntry  a row of the live jump table           = the row of Gen.tables, and it satisfies wf_entry
     TMem    a memorySize function on a stack       = regions_size of its operand regions
     TDyn    a dynamicGas function on a state       = dyn_gas (cost and error/no error)
     TExec   an execute function as read by the go/ast extractor = exec_info (arity, memory accesses, class)
     TPre    RequiredGas of a precompiled contract on an input = pre_gas
     TArity  stack behaviour of an opcode observed through the interpreter = minStack / pushes of its row
     TRun    a whole program run by evm.Call        = call_top with the concrete oracle below
   The concrete oracle gives word semantics to the opcode subset the harness's program generator uses;
   anything else makes the model answer FUnmodelled, which never matches an observation. *)
From Coq Require Import ZArith List Bool String Lia NArith.
From V.Base Require Import Hex.
From V.C11 Require Import Model Gen Precompile.
Import ListNotations.
Local Open Scope Z_scope.

Definition SELF : Z := 3235774465.       (* 0xc0de0001: the account the harness installs the code at *)

Definition bool_eqb (a b : bool) : bool := if a then b else negb b.

Definition entry_eqb (a b : entry) : bool :=
  bool_eqb (e_def a) (e_def b) && String.eqb (e_exec a) (e_exec b) && String.eqb (e_dyn a) (e_dyn b)
  && String.eqb (e_mem a) (e_mem b) && (e_gas a =? e_gas b) && (e_min a =? e_min b) && (e_max a =? e_max b)
  && bool_eqb (e_halts a) (e_halts b) && bool_eqb (e_jumps a) (e_jumps b) && bool_eqb (e_writes a) (e_writes b)
  && bool_eqb (e_reverts a) (e_reverts b) && bool_eqb (e_returns a) (e_returns b).

Definition table_of (fork : Z) : list entry := nth (Z.to_nat fork) tables [].
Definition row_of (fork opc : Z) : entry := nth (Z.to_nat opc) (table_of fork) noE.

(* ---- the concrete oracle ----------------------------------------------------------------------- *)
Fixpoint jd_scan (c : list Z) (skip : nat) (pos target : Z) : bool :=
  match c with
  | [] => false
  | b :: r =>
    match skip with
    | S k => jd_scan r k (pos + 1) target
    | O => if pos =? target then b =? 91
           else jd_scan r (if (96 <=? b) && (b <=? 127) then Z.to_nat (b - 95) else 0%nat) (pos + 1) target
    end
  end.
Definition valid_jumpdest (c : list Z) (d : Z) : bool := (d <? U64) && jd_scan c 0 0 d.

Definition be_word (bs : list Z) : Z := fold_left (fun acc b => acc * 256 + b) bs 0.
(* makePush / opPush1: n bytes after the opcode, clipped at the end of the code and right-padded *)
Definition push_value (c : list Z) (pc n : Z) : Z :=
  let avail := firstn (Z.to_nat n) (skipn (Z.to_nat (pc + 1)) c) in
  be_word avail * 256 ^ (n - zlen avail).

Definition b2z (b : bool) : Z := if b then 1 else 0.

(* ---- the world of the concrete oracle --------------------------------------------------------------
   memory: per call depth, the list of byte strings written (latest first) or None once something the
   oracle does not know (call data, return data, hashes...) has been copied into it;
   warm: addresses the access list holds (gasAuthCall is the only EIP-2929 user in these tables);
   self: the code installed at the account under test (a CALL to it from init code runs that code);
   selfbal: the account under test holds a balance (top-level call carried value);
   sub: 0 main chain, 1 sub-chain with the creator not whitelisted, 2 whitelisted *)
Definition mem := list (Z * list Z).
Fixpoint read_byte (m : mem) (i : Z) : Z :=
  match m with
  | [] => 0
  | (o, bs) :: r => if (o <=? i) && (i <? o + zlen bs) then nth (Z.to_nat (i - o)) bs 0 else read_byte r i
  end.
Definition read_mem (m : mem) (off size : Z) : list Z :=
  map (fun k => read_byte m (off + Z.of_nat k)) (seq 0 (Z.to_nat size)).
Definition word_bytes (v : Z) : list Z := map (fun i => (v / 2 ^ (8 * (31 - Z.of_nat i))) mod 256) (seq 0 32).

Record world := mkWd { w_warm : list Z; w_mems : list (Z * option mem); w_self : list Z; w_selfbal : bool; w_sub : Z }.
Definition get_mem (w : world) (d : Z) : option mem :=
  match find (fun p => fst p =? d) (w_mems w) with Some (_, m) => m | None => Some [] end.
Definition set_mem (w : world) (d : Z) (m : option mem) : world :=
  mkWd (w_warm w) ((d, m) :: w_mems w) (w_self w) (w_selfbal w) (w_sub w).
Definition write_mem (w : world) (d : Z) (off : Z) (bs : list Z) : world :=
  match get_mem w d with Some m => set_mem w d (Some ((off, bs) :: m)) | None => w end.
Definition warm (w : world) (a : Z) : world :=
  mkWd (a :: w_warm w) (w_mems w) (w_self w) (w_selfbal w) (w_sub w).


(* opcodes whose pushed value the oracle does not know (hashes, state reads, block data, the arithmetic
   that property C10 owns, the staking opcodes): it answers 0; the program generator always POPs it *)
Definition opaque_ops : list Z :=
  [4; 5; 6; 7; 8; 9; 10; 11; 18; 19; 26; 27; 28; 29; 32; 48; 49; 50; 51; 52; 53; 58; 59; 63; 64; 65; 66; 67; 68; 69; 70; 71;
   72; 73; 74; 84; 92; 236; 237; 238; 239; 246].

Definition conc_plain (opc : Z) (v : env) (fr : frame) (w : world) : plain * world :=
  let s := f_stk fr in let a := sget s 0 in let b := sget s 1 in let c := sget s 2 in
  let pc := f_pc fr in let d := v_depth v in
  let ok1 (x : Z) := (POk [x mod W256] pc 0, w) in
  let ok0 := (POk [] pc 0, w) in
  let unknown_if (nz : bool) := (POk [] pc 0, if nz then set_mem w d None else w) in
  if opc =? 0 then ok0
  else if opc =? 1 then ok1 (a + b) else if opc =? 2 then ok1 (a * b) else if opc =? 3 then ok1 (a - b)
  else if opc =? 16 then ok1 (b2z (a <? b)) else if opc =? 17 then ok1 (b2z (b <? a))
  else if opc =? 20 then ok1 (b2z (a =? b)) else if opc =? 21 then ok1 (b2z (a =? 0))
  else if opc =? 22 then ok1 (Z.land a b) else if opc =? 23 then ok1 (Z.lor a b) else if opc =? 24 then ok1 (Z.lxor a b)
  else if opc =? 25 then ok1 (W256 - 1 - a)
  else if opc =? 54 then ok1 (v_insz v) else if opc =? 56 then ok1 (zlen (v_code v)) else if opc =? 61 then ok1 (f_rds fr)
  else if opc =? 55 then unknown_if (negb (c mod U64 =? 0))                 (* CALLDATACOPY *)
  else if opc =? 94 then unknown_if (negb (c mod U64 =? 0))                 (* MCOPY *)
  else if opc =? 60 then unknown_if (negb (sget s 3 mod U64 =? 0))          (* EXTCODECOPY *)
  else if opc =? 57 then                                                     (* CODECOPY: known bytes *)
    let l := c mod U64 in
    if l =? 0 then ok0
    else if 4096 <? l then unknown_if true
    else let src := if b <? U64 then zskipn b (v_code v) else [] in
         let bs := firstn (Z.to_nat l) (src ++ repeat 0 (Z.to_nat l)) in
         (POk [] pc 0, write_mem w d (a mod U64) bs)
  else if opc =? 62 then                                                     (* RETURNDATACOPY *)
    if retdata_guard (f_rds fr) b c then unknown_if (negb (c mod U64 =? 0)) else (PErr, w)
  else if (opc =? 80) || (opc =? 85) then ok0                                (* POP SSTORE *)
  else if opc =? 81 then                                                     (* MLOAD: known memory or opaque *)
    match get_mem w d with
    | Some m => ok1 (be_word (read_mem m (a mod U64) 32))
    | None => ok1 0
    end
  else if opc =? 82 then (POk [] pc 0, write_mem w d (a mod U64) (word_bytes b))      (* MSTORE *)
  else if opc =? 83 then (POk [] pc 0, write_mem w d (a mod U64) [b mod 256])         (* MSTORE8 *)
  else if opc =? 86 then if valid_jumpdest (v_code v) a then (POk [] a 0, w) else (PErr, w)
  else if opc =? 87 then
    if b =? 0 then (POk [] (pc + 1) 0, w)
    else if valid_jumpdest (v_code v) a then (POk [] a 0, w) else (PErr, w)
  else if opc =? 88 then ok1 pc else if opc =? 89 then ok1 (f_mlen fr) else if opc =? 90 then ok1 (f_gas fr)
  else if opc =? 91 then ok0 else if opc =? 95 then ok1 0
  else if opc =? 93 then (if v_ro v then (PUnsupported, w) else ok0)        (* TSTORE checks readOnly itself *)
  else if (96 <=? opc) && (opc <=? 127) then
    (POk [push_value (v_code v) pc (opc - 95)] (pc + (opc - 95)) 0, w)
  else if (128 <=? opc) && (opc <=? 143) then                               (* DUPn: pops n, pushes n+1 *)
    let n := Z.to_nat (opc - 127) in (POk (sget s (n - 1) :: firstn n s) pc 0, w)
  else if (144 <=? opc) && (opc <=? 159) then
    let n := Z.to_nat (opc - 143) in                                         (* SWAPn: pops n+1, pushes n+1 *)
    (POk (sget s n :: firstn (n - 1) (skipn 1 s) ++ [a]) pc 0, w)
  else if (160 <=? opc) && (opc <=? 164) then ok0                            (* LOGn *)
  else if (opc =? 243) || (opc =? 253) then (POk [] pc (if b mod U64 =? 0 then 0 else b mod U64), w)
  else if opc =? 255 then ok0
  else if existsb (Z.eqb opc) opaque_ops then ok1 0
  else (PUnsupported, w).

Definition conc_plan (opc : Z) (v : env) (fr : frame) (w : world) : plan * world :=
  let s := f_stk fr in let d := v_depth v in
  if (opc =? 241) || (opc =? 242) || (opc =? 244) || (opc =? 250) then
    let addr := sget s 1 mod 2 ^ 160 in
    let hasval := (opc =? 241) || (opc =? 242) in
    let value := if hasval then sget s 2 else 0 in
    let insz := (if hasval then sget s 4 else sget s 3) mod U64 in
    let retsz := (if hasval then sget s 6 else sget s 5) mod U64 in
    (* whatever comes back is copied to [retOffset, retOffset+retSize): unknown bytes *)
    let w1 := if retsz =? 0 then w else set_mem w d None in
    if negb (value =? 0) then ((if w_selfbal w then CUnsupported else CImm true false 0), w1)
    else if addr =? SELF then (CEnter (w_self w) (opc =? 250) insz, set_mem w1 (d + 1) (Some []))
    else
      let words := (insz + 31) / 32 in
      if addr =? 2 then (CPre (60 + 12 * words) true 32, w1)
      else if addr =? 3 then (CPre (600 + 120 * words) true 32, w1)
      else if addr =? 4 then (CPre (15 + 3 * words) true insz, w1)
      else if (1 <=? addr) && (addr <=? 18) then (CUnsupported, w1)
      else (CImm true true 0, w1)                                      (* no account / no code there *)
  else if opc =? 247 then                                              (* AUTHCALL: never authorised here *)
    (CImm false false 0, warm w (sget s 2 mod 2 ^ 160))
  else if (opc =? 240) || (opc =? 245) then                            (* CREATE / CREATE2 *)
    if w_sub w =? 1 then (CRefused, w)
    else
      let value := sget s 0 in let off := sget s 1 mod U64 in let size := sget s 2 mod U64 in
      if negb (value =? 0) then ((if w_selfbal w then CUnsupported else CImm true false 0), w)
      else if 8192 <? size then (CUnsupported, w)
      else match get_mem w d with
           | None => (CUnsupported, w)
           | Some m => (CEnter (read_mem m off size) false 0, set_mem w (d + 1) (Some []))
           end
  else (CUnsupported, w).

Definition conc_genv (opc : Z) (v : env) (fr : frame) (w : world) : genv :=
  let s := f_stk fr in
  let addr := (if opc =? 255 then sget s 0 else if opc =? 247 then sget s 2 else sget s 1) mod 2 ^ 160 in
  mkGenv (negb (addr =? SELF)) (negb (existsb (Z.eqb addr) (w_warm w))) (w_selfbal w).

Definition conc : oracle world := mkO world conc_genv conc_plain conc_plan (fun _ _ _ _ => 0).

Definition FUEL : nat := (600 * 1000)%nat.

Definition fault_code (f : fault) : Z :=
  match f with
  | FInvalidOp => 2 | FUnderflow => 3 | FOverflow => 4 | FWriteProt => 5 | FOOG => 6 | FGasOverflow => 7
  | FExec => 8 | FUnmodelled => 1000
  end.

(* ---- cases --------------------------------------------------------------------------------------- *)
(* the package-level variables of src/vm that have been reviewed: constants (big ints, errors, lookup tables,
   function values), the logger, and the two sync.Pools (safe for concurrent use).  None is scratch state
   written by an execute function.  A new package-level variable makes the TPkgVars case fail until reviewed. *)
Definition known_pkg_vars : list string :=
  ["contracts.go:PrecompiledAddresses"; "contracts.go:PrecompiledContracts"; "contracts.go:big0"; "contracts.go:big1"; "contracts.go:big1024"; "contracts.go:big16"; "contracts.go:big199680"; "contracts.go:big3072"; "contracts.go:big32"; "contracts.go:big4"; "contracts.go:big480"; "contracts.go:big64"; "contracts.go:big8"; "contracts.go:big96"; "contracts.go:errBLS12381G1PointSubgroup"; "contracts.go:errBLS12381G2PointSubgroup"; "contracts.go:errBLS12381InvalidFieldElementTopBytes"; "contracts.go:errBLS12381InvalidInputLength"; "contracts.go:errBadPairingInput"; "contracts.go:errBlake2FInvalidFinalFlag"; "contracts.go:errBlake2FInvalidInputLength"; "contracts.go:false32Byte"; "contracts.go:true32Byte"; "errors.go:ErrCodeStoreOutOfGas"; "errors.go:ErrContractAddressCollision"; "errors.go:ErrDepth"; "errors.go:ErrExecutionReverted"; "errors.go:ErrGasUintOverflow"; "errors.go:ErrInsufficientBalance"; "errors.go:ErrInvalidJump"; "errors.go:ErrInvalidRetsub"; "errors.go:ErrInvalidSubroutineEntry"; "errors.go:ErrMaxCodeSizeExceeded"; "errors.go:ErrNonceTooHigh"; "errors.go:ErrNonceTooLow"; "errors.go:ErrOutOfGas"; "errors.go:ErrReturnDataOutOfBounds"; "errors.go:ErrReturnStackExceeded"; "errors.go:ErrWriteProtection"; "evm.go:emptyCodeHash"; "evm.go:errSubChainNoCreate"; "gas_table.go:gasAuth"; "gas_table.go:gasCallDataCopy"; "gas_table.go:gasCodeCopy"; "gas_table.go:gasCreate"; "gas_table.go:gasExtCodeCopy"; "gas_table.go:gasMLoad"; "gas_table.go:gasMStore"; "gas_table.go:gasMStore8"; "gas_table.go:gasMcopy"; "gas_table.go:gasReturn"; "gas_table.go:gasReturnDataCopy"; "gas_table.go:gasRevert"; "init.go:logger"; "init.go:vmTracer"; "logger.go:errTraceLimitReached"; "opcodes.go:opCodeToString"; "opcodes.go:stringToOp"; "operations_acl.go:gasCallCodeEIP2929"; "operations_acl.go:gasCallEIP2929"; "operations_acl.go:gasDelegateCallEIP2929"; "operations_acl.go:gasStaticCallEIP2929"; "param.go:Bls12381MultiExpDiscountTable"; "stack.go:rStackPool"; "stack.go:stackPool"]%string.
Fixpoint str_list_eqb (a b : list string) : bool :=
  match a, b with
  | [], [] => true
  | x :: r, y :: t => String.eqb x y && str_list_eqb r t
  | _, _ => false
  end.

Inductive tcase :=
| TEntry (fork opc : Z) (e : entry)
| TMem (name : string) (stk : list Z) (has : bool) (size : Z) (ovf : bool)
| TDyn (p026 p015 : bool) (name : string) (opc : Z) (empty cold : bool) (stk : list Z)
       (mlen fee msize cgas : Z) (ok : bool) (cost : Z)
| TExec (opc : Z) (name : string) (g : ginfo)
| TPre (addr : Z) (input : string) (gas : Z)
| TPkgVars (names : list string)
| TArity (fork opc : Z) (min_obs post : Z) (limit_ok : bool)
| TRun (fork : Z) (p015 : bool) (code : string) (gas insz : Z) (cls gasleft rsz : Z)
| TRunW (fork : Z) (p015 : bool) (code : string) (gas insz : Z) (selfbal : bool) (sub : Z) (cls gasleft rsz : Z).

Definition code_of_hex (h : string) : list Z := map Z.of_N (unhex h).

Definition run_case (fork : Z) (p015 : bool) (code : string) (gas insz : Z) (selfbal : bool) (sub : Z) (cls gasleft rsz : Z) : bool :=
  let cfg := mkCfg (table_of fork) (4 <=? fork) p015 in
  let c := code_of_hex code in
  match fst (call_top cfg conc FUEL c gas insz (mkWd [] [] c selfbal sub)) with
  | ODone false g sz => (cls =? 0) && (g =? gasleft) && (sz =? rsz)
  | ODone true g sz => (cls =? 1) && (g =? gasleft) && (sz =? rsz)
  | OFault f => (cls =? fault_code f) && (gasleft =? 0)
  | OFuel => false
  end.

Definition check (c : tcase) : bool :=
  match c with
  | TEntry fork opc e => entry_eqb (row_of fork opc) e && wf_entry opc e
  | TMem name stk has size ovf =>
      match mem_size_named name stk with
      | None => negb has
      | Some None => false
      | Some (Some (sz, o)) => has && bool_eqb o ovf && (if o then true else sz =? size)
      end
  | TDyn p026 p015 name opc empty cold stk mlen fee msize cgas ok cost =>
      match dyn_gas magnify p026 p015 name opc (mkGenv empty cold false) stk mlen fee msize cgas with
      | None => false
      | Some None => negb ok
      | Some (Some (g, _, _)) => ok && (g =? cost)
      end
  | TExec opc name g => exec_matches name opc g
  | TPkgVars names => str_list_eqb names known_pkg_vars
  | TPre addr input gas => pre_gas addr (map Z.of_N (unhex input)) =? gas
  | TArity fork opc min_obs post limit_ok =>
      let e := row_of fork opc in
      e_def e && (min_obs =? e_min e) && ((post =? -1) || (post =? pushes_of e)) && limit_ok
  | TRun fork p015 code gas insz cls gasleft rsz => run_case fork p015 code gas insz false 0 cls gasleft rsz
  | TRunW fork p015 code gas insz selfbal sub cls gasleft rsz => run_case fork p015 code gas insz selfbal sub cls gasleft rsz
  end.
