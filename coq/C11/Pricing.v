(* C11 — proofs. Part 5: what a byte of memory costs, exactly, per fork configuration.

   F(w) = 3w + w^2/512 is the Yellow Paper memory fee for w words; D = F(new) - F(old) the fee of growing.
   memoryGasCost returns m*D with m = 30 once Proposal026 is active (1 before).
   The functions that add a per-word/per-byte component multiply their SUM by m again
   (gas_table.go: memoryCopierGas, makeGasLog, gasSha3, gasCreate2), so under Proposal026 memory growth
   through CALLDATACOPY/CODECOPY/EXTCODECOPY/RETURNDATACOPY/MCOPY/LOGn/SHA3/CREATE2 is priced at
   30 * 30 = 900 times D, while through MLOAD/MSTORE/MSTORE8/RETURN/REVERT/CREATE/AUTH and the call family
   it is priced at 30 * D.  This is how the code prices it (reproduced, compared on every run); the
   theorems below state it for every input on which the functions return a price at all. *)
From Coq Require Import ZArith List Bool String Lia.
From V.C11 Require Import Model Arith.
Import ListNotations.
Local Open Scope Z_scope.

Definition grow (k w : Z) : Z := mem_fee (Z.max k w) - mem_fee k.

Theorem pure_price p mlen fee k w g fee' :
  memok mlen fee k -> 0 <= w ->
  memory_gas_cost p mlen fee (32 * w) = Some (g, fee') -> g = magn p * grow k w.
Proof. intros Hm Hw H. destruct (memory_gas_cost_sound _ _ _ _ _ _ _ Hm Hw H) as (_ & _ & E). exact E. Qed.

Theorem copier_price p mlen fee k w words c fee' t :
  memok mlen fee k -> 0 <= w -> 0 <= words ->
  copier_gas magnify p mlen fee (32 * w) words = Some (c, fee', t) ->
  c = magn p * (magn p * grow k w + 3 * to_word_size words) /\ t = 0 /\ c < U64.
Proof.
  intros Hm Hw Hwords. unfold copier_gas.
  destruct (memory_gas_cost p mlen fee (32 * w)) as [[g f1]|] eqn:E; [|discriminate].
  destruct (memory_gas_cost_sound _ _ _ _ _ _ _ Hm Hw E) as (H1 & H2 & H3).
  destruct Hm as (Hk & _ & _). assert (Hd := delta_nonneg k w ltac:(lia)). assert (Hmg := magn_pos p).
  assert (0 <= g) by (subst g; nia).
  destruct (u64 words); cbn [negb]; [|discriminate].
  destruct (safe_mul (to_word_size words) 3) as [x o1] eqn:E1. destruct o1; [discriminate|].
  apply safe_mul_ok in E1; [|apply to_word_size_nonneg; assumption|lia]. assert (Hx := to_word_size_nonneg words Hwords).
  destruct (safe_add g x) as [g2 o2] eqn:E2. destruct o2; [discriminate|].
  apply safe_add_ok in E2; [|assumption|lia].
  destruct (magnify p g2) as [g3|] eqn:E3; [|discriminate].
  intros Hr. inversion Hr; subst c fee' t. clear Hr.
  assert (Hv : g3 = magn p * g2) by (apply magnify_sound; [lia|exact E3]).
  destruct E1 as [E1 E1b]. destruct E2 as [E2 E2b].
  split; [unfold grow; subst g3 g2 g x; lia|]. split; [reflexivity|].
  unfold magnify in E3. destruct p.
  - destruct (safe_mul g2 MAGNIFICATION) as [v o] eqn:Es. destruct o; [discriminate|]. inversion E3; subst v.
    apply safe_mul_ok in Es; [|lia|unfold MAGNIFICATION; lia]. lia.
  - inversion E3; subst g3. lia.
Qed.

Theorem hash_price p mlen fee k w size c fee' t :
  memok mlen fee k -> 0 <= w -> 0 <= size ->
  hash_gas magnify p mlen fee (32 * w) size = Some (c, fee', t) ->
  c = magn p * (magn p * grow k w + 6 * to_word_size size) /\ t = 0.
Proof.
  intros Hm Hw Hsz. unfold hash_gas.
  destruct (memory_gas_cost p mlen fee (32 * w)) as [[g f1]|] eqn:E; [|discriminate].
  destruct (memory_gas_cost_sound _ _ _ _ _ _ _ Hm Hw E) as (H1 & H2 & H3).
  destruct Hm as (Hk & _ & _). assert (Hd := delta_nonneg k w ltac:(lia)). assert (Hmg := magn_pos p).
  assert (0 <= g) by (subst g; nia).
  destruct (u64 size); cbn [negb]; [|discriminate].
  destruct (safe_mul (to_word_size size) 6) as [x o1] eqn:E1. destruct o1; [discriminate|].
  apply safe_mul_ok in E1; [|apply to_word_size_nonneg; assumption|lia]. assert (Hx := to_word_size_nonneg size Hsz).
  destruct (safe_add g x) as [g2 o2] eqn:E2. destruct o2; [discriminate|].
  apply safe_add_ok in E2; [|assumption|lia].
  destruct (magnify p g2) as [g3|] eqn:E3; [|discriminate].
  intros Hr. inversion Hr; subst c fee' t. clear Hr.
  assert (Hv : g3 = magn p * g2) by (apply magnify_sound; [lia|exact E3]).
  destruct E1 as [E1 E1b]. destruct E2 as [E2 E2b].
  split; [unfold grow; subst g3 g2 g x; lia|reflexivity].
Qed.

Theorem log_price p n mlen fee k w size c fee' t :
  memok mlen fee k -> 0 <= w -> 0 <= size -> 0 <= n ->
  log_gas magnify p n mlen fee (32 * w) size = Some (c, fee', t) ->
  c = magn p * (magn p * grow k w + 375 + 375 * n + 8 * size) /\ t = 0.
Proof.
  intros Hm Hw Hsz Hn. unfold log_gas.
  destruct (u64 size); cbn [negb]; [|discriminate].
  destruct (memory_gas_cost p mlen fee (32 * w)) as [[g f1]|] eqn:E; [|discriminate].
  destruct (memory_gas_cost_sound _ _ _ _ _ _ _ Hm Hw E) as (H1 & H2 & H3).
  destruct Hm as (Hk & _ & _). assert (Hd := delta_nonneg k w ltac:(lia)). assert (Hmg := magn_pos p).
  assert (0 <= g) by (subst g; nia).
  destruct (safe_add g 375) as [g1 o1] eqn:E1. destruct o1; [discriminate|]. apply safe_add_ok in E1; [|assumption|lia].
  destruct (safe_add g1 (n * 375)) as [g2 o2] eqn:E2. destruct o2; [discriminate|]. apply safe_add_ok in E2; [|lia|lia].
  destruct (safe_mul size 8) as [ms o3] eqn:E3. destruct o3; [discriminate|]. apply safe_mul_ok in E3; [|assumption|lia].
  destruct (safe_add g2 ms) as [g3 o4] eqn:E4. destruct o4; [discriminate|]. apply safe_add_ok in E4; [|lia|lia].
  destruct (magnify p g3) as [g4|] eqn:E5; [|discriminate].
  intros Hr. inversion Hr; subst c fee' t. clear Hr.
  assert (Hv : g4 = magn p * g3) by (apply magnify_sound; [lia|exact E5]).
  destruct E1 as [E1 E1b]. destruct E2 as [E2 E2b]. destruct E3 as [E3 E3b]. destruct E4 as [E4 E4b].
  split; [unfold grow; subst g4 g3 g2 g1 ms g; lia|reflexivity].
Qed.

(* the two configurations, spelled out for the copier operations *)
Corollary copier_price_p026 mlen fee k w words c fee' t :
  memok mlen fee k -> 0 <= w -> 0 <= words ->
  copier_gas magnify true mlen fee (32 * w) words = Some (c, fee', t) ->
  c = 900 * grow k w + 90 * to_word_size words.
Proof.
  intros A B C H. destruct (copier_price true _ _ _ _ _ _ _ _ A B C H) as [E _]. rewrite E. unfold magn, MAGNIFICATION. lia.
Qed.
Corollary copier_price_before_p026 mlen fee k w words c fee' t :
  memok mlen fee k -> 0 <= w -> 0 <= words ->
  copier_gas magnify false mlen fee (32 * w) words = Some (c, fee', t) ->
  c = grow k w + 3 * to_word_size words.
Proof.
  intros A B C H. destruct (copier_price false _ _ _ _ _ _ _ _ A B C H) as [E _]. rewrite E. unfold magn. lia.
Qed.

(* and the price is refused (an out-of-gas failure) exactly when it would not fit 64 bits:
   no accepted request is ever priced below the formula *)
Theorem copier_refuses_only_overflow p mlen fee k w words :
  memok mlen fee k -> 0 <= w -> 32 * w <= MEM_LIMIT -> 0 <= words < U64 ->
  copier_gas magnify p mlen fee (32 * w) words = None ->
  U64 <= magn p * (magn p * grow k w + 3 * to_word_size words) \/ U64 <= magn p * grow k w + 3 * to_word_size words
  \/ U64 <= to_word_size words * 3.
Proof.
  intros Hm Hw Hlim Hwords. unfold copier_gas.
  destruct (memory_gas_cost p mlen fee (32 * w)) as [[g f1]|] eqn:E.
  - destruct (memory_gas_cost_sound _ _ _ _ _ _ _ Hm Hw E) as (H1 & H2 & H3).
    assert (Hu : u64 words = true) by (unfold u64; apply Z.ltb_lt; lia). rewrite Hu. cbn [negb].
    unfold safe_mul at 1. destruct (Z.leb_spec U64 (to_word_size words * 3)) as [L1|L1]; [intros _; right; right; exact L1|].
    rewrite (Z.mod_small (to_word_size words * 3)) by (split; [assert (0 <= to_word_size words) by (apply to_word_size_nonneg; lia); lia|exact L1]).
    unfold safe_add. destruct (Z.leb_spec U64 (g + to_word_size words * 3)) as [L2|L2].
    + intros _. right. left. unfold grow. subst g. lia.
    + assert (0 <= to_word_size words) by (apply to_word_size_nonneg; lia).
      destruct Hm as (Hk & _ & _). assert (Hd := delta_nonneg k w ltac:(lia)). assert (Hmg := magn_pos p).
      assert (0 <= g) by (subst g; nia).
      rewrite (Z.mod_small (g + to_word_size words * 3)) by lia.
      unfold magnify. destruct p.
      * unfold safe_mul. destruct (Z.leb_spec U64 ((g + to_word_size words * 3) * MAGNIFICATION)) as [L3|L3]; [|discriminate].
        intros _. left. unfold grow, magn. subst g. cbn [magn] in *. lia.
      * discriminate.
  - (* memoryGasCost refuses only above MEM_LIMIT *)
    exfalso. unfold memory_gas_cost in E. destruct (32 * w =? 0); [discriminate|].
    destruct (Z.ltb_spec MEM_LIMIT (32 * w)); [lia|]. destruct (mlen <? to_word_size (32 * w) * 32); discriminate.
Qed.
