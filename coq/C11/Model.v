(* C11 — EVM execution is total and resource-bounded: the model.

   Follows src/vm of go-rangers branch by branch:
     common.go        calcMemSize64 / calcMemSize64WithUint / toWordSize
     utility/math.go  SafeAdd / SafeMul
     memory_table.go  the memorySize functions (as lists of (offset, length) operand regions)
     gas_table.go     memoryGasCost, memoryCopierGas, makeGasLog, gasSha3, gasCreate2, gasExp*,
                      gasSStore*, gasCall/CallCode/DelegateCall/StaticCall/AuthCall, gasSelfdestruct,
                      magnifyGas (the checked multiplication by common.GasMagnification)
     gas.go           callGas / authCallGas (63/64 rule)
     jump_table.go / eips.go   the operation table (generated into Gen.v from the running binary)
     interpreter.go   EVMInterpreter.Run: one loop iteration = [step1]
     evm.go           Call / CallCode / DelegateCall / StaticCall / AuthCall / create:
                      depth check, child frame, gas returned to the caller = [resume]

   All uint64 arithmetic is written over Z with an explicit [mod 2^64] exactly where the Go code
   computes in uint64, so that a wrap-around in the code is a wrap-around in the model.

   What an opcode's execute function does to *data* (the values it pushes, where a jump lands,
   what the state database answers, which code a call target holds) is supplied by an [oracle];
   the theorems quantify over every oracle.  What it does to *resources* (stack height, gas,
   memory size, program counter progress, call depth) is fixed by the table row and the code
   here.  The only thing taken from an execute function without proof is its stack arity
   (pops = minStack, pushes = 1024 + minStack - maxStack); the harness validates it opcode by
   opcode against the real interpreter (stack probes). *)
From Coq Require Import ZArith List Bool String Lia.
Import ListNotations.
Local Open Scope Z_scope.

(* ---- constants (param.go, gas.go, common/constant.go) --------------------------------------- *)
Definition U64 : Z := 2 ^ 64.
Definition MAXU64 : Z := U64 - 1.
Definition W256 : Z := 2 ^ 256.
Definition STACK_LIMIT : Z := 1024.
Definition CALL_DEPTH : Z := 1024.          (* CallCreateDepth *)
Definition MAX_CODE : Z := 245760.          (* MaxCodeSize *)
Definition CREATE_DATA_GAS : Z := 200.
Definition CALL_STIPEND : Z := 2300.
Definition CALL_VALUE_GAS : Z := 9000.
Definition CALL_NEWACCT_GAS : Z := 25000.
Definition AUTHCALL_VALUE_GAS : Z := 6700.
Definition COLD_MINUS_WARM : Z := 2500.     (* ColdAccountAccessCostEIP2929 - WarmStorageReadCostEIP2929 *)
Definition MEM_LIMIT : Z := 137438953440.   (* 0x1FFFFFFFE0 *)
Definition MAGNIFICATION : Z := 30.         (* common.GasMagnification *)

(* ---- utility.SafeAdd / SafeMul ------------------------------------------------------------- *)
Definition safe_add (x y : Z) : Z * bool := ((x + y) mod U64, U64 <=? x + y).
Definition safe_mul (x y : Z) : Z * bool := ((x * y) mod U64, U64 <=? x * y).

(* ---- common.go ------------------------------------------------------------------------------ *)
Definition calc_mem_size_u (off len64 : Z) : Z * bool :=
  if len64 =? 0 then (0, false)
  else if negb (off <? U64) then (0, true)
  else let v := (off + len64) mod U64 in (v, v <? off).
Definition calc_mem_size (off l : Z) : Z * bool :=
  if negb (l <? U64) then (0, true) else calc_mem_size_u off l.
Definition to_word_size (size : Z) : Z :=
  if MAXU64 - 31 <? size then MAXU64 / 32 + 1 else (size + 31) / 32.

(* ---- memory_table.go: a memorySize function = the operand regions it covers ------------------ *)
Inductive lenspec := LArg (i : nat) | LConst (n : Z).
Definition region := (nat * lenspec)%type.
Definition sget (s : list Z) (i : nat) : Z := nth i s 0.     (* stack.Back(i); head = top *)
Definition region_size (s : list Z) (r : region) : Z * bool :=
  match snd r with
  | LArg j => calc_mem_size (sget s (fst r)) (sget s j)
  | LConst n => calc_mem_size_u (sget s (fst r)) n
  end.
Fixpoint regions_size (s : list Z) (rs : list region) : Z * bool :=
  match rs with
  | [] => (0, false)
  | r :: rest =>
      let '(x, o) := region_size s r in
      if o then (0, true)
      else let '(y, o2) := regions_size s rest in
           if o2 then (0, true) else (Z.max x y, false)
  end.

Definition memsize_regions (name : string) : option (list region) :=
  if String.eqb name "memorySha3" then Some [(0%nat, LArg 1)]
  else if String.eqb name "memoryCallDataCopy" then Some [(0%nat, LArg 2)]
  else if String.eqb name "memoryReturnDataCopy" then Some [(0%nat, LArg 2)]
  else if String.eqb name "memoryCodeCopy" then Some [(0%nat, LArg 2)]
  else if String.eqb name "memoryExtCodeCopy" then Some [(1%nat, LArg 3)]
  else if String.eqb name "memoryMLoad" then Some [(0%nat, LConst 32)]
  else if String.eqb name "memoryMStore8" then Some [(0%nat, LConst 1)]
  else if String.eqb name "memoryMStore" then Some [(0%nat, LConst 32)]
  else if String.eqb name "memoryMcopy" then Some [(0%nat, LArg 2); (1%nat, LArg 2)]
  else if String.eqb name "memoryCreate" then Some [(1%nat, LArg 2)]
  else if String.eqb name "memoryCreate2" then Some [(1%nat, LArg 2)]
  else if String.eqb name "memoryCall" then Some [(5%nat, LArg 6); (3%nat, LArg 4)]
  else if String.eqb name "memoryDelegateCall" then Some [(4%nat, LArg 5); (2%nat, LArg 3)]
  else if String.eqb name "memoryStaticCall" then Some [(4%nat, LArg 5); (2%nat, LArg 3)]
  else if String.eqb name "memoryReturn" then Some [(0%nat, LArg 1)]
  else if String.eqb name "memoryRevert" then Some [(0%nat, LArg 1)]
  else if String.eqb name "memoryLog" then Some [(0%nat, LArg 1)]
  else if String.eqb name "memoryAuthCall" then Some [(7%nat, LArg 8); (5%nat, LArg 6)]
  else if String.eqb name "memoryAuth" then Some [(1%nat, LArg 2)]
  else None.

(* value of the table's memorySize function on a stack: None = the row has no such function *)
Definition mem_size_named (name : string) (s : list Z) : option (option (Z * bool)) :=
  if String.eqb name "" then None
  else match memsize_regions name with
       | Some rs => Some (Some (regions_size s rs))
       | None => Some None                           (* a function this model does not know *)
       end.

(* ---- gas_table.go --------------------------------------------------------------------------- *)
Definition mem_fee (w : Z) : Z := w * 3 + (w * w) / 512.

(* memoryGasCost(mem, newMemSize): Some (fee, new lastGasCost) | None = ErrGasUintOverflow.
   [p026] = common.IsProposal026(). *)
Definition memory_gas_cost (p026 : bool) (mlen lastfee newsize : Z) : option (Z * Z) :=
  if newsize =? 0 then Some (0, lastfee)
  else if MEM_LIMIT <? newsize then None
  else
    let words := to_word_size newsize in
    let newsize := words * 32 in
    if mlen <? newsize then
      let square := (words * words) mod U64 in
      let lin := (words * 3) mod U64 in
      let total := (lin + square / 512) mod U64 in
      let fee := (total - lastfee) mod U64 in
      Some (if p026 then (fee * MAGNIFICATION) mod U64 else fee, total)
    else Some (0, lastfee).

(* magnifyGas (since fix a88a71e): SafeMul, overflow = error *)
Definition magnify (p026 : bool) (g : Z) : option Z :=
  if p026 then let '(v, o) := safe_mul g MAGNIFICATION in if o then None else Some v
  else Some g.
(* the code before the fix: unchecked uint64 product *)
Definition magnify_prefix (p026 : bool) (g : Z) : option Z :=
  if p026 then Some ((g * MAGNIFICATION) mod U64) else Some g.

Definition u64 (x : Z) : bool := x <? U64.

(* result of a dynamicGas function: (cost, new lastGasCost, callGasTemp) *)
Definition dynres := option (Z * Z * Z).

Section GasFns.
  Variable magf : bool -> Z -> option Z.      (* [magnify] (current code) or [magnify_prefix] *)
  Variable p026 : bool.

  (* memoryCopierGas(stackpos): [words] = stack.Back(stackpos) *)
  Definition copier_gas (mlen lastfee msize words : Z) : dynres :=
    match memory_gas_cost p026 mlen lastfee msize with
    | None => None
    | Some (g, fee') =>
      if negb (u64 words) then None
      else let '(w, o1) := safe_mul (to_word_size words) 3 in
           if o1 then None
           else let '(g2, o2) := safe_add g w in
                if o2 then None
                else match magf p026 g2 with Some g3 => Some (g3, fee', 0) | None => None end
    end.

  (* makeGasLog(n): requestedSize = stack.Back(1) *)
  Definition log_gas (n : Z) (mlen lastfee msize size : Z) : dynres :=
    if negb (u64 size) then None
    else match memory_gas_cost p026 mlen lastfee msize with
    | None => None
    | Some (g, fee') =>
      let '(g1, o1) := safe_add g 375 in
      if o1 then None
      else let '(g2, o2) := safe_add g1 (n * 375) in
      if o2 then None
      else let '(ms, o3) := safe_mul size 8 in
      if o3 then None
      else let '(g3, o4) := safe_add g2 ms in
      if o4 then None
      else match magf p026 g3 with Some g4 => Some (g4, fee', 0) | None => None end
    end.

  (* gasSha3 (wordsize operand = Back(1)) and gasCreate2 (Back(2)) *)
  Definition hash_gas (mlen lastfee msize size : Z) : dynres :=
    match memory_gas_cost p026 mlen lastfee msize with
    | None => None
    | Some (g, fee') =>
      if negb (u64 size) then None
      else let '(w, o1) := safe_mul (to_word_size size) 6 in
           if o1 then None
           else let '(g2, o2) := safe_add g w in
                if o2 then None
                else match magf p026 g2 with Some g3 => Some (g3, fee', 0) | None => None end
    end.
End GasFns.

Definition bit_len (x : Z) : Z := if x <=? 0 then 0 else Z.log2 x + 1.
(* gasExpEIP158 / gasExpFrontier: byte price 50 / 10 *)
Definition exp_gas (p026 : bool) (byteprice exponent lastfee : Z) : dynres :=
  let bytes := (bit_len exponent + 7) / 8 in
  let '(g, o) := safe_add ((bytes * byteprice) mod U64) 10 in
  if o then None
  else Some (if p026 then (g * MAGNIFICATION) mod U64 else g, lastfee, 0).

Definition sstore_gas (p026 p015 : bool) (lastfee : Z) : dynres :=
  Some (if p026 then 20000 * MAGNIFICATION else if p015 then 20000 else 0, lastfee, 0).

(* gas.go callGas(isEip150 = true, availableGas, base, callCost) *)
Definition call_gas (avail base callcost : Z) : Z :=
  let a := (avail - base) mod U64 in
  let g := a - a / 64 in
  if negb (u64 callcost) || (g <? callcost) then g else callcost.
(* gas.go authCallGas *)
Definition auth_call_gas (avail base callcost : Z) : Z :=
  let a := (avail - base) mod U64 in
  let g := a - a / 64 in
  if negb (u64 callcost) || (callcost =? 0) then g
  else if g <? callcost then g else callcost.

(* the bits of world state the gas functions read *)
Record genv := mkGenv { g_empty : bool; g_cold : bool; g_selfbal : bool }.

(* gasCall / gasCallCode: [base0] = value-dependent surcharges *)
Definition callish_gas (p026 : bool) (base0 : Z) (mlen lastfee msize cgas callcost : Z) : dynres :=
  match memory_gas_cost p026 mlen lastfee msize with
  | None => None
  | Some (mg, fee') =>
    let '(g, o) := safe_add base0 mg in
    if o then None
    else let t := call_gas cgas g callcost in
         let '(g2, o2) := safe_add g t in
         if o2 then None else Some (g2, fee', t)
  end.

Definition authcall_gas (p026 : bool) (ge : genv) (s : list Z) (mlen lastfee msize cgas : Z) : dynres :=
  match memory_gas_cost p026 mlen lastfee msize with
  | None => None
  | Some (mg, fee') =>
    let '(d0, o) := safe_add 0 mg in
    if o then None
    else
      let d1 := if g_cold ge then (d0 + COLD_MINUS_WARM) mod U64 else d0 in
      let tv := negb (sget s 3 =? 0) in
      let d2 := if tv then (d1 + AUTHCALL_VALUE_GAS) mod U64 else d1 in
      let d3 := if tv && g_empty ge then (d2 + CALL_NEWACCT_GAS) mod U64 else d2 in
      let t := auth_call_gas cgas d3 (sget s 1) in
      let '(d4, o2) := safe_add d3 t in
      if o2 then None else Some (d4, fee', t)
  end.

(* dynamicGas of a table row, by the (normalised) name of the Go function.
   outer None = the row has none; Some None... see [dyn_named]. *)
Definition dyn_gas (magf : bool -> Z -> option Z) (p026 p015 : bool) (name : string) (opc : Z)
           (ge : genv) (s : list Z) (mlen lastfee msize cgas : Z) : option dynres :=
  let pure := match memory_gas_cost p026 mlen lastfee msize with
              | Some (g, fee') => Some (g, fee', 0) | None => None end in
  if String.eqb name "pureMemoryGascost" then Some pure
  else if String.eqb name "memoryCopierGas" then
    Some (copier_gas magf p026 mlen lastfee msize (sget s (if opc =? 60 then 3%nat else 2%nat)))
  else if String.eqb name "makeGasLog" then Some (log_gas magf p026 (opc - 160) mlen lastfee msize (sget s 1))
  else if String.eqb name "gasSha3" then Some (hash_gas magf p026 mlen lastfee msize (sget s 1))
  else if String.eqb name "gasCreate2" then Some (hash_gas magf p026 mlen lastfee msize (sget s 2))
  else if String.eqb name "gasExpEIP158" then Some (exp_gas p026 50 (sget s 1) lastfee)
  else if String.eqb name "gasExpFrontier" then Some (exp_gas p026 10 (sget s 1) lastfee)
  else if String.eqb name "gasSStore" then Some (sstore_gas p026 p015 lastfee)
  else if String.eqb name "gasSStoreEIP2200" then Some (sstore_gas p026 p015 lastfee)
  else if String.eqb name "gasCall" then
    let tv := negb (sget s 2 =? 0) in
    Some (callish_gas p026 ((if tv && g_empty ge then CALL_NEWACCT_GAS else 0) + (if tv then CALL_VALUE_GAS else 0))
                      mlen lastfee msize cgas (sget s 0))
  else if String.eqb name "gasCallCode" then
    let tv := negb (sget s 2 =? 0) in
    Some (callish_gas p026 (if tv then CALL_VALUE_GAS else 0) mlen lastfee msize cgas (sget s 0))
  else if String.eqb name "gasDelegateCall" then Some (callish_gas p026 0 mlen lastfee msize cgas (sget s 0))
  else if String.eqb name "gasStaticCall" then Some (callish_gas p026 0 mlen lastfee msize cgas (sget s 0))
  else if String.eqb name "gasAuthCall" then Some (authcall_gas p026 ge s mlen lastfee msize cgas)
  else if String.eqb name "gasSelfdestruct" then
    Some (Some (5000 + (if g_empty ge && g_selfbal ge then CALL_NEWACCT_GAS else 0), lastfee, 0))
  else None.

(* which dynamicGas functions charge the memory expansion they are told about *)
Definition dyn_charges_memory (name : string) : bool :=
  existsb (String.eqb name)
    ["pureMemoryGascost"; "memoryCopierGas"; "makeGasLog"; "gasSha3"; "gasCreate2"; "gasCall"; "gasCallCode";
     "gasDelegateCall"; "gasStaticCall"; "gasAuthCall"]%string.

(* ---- the operation table -------------------------------------------------------------------- *)
Record entry := mkE {
  e_def : bool; e_exec : string; e_dyn : string; e_mem : string;
  e_gas : Z; e_min : Z; e_max : Z;
  e_halts : bool; e_jumps : bool; e_writes : bool; e_reverts : bool; e_returns : bool }.
Definition noE : entry := mkE false "" "" "" 0 0 0 false false false false false.

(* how an execute function uses the frame (instructions.go / eips.go, read by hand; the stack
   arities are validated by the harness's probes):
   XPlain: ordinary; XCall v: enters evm.Call-like code, [v] = index of the value operand if it
   has one and hands CallStipend to the callee; XCreate: evm.Create/Create2. *)
Inductive xclass := XPlain | XCall (stipend_on : option nat) | XCreate.
Record xinfo := mkX { x_pops : Z; x_pushes : Z; x_mem : list region; x_class : xclass }.

Definition plainx (a b : Z) := Some (mkX a b [] XPlain).
Definition exec_info (name : string) (opc : Z) : option xinfo :=
  let isin l := existsb (String.eqb name) l in
  if isin ["opStop"; "opJumpdest"; "opPrintF"]%string then plainx 0 0
  else if isin ["opAdd"; "opMul"; "opSub"; "opDiv"; "opSdiv"; "opMod"; "opSmod"; "opExp"; "opSignExtend"; "opLt"; "opGt";
                "opSlt"; "opSgt"; "opEq"; "opAnd"; "opOr"; "opXor"; "opByte"; "opSHL"; "opSHR"; "opSAR";
                "opStake"; "opUnStake"]%string then plainx 2 1
  else if isin ["opAddmod"; "opMulmod"]%string then plainx 3 1
  else if isin ["opIszero"; "opNot"; "opBalance"; "opCallDataLoad"; "opExtCodeSize"; "opExtCodeHash"; "opBlockhash";
                "opSload"; "opBlobHash"; "opTload"; "opGetStake"; "opUnStakeAll"; "opStakeNum"]%string then plainx 1 1
  else if isin ["opAddress"; "opOrigin"; "opCaller"; "opCallValue"; "opCallDataSize"; "opCodeSize"; "opGasprice";
                "opReturnDataSize"; "opCoinbase"; "opTimestamp"; "opNumber"; "opDifficulty"; "opGasLimit"; "opChainID";
                "opSelfBalance"; "opPc"; "opMsize"; "opGas"; "opBaseFee"; "opBlobBaseFee"; "opPush0"; "opPush1";
                "makePush"]%string then plainx 0 1
  else if isin ["opPop"; "opJump"; "opSuicide"]%string then plainx 1 0
  else if isin ["opSstore"; "opTstore"; "opJumpi"]%string then plainx 2 0
  else if String.eqb name "opSha3" then Some (mkX 2 1 [(0%nat, LArg 1)] XPlain)
  else if isin ["opCallDataCopy"; "opCodeCopy"; "opReturnDataCopy"]%string then Some (mkX 3 0 [(0%nat, LArg 2)] XPlain)
  else if String.eqb name "opExtCodeCopy" then Some (mkX 4 0 [(1%nat, LArg 3)] XPlain)
  else if String.eqb name "opMcopy" then Some (mkX 3 0 [(0%nat, LArg 2); (1%nat, LArg 2)] XPlain)
  else if String.eqb name "opMload" then Some (mkX 1 1 [(0%nat, LConst 32)] XPlain)
  else if String.eqb name "opMstore" then Some (mkX 2 0 [(0%nat, LConst 32)] XPlain)
  else if String.eqb name "opMstore8" then Some (mkX 2 0 [(0%nat, LConst 1)] XPlain)
  else if isin ["opReturn"; "opRevert"]%string then Some (mkX 2 0 [(0%nat, LArg 1)] XPlain)
  else if String.eqb name "makeLog" then Some (mkX (opc - 160 + 2) 0 [(0%nat, LArg 1)] XPlain)
  else if String.eqb name "makeDup" then plainx (opc - 127) (opc - 126)
  else if String.eqb name "makeSwap" then plainx (opc - 142) (opc - 142)
  (* opAuth reads [offset, offset+128) when length >= 128: inside [offset, offset+length) *)
  else if String.eqb name "opAuth" then Some (mkX 3 1 [(1%nat, LArg 2)] XPlain)
  else if String.eqb name "opCreate" then Some (mkX 3 1 [(1%nat, LArg 2)] XCreate)
  else if String.eqb name "opCreate2" then Some (mkX 4 1 [(1%nat, LArg 2)] XCreate)
  else if isin ["opCall"; "opCallCode"]%string then Some (mkX 7 1 [(3%nat, LArg 4); (5%nat, LArg 6)] (XCall (Some 2%nat)))
  else if isin ["opDelegateCall"; "opStaticCall"]%string then Some (mkX 6 1 [(2%nat, LArg 3); (4%nat, LArg 5)] (XCall None))
  else if String.eqb name "opAuthCall" then Some (mkX 9 1 [(5%nat, LArg 6); (7%nat, LArg 8)] (XCall None))
  else None.

Definition lenspec_eqb (a b : lenspec) : bool :=
  match a, b with
  | LArg i, LArg j => Nat.eqb i j
  | LConst n, LConst m => n =? m
  | _, _ => false
  end.
Definition region_eqb (a b : region) : bool := Nat.eqb (fst a) (fst b) && lenspec_eqb (snd a) (snd b).
Definition region_in (r : region) (rs : list region) : bool := existsb (region_eqb r) rs.

(* the obligations on one table row *)
Definition wf_entry (opc : Z) (e : entry) : bool :=
  if negb (e_def e) then true
  else match exec_info (e_exec e) opc with
  | None => false                                        (* an execute function nobody has read *)
  | Some x =>
    (e_min e =? x_pops x) && (e_max e =? STACK_LIMIT + x_pops x - x_pushes x)
    && (0 <=? x_pops x) && (0 <=? x_pushes x) && (x_pushes x <=? x_pops x + 1) && (x_pops x <=? STACK_LIMIT)
    && (0 <=? e_gas e) && (e_gas e <? 2 ^ 32)
    (* every memory region the execute function touches is covered by the row's memorySize *)
    && match x_mem x with
       | [] => true
       | regs => match memsize_regions (e_mem e) with
                 | Some covered => forallb (fun r => region_in r covered) regs
                 | None => false
                 end
       end
    (* a row with a memorySize function has a dynamicGas function that charges for it *)
    && (String.eqb (e_mem e) "" || (match memsize_regions (e_mem e) with Some _ => true | None => false end
                                    && dyn_charges_memory (e_dyn e)))
    (* the dynamicGas function is one this model knows *)
    && (String.eqb (e_dyn e) ""
        || match dyn_gas magnify false false (e_dyn e) opc (mkGenv false false false) [] 0 0 0 0 with
           | Some _ => true | None => false end)
    (* the LOG gas function takes its topic count from the opcode number *)
    && (negb (String.eqb (e_dyn e) "makeGasLog") || (160 <=? opc))
    (* an operation that can move the program counter backwards must cost gas *)
    && (negb (e_jumps e) || (1 <=? e_gas e))
    (* calls and creates cost gas as well, push one result, and a call row is paired with a gas function
       that computes the callee's gas (evm.callGasTemp) and, when the callee gets the stipend, charges
       the value-transfer surcharge *)
    && (match x_class x with
        | XPlain => true
        | XCall (Some _) => (1 <=? e_gas e) && (x_pushes x =? 1) && existsb (String.eqb (e_dyn e)) ["gasCall"; "gasCallCode"]%string
        | XCall None => (1 <=? e_gas e) && (x_pushes x =? 1)
                        && existsb (String.eqb (e_dyn e)) ["gasDelegateCall"; "gasStaticCall"; "gasAuthCall"]%string
        | XCreate => (1 <=? e_gas e) && (x_pushes x =? 1)
        end)
  end.

Fixpoint wf_table_from (opc : Z) (t : list entry) : bool :=
  match t with
  | [] => true
  | e :: r => wf_entry opc e && wf_table_from (opc + 1) r
  end.
(* opcode 0 is what GetOp returns past the end of the code: it must end the frame *)
Definition stop_halts (t : list entry) : bool :=
  let e := nth 0 t noE in
  e_def e && e_halts e && negb (e_reverts e)
  && match exec_info (e_exec e) 0 with Some x => match x_class x with XPlain => true | _ => false end | None => false end.
Definition wf_table (t : list entry) : bool := (Z.of_nat (List.length t) =? 256) && wf_table_from 0 t && stop_halts t.

(* ---- operands that index something other than memory: the bound check of opReturnDataCopy --------------
   offset64, overflow := dataOffset.Uint64WithOverflow(); end := dataOffset + length as a 256-bit sum;
   end64, overflow := end.Uint64WithOverflow(); fail unless len(returnData) >= end64.  Operands are unbounded
   Z here; every conversion the code performs is explicit. *)
Definition retdata_guard (rds data_off len : Z) : bool :=
  (data_off <? U64) && (let e := (data_off + len) mod W256 in (e <? U64) && (e <=? rds)).
(* the same check with the end computed in uint64 (wraps): what the code must not do *)
Definition retdata_guard_wrap64 (rds data_off len : Z) : bool :=
  (data_off <? U64) && ((data_off + len mod U64) mod U64 <=? rds).

(* ---- what the go/ast extractor (harness/c11ext) reads off an execute function's body ------------------
   deepest stack slot touched and net stack effect as a + b*n (n = constructor parameter of makeLog/makeDup/
   makeSwap/makePush), memory accesses (offset operand, literal addend, size operand or literal),
   guards `if operand.Uint64() < K { return }`, the evm entry point it calls, the operand guarding CallStipend.
   [exec_matches] is the comparison of that with exec_info; the harness evaluates it on every run. *)
Definition access := (nat * Z * lenspec)%type.
Record ginfo := mkG { g_deep : Z * Z; g_delta : Z * Z; g_acc : list access; g_guards : list (nat * Z);
                      g_class : Z; g_stip : option nat; g_ok : bool }.

Definition maker_n (name : string) (opc : Z) : Z :=
  if String.eqb name "makeLog" then opc - 160
  else if String.eqb name "makeDup" then opc - 127
  else if String.eqb name "makeSwap" then opc - 143
  else if String.eqb name "makePush" then opc - 95
  else 0.

(* an access is justified by the declared regions: either it is one of them, or it reads a literal window
   [off+c, off+c+n) of a region (off, LArg j) behind a guard that operand j is at least c+n *)
Definition acc_justified (guards : list (nat * Z)) (regs : list region) (a : access) : bool :=
  let '(i, c, sz) := a in
  ((c =? 0) && region_in (i, sz) regs)
  || match sz with
     | LConst n =>
         (0 <=? c) && (0 <? n)
         && existsb (fun r => match r with
                              | (i', LArg j) => Nat.eqb i i' && existsb (fun g => Nat.eqb (fst g) j && (c + n <=? snd g)) guards
                              | _ => false
                              end) regs
     | LArg _ => false
     end.

Definition class_code (c : xclass) : Z :=
  match c with XPlain => 0 | XCall None => 1 | XCall (Some _) => 2 | XCreate => 3 end.
Definition opt_nat_eqb (a b : option nat) : bool :=
  match a, b with Some x, Some y => Nat.eqb x y | None, None => true | _, _ => false end.

Definition exec_matches (name : string) (opc : Z) (g : ginfo) : bool :=
  match exec_info name opc with
  | None => false
  | Some x =>
    let n := maker_n name opc in
    g_ok g
    && (x_pops x =? fst (g_deep g) + snd (g_deep g) * n)
    && (x_pushes x =? x_pops x + fst (g_delta g) + snd (g_delta g) * n)
    && (class_code (x_class x) =? g_class g)
    && opt_nat_eqb (match x_class x with XCall s => s | _ => None end) (g_stip g)
    && forallb (acc_justified (g_guards g) (x_mem x)) (g_acc g)
    && forallb (fun r => existsb (acc_justified (g_guards g) [r]) (g_acc g)) (x_mem x)
  end.

(* ---- the interpreter ------------------------------------------------------------------------- *)
Record config := mkCfg { c_tab : list entry; c_p026 : bool; c_p015 : bool }.
Record env := mkEnv { v_code : list Z; v_ro : bool; v_depth : Z; v_insz : Z }.
Record frame := mkF { f_pc : Z; f_stk : list Z; f_mlen : Z; f_fee : Z; f_gas : Z; f_rds : Z }.

Inductive fault := FInvalidOp | FUnderflow | FOverflow | FWriteProt | FOOG | FGasOverflow | FExec | FUnmodelled.
Inductive outcome :=
| ODone (reverted : bool) (gas : Z) (retsize : Z)   (* STOP/RETURN/SELFDESTRUCT or REVERT *)
| OFault (f : fault)                                (* an ordinary failed call: all gas consumed by the caller *)
| OFuel.

(* what execute of an ordinary opcode answers *)
Inductive plain :=
| PErr                                             (* execute returned an error (bad jump, ...) *)
| PUnsupported                                     (* concrete oracles only: opcode outside their subset *)
| POk (pushed : list Z) (pc' : Z) (retsize : Z).   (* pushed values; for jumps the new pc, else the pc
                                                      execute left (PUSHn advances it); size of res *)
(* what evm.Call / Create finds before running any code *)
Inductive plan :=
| CImm (keep_gas ok : bool) (retsize : Z)          (* returns at once: depth, balance, no code, collision... *)
| CPre (cost : Z) (ok : bool) (retsize : Z)        (* precompiled contract: RequiredGas, then Run *)
| CEnter (code : list Z) (ro : bool) (insz : Z)    (* a new frame *)
| CRefused                                         (* evm.create on a sub-chain: creator not whitelisted — checked
                                                      before the depth limit, returns no gas *)
| CUnsupported.                                    (* concrete oracles only *)

Record oracle (W : Type) := mkO {
  o_genv : Z -> env -> frame -> W -> genv;
  o_plain : Z -> env -> frame -> W -> plain * W;
  o_plan : Z -> env -> frame -> W -> plan * W;
  o_word : Z -> env -> frame -> W -> Z              (* address pushed by a successful CREATE *)
}.
Arguments o_genv {W}. Arguments o_plain {W}. Arguments o_plan {W}. Arguments o_word {W}.

Definition zlen {A} (l : list A) : Z := Z.of_nat (List.length l).
(* contract.GetOp(pc): a byte of the code, STOP past its end *)
Definition code_at (c : list Z) (pc : Z) : Z :=
  if (pc <? 0) || (zlen c <=? pc) then 0 else (nth (Z.to_nat pc) c 0) mod 256.
(* the bounds test comes first: no unary number proportional to a pc or an operand is ever built *)
Definition zskipn {A} (n : Z) (l : list A) : list A :=
  if n <? 0 then l else if zlen l <=? n then [] else skipn (Z.to_nat n) l.
(* exactly n stack slots (uint256 values) out of whatever the oracle answered *)
Definition fit (n : Z) (l : list Z) : list Z := map (fun x => x mod W256) (firstn (Z.to_nat n) (l ++ repeat 0 (Z.to_nat n))).

Inductive kkind := KCall | KCreate.
Record kont := mkK { k_kind : kkind; k_fr : frame; k_addr : Z }.

Inductive s1res (W : Type) :=
| S1Done (o : outcome) (w : W)
| S1Next (fr : frame) (w : W)
| S1Call (cenv : env) (cfr : frame) (w : W) (k : kont).
Arguments S1Done {W}. Arguments S1Next {W}. Arguments S1Call {W}.

Section Interp.
  Context {W : Type}.
  Variable cfg : config.
  Variable orc : oracle W.

  Definition pushes_of (e : entry) : Z := STACK_LIMIT + e_min e - e_max e.
  Definition new_frame (gas : Z) : frame := mkF 0 [] 0 0 gas 0.

  (* operation.memorySize(stack), then toWordSize * 32 with overflow check: the word-rounded request *)
  Definition msize_of (mem : string) (stk : list Z) : fault + Z :=
    match mem_size_named mem stk with
    | None => inr 0
    | Some None => inl FUnmodelled
    | Some (Some (sz, ovf)) =>
        if ovf then inl FGasOverflow
        else let '(v, o) := safe_mul (to_word_size sz) 32 in
             if o then inl FGasOverflow else inr v
    end.

  (* operation.dynamicGas(evm, contract, stack, mem, memorySize); [g1] = contract.Gas at that point *)
  Definition dyn_of (opc : Z) (e : entry) (env : env) (fr : frame) (w : W) (msize g1 : Z) : option dynres :=
    if String.eqb (e_dyn e) "" then Some (Some (0, f_fee fr, 0))
    else dyn_gas magnify (c_p026 cfg) (c_p015 cfg) (e_dyn e) opc (o_genv orc opc env fr w)
                 (f_stk fr) (f_mlen fr) (f_fee fr) msize g1.

  (* the gas/stack/memory part of one loop iteration, up to and including mem.Resize *)
  Definition charge (env : env) (fr : frame) (w : W) : fault + (Z * entry * frame * Z) :=
    let opc := code_at (v_code env) (f_pc fr) in
    let e := nth (Z.to_nat opc) (c_tab cfg) noE in
    if negb (e_def e) then inl FInvalidOp
    else
      let h := zlen (f_stk fr) in
      if h <? e_min e then inl FUnderflow
      else if e_max e <? h then inl FOverflow
      else if v_ro env && (e_writes e || ((opc =? 241) && negb (sget (f_stk fr) 2 =? 0))) then inl FWriteProt
      else if f_gas fr <? e_gas e then inl FOOG
      else
        let g1 := f_gas fr - e_gas e in
        match msize_of (e_mem e) (f_stk fr) with
        | inl f => inl f
        | inr msize =>
          match dyn_of opc e env fr w msize g1 with
          | None => inl FUnmodelled
          | Some None => inl FOOG                    (* any dynamicGas error is reported as ErrOutOfGas *)
          | Some (Some (cost, fee', cgt)) =>
            if g1 <? cost then inl FOOG
            else
              let mlen' := if (0 <? msize) && (f_mlen fr <? msize) then msize else f_mlen fr in
              inr (opc, e, mkF (f_pc fr) (f_stk fr) mlen' fee' (g1 - cost) (f_rds fr), cgt)
          end
        end.

  (* one iteration of the loop in EVMInterpreter.Run *)
  Definition step1 (env : env) (fr : frame) (w : W) : s1res W :=
    match charge env fr w with
    | inl f => S1Done (OFault f) w
    | inr (opc, e, fr1, cgt) =>
      let rest := skipn (Z.to_nat (e_min e)) (f_stk fr1) in
      let cls := match exec_info (e_exec e) opc with Some x => x_class x | None => XPlain end in
      match cls with
      | XPlain =>
        match o_plain orc opc env fr1 w with
        | (PErr, w') => S1Done (OFault FExec) w'
        | (PUnsupported, w') => S1Done (OFault FUnmodelled) w'
        | (POk pushed pc' rsz, w') =>
          let stk' := fit (pushes_of e) pushed ++ rest in
          let rds' := if e_returns e then Z.max 0 rsz else f_rds fr1 in
          if e_reverts e then S1Done (ODone true (f_gas fr1) (Z.max 0 rsz)) w'
          else if e_halts e then S1Done (ODone false (f_gas fr1) (Z.max 0 rsz)) w'
          else
            let npc := if e_jumps e then pc' else Z.max (f_pc fr1) pc' + 1 in
            S1Next (mkF npc stk' (f_mlen fr1) (f_fee fr1) (f_gas fr1) rds') w'
        end
      | XCall stip =>
        let given := cgt + match stip with
                           | Some i => if sget (f_stk fr1) i =? 0 then 0 else CALL_STIPEND
                           | None => 0 end in
        let parent := mkF (f_pc fr1) rest (f_mlen fr1) (f_fee fr1) (f_gas fr1) (f_rds fr1) in
        let after (ok : bool) (retgas rsz : Z) :=
          mkF (f_pc fr1 + 1) ((if ok then 1 else 0) :: rest) (f_mlen fr1) (f_fee fr1) (f_gas fr1 + retgas) (Z.max 0 rsz) in
        if CALL_DEPTH <? v_depth env then S1Next (after false given 0) w       (* ErrDepth: gas handed back *)
        else match o_plan orc opc env fr1 w with
        | (CImm keep ok rsz, w') => S1Next (after ok (if keep then given else 0) rsz) w'
        | (CPre cost ok rsz, w') =>
            if (given <? cost) || (cost <? 0) then S1Next (after false 0 0) w'
            else S1Next (after ok (if ok then given - cost else 0) rsz) w'
        | (CEnter code ro insz, w') =>
            S1Call (mkEnv code (v_ro env || ro) (v_depth env + 1) insz) (new_frame given) w' (mkK KCall parent 0)
        | (CRefused, w') => S1Next (after false 0 0) w'
        | (CUnsupported, w') => S1Done (OFault FUnmodelled) w'
        end
      | XCreate =>
        let given := f_gas fr1 - f_gas fr1 / 64 in
        let g3 := f_gas fr1 - given in
        let parent := mkF (f_pc fr1) rest (f_mlen fr1) (f_fee fr1) g3 (f_rds fr1) in
        let after (v : Z) (retgas rsz : Z) :=
          mkF (f_pc fr1 + 1) (v :: rest) (f_mlen fr1) (f_fee fr1) (g3 + retgas) (Z.max 0 rsz) in
        match o_plan orc opc env fr1 w with
        | (CRefused, w') => S1Next (after 0 0 0) w'
        | (pl, w') =>
        if CALL_DEPTH <? v_depth env then S1Next (after 0 given 0) w'
        else match pl with
        | CImm keep ok rsz => S1Next (after 0 (if keep then given else 0) 0) w'
        | CPre _ _ _ => S1Next (after 0 0 0) w'                               (* not applicable to creates *)
        | CEnter code ro insz =>
            S1Call (mkEnv code (v_ro env) (v_depth env + 1) 0) (new_frame given) w'
                   (mkK KCreate parent (o_word orc opc env fr1 w mod W256))
        | CRefused => S1Next (after 0 0 0) w'
        | CUnsupported => S1Done (OFault FUnmodelled) w'
        end
        end
      end
    end.

  (* the caller's frame after the callee ended with [o] (opCall.. / opCreate.. after evm.Call / create) *)
  Definition resume (k : kont) (o : outcome) : frame :=
    let p := k_fr k in
    let mk (v retgas rsz : Z) :=
      mkF (f_pc p + 1) (v :: f_stk p) (f_mlen p) (f_fee p) (f_gas p + retgas) rsz in
    match k_kind k, o with
    | KCall, ODone false g rsz => mk 1 g rsz
    | KCall, ODone true g rsz => mk 0 g rsz
    | KCall, _ => mk 0 0 0
    | KCreate, ODone false g rsz =>
        if MAX_CODE <? rsz then mk 0 0 0
        else let dg := rsz * CREATE_DATA_GAS * (if c_p026 cfg then MAGNIFICATION else 1) in
             if g <? dg then mk 0 g 0            (* ErrCodeStoreOutOfGas: the remaining gas is kept *)
             else mk (k_addr k) (g - dg) 0
    | KCreate, ODone true g rsz => mk 0 g rsz
    | KCreate, _ => mk 0 0 0
    end.

  Definition body (rec : env -> frame -> W -> outcome * W) (env : env) (fr : frame) (w : W) : outcome * W :=
    match step1 env fr w with
    | S1Done o w' => (o, w')
    | S1Next fr' w' => rec env fr' w'
    | S1Call cenv cfr w' k =>
        match rec cenv cfr w' with
        | (OFuel, w'') => (OFuel, w'')
        | (o, w'') => rec env (resume k o) w''
        end
    end.

  Fixpoint run (fuel : nat) : env -> frame -> W -> outcome * W :=
    match fuel with
    | O => fun _ _ w => (OFuel, w)
    | S k => body (run k)
    end.

  (* evm.Call from outside on an account holding [code] *)
  Definition call_top (fuel : nat) (code : list Z) (gas insz : Z) (w : W) : outcome * W :=
    match code with
    | [] => (ODone false gas 0, w)
    | _ => run fuel (mkEnv code false 1 insz) (new_frame gas) w
    end.
End Interp.
