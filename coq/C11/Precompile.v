(* C11 — the gas functions (RequiredGas) of the 18 precompiled contracts of contracts.go, and
   RunPrecompiledContract's gas handling.  Execution of the precompiles (third-party arithmetic) is
   searched by the harness, not modelled.

   [pre_gas] follows the Go code with uint64 wrap-around made explicit where the code computes in uint64;
   [pre_gas_ideal] is the same formula over unbounded integers.  Theorem [pre_gas_no_wrap]: they agree and
   stay below 2^64 for every input shorter than 2^32 bytes (EVM memory cannot hold more: MEM_LIMIT < 2^38,
   and such an input would cost more than 2^64 gas to place there before Proposal026... see Pricing.v). *)
From Coq Require Import ZArith List Bool Lia.
From V.C11 Require Import Model Arith.
Import ListNotations.
Local Open Scope Z_scope.

Definition be (bs : list Z) : Z := fold_left (fun acc b => acc * 256 + b) bs 0.

(* common.go getData(data, start, size): clipped slice, right-padded with zeros to [size] *)
Definition get_data (d : list Z) (start size : Z) : list Z :=
  let len := zlen d in
  let st := if len <? start then len else start in
  let e0 := (st + size) mod U64 in
  let e := if len <? e0 then len else e0 in
  let sl := firstn (Z.to_nat (e - st)) (skipn (Z.to_nat st) d) in
  sl ++ repeat 0 (Z.to_nat (size - zlen sl)).

Definition discount_table : list Z :=
  [1200; 888; 764; 641; 594; 547; 500; 453; 438; 423; 408; 394; 379; 364; 349; 334; 330; 326; 322; 318; 314; 310; 306; 302;
   298; 294; 289; 285; 281; 277; 273; 269; 268; 266; 265; 263; 262; 260; 259; 257; 256; 254; 253; 251; 250; 248; 247; 245;
   244; 242; 241; 239; 238; 236; 235; 233; 232; 231; 229; 228; 226; 225; 223; 222; 221; 220; 219; 219; 218; 217; 216; 216;
   215; 214; 213; 213; 212; 211; 211; 210; 209; 208; 208; 207; 206; 205; 205; 204; 203; 202; 202; 201; 200; 199; 199; 198;
   197; 196; 196; 195; 194; 193; 193; 192; 191; 191; 190; 189; 188; 188; 187; 186; 185; 185; 184; 183; 182; 182; 181; 180;
   179; 179; 178; 177; 176; 176; 175; 174].
Definition discount (k : Z) : Z :=
  if k <? 128 then nth (Z.to_nat (k - 1)) discount_table 0 else 174.

(* bigModExp.RequiredGas: all in big.Int, saturating at MaxUint64 *)
Definition modexp_gas (input : list Z) : Z :=
  let baseLen := be (get_data input 0 32) in
  let expLen := be (get_data input 32 32) in
  let modLen := be (get_data input 64 32) in
  let rest := skipn 96 input in
  let expHead := if zlen rest <=? baseLen then 0
                 else if 32 <? expLen then be (get_data rest baseLen 32)
                 else be (get_data rest baseLen expLen) in
  let msb := if 0 <? bit_len expHead then bit_len expHead - 1 else 0 in
  let adj := (if 32 <? expLen then 8 * (expLen - 32) else 0) + msb in
  let x := Z.max modLen baseLen in
  let mc := if x <=? 64 then x * x
            else if x <=? 1024 then x * x / 4 + (96 * x - 3072)
            else x * x / 16 + (480 * x - 199680) in
  let g := mc * Z.max adj 1 / 20 in
  if U64 <=? g then MAXU64 else g.

Section Gas.
  Variable wrap : Z -> Z.       (* [fun x => x mod U64] for the code, the identity for the ideal formula *)
  Definition pre_gas_with (addr : Z) (input : list Z) : Z :=
    let len := zlen input in
    let words := wrap (len + 31) / 32 in
    if addr =? 1 then 3000
    else if addr =? 2 then wrap (wrap (words * 12) + 60)
    else if addr =? 3 then wrap (wrap (words * 120) + 600)
    else if addr =? 4 then wrap (wrap (words * 3) + 15)
    else if addr =? 5 then modexp_gas input
    else if addr =? 6 then 150
    else if addr =? 7 then 6000
    else if addr =? 8 then wrap (45000 + wrap ((len / 192) * 34000))
    else if addr =? 9 then (if len =? 213 then be (firstn 4 input) else 0)
    else if addr =? 10 then 600
    else if addr =? 11 then 12000
    else if addr =? 12 then (let k := len / 160 in if k =? 0 then 0 else wrap (wrap (k * 12000) * discount k) / 1000)
    else if addr =? 13 then 4500
    else if addr =? 14 then 55000
    else if addr =? 15 then (let k := len / 288 in if k =? 0 then 0 else wrap (wrap (k * 55000) * discount k) / 1000)
    else if addr =? 16 then wrap (115000 + wrap ((len / 384) * 23000))
    else if addr =? 17 then 5500
    else if addr =? 18 then 110000
    else 0.
End Gas.
Definition pre_gas := pre_gas_with (fun x => x mod U64).
Definition pre_gas_ideal := pre_gas_with (fun x => x).

(* RunPrecompiledContract(p, input, suppliedGas): Some remaining | None = ErrOutOfGas (nothing left) *)
Definition run_precompile_gas (cost supplied : Z) : option Z :=
  if supplied <? cost then None else Some ((supplied - cost) mod U64).

(* ---- proofs ---------------------------------------------------------------------------------------- *)
Definition bytes_ok (l : list Z) : Prop := Forall (fun b => 0 <= b < 256) l.

Lemma be_acc_nonneg l : forall a, 0 <= a -> Forall (fun b => 0 <= b) l -> 0 <= fold_left (fun acc b => acc * 256 + b) l a.
Proof.
  induction l as [|b l IH]; intros a Ha Hl; cbn; [exact Ha|].
  inversion Hl; subst. apply IH; [lia|assumption].
Qed.
Lemma be_nonneg l : Forall (fun b => 0 <= b) l -> 0 <= be l.
Proof. intros. apply be_acc_nonneg; [lia|assumption]. Qed.

Lemma be_acc_bound l : forall a, 0 <= a -> Forall (fun b => 0 <= b < 256) l ->
  fold_left (fun acc b => acc * 256 + b) l a < (a + 1) * 256 ^ Z.of_nat (length l).
Proof.
  induction l as [|b l IH]; intros a Ha Hl.
  - cbn. lia.
  - inversion Hl; subst. cbn [fold_left length]. rewrite Nat2Z.inj_succ, Z.pow_succ_r by lia.
    eapply Z.lt_le_trans; [apply IH; [lia|assumption]|].
    assert (0 < 256 ^ Z.of_nat (length l)) by (apply Z.pow_pos_nonneg; lia). nia.
Qed.

Lemma firstn_In {A} (x : A) n l : In x (firstn n l) -> In x l.
Proof. intros H. rewrite <- (firstn_skipn n l). apply in_or_app. left. exact H. Qed.

Lemma get_data_nonneg d s n : Forall (fun b => 0 <= b) d -> Forall (fun b => 0 <= b) (get_data d s n).
Proof.
  intros H. unfold get_data. apply Forall_app. split.
  - rewrite Forall_forall in *. intros x Hx. apply H. apply firstn_In in Hx.
    rewrite <- (firstn_skipn (Z.to_nat (if zlen d <? s then zlen d else s)) d). apply in_or_app. right. exact Hx.
  - rewrite Forall_forall. intros x Hx. apply repeat_spec in Hx. lia.
Qed.

Lemma bytes_ok_nonneg l : bytes_ok l -> Forall (fun b => 0 <= b) l.
Proof. unfold bytes_ok. rewrite !Forall_forall. intros H x Hx. specialize (H x Hx). lia. Qed.

(* modexp: total and saturating, for every input *)
Theorem modexp_gas_bounded input : bytes_ok input -> 0 <= modexp_gas input <= MAXU64.
Proof.
  intros Hb. apply bytes_ok_nonneg in Hb. unfold modexp_gas.
  set (baseLen := be (get_data input 0 32)). set (expLen := be (get_data input 32 32)). set (modLen := be (get_data input 64 32)).
  assert (Hbl : 0 <= baseLen) by (apply be_nonneg, get_data_nonneg; exact Hb).
  assert (Hel : 0 <= expLen) by (apply be_nonneg, get_data_nonneg; exact Hb).
  assert (Hml : 0 <= modLen) by (apply be_nonneg, get_data_nonneg; exact Hb).
  set (expHead := if zlen (skipn 96 input) <=? baseLen then 0 else _).
  set (msb := if 0 <? bit_len expHead then bit_len expHead - 1 else 0).
  assert (Hmsb : 0 <= msb) by (unfold msb; destruct (Z.ltb_spec 0 (bit_len expHead)); lia).
  set (adj := (if 32 <? expLen then 8 * (expLen - 32) else 0) + msb).
  assert (Hadj : 0 <= adj) by (unfold adj; destruct (Z.ltb_spec 32 expLen); lia).
  set (x := Z.max modLen baseLen). assert (Hx : 0 <= x) by lia.
  set (mc := if x <=? 64 then x * x else _).
  assert (Hmc : 0 <= mc).
  { unfold mc. destruct (Z.leb_spec x 64); [nia|]. destruct (Z.leb_spec x 1024).
    - assert (0 <= x * x / 4) by (apply Z.div_pos; nia). lia.
    - assert (0 <= x * x / 16) by (apply Z.div_pos; nia). lia. }
  assert (Hg : 0 <= mc * Z.max adj 1 / 20) by (apply Z.div_pos; nia).
  unfold MAXU64. destruct (Z.leb_spec U64 (mc * Z.max adj 1 / 20)); rewrite U64_val in *; lia.
Qed.

Lemma discount_bounds k : 0 <= discount k <= 1200.
Proof.
  unfold discount. destruct (Z.ltb_spec k 128); [|lia].
  destruct (Z_lt_ge_dec k 1).
  - replace (Z.to_nat (k - 1)) with 0%nat by lia. cbn. lia.
  - assert (Hn : (Z.to_nat (k - 1) < 128)%nat) by lia.
    generalize dependent (Z.to_nat (k - 1)). intros n Hn.
    do 128 (destruct n as [|n]; [cbn; lia|]). lia.
Qed.

(* no uint64 wrap-around in any RequiredGas for inputs that fit EVM memory *)
Theorem pre_gas_no_wrap addr input : bytes_ok input -> zlen input < 2 ^ 32 ->
  pre_gas addr input = pre_gas_ideal addr input /\ 0 <= pre_gas addr input < U64.
Proof.
  intros Hb Hlen. assert (H0 : 0 <= zlen input) by (unfold zlen; lia). unfold pre_gas, pre_gas_ideal, pre_gas_with.
  change (2 ^ 32) with 4294967296 in Hlen.
  assert (HU : U64 = 18446744073709551616) by apply U64_val.
  rewrite HU in *. clear HU. set (M := 18446744073709551616) in *. assert (HU : M = 18446744073709551616) by reflexivity.
  assert (Hw : (zlen input + 31) mod M = zlen input + 31) by (apply Z.mod_small; lia). rewrite Hw.
  set (words := (zlen input + 31) / 32).
  assert (Hwords : 0 <= words <= 134217729).
  { unfold words. split; [apply Z.div_pos; lia|apply Z.div_le_upper_bound; lia]. }
  assert (Hsmall : forall v, 0 <= v < M -> v mod M = v) by (intros; apply Z.mod_small; assumption).
  repeat match goal with |- context [if ?c then _ else _] => destruct c end;
    try (split; [reflexivity|rewrite HU; lia]).
  - rewrite (Hsmall (words * 12)) by lia. rewrite Hsmall by lia. split; [reflexivity|lia].
  - rewrite (Hsmall (words * 120)) by lia. rewrite Hsmall by lia. split; [reflexivity|lia].
  - rewrite (Hsmall (words * 3)) by lia. rewrite Hsmall by lia. split; [reflexivity|lia].
  - split; [reflexivity|]. assert (Hm := modexp_gas_bounded input Hb). unfold MAXU64 in Hm. rewrite U64_val in Hm. lia.
  - assert (0 <= zlen input / 192 <= 4294967296) by (split; [apply Z.div_pos; lia|apply Z.div_le_upper_bound; lia]).
    rewrite (Hsmall (zlen input / 192 * 34000)) by lia. rewrite Hsmall by lia. split; [reflexivity|lia].
  - split; [reflexivity|].
    assert (Hf : bytes_ok (firstn 4 input)).
    { unfold bytes_ok in *. rewrite Forall_forall in *. intros x Hx. apply Hb. eapply firstn_In. exact Hx. }
    assert (Hn := be_nonneg _ (bytes_ok_nonneg _ Hf)).
    assert (Hbd := be_acc_bound (firstn 4 input) 0 ltac:(lia) Hf).
    assert (Hl4 : (length (firstn 4 input) <= 4)%nat) by apply firstn_le_length.
    assert (256 ^ Z.of_nat (length (firstn 4 input)) <= 256 ^ 4) by (apply Z.pow_le_mono_r; lia).
    unfold be in *. change (256 ^ 4) with 4294967296 in *. lia.
  - set (k := zlen input / 160) in *.
    assert (0 <= k <= 4294967296) by (unfold k; split; [apply Z.div_pos; lia|apply Z.div_le_upper_bound; lia]).
    assert (Hd := discount_bounds k).
    rewrite (Hsmall (k * 12000)) by lia. rewrite Hsmall by nia. split; [reflexivity|].
    split; [apply Z.div_pos; nia|]. apply Z.div_lt_upper_bound; nia.
  - set (k := zlen input / 288) in *.
    assert (0 <= k <= 4294967296) by (unfold k; split; [apply Z.div_pos; lia|apply Z.div_le_upper_bound; lia]).
    assert (Hd := discount_bounds k).
    rewrite (Hsmall (k * 55000)) by lia. rewrite Hsmall by nia. split; [reflexivity|].
    split; [apply Z.div_pos; nia|]. apply Z.div_lt_upper_bound; nia.
  - assert (0 <= zlen input / 384 <= 4294967296) by (split; [apply Z.div_pos; lia|apply Z.div_le_upper_bound; lia]).
    rewrite (Hsmall (zlen input / 384 * 23000)) by lia. rewrite Hsmall by lia. split; [reflexivity|lia].
Qed.

(* RunPrecompiledContract never hands back more gas than it was given *)
Theorem run_precompile_gas_bounded cost supplied r :
  0 <= cost -> 0 <= supplied < U64 -> run_precompile_gas cost supplied = Some r -> 0 <= r <= supplied.
Proof.
  unfold run_precompile_gas. intros Hc Hs. destruct (Z.ltb_spec supplied cost); [discriminate|].
  intros Hr. inversion Hr. rewrite Z.mod_small; lia.
Qed.
