(* C11 — analysis.go codeBitmap: the JUMPDEST analysis is total.  The bit vector has len(code)/8 + 1 + 4 bytes;
   [walk] lists the byte indices that set / set8 touch while the code is scanned (set8(pos) writes bytes
   pos/8 and pos/8+1).  Theorem [walk_in_bounds]: every index is inside the vector, for every code —
   in particular for code that ends in a PUSHn whose data is missing.  [walk_short_refuted]: with the
   allocation (len+32+7)/8 the same scan leaves the vector (code of length 8 ending in PUSH32).
   What the bits mean (which positions are JUMPDESTs) is property C10's subject. *)
From Coq Require Import ZArith List Bool Lia.
From V.C11 Require Import Model.
Import ListNotations.
Local Open Scope Z_scope.

Definition bitmap_len (n : Z) : Z := n / 8 + 1 + 4.
Definition bitmap_len_short (n : Z) : Z := (n + 32 + 7) / 8.

Fixpoint sets (pc : Z) (r : nat) : list Z :=
  match r with O => [] | S r' => pc / 8 :: sets (pc + 1) r' end.
Fixpoint push_touch (pc : Z) (k r : nat) : list Z :=
  match k with
  | O => sets pc r
  | S k' => pc / 8 :: (pc / 8 + 1) :: push_touch (pc + 8) k' r
  end.

Fixpoint walk (fuel : nat) (code : list Z) (pc : Z) : list Z :=
  match fuel with
  | O => []
  | S f =>
    if zlen code <=? pc then []
    else let op := nth (Z.to_nat pc) code 0 in
         if (96 <=? op) && (op <=? 127) then
           let n := op - 95 in
           push_touch (pc + 1) (Z.to_nat (n / 8)) (Z.to_nat (n mod 8)) ++ walk f code (pc + 1 + n)
         else walk f code (pc + 1)
  end.

Lemma div8_mono a b : a <= b -> a / 8 <= b / 8.
Proof. intros. apply Z.div_le_mono; lia. Qed.

Lemma sets_le r : forall pc B, 0 <= pc -> (pc + Z.of_nat r) / 8 <= B ->
  Forall (fun i => 0 <= i <= B) (sets pc r).
Proof.
  induction r as [|r IH]; intros pc B Hpc HB; cbn [sets]; constructor.
  - split; [apply Z.div_pos; lia|]. assert (pc / 8 <= (pc + Z.of_nat (S r)) / 8) by (apply div8_mono; lia). lia.
  - apply IH; [lia|]. replace (pc + 1 + Z.of_nat r) with (pc + Z.of_nat (S r)) by lia. exact HB.
Qed.

Lemma push_touch_le k : forall r pc B, 0 <= pc ->
  (pc + 8 * Z.of_nat k) / 8 <= B -> (pc + 8 * Z.of_nat k + Z.of_nat r) / 8 <= B ->
  Forall (fun i => 0 <= i <= B) (push_touch pc k r).
Proof.
  induction k as [|k IH]; intros r pc B Hpc H1 H2; cbn [push_touch].
  - apply sets_le; [exact Hpc|]. replace (pc + 8 * Z.of_nat 0 + Z.of_nat r) with (pc + Z.of_nat r) in H2 by lia. exact H2.
  - assert (Hd : 0 <= pc / 8) by (apply Z.div_pos; lia).
    assert (Hs : pc / 8 + 1 = (pc + 8) / 8).
    { replace (pc + 8) with (pc + 1 * 8) by lia. rewrite Z.div_add by lia. reflexivity. }
    assert (Hm : (pc + 8) / 8 <= (pc + 8 * Z.of_nat (S k)) / 8) by (apply div8_mono; lia).
    constructor; [lia|]. constructor; [lia|].
    apply IH; [lia| |].
    + replace (pc + 8 + 8 * Z.of_nat k) with (pc + 8 * Z.of_nat (S k)) by lia. exact H1.
    + replace (pc + 8 + 8 * Z.of_nat k + Z.of_nat r) with (pc + 8 * Z.of_nat (S k) + Z.of_nat r) by lia. exact H2.
Qed.

Theorem walk_in_bounds fuel : forall code pc, 0 <= pc ->
  Forall (fun i => 0 <= i < bitmap_len (zlen code)) (walk fuel code pc).
Proof.
  induction fuel as [|f IH]; intros code pc Hpc; cbn [walk]; [constructor|].
  destruct (Z.leb_spec (zlen code) pc) as [|Hlt]; [constructor|].
  set (op := nth (Z.to_nat pc) code 0).
  destruct ((96 <=? op) && (op <=? 127)) eqn:Eop; [|apply IH; lia].
  apply andb_prop in Eop. destruct Eop as [E1 E2]. apply Z.leb_le in E1. apply Z.leb_le in E2.
  apply Forall_app. split; [|apply IH; lia].
  set (n := op - 95). assert (Hn : 1 <= n <= 32) by (unfold n; lia).
  assert (Hdm := Z.div_mod n 8 ltac:(lia)). assert (Hmod := Z.mod_pos_bound n 8 ltac:(lia)).
  assert (Hdiv : 0 <= n / 8) by (apply Z.div_pos; lia).
  set (L := zlen code) in *.
  assert (HL : (L + 32) / 8 = L / 8 + 4).
  { replace (L + 32) with (L + 4 * 8) by lia. rewrite Z.div_add by lia. reflexivity. }
  eapply Forall_impl; [|apply (push_touch_le (Z.to_nat (n / 8)) (Z.to_nat (n mod 8)) (pc + 1) (L / 8 + 4))].
  - intros i Hi. cbv beta in Hi. cbv beta. unfold bitmap_len. lia.
  - lia.
  - rewrite Z2Nat.id by lia. rewrite <- HL. apply div8_mono. lia.
  - rewrite !Z2Nat.id by lia. rewrite <- HL. apply div8_mono. lia.
Qed.

(* the allocation (len + 32 + 7) / 8 is too short for the same scan *)
Lemma walk_short_refuted :
  let code := [0; 0; 0; 0; 0; 0; 0; 127] in
  exists i, In i (walk 10 code 0) /\ bitmap_len_short (zlen code) <= i.
Proof. exists 5. split; vm_compute; [tauto|discriminate]. Qed.
