(* C11 — proofs. Part 2: the uint64 arithmetic of memory sizes and gas functions does what the unbounded
   formulas say (no silent wrap-around), for all inputs. *)
From Coq Require Import ZArith List Bool String Lia.
From V.C11 Require Import Model.
Import ListNotations.
Local Open Scope Z_scope.

Lemma U64_val : U64 = 18446744073709551616. Proof. reflexivity. Qed.
Lemma W256_pos : 0 < W256. Proof. reflexivity. Qed.
Global Opaque U64 W256.

Definition magn (p026 : bool) : Z := if p026 then MAGNIFICATION else 1.
Lemma magn_pos p : 1 <= magn p. Proof. destruct p; cbv; discriminate. Qed.

(* ---- SafeAdd / SafeMul ------------------------------------------------------------------------ *)
Lemma safe_add_ok x y v : 0 <= x -> 0 <= y -> safe_add x y = (v, false) -> v = x + y /\ x + y < U64.
Proof.
  unfold safe_add. intros Hx Hy H. inversion H as [[Hv Ho]]. clear H.
  apply Z.leb_gt in Ho. split; [|exact Ho]. apply Z.mod_small. lia.
Qed.
Lemma safe_mul_ok x y v : 0 <= x -> 0 <= y -> safe_mul x y = (v, false) -> v = x * y /\ x * y < U64.
Proof.
  unfold safe_mul. intros Hx Hy H. inversion H as [[Hv Ho]]. clear H.
  apply Z.leb_gt in Ho. split; [|exact Ho]. apply Z.mod_small. nia.
Qed.

(* ---- memory sizes ----------------------------------------------------------------------------- *)
Lemma calc_mem_size_u_ok off len sz : 0 <= off -> 0 < len < U64 ->
  calc_mem_size_u off len = (sz, false) -> sz = off + len /\ off + len < U64.
Proof.
  unfold calc_mem_size_u. intros Ho Hl H. rewrite U64_val in *.
  destruct (Z.eqb_spec len 0); [lia|].
  destruct (Z.ltb_spec off 18446744073709551616); cbn [negb] in H; [|discriminate].
  inversion H as [[Hs Hov]]. clear H. apply Z.ltb_ge in Hov.
  assert (off + len < 18446744073709551616).
  { destruct (Z_lt_ge_dec (off + len) 18446744073709551616); [assumption|].
    exfalso. assert ((off + len) mod 18446744073709551616 = off + len - 18446744073709551616).
    { symmetry. apply Z.mod_unique with 1; lia. } lia. }
  split; [|assumption]. apply Z.mod_small. lia.
Qed.

Lemma calc_mem_size_zero off : calc_mem_size off 0 = (0, false).
Proof. unfold calc_mem_size, calc_mem_size_u. rewrite U64_val. reflexivity. Qed.

(* a region that did not overflow lies below the size the function reports *)
Definition region_len (s : list Z) (r : region) : Z :=
  match snd r with LArg j => sget s j | LConst n => n end.
Lemma region_size_covers s r sz : Forall (fun x => 0 <= x) s -> 0 <= region_len s r ->
  (match snd r with LConst n => n < U64 | _ => True end) ->
  region_size s r = (sz, false) ->
  region_len s r = 0 \/ (sz = sget s (fst r) + region_len s r /\ sz < U64).
Proof.
  intros Hs Hl Hc. unfold region_size, region_len in *.
  assert (Hoff : 0 <= sget s (fst r)).
  { unfold sget. destruct (nth_in_or_default (fst r) s 0) as [Hin | ->]; [|lia].
    rewrite Forall_forall in Hs. apply Hs. exact Hin. }
  destruct (snd r) as [j | n].
  - unfold calc_mem_size. destruct (Z.ltb_spec (sget s j) U64) as [Hlt|Hge]; cbn [negb]; [|intros X; discriminate X].
    intros H. destruct (Z.eq_dec (sget s j) 0) as [E0|Hnz]; [left; exact E0|right].
    apply calc_mem_size_u_ok in H; lia.
  - intros H. destruct (Z.eq_dec n 0) as [E0|Hnz]; [left; exact E0|right].
    apply calc_mem_size_u_ok in H; lia.
Qed.

Lemma regions_size_ge s rs sz : regions_size s rs = (sz, false) ->
  forall r, In r rs -> exists x, region_size s r = (x, false) /\ x <= sz.
Proof.
  revert sz. induction rs as [|r0 rs IH]; intros sz H r Hin; [contradiction|].
  cbn [regions_size] in H. destruct (region_size s r0) as [x o] eqn:Er. destruct o; [discriminate|].
  destruct (regions_size s rs) as [y o2] eqn:Ey. destruct o2; [discriminate|].
  inversion H; subst sz. destruct Hin as [->|Hin].
  - exists x. split; [assumption|lia].
  - destruct (IH y eq_refl r Hin) as [x' [Hx' Hle]]. exists x'. split; [assumption|lia].
Qed.

Lemma to_word_size_small s : 0 <= s <= MEM_LIMIT -> to_word_size s = (s + 31) / 32.
Proof.
  unfold to_word_size, MAXU64, MEM_LIMIT. rewrite U64_val. intros H.
  destruct (Z.ltb_spec (18446744073709551616 - 1 - 31) s); [lia|reflexivity].
Qed.
Lemma to_word_size_mul32 w : 0 <= w -> 32 * w <= MEM_LIMIT -> to_word_size (32 * w) = w.
Proof.
  intros Hw Hl. rewrite to_word_size_small by lia.
  replace (32 * w + 31) with (31 + w * 32) by lia. rewrite Z.div_add by lia. reflexivity.
Qed.
(* the memory fee *)
Lemma mem_fee_nonneg w : 0 <= w -> 0 <= mem_fee w.
Proof. intros. unfold mem_fee. assert (0 <= w * w / 512) by (apply Z.div_pos; nia). lia. Qed.
Lemma mem_fee_mono a b : 0 <= a <= b -> mem_fee a <= mem_fee b.
Proof.
  intros H. unfold mem_fee. assert (a * a / 512 <= b * b / 512) by (apply Z.div_le_mono; nia). lia.
Qed.
Lemma mem_fee_bound w : 0 <= w < 2 ^ 32 -> mem_fee w < 2 ^ 56.
Proof.
  intros H. unfold mem_fee.
  assert (w * w / 512 <= (2 ^ 32 * 2 ^ 32) / 512) by (apply Z.div_le_mono; nia).
  change (2 ^ 32 * 2 ^ 32 / 512) with (2 ^ 55) in *. change (2 ^ 32) with 4294967296 in *.
  change (2 ^ 55) with 36028797018963968 in *. change (2 ^ 56) with 72057594037927936. lia.
Qed.

(* the memory a frame holds: whole words, and the fee recorded for it is the fee of that many words *)
Definition memok (mlen fee k : Z) : Prop := 0 <= k < 2 ^ 32 /\ mlen = 32 * k /\ fee = mem_fee k.

(* memoryGasCost on a word-rounded request: exact, no wrap-around, the new fee is the fee of the new size *)
Lemma memory_gas_cost_sound p mlen fee k w g fee' :
  memok mlen fee k -> 0 <= w ->
  memory_gas_cost p mlen fee (32 * w) = Some (g, fee') ->
  Z.max k w < 2 ^ 32 /\ fee' = mem_fee (Z.max k w) /\ g = magn p * (mem_fee (Z.max k w) - mem_fee k).
Proof.
  intros (Hk & Hm & Hf) Hw. unfold memory_gas_cost.
  destruct (Z.eqb_spec (32 * w) 0) as [E|E].
  { intros H. inversion H; subst. assert (w = 0) by lia. subst w. rewrite Z.max_l by lia. repeat split; lia. }
  destruct (Z.ltb_spec MEM_LIMIT (32 * w)) as [L|L]; [discriminate|].
  rewrite to_word_size_mul32 by lia.
  assert (Hw32 : w < 2 ^ 32) by (unfold MEM_LIMIT in L; change (2 ^ 32) with 4294967296; lia).
  destruct (Z.ltb_spec mlen (w * 32)) as [G|G].
  - intros H. inversion H as [[Hg Hfee]]. clear H.
    assert (Hkw : k < w) by lia. rewrite Z.max_r by lia.
    assert (Hsq : (w * w) mod U64 = w * w).
    { apply Z.mod_small. rewrite U64_val. change (2 ^ 32) with 4294967296 in Hw32. nia. }
    assert (Hlin : (w * 3) mod U64 = w * 3).
    { apply Z.mod_small. rewrite U64_val. change (2 ^ 32) with 4294967296 in Hw32. lia. }
    rewrite Hsq, Hlin in *.
    assert (Hb := mem_fee_bound w ltac:(lia)). assert (Hn := mem_fee_nonneg w ltac:(lia)).
    assert (Htot : (w * 3 + w * w / 512) mod U64 = mem_fee w).
    { unfold mem_fee in *. apply Z.mod_small. rewrite U64_val. change (2 ^ 56) with 72057594037927936 in Hb. lia. }
    rewrite Htot in *.
    assert (Hmono := mem_fee_mono k w ltac:(lia)). assert (Hn' := mem_fee_nonneg k ltac:(lia)).
    assert (Hdiff : (mem_fee w - fee) mod U64 = mem_fee w - mem_fee k).
    { subst fee. apply Z.mod_small. rewrite U64_val. change (2 ^ 56) with 72057594037927936 in Hb. lia. }
    rewrite Hdiff in *. split; [assumption|]. split; [reflexivity|].
    destruct p; cbn [magn]; subst g.
    + rewrite Z.mod_small; [lia|]. unfold MAGNIFICATION. rewrite U64_val. change (2 ^ 56) with 72057594037927936 in Hb. lia.
    + lia.
  - intros H. inversion H; subst. assert (w <= k) by lia. rewrite Z.max_l by lia. repeat split; lia.
Qed.

Lemma magnify_sound p g v : 0 <= g -> magnify p g = Some v -> v = magn p * g.
Proof.
  unfold magnify, magn. intros Hg. destruct p.
  - destruct (safe_mul g MAGNIFICATION) as [x o] eqn:E. destruct o; [discriminate|].
    intros H. inversion H; subst. apply safe_mul_ok in E; [|assumption|unfold MAGNIFICATION; lia]. lia.
  - intros H. inversion H; subst. lia.
Qed.

(* ---- the dynamicGas functions --------------------------------------------------------------------- *)
Definition nonneg_stack (s : list Z) : Prop := Forall (fun x => 0 <= x) s.
Lemma sget_nonneg s i : nonneg_stack s -> 0 <= sget s i.
Proof.
  intros Hs. unfold sget. destruct (nth_in_or_default i s 0) as [Hin | E]; [|rewrite E; lia].
  unfold nonneg_stack in Hs. rewrite Forall_forall in Hs. apply Hs. exact Hin.
Qed.

Lemma to_word_size_nonneg x : 0 <= x -> 0 <= to_word_size x.
Proof.
  intros H. unfold to_word_size, MAXU64. rewrite U64_val.
  destruct (Z.ltb_spec (18446744073709551616 - 1 - 31) x).
  - change ((18446744073709551616 - 1) / 32 + 1) with 576460752303423488. lia.
  - apply Z.div_pos; lia.
Qed.

(* what every dynamicGas result guarantees: the recorded fee is the fee of the new memory size, the gas
   reserved for a callee (callGasTemp) is non-negative, and the cost covers callGasTemp, the value-transfer
   surcharge and the (magnified) price of every word the memory grows by *)
Definition dyn_ok (p026 : bool) (k w sur : Z) (r : dynres) : Prop :=
  match r with
  | None => True
  | Some (cost, fee', cgt) =>
      Z.max k w < 2 ^ 32 /\ fee' = mem_fee (Z.max k w) /\ 0 <= cgt /\
      cgt + sur + magn p026 * (mem_fee (Z.max k w) - mem_fee k) <= cost
  end.

Lemma delta_nonneg k w : 0 <= k -> 0 <= mem_fee (Z.max k w) - mem_fee k.
Proof. intros. assert (mem_fee k <= mem_fee (Z.max k w)) by (apply mem_fee_mono; lia). lia. Qed.

Lemma pure_sound p mlen fee k w :
  memok mlen fee k -> 0 <= w ->
  dyn_ok p k w 0 (match memory_gas_cost p mlen fee (32 * w) with Some (g, fee') => Some (g, fee', 0) | None => None end).
Proof.
  intros Hm Hw. destruct (memory_gas_cost p mlen fee (32 * w)) as [[g fee']|] eqn:E; [|exact I].
  destruct (memory_gas_cost_sound _ _ _ _ _ _ _ Hm Hw E) as (H1 & H2 & H3). cbn. repeat split; try assumption; lia.
Qed.

Lemma mul_ge_self m x : 1 <= m -> 0 <= x -> x <= m * x. Proof. intros. nia. Qed.

Lemma copier_sound p mlen fee k w words :
  memok mlen fee k -> 0 <= w -> 0 <= words ->
  dyn_ok p k w 0 (copier_gas magnify p mlen fee (32 * w) words).
Proof.
  intros Hm Hw Hwords. unfold copier_gas.
  destruct (memory_gas_cost p mlen fee (32 * w)) as [[g fee']|] eqn:E; [|exact I].
  destruct (memory_gas_cost_sound _ _ _ _ _ _ _ Hm Hw E) as (H1 & H2 & H3).
  destruct Hm as (Hk & _ & _). assert (Hd := delta_nonneg k w ltac:(lia)). assert (Hmg := magn_pos p).
  assert (0 <= g) by (subst g; nia).
  destruct (u64 words); cbn [negb]; [|exact I].
  destruct (safe_mul (to_word_size words) 3) as [x o1] eqn:E1. destruct o1; [exact I|].
  apply safe_mul_ok in E1; [|apply to_word_size_nonneg; assumption|lia]. assert (Hx := to_word_size_nonneg words Hwords).
  destruct (safe_add g x) as [g2 o2] eqn:E2. destruct o2; [exact I|].
  apply safe_add_ok in E2; [|assumption|lia].
  destruct (magnify p g2) as [g3|] eqn:E3; [|exact I].
  apply magnify_sound in E3; [|lia]. cbn. repeat split; try assumption; try lia.
  assert (g2 <= magn p * g2) by (apply mul_ge_self; lia). lia.
Qed.

Lemma hash_sound p mlen fee k w size :
  memok mlen fee k -> 0 <= w -> 0 <= size ->
  dyn_ok p k w 0 (hash_gas magnify p mlen fee (32 * w) size).
Proof.
  intros Hm Hw Hsz. unfold hash_gas.
  destruct (memory_gas_cost p mlen fee (32 * w)) as [[g fee']|] eqn:E; [|exact I].
  destruct (memory_gas_cost_sound _ _ _ _ _ _ _ Hm Hw E) as (H1 & H2 & H3).
  destruct Hm as (Hk & _ & _). assert (Hd := delta_nonneg k w ltac:(lia)). assert (Hmg := magn_pos p).
  assert (0 <= g) by (subst g; nia).
  destruct (u64 size); cbn [negb]; [|exact I].
  destruct (safe_mul (to_word_size size) 6) as [x o1] eqn:E1. destruct o1; [exact I|].
  apply safe_mul_ok in E1; [|apply to_word_size_nonneg; assumption|lia]. assert (Hx := to_word_size_nonneg size Hsz).
  destruct (safe_add g x) as [g2 o2] eqn:E2. destruct o2; [exact I|].
  apply safe_add_ok in E2; [|assumption|lia].
  destruct (magnify p g2) as [g3|] eqn:E3; [|exact I].
  apply magnify_sound in E3; [|lia]. cbn. repeat split; try assumption; try lia.
  assert (g2 <= magn p * g2) by (apply mul_ge_self; lia). lia.
Qed.

Lemma log_sound p n mlen fee k w size :
  memok mlen fee k -> 0 <= w -> 0 <= size -> 0 <= n ->
  dyn_ok p k w 0 (log_gas magnify p n mlen fee (32 * w) size).
Proof.
  intros Hm Hw Hsz Hn. unfold log_gas.
  destruct (u64 size); cbn [negb]; [|exact I].
  destruct (memory_gas_cost p mlen fee (32 * w)) as [[g fee']|] eqn:E; [|exact I].
  destruct (memory_gas_cost_sound _ _ _ _ _ _ _ Hm Hw E) as (H1 & H2 & H3).
  destruct Hm as (Hk & _ & _). assert (Hd := delta_nonneg k w ltac:(lia)). assert (Hmg := magn_pos p).
  assert (0 <= g) by (subst g; nia).
  destruct (safe_add g 375) as [g1 o1] eqn:E1. destruct o1; [exact I|]. apply safe_add_ok in E1; [|assumption|lia].
  destruct (safe_add g1 (n * 375)) as [g2 o2] eqn:E2. destruct o2; [exact I|]. apply safe_add_ok in E2; [|lia|lia].
  destruct (safe_mul size 8) as [ms o3] eqn:E3. destruct o3; [exact I|]. apply safe_mul_ok in E3; [|assumption|lia].
  destruct (safe_add g2 ms) as [g3 o4] eqn:E4. destruct o4; [exact I|]. apply safe_add_ok in E4; [|lia|lia].
  destruct (magnify p g3) as [g4|] eqn:E5; [|exact I].
  apply magnify_sound in E5; [|lia]. cbn. repeat split; try assumption; try lia.
  assert (g3 <= magn p * g3) by (apply mul_ge_self; lia). lia.
Qed.

Lemma call_gas_nonneg avail base cc : 0 <= cc -> 0 <= call_gas avail base cc.
Proof.
  intros Hc. unfold call_gas.
  assert (Ha : 0 <= (avail - base) mod U64) by (apply Z.mod_pos_bound; rewrite U64_val; lia).
  set (a := (avail - base) mod U64) in *.
  assert (a / 64 <= a) by (apply Z.div_le_upper_bound; lia).
  destruct (negb (u64 cc) || (a - a / 64 <? cc)); lia.
Qed.
Lemma auth_call_gas_nonneg avail base cc : 0 <= cc -> 0 <= auth_call_gas avail base cc.
Proof.
  intros Hc. unfold auth_call_gas.
  assert (Ha : 0 <= (avail - base) mod U64) by (apply Z.mod_pos_bound; rewrite U64_val; lia).
  set (a := (avail - base) mod U64) in *.
  assert (a / 64 <= a) by (apply Z.div_le_upper_bound; lia).
  destruct (negb (u64 cc) || (cc =? 0)); [lia|]. destruct (a - a / 64 <? cc); lia.
Qed.

Lemma callish_sound p base0 mlen fee k w cgas cc :
  memok mlen fee k -> 0 <= w -> 0 <= base0 -> 0 <= cc ->
  dyn_ok p k w base0 (callish_gas p base0 mlen fee (32 * w) cgas cc).
Proof.
  intros Hm Hw Hb Hcc. unfold callish_gas.
  destruct (memory_gas_cost p mlen fee (32 * w)) as [[g fee']|] eqn:E; [|exact I].
  destruct (memory_gas_cost_sound _ _ _ _ _ _ _ Hm Hw E) as (H1 & H2 & H3).
  destruct Hm as (Hk & _ & _). assert (Hd := delta_nonneg k w ltac:(lia)). assert (Hmg := magn_pos p).
  assert (0 <= g) by (subst g; nia).
  destruct (safe_add base0 g) as [g1 o1] eqn:E1. destruct o1; [exact I|]. apply safe_add_ok in E1; [|assumption|lia].
  assert (Ht := call_gas_nonneg cgas g1 cc Hcc).
  destruct (safe_add g1 (call_gas cgas g1 cc)) as [g2 o2] eqn:E2. destruct o2; [exact I|].
  apply safe_add_ok in E2; [|lia|lia]. cbn. repeat split; try assumption; lia.
Qed.

Lemma authcall_sound p ge s mlen fee k w cgas :
  memok mlen fee k -> 0 <= w -> nonneg_stack s ->
  dyn_ok p k w 0 (authcall_gas p ge s mlen fee (32 * w) cgas).
Proof.
  intros Hm Hw Hs. unfold authcall_gas.
  destruct (memory_gas_cost p mlen fee (32 * w)) as [[g fee']|] eqn:E; [|exact I].
  destruct (memory_gas_cost_sound _ _ _ _ _ _ _ Hm Hw E) as (H1 & H2 & H3).
  destruct Hm as (Hk & _ & _). assert (Hd := delta_nonneg k w ltac:(lia)). assert (Hmg := magn_pos p).
  assert (Hg0 : 0 <= g) by (subst g; nia).
  assert (Hgb : g < 2 ^ 61).
  { assert (Hb := mem_fee_bound (Z.max k w) ltac:(lia)). assert (Hn := mem_fee_nonneg k ltac:(lia)).
    assert (magn p <= 30) by (destruct p; cbv; discriminate).
    change (2 ^ 56) with 72057594037927936 in Hb. change (2 ^ 61) with 2305843009213693952. subst g. nia. }
  destruct (safe_add 0 g) as [d0 o] eqn:E0. destruct o; [exact I|]. apply safe_add_ok in E0; [|lia|lia].
  destruct E0 as [E0 _]. rewrite Z.add_0_l in E0. subst d0.
  change (2 ^ 61) with 2305843009213693952 in Hgb.
  set (d1 := if g_cold ge then (g + COLD_MINUS_WARM) mod U64 else g).
  assert (Hd1 : g <= d1 < 2305843009213693952 + 2500).
  { unfold d1, COLD_MINUS_WARM. destruct (g_cold ge); [|lia]. rewrite Z.mod_small; [lia|rewrite U64_val; lia]. }
  set (tv := negb (sget s 3 =? 0)).
  set (d2 := if tv then (d1 + AUTHCALL_VALUE_GAS) mod U64 else d1).
  assert (Hd2 : g <= d2 < 2305843009213693952 + 2500 + 6700).
  { unfold d2, AUTHCALL_VALUE_GAS. destruct tv; [|lia]. rewrite Z.mod_small; [lia|rewrite U64_val; lia]. }
  set (d3 := if tv && g_empty ge then (d2 + CALL_NEWACCT_GAS) mod U64 else d2).
  assert (Hd3 : g <= d3).
  { unfold d3, CALL_NEWACCT_GAS. destruct (tv && g_empty ge); [|lia]. rewrite Z.mod_small; [lia|rewrite U64_val; lia]. }
  assert (Ht := auth_call_gas_nonneg cgas d3 (sget s 1) (sget_nonneg s 1 Hs)).
  destruct (safe_add d3 (auth_call_gas cgas d3 (sget s 1))) as [d4 o2] eqn:E2. destruct o2; [exact I|].
  apply safe_add_ok in E2; [|lia|lia]. cbn. repeat split; try assumption; lia.
Qed.

Definition surcharge (name : string) (s : list Z) : Z :=
  if (String.eqb name "gasCall" || String.eqb name "gasCallCode") && negb (sget s 2 =? 0) then CALL_VALUE_GAS else 0.

Lemma dyn_ok_weaken p k w a b r : b <= a -> dyn_ok p k w a r -> dyn_ok p k w b r.
Proof. intros Hab. destruct r as [[[c f] t]|]; [|trivial]. cbn. intros (H1 & H2 & H3 & H4). repeat split; try assumption; lia. Qed.

Lemma exp_sound p bp e fee k mlen : memok mlen fee k -> dyn_ok p k 0 0 (exp_gas p bp e fee).
Proof.
  intros (Hk & _ & Hf). unfold exp_gas.
  destruct (safe_add ((((bit_len e + 7) / 8) * bp) mod U64) 10) as [g o] eqn:E. destruct o; [exact I|].
  assert (0 <= (((bit_len e + 7) / 8) * bp) mod U64) by (apply Z.mod_pos_bound; rewrite U64_val; lia).
  apply safe_add_ok in E; [|assumption|lia]. cbn. rewrite Z.max_l by lia. repeat split; try lia.
  rewrite Z.sub_diag, Z.mul_0_r. destruct p.
  - assert (0 <= (g * MAGNIFICATION) mod U64) by (apply Z.mod_pos_bound; rewrite U64_val; lia). lia.
  - lia.
Qed.

Theorem dyn_gas_sound p026 p015 name opc ge s mlen fee k w cgas r :
  memok mlen fee k -> 0 <= w -> nonneg_stack s ->
  (dyn_charges_memory name = false -> w = 0) ->
  (String.eqb name "makeGasLog" = true -> 160 <= opc) ->
  dyn_gas magnify p026 p015 name opc ge s mlen fee (32 * w) cgas = Some r ->
  dyn_ok p026 k w (surcharge name s) r.
Proof.
  intros Hm Hw Hs Hnc Hlog. unfold dyn_gas.
  assert (Hsg := sget_nonneg s). specialize (Hsg) as Hsg'.
  destruct (String.eqb_spec name "pureMemoryGascost") as [->|_].
  { intros H. inversion H; subst r. apply pure_sound; assumption. }
  destruct (String.eqb_spec name "memoryCopierGas") as [->|_].
  { intros H. inversion H; subst r. apply copier_sound; try assumption. apply Hsg; assumption. }
  destruct (String.eqb_spec name "makeGasLog") as [->|_].
  { intros H. inversion H; subst r. apply log_sound; try assumption; [apply Hsg; assumption|].
    specialize (Hlog eq_refl). lia. }
  destruct (String.eqb_spec name "gasSha3") as [->|_].
  { intros H. inversion H; subst r. apply hash_sound; try assumption. apply Hsg; assumption. }
  destruct (String.eqb_spec name "gasCreate2") as [->|_].
  { intros H. inversion H; subst r. apply hash_sound; try assumption. apply Hsg; assumption. }
  destruct (String.eqb_spec name "gasExpEIP158") as [->|_].
  { intros H. inversion H; subst r. rewrite (Hnc eq_refl). eapply exp_sound; eassumption. }
  destruct (String.eqb_spec name "gasExpFrontier") as [->|_].
  { intros H. inversion H; subst r. rewrite (Hnc eq_refl). eapply exp_sound; eassumption. }
  destruct (String.eqb_spec name "gasSStore") as [->|_].
  { intros H. inversion H; subst r. rewrite (Hnc eq_refl). destruct Hm as (Hk & _ & Hf). cbn.
    rewrite Z.max_l by lia. repeat split; try lia. rewrite Z.sub_diag, Z.mul_0_r.
    destruct p026; [cbv; discriminate|]. destruct p015; cbv; discriminate. }
  destruct (String.eqb_spec name "gasSStoreEIP2200") as [->|_].
  { intros H. inversion H; subst r. rewrite (Hnc eq_refl). destruct Hm as (Hk & _ & Hf). cbn.
    rewrite Z.max_l by lia. repeat split; try lia. rewrite Z.sub_diag, Z.mul_0_r.
    destruct p026; [cbv; discriminate|]. destruct p015; cbv; discriminate. }
  destruct (String.eqb_spec name "gasCall") as [->|_].
  { intros H. inversion H; subst r. unfold surcharge. cbn [String.eqb Ascii.eqb Bool.eqb orb andb].
    eapply dyn_ok_weaken; [|apply callish_sound; try assumption; [|apply Hsg; assumption]].
    - unfold CALL_VALUE_GAS, CALL_NEWACCT_GAS. destruct (negb (sget s 2 =? 0)); cbn [andb]; [destruct (g_empty ge)|]; lia.
    - unfold CALL_VALUE_GAS, CALL_NEWACCT_GAS. destruct (negb (sget s 2 =? 0)); cbn [andb]; [destruct (g_empty ge)|]; lia. }
  destruct (String.eqb_spec name "gasCallCode") as [->|_].
  { intros H. inversion H; subst r. unfold surcharge. cbn [String.eqb Ascii.eqb Bool.eqb orb andb].
    eapply dyn_ok_weaken; [|apply callish_sound; try assumption; [|apply Hsg; assumption]].
    - destruct (negb (sget s 2 =? 0)); lia.
    - unfold CALL_VALUE_GAS. destruct (negb (sget s 2 =? 0)); lia. }
  destruct (String.eqb_spec name "gasDelegateCall") as [->|_].
  { intros H. inversion H; subst r. apply callish_sound; try assumption; [lia|apply Hsg; assumption]. }
  destruct (String.eqb_spec name "gasStaticCall") as [->|_].
  { intros H. inversion H; subst r. apply callish_sound; try assumption; [lia|apply Hsg; assumption]. }
  destruct (String.eqb_spec name "gasAuthCall") as [->|_].
  { intros H. inversion H; subst r. apply authcall_sound; assumption. }
  destruct (String.eqb_spec name "gasSelfdestruct") as [->|_].
  { intros H. inversion H; subst r. rewrite (Hnc eq_refl). destruct Hm as (Hk & _ & Hf). cbn.
    rewrite Z.max_l by lia. repeat split; try lia. rewrite Z.sub_diag, Z.mul_0_r.
    unfold CALL_NEWACCT_GAS. destruct (g_empty ge && g_selfbal ge); lia. }
  discriminate.
Qed.
