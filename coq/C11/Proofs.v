(* C11 — proofs. Part 1: the generated tables; the two defects as they were before their fixes. *)
From Coq Require Import ZArith List Bool String Lia.
From V.C11 Require Import Model Gen.
Import ListNotations.
Local Open Scope Z_scope.

(* 8 fork configurations x 256 opcodes, decided by computation *)
Lemma tables_wf : List.length tables = 8%nat /\ forallb wf_table tables = true.
Proof. split; vm_compute; reflexivity. Qed.

(* the AUTH row as it was before fix 5b93819: no memorySize although opAuth reads [offset, offset+length) *)
Definition auth_row_before_fix : entry :=
  mkE true "opAuth" "pureMemoryGascost" "" 93000 3 1026 false false false false false.
Lemma auth_row_before_fix_refuted : wf_entry 246 auth_row_before_fix = false.
Proof. vm_compute. reflexivity. Qed.
Lemma auth_row_fixed : wf_entry 246 (nth 246 (nth 7 tables []) noE) = true.
Proof. vm_compute. reflexivity. Qed.

(* the gas magnification as it was before fix a88a71e: CALLDATACOPY growing an empty memory to
   3239466431 words (103 GB) with a 123320451-word copy was priced at 74 gas *)
Lemma magnification_before_fix_refuted :
  copier_gas magnify_prefix true 0 0 (3239466431 * 32) (123320451 * 32) = Some (74, mem_fee 3239466431, 0).
Proof. vm_compute. reflexivity. Qed.
Lemma magnification_fixed :
  copier_gas magnify true 0 0 (3239466431 * 32) (123320451 * 32) = None.
Proof. vm_compute. reflexivity. Qed.
