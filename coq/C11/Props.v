(* C11 — EVM execution is total and resource-bounded: the property theorems.

   [cfg] is any configuration whose jump table satisfies wf_table (C11_table_wf: all 8 generated tables do),
   [orc] any oracle (whatever the state database, memory contents, hashes, call targets answer), the code
   any list of integers (code_at reads them as bytes).  evm.depth is 1 inside the outermost frame, so
   "depth counter <= CallCreateDepth + 1" is the Yellow Paper's "at most 1024 nested calls". *)
From Coq Require Import ZArith List Bool String Lia.
From V.C11 Require Import Model Gen Proofs Arith Interp Bounds Pricing Precompile Analysis.
Import ListNotations.
Local Open Scope Z_scope.

(* Every row of the jump table of each of the 8 fork configurations (256 opcodes each; finite, decided by
   vm_compute) satisfies the row obligations: stack bounds consistent with the execute function's arity,
   every memory region the execute function touches covered by the row's memorySize, memorySize paired with
   a memory-charging dynamicGas, call rows paired with a gas function that sets callGasTemp,
   jumps/calls/creates cost gas, opcode 0 halts. *)
Theorem C11_table_wf : List.length tables = 8%nat /\ forallb wf_table tables = true.
Proof. exact tables_wf. Qed.
Print Assumptions C11_table_wf.

(* the two repaired defects, as they were *)
Theorem C11_auth_row_before_fix_refuted : wf_entry 246 auth_row_before_fix = false.
Proof. exact auth_row_before_fix_refuted. Qed.
Print Assumptions C11_auth_row_before_fix_refuted.

Theorem C11_magnification_before_fix_refuted :
  copier_gas magnify_prefix true 0 0 (3239466431 * 32) (123320451 * 32) = Some (74, mem_fee 3239466431, 0).
Proof. exact magnification_before_fix_refuted. Qed.
Print Assumptions C11_magnification_before_fix_refuted.

(* no uint64 wrap-around in any dynamicGas function: whenever one returns a cost, the recorded memory fee is
   the fee of the new size, the gas reserved for the callee is non-negative, and
   cost >= callGasTemp + value-transfer surcharge + magnification * (fee of new size - fee of old size) *)
Theorem C11_dynamic_gas_no_wrap :
  forall p026 p015 name opc ge s mlen fee k w cgas r,
  memok mlen fee k -> 0 <= w -> nonneg_stack s ->
  (dyn_charges_memory name = false -> w = 0) ->
  (String.eqb name "makeGasLog" = true -> 160 <= opc) ->
  dyn_gas magnify p026 p015 name opc ge s mlen fee (32 * w) cgas = Some r ->
  dyn_ok p026 k w (surcharge name s) r.
Proof. exact dyn_gas_sound. Qed.
Print Assumptions C11_dynamic_gas_no_wrap.

(* the memory accesses the go/ast extractor reads off an execute function's body (compared with exec_info on
   every run by exec_matches) stay inside the declared regions: an access that acc_justified accepts lies in
   memory whenever the declared regions do and the function's own guards let it through *)
Theorem C11_extracted_access_in_bounds :
  forall guards regs s mlen i c sz,
  acc_justified guards regs (i, c, sz) = true -> nonneg_stack s ->
  (forall r, In r regs -> region_len s r = 0 \/ sget s (fst r) + region_len s r <= mlen) ->
  (forall g, In g guards -> snd g <= sget s (fst g)) ->
  access_len s (i, c, sz) = 0 \/ sget s i + c + access_len s (i, c, sz) <= mlen.
Proof. exact acc_justified_sound. Qed.
Print Assumptions C11_extracted_access_in_bounds.

(* what growing memory costs, exactly (F = mem_fee, grow k w = F(max k w) - F(k), m = 30 under Proposal026
   else 1): m * grow through memoryGasCost alone; m * (m * grow + per-unit part) through the copy / LOG / SHA3 /
   CREATE2 gas functions — 900 * grow + 90 per copied word under Proposal026, grow + 3 per word before —
   and a refusal only when the price does not fit 64 bits *)
Theorem C11_memory_price_exact :
  (forall p mlen fee k w g fee', memok mlen fee k -> 0 <= w ->
     memory_gas_cost p mlen fee (32 * w) = Some (g, fee') -> g = magn p * grow k w) /\
  (forall p mlen fee k w words c fee' t, memok mlen fee k -> 0 <= w -> 0 <= words ->
     copier_gas magnify p mlen fee (32 * w) words = Some (c, fee', t) ->
     c = magn p * (magn p * grow k w + 3 * to_word_size words) /\ t = 0 /\ c < U64) /\
  (forall p mlen fee k w size c fee' t, memok mlen fee k -> 0 <= w -> 0 <= size ->
     hash_gas magnify p mlen fee (32 * w) size = Some (c, fee', t) ->
     c = magn p * (magn p * grow k w + 6 * to_word_size size) /\ t = 0) /\
  (forall p n mlen fee k w size c fee' t, memok mlen fee k -> 0 <= w -> 0 <= size -> 0 <= n ->
     log_gas magnify p n mlen fee (32 * w) size = Some (c, fee', t) ->
     c = magn p * (magn p * grow k w + 375 + 375 * n + 8 * size) /\ t = 0).
Proof. split; [exact pure_price|split; [exact copier_price|split; [exact hash_price|exact log_price]]]. Qed.
Print Assumptions C11_memory_price_exact.

Theorem C11_copier_price_p026 : forall mlen fee k w words c fee' t,
  memok mlen fee k -> 0 <= w -> 0 <= words ->
  copier_gas magnify true mlen fee (32 * w) words = Some (c, fee', t) -> c = 900 * grow k w + 90 * to_word_size words.
Proof. exact copier_price_p026. Qed.
Print Assumptions C11_copier_price_p026.

Theorem C11_copier_refuses_only_overflow : forall p mlen fee k w words,
  memok mlen fee k -> 0 <= w -> 32 * w <= MEM_LIMIT -> 0 <= words < U64 ->
  copier_gas magnify p mlen fee (32 * w) words = None ->
  U64 <= magn p * (magn p * grow k w + 3 * to_word_size words) \/ U64 <= magn p * grow k w + 3 * to_word_size words
  \/ U64 <= to_word_size words * 3.
Proof. exact copier_refuses_only_overflow. Qed.
Print Assumptions C11_copier_refuses_only_overflow.

(* the RequiredGas functions of the 18 precompiled contracts: total, no uint64 wrap-around for any input that
   fits EVM memory, modexp saturating at MaxUint64; RunPrecompiledContract never returns more gas than supplied *)
Theorem C11_precompile_gas_no_wrap : forall addr input, bytes_ok input -> zlen input < 2 ^ 32 ->
  pre_gas addr input = pre_gas_ideal addr input /\ 0 <= pre_gas addr input < U64.
Proof. exact pre_gas_no_wrap. Qed.
Print Assumptions C11_precompile_gas_no_wrap.

Theorem C11_modexp_gas_bounded : forall input, bytes_ok input -> 0 <= modexp_gas input <= MAXU64.
Proof. exact modexp_gas_bounded. Qed.
Print Assumptions C11_modexp_gas_bounded.

Theorem C11_precompile_run_gas_bounded : forall cost supplied r,
  0 <= cost -> 0 <= supplied < U64 -> run_precompile_gas cost supplied = Some r -> 0 <= r <= supplied.
Proof. exact run_precompile_gas_bounded. Qed.
Print Assumptions C11_precompile_run_gas_bounded.

(* RETURNDATACOPY indexes the return data, not memory: the code's bound check (256-bit sum, then conversion)
   keeps the slice inside the return data for every operand pair the interpreter lets through (length < 2^64
   by the memory-size calculation); computing the end in uint64 instead would not *)
Theorem C11_returndatacopy_guard : forall rds off len,
  0 <= off -> 0 <= len < U64 -> 0 <= rds ->
  retdata_guard rds off len = true -> off + len <= rds /\ off < U64 /\ off + len < U64.
Proof. exact retdata_guard_sound. Qed.
Print Assumptions C11_returndatacopy_guard.
Theorem C11_returndatacopy_wrap64_refuted :
  retdata_guard_wrap64 0 (2 ^ 64 - 1) 1 = true /\ retdata_guard 0 (2 ^ 64 - 1) 1 = false.
Proof. exact retdata_guard_wrap64_refuted. Qed.
Print Assumptions C11_returndatacopy_wrap64_refuted.

(* the JUMPDEST analysis (analysis.go codeBitmap) never writes outside its bit vector of len(code)/8+5 bytes,
   for every code string — including code that ends in a PUSHn with its data missing; the shorter allocation
   (len+39)/8 would be left by the same scan *)
Theorem C11_jumpdest_analysis_in_bounds : forall fuel code pc, 0 <= pc ->
  Forall (fun i => 0 <= i < bitmap_len (zlen code)) (walk fuel code pc).
Proof. exact walk_in_bounds. Qed.
Print Assumptions C11_jumpdest_analysis_in_bounds.
Theorem C11_jumpdest_analysis_short_alloc_refuted :
  let code := [0; 0; 0; 0; 0; 0; 0; 127] in
  exists i, In i (walk 10 code 0) /\ bitmap_len_short (zlen code) <= i.
Proof. exact walk_short_refuted. Qed.
Print Assumptions C11_jumpdest_analysis_short_alloc_refuted.

Section Machine.
  Context {W : Type}.
  Variable cfg : config.
  Variable orc : oracle W.
  Hypothesis Hwf : wf_table (c_tab cfg) = true.

  (* one loop iteration keeps the frame invariant (stack <= 1024 words, gas >= 0, memory length and fee
     consistent), never increases the gas, makes progress, and charges for every word of memory growth;
     entering a callee needs depth <= 1024; whatever the callee returns within its own gas, the caller
     resumes inside the invariant with strictly less gas than before the call *)
  Theorem C11_step : forall env fr w, inv fr -> step_post cfg env fr (step1 cfg orc env fr w).
  Proof. exact (step1_facts cfg orc Hwf). Qed.

  (* every memory region an execute function touches (exec_info) lies inside the memory the interpreter
     resized to, and charged for, before calling it — the obligation the AUTH row violated *)
  Theorem C11_memory_access_in_bounds : forall env fr w opc e fr1 cgt x r,
    inv fr -> charge cfg orc env fr w = inr (opc, e, fr1, cgt) ->
    exec_info (e_exec e) opc = Some x -> In r (x_mem x) ->
    (match snd r with LConst n => 0 <= n < U64 | LArg _ => True end) ->
    region_len (f_stk fr) r = 0 \/ sget (f_stk fr) (fst r) + region_len (f_stk fr) r <= f_mlen fr1.
  Proof. exact (access_in_bounds cfg orc Hwf). Qed.

  (* ... and the operands it converts with Uint64() for those accesses are below 2^64: nothing is truncated *)
  Theorem C11_memory_operands_fit_u64 : forall env fr w opc e fr1 cgt x r,
    inv fr -> charge cfg orc env fr w = inr (opc, e, fr1, cgt) ->
    exec_info (e_exec e) opc = Some x -> In r (x_mem x) ->
    (match snd r with LConst n => 0 <= n < U64 | LArg _ => True end) ->
    region_len (f_stk fr) r = 0 \/
    (sget (f_stk fr) (fst r) < U64 /\ region_len (f_stk fr) r < U64 /\ sget (f_stk fr) (fst r) + region_len (f_stk fr) r < U64).
  Proof. exact (access_fits_u64 cfg orc Hwf). Qed.

  (* gas left is between zero and the gas supplied *)
  Theorem C11_gas_bounded : forall n env fr w, inv fr -> good (fst (run cfg orc n env fr w)) (f_gas fr).
  Proof. exact (run_good cfg orc Hwf). Qed.

  (* every frame an execution passes through — in the same frame, in callees, after returns — has at most
     1024 stack words, non-negative gas, paid-for memory, and a depth counter of at most 1025 *)
  Theorem C11_frames_bounded : forall x y, reach cfg orc x y ->
    inv (snd (fst x)) -> depth_ok (fst (fst x)) ->
    inv (snd (fst y)) /\ depth_ok (fst (fst y)) /\ v_depth (fst (fst x)) <= v_depth (fst (fst y)).
  Proof. exact (reach_inv cfg orc Hwf). Qed.

  (* termination: some amount of fuel suffices, and more fuel does not change that *)
  Theorem C11_terminates : forall env fr w, depth_ok env -> inv fr ->
    exists n, forall m, (n <= m)%nat -> fst (run cfg orc m env fr w) <> OFuel.
  Proof. exact (terminates cfg orc Hwf). Qed.

  (* the property as seen from evm.Call: for every code, gas limit and input, execution ends, as a normal
     end / revert with 0 <= gas left <= gas limit or as an ordinary fault *)
  Theorem C11_call_total_and_bounded : forall code gas insz w, 0 <= gas ->
    exists n, forall m, (n <= m)%nat ->
      match fst (call_top cfg orc m code gas insz w) with
      | ODone _ g rsz => 0 <= g <= gas
      | OFault _ => True
      | OFuel => False
      end.
  Proof.
    intros code gas insz w Hg. unfold call_top. destruct code as [|b code'].
    - exists 0%nat. intros m _. cbn. lia.
    - set (env := mkEnv (b :: code') false 1 insz).
      assert (Hd : depth_ok env) by (unfold depth_ok, env, CALL_DEPTH; cbn; lia).
      assert (Hi := inv_new_frame gas Hg).
      destruct (terminates cfg orc Hwf env (new_frame gas) w Hd Hi) as [n Hn]. exists n. intros m Hm.
      assert (G := run_good cfg orc Hwf m env (new_frame gas) w Hi). specialize (Hn m Hm).
      destruct (fst (run cfg orc m env (new_frame gas) w)); [cbn in G; cbn; lia|exact I|contradiction].
  Qed.

  (* a callee that faults is an ordinary failed call for its caller: 0 is pushed, no gas comes back,
     the caller goes on with the next instruction *)
  Theorem C11_faults_are_errors : forall k f,
    resume cfg k (OFault f) =
    mkF (f_pc (k_fr k) + 1) (0 :: f_stk (k_fr k)) (f_mlen (k_fr k)) (f_fee (k_fr k)) (f_gas (k_fr k) + 0) 0.
  Proof. intros k f. unfold resume. destruct (k_kind k); reflexivity. Qed.
End Machine.
Print Assumptions C11_step.
Print Assumptions C11_memory_access_in_bounds.
Print Assumptions C11_memory_operands_fit_u64.
Print Assumptions C11_gas_bounded.
Print Assumptions C11_frames_bounded.
Print Assumptions C11_terminates.
Print Assumptions C11_call_total_and_bounded.
Print Assumptions C11_faults_are_errors.

(* the hypotheses are satisfiable: the live table of the newest fork, a fresh frame with a million gas *)
Example C11_hypotheses_satisfiable :
  wf_table (c_tab (mkCfg (nth 7 tables []) true true)) = true /\ inv (new_frame 1000000) /\
  depth_ok (mkEnv [96; 0; 86] false 1 0).
Proof.
  split; [vm_compute; reflexivity|]. split; [apply inv_new_frame; lia|]. unfold depth_ok, CALL_DEPTH. cbn. lia.
Qed.
