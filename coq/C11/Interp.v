(* C11 — proofs. Part 3: the interpreter loop over any well-formed table and any oracle. *)
From Coq Require Import ZArith List Bool String Lia.
From V.C11 Require Import Model Arith.
Import ListNotations.
Local Open Scope Z_scope.

(* ---- what wf_entry gives --------------------------------------------------------------------------- *)
Definition class_ok (e : entry) (x : xinfo) : Prop :=
  match x_class x with
  | XPlain => True
  | XCall (Some i) => 1 <= e_gas e /\ x_pushes x = 1 /\ i = 2%nat /\
                      (String.eqb (e_dyn e) "gasCall" || String.eqb (e_dyn e) "gasCallCode" = true)
  | XCall None => 1 <= e_gas e /\ x_pushes x = 1 /\ e_dyn e <> ""%string
  | XCreate => 1 <= e_gas e /\ x_pushes x = 1
  end.

Record row_facts (opc : Z) (e : entry) (x : xinfo) : Prop := mkRF {
  rf_info : exec_info (e_exec e) opc = Some x;
  rf_min : e_min e = x_pops x;
  rf_max : e_max e = STACK_LIMIT + x_pops x - x_pushes x;
  rf_pops : 0 <= x_pops x <= STACK_LIMIT;
  rf_pushes : 0 <= x_pushes x <= x_pops x + 1;
  rf_gas : 0 <= e_gas e;
  rf_memdyn : e_mem e <> ""%string -> dyn_charges_memory (e_dyn e) = true /\ exists rs, memsize_regions (e_mem e) = Some rs;
  rf_cover : x_mem x <> [] -> exists covered, memsize_regions (e_mem e) = Some covered /\
                                forallb (fun r => region_in r covered) (x_mem x) = true;
  rf_log : String.eqb (e_dyn e) "makeGasLog" = true -> 160 <= opc;
  rf_jumps : e_jumps e = true -> 1 <= e_gas e;
  rf_class : class_ok e x
}.

Lemma existsb_eqb_2 n a b : existsb (String.eqb n) [a; b] = true -> String.eqb n a || String.eqb n b = true.
Proof. cbn. rewrite orb_false_r. trivial. Qed.

Lemma exec_info_stipend name opc x i : exec_info name opc = Some x -> x_class x = XCall (Some i) -> i = 2%nat.
Proof.
  unfold exec_info, plainx.
  repeat match goal with
         | |- (if ?c then _ else _) = Some _ -> _ => destruct c
         end; intros H; inversion H; subst x; cbn; intros E; inversion E; reflexivity.
Qed.

Lemma wf_entry_facts opc e : e_def e = true -> wf_entry opc e = true -> exists x, row_facts opc e x.
Proof.
  intros Hd. unfold wf_entry. rewrite Hd. cbn [negb].
  destruct (exec_info (e_exec e) opc) as [x|] eqn:Ex; [|discriminate].
  intros H. repeat (apply andb_prop in H; let H2 := fresh "C" in destruct H as [H H2]).
  exists x. constructor.
  - exact Ex.
  - apply Z.eqb_eq. exact H.
  - apply Z.eqb_eq. exact C11.
  - apply Z.leb_le in C10. apply Z.leb_le in C7. lia.
  - apply Z.leb_le in C9. apply Z.leb_le in C8. lia.
  - apply Z.leb_le. exact C6.
  - intros Hne. destruct (String.eqb_spec (e_mem e) ""); [contradiction|]. cbn [orb] in C3.
    apply andb_prop in C3. destruct C3 as [A B]. split; [assumption|].
    destruct (memsize_regions (e_mem e)) as [rs|]; [eauto|discriminate].
  - intros Hne. destruct (x_mem x) as [|r0 l0]; [contradiction|].
    destruct (memsize_regions (e_mem e)) as [covered|]; [|discriminate]. exists covered. split; [reflexivity|exact C4].
  - intros Hl. rewrite Hl in C1. cbn [negb orb] in C1. apply Z.leb_le. exact C1.
  - intros Hj. rewrite Hj in C0. cbn [negb orb] in C0. apply Z.leb_le. exact C0.
  - unfold class_ok. destruct (x_class x) as [|[i|]|] eqn:Ec; [exact I| | |].
    + apply andb_prop in C. destruct C as [C D]. apply andb_prop in C. destruct C as [C D0].
      apply Z.leb_le in C. apply Z.eqb_eq in D0. apply existsb_eqb_2 in D.
      repeat split; try assumption. eapply exec_info_stipend; eassumption.
    + apply andb_prop in C. destruct C as [C D]. apply andb_prop in C. destruct C as [C D0].
      apply Z.leb_le in C. apply Z.eqb_eq in D0. repeat split; try assumption.
      intros E. rewrite E in D. cbn in D. discriminate.
    + apply andb_prop in C. destruct C as [A B]. apply Z.leb_le in A. apply Z.eqb_eq in B. split; assumption.
Qed.

Lemma wf_table_from_nth t : forall o i, wf_table_from o t = true -> (i < List.length t)%nat ->
  wf_entry (o + Z.of_nat i) (nth i t noE) = true.
Proof.
  induction t as [|a t IH]; intros o i H Hi; cbn in *; [lia|].
  apply andb_prop in H. destruct H as [A B]. destruct i as [|i].
  - cbn. rewrite Z.add_0_r. exact A.
  - replace (o + Z.of_nat (S i)) with (o + 1 + Z.of_nat i) by lia. apply IH; [exact B|lia].
Qed.

Lemma code_at_range c pc : 0 <= code_at c pc < 256.
Proof. unfold code_at. destruct ((pc <? 0) || (zlen c <=? pc)); [lia|]. apply Z.mod_pos_bound. lia. Qed.

Lemma wf_lookup tab opc : wf_table tab = true -> 0 <= opc < 256 ->
  e_def (nth (Z.to_nat opc) tab noE) = true -> exists x, row_facts opc (nth (Z.to_nat opc) tab noE) x.
Proof.
  unfold wf_table. intros H Ho Hd. apply andb_prop in H. destruct H as [H _]. apply andb_prop in H. destruct H as [Hl Hw].
  apply Z.eqb_eq in Hl. apply wf_entry_facts; [exact Hd|].
  replace opc with (0 + Z.of_nat (Z.to_nat opc)) at 1 by lia. apply wf_table_from_nth; [exact Hw|lia].
Qed.

Lemma stop_row tab : wf_table tab = true ->
  let e := nth 0 tab noE in e_def e = true /\ e_halts e = true /\ e_reverts e = false /\
  exists x, exec_info (e_exec e) 0 = Some x /\ x_class x = XPlain.
Proof.
  unfold wf_table, stop_halts. intros H. apply andb_prop in H. destruct H as [_ H].
  repeat (apply andb_prop in H; let H2 := fresh "C" in destruct H as [H H2]).
  destruct (exec_info (e_exec (nth 0 tab noE)) 0) as [x|]; [|discriminate].
  cbv zeta. repeat split; try assumption.
  - apply negb_true_iff. assumption.
  - exists x. split; [reflexivity|]. destruct (x_class x); [reflexivity|discriminate|discriminate].
Qed.

(* ---- the frame invariant ------------------------------------------------------------------------- *)
Definition inv (fr : frame) : Prop :=
  0 <= f_gas fr /\ nonneg_stack (f_stk fr) /\ zlen (f_stk fr) <= STACK_LIMIT /\
  exists k, memok (f_mlen fr) (f_fee fr) k.

Lemma region_size_nonneg s r x o : region_size s r = (x, o) -> 0 <= x.
Proof.
  unfold region_size, calc_mem_size, calc_mem_size_u.
  assert (HU : 0 < U64) by (rewrite U64_val; lia).
  destruct (snd r) as [j|n].
  - destruct (negb (sget s j <? U64)); [intros H; inversion H; lia|].
    destruct (sget s j =? 0); [intros H; inversion H; lia|].
    destruct (negb (sget s (fst r) <? U64)); intros H; inversion H; [lia|]. apply Z.mod_pos_bound. assumption.
  - destruct (n =? 0); [intros H; inversion H; lia|].
    destruct (negb (sget s (fst r) <? U64)); intros H; inversion H; [lia|]. apply Z.mod_pos_bound. assumption.
Qed.
Lemma regions_size_nonneg s rs x o : regions_size s rs = (x, o) -> 0 <= x.
Proof.
  revert x o. induction rs as [|r rs IH]; cbn [regions_size]; intros x o H.
  - inversion H. lia.
  - destruct (region_size s r) as [a oa] eqn:Ea. destruct oa; [inversion H; lia|].
    destruct (regions_size s rs) as [b ob] eqn:Eb. destruct ob; [inversion H; lia|].
    inversion H. apply region_size_nonneg in Ea. lia.
Qed.

Lemma msize_of_facts mem stk msize : msize_of mem stk = inr msize ->
  exists w, 0 <= w /\ msize = 32 * w /\ (mem = ""%string -> w = 0).
Proof.
  unfold msize_of, mem_size_named.
  destruct (String.eqb_spec mem "") as [->|Hne].
  - intros H. inversion H. exists 0. repeat split; lia.
  - destruct (memsize_regions mem) as [rs|]; [|discriminate].
    destruct (regions_size stk rs) as [sz ovf] eqn:Er. destruct ovf; [discriminate|].
    destruct (safe_mul (to_word_size sz) 32) as [v o] eqn:Es. destruct o; [discriminate|].
    intros H. inversion H; subst v. apply regions_size_nonneg in Er.
    apply safe_mul_ok in Es; [|apply to_word_size_nonneg; assumption|lia].
    exists (to_word_size sz). split; [apply to_word_size_nonneg; assumption|]. split; [lia|]. intros E. contradiction.
Qed.

Section Facts.
  Context {W : Type}.
  Variable cfg : config.
  Variable orc : oracle W.
  Hypothesis Hwf : wf_table (c_tab cfg) = true.

  Lemma charge_facts env fr w opc e fr1 cgt :
    inv fr -> charge cfg orc env fr w = inr (opc, e, fr1, cgt) ->
    opc = code_at (v_code env) (f_pc fr) /\ e = nth (Z.to_nat opc) (c_tab cfg) noE /\ e_def e = true /\
    exists x k k', row_facts opc e x /\
      f_stk fr1 = f_stk fr /\ f_pc fr1 = f_pc fr /\ f_rds fr1 = f_rds fr /\
      x_pops x <= zlen (f_stk fr) <= e_max e /\
      memok (f_mlen fr) (f_fee fr) k /\ memok (f_mlen fr1) (f_fee fr1) k' /\ k <= k' /\
      0 <= cgt /\ 0 <= f_gas fr1 /\
      f_gas fr1 + e_gas e + cgt + surcharge (e_dyn e) (f_stk fr)
        + magn (c_p026 cfg) * (mem_fee k' - mem_fee k) <= f_gas fr.
  Proof.
    intros (Hg & Hs & Hh & k & Hm). unfold charge.
    set (opc0 := code_at (v_code env) (f_pc fr)). set (e0 := nth (Z.to_nat opc0) (c_tab cfg) noE).
    destruct (e_def e0) eqn:Hdef; cbn [negb]; [|discriminate].
    destruct (Z.ltb_spec (zlen (f_stk fr)) (e_min e0)) as [|Hmin]; [discriminate|].
    destruct (Z.ltb_spec (e_max e0) (zlen (f_stk fr))) as [|Hmax]; [discriminate|].
    destruct (v_ro env && _); [discriminate|].
    destruct (Z.ltb_spec (f_gas fr) (e_gas e0)) as [|Hgas]; [discriminate|].
    destruct (msize_of (e_mem e0) (f_stk fr)) as [f|msize] eqn:Ems; [discriminate|].
    destruct (dyn_of cfg orc opc0 e0 env fr w msize (f_gas fr - e_gas e0)) as [[[[cost fee'] t]|]|] eqn:Edyn; try discriminate.
    destruct (Z.ltb_spec (f_gas fr - e_gas e0) cost) as [|Hcost]; [discriminate|].
    intros H. inversion H; subst opc e fr1 cgt. clear H.
    split; [reflexivity|]. split; [reflexivity|]. split; [exact Hdef|].
    destruct (wf_lookup _ opc0 Hwf (code_at_range _ _) Hdef) as [x Hx]. fold e0 in Hx.
    destruct (msize_of_facts _ _ _ Ems) as (wd & Hwd & Hmsz & Hmem0).
    (* the dynamic gas result *)
    assert (Hdok : dyn_ok (c_p026 cfg) k wd (surcharge (e_dyn e0) (f_stk fr)) (Some (cost, fee', t))).
    { unfold dyn_of in Edyn. destruct (String.eqb_spec (e_dyn e0) "") as [Ed|Ed].
      - inversion Edyn; subst cost fee' t. rewrite Ed.
        assert (wd = 0).
        { destruct (String.eqb_spec (e_mem e0) "") as [Em|Em]; [auto|].
          destruct (rf_memdyn _ _ _ Hx Em) as [Hc _]. rewrite Ed in Hc. discriminate. }
        subst wd. destruct Hm as (Hk & Hml & Hfe). cbn. rewrite Z.max_l by lia. repeat split; try lia;
          try (rewrite Z.sub_diag, Z.mul_0_r; lia).
      - subst msize. eapply dyn_gas_sound; try eassumption.
        + intros Hnc. destruct (String.eqb_spec (e_mem e0) "") as [Em|Em]; [auto|].
          destruct (rf_memdyn _ _ _ Hx Em) as [Hc _]. rewrite Hc in Hnc. discriminate.
        + apply (rf_log _ _ _ Hx). }
    destruct Hdok as (Hk' & Hfee' & Ht & Hc).
    exists x, k, (Z.max k wd). split; [exact Hx|]. cbn [f_stk f_pc f_rds f_mlen f_fee f_gas].
    rewrite <- (rf_min _ _ _ Hx).
    destruct Hm as (Hk & Hml & Hfe).
    repeat split; try assumption; try lia.
    subst msize. rewrite Hml.
    destruct (Z.ltb_spec 0 (32 * wd)); destruct (Z.ltb_spec (32 * k) (32 * wd)); cbn [andb]; lia.
  Qed.
End Facts.

(* ---- one loop iteration ---------------------------------------------------------------------------- *)
Definition good (o : outcome) (given : Z) : Prop :=
  match o with ODone _ g rsz => 0 <= g <= given /\ 0 <= rsz | _ => True end.

Definition progress (env : env) (fr fr' : frame) : Prop :=
  f_gas fr' + 1 <= f_gas fr \/
  (f_gas fr' <= f_gas fr /\ f_pc fr < f_pc fr' /\ 0 <= f_pc fr < zlen (v_code env)).

(* every word the memory grew by between two frames has been paid for at the (magnified) memory price *)
Definition mem_paid (p026 : bool) (fr fr' : frame) : Prop :=
  exists k k', memok (f_mlen fr) (f_fee fr) k /\ memok (f_mlen fr') (f_fee fr') k' /\ k <= k' /\
               f_gas fr' + magn p026 * (mem_fee k' - mem_fee k) <= f_gas fr.

Lemma nonneg_skipn n s : nonneg_stack s -> nonneg_stack (skipn n s).
Proof.
  unfold nonneg_stack. rewrite !Forall_forall. intros H x Hx. apply H.
  rewrite <- (firstn_skipn n s). apply in_or_app. right. exact Hx.
Qed.
Lemma zlen_skipn {A} n (s : list A) : 0 <= n <= zlen s -> zlen (skipn (Z.to_nat n) s) = zlen s - n.
Proof. unfold zlen. intros H. rewrite skipn_length. lia. Qed.
Lemma zlen_cons {A} (a : A) s : zlen (a :: s) = zlen s + 1.
Proof. unfold zlen. cbn [List.length]. lia. Qed.
Lemma zlen_app {A} (a b : list A) : zlen (a ++ b) = zlen a + zlen b.
Proof. unfold zlen. rewrite app_length. lia. Qed.
Lemma zlen_nonneg {A} (s : list A) : 0 <= zlen s. Proof. unfold zlen. lia. Qed.

Lemma fit_len n l : 0 <= n -> zlen (fit n l) = n.
Proof.
  intros H. unfold fit, zlen. rewrite map_length, firstn_length, app_length, repeat_length. lia.
Qed.
Lemma fit_nonneg n l : nonneg_stack (fit n l).
Proof.
  unfold fit, nonneg_stack. rewrite Forall_forall. intros x Hx. apply in_map_iff in Hx.
  destruct Hx as [y [<- _]]. apply Z.mod_pos_bound. exact W256_pos.
Qed.
Lemma nonneg_app a b : nonneg_stack a -> nonneg_stack b -> nonneg_stack (a ++ b).
Proof. unfold nonneg_stack. intros. apply Forall_app. split; assumption. Qed.

Lemma code_at_out c pc : pc < 0 \/ zlen c <= pc -> code_at c pc = 0.
Proof.
  unfold code_at. intros [H|H].
  - destruct (Z.ltb_spec pc 0); [reflexivity|lia].
  - destruct (Z.leb_spec (zlen c) pc); [rewrite orb_true_r; reflexivity|lia].
Qed.

Lemma memok_zero : memok 0 0 0.
Proof. unfold memok, mem_fee. repeat split; try lia; reflexivity. Qed.

Lemma inv_new_frame g : 0 <= g -> inv (new_frame g).
Proof.
  intros H. unfold new_frame, inv. cbn. split; [exact H|]. split; [constructor|].
  split; [unfold zlen, STACK_LIMIT; cbn; lia|]. exists 0. exact memok_zero.
Qed.

Section Step.
  Context {W : Type}.
  Variable cfg : config.
  Variable orc : oracle W.
  Hypothesis Hwf : wf_table (c_tab cfg) = true.

  Definition step_post (env : env) (fr : frame) (r : s1res W) : Prop :=
    match r with
    | S1Done o _ => good o (f_gas fr) /\ o <> OFuel
    | S1Next fr' _ => inv fr' /\ progress env fr fr' /\ mem_paid (c_p026 cfg) fr fr'
    | S1Call cenv cfr _ k =>
        v_depth env <= CALL_DEPTH /\ v_depth cenv = v_depth env + 1 /\ inv cfr /\ f_stk cfr = [] /\
        forall o, good o (f_gas cfr) ->
          inv (resume cfg k o) /\ f_gas (resume cfg k o) + 1 <= f_gas fr /\ mem_paid (c_p026 cfg) fr (resume cfg k o)
    end.

  Lemma step1_facts env fr w : inv fr -> step_post env fr (step1 cfg orc env fr w).
  Proof.
    intros Hinv. unfold step1.
    destruct (charge cfg orc env fr w) as [f|[[[opc e] fr1] cgt]] eqn:Ech; [split; [exact I|discriminate]|].
    destruct (charge_facts cfg orc Hwf _ _ _ _ _ _ _ Hinv Ech) as (Hopc & He & Hdef & x & k & k' & Hx & Hstk & Hpc & Hrds
        & Hh & Hmk & Hmk' & Hkk & Hcgt & Hg1 & Hcost).
    destruct Hinv as (Hg & Hs & Hlen & _).
    rewrite (rf_info _ _ _ Hx).
    assert (Hmagn := magn_pos (c_p026 cfg)).
    assert (Hdelta : 0 <= mem_fee k' - mem_fee k).
    { destruct Hmk as (Hk & _ & _). assert (mem_fee k <= mem_fee k') by (apply mem_fee_mono; lia). lia. }
    assert (Hsur : 0 <= surcharge (e_dyn e) (f_stk fr)).
    { unfold surcharge, CALL_VALUE_GAS. destruct (_ && _); lia. }
    assert (Hegas := rf_gas _ _ _ Hx). assert (Hpops := rf_pops _ _ _ Hx). assert (Hpushes := rf_pushes _ _ _ Hx).
    assert (Hmax := rf_max _ _ _ Hx). assert (Hmin := rf_min _ _ _ Hx).
    set (rest := skipn (Z.to_nat (e_min e)) (f_stk fr1)).
    assert (Hrest_nn : nonneg_stack rest) by (unfold rest; rewrite Hstk; apply nonneg_skipn; exact Hs).
    assert (Hrest_len : zlen rest = zlen (f_stk fr) - x_pops x).
    { unfold rest. rewrite Hstk, Hmin. apply zlen_skipn. lia. }
    assert (Hpaid : forall fr', f_mlen fr' = f_mlen fr1 -> f_fee fr' = f_fee fr1 -> f_gas fr' <= f_gas fr1 ->
                      mem_paid (c_p026 cfg) fr fr').
    { intros fr' E1 E2 E3. exists k, k'. rewrite E1, E2. repeat split; try assumption; try apply Hmk; try apply Hmk'. nia. }
    assert (Hmkinv : forall pc s g rds, 0 <= g -> nonneg_stack s -> zlen s <= STACK_LIMIT ->
                       inv (mkF pc s (f_mlen fr1) (f_fee fr1) g rds)).
    { intros. unfold inv. cbn. repeat split; try assumption. exists k'. exact Hmk'. }
    assert (Hg1le : f_gas fr1 + e_gas e <= f_gas fr) by nia.
    destruct (x_class x) as [|stip|] eqn:Ecls.
    - (* ordinary opcode *)
      destruct (o_plain orc opc env fr1 w) as [[| |pushed pc' rsz] w']; [split; [exact I|discriminate]|split; [exact I|discriminate]|].
      destruct (e_reverts e) eqn:Erev; [split; [cbn; lia|discriminate]|].
      destruct (e_halts e) eqn:Ehalt; [split; [cbn; lia|discriminate]|].
      cbn [step_post]. split; [|split].
      + apply Hmkinv; [exact Hg1| |].
        * apply nonneg_app; [apply fit_nonneg|exact Hrest_nn].
        * rewrite zlen_app, fit_len, Hrest_len; unfold pushes_of; unfold STACK_LIMIT in *; lia.
      + unfold progress. cbn [f_gas f_pc].
        destruct (Z_le_gt_dec 1 (e_gas e)) as [Hge|Hlt]; [left; lia|right].
        assert (Hnj : e_jumps e = false).
        { destruct (e_jumps e) eqn:Ej; [|reflexivity]. assert (1 <= e_gas e) by (apply (rf_jumps _ _ _ Hx); exact Ej). lia. }
        rewrite Hnj, Hpc. split; [lia|]. split; [lia|].
        destruct (Z_lt_ge_dec (f_pc fr) 0) as [Hneg|Hnn].
        { exfalso. assert (Ez : opc = 0) by (rewrite Hopc; apply code_at_out; left; exact Hneg).
          destruct (stop_row _ Hwf) as (_ & Hh0 & _). subst opc. rewrite Ez in He. cbn in He. rewrite <- He in Hh0.
          rewrite Hh0 in Ehalt. discriminate. }
        destruct (Z_lt_ge_dec (f_pc fr) (zlen (v_code env))) as [Hin|Hout]; [lia|].
        exfalso. assert (Ez : opc = 0) by (rewrite Hopc; apply code_at_out; right; lia).
        destruct (stop_row _ Hwf) as (_ & Hh0 & _). rewrite Ez in He. cbn in He. rewrite <- He in Hh0.
        rewrite Hh0 in Ehalt. discriminate.
      + apply Hpaid; cbn; lia.
    - (* call family *)
      assert (Hcls := rf_class _ _ _ Hx). unfold class_ok in Hcls. rewrite Ecls in Hcls.
      set (given := cgt + match stip with
                          | Some i => if sget (f_stk fr1) i =? 0 then 0 else CALL_STIPEND
                          | None => 0 end).
      assert (Hgiven : 0 <= given /\ given <= cgt + surcharge (e_dyn e) (f_stk fr) /\ 1 <= e_gas e /\ x_pushes x = 1).
      { unfold given. destruct stip as [i|].
        - destruct Hcls as (A & B & -> & D). rewrite Hstk. unfold surcharge, CALL_STIPEND, CALL_VALUE_GAS. rewrite D. cbn [andb].
          destruct (sget (f_stk fr) 2 =? 0); cbn [negb]; lia.
        - destruct Hcls as (A & B & _). lia. }
      destruct Hgiven as (Hgiv0 & Hgivle & Hgas1 & Hpush1).
      assert (Hafter : forall ok retgas rsz, 0 <= retgas <= given ->
                 let fr' := mkF (f_pc fr1 + 1) ((if ok : bool then 1 else 0) :: rest) (f_mlen fr1) (f_fee fr1) (f_gas fr1 + retgas) (Z.max 0 rsz) in
                 inv fr' /\ f_gas fr' + 1 <= f_gas fr /\ mem_paid (c_p026 cfg) fr fr').
      { intros ok retgas rsz Hr fr'. split; [|split].
        - apply Hmkinv; [lia| |].
          + constructor; [destruct ok; lia|exact Hrest_nn].
          + rewrite zlen_cons, Hrest_len. unfold STACK_LIMIT in *. lia.
        - cbn. nia.
        - exists k, k'. cbn. repeat split; try assumption; try apply Hmk; try apply Hmk'. nia. }
      assert (Hnext : forall ok retgas rsz w', 0 <= retgas <= given ->
                 step_post env fr (S1Next (mkF (f_pc fr1 + 1) ((if ok : bool then 1 else 0) :: rest) (f_mlen fr1) (f_fee fr1) (f_gas fr1 + retgas) (Z.max 0 rsz)) w')).
      { intros ok retgas rsz w' Hr. destruct (Hafter ok retgas rsz Hr) as (A & B & C). cbn [step_post].
        split; [exact A|]. split; [left; exact B|exact C]. }
      fold given.
      destruct (Z.ltb_spec CALL_DEPTH (v_depth env)) as [Hdeep|Hshallow]; [apply (Hnext false given 0); lia|].
      destruct (o_plan orc opc env fr1 w) as [[keep ok rsz|pcost ok rsz|code ro insz| |] w']; [| | |apply (Hnext false 0 0); lia|].
      + apply (Hnext ok (if keep then given else 0) rsz). destruct keep; lia.
      + destruct ((given <? pcost) || (pcost <? 0)) eqn:Ec; [apply (Hnext false 0 0); lia|].
        apply orb_false_elim in Ec. destruct Ec as [E1 E2]. apply Z.ltb_ge in E1. apply Z.ltb_ge in E2.
        apply (Hnext ok (if ok then given - pcost else 0) rsz). destruct ok; lia.
      + cbn [step_post]. split; [exact Hshallow|]. split; [reflexivity|]. split; [|split; [reflexivity|]].
        * apply inv_new_frame; lia.
        * intros o Hgood. unfold resume. cbn [k_kind k_fr f_pc f_stk f_mlen f_fee f_gas new_frame] in *.
          destruct o as [[|] g rsz|f|]; cbn [good] in Hgood.
          -- destruct (Hafter false g rsz ltac:(lia)) as (A & B & C). rewrite Z.max_r in * by lia. split; [exact A|split; [exact B|exact C]].
          -- destruct (Hafter true g rsz ltac:(lia)) as (A & B & C). rewrite Z.max_r in * by lia. split; [exact A|split; [exact B|exact C]].
          -- destruct (Hafter false 0 0 ltac:(lia)) as (A & B & C). exact (conj A (conj B C)).
          -- destruct (Hafter false 0 0 ltac:(lia)) as (A & B & C). exact (conj A (conj B C)).
      + split; [exact I|discriminate].
    - (* create family *)
      assert (Hcls := rf_class _ _ _ Hx). unfold class_ok in Hcls. rewrite Ecls in Hcls. destruct Hcls as [Hgas1 Hpush1].
      set (given := f_gas fr1 - f_gas fr1 / 64).
      assert (Hdiv : 0 <= f_gas fr1 / 64 <= f_gas fr1).
      { split; [apply Z.div_pos; lia|apply Z.div_le_upper_bound; lia]. }
      assert (Hgiv : 0 <= given <= f_gas fr1) by (unfold given; lia).
      assert (Hafter : forall v retgas rsz, 0 <= v -> 0 <= retgas <= given ->
                 let fr' := mkF (f_pc fr1 + 1) (v :: rest) (f_mlen fr1) (f_fee fr1) (f_gas fr1 - given + retgas) rsz in
                 inv fr' /\ f_gas fr' + 1 <= f_gas fr /\ mem_paid (c_p026 cfg) fr fr').
      { intros v retgas rsz Hv Hr fr'. split; [|split].
        - apply Hmkinv; [lia| |].
          + constructor; [exact Hv|exact Hrest_nn].
          + rewrite zlen_cons, Hrest_len. unfold STACK_LIMIT in *. lia.
        - cbn. nia.
        - exists k, k'. cbn. repeat split; try assumption; try apply Hmk; try apply Hmk'. nia. }
      assert (Hnext : forall retgas rsz w', 0 <= retgas <= given ->
                 step_post env fr (S1Next (mkF (f_pc fr1 + 1) (0 :: rest) (f_mlen fr1) (f_fee fr1) (f_gas fr1 - given + retgas) (Z.max 0 rsz)) w')).
      { intros retgas rsz w' Hr. destruct (Hafter 0 retgas (Z.max 0 rsz) ltac:(lia) Hr) as (A & B & C). cbn [step_post].
        split; [exact A|]. split; [left; exact B|exact C]. }
      fold given.
      destruct (o_plan orc opc env fr1 w) as [pl w'].
      assert (Hrefused : step_post env fr (S1Next (mkF (f_pc fr1 + 1) (0 :: rest) (f_mlen fr1) (f_fee fr1) (f_gas fr1 - given + 0) (Z.max 0 0)) w'))
        by (apply (Hnext 0 0); lia).
      destruct pl as [keep ok rsz|pcost ok rsz|code ro insz| |]; [| | |exact Hrefused|];
        (destruct (Z.ltb_spec CALL_DEPTH (v_depth env)) as [Hdeep|Hshallow]; [apply (Hnext given 0); lia|]).
      + apply (Hnext (if keep then given else 0) 0). destruct keep; lia.
      + apply (Hnext 0 0). lia.
      + cbn [step_post]. split; [exact Hshallow|]. split; [reflexivity|]. split; [|split; [reflexivity|]].
        * apply inv_new_frame; lia.
        * intros o Hgood. unfold resume. cbn [k_kind k_fr k_addr f_pc f_stk f_mlen f_fee f_gas new_frame] in *.
          assert (Haddr : 0 <= o_word orc opc env fr1 w mod W256) by (apply Z.mod_pos_bound; exact W256_pos).
          destruct o as [[|] g rsz|f|]; cbn [good] in Hgood.
          -- apply (Hafter 0 g rsz); lia.
          -- destruct (Z.ltb_spec MAX_CODE rsz).
             ++ apply (Hafter 0 0 0); lia.
             ++ set (dg := rsz * CREATE_DATA_GAS * (if c_p026 cfg then MAGNIFICATION else 1)).
                assert (0 <= dg) by (unfold dg, CREATE_DATA_GAS, MAGNIFICATION; destruct (c_p026 cfg); lia).
                destruct (Z.ltb_spec g dg).
                ** apply (Hafter 0 g 0); lia.
                ** apply (Hafter _ (g - dg) 0); lia.
          -- apply (Hafter 0 0 0); lia.
          -- apply (Hafter 0 0 0); lia.
      + split; [exact I|discriminate].
  Qed.
End Step.

(* ---- whole executions ------------------------------------------------------------------------------ *)
Section Run.
  Context {W : Type}.
  Variable cfg : config.
  Variable orc : oracle W.
  Hypothesis Hwf : wf_table (c_tab cfg) = true.

  Notation run := (run cfg orc).
  Notation step1 := (step1 cfg orc).
  Notation resume := (resume cfg).

  Definition le_rec (r1 r2 : env -> frame -> W -> outcome * W) : Prop :=
    forall e f w, fst (r1 e f w) <> OFuel -> r2 e f w = r1 e f w.

  Lemma body_mono r1 r2 : le_rec r1 r2 -> le_rec (body cfg orc r1) (body cfg orc r2).
  Proof.
    intros H e f w. unfold body. destruct (step1 e f w) as [o w'|f' w'|ce cf w' k]; [reflexivity|apply H|].
    destruct (r1 ce cf w') as [o1 w1] eqn:E1. intros Hne.
    assert (Ho1 : o1 <> OFuel) by (intros ->; apply Hne; reflexivity).
    rewrite (H ce cf w') by (rewrite E1; exact Ho1). rewrite E1.
    destruct o1; [| |contradiction]; apply H; exact Hne.
  Qed.

  Lemma run_mono_S n : le_rec (run n) (run (S n)).
  Proof.
    induction n as [|n IH].
    - intros e f w H. cbn in H. contradiction.
    - change (run (S (S n))) with (body cfg orc (run (S n))). change (run (S n)) with (body cfg orc (run n)) at 1.
      apply body_mono. exact IH.
  Qed.
  Lemma run_mono n m : (n <= m)%nat -> le_rec (run n) (run m).
  Proof.
    induction 1 as [|m Hle IH]; [intros e f w _; reflexivity|].
    intros e f w H. rewrite (run_mono_S m e f w); [apply IH; exact H|]. rewrite (IH e f w H). exact H.
  Qed.

  Lemma good_weaken o a b : a <= b -> good o a -> good o b.
  Proof. intros Hab. destruct o; cbn; [lia|trivial|trivial]. Qed.

  Lemma progress_gas e f f' : progress e f f' -> f_gas f' <= f_gas f.
  Proof. intros [H|[H _]]; lia. Qed.

  (* gas left is between zero and the gas the frame started with, whatever the code and the oracle *)
  Theorem run_good n : forall env fr w, inv fr -> good (fst (run n env fr w)) (f_gas fr).
  Proof.
    induction n as [|n IH]; intros env fr w Hinv; [exact I|].
    change (run (S n)) with (body cfg orc (run n)). unfold body.
    assert (Hs := step1_facts cfg orc Hwf env fr w Hinv).
    destruct (step1 env fr w) as [o w'|fr' w'|ce cf w' k]; cbn [step_post] in Hs.
    - exact (proj1 Hs).
    - destruct Hs as (Hi & Hp & _). eapply good_weaken; [apply (progress_gas _ _ _ Hp)|apply IH; exact Hi].
    - destruct Hs as (_ & _ & Hci & _ & Hres).
      assert (Hc := IH ce cf w' Hci). destruct (run n ce cf w') as [o1 w1]. cbn [fst] in Hc.
      destruct (Hres o1 Hc) as (Hi2 & Hg2 & _).
      destruct o1; [| |exact I]; (eapply good_weaken; [|apply IH; exact Hi2]); lia.
  Qed.

  (* ---- every frame an execution passes through ---------------------------------------------------- *)
  Inductive reach : (env * frame * W) -> (env * frame * W) -> Prop :=
  | r_refl x : reach x x
  | r_next e f w f' w' y : step1 e f w = S1Next f' w' -> reach (e, f', w') y -> reach (e, f, w) y
  | r_enter e f w ce cf w' k y : step1 e f w = S1Call ce cf w' k -> reach (ce, cf, w') y -> reach (e, f, w) y
  | r_return e f w ce cf w' k n o w'' y :
      step1 e f w = S1Call ce cf w' k -> run n ce cf w' = (o, w'') -> o <> OFuel ->
      reach (e, resume k o, w'') y -> reach (e, f, w) y.

  Definition depth_ok (e : env) : Prop := 1 <= v_depth e <= CALL_DEPTH + 1.

  Theorem reach_inv x y : reach x y ->
    inv (snd (fst x)) -> depth_ok (fst (fst x)) ->
    inv (snd (fst y)) /\ depth_ok (fst (fst y)) /\ v_depth (fst (fst x)) <= v_depth (fst (fst y)).
  Proof.
    induction 1 as [x|e f w f' w' y Hs Hr IH|e f w ce cf w' k y Hs Hr IH|e f w ce cf w' k n o w'' y Hs Hrun Ho Hr IH];
      cbn [fst snd] in *; intros Hinv Hd.
    - split; [exact Hinv|split; [exact Hd|lia]].
    - assert (Hf := step1_facts cfg orc Hwf e f w Hinv). rewrite Hs in Hf. cbn [step_post] in Hf.
      apply IH; [apply Hf|exact Hd].
    - assert (Hf := step1_facts cfg orc Hwf e f w Hinv). rewrite Hs in Hf. cbn [step_post] in Hf.
      destruct Hf as (Hdep & Hcd & Hci & _).
      destruct IH as (A & B & C); [exact Hci|unfold depth_ok in *; lia|]. split; [exact A|split; [exact B|lia]].
    - assert (Hf := step1_facts cfg orc Hwf e f w Hinv). rewrite Hs in Hf. cbn [step_post] in Hf.
      destruct Hf as (_ & _ & Hci & _ & Hres).
      assert (Hg := run_good n ce cf w' Hci). rewrite Hrun in Hg. cbn [fst] in Hg.
      apply IH; [apply (Hres o Hg)|exact Hd].
  Qed.

  (* ---- termination ---------------------------------------------------------------------------------- *)
  Definition measure (e : env) (f : frame) : nat :=
    Z.to_nat (f_gas f * (zlen (v_code e) + 1) + Z.max 0 (Z.min (zlen (v_code e)) (zlen (v_code e) - f_pc f))).

  Lemma measure_gas e f f' : 0 <= f_gas f' -> f_gas f' + 1 <= f_gas f -> (measure e f' < measure e f)%nat.
  Proof.
    intros H0 H. unfold measure. assert (HL := zlen_nonneg (v_code e)). set (L := zlen (v_code e)) in *.
    apply Z2Nat.inj_lt; nia.
  Qed.
  Lemma measure_progress e f f' : 0 <= f_gas f' -> progress e f f' -> (measure e f' < measure e f)%nat.
  Proof.
    intros H0 [H|(Hg & Hpc & Hr)]; [apply measure_gas; assumption|].
    unfold measure. assert (HL := zlen_nonneg (v_code e)). set (L := zlen (v_code e)) in *.
    apply Z2Nat.inj_lt; nia.
  Qed.

  Lemma terminates_depth (D : nat) : forall env fr w,
    CALL_DEPTH + 1 - v_depth env <= Z.of_nat D -> inv fr -> exists n, fst (run n env fr w) <> OFuel.
  Proof.
    induction D as [|D IHD]; intros env fr w HD.
    - (* no further call can be entered *)
      remember (measure env fr) as m eqn:Hm. revert fr w Hm.
      induction m as [m IHm] using lt_wf_ind. intros fr w Hm Hinv.
      assert (Hs := step1_facts cfg orc Hwf env fr w Hinv).
      destruct (step1 env fr w) as [o w'|fr' w'|ce cf w' k] eqn:Es; cbn [step_post] in Hs.
      + exists 1%nat. cbn. unfold body. rewrite Es. exact (proj2 Hs).
      + destruct Hs as (Hi & Hp & _).
        destruct (IHm (measure env fr')) with (fr := fr') (w := w') as [n Hn];
          [subst m; apply measure_progress; [apply Hi|exact Hp]|reflexivity|exact Hi|].
        exists (S n). change (run (S n)) with (body cfg orc (run n)). unfold body. rewrite Es. exact Hn.
      + exfalso. destruct Hs as (Hdep & _). unfold CALL_DEPTH in *. lia.
    - remember (measure env fr) as m eqn:Hm. revert fr w Hm.
      induction m as [m IHm] using lt_wf_ind. intros fr w Hm Hinv.
      assert (Hs := step1_facts cfg orc Hwf env fr w Hinv).
      destruct (step1 env fr w) as [o w'|fr' w'|ce cf w' k] eqn:Es; cbn [step_post] in Hs.
      + exists 1%nat. cbn. unfold body. rewrite Es. exact (proj2 Hs).
      + destruct Hs as (Hi & Hp & _).
        destruct (IHm (measure env fr')) with (fr := fr') (w := w') as [n Hn];
          [subst m; apply measure_progress; [apply Hi|exact Hp]|reflexivity|exact Hi|].
        exists (S n). change (run (S n)) with (body cfg orc (run n)). unfold body. rewrite Es. exact Hn.
      + destruct Hs as (Hdep & Hcd & Hci & _ & Hres).
        destruct (IHD ce cf w') as [n1 Hn1]; [unfold CALL_DEPTH in *; lia|exact Hci|].
        destruct (run n1 ce cf w') as [o1 w1] eqn:E1. cbn [fst] in Hn1.
        assert (Hg1 := run_good n1 ce cf w' Hci). rewrite E1 in Hg1. cbn [fst] in Hg1.
        destruct (Hres o1 Hg1) as (Hi2 & Hgas2 & _).
        destruct (IHm (measure env (resume k o1))) with (fr := resume k o1) (w := w1) as [n2 Hn2];
          [subst m; apply measure_gas; [apply Hi2|exact Hgas2]|reflexivity|exact Hi2|].
        exists (S (Nat.max n1 n2)). change (run (S (Nat.max n1 n2))) with (body cfg orc (run (Nat.max n1 n2))).
        unfold body. rewrite Es.
        rewrite (run_mono n1 (Nat.max n1 n2) (Nat.le_max_l _ _) ce cf w') by (rewrite E1; exact Hn1). rewrite E1.
        rewrite (run_mono n2 (Nat.max n1 n2) (Nat.le_max_r _ _) env (resume k o1) w1) by exact Hn2.
        destruct o1; [exact Hn2|exact Hn2|contradiction].
  Qed.

  Theorem terminates env fr w : depth_ok env -> inv fr ->
    exists n, forall m, (n <= m)%nat -> fst (run m env fr w) <> OFuel.
  Proof.
    intros Hd Hinv.
    destruct (terminates_depth (Z.to_nat (CALL_DEPTH + 1)) env fr w) as [n Hn]; [unfold depth_ok, CALL_DEPTH in *; lia|exact Hinv|].
    exists n. intros m Hm. rewrite (run_mono n m Hm env fr w Hn). exact Hn.
  Qed.
End Run.
