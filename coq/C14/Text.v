(* C14 — the hex TEXT entry points (groupsig SetHexString of Signature / Pubkey / Seckey / ID, after
   `fix:` 9e75567): prefix "0x", then only hex digits; for points exactly 2*n digits. Model + proofs. *)
From Coq Require Import List NArith ZArith Bool Lia.
From Coq Require String Ascii.
From V.Base Require Import Hex BigEndian.
From V.C14 Require Import Model Bytes Proofs.
Import ListNotations.
Local Open Scope N_scope.

Definition is_hex (c : Ascii.ascii) : bool :=
  let n := Ascii.N_of_ascii c in
  ((48 <=? n) && (n <=? 57)) || ((97 <=? n) && (n <=? 102)) || ((65 <=? n) && (n <=? 70)).

Fixpoint all_hex (s : String.string) : bool :=
  match s with
  | String.EmptyString => true
  | String.String c r => is_hex c && all_hex r
  end.

Definition c0 : Ascii.ascii := Ascii.ascii_of_N 48.     (* '0' *)
Definition cx : Ascii.ascii := Ascii.ascii_of_N 120.    (* 'x' *)
Definition with_prefix (r : String.string) : String.string := String.String c0 (String.String cx r).

Definition strip_prefix (s : String.string) : option String.string :=
  match s with
  | String.String a (String.String b r) =>
      if (Ascii.N_of_ascii a =? 48) && (Ascii.N_of_ascii b =? 120) then Some r else None
  | _ => None
  end.

(* bn_curve.go decodeHexExact *)
Definition decode_hex_exact (s : String.string) (n : nat) : option bytes :=
  match strip_prefix s with
  | None => None
  | Some r => if (String.length r =? 2 * n)%nat && all_hex r then Some (unhex r) else None
  end.

(* sig.go Signature.SetHexString: (value, error?) *)
Definition sig_set_hex (s : String.string) : g1 * bool :=
  match decode_hex_exact s 64 with
  | None => (G1Nil, true)
  | Some b => sig_deserialize b
  end.
(* pubkey.go Pubkey.SetHexString *)
Definition pk_set_hex (s : String.string) : res g2 :=
  match decode_hex_exact s 128 with
  | None => Err ELength
  | Some b => pk_deserialize b
  end.

Fixpoint hexnum_acc (acc : N) (s : String.string) : N :=
  match s with
  | String.EmptyString => acc
  | String.String c r => hexnum_acc (16 * acc + hexval c) r
  end.
(* bn_curve.go BnInt.setHexString: None = error (value untouched) *)
Definition scalar_set_hex (s : String.string) : option N :=
  match strip_prefix s with
  | None => None
  | Some r => match r with
              | String.EmptyString => None
              | _ => if all_hex r then Some (hexnum_acc 0 r) else None
              end
  end.

(* ---- proofs ---- *)
Lemma unhex_length : forall n s, (String.length s <= n)%nat -> (2 * length (unhex s) <= String.length s)%nat.
Proof.
  induction n as [|n IH]; intros [|a [|b r]] H; cbn [unhex String.length length] in *; try lia.
  specialize (IH r ltac:(lia)). lia.
Qed.

Lemma unhex_length_even : forall n s k, (String.length s <= n)%nat -> String.length s = (2 * k)%nat -> length (unhex s) = k.
Proof.
  induction n as [|n IH]; intros [|a [|b r]] k H E; cbn [unhex String.length length] in *; try lia.
  destruct k as [|k]; [lia|]. f_equal. apply IH; lia.
Qed.

Lemma decode_hex_exact_spec s n b : decode_hex_exact s n = Some b ->
  exists r, strip_prefix s = Some r /\ String.length r = (2 * n)%nat /\ all_hex r = true /\ b = unhex r /\ length b = n /\ bytes_ok b.
Proof.
  unfold decode_hex_exact. destruct (strip_prefix s) as [r|]; [|discriminate].
  destruct ((String.length r =? 2 * n)%nat && all_hex r) eqn:E; [|discriminate].
  intro H. inversion H; subst b. apply andb_true_iff in E as [E1 E2]. apply Nat.eqb_eq in E1.
  exists r. repeat split; auto.
  - eapply unhex_length_even; [apply Nat.le_refl | exact E1].
  - apply unhex_ok.
Qed.

Lemma strip_prefix_spec s r : strip_prefix s = Some r -> s = with_prefix r.
Proof.
  destruct s as [|a [|b t]]; cbn [strip_prefix]; try discriminate.
  destruct ((Ascii.N_of_ascii a =? 48) && (Ascii.N_of_ascii b =? 120)) eqn:E; [|discriminate].
  intro H. inversion H; subst t. apply andb_true_iff in E as [E1 E2]. apply N.eqb_eq in E1, E2.
  unfold with_prefix, c0, cx. rewrite <- E1, <- E2, !Ascii.ascii_N_embedding. reflexivity.
Qed.

(* A text that Signature.SetHexString accepts is "0x" followed by exactly 128 hex digits that spell
   the serialization of the value it returns: no trailing digit, junk, sign, space or separator. *)
Theorem sig_set_hex_exact s v : sig_set_hex s = (v, false) ->
  exists r, s = with_prefix r /\ String.length r = 128%nat /\ all_hex r = true /\
            unhex r = sig_serialize v /\ g1_wf v.
Proof.
  unfold sig_set_hex. destruct (decode_hex_exact s 64) as [b|] eqn:E; [|discriminate].
  intro H. destruct (decode_hex_exact_spec _ _ _ E) as (r & Hp & Hl & Hh & Hb & _ & Hok).
  destruct (sig_exact b v Hok H) as [Hs Hw]. exists r. repeat split; auto.
  - apply strip_prefix_spec, Hp.
  - congruence.
Qed.

Theorem pk_set_hex_exact s v : pk_set_hex s = Ok v -> v <> G2Inf ->
  exists r, s = with_prefix r /\ String.length r = 256%nat /\ all_hex r = true /\
            unhex r = g2_marshal v /\ g2_wf v.
Proof.
  unfold pk_set_hex. destruct (decode_hex_exact s 128) as [b|] eqn:E; [|discriminate].
  intros H Hn. destruct (decode_hex_exact_spec _ _ _ E) as (r & Hp & Hl & Hh & Hb & _ & Hok).
  destruct (pk_exact b v Hok H Hn) as [Hs Hw]. exists r. repeat split; auto.
  - apply strip_prefix_spec, Hp.
  - congruence.
Qed.

(* ---- the hex path before fix 9e75567 (after the exact-length fix): common.Hex2Bytes returned the
   bytes decoded before the first bad character and dropped the error ---- *)
Fixpoint hex2bytes_old (s : String.string) : bytes :=
  match s with
  | String.String a (String.String b r) =>
      if is_hex a && is_hex b then (16 * hexval a + hexval b) :: hex2bytes_old r else []
  | _ => []
  end.
Definition sig_set_hex_old (s : String.string) : g1 * bool :=
  match strip_prefix s with
  | None => (G1Nil, true)
  | Some r => sig_deserialize (hex2bytes_old r)
  end.

(* the generator's encoding followed by one more hex digit was read as the generator *)
Lemma hex_trailing_refuted :
  exists (s : String.string) (v : g1),
    sig_set_hex_old s = (v, false) /\ g1_wf v /\ s <> with_prefix (hex (sig_serialize v)) /\ sig_set_hex s = (G1Nil, true).
Proof.
  exists (with_prefix (String.append (hex (sig_serialize gen_sig)) (String.String c0 String.EmptyString))), gen_sig.
  split; [vm_compute; reflexivity|]. split; [unfold gen_sig; cbn [g1_wf]; repeat split; vm_compute; congruence|].
  split; [|vm_compute; reflexivity].
  intro H. apply (f_equal String.length) in H. vm_compute in H. discriminate.
Qed.
