(* Evaluation of the C14 model on harness-written cases (correspondence check). *)
From Coq Require Import List NArith ZArith String Bool Lia.
From V.Base Require Import Hex BigEndian.
From V.C14 Require Import Model Bytes Proofs Text.
Import ListNotations.
Local Open Scope Z_scope.

Inductive obs := Obs (err nil valid : bool) (ser : string) (ok : bool).
(* candidate byte string, relative to the honest encoding *)
Inductive cand := CBytes (h : string) | CFlip (bit : N) | CTrunc (n : N) | CExt (suffix : string).

Inductive case :=
| SigCase (honest : string) (c : cand) (o : obs)          (* DeserializeSign + VerifySig, honest key *)
| HexCase (honest : string) (c : cand) (ok : bool)        (* SetHexString + VerifySig *)
| PkCase (honest : string) (c : cand) (perr : N) (ser : string) (ok : bool)
| ZeroPkCase (honest : string) (sigb : string) (ok : bool)
| AlgCase (sk c : Z) (ok : bool)
| SkCase (v : Z) (ser : string)
| IdCase (v : Z) (ser : string)
| HashCase (digest : string) (k : N) (hpoint sig negsig : string)    (* HashToPoint, Sign with a small key, Neg *)
| MulCase (hpoint : string) (k : Z) (result : string)                 (* G1.ScalarMult(H, k) / Sign *)
| PkReuse (honest : string) (c : cand) (err ok : bool)                 (* Pubkey.Deserialize into a used receiver *)
| AddCase (p q result : string)                                       (* G1.Add of two encoded points *)
| TextSig (honest : string) (text : string) (err ok : bool)           (* Signature.SetHexString + VerifySig *)
| TextPk (honest : string) (text : string) (err ok : bool)            (* Pubkey.SetHexString + VerifySig *)
| TextScalar (text : string) (err : bool) (v : Z).                    (* Seckey / ID SetHexString on a fresh value *)

Fixpoint flip_bit (b : bytes) (bit : nat) : bytes :=
  match b with
  | [] => []
  | x :: r => match (bit <? 8)%nat with
              | true => N.lxor x (N.shiftr 128 (N.of_nat bit)) :: r
              | false => x :: flip_bit r (bit - 8)
              end
  end.

Definition cand_bytes (honest : bytes) (c : cand) : bytes :=
  match c with
  | CBytes h => unhex h
  | CFlip bit => flip_bit honest (N.to_nat bit)
  | CTrunc n => firstn (N.to_nat n) honest
  | CExt s => honest ++ unhex s
  end.

Definition eqbool (a b : bool) : bool := Bool.eqb a b.

Definition err_code (e : uerr) : N :=
  match e with ENotEnough => 1 | EMalformed => 2 | ERange => 3 | ELength => 4 | EEmpty => 5 end%N.

(* a dummy honest key: only its identity matters for [pairing_for] *)
Definition some_pk : g2 := G2Aff (1, 1) (1, 1).

Definition honest_sig (hb : bytes) : g1 := fst (sig_deserialize hb).

Definition code_of (r : res g2) : N := match r with Ok _ => 0%N | Err e => err_code e end.
Definition test_sig : g1 := G1Aff 1 2.

Definition chk_zero (h sb : string) (ok : bool) : bool :=
  let hb := unhex h in
  eqbool (verify_sig (pairing_for some_pk (honest_sig hb)) (byte_to_pk (repeat 0%N 128))
                     (fst (sig_deserialize (unhex sb)))) ok.
(* exponent model with H(m) = h * g1 for an arbitrary non-zero h *)
Definition chk_alg (sk c : Z) (ok : bool) : bool :=
  let h := 1 + (sk * sk + 12345) mod (R - 1) in
  eqbool (verify_exp R (pub_exp R sk) h (sign_exp R c h)) ok.
Definition chk_sk (v : Z) (ser : string) : bool :=
  bytes_eqb (sk_serialize (Z.to_N v)) (unhex ser) && (Z.of_N (sk_deserialize (unhex ser)) =? v).
Definition chk_id (v : Z) (ser : string) : bool :=
  match id_serialize (Z.to_N v) with
  | Some b => bytes_eqb b (unhex ser) && (Z.of_N (id_deserialize (unhex ser)) =? v)
  | None => false
  end.
(* HashToPoint, Sign with a small secret key (affine chord-and-tangent law), Neg *)
Definition chk_hash (d : string) (k : N) (hp sg ng : string) : bool :=
  let H := hash_to_g1 (unhex d) in
  let S := g1_mul_nat (N.to_nat k) H in
  bytes_eqb (g1_marshal H) (unhex hp) && sig_is_valid H &&
  bytes_eqb (g1_marshal S) (unhex sg) && bytes_eqb (g1_marshal (g1_neg S)) (unhex ng).

(* the code's Jacobian double-and-add on a 256-bit scalar, then MakeAffine + Marshal *)
Definition chk_mul (hp : string) (k : Z) (rs : string) : bool :=
  let b := unhex hp in
  bytes_eqb (g1_marshal (g1_scalar_mult k (G1Aff (take32 0 b) (take32 1 b)))) (unhex rs).
(* bn256 G1.Add (whatever the representation of the operands) against the model's affine law *)
Definition chk_add (p q rs : string) : bool :=
  let a := unhex p in let b := unhex q in
  let dec := fun m => if (take32 0 m =? 0) && (take32 1 m =? 0) then G1Inf else G1Aff (take32 0 m) (take32 1 m) in
  bytes_eqb (g1_marshal (g1_add (dec a) (dec b))) (unhex rs).
Definition is_err {A} (r : res A) : bool := match r with Ok _ => false | Err _ => true end.
Definition chk_scalar (text : string) (err : bool) (v : Z) : bool :=
  match scalar_set_hex text with
  | Some n => negb err && (Z.of_N n =? v)
  | None => err && (v =? 0)
  end.

(* the direct evaluation of the model (slow: every on-curve test is two or three 256-bit modular
   multiplications by binary long division, and the code's repeated IsOnCurve calls are repeated) *)
Definition check (c : case) : bool :=
  match c with
  | SigCase h cd (Obs err nl valid ser ok) =>
      let hb := unhex h in
      let b := cand_bytes hb cd in
      let '(v, e) := sig_deserialize b in
      eqbool e err && eqbool (g1_eqb v G1Nil) nl && eqbool (sig_is_valid v) valid &&
      bytes_eqb (sig_serialize v) (unhex ser) &&
      eqbool (verify_sig (pairing_for some_pk (honest_sig hb)) some_pk v) ok &&
      (* the model's own property on this input: accepted iff it is the honest encoding *)
      eqbool ok (bytes_eqb b hb)
  | HexCase h cd ok =>
      let hb := unhex h in
      let b := cand_bytes hb cd in
      eqbool (verify_sig (pairing_for some_pk (honest_sig hb)) some_pk (fst (sig_deserialize b))) ok
  | PkCase h cd perr ser ok =>
      let hb := unhex h in
      let b := cand_bytes hb cd in
      (code_of (pk_deserialize b) =? perr)%N &&
      bytes_eqb (g2_marshal (byte_to_pk b)) (unhex ser) &&
      eqbool (verify_sig (pairing_for (byte_to_pk hb) test_sig) (byte_to_pk b) test_sig) ok &&
      eqbool ok (bytes_eqb b hb)
  | ZeroPkCase h sb ok => chk_zero h sb ok
  | AlgCase sk c ok => chk_alg sk c ok
  | SkCase v ser => chk_sk v ser
  | IdCase v ser => chk_id v ser
  | HashCase d k hp sg ng => chk_hash d k hp sg ng
  | MulCase hp k rs => chk_mul hp k rs
  | AddCase p q rs => chk_add p q rs
  | PkReuse h cd err ok =>
      let hb := unhex h in
      let b := cand_bytes hb cd in
      eqbool (is_err (pk_deserialize b)) err &&
      eqbool (verify_sig (pairing_for (byte_to_pk hb) test_sig) (byte_to_pk b) test_sig) ok
  | TextSig h text err ok =>
      let hb := unhex h in
      match decode_hex_exact text 64 with
      | None => err && negb ok
      | Some b => eqbool (snd (sig_deserialize b)) err &&
                  eqbool (verify_sig (pairing_for some_pk (honest_sig hb)) some_pk (fst (sig_deserialize b))) ok
      end
  | TextPk h text err ok =>
      let hb := unhex h in
      match decode_hex_exact text 128 with
      | None => err && negb ok
      | Some b => eqbool (is_err (pk_deserialize b)) err &&
                  eqbool (verify_sig (pairing_for (byte_to_pk hb) test_sig) (byte_to_pk b) test_sig) ok
      end
  | TextScalar text err v => chk_scalar text err v
  end.

(* what the cases files evaluate: one parse per candidate; the repeated curve tests and the parse of
   the honest encoding are replaced by their proved values (check_fast_sound below) *)
Definition sig_verdict (b hb : bytes) (v : g1) : bool :=
  match v with G1Aff _ _ => bytes_eqb b hb | _ => false end.
Definition pk_verdict (b hb : bytes) (r : res g2) : bool :=
  match r with Ok (G2Aff _ _) => bytes_eqb b hb | _ => false end.

Definition check_fast (c : case) : bool :=
  match c with
  | SigCase h cd (Obs err nl valid ser ok) =>
      let hb := unhex h in
      let b := cand_bytes hb cd in
      bytes_okb b &&
      let '(v, e) := sig_deserialize b in
      let nn := negb (g1_eqb v G1Nil) in
      eqbool e err && eqbool (negb nn) nl && eqbool nn valid &&
      bytes_eqb (sig_serialize v) (unhex ser) &&
      eqbool (sig_verdict b hb v) ok && eqbool ok (bytes_eqb b hb)
  | HexCase h cd ok =>
      let hb := unhex h in
      let b := cand_bytes hb cd in
      bytes_okb b && eqbool (sig_verdict b hb (fst (sig_deserialize b))) ok
  | PkCase h cd perr ser ok =>
      let hb := unhex h in
      let b := cand_bytes hb cd in
      bytes_okb b &&
      let r := pk_deserialize b in
      (code_of r =? perr)%N &&
      bytes_eqb (g2_marshal (match r with Ok v => v | Err _ => G2Nil end)) (unhex ser) &&
      eqbool (pk_verdict b hb r) ok && eqbool ok (bytes_eqb b hb)
  | ZeroPkCase h sb ok => chk_zero h sb ok
  | AlgCase sk c ok => chk_alg sk c ok
  | SkCase v ser => chk_sk v ser
  | IdCase v ser => chk_id v ser
  | HashCase d k hp sg ng => chk_hash d k hp sg ng
  | MulCase hp k rs => chk_mul hp k rs
  | AddCase p q rs => chk_add p q rs
  | PkReuse h cd err ok =>
      let hb := unhex h in
      let b := cand_bytes hb cd in
      bytes_okb b && eqbool (is_err (pk_deserialize b)) err && eqbool (pk_verdict b hb (pk_deserialize b)) ok
  | TextSig h text err ok =>
      let hb := unhex h in
      match decode_hex_exact text 64 with
      | None => err && negb ok
      | Some b => eqbool (snd (sig_deserialize b)) err &&
                  eqbool (sig_verdict b hb (fst (sig_deserialize b))) ok
      end
  | TextPk h text err ok =>
      let hb := unhex h in
      match decode_hex_exact text 128 with
      | None => err && negb ok
      | Some b => eqbool (is_err (pk_deserialize b)) err &&
                  eqbool (pk_verdict b hb (pk_deserialize b)) ok
      end
  | TextScalar text err v => chk_scalar text err v
  end.

Lemma eqbool_true a b : eqbool a b = true <-> a = b.
Proof. unfold eqbool. split; [apply Bool.eqb_prop | intros ->; apply Bool.eqb_reflx]. Qed.

Lemma bool_eq_iff (a b : bool) : (a = true <-> b = true) -> a = b.
Proof. destruct a, b; intuition congruence. Qed.

Lemma some_pk_eq : g2_eqb some_pk some_pk = true. Proof. reflexivity. Qed.
Lemma test_sig_curve : on_curve 1 2 = true. Proof. vm_compute. reflexivity. Qed.

Lemma verify_aff pe px py x y : on_curve x y = true ->
  verify_sig pe (G2Aff px py) (G1Aff x y) = pe (G2Aff px py) (G1Aff x y).
Proof. intro H. cbn [verify_sig sig_is_valid]. rewrite H. reflexivity. Qed.

(* VerifySig's decision on a parsed candidate, for the key/message whose signature encodes as hb *)
Lemma sig_verdict_ok b hb : bytes_ok b -> bytes_ok hb ->
  verify_sig (pairing_for some_pk (honest_sig hb)) some_pk (fst (sig_deserialize b)) =
  sig_verdict b hb (fst (sig_deserialize b)).
Proof.
  intros Hb Hh. destruct (sig_deserialize b) as [v e] eqn:Es. cbn [fst].
  destruct (sig_valid_after_parse b v e Hb Es) as [Hv He].
  destruct v as [| |x y]; [reflexivity | reflexivity |].
  cbn [sig_is_valid g1_eqb negb] in Hv. cbn [g1_eqb] in He. subst e.
  unfold some_pk. rewrite (verify_aff _ _ _ _ _ Hv). cbn [sig_verdict].
  unfold pairing_for. change (g2_eqb (G2Aff (1, 1) (1, 1)) (G2Aff (1, 1) (1, 1))) with true. cbn [andb].
  apply bool_eq_iff. rewrite g1_eqb_eq, bytes_eqb_eq. unfold honest_sig. split.
  - intro H. destruct (sig_deserialize hb) as [v' e'] eqn:Eh. cbn [fst] in H. subst v'.
    destruct e'; [apply sig_error_nil in Eh; discriminate|].
    destruct (sig_exact b _ Hb Es) as [E1 _]. destruct (sig_exact hb _ Hh Eh) as [E2 _]. congruence.
  - intros <-. rewrite Es. reflexivity.
Qed.

Lemma pk_verdict_ok b hb : bytes_ok b -> bytes_ok hb ->
  verify_sig (pairing_for (byte_to_pk hb) test_sig) (byte_to_pk b) test_sig = pk_verdict b hb (pk_deserialize b).
Proof.
  intros Hb Hh. unfold byte_to_pk at 2. destruct (pk_deserialize b) as [pk|err] eqn:Ep; [|reflexivity].
  destruct pk as [| |px py]; [reflexivity | unfold test_sig; cbn [verify_sig sig_is_valid]; rewrite test_sig_curve; reflexivity |].
  unfold test_sig. rewrite (verify_aff _ _ _ _ _ test_sig_curve). cbn [pk_verdict].
  unfold pairing_for. replace (g1_eqb (G1Aff 1 2) (G1Aff 1 2)) with true by reflexivity. rewrite andb_true_r.
  apply bool_eq_iff. rewrite g2_eqb_eq, bytes_eqb_eq. unfold byte_to_pk. split.
  - intro H. destruct (pk_deserialize hb) as [pk'|err'] eqn:Eh; [|discriminate]. subst pk'.
    destruct (pk_exact b _ Hb Ep ltac:(discriminate)) as [E1 _].
    destruct (pk_exact hb _ Hh Eh ltac:(discriminate)) as [E2 _]. congruence.
  - intros <-. rewrite Ep. reflexivity.
Qed.

(* a passing fast check is a passing direct check *)
Opaque chk_zero chk_alg chk_sk chk_id chk_hash chk_scalar chk_mul chk_add.
Theorem check_fast_sound c : check_fast c = true -> check c = true.
Proof.
  destruct c as [h cd [err nl valid ser ok] | h cd ok | h cd perr ser ok | h sb ok | sk c ok | v ser | v ser | d k hp sg ng | hp k rs | h cd err ok | pa qa rs | h text err ok | h text err ok | text err v].
  - cbn [check_fast check]. set (hb := unhex h). set (b := cand_bytes hb cd).
    intro H. apply andb_true_iff in H as [Hok H]. apply bytes_okb_spec in Hok.
    assert (Hh : bytes_ok hb) by apply unhex_ok.
    pose proof (sig_verdict_ok b hb Hok Hh) as Hv.
    destruct (sig_deserialize b) as [v e] eqn:Es. cbn [fst] in Hv.
    destruct (sig_valid_after_parse b v e Hok Es) as [Hval _].
    rewrite Hv, Hval. rewrite negb_involutive in H. exact H.
  - cbn [check_fast check]. set (hb := unhex h). set (b := cand_bytes hb cd).
    intro H. apply andb_true_iff in H as [Hok H]. apply bytes_okb_spec in Hok.
    rewrite (sig_verdict_ok b hb Hok (unhex_ok h)). exact H.
  - cbn [check_fast check]. set (hb := unhex h). set (b := cand_bytes hb cd).
    intro H. apply andb_true_iff in H as [Hok H]. apply bytes_okb_spec in Hok.
    rewrite (pk_verdict_ok b hb Hok (unhex_ok h)). exact H.
  - exact (fun H => H).
  - exact (fun H => H).
  - exact (fun H => H).
  - exact (fun H => H).
  - exact (fun H => H).
  - exact (fun H => H).
  - cbn [check_fast check]. set (hb := unhex h). set (b := cand_bytes hb cd).
    intro H. apply andb_true_iff in H as [H H2]. apply andb_true_iff in H as [Hok H1]. apply bytes_okb_spec in Hok.
    rewrite (pk_verdict_ok b hb Hok (unhex_ok h)). rewrite H1, H2. reflexivity.
  - exact (fun H => H).
  - cbn [check_fast check]. destruct (decode_hex_exact text 64) as [b|] eqn:E; [|exact (fun H => H)].
    destruct (decode_hex_exact_spec _ _ _ E) as (_ & _ & _ & _ & _ & _ & Hok).
    rewrite (sig_verdict_ok b (unhex h) Hok (unhex_ok h)). exact (fun H => H).
  - cbn [check_fast check]. destruct (decode_hex_exact text 128) as [b|] eqn:E; [|exact (fun H => H)].
    destruct (decode_hex_exact_spec _ _ _ E) as (_ & _ & _ & _ & _ & _ & Hok).
    rewrite (pk_verdict_ok b (unhex h) Hok (unhex_ok h)). exact (fun H => H).
  - exact (fun H => H).
Qed.
Transparent chk_zero chk_alg chk_sk chk_id chk_hash chk_scalar chk_mul chk_add.

(* parsing is a function of the input only: after a FAILED parse the result is the invalid object and
   VerifySig is false, whatever the receiver held before and whatever the pairing says *)
Lemma parse_fail_invalid_sig pe pk b v : sig_deserialize b = (v, true) -> verify_sig pe pk v = false.
Proof. intro H. apply sig_error_nil in H. subst v. reflexivity. Qed.
Lemma parse_fail_invalid_sig_hex pe pk s v : sig_set_hex s = (v, true) -> verify_sig pe pk v = false.
Proof.
  unfold sig_set_hex. destruct (decode_hex_exact s 64) as [b|].
  - apply parse_fail_invalid_sig.
  - intro H. inversion H. reflexivity.
Qed.
Lemma parse_fail_invalid_pk pe b s e : pk_deserialize b = Err e -> verify_sig pe (byte_to_pk b) s = false.
Proof.
  intro H. unfold byte_to_pk. rewrite H. destruct s as [| |x y]; cbn; try reflexivity. destruct (on_curve x y); reflexivity.
Qed.
(* the pairing of the exponent model: an identity argument gives the identity of GT *)
Lemma e_exp_identity r a : e_exp r a 0 = 0 /\ e_exp r 0 a = 0.
Proof. unfold e_exp. rewrite Z.mul_0_r, Z.mul_0_l. split; apply Zmod_0_l. Qed.
(* ... and negating an argument inverts the pairing value: e(P, -Q) = e(P, Q)^-1 (additively: the opposite) *)
Lemma e_exp_neg r a b : 0 < r -> (e_exp r a b + e_exp r a (- b)) mod r = 0 /\ (e_exp r a b + e_exp r (- a) b) mod r = 0.
Proof.
  intro Hr. unfold e_exp. split; rewrite <- Z.add_mod by lia.
  - replace (a * b + a * - b) with 0 by ring. apply Zmod_0_l.
  - replace (a * b + - a * b) with 0 by ring. apply Zmod_0_l.
Qed.
