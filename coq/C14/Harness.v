(* Evaluation of the C14 model on harness-written cases (correspondence check). *)
From Coq Require Import List NArith ZArith String Bool.
From V.Base Require Import Hex BigEndian.
From V.C14 Require Import Model.
Import ListNotations.
Local Open Scope Z_scope.

Inductive obs := Obs (err nil valid : bool) (ser : string) (ok : bool).
(* candidate byte string, relative to the honest encoding *)
Inductive cand := CBytes (h : string) | CFlip (bit : N) | CTrunc (n : N) | CExt (suffix : string).

Inductive case :=
| SigCase (honest : string) (c : cand) (o : obs)          (* DeserializeSign + VerifySig, honest key *)
| HexCase (honest : string) (c : cand) (ok : bool)        (* SetHexString + VerifySig *)
| PkCase (honest : string) (c : cand) (perr : N) (ser : string) (ok : bool)
| ZeroPkCase (honest : string) (sigb : string) (ok : bool)
| AlgCase (sk c : Z) (ok : bool)
| SkCase (v : Z) (ser : string)
| IdCase (v : Z) (ser : string).

Fixpoint flip_bit (b : bytes) (bit : nat) : bytes :=
  match b with
  | [] => []
  | x :: r => match (bit <? 8)%nat with
              | true => N.lxor x (N.shiftr 128 (N.of_nat bit)) :: r
              | false => x :: flip_bit r (bit - 8)
              end
  end.

Definition cand_bytes (honest : bytes) (c : cand) : bytes :=
  match c with
  | CBytes h => unhex h
  | CFlip bit => flip_bit honest (N.to_nat bit)
  | CTrunc n => firstn (N.to_nat n) honest
  | CExt s => honest ++ unhex s
  end.

Definition eqbool (a b : bool) : bool := Bool.eqb a b.

Definition err_code (e : uerr) : N :=
  match e with ENotEnough => 1 | EMalformed => 2 | ERange => 3 | ELength => 4 | EEmpty => 5 end%N.

(* a dummy honest key: only its identity matters for [pairing_for] *)
Definition some_pk : g2 := G2Aff (1, 1) (1, 1).

Definition honest_sig (hb : bytes) : g1 := fst (sig_deserialize hb).

Definition check (c : case) : bool :=
  match c with
  | SigCase h cd (Obs err nl valid ser ok) =>
      let hb := unhex h in
      let b := cand_bytes hb cd in
      let '(v, e) := sig_deserialize b in
      eqbool e err && eqbool (g1_eqb v G1Nil) nl && eqbool (sig_is_valid v) valid &&
      bytes_eqb (sig_serialize v) (unhex ser) &&
      eqbool (verify_sig (pairing_for some_pk (honest_sig hb)) some_pk v) ok &&
      (* the model's own property on this input: accepted iff it is the honest encoding *)
      eqbool ok (bytes_eqb b hb)
  | HexCase h cd ok =>
      let hb := unhex h in
      let b := cand_bytes hb cd in
      eqbool (verify_sig (pairing_for some_pk (honest_sig hb)) some_pk (fst (sig_deserialize b))) ok
  | PkCase h cd perr ser ok =>
      let hb := unhex h in
      let b := cand_bytes hb cd in
      let hpk := byte_to_pk hb in
      let s := G1Aff 1 2 in
      (match pk_deserialize b with Ok _ => 0%N | Err e => err_code e end =? perr)%N &&
      bytes_eqb (g2_marshal (byte_to_pk b)) (unhex ser) &&
      eqbool (verify_sig (pairing_for hpk s) (byte_to_pk b) s) ok &&
      eqbool ok (bytes_eqb b hb) &&
      negb (g2_eqb hpk G2Nil)
  | ZeroPkCase h sb ok =>
      let hb := unhex h in
      eqbool (verify_sig (pairing_for some_pk (honest_sig hb)) (byte_to_pk (repeat 0%N 128))
                         (fst (sig_deserialize (unhex sb)))) ok
  | AlgCase sk c ok =>
      (* exponent model with H(m) = h * g1 for an arbitrary non-zero h *)
      let h := 1 + (sk * sk + 12345) mod (R - 1) in
      eqbool (verify_exp R (pub_exp R sk) h (sign_exp R c h)) ok
  | SkCase v ser =>
      bytes_eqb (sk_serialize (Z.to_N v)) (unhex ser) && (Z.of_N (sk_deserialize (unhex ser)) =? v)
  | IdCase v ser =>
      match id_serialize (Z.to_N v) with
      | Some b => bytes_eqb b (unhex ser) && (Z.of_N (id_deserialize (unhex ser)) =? v)
      | None => false
      end
  end.
