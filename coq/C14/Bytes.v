(* C14 — byte-level lemmas: fixed-width big-endian fields (gfP.Marshal / gfP.Unmarshal). *)
From Coq Require Import List NArith ZArith Bool Lia.
From Coq Require String Ascii.
From V.Base Require Import Hex BigEndian.
From V.C14 Require Import Model.
Import ListNotations.
Local Open Scope N_scope.

Lemma le_val_inj_len : forall a b, length a = length b -> bytes_ok a -> bytes_ok b ->
  le_val a = le_val b -> a = b.
Proof.
  induction a as [|x a IH]; intros [|y b] Hl Ha Hb Hv; simpl in Hl; try discriminate; auto.
  inversion Ha as [|? ? Hx Ha']; inversion Hb as [|? ? Hy Hb']; subst.
  unfold byte_ok in *. cbn [le_val] in Hv.
  assert (x = y) by lia. assert (le_val a = le_val b) by lia. subst.
  f_equal. apply IH; auto.
Qed.

Lemma bev_inj_len : forall a b, length a = length b -> bytes_ok a -> bytes_ok b -> bev a = bev b -> a = b.
Proof.
  intros a b Hl Ha Hb Hv. unfold bev in Hv.
  apply le_val_inj_len in Hv.
  - rewrite <- (rev_involutive a), <- (rev_involutive b), Hv. reflexivity.
  - rewrite !rev_length. exact Hl.
  - apply bytes_ok_rev, Ha.
  - apply bytes_ok_rev, Hb.
Qed.

Lemma le_val_app a b : le_val (a ++ b) = le_val a + 256 ^ N.of_nat (length a) * le_val b.
Proof.
  induction a as [|x a IH]; cbn [app le_val length].
  - change (N.of_nat 0) with 0%N. rewrite N.pow_0_r. lia.
  - rewrite IH, Nat2N.inj_succ, N.pow_succ_r'. ring.
Qed.

Lemma le_val_zeros l : Forall (fun d => d = 0) l -> le_val l = 0.
Proof. induction 1; cbn [le_val]; subst; lia. Qed.

Lemma zeros_all k : Forall (fun d : N => d = 0) (repeat 0 k).
Proof. induction k; simpl; constructor; auto. Qed.

Lemma bev_zeros_app k l : bev (repeat 0 k ++ l) = bev l.
Proof.
  unfold bev. rewrite rev_app_distr, le_val_app.
  rewrite (le_val_zeros (rev (repeat 0 k))); [lia|].
  apply Forall_rev, zeros_all.
Qed.

Lemma zeros_ok k : bytes_ok (repeat 0 k).
Proof. induction k; simpl; constructor; auto. unfold byte_ok. lia. Qed.

Lemma pad_to_length n b : (length b <= n)%nat -> length (pad_to n b) = n.
Proof. intro H. unfold pad_to. rewrite app_length, repeat_length. lia. Qed.

Lemma pad_to_ok n b : bytes_ok b -> bytes_ok (pad_to n b).
Proof. intro H. unfold pad_to. apply bytes_ok_app; [apply zeros_ok | exact H]. Qed.

Lemma bev_pad_to n b : bev (pad_to n b) = bev b.
Proof. apply bev_zeros_app. Qed.

Local Open Scope Z_scope.

Definition W : Z := 2 ^ 256.

Lemma pow256_32 : (256 ^ N.of_nat 32)%N = Z.to_N W.
Proof. vm_compute. reflexivity. Qed.

Lemma be32_length v : 0 <= v < W -> length (be32 v) = 32%nat.
Proof.
  intros [H0 H1]. unfold be32. apply pad_to_length, beb_length.
  rewrite pow256_32. apply Z2N.inj_lt; unfold W in *; lia.
Qed.

Lemma be32_ok v : bytes_ok (be32 v).
Proof. unfold be32. apply pad_to_ok, beb_ok. Qed.

Lemma bytesZ_be32 v : 0 <= v -> bytesZ (be32 v) = v.
Proof.
  intro H. unfold bytesZ, be32. rewrite bev_pad_to, bev_beb. apply Z2N.id. exact H.
Qed.

Lemma bytesZ_nonneg b : 0 <= bytesZ b.
Proof. unfold bytesZ. apply N2Z.is_nonneg. Qed.

Lemma bytesZ_bound b : bytes_ok b -> length b = 32%nat -> bytesZ b < W.
Proof.
  intros Hok Hl. unfold bytesZ. pose proof (bev_bound b Hok) as Hb. rewrite Hl, pow256_32 in Hb.
  apply N2Z.inj_lt in Hb. rewrite Z2N.id in Hb; [exact Hb | unfold W; lia].
Qed.

Lemma be32_bytesZ b : bytes_ok b -> length b = 32%nat -> be32 (bytesZ b) = b.
Proof.
  intros Hok Hl. apply bev_inj_len.
  - rewrite be32_length; [lia|]. split; [apply bytesZ_nonneg | apply bytesZ_bound; auto].
  - apply be32_ok.
  - exact Hok.
  - pose proof (bytesZ_be32 (bytesZ b) (bytesZ_nonneg b)) as H. unfold bytesZ in H at 1 3.
    apply N2Z.inj in H. exact H.
Qed.

(* ---- chunks of 32 bytes ---- *)
Lemma take32_0 b : take32 0 b = bytesZ (firstn 32 b).
Proof. reflexivity. Qed.

Lemma skipn_skipn' {A} (a b : nat) (l : list A) : skipn a (skipn b l) = skipn (b + a) l.
Proof.
  revert l; induction b as [|b IH]; intro l; [reflexivity|].
  destruct l as [|x l]; [rewrite !skipn_nil; reflexivity|]. simpl. apply IH.
Qed.

Lemma take32_S k b : take32 (S k) b = take32 k (skipn 32 b).
Proof.
  unfold take32. rewrite skipn_skipn'. replace (32 * S k)%nat with (32 + 32 * k)%nat by lia. reflexivity.
Qed.

Lemma take32_app_here a r : length a = 32%nat -> take32 0 (a ++ r) = bytesZ a.
Proof.
  intro H. rewrite take32_0. rewrite firstn_app, H. replace (32 - 32)%nat with 0%nat by lia.
  rewrite firstn_O, app_nil_r, <- H, firstn_all. reflexivity.
Qed.

Lemma take32_app_skip k a r : length a = 32%nat -> take32 (S k) (a ++ r) = take32 k r.
Proof.
  intro H. rewrite take32_S. rewrite skipn_app, H. replace (32 - 32)%nat with 0%nat by lia.
  rewrite <- H, skipn_all. reflexivity.
Qed.

Lemma bytes_ok_firstn n b : bytes_ok b -> bytes_ok (firstn n b).
Proof. intro H. rewrite <- (firstn_skipn n b) in H. apply bytes_ok_app_inv in H. tauto. Qed.
Lemma bytes_ok_skipn n b : bytes_ok b -> bytes_ok (skipn n b).
Proof. intro H. rewrite <- (firstn_skipn n b) in H. apply bytes_ok_app_inv in H. tauto. Qed.

(* a byte string that is at least 32 bytes long starts with the canonical 32-byte encoding of its first field *)
Lemma split32 b : bytes_ok b -> (32 <= length b)%nat -> b = be32 (take32 0 b) ++ skipn 32 b.
Proof.
  intros Hok Hl. rewrite take32_0, be32_bytesZ.
  - symmetry. apply firstn_skipn.
  - apply bytes_ok_firstn, Hok.
  - apply firstn_length_le. exact Hl.
Qed.

Lemma split64 b : bytes_ok b -> length b = 64%nat -> b = be32 (take32 0 b) ++ be32 (take32 1 b).
Proof.
  intros Hok Hl. rewrite (split32 b Hok) at 1 by lia. f_equal.
  rewrite take32_S.
  assert (Hs : length (skipn 32 b) = 32%nat) by (rewrite skipn_length; lia).
  rewrite (split32 (skipn 32 b)) at 1; [| apply bytes_ok_skipn, Hok | lia].
  rewrite (skipn_all2 (skipn 32 b)) by lia. apply app_nil_r.
Qed.

Lemma split128 b : bytes_ok b -> length b = 128%nat ->
  b = be32 (take32 0 b) ++ be32 (take32 1 b) ++ be32 (take32 2 b) ++ be32 (take32 3 b).
Proof.
  intros Hok Hl. rewrite (split32 b Hok) at 1 by lia. f_equal.
  rewrite !take32_S.
  set (b1 := skipn 32 b).
  assert (Hok1 : bytes_ok b1) by (apply bytes_ok_skipn, Hok).
  assert (Hl1 : length b1 = 96%nat) by (unfold b1; rewrite skipn_length; lia).
  rewrite (split32 b1 Hok1) at 1 by lia. f_equal.
  set (b2 := skipn 32 b1).
  assert (Hok2 : bytes_ok b2) by (apply bytes_ok_skipn, Hok1).
  assert (Hl2 : length b2 = 64%nat) by (unfold b2; rewrite skipn_length; lia).
  rewrite (split64 b2 Hok2 Hl2) at 1. rewrite take32_S. reflexivity.
Qed.

Lemma unhex_ok s : bytes_ok (unhex s).
Proof.
  assert (Hh : forall c, (hexval c < 16)%N).
  { intro c. unfold hexval.
    destruct ((48 <=? Ascii.N_of_ascii c)%N && (Ascii.N_of_ascii c <=? 57)%N) eqn:E1.
    - apply andb_true_iff in E1 as [A B]. apply N.leb_le in A, B. lia.
    - destruct ((97 <=? Ascii.N_of_ascii c)%N && (Ascii.N_of_ascii c <=? 102)%N) eqn:E2.
      + apply andb_true_iff in E2 as [A B]. apply N.leb_le in A, B. lia.
      + destruct ((65 <=? Ascii.N_of_ascii c)%N && (Ascii.N_of_ascii c <=? 70)%N) eqn:E3.
        * apply andb_true_iff in E3 as [A B]. apply N.leb_le in A, B. lia.
        * lia. }
  assert (G : forall n s, (String.length s <= n)%nat -> bytes_ok (unhex s)).
  { induction n as [|n IH]; intros [|a [|b r]] Hl; cbn [unhex String.length] in *; try constructor; try lia.
    - unfold byte_ok. pose proof (Hh a). pose proof (Hh b). lia.
    - apply IH. lia. }
  apply (G (String.length s)). lia.
Qed.
