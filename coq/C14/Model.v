(* C14 — model of the node's BLS signature verification (src/consensus/groupsig/{sig,pubkey,seckey,id,
   bn_curve}.go and the byte layer of src/consensus/groupsig/bn256/{bn256,gfp,curve,twist}.go).

   Three layers:
   1. the algebra "in the exponent": G1 = G2 = GT = Z_r, e a b = a*b (Section [Exponent]);
   2. the byte layer: gfP.Unmarshal / G1.Unmarshal / G2.Unmarshal / Signature.Deserialize /
      Pubkey.Deserialize / Serialize / IsValid and the guard chain of VerifySig, as the code is NOW
      (after the three `fix:` commits), plus the three historical variants (suffix _old) that the
      refutation theorems are about;
   3. key / id scalars: Seckey, ID Serialize / Deserialize.
   No proofs here. *)
From Coq Require Import List NArith ZArith Bool Lia.
From V.Base Require Import Hex BigEndian.
Import ListNotations.
Local Open Scope Z_scope.

(* ---------- constants (bn256/constants.go) ---------- *)
Definition P : Z := 65000549695646603732796438742359905742825358107623003571877145026864184071783.
Definition R : Z := 65000549695646603732796438742359905742570406053903786389881062969044166799969.

(* ---------- 1. exponent model ---------- *)
Section Exponent.
  Variable r : Z.                      (* group order *)
  Definition zr (a : Z) : Z := a mod r.
  (* a group element is its discrete logarithm; the pairing multiplies logarithms *)
  Definition e_exp (a b : Z) : Z := (a * b) mod r.
  Definition g2_exp : Z := 1.
  (* VerifySig on group elements: identity signature rejected, then e(sig, g2) = e(H(m), pk) *)
  Definition verify_exp (pk h sig : Z) : bool :=
    negb (zr sig =? 0) && (e_exp sig g2_exp =? e_exp h pk).
  Definition sign_exp (sk h : Z) : Z := zr (sk * h).
  Definition pub_exp (sk : Z) : Z := zr sk.
End Exponent.

(* ---------- 2. byte layer ---------- *)
Definition bytesZ (b : bytes) : Z := Z.of_N (bev b).          (* big-endian value *)
(* gfP.Marshal of a reduced field element: exactly 32 bytes *)
Definition pad_to (n : nat) (b : bytes) : bytes := repeat 0%N (n - length b) ++ b.
Definition be32 (v : Z) : bytes := pad_to 32 (beb (Z.to_N v)).

Definition fadd (a b : Z) := (a + b) mod P.
Definition fmul (a b : Z) := (a * b) mod P.
Definition fsub (a b : Z) := (a - b) mod P.

(* curve.go IsOnCurve on an affine point: y^2 = x^3 + 3 *)
Definition on_curve (x y : Z) : bool := fmul y y =? fadd (fmul (fmul x x) x) 3.

(* GF(p^2): pair (a, b) stands for a*i + b, i^2 = -1 (gfp2.go: value is xi+y) *)
Definition fp2 := (Z * Z)%type.
Definition f2mul (u v : fp2) : fp2 :=
  let '(a, b) := u in let '(c, d) := v in (fadd (fmul a d) (fmul b c), fsub (fmul b d) (fmul a c)).
Definition f2add (u v : fp2) : fp2 :=
  let '(a, b) := u in let '(c, d) := v in (fadd a c, fadd b d).
Definition f2eqb (u v : fp2) : bool := (fst u =? fst v) && (snd u =? snd v).
(* square-and-multiply, exponent as positive *)
Fixpoint fpow_pos (a : Z) (e : positive) : Z :=
  match e with
  | xH => a mod P
  | xO e' => let t := fpow_pos a e' in fmul t t
  | xI e' => let t := fpow_pos a e' in fmul (fmul t t) a
  end.
Definition fpow (a e : Z) : Z := match e with Zpos q => fpow_pos a q | _ => 1 end.
Definition finv (a : Z) : Z := fpow a (P - 2).
(* twist.go twistB = 3/xi, xi = i + 3 :  3 * (3 - i) / 10 *)
Definition twistB_expr : fp2 := (fmul (fsub 0 3) (finv 10), fmul 9 (finv 10)).
Definition twistB : fp2 := Eval vm_compute in twistB_expr.
Definition on_twist (x y : fp2) : bool := f2eqb (f2mul y y) (f2add (f2mul (f2mul x x) x) twistB).

(* the Go-side value of a G1 / G2 variable *)
Inductive g1 := G1Nil | G1Inf | G1Aff (x y : Z).
Inductive g2 := G2Nil | G2Inf | G2Aff (x y : fp2).

Inductive uerr := ENotEnough | EMalformed | ERange | ELength | EEmpty.
Inductive res (A : Type) := Ok (a : A) | Err (e : uerr).
Arguments Ok {A} a. Arguments Err {A} e.

Definition take32 (k : nat) (b : bytes) : Z := bytesZ (firstn 32 (skipn (32 * k) b)).

(* bn256.go G1.Unmarshal (after `fix:` range check): needs >= 64 bytes, both coordinates < p, (0,0) is
   the point at infinity, otherwise the point must be on the curve; trailing bytes are returned. *)
Definition g1_unmarshal (b : bytes) : res (g1 * bytes) :=
  if (length b <? 64)%nat then Err ENotEnough else
  let x := take32 0 b in let y := take32 1 b in
  if negb (x <? P) || negb (y <? P) then Err ERange else
  if (x =? 0) && (y =? 0) then Ok (G1Inf, skipn 64 b) else
  if on_curve x y then Ok (G1Aff x y, skipn 64 b) else Err EMalformed.

(* historical: no range check; montEncode reduces the raw 256-bit value mod p *)
Definition g1_unmarshal_old (b : bytes) : res (g1 * bytes) :=
  if (length b <? 64)%nat then Err ENotEnough else
  let x := take32 0 b mod P in let y := take32 1 b mod P in
  if (x =? 0) && (y =? 0) then Ok (G1Inf, skipn 64 b) else
  if on_curve x y then Ok (G1Aff x y, skipn 64 b) else Err EMalformed.

Definition g1_marshal (v : g1) : bytes :=
  match v with
  | G1Aff x y => be32 x ++ be32 y
  | _ => repeat 0%N 64
  end.

(* sig.go Signature.Deserialize (after `fix:`): exactly 64 bytes, the Unmarshal error is honoured, a
   failed parse leaves the nil signature. Returns (value, error?). *)
Definition sig_deserialize (b : bytes) : g1 * bool :=
  if negb (length b =? 64)%nat then (G1Nil, true) else
  match g1_unmarshal b with
  | Ok (v, _) => (v, false)
  | Err _ => (G1Nil, true)
  end.

(* historical Signature.Deserialize on a fresh Signature: only the empty input is an error, the
   Unmarshal error and the rest are dropped; an off-curve parse leaves the off-curve coordinates *)
Definition sig_deserialize_old (unm : bytes -> res (g1 * bytes)) (b : bytes) : g1 * bool :=
  if (length b =? 0)%nat then (G1Nil, true) else
  match unm b with
  | Ok (v, _) => (v, false)
  | Err EMalformed => (G1Aff (take32 0 b mod P) (take32 1 b mod P), false)
  | Err _ => (G1Nil, false)
  end.

Definition sig_serialize (v : g1) : bytes :=
  match v with G1Nil => [] | _ => g1_marshal v end.

Definition sig_is_valid (v : g1) : bool :=
  match v with G1Nil => false | G1Inf => true | G1Aff x y => on_curve x y end.

(* G2.Unmarshal (after `fix:` range check) *)
Definition g2_unmarshal (b : bytes) : res (g2 * bytes) :=
  if (length b <? 128)%nat then Err ENotEnough else
  let xx := take32 0 b in let xy := take32 1 b in let yx := take32 2 b in let yy := take32 3 b in
  if negb (xx <? P) || negb (xy <? P) || negb (yx <? P) || negb (yy <? P) then Err ERange else
  if (xx =? 0) && (xy =? 0) && (yx =? 0) && (yy =? 0) then Ok (G2Inf, skipn 128 b) else
  if on_twist (xx, xy) (yx, yy) then Ok (G2Aff (xx, xy) (yx, yy), skipn 128 b) else Err EMalformed.

Definition g2_marshal (v : g2) : bytes :=
  match v with
  | G2Aff (xx, xy) (yx, yy) => be32 xx ++ be32 xy ++ be32 yx ++ be32 yy
  | _ => [0%N]
  end.

(* pubkey.go Pubkey.Deserialize (after `fix:`): exactly 128 bytes; ByteToPublicKey maps an error to
   the empty Pubkey{} *)
Definition pk_deserialize (b : bytes) : res g2 :=
  if negb (length b =? 128)%nat then Err ELength else
  match g2_unmarshal b with
  | Ok (v, _) => Ok v
  | Err e => Err e
  end.
Definition byte_to_pk (b : bytes) : g2 :=
  match pk_deserialize b with Ok v => v | Err _ => G2Nil end.

Definition g1_eqb (a b : g1) : bool :=
  match a, b with
  | G1Nil, G1Nil | G1Inf, G1Inf => true
  | G1Aff x y, G1Aff x' y' => (x =? x') && (y =? y')
  | _, _ => false
  end.
Definition g2_eqb (a b : g2) : bool :=
  match a, b with
  | G2Nil, G2Nil | G2Inf, G2Inf => true
  | G2Aff x y, G2Aff x' y' => f2eqb x x' && f2eqb y y'
  | _, _ => false
  end.

(* sig.go VerifySig: the guard chain, then the pairing equation [pairing_eq] (abstract: decided by
   the group elements). After `fix:` the identity signature and the identity public key are refused. *)
Definition verify_sig (pairing_eq : g2 -> g1 -> bool) (pk : g2) (s : g1) : bool :=
  match s with
  | G1Nil => false
  | _ =>
    if negb (sig_is_valid s) then false else
    match pk with
    | G2Nil => false
    | G2Inf => false
    | _ => match s with G1Inf => false | _ => pairing_eq pk s end
    end
  end.

(* historical VerifySig: only nil values are refused *)
Definition verify_sig_old (pairing_eq : g2 -> g1 -> bool) (pk : g2) (s : g1) : bool :=
  match s with
  | G1Nil => false
  | _ => if negb (sig_is_valid s) then false else
         match pk with G2Nil => false | _ => pairing_eq pk s end
  end.

(* The pairing equation for a key/message whose unique valid signature is [hs] and whose key is [hpk]:
   this is what C14_unique (exponent layer) says the pairing decides. *)
Definition pairing_for (hpk : g2) (hs : g1) (pk : g2) (s : g1) : bool := g2_eqb pk hpk && g1_eqb s hs.
(* with the identity elements present (historical code): e(inf, g2) = 1 = e(H, inf) as well *)
Definition pairing_for_old (hpk : g2) (hs : g1) (pk : g2) (s : g1) : bool :=
  match pk, s with
  | G2Inf, G1Inf => true
  | G2Inf, _ | _, G1Inf => false
  | _, _ => g2_eqb pk hpk && g1_eqb s hs
  end.

(* the node-level decision on byte strings: DeserializeSign then VerifySig *)
Definition verify_bytes (hpk : g2) (hs : g1) (pkb sb : bytes) : bool :=
  verify_sig (pairing_for hpk hs) (byte_to_pk pkb) (fst (sig_deserialize sb)).

(* ---------- 3. scalars ---------- *)
(* bn_curve.go BnInt.serialize = big.Int.Bytes (minimal big-endian), deserialize = SetBytes *)
Definition sk_serialize (v : N) : bytes := beb v.
Definition sk_deserialize (b : bytes) : N := bev b.
(* id.go ID.Serialize: left-padded to 32 bytes (panics above 32: None) *)
Definition id_serialize (v : N) : option bytes :=
  let b := beb v in if (32 <? length b)%nat then None else Some (pad_to 32 b).
Definition id_deserialize (b : bytes) : N := bev b.

(* ---------- 4. hash to G1 and the group law (affine), for the Sign tie on small scalars ---------- *)
(* math/big ModSqrt for p = 3 mod 4: t^((p+1)/4), nil when t is not a square *)
Definition fsqrt (t : Z) : option Z :=
  let y := fpow t ((P + 1) / 4) in if fmul y y =? t mod P then Some y else None.
(* bn256.go hashToCurvePoint: x = sha256(m) mod p, try-and-increment until x^3 + 3 is a square *)
Fixpoint hash_point (fuel : nat) (x : Z) : option (Z * Z) :=
  match fuel with
  | O => None                                  (* out of fuel: excluded by the theorems *)
  | S f => let t := fadd (fmul (fmul x x) x) 3 in
           match fsqrt t with
           | Some y => Some (x, y)
           | None => hash_point f (x + 1)
           end
  end.
Definition hash_to_g1 (digest : bytes) : g1 :=
  match hash_point 64 (bytesZ digest mod P) with
  | Some (x, y) => G1Aff (x mod P) y
  | None => G1Nil
  end.

Definition g1_neg (v : g1) : g1 :=
  match v with G1Aff x y => G1Aff x (fsub 0 y) | _ => v end.
Definition g1_double (v : g1) : g1 :=
  match v with
  | G1Aff x y =>
      if y =? 0 then G1Inf else
      let l := fmul (fmul 3 (fmul x x)) (finv (fmul 2 y)) in
      let x3 := fsub (fmul l l) (fmul 2 x) in
      G1Aff x3 (fsub (fmul l (fsub x x3)) y)
  | _ => v
  end.
Definition g1_add (a b : g1) : g1 :=
  match a, b with
  | G1Nil, _ | _, G1Nil => G1Nil
  | G1Inf, _ => b
  | _, G1Inf => a
  | G1Aff x1 y1, G1Aff x2 y2 =>
      if x1 =? x2 then (if y1 =? y2 then g1_double a else G1Inf) else
      let l := fmul (fsub y2 y1) (finv (fsub x2 x1)) in
      let x3 := fsub (fsub (fmul l l) x1) x2 in
      G1Aff x3 (fsub (fmul l (fsub x1 x3)) y1)
  end.
Fixpoint g1_mul_nat (k : nat) (a : g1) : g1 :=
  match k with O => G1Inf | S k' => g1_add (g1_mul_nat k' a) a end.
(* sig.go Sign: ScalarMult(hashToG1(msg), sk) — here for a small scalar *)
Definition sign_small (digest : bytes) (k : nat) : g1 := g1_mul_nat k (hash_to_g1 digest).

(* ---------- 5. G1 scalar multiplication as the code does it (curve.go) ---------- *)
(* Jacobian coordinates (x, y, z): the affine point (x/z^2, y/z^3); z = 0 is the point at infinity *)
Definition jpt := (Z * Z * Z)%type.
Definition jinf : jpt := (0, 1, 0).
Definition j_is_inf (a : jpt) : bool := let '(_, _, z) := a in z =? 0.

(* curvePoint.Double (dbl-2009-l), operation by operation *)
Definition jdouble (a : jpt) : jpt :=
  let '(x, y, z) := a in
  let A := fmul x x in let B := fmul y y in let C := fmul B B in
  let t := fadd x B in let t2 := fmul t t in let t := fsub t2 A in let t2 := fsub t C in
  let d := fadd t2 t2 in
  let t := fadd A A in let e := fadd t A in let f := fmul e e in
  let t := fadd d d in let cx := fsub f t in
  let cz := fmul y z in let cz := fadd cz cz in
  let t := fadd C C in let t2 := fadd t t in let t := fadd t2 t2 in
  let cy := fsub d cx in let t2 := fmul e cy in let cy := fsub t2 t in
  (cx, cy, cz).

(* curvePoint.Add (add-2007-bl) *)
Definition jadd (a b : jpt) : jpt :=
  if j_is_inf a then b else if j_is_inf b then a else
  let '(x1, y1, z1) := a in let '(x2, y2, z2) := b in
  let z12 := fmul z1 z1 in let z22 := fmul z2 z2 in
  let u1 := fmul x1 z22 in let u2 := fmul x2 z12 in
  let t := fmul z2 z22 in let s1 := fmul y1 t in
  let t := fmul z1 z12 in let s2 := fmul y2 t in
  let h := fsub u2 u1 in
  let t := fadd h h in let i := fmul t t in let j := fmul h i in
  let t := fsub s2 s1 in
  if (h =? 0) && (t =? 0) then jdouble a else
  let r := fadd t t in
  let v := fmul u1 i in
  let t4 := fmul r r in let t := fadd v v in let t6 := fsub t4 j in
  let cx := fsub t6 t in
  let t := fsub v cx in let t4 := fmul s1 j in let t6 := fadd t4 t4 in let t4 := fmul r t in
  let cy := fsub t4 t6 in
  let t := fadd z1 z2 in let t4 := fmul t t in let t := fsub t4 z12 in let t4 := fsub t z22 in
  let cz := fmul t4 h in
  (cx, cy, cz).

(* curvePoint.Mul: for i = BitLen(k) downto 0: sum = 2*sum, plus a when bit i is set *)
Fixpoint jmul_bits (bits : list bool) (a sum : jpt) : jpt :=
  match bits with
  | nil => sum
  | b :: r => let t := jdouble sum in jmul_bits r a (if b then jadd t a else t)
  end.
Fixpoint pos_bits (p : positive) (acc : list bool) : list bool :=     (* most significant first *)
  match p with
  | xH => true :: acc
  | xO q => pos_bits q (false :: acc)
  | xI q => pos_bits q (true :: acc)
  end.
Definition jmul (k : Z) (a : jpt) : jpt :=
  match k with
  | Zpos p => jmul_bits (false :: pos_bits p nil) a jinf      (* bit BitLen(k) is 0 *)
  | _ => jdouble jinf                                         (* k = 0: one doubling of infinity *)
  end.
(* curvePoint.MakeAffine followed by the value G1.Marshal sees *)
Definition j_to_g1 (a : jpt) : g1 :=
  let '(x, y, z) := a in
  if z =? 0 then G1Inf else
  let zi := finv z in
  let t := fmul y zi in let zi2 := fmul zi zi in
  G1Aff (fmul x zi2) (fmul t zi2).
(* sig.go Sign / G1.ScalarMult on an affine input point *)
Definition g1_scalar_mult (k : Z) (v : g1) : g1 :=
  match v with
  | G1Aff x y => j_to_g1 (jmul k (x, y, 1))
  | _ => v
  end.
