(* C14 — proofs: exponent-layer uniqueness, byte-layer round trip / exactness, the node-level
   "accept iff it is the honest encoding", and the refutations for the historical code. *)
From Coq Require Import List NArith ZArith Bool Lia Znumtheory.
From V.Base Require Import Hex BigEndian.
From V.C14 Require Import Model Bytes.
Import ListNotations.
Local Open Scope Z_scope.

(* ================= 1. the algebra ================= *)
Section ExpProofs.
  Variable r : Z.
  Hypothesis r_pos : 1 < r.

  Lemma e_exp_g2 s : e_exp r s (g2_exp) = s mod r.
  Proof. unfold e_exp, g2_exp. rewrite Z.mul_1_r. reflexivity. Qed.

  Lemma e_exp_pub h sk : e_exp r h (pub_exp r sk) = sign_exp r sk h.
  Proof.
    unfold e_exp, pub_exp, sign_exp, zr. rewrite Z.mul_mod_idemp_r by lia. f_equal. ring.
  Qed.

  (* VerifySig accepts exactly the element sk*H(m), and never the identity. *)
  Lemma verify_exp_iff sk h s :
    verify_exp r (pub_exp r sk) h s = true <-> (s mod r = sign_exp r sk h /\ s mod r <> 0).
  Proof.
    unfold verify_exp. rewrite andb_true_iff, negb_true_iff, Z.eqb_neq, Z.eqb_eq.
    rewrite e_exp_g2, e_exp_pub. unfold zr. tauto.
  Qed.

  Lemma verify_exp_identity pk h s : s mod r = 0 -> verify_exp r pk h s = false.
  Proof. intro H. unfold verify_exp, zr. rewrite H. reflexivity. Qed.

  Hypothesis r_prime : prime r.

  Lemma mod0_mult a b : (a * b) mod r = 0 -> a mod r = 0 \/ b mod r = 0.
  Proof.
    intro H. apply Z.mod_divide in H; [|lia].
    destruct (prime_mult r r_prime a b H) as [D|D]; [left|right]; apply Z.mod_divide; auto; lia.
  Qed.

  (* completeness: the honest signature of a valid key on a non-degenerate hash point verifies *)
  Lemma verify_exp_complete sk h : sk mod r <> 0 -> h mod r <> 0 ->
    verify_exp r (pub_exp r sk) h (sign_exp r sk h) = true.
  Proof.
    intros Hs Hh. apply verify_exp_iff. unfold sign_exp, zr. rewrite Z.mod_mod by lia. split; [reflexivity|].
    intro H. apply mod0_mult in H. tauto.
  Qed.

  (* algebraically related forgeries: the candidate alpha*H(m) + beta*g1. If it is not the honest
     combination (alpha, beta) = (sk, 0) it can verify for at most one value of the (unknown)
     discrete logarithm h of H(m). *)
  Lemma verify_exp_generic sk alpha beta h1 h2 :
    (alpha mod r <> sk mod r \/ beta mod r <> 0) ->
    verify_exp r (pub_exp r sk) h1 (alpha * h1 + beta) = true ->
    verify_exp r (pub_exp r sk) h2 (alpha * h2 + beta) = true ->
    h1 mod r = h2 mod r.
  Proof.
    intros Hne V1 V2. apply verify_exp_iff in V1 as [V1 _]. apply verify_exp_iff in V2 as [V2 _].
    unfold sign_exp, zr in *.
    assert (E1 : ((alpha - sk) * h1 + beta) mod r = 0).
    { replace ((alpha - sk) * h1 + beta) with ((alpha * h1 + beta) - sk * h1) by ring.
      rewrite Zminus_mod, V1, Z.sub_diag. apply Z.mod_0_l. lia. }
    assert (E2 : ((alpha - sk) * h2 + beta) mod r = 0).
    { replace ((alpha - sk) * h2 + beta) with ((alpha * h2 + beta) - sk * h2) by ring.
      rewrite Zminus_mod, V2, Z.sub_diag. apply Z.mod_0_l. lia. }
    assert (E : ((alpha - sk) * (h1 - h2)) mod r = 0).
    { replace ((alpha - sk) * (h1 - h2)) with (((alpha - sk) * h1 + beta) - ((alpha - sk) * h2 + beta)) by ring.
      rewrite Zminus_mod, E1, E2. reflexivity. }
    apply mod0_mult in E. destruct E as [E|E].
    - (* alpha = sk: then beta = 0, contradiction *)
      exfalso. destruct Hne as [Hne|Hne].
      + apply Hne. rewrite Zminus_mod in E.
        assert (Ha := Z.mod_pos_bound alpha r ltac:(lia)). assert (Hs := Z.mod_pos_bound sk r ltac:(lia)).
        destruct (Z.eq_dec (alpha mod r) (sk mod r)) as [Q|Q]; [exact Q|].
        exfalso. apply Z.mod_divide in E; [|lia]. destruct E as [q Hq].
        assert (q = 0) by nia. subst q. lia.
      + apply Hne. rewrite Z.add_mod in E1 by lia. rewrite Z.mul_mod in E1 by lia. rewrite E in E1.
        rewrite Z.mul_0_l, Z.mod_0_l, Z.add_0_l, Z.mod_mod in E1 by lia. exact E1.
    - rewrite Zminus_mod in E.
      assert (Ha := Z.mod_pos_bound h1 r ltac:(lia)). assert (Hs := Z.mod_pos_bound h2 r ltac:(lia)).
      destruct (Z.eq_dec (h1 mod r) (h2 mod r)) as [Q|Q]; [exact Q|].
      exfalso. apply Z.mod_divide in E; [|lia]. destruct E as [q Hq].
      assert (q = 0) by nia. subst q. lia.
  Qed.
End ExpProofs.

(* The same statement in an abstract bilinear setting: three groups given by their exponent maps
   (cyclic of order r with generators exp1 1, exp2 1, expT 1), a pairing that is bilinear and
   non-degenerate (it maps the pair of generators to the generator of GT). *)
Section Abstract.
  Variables (A1 A2 AT : Type).
  Variable r : Z.
  Variables (exp1 : Z -> A1) (exp2 : Z -> A2) (expT : Z -> AT).
  Variable in1 : A1 -> Prop.
  Variable pair : A1 -> A2 -> AT.
  Hypothesis r_pos : 1 < r.
  Hypothesis exp1_eq : forall a b, exp1 a = exp1 b <-> a mod r = b mod r.
  Hypothesis expT_eq : forall a b, expT a = expT b <-> a mod r = b mod r.
  Hypothesis gen1 : forall P, in1 P -> exists a, P = exp1 a.
  Hypothesis bilinear : forall a b, pair (exp1 a) (exp2 b) = expT (a * b).

  (* pk = sk*g2, H(m) = h*g1 (every element of G1 is of this form): the pairing equation of
     VerifySig holds for exactly one element of G1, the honest signature sk*H(m). *)
  Lemma abstract_unique sk h sigma : in1 sigma ->
    (pair sigma (exp2 1) = pair (exp1 h) (exp2 sk) <-> sigma = exp1 (sk * h)).
  Proof.
    intro Hin. destruct (gen1 sigma Hin) as [s ->]. rewrite !bilinear, expT_eq, exp1_eq.
    rewrite Z.mul_1_r, (Z.mul_comm h sk). tauto.
  Qed.

  (* non-degeneracy as used: the identity signature only matches the identity key or hash *)
  Lemma abstract_identity sk h : pair (exp1 0) (exp2 1) = pair (exp1 h) (exp2 sk) <-> (sk * h) mod r = 0.
  Proof.
    rewrite !bilinear, expT_eq. rewrite Z.mul_0_l, Z.mod_0_l by lia. rewrite (Z.mul_comm h sk).
    split; intro H; congruence.
  Qed.
End Abstract.

(* ================= 2. the byte layer ================= *)

(* well-formed Go-side values: what Unmarshal can produce *)
Definition g1_wf (v : g1) : Prop :=
  match v with
  | G1Nil => False
  | G1Inf => True
  | G1Aff x y => 0 <= x < P /\ 0 <= y < P /\ on_curve x y = true /\ ((x =? 0) && (y =? 0) = false)
  end.
Definition f_ok (a : Z) : Prop := 0 <= a < P.
Definition g2_wf (v : g2) : Prop :=
  match v with
  | G2Nil => False
  | G2Inf => True
  | G2Aff (xx, xy) (yx, yy) => f_ok xx /\ f_ok xy /\ f_ok yx /\ f_ok yy /\ on_twist (xx, xy) (yx, yy) = true /\
                                 ((xx =? 0) && (xy =? 0) && (yx =? 0) && (yy =? 0) = false)
  end.

Lemma P_lt_W : P < W. Proof. vm_compute. reflexivity. Qed.

Lemma be32_0 : be32 0 = repeat 0%N 32. Proof. vm_compute. reflexivity. Qed.

Lemma zeros64 : repeat 0%N 64 = be32 0 ++ be32 0. Proof. vm_compute. reflexivity. Qed.

Lemma take2_of_pair x y : 0 <= x < W -> 0 <= y < W ->
  take32 0 (be32 x ++ be32 y) = x /\ take32 1 (be32 x ++ be32 y) = y.
Proof.
  intros Hx Hy. split.
  - rewrite take32_app_here by (apply be32_length; exact Hx). apply bytesZ_be32. lia.
  - rewrite take32_app_skip by (apply be32_length; exact Hx).
    rewrite <- (app_nil_r (be32 y)). rewrite take32_app_here by (apply be32_length; exact Hy).
    apply bytesZ_be32. lia.
Qed.

Lemma g1_marshal_length v : g1_wf v -> length (g1_marshal v) = 64%nat.
Proof.
  destruct v as [| |x y]; cbn [g1_marshal g1_wf]; intro H; try reflexivity.
  destruct H as (Hx & Hy & _). pose proof P_lt_W. rewrite app_length, !be32_length; lia.
Qed.

(* Serialize then Deserialize gives the value back, without error. *)
Lemma sig_roundtrip v : g1_wf v -> sig_deserialize (sig_serialize v) = (v, false).
Proof.
  intro Hwf. destruct v as [| |x y]; [destruct Hwf | vm_compute; reflexivity |].
  destruct Hwf as (Hx & Hy & Hc & Hz). pose proof P_lt_W as HP.
  unfold sig_deserialize, sig_serialize. cbn [g1_marshal].
  assert (Hl : length (be32 x ++ be32 y) = 64%nat) by (rewrite app_length, !be32_length; lia).
  rewrite Hl. cbn [Nat.eqb negb]. change (64 =? 64)%nat with true. cbn [negb].
  unfold g1_unmarshal. rewrite Hl. change (64 <? 64)%nat with false.
  destruct (take2_of_pair x y ltac:(lia) ltac:(lia)) as [E0 E1]. rewrite E0, E1.
  assert (Bx : (x <? P) = true) by (apply Z.ltb_lt; lia).
  assert (By : (y <? P) = true) by (apply Z.ltb_lt; lia).
  rewrite Bx, By. cbn [negb orb]. rewrite Hz, Hc. reflexivity.
Qed.

(* Whatever Deserialize accepts is byte for byte the serialization of the value it returns. *)
Lemma sig_exact b v : bytes_ok b -> sig_deserialize b = (v, false) -> b = sig_serialize v /\ g1_wf v.
Proof.
  intros Hok. unfold sig_deserialize.
  destruct (length b =? 64)%nat eqn:El; cbn [negb]; [|discriminate].
  apply Nat.eqb_eq in El.
  unfold g1_unmarshal. rewrite El. change (64 <? 64)%nat with false.
  pose proof (split64 b Hok El) as Hb.
  set (x := take32 0 b) in *. set (y := take32 1 b) in *.
  assert (Hx0 : 0 <= x) by apply bytesZ_nonneg. assert (Hy0 : 0 <= y) by apply bytesZ_nonneg.
  destruct (x <? P) eqn:Bx; cbn [negb orb]; [|discriminate].
  destruct (y <? P) eqn:By; cbn [negb orb]; [|discriminate].
  apply Z.ltb_lt in Bx, By.
  destruct ((x =? 0) && (y =? 0)) eqn:Ez.
  - intro H. inversion H; subst v. split; [|exact I].
    apply andb_true_iff in Ez as [Zx Zy]. apply Z.eqb_eq in Zx, Zy. rewrite Zx, Zy in Hb.
    rewrite Hb. cbn [sig_serialize g1_marshal]. symmetry. apply zeros64.
  - destruct (on_curve x y) eqn:Ec; [|discriminate].
    intro H. inversion H; subst v. split; [exact Hb|]. cbn [g1_wf]. repeat split; auto.
Qed.

Lemma sig_error_nil b v : sig_deserialize b = (v, true) -> v = G1Nil.
Proof.
  unfold sig_deserialize. destruct (negb (length b =? 64)%nat); [congruence|].
  destruct (g1_unmarshal b) as [[v' r']|e]; congruence.
Qed.

Lemma sig_deserialize_cases b : (exists v, sig_deserialize b = (v, false) /\ v <> G1Nil) \/ sig_deserialize b = (G1Nil, true).
Proof.
  unfold sig_deserialize. destruct (negb (length b =? 64)%nat); [right; reflexivity|].
  unfold g1_unmarshal.
  destruct (length b <? 64)%nat; [right; reflexivity|].
  destruct (negb (take32 0 b <? P) || negb (take32 1 b <? P)); [right; reflexivity|].
  destruct ((take32 0 b =? 0) && (take32 1 b =? 0)); [left; eexists; split; [reflexivity|discriminate]|].
  destruct (on_curve (take32 0 b) (take32 1 b)); [left; eexists; split; [reflexivity|discriminate]|right; reflexivity].
Qed.

(* IsValid after a parse: exactly the non-nil values (the curve equation was already checked) *)
Lemma sig_valid_after_parse b v e : bytes_ok b -> sig_deserialize b = (v, e) ->
  sig_is_valid v = negb (g1_eqb v G1Nil) /\ e = g1_eqb v G1Nil.
Proof.
  intros Hok H. destruct (sig_deserialize_cases b) as [[v' [H' Hn]]|H'].
  - rewrite H' in H. inversion H; subst v' e. destruct (sig_exact b v Hok H') as [_ Hwf].
    destruct v as [| |x y]; [tauto | split; reflexivity |]. cbn. destruct Hwf as (_ & _ & Hc & _). rewrite Hc. split; reflexivity.
  - rewrite H' in H. inversion H; subst. split; reflexivity.
Qed.

Lemma g1_eqb_eq a b : g1_eqb a b = true <-> a = b.
Proof.
  destruct a as [| |x y], b as [| |x' y']; simpl; split; intro H; try reflexivity; try discriminate.
  - apply andb_true_iff in H as [A B]. apply Z.eqb_eq in A, B. congruence.
  - inversion H; subst. rewrite !Z.eqb_refl. reflexivity.
Qed.

Lemma f2eqb_eq u v : f2eqb u v = true <-> u = v.
Proof.
  destruct u, v; unfold f2eqb; simpl. rewrite andb_true_iff, !Z.eqb_eq. split; [intros [-> ->]; reflexivity | intro H; inversion H; auto].
Qed.

Lemma g2_eqb_eq a b : g2_eqb a b = true <-> a = b.
Proof.
  destruct a as [| |x y], b as [| |x' y']; simpl; split; intro H; try reflexivity; try discriminate.
  - apply andb_true_iff in H as [A B]. apply f2eqb_eq in A, B. congruence.
  - inversion H; subst. apply andb_true_iff; split; apply f2eqb_eq; reflexivity.
Qed.

(* ---- public keys ---- *)
Lemma take4_of_quad a b c d : 0 <= a < W -> 0 <= b < W -> 0 <= c < W -> 0 <= d < W ->
  let m := be32 a ++ be32 b ++ be32 c ++ be32 d in
  take32 0 m = a /\ take32 1 m = b /\ take32 2 m = c /\ take32 3 m = d.
Proof.
  intros Ha Hb Hc Hd m. unfold m.
  pose proof (be32_length a Ha) as La. pose proof (be32_length b Hb) as Lb. pose proof (be32_length c Hc) as Lc.
  repeat split.
  - rewrite take32_app_here by exact La. apply bytesZ_be32; lia.
  - rewrite take32_app_skip by exact La. rewrite take32_app_here by exact Lb. apply bytesZ_be32; lia.
  - rewrite take32_app_skip by exact La. rewrite take32_app_skip by exact Lb. rewrite take32_app_here by exact Lc. apply bytesZ_be32; lia.
  - rewrite take32_app_skip by exact La. rewrite take32_app_skip by exact Lb. rewrite take32_app_skip by exact Lc.
    rewrite <- (app_nil_r (be32 d)). rewrite take32_app_here by (apply be32_length; exact Hd). apply bytesZ_be32; lia.
Qed.

Lemma pk_roundtrip v : g2_wf v -> v <> G2Inf -> pk_deserialize (g2_marshal v) = Ok v.
Proof.
  intros Hwf Hni. destruct v as [| |[xx xy] [yx yy]]; [destruct Hwf | congruence |].
  destruct Hwf as (H1 & H2 & H3 & H4 & Hc & Hz). unfold f_ok in *. pose proof P_lt_W as HP.
  unfold pk_deserialize. cbn [g2_marshal].
  set (m := be32 xx ++ be32 xy ++ be32 yx ++ be32 yy).
  assert (Hl : length m = 128%nat) by (unfold m; rewrite !app_length, !be32_length; lia).
  rewrite Hl. change (128 =? 128)%nat with true. cbn [negb].
  unfold g2_unmarshal. rewrite Hl. change (128 <? 128)%nat with false.
  destruct (take4_of_quad xx xy yx yy ltac:(lia) ltac:(lia) ltac:(lia) ltac:(lia)) as (E0 & E1 & E2 & E3). fold m in E0, E1, E2, E3.
  rewrite E0, E1, E2, E3.
  assert (B1 : (xx <? P) = true) by (apply Z.ltb_lt; lia).
  assert (B2 : (xy <? P) = true) by (apply Z.ltb_lt; lia).
  assert (B3 : (yx <? P) = true) by (apply Z.ltb_lt; lia).
  assert (B4 : (yy <? P) = true) by (apply Z.ltb_lt; lia).
  rewrite B1, B2, B3, B4. cbn [negb orb]. rewrite Hz, Hc. reflexivity.
Qed.

Lemma pk_exact b v : bytes_ok b -> pk_deserialize b = Ok v -> v <> G2Inf -> b = g2_marshal v /\ g2_wf v.
Proof.
  intros Hok. unfold pk_deserialize.
  destruct (length b =? 128)%nat eqn:El; cbn [negb]; [|discriminate].
  apply Nat.eqb_eq in El.
  unfold g2_unmarshal. rewrite El. change (128 <? 128)%nat with false.
  pose proof (split128 b Hok El) as Hb.
  set (xx := take32 0 b) in *. set (xy := take32 1 b) in *. set (yx := take32 2 b) in *. set (yy := take32 3 b) in *.
  assert (0 <= xx) by apply bytesZ_nonneg. assert (0 <= xy) by apply bytesZ_nonneg.
  assert (0 <= yx) by apply bytesZ_nonneg. assert (0 <= yy) by apply bytesZ_nonneg.
  destruct (xx <? P) eqn:B1; cbn [negb orb]; [|discriminate].
  destruct (xy <? P) eqn:B2; cbn [negb orb]; [|discriminate].
  destruct (yx <? P) eqn:B3; cbn [negb orb]; [|discriminate].
  destruct (yy <? P) eqn:B4; cbn [negb orb]; [|discriminate].
  apply Z.ltb_lt in B1, B2, B3, B4.
  destruct ((xx =? 0) && (xy =? 0) && (yx =? 0) && (yy =? 0)) eqn:Ez.
  - intros Hq Hn. inversion Hq; subst v. congruence.
  - destruct (on_twist (xx, xy) (yx, yy)) eqn:Ec; [|discriminate].
    intros Hq _. inversion Hq; subst v. split; [exact Hb|]. cbn [g2_wf]. unfold f_ok. repeat split; auto.
Qed.

(* ================= 3. node level: accept iff it is the honest encoding ================= *)
Lemma on_curve_sig_valid x y : on_curve x y = true -> sig_is_valid (G1Aff x y) = true.
Proof. intro H. exact H. Qed.

Theorem verify_bytes_iff hpk hs pkb sb :
  bytes_ok pkb -> bytes_ok sb ->
  g2_wf hpk -> hpk <> G2Inf -> g1_wf hs -> hs <> G1Inf ->
  (verify_bytes hpk hs pkb sb = true <-> pkb = g2_marshal hpk /\ sb = sig_serialize hs).
Proof.
  intros Hpok Hsok Hwpk Hnpk Hws Hns. unfold verify_bytes. split.
  - intro H.
    destruct (sig_deserialize sb) as [v e] eqn:Es. cbn [fst] in H.
    destruct e.
    { apply sig_error_nil in Es. subst v. discriminate. }
    destruct (sig_exact sb v Hsok Es) as [Hsb Hwv].
    unfold byte_to_pk in H. destruct (pk_deserialize pkb) as [pk|err] eqn:Ep.
    2:{ destruct v; cbn in H; try discriminate; destruct (on_curve x y); discriminate. }
    destruct v as [| |x y]; [destruct Hwv | |].
    { cbn in H. destruct pk; discriminate. }
    cbn [verify_sig] in H. destruct Hwv as (Hx & Hy & Hc & Hz).
    rewrite (on_curve_sig_valid x y Hc) in H. cbn [negb] in H.
    destruct pk as [| |px py]; try discriminate.
    unfold pairing_for in H. apply andb_true_iff in H as [H1 H2].
    apply g2_eqb_eq in H1. apply g1_eqb_eq in H2. subst hpk hs.
    destruct (pk_exact pkb _ Hpok Ep ltac:(discriminate)) as [Hpb _].
    split; assumption.
  - intros [-> ->].
    rewrite (sig_roundtrip hs Hws). cbn [fst]. unfold byte_to_pk. rewrite (pk_roundtrip hpk Hwpk Hnpk).
    destruct hs as [| |x y]; [destruct Hws | congruence |]. destruct Hws as (_ & _ & Hc & _).
    cbn [verify_sig]. rewrite (on_curve_sig_valid x y Hc). cbn [negb].
    destruct hpk as [| |px py]; [destruct Hwpk | congruence |].
    unfold pairing_for. apply andb_true_iff. split; [apply g2_eqb_eq | apply g1_eqb_eq]; reflexivity.
Qed.

(* identity elements are refused whatever the pairing says *)
Lemma verify_sig_identity pe pk : verify_sig pe pk G1Inf = false.
Proof. destruct pk; reflexivity. Qed.
Lemma verify_sig_identity_pk pe s : verify_sig pe G2Inf s = false.
Proof. destruct s; cbn; try reflexivity. destruct (on_curve x y); reflexivity. Qed.
Lemma verify_sig_nil pe pk : verify_sig pe pk G1Nil = false.
Proof. reflexivity. Qed.

(* ================= 4. the historical code: refutations ================= *)
Definition gen_sig : g1 := G1Aff 1 (P - 2).       (* curve.go curveGen = (1, -2) *)
Definition some_pk' : g2 := G2Aff (1, 1) (1, 1).

(* a valid signature followed by one more byte was accepted *)
Lemma overlong_refuted :
  exists (hs : g1) (b : bytes), g1_wf hs /\ b <> sig_serialize hs /\
    verify_sig_old (pairing_for_old some_pk' hs) some_pk' (fst (sig_deserialize_old g1_unmarshal_old b)) = true.
Proof.
  exists gen_sig, (sig_serialize gen_sig ++ [7%N]). split; [|split].
  - unfold gen_sig. cbn [g1_wf]. repeat split; vm_compute; congruence.
  - intro H. apply (f_equal (@length N)) in H. vm_compute in H. discriminate.
  - vm_compute. reflexivity.
Qed.

(* the coordinate x + p was accepted for x *)
Lemma alias_refuted :
  exists (hs : g1) (b : bytes), g1_wf hs /\ length b = 64%nat /\ b <> sig_serialize hs /\
    verify_sig_old (pairing_for_old some_pk' hs) some_pk' (fst (sig_deserialize_old g1_unmarshal_old b)) = true.
Proof.
  exists gen_sig, (be32 (1 + P) ++ be32 (P - 2)). split; [|split; [|split]].
  - unfold gen_sig. cbn [g1_wf]. repeat split; vm_compute; congruence.
  - vm_compute. reflexivity.
  - vm_compute. discriminate.
  - vm_compute. reflexivity.
Qed.

(* under the identity public key the identity signature verified, whatever the message *)
Lemma identity_refuted : forall hpk hs,
  verify_sig_old (pairing_for_old hpk hs) G2Inf (fst (sig_deserialize_old g1_unmarshal_old (repeat 0%N 64))) = true.
Proof. intros. vm_compute. reflexivity. Qed.

(* ================= 5. hash to G1, negation ================= *)
Lemma P_pos : 0 < P. Proof. vm_compute. reflexivity. Qed.

Lemma fsqrt_spec t y : fsqrt t = Some y -> fmul y y = t mod P.
Proof.
  unfold fsqrt. set (z := fpow t ((P + 1) / 4)). cbv zeta.
  destruct (fmul z z =? t mod P) eqn:Q; [|discriminate].
  intro H. injection H as <-. apply Z.eqb_eq. exact Q.
Qed.

Opaque fsqrt fpow.
(* the try-and-increment hash returns a point of the curve (when it returns within its fuel) *)
Lemma hash_point_on_curve f : forall x x' y, hash_point f x = Some (x', y) -> on_curve x' y = true.
Proof.
  induction f as [|f IH]; intros x x' y H; cbn [hash_point] in H; [discriminate|].
  destruct (fsqrt (fadd (fmul (fmul x x) x) 3)) as [y0|] eqn:E.
  - injection H as <- <-. apply fsqrt_spec in E. unfold on_curve. apply Z.eqb_eq. rewrite E.
    unfold fadd. apply Z.mod_mod. pose proof P_pos. lia.
  - eapply IH. exact H.
Qed.

Lemma on_curve_mod_x x y : on_curve (x mod P) y = on_curve x y.
Proof.
  pose proof P_pos as HP.
  assert (E : fmul (fmul (x mod P) (x mod P)) (x mod P) = fmul (fmul x x) x).
  { unfold fmul. rewrite <- (Z.mul_mod x x P) by lia. rewrite <- (Z.mul_mod (x * x) x P) by lia.
    rewrite (Z.mul_mod_idemp_l (x * x) x P) by lia. reflexivity. }
  unfold on_curve. rewrite E. reflexivity.
Qed.

Lemma hash_to_g1_valid d : hash_to_g1 d <> G1Nil -> sig_is_valid (hash_to_g1 d) = true.
Proof.
  unfold hash_to_g1. destruct (hash_point 64 (bytesZ d mod P)) as [[x y]|] eqn:E; [|congruence].
  intros _. cbn [sig_is_valid]. rewrite on_curve_mod_x. eapply hash_point_on_curve. exact E.
Qed.

Transparent fsqrt fpow.

(* -(x, y) = (x, -y) is on the curve when (x, y) is *)
Lemma neg_on_curve x y : on_curve x y = true -> on_curve x (fsub 0 y) = true.
Proof.
  unfold on_curve. intro H. apply Z.eqb_eq in H. apply Z.eqb_eq. rewrite <- H.
  unfold fmul, fsub. pose proof P_pos as HP.
  rewrite Z.mul_mod_idemp_l, Z.mul_mod_idemp_r by lia. f_equal. ring.
Qed.
