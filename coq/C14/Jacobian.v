(* C14 — curve.go's Jacobian formulas compute the affine chord-and-tangent law of Model.g1_double /
   g1_add: representation lemmas for one doubling and one generic addition (nsatz over F_P).
   NOT proved: the whole double-and-add loop equals repeated affine addition (needs associativity). *)
From Coq Require Import ZArith Znumtheory Lia Nsatz Bool.
From V.C14 Require Import Model Curve.
Local Open Scope Z_scope.

(* (X, Y, Zc) represents the affine point (x, y) *)
Definition jrep (J : jpt) (x y : Z) : Prop :=
  let '(X, Y, Zc) := J in ~ eqP Zc 0 /\ eqP X (x * Zc * Zc) /\ eqP Y (y * Zc * Zc * Zc).

Lemma neq0_mul a b : ~ eqP a 0 -> ~ eqP b 0 -> ~ eqP (a * b) 0.
Proof. intros Ha Hb E. apply eqP_mul_0 in E. tauto. Qed.
Lemma two_neq0 : ~ eqP (1 + 1) 0.
Proof. intro E. unfold eqP in E. vm_compute in E. discriminate. Qed.

Opaque fmul fadd fsub.

(* Double: for l the tangent slope (l * 2y = 3x^2), the result represents (l^2 - 2x, l(x - x3) - y) *)
Lemma jdouble_rep X Y Zc x y l :
  jrep (X, Y, Zc) x y -> ~ eqP y 0 -> eqP (l * ((1 + 1) * y)) ((1 + 1 + 1) * (x * x)) ->
  jrep (jdouble (X, Y, Zc)) (l * l - (1 + 1) * x) (l * (x - (l * l - (1 + 1) * x)) - y).
Proof.
  intros (HZ & HX & HY) Hy Hl. unfold jdouble.
  set (A := fmul X X). assert (EA : eqP A (X * X)) by (unfold A; feq).
  set (B := fmul Y Y). assert (EB : eqP B (Y * Y)) by (unfold B; feq).
  set (C := fmul B B). assert (EC : eqP C (B * B)) by (unfold C; feq).
  set (t1 := fadd X B). assert (E1 : eqP t1 (X + B)) by (unfold t1; feq).
  set (t2 := fmul t1 t1). assert (E2 : eqP t2 (t1 * t1)) by (unfold t2; feq).
  set (t3 := fsub t2 A). assert (E3 : eqP t3 (t2 - A)) by (unfold t3; feq).
  set (t4 := fsub t3 C). assert (E4 : eqP t4 (t3 - C)) by (unfold t4; feq).
  set (d := fadd t4 t4). assert (Ed : eqP d (t4 + t4)) by (unfold d; feq).
  set (t5 := fadd A A). assert (E5 : eqP t5 (A + A)) by (unfold t5; feq).
  set (e := fadd t5 A). assert (Ee : eqP e (t5 + A)) by (unfold e; feq).
  set (f := fmul e e). assert (Ef : eqP f (e * e)) by (unfold f; feq).
  set (t6 := fadd d d). assert (E6 : eqP t6 (d + d)) by (unfold t6; feq).
  set (cx := fsub f t6). assert (Ecx : eqP cx (f - t6)) by (unfold cx; feq).
  set (z0 := fmul Y Zc). assert (Ez0 : eqP z0 (Y * Zc)) by (unfold z0; feq).
  set (cz := fadd z0 z0). assert (Ecz : eqP cz (z0 + z0)) by (unfold cz; feq).
  set (t7 := fadd C C). assert (E7 : eqP t7 (C + C)) by (unfold t7; feq).
  set (t8 := fadd t7 t7). assert (E8 : eqP t8 (t7 + t7)) by (unfold t8; feq).
  set (t9 := fadd t8 t8). assert (E9 : eqP t9 (t8 + t8)) by (unfold t9; feq).
  set (y0 := fsub d cx). assert (Ey0 : eqP y0 (d - cx)) by (unfold y0; feq).
  set (t10 := fmul e y0). assert (E10 : eqP t10 (e * y0)) by (unfold t10; feq).
  set (cy := fsub t10 t9). assert (Ecy : eqP cy (t10 - t9)) by (unfold cy; feq).
  clearbody A B C t1 t2 t3 t4 d t5 e f t6 cx z0 cz t7 t8 t9 y0 t10 cy.
  cbn [jrep]. split; [|split].
  - assert (Ez : eqP cz ((1 + 1) * (y * (Zc * Zc * Zc * Zc)))) by nsatzP.
    intro E. apply (neq0_mul (1 + 1) (y * (Zc * Zc * Zc * Zc)) two_neq0).
    + apply neq0_mul; [exact Hy|]. repeat apply neq0_mul; exact HZ.
    + etransitivity; [symmetry; exact Ez | exact E].
  - nsatzP.
  - nsatzP.
Qed.

(* Add, generic case (both finite, different x): for the chord slope l (l (x2 - x1) = y2 - y1) the result
   represents (l^2 - x1 - x2, l (x1 - x3) - y1), the point Model.g1_add computes *)
Lemma jadd_rep X1 Y1 Z1 X2 Y2 Z2 x1 y1 x2 y2 l :
  jrep (X1, Y1, Z1) x1 y1 -> jrep (X2, Y2, Z2) x2 y2 -> ~ eqP (x2 - x1) 0 ->
  eqP (l * (x2 - x1)) (y2 - y1) ->
  0 <= Z1 < P -> 0 <= Z2 < P ->
  jrep (jadd (X1, Y1, Z1) (X2, Y2, Z2)) (l * l - x1 - x2) (l * (x1 - (l * l - x1 - x2)) - y1).
Proof.
  intros (HZ1 & HX1 & HY1) (HZ2 & HX2 & HY2) Hd Hl R1 R2. unfold jadd, j_is_inf.
  destruct (Z.eqb_spec Z1 0) as [E|_]; [exfalso; apply HZ1; rewrite E; reflexivity|].
  destruct (Z.eqb_spec Z2 0) as [E|_]; [exfalso; apply HZ2; rewrite E; reflexivity|].
  set (z12 := fmul Z1 Z1). assert (Ez12 : eqP z12 (Z1 * Z1)) by (unfold z12; feq).
  set (z22 := fmul Z2 Z2). assert (Ez22 : eqP z22 (Z2 * Z2)) by (unfold z22; feq).
  set (u1 := fmul X1 z22). assert (Eu1 : eqP u1 (X1 * z22)) by (unfold u1; feq).
  set (u2 := fmul X2 z12). assert (Eu2 : eqP u2 (X2 * z12)) by (unfold u2; feq).
  set (ta := fmul Z2 z22). assert (Eta : eqP ta (Z2 * z22)) by (unfold ta; feq).
  set (s1 := fmul Y1 ta). assert (Es1 : eqP s1 (Y1 * ta)) by (unfold s1; feq).
  set (tb := fmul Z1 z12). assert (Etb : eqP tb (Z1 * z12)) by (unfold tb; feq).
  set (s2 := fmul Y2 tb). assert (Es2 : eqP s2 (Y2 * tb)) by (unfold s2; feq).
  set (h := fsub u2 u1). assert (Eh : eqP h (u2 - u1)) by (unfold h; feq).
  assert (Hh : eqP h ((x2 - x1) * (Z1 * Z1 * (Z2 * Z2)))) by (clearbody z12 z22 u1 u2 ta s1 tb s2 h; clear - HX1 HX2 Ez12 Ez22 Eu1 Eu2 Eh; nsatzP).
  assert (Nh : ~ eqP h 0).
  { intro E. apply (neq0_mul (x2 - x1) (Z1 * Z1 * (Z2 * Z2)) Hd).
    - repeat apply neq0_mul; assumption.
    - etransitivity; [symmetry; exact Hh | exact E]. }
  destruct (Z.eqb_spec h 0) as [E|_]; [exfalso; apply Nh; rewrite E; reflexivity|]. cbn [andb].
  set (tc := fadd h h). assert (Etc : eqP tc (h + h)) by (unfold tc; feq).
  set (i := fmul tc tc). assert (Ei : eqP i (tc * tc)) by (unfold i; feq).
  set (j := fmul h i). assert (Ej : eqP j (h * i)) by (unfold j; feq).
  set (td := fsub s2 s1). assert (Etd : eqP td (s2 - s1)) by (unfold td; feq).
  set (r := fadd td td). assert (Er : eqP r (td + td)) by (unfold r; feq).
  set (v := fmul u1 i). assert (Ev : eqP v (u1 * i)) by (unfold v; feq).
  set (t4 := fmul r r). assert (E4 : eqP t4 (r * r)) by (unfold t4; feq).
  set (te := fadd v v). assert (Ete : eqP te (v + v)) by (unfold te; feq).
  set (t6 := fsub t4 j). assert (E6 : eqP t6 (t4 - j)) by (unfold t6; feq).
  set (cx := fsub t6 te). assert (Ecx : eqP cx (t6 - te)) by (unfold cx; feq).
  set (tf := fsub v cx). assert (Etf : eqP tf (v - cx)) by (unfold tf; feq).
  set (t4b := fmul s1 j). assert (E4b : eqP t4b (s1 * j)) by (unfold t4b; feq).
  set (t6b := fadd t4b t4b). assert (E6b : eqP t6b (t4b + t4b)) by (unfold t6b; feq).
  set (t4c := fmul r tf). assert (E4c : eqP t4c (r * tf)) by (unfold t4c; feq).
  set (cy := fsub t4c t6b). assert (Ecy : eqP cy (t4c - t6b)) by (unfold cy; feq).
  set (tg := fadd Z1 Z2). assert (Etg : eqP tg (Z1 + Z2)) by (unfold tg; feq).
  set (t4d := fmul tg tg). assert (E4d : eqP t4d (tg * tg)) by (unfold t4d; feq).
  set (th := fsub t4d z12). assert (Eth : eqP th (t4d - z12)) by (unfold th; feq).
  set (t4e := fsub th z22). assert (E4e : eqP t4e (th - z22)) by (unfold t4e; feq).
  set (cz := fmul t4e h). assert (Ecz : eqP cz (t4e * h)) by (unfold cz; feq).
  clearbody z12 z22 u1 u2 ta s1 tb s2 h tc i j td r v t4 te t6 cx tf t4b t6b t4c cy tg t4d th t4e cz.
  (* stage the elimination: every intermediate value as a polynomial in x1 y1 x2 y2 Z1 Z2 *)
  set (W := Z1 * Z2) in *.
  assert (Pu1 : eqP u1 (x1 * (W * W))) by (clear - HX1 Ez22 Eu1; subst W; nsatzP).
  assert (Ps1 : eqP s1 (y1 * (W * W * W))) by (clear - HY1 Ez22 Eta Es1; subst W; nsatzP).
  assert (Ps2 : eqP s2 (y2 * (W * W * W))) by (clear - HY2 Ez12 Etb Es2; subst W; nsatzP).
  assert (Ph : eqP h ((x2 - x1) * (W * W))) by (clear - Hh; subst W; nsatzP).
  assert (Pi : eqP i ((1+1)*(1+1) * (h * h))) by (clear - Etc Ei; nsatzP).
  assert (Pj : eqP j ((1+1)*(1+1) * (h * h * h))) by (clear - Pi Ej; nsatzP).
  assert (Pr : eqP r ((1+1) * ((y2 - y1) * (W * W * W)))) by (clear - Ps1 Ps2 Etd Er; nsatzP).
  assert (Pv : eqP v ((1+1)*(1+1) * (x1 * (W * W) * (h * h)))) by (clear - Pu1 Pi Ev; nsatzP).
  assert (Pcx : eqP cx (r * r - j - (1+1) * v)) by (clear - E4 Ete E6 Ecx; nsatzP).
  assert (Pcy : eqP cy (r * (v - cx) - (1+1) * (s1 * j))) by (clear - Etf E4b E6b E4c Ecy; nsatzP).
  assert (Ez : eqP cz ((1 + 1) * (W * h))) by (clear - Etg E4d Eth E4e Ecz Ez12 Ez22; subst W; nsatzP).
  (* l * h = (y2 - y1) * W^2, so r = 2 l h W *)
  assert (Plh : eqP (l * h) ((y2 - y1) * (W * W))) by (clear - Hl Ph; nsatzP).
  cbn [jrep]. split; [|split].
  - intro E. apply (neq0_mul (1 + 1) (W * h) two_neq0).
    + subst W. repeat apply neq0_mul; assumption.
    + etransitivity; [symmetry; exact Ez | exact E].
  - clear - Pcx Pr Pj Pv Ez Plh Ph. clearbody W. nsatzP.
  - clear - Pcy Pcx Pr Pj Pv Ps1 Ez Plh Ph. clearbody W. nsatzP.
Qed.
Transparent fmul fadd fsub.
