(* C14 — the generator of G1 and R * g1 = O, evaluated once with the model of curve.go's own
   Jacobian double-and-add (about 50 s of vm_compute; kept in its own file). *)
From Coq Require Import ZArith.
From V.C14 Require Import Model Curve.
Local Open Scope Z_scope.

Definition gen : g1 := G1Aff 1 (P - 2).                (* curve.go curveGen = (1, -2) *)
Lemma gen_pt : g1_pt gen.
Proof. unfold gen. cbn [g1_pt]. repeat split; vm_compute; congruence. Qed.

(* r * g1 = O, computed by the model of the code's own double-and-add (one-off, ~30 s) *)
Lemma order_times_gen : g1_scalar_mult R gen = G1Inf.
Proof. vm_compute. reflexivity. Qed.

