(* C14 — scalar multiplication.  Everything in Section AssumingAssoc depends on ONE hypothesis,
   associativity of the model's affine law on curve points; nothing else is assumed.
   Under it: k*P by repeated addition is a homomorphism in k, curve.go's Jacobian double-and-add loop
   (Model.jmul / g1_scalar_mult, the code of Sign) computes exactly k*P, the generator has order R,
   and Sign(sk, h*g1) is the element with discrete logarithm sk*h mod R — the exponent layer. *)
From Coq Require Import ZArith Znumtheory Lia Nsatz Bool List.
From V.C14 Require Import Model Curve Jacobian GenOrder.
Import ListNotations.
Local Open Scope Z_scope.

(* ---------- facts that need no hypothesis ---------- *)
Lemma double_is_add v : g1_double v = g1_add v v.
Proof. destruct v as [| |x y]; cbn [g1_add g1_double]; try reflexivity. rewrite !Z.eqb_refl. reflexivity. Qed.

Lemma mul_nat_inf k : g1_mul_nat k G1Inf = G1Inf.
Proof. induction k as [|k IH]; cbn [g1_mul_nat]; [reflexivity|]. rewrite IH. reflexivity. Qed.

Lemma jrep_eqP J x y x' y' : eqP x x' -> eqP y y' -> jrep J x y -> jrep J x' y'.
Proof.
  destruct J as [[X Y] Zc]. intros Ex Ey (HZ & HX & HY). cbn [jrep]. split; [exact HZ|]. split.
  - etransitivity; [exact HX|]. repeat apply mul_eqP; try reflexivity. exact Ex.
  - etransitivity; [exact HY|]. repeat apply mul_eqP; try reflexivity. exact Ey.
Qed.

Lemma reduced_neq0 z : 0 <= z < P -> z <> 0 -> ~ eqP z 0.
Proof. intros Hz Hn E. apply (eqP_reduced_0 z Hz) in E. contradiction. Qed.

Opaque finv fpow.

(* a Jacobian triple with z <> 0 represents the affine point MakeAffine computes, and conversely *)
Lemma j_to_g1_rep X Y Zc : 0 <= Zc < P -> Zc <> 0 ->
  exists x y, j_to_g1 (X, Y, Zc) = G1Aff x y /\ 0 <= x < P /\ 0 <= y < P /\ jrep (X, Y, Zc) x y.
Proof.
  intros Hz Hn. pose proof (reduced_neq0 Zc Hz Hn) as Nz. pose proof (finv_spec Zc Nz) as Hi.
  cbn [j_to_g1]. destruct (Z.eqb_spec Zc 0) as [|_]; [contradiction|].
  set (zi := finv Zc) in *. clearbody zi.
  set (t := fmul Y zi). assert (Et : eqP t (Y * zi)) by (unfold t; feq).
  set (zi2 := fmul zi zi). assert (E2 : eqP zi2 (zi * zi)) by (unfold zi2; feq).
  set (x := fmul X zi2). assert (Ex : eqP x (X * zi2)) by (unfold x; feq).
  set (y := fmul t zi2). assert (Ey : eqP y (t * zi2)) by (unfold y; feq).
  exists x, y. split; [reflexivity|]. split; [apply fmul_range|]. split; [apply fmul_range|].
  clearbody t zi2 x y. cbn [jrep]. split; [exact Nz|].
  split; [clear - Hi E2 Ex; nsatzP | clear - Hi Et E2 Ey; nsatzP].
Qed.

Lemma j_to_g1_of_rep X Y Zc x y : 0 <= Zc < P -> 0 <= x < P -> 0 <= y < P ->
  jrep (X, Y, Zc) x y -> j_to_g1 (X, Y, Zc) = G1Aff x y.
Proof.
  intros Hz Hx Hy (Nz & HX & HY).
  assert (Hn : Zc <> 0) by (intro E; apply Nz; rewrite E; reflexivity).
  destruct (j_to_g1_rep X Y Zc Hz Hn) as (x' & y' & E & Hx' & Hy' & (_ & HX' & HY')).
  rewrite E. pose proof (finv_spec Zc Nz) as Hi. set (zi := finv Zc) in *. clearbody zi.
  f_equal; apply reduced_eq; auto.
  - assert (Q : eqP ((x' - x) * (Zc * Zc)) 0) by (clear - HX HX'; nsatzP).
    apply eqP_mul_0 in Q. destruct Q as [Q|Q]; [clear - Q; nsatzP|].
    apply eqP_mul_0 in Q. destruct Q; contradiction.
  - assert (Q : eqP ((y' - y) * (Zc * Zc * Zc)) 0) by (clear - HY HY'; nsatzP).
    apply eqP_mul_0 in Q. destruct Q as [Q|Q]; [clear - Q; nsatzP|].
    apply eqP_mul_0 in Q. destruct Q as [Q|Q]; [|contradiction].
    apply eqP_mul_0 in Q. destruct Q; contradiction.
Qed.

(* well-formed Jacobian values: reduced coordinates, representing a curve point (or infinity) *)
Definition jok (J : jpt) : Prop :=
  let '(X, Y, Zc) := J in 0 <= X < P /\ 0 <= Y < P /\ 0 <= Zc < P /\ g1_pt (j_to_g1 J).

Lemma fmul_0_r a : fmul a 0 = 0.
Proof. unfold fmul. rewrite Z.mul_0_r. reflexivity. Qed.
Lemma fadd_0_0 : fadd 0 0 = 0. Proof. reflexivity. Qed.
Lemma fmul_0_r' a : fmul a 0 = 0. Proof. exact (fmul_0_r a). Qed.

Lemma eqP0_reduced a : 0 <= a < P -> eqP a 0 -> a = 0.
Proof. intros H E. apply (eqP_reduced_0 a H). exact E. Qed.

Opaque fmul fadd fsub.

Lemma jdouble_ranges X Y Zc : let '(a, b, c) := jdouble (X, Y, Zc) in 0 <= a < P /\ 0 <= b < P /\ 0 <= c < P.
Proof. cbn [jdouble]. repeat split; try apply fsub_range; try apply fadd_range. Qed.

Lemma jdouble_z X Y Zc : eqP (snd (jdouble (X, Y, Zc))) ((1 + 1) * (Y * Zc)).
Proof.
  cbn [jdouble snd]. set (z0 := fmul Y Zc). assert (E0 : eqP z0 (Y * Zc)) by (unfold z0; feq).
  set (cz := fadd z0 z0). assert (E : eqP cz (z0 + z0)) by (unfold cz; feq). clearbody z0 cz. clear - E0 E. nsatzP.
Qed.

(* Double on well-formed values is the affine doubling *)
Lemma jdouble_val J : jok J -> jok (jdouble J) /\ j_to_g1 (jdouble J) = g1_double (j_to_g1 J).
Proof.
  destruct J as [[X Y] Zc]. intros (HX & HY & HZ & Hpt).
  pose proof (jdouble_ranges X Y Zc) as Hr. pose proof (jdouble_z X Y Zc) as Hzz.
  destruct (jdouble (X, Y, Zc)) as [[X3 Y3] Z3] eqn:ED. destruct Hr as (R1 & R2 & R3). cbn [snd] in Hzz.
  assert (Goal2 : j_to_g1 (X3, Y3, Z3) = g1_double (j_to_g1 (X, Y, Zc))).
  { destruct (Z.eq_dec Zc 0) as [Ez|Nz].
    - subst Zc. assert (Z3 = 0) by (apply eqP0_reduced; [exact R3|]; clear - Hzz; nsatzP). subst Z3. reflexivity.
    - destruct (j_to_g1_rep X Y Zc HZ Nz) as (x & y & E & Hx & Hy & Hrep). rewrite E in *.
      destruct Hpt as (_ & _ & Hc). cbn [g1_double].
      destruct (Z.eqb_spec y 0) as [Ey|Ny].
      + subst y. destruct Hrep as (_ & _ & HYr).
        assert (Z3 = 0) by (apply eqP0_reduced; [exact R3|]; clear - Hzz HYr; nsatzP). subst Z3. reflexivity.
      + (* the affine slope satisfies l * 2y = 3x^2 *)
        assert (N2y : ~ eqP (fmul 2 y) 0).
        { intro Q. assert (Q' : eqP ((1 + 1) * y) 0) by (etransitivity; [symmetry; change (1 + 1) with 2; feq | exact Q]).
          apply eqP_mul_0 in Q'. destruct Q' as [Q'|Q']; [exact (two_neq0 Q')|].
          apply (reduced_neq0 y Hy Ny). exact Q'. }
        pose proof (finv_spec _ N2y) as Hi.
        assert (Hd : eqP (fmul 2 y) ((1 + 1) * y)) by (change (1 + 1) with 2; feq).
        assert (Hi' : eqP (finv (fmul 2 y) * ((1 + 1) * y)) 1)
          by (etransitivity; [apply mul_eqP; [reflexivity | symmetry; exact Hd] | exact Hi]).
        set (iv := finv (fmul 2 y)) in *. clearbody iv.
        set (l := fmul (fmul 3 (fmul x x)) iv).
        assert (Hl : eqP l ((1 + 1 + 1) * (x * x) * iv)) by (change (1 + 1 + 1) with 3; unfold l; feq).
        assert (Hl2 : eqP (l * ((1 + 1) * y)) ((1 + 1 + 1) * (x * x))) by (clearbody l; clear - Hl Hi'; nsatzP).
        pose proof (jdouble_rep X Y Zc x y l Hrep (reduced_neq0 y Hy Ny) Hl2) as Hr3. rewrite ED in Hr3.
        apply j_to_g1_of_rep; [exact R3 | apply fsub_range | apply fsub_range |].
        eapply jrep_eqP; [| | exact Hr3].
        * symmetry. change (1 + 1) with 2. feq.
        * symmetry. change (1 + 1) with 2. feq. }
  split; [|exact Goal2].
  cbn [jok]. repeat split; try tauto. rewrite Goal2.
  rewrite double_is_add. apply add_closed; exact Hpt.
Qed.

(* ---- Add ---- *)
Definition jadd_h (a b : jpt) : Z :=
  let '(x1, y1, z1) := a in let '(x2, y2, z2) := b in
  fsub (fmul x2 (fmul z1 z1)) (fmul x1 (fmul z2 z2)).
Definition jadd_t (a b : jpt) : Z :=
  let '(x1, y1, z1) := a in let '(x2, y2, z2) := b in
  fsub (fmul y2 (fmul z1 (fmul z1 z1))) (fmul y1 (fmul z2 (fmul z2 z2))).

Lemma jadd_inf_l X Y b : jadd (X, Y, 0) b = b.
Proof. reflexivity. Qed.
Lemma jadd_inf_r X1 Y1 Z1 X Y : Z1 <> 0 -> jadd (X1, Y1, Z1) (X, Y, 0) = (X1, Y1, Z1).
Proof. intro H. unfold jadd, j_is_inf. destruct (Z.eqb_spec Z1 0); [contradiction|]. reflexivity. Qed.

Lemma jadd_fin X1 Y1 Z1 X2 Y2 Z2 : Z1 <> 0 -> Z2 <> 0 ->
  let A := (X1, Y1, Z1) in let B := (X2, Y2, Z2) in
  (jadd_h A B = 0 -> jadd_t A B = 0 -> jadd A B = jdouble A) /\
  (jadd_h A B = 0 -> jadd_t A B <> 0 -> snd (jadd A B) = 0) /\
  (~ (jadd_h A B = 0 /\ jadd_t A B = 0) ->
   let '(a, b, c) := jadd A B in 0 <= a < P /\ 0 <= b < P /\ 0 <= c < P).
Proof.
  intros H1 H2 A B. subst A B. unfold jadd, j_is_inf, jadd_h, jadd_t.
  destruct (Z.eqb_spec Z1 0); [contradiction|]. destruct (Z.eqb_spec Z2 0); [contradiction|]. cbv zeta.
  set (h := fsub (fmul X2 (fmul Z1 Z1)) (fmul X1 (fmul Z2 Z2))).
  set (t := fsub (fmul Y2 (fmul Z1 (fmul Z1 Z1))) (fmul Y1 (fmul Z2 (fmul Z2 Z2)))).
  split; [|split].
  - intros -> ->. reflexivity.
  - intros -> Ht. destruct (Z.eqb_spec t 0); [contradiction|]. cbn [andb snd]. apply fmul_0_r'.
  - intro Hn. destruct (Z.eqb_spec h 0) as [Eh|Nh]; destruct (Z.eqb_spec t 0) as [Et|Nt]; cbn [andb];
      try (exfalso; apply Hn; split; assumption);
      (split; [apply fsub_range | split; [apply fsub_range | apply fmul_range]]).
Qed.

Lemma jadd_ht X1 Y1 Z1 X2 Y2 Z2 x1 y1 x2 y2 :
  jrep (X1, Y1, Z1) x1 y1 -> jrep (X2, Y2, Z2) x2 y2 ->
  eqP (jadd_h (X1, Y1, Z1) (X2, Y2, Z2)) ((x2 - x1) * (Z1 * Z2 * (Z1 * Z2))) /\
  eqP (jadd_t (X1, Y1, Z1) (X2, Y2, Z2)) ((y2 - y1) * (Z1 * Z2 * (Z1 * Z2) * (Z1 * Z2))).
Proof.
  intros (_ & HX1 & HY1) (_ & HX2 & HY2). unfold jadd_h, jadd_t.
  set (h := fsub (fmul X2 (fmul Z1 Z1)) (fmul X1 (fmul Z2 Z2))).
  assert (Eh : eqP h (X2 * (Z1 * Z1) - X1 * (Z2 * Z2))) by (unfold h; feq).
  set (t := fsub (fmul Y2 (fmul Z1 (fmul Z1 Z1))) (fmul Y1 (fmul Z2 (fmul Z2 Z2)))).
  assert (Et : eqP t (Y2 * (Z1 * (Z1 * Z1)) - Y1 * (Z2 * (Z2 * Z2)))) by (unfold t; feq).
  clearbody h t. split; [clear - HX1 HX2 Eh; nsatzP | clear - HY1 HY2 Et; nsatzP].
Qed.

Lemma eqP_diff_0 a b : 0 <= a < P -> 0 <= b < P -> (eqP (b - a) 0 <-> a = b).
Proof.
  intros Ha Hb. split.
  - intro E. symmetry. apply reduced_eq; auto. apply eqP_sub_0. exact E.
  - intros ->. rewrite Z.sub_diag. reflexivity.
Qed.

(* Add on well-formed values is the affine addition, in every case *)
Lemma jadd_val J1 J2 : jok J1 -> jok J2 ->
  jok (jadd J1 J2) /\ j_to_g1 (jadd J1 J2) = g1_add (j_to_g1 J1) (j_to_g1 J2).
Proof.
  destruct J1 as [[X1 Y1] Z1], J2 as [[X2 Y2] Z2]. intros K1 K2.
  assert (Goal2 : (jadd (X1, Y1, Z1) (X2, Y2, Z2) = (X2, Y2, Z2) \/ jadd (X1, Y1, Z1) (X2, Y2, Z2) = (X1, Y1, Z1) \/
                   jadd (X1, Y1, Z1) (X2, Y2, Z2) = jdouble (X1, Y1, Z1) \/
                   (let '(a, b, c) := jadd (X1, Y1, Z1) (X2, Y2, Z2) in 0 <= a < P /\ 0 <= b < P /\ 0 <= c < P)) /\
                  j_to_g1 (jadd (X1, Y1, Z1) (X2, Y2, Z2)) = g1_add (j_to_g1 (X1, Y1, Z1)) (j_to_g1 (X2, Y2, Z2))).
  { destruct K1 as (HX1 & HY1 & HZ1 & Hp1). destruct K2 as (HX2 & HY2 & HZ2 & Hp2).
    destruct (Z.eq_dec Z1 0) as [E1|N1].
    { subst Z1. rewrite jadd_inf_l. split; [left; reflexivity|]. symmetry. apply add_inf_l. }
    destruct (Z.eq_dec Z2 0) as [E2|N2].
    { subst Z2. rewrite (jadd_inf_r X1 Y1 Z1 X2 Y2 N1). split; [right; left; reflexivity|]. symmetry. apply add_inf_r. }
    destruct (j_to_g1_rep X1 Y1 Z1 HZ1 N1) as (x1 & y1 & E1 & Hx1 & Hy1 & R1).
    destruct (j_to_g1_rep X2 Y2 Z2 HZ2 N2) as (x2 & y2 & E2 & Hx2 & Hy2 & R2).
    rewrite E1, E2 in *.
    destruct (jadd_ht _ _ _ _ _ _ _ _ _ _ R1 R2) as [Hh Ht].
    destruct (jadd_fin X1 Y1 Z1 X2 Y2 Z2 N1 N2) as (F1 & F2 & F3).
    set (h := jadd_h (X1, Y1, Z1) (X2, Y2, Z2)) in *. set (t := jadd_t (X1, Y1, Z1) (X2, Y2, Z2)) in *.
    assert (Rh : 0 <= h < P) by (unfold h, jadd_h; apply fsub_range).
    assert (Rt : 0 <= t < P) by (unfold t, jadd_t; apply fsub_range).
    pose proof (reduced_neq0 Z1 HZ1 N1) as NZ1. pose proof (reduced_neq0 Z2 HZ2 N2) as NZ2.
    assert (NW : ~ eqP (Z1 * Z2) 0) by (apply neq0_mul; assumption).
    assert (Hh0 : h = 0 <-> x1 = x2).
    { rewrite <- (eqP_diff_0 x1 x2 Hx1 Hx2), <- (eqP_reduced_0 h Rh). split; intro Q.
      - assert (Q' : eqP ((x2 - x1) * (Z1 * Z2 * (Z1 * Z2))) 0) by (etransitivity; [symmetry; exact Hh | exact Q]).
        apply eqP_mul_0 in Q'. destruct Q' as [Q'|Q']; [exact Q'|].
        apply eqP_mul_0 in Q'. destruct Q'; contradiction.
      - etransitivity; [exact Hh|]. clear - Q. nsatzP. }
    assert (Ht0 : t = 0 <-> y1 = y2).
    { rewrite <- (eqP_diff_0 y1 y2 Hy1 Hy2), <- (eqP_reduced_0 t Rt). split; intro Q.
      - assert (Q' : eqP ((y2 - y1) * (Z1 * Z2 * (Z1 * Z2) * (Z1 * Z2))) 0) by (etransitivity; [symmetry; exact Ht | exact Q]).
        apply eqP_mul_0 in Q'. destruct Q' as [Q'|Q']; [exact Q'|].
        apply eqP_mul_0 in Q'. destruct Q' as [Q'|Q']; [|contradiction].
        apply eqP_mul_0 in Q'. destruct Q'; contradiction.
      - etransitivity; [exact Ht|]. clear - Q. nsatzP. }
    cbn [g1_add].
    destruct (Z.eqb_spec x1 x2) as [Ex|Nx].
    - assert (h = 0) by (apply Hh0; exact Ex).
      destruct (Z.eqb_spec y1 y2) as [Ey|Ny].
      + assert (t = 0) by (apply Ht0; exact Ey). rewrite (F1 H H0). split; [right; right; left; reflexivity|].
        destruct (jdouble_val (X1, Y1, Z1)) as [_ D]; [cbn [jok]; rewrite E1; tauto|]. rewrite D, E1. reflexivity.
      + assert (t <> 0) by (rewrite Ht0; exact Ny). pose proof (F2 H H0) as Hz.
        assert (Hn : ~ (h = 0 /\ t = 0)) by tauto. specialize (F3 Hn).
        destruct (jadd (X1, Y1, Z1) (X2, Y2, Z2)) as [[a b] c]. cbn [snd] in Hz. subst c.
        split; [right; right; right; exact F3 | reflexivity].
    - assert (Nh : h <> 0) by (rewrite Hh0; exact Nx).
      assert (Hn : ~ (h = 0 /\ t = 0)) by tauto. specialize (F3 Hn).
      (* the affine chord slope *)
      assert (Nd : ~ eqP (x2 - x1) 0) by (rewrite (eqP_diff_0 x1 x2 Hx1 Hx2); exact Nx).
      assert (Hd : eqP (fsub x2 x1) (x2 - x1)) by feq.
      assert (Nd1 : ~ eqP (fsub x2 x1) 0) by (intro Q; apply Nd; etransitivity; [symmetry; exact Hd | exact Q]).
      pose proof (finv_spec _ Nd1) as Hi.
      assert (Hi' : eqP (finv (fsub x2 x1) * (x2 - x1)) 1)
        by (etransitivity; [apply mul_eqP; [reflexivity | symmetry; exact Hd] | exact Hi]).
      set (iv := finv (fsub x2 x1)) in *. clearbody iv.
      set (l := fmul (fsub y2 y1) iv).
      assert (Hl : eqP l ((y2 - y1) * iv)) by (unfold l; feq).
      assert (Hl2 : eqP (l * (x2 - x1)) (y2 - y1)) by (clearbody l; clear - Hl Hi'; nsatzP).
      pose proof (jadd_rep X1 Y1 Z1 X2 Y2 Z2 x1 y1 x2 y2 l R1 R2 Nd Hl2 HZ1 HZ2) as Hr.
      destruct (jadd (X1, Y1, Z1) (X2, Y2, Z2)) as [[a b] c]. destruct F3 as (Ra & Rb & Rc).
      split; [right; right; right; tauto|].
      apply j_to_g1_of_rep; [exact Rc | apply fsub_range | apply fsub_range |].
      eapply jrep_eqP; [| | exact Hr]; symmetry; feq. }
  destruct Goal2 as [G1 G2]. split; [|exact G2].
  assert (Hpt : g1_pt (j_to_g1 (jadd (X1, Y1, Z1) (X2, Y2, Z2)))).
  { rewrite G2. apply add_closed; [destruct K1 as (_ & _ & _ & Q) | destruct K2 as (_ & _ & _ & Q)]; exact Q. }
  destruct G1 as [G|[G|[G|G]]].
  - rewrite G in *. exact K2.
  - rewrite G in *. exact K1.
  - rewrite G in *. apply (jdouble_val (X1, Y1, Z1) K1).
  - destruct (jadd (X1, Y1, Z1) (X2, Y2, Z2)) as [[a b] c]. cbn [jok]. tauto.
Qed.

Transparent fmul fadd fsub.

(* the double-and-add loop, abstractly: the scalar a bit list denotes *)
Fixpoint bits_val (bits : list bool) (n : nat) : nat :=
  match bits with
  | [] => n
  | b :: r => bits_val r (n + n + (if b then 1 else 0))
  end.

Lemma pos_bits_val p : forall acc, bits_val (pos_bits p acc) 0 = bits_val acc (Pos.to_nat p).
Proof.
  induction p as [q IH|q IH|]; intro acc; cbn [pos_bits].
  - rewrite IH. cbn [bits_val]. f_equal. rewrite Pos2Nat.inj_xI. lia.
  - rewrite IH. cbn [bits_val]. f_equal. rewrite Pos2Nat.inj_xO. lia.
  - reflexivity.
Qed.

Section AssumingAssoc.
  (* THE hypothesis: the affine chord-and-tangent law is associative on curve points *)
  Hypothesis g1_add_assoc : forall a b c, g1_pt a -> g1_pt b -> g1_pt c ->
    g1_add (g1_add a b) c = g1_add a (g1_add b c).

  (* k*P by repeated addition is additive and multiplicative in k *)
  Lemma mul_nat_add m n a : g1_pt a -> g1_mul_nat (m + n) a = g1_add (g1_mul_nat m a) (g1_mul_nat n a).
  Proof.
    intro Ha. induction n as [|n IH].
    - rewrite Nat.add_0_r. cbn [g1_mul_nat]. symmetry. apply add_inf_r.
    - rewrite Nat.add_succ_r. cbn [g1_mul_nat]. rewrite IH.
      apply g1_add_assoc; auto using mul_nat_closed.
  Qed.

  Lemma mul_nat_mul m n a : g1_pt a -> g1_mul_nat (m * n) a = g1_mul_nat m (g1_mul_nat n a).
  Proof.
    intro Ha. induction m as [|m IH]; [reflexivity|].
    cbn [Nat.mul g1_mul_nat]. rewrite mul_nat_add by exact Ha. rewrite IH.
    apply add_comm; auto using mul_nat_closed.
  Qed.

  Variables (x y : Z).
  Hypothesis Hp : g1_pt (G1Aff x y).
  Let Pt := G1Aff x y.

  Lemma jmul_bits_val bits : forall sum n, jok sum -> j_to_g1 sum = g1_mul_nat n Pt ->
    jok (jmul_bits bits (x, y, 1) sum) /\ j_to_g1 (jmul_bits bits (x, y, 1) sum) = g1_mul_nat (bits_val bits n) Pt.
  Proof.
    assert (Ka : jok (x, y, 1) /\ j_to_g1 (x, y, 1) = Pt).
    { destruct Hp as (Hx & Hy & Hc). pose proof P_gt1.
      assert (E : j_to_g1 (x, y, 1) = Pt).
      { apply j_to_g1_of_rep; try lia; auto. cbn [jrep]. split; [|split].
        - intro Q. unfold eqP in Q. rewrite Z.mod_1_l, Z.mod_0_l in Q by lia. discriminate.
        - unfold eqP. f_equal. ring.
        - unfold eqP. f_equal. ring. }
      split; [|exact E]. cbn [jok]. rewrite E. repeat split; auto; lia. }
    destruct Ka as [Ka Ea].
    induction bits as [|b r IH]; intros sum n Ks Es; cbn [jmul_bits bits_val]; [tauto|].
    destruct (jdouble_val sum Ks) as [Kd Ed].
    assert (Ed' : j_to_g1 (jdouble sum) = g1_mul_nat (n + n) Pt).
    { rewrite Ed, Es, double_is_add. symmetry. apply mul_nat_add. exact Hp. }
    destruct b.
    - destruct (jadd_val (jdouble sum) (x, y, 1) Kd Ka) as [Kadd Eadd].
      apply IH; [exact Kadd|]. rewrite Eadd, Ed', Ea.
      replace (n + n + 1)%nat with (S (n + n)) by lia. reflexivity.
    - apply IH; [exact Kd|]. rewrite Ed'. f_equal. lia.
  Qed.

  (* curve.go's Mul on a positive scalar is k*P *)
  Theorem scalar_mult_pos k : g1_scalar_mult (Zpos k) Pt = g1_mul_nat (Pos.to_nat k) Pt.
  Proof.
    cbn [g1_scalar_mult Pt jmul].
    assert (K0 : jok jinf) by (cbn; pose proof P_gt1; repeat split; lia).
    destruct (jmul_bits_val (false :: pos_bits k []) jinf 0 K0 eq_refl) as [_ E].
    rewrite E. f_equal. cbn [bits_val]. rewrite pos_bits_val. reflexivity.
  Qed.
End AssumingAssoc.

(* k*P for an integer k >= 0 *)
Definition zmul (k : Z) (a : g1) : g1 := g1_mul_nat (Z.to_nat k) a.

Lemma zmul_inf k : zmul k G1Inf = G1Inf.
Proof. apply mul_nat_inf. Qed.

Section AssumingAssoc2.
  Hypothesis g1_add_assoc : forall a b c, g1_pt a -> g1_pt b -> g1_pt c ->
    g1_add (g1_add a b) c = g1_add a (g1_add b c).

  Lemma zmul_closed k a : g1_pt a -> g1_pt (zmul k a).
  Proof. apply mul_nat_closed. Qed.

  Lemma zmul_add a b Q : 0 <= a -> 0 <= b -> g1_pt Q -> zmul (a + b) Q = g1_add (zmul a Q) (zmul b Q).
  Proof. intros Ha Hb HQ. unfold zmul. rewrite Z2Nat.inj_add by lia. apply mul_nat_add; assumption. Qed.

  Lemma zmul_mul a b Q : 0 <= a -> 0 <= b -> g1_pt Q -> zmul (a * b) Q = zmul a (zmul b Q).
  Proof. intros Ha Hb HQ. unfold zmul. rewrite Z2Nat.inj_mul by lia. apply mul_nat_mul; assumption. Qed.

  (* Sign / G1.ScalarMult as the code computes it is k*P *)
  Theorem scalar_mult_is_zmul k Q : 0 < k -> g1_pt Q -> g1_scalar_mult k Q = zmul k Q.
  Proof.
    intros Hk HQ. destruct k as [|p|p]; try lia. destruct Q as [| |x y]; [destruct HQ | |].
    - cbn [g1_scalar_mult]. unfold zmul. symmetry. apply mul_nat_inf.
    - unfold zmul. rewrite Z2Nat.inj_pos. apply scalar_mult_pos; assumption.
  Qed.

  (* the generator has order R: R*g1 = O (computed), hence scalars act modulo R *)
  Lemma zmul_R_gen : zmul R gen = G1Inf.
  Proof. rewrite <- scalar_mult_is_zmul; [exact order_times_gen | reflexivity | exact gen_pt]. Qed.

  Lemma zmul_mod k : 0 <= k -> zmul k gen = zmul (k mod R) gen.
  Proof.
    intro Hk. assert (HR : 0 < R) by reflexivity.
    rewrite (Z.div_mod k R) at 1 by lia.
    pose proof (Z.mod_pos_bound k R HR). pose proof (Z.div_pos k R Hk HR).
    rewrite zmul_add by (try apply Z.mul_nonneg_nonneg; lia || exact gen_pt).
    rewrite (Z.mul_comm R), zmul_mul by (lia || exact gen_pt).
    rewrite zmul_R_gen, zmul_inf. apply add_inf_l.
  Qed.

  (* cancellation *)
  Lemma add_cancel_r X Y : g1_pt X -> g1_pt Y -> g1_add X Y = Y -> X = G1Inf.
  Proof.
    intros HX HY E. transitivity (g1_add X (g1_add Y (g1_neg Y))).
    { rewrite (add_neg Y HY). symmetry. apply add_inf_r. }
    rewrite <- g1_add_assoc by auto using neg_closed. rewrite E. apply add_neg. exact HY.
  Qed.

  (* the order of the generator is exactly R (R is prime and g1 is not the identity) *)
  Lemma zmul_gen_inj a b : 0 <= a < R -> 0 <= b < R -> zmul a gen = zmul b gen -> a = b.
  Proof.
    assert (W : forall a b, 0 <= a < b -> b < R -> zmul a gen = zmul b gen -> False).
    { clear a b. intros a b Hab HbR E.
      set (d := b - a). assert (Hd : 0 < d < R) by (unfold d; lia).
      assert (Ed : zmul d gen = G1Inf).
      { apply (add_cancel_r _ (zmul a gen)); try apply zmul_closed; try exact gen_pt.
        rewrite <- zmul_add by (unfold d; lia || exact gen_pt). replace (d + a) with b by (unfold d; lia).
        symmetry. exact E. }
      (* u*d = 1 + w*R with u, w >= 0 *)
      assert (RP : rel_prime d R).
      { apply rel_prime_sym. apply prime_rel_prime; [exact R_prime|]. intro D.
        apply Z.divide_pos_le in D; lia. }
      destruct (rel_prime_bezout _ _ RP) as [u v Huv].
      set (u' := u mod R). assert (HR : 0 < R) by reflexivity.
      pose proof (Z.mod_pos_bound u R HR) as Hu'.
      assert (M : (u' * d) mod R = 1).
      { unfold u'. rewrite Z.mul_mod_idemp_l by lia.
        replace (u * d) with (1 + (- v) * R) by lia. rewrite Z.mod_add by lia. apply Z.mod_1_l. lia. }
      pose proof (Z.div_mod (u' * d) R ltac:(lia)) as DM. rewrite M in DM.
      assert (Hq : 0 <= (u' * d) / R) by (apply Z.div_pos; [apply Z.mul_nonneg_nonneg; lia | lia]).
      set (q := (u' * d) / R) in *.
      assert (E1 : zmul (u' * d) gen = G1Inf).
      { rewrite zmul_mul by (lia || exact gen_pt). rewrite Ed. apply zmul_inf. }
      assert (E2 : zmul (u' * d) gen = gen).
      { rewrite DM. rewrite zmul_add by (try apply Z.mul_nonneg_nonneg; lia || exact gen_pt).
        rewrite (Z.mul_comm R), zmul_mul by (lia || exact gen_pt). rewrite zmul_R_gen, zmul_inf.
        rewrite add_inf_l. unfold zmul. change (Z.to_nat 1) with 1%nat. apply mul_nat_1. }
      rewrite E1 in E2. discriminate. }
    intros Ha Hb E. destruct (Z.lt_trichotomy a b) as [L|[Q|L]]; [exfalso|exact Q|exfalso].
    - apply (W a b); auto; lia.
    - apply (W b a); auto; lia.
  Qed.

  (* Sign(sk, m) with H(m) = h*g1 is the element whose discrete logarithm is sk*h mod R: the
     exponent-layer signature [sign_exp]; the key sk*g... the exponent layer IS the curve layer *)
  Theorem sign_is_sign_exp sk h : 0 < sk -> 0 <= h ->
    g1_scalar_mult sk (zmul h gen) = zmul (sign_exp R sk h) gen.
  Proof.
    intros Hs Hh. rewrite scalar_mult_is_zmul by (auto; apply zmul_closed, gen_pt).
    rewrite <- zmul_mul by (lia || exact gen_pt). unfold sign_exp, zr. apply zmul_mod.
    apply Z.mul_nonneg_nonneg; lia.
  Qed.

  (* the map a |-> (a mod R)*g1 identifies Z_R with the subgroup generated by g1 *)
  Definition exp_g1 (a : Z) : g1 := zmul (a mod R) gen.
  Lemma exp_g1_eq a b : exp_g1 a = exp_g1 b <-> a mod R = b mod R.
  Proof.
    assert (HR : 0 < R) by reflexivity. unfold exp_g1. split.
    - apply zmul_gen_inj; apply Z.mod_pos_bound; exact HR.
    - intros ->. reflexivity.
  Qed.
End AssumingAssoc2.

(* ---------- transfer of the uniqueness theorem to curve points ---------- *)
From V.C14 Require Import Proofs.

Section OnCurve.
  Hypothesis g1_add_assoc : forall a b c, g1_pt a -> g1_pt b -> g1_pt c ->
    g1_add (g1_add a b) c = g1_add a (g1_add b c).
  (* the pairing side stays abstract: a group G2 = <g2>, GT = <gt> of order R and a bilinear,
     non-degenerate pairing on <g1> x G2 *)
  Variables (A2 AT : Type) (exp2 : Z -> A2) (expT : Z -> AT) (pair : g1 -> A2 -> AT).
  Hypothesis expT_eq : forall a b, expT a = expT b <-> a mod R = b mod R.
  Hypothesis bilinear : forall a b, pair (exp_g1 a) (exp2 b) = expT (a * b).

  (* For pk = sk*g2 and H(m) = h*g1 the verification equation e(sigma, g2) = e(H(m), pk) holds, among
     the elements of <g1>, exactly for the point that Sign computes: ScalarMult(H(m), sk). *)
  Theorem unique_on_curve sk h sigma : 0 < sk -> (exists s, sigma = exp_g1 s) ->
    (pair sigma (exp2 1) = pair (exp_g1 h) (exp2 sk) <-> sigma = g1_scalar_mult sk (exp_g1 h)).
  Proof.
    intros Hs Hin.
    assert (HR : 1 < R) by reflexivity.
    assert (ES : g1_scalar_mult sk (exp_g1 h) = exp_g1 (sk * h)).
    { unfold exp_g1. rewrite (sign_is_sign_exp g1_add_assoc sk (h mod R) Hs) by (apply Z.mod_pos_bound; lia).
      unfold sign_exp, zr. rewrite Z.mul_mod_idemp_r by lia. reflexivity. }
    rewrite ES.
    exact (abstract_unique g1 A2 AT R exp_g1 exp2 expT (fun Q => exists s, Q = exp_g1 s) pair
             (exp_g1_eq g1_add_assoc) expT_eq (fun Q H => H) bilinear sk h sigma Hin).
  Qed.
End OnCurve.
