(* C14 — the base field F_P is a field (P is prime: Base/PrimeBn256Field, Fermat: Base/Pocklington) and
   the model's affine chord-and-tangent law on y^2 = x^3 + 3 is closed, has identity and inverses and is
   commutative.  Polynomial identities are discharged by [nsatz] over the integral domain (Z, = mod P).
   Associativity is NOT proved (the remaining gap of the group-law layer). *)
From Coq Require Import ZArith Znumtheory Lia Nsatz Setoid Morphisms Bool.
From V.Base Require Import Pocklington PrimeBn256Field PrimeBn256Order.
From V.C14 Require Import Model.
Local Open Scope Z_scope.

Lemma P_prime : prime P. Proof. exact bn256_field_prime. Qed.
Lemma R_prime : prime R. Proof. exact bn256_order_prime. Qed.
Lemma P_gt1 : 1 < P. Proof. reflexivity. Qed.
Lemma P_odd : P mod 2 = 1. Proof. vm_compute. reflexivity. Qed.

Definition eqP (a b : Z) : Prop := a mod P = b mod P.

#[global] Instance eqP_equiv : Equivalence eqP.
Proof. split; unfold eqP; congruence. Qed.

#[global] Instance Zp_ops : @Ring_ops Z 0 1 Z.add Z.mul Z.sub Z.opp eqP := {}.
#[global] Instance Zp_ring : Ring (Ro:=Zp_ops).
Proof.
  pose proof P_gt1.
  constructor; try exact eqP_equiv.
  - intros a b E c d F. change (a mod P = b mod P) in E. change (c mod P = d mod P) in F.
    change ((a + c) mod P = (b + d) mod P). rewrite Z.add_mod, E, F, <- Z.add_mod by lia. reflexivity.
  - intros a b E c d F. change (a mod P = b mod P) in E. change (c mod P = d mod P) in F.
    change ((a * c) mod P = (b * d) mod P). rewrite Z.mul_mod, E, F, <- Z.mul_mod by lia. reflexivity.
  - intros a b E c d F. change (a mod P = b mod P) in E. change (c mod P = d mod P) in F.
    change ((a - c) mod P = (b - d) mod P). rewrite Zminus_mod, E, F, <- Zminus_mod. reflexivity.
  - intros a b E. change (a mod P = b mod P) in E. change ((- a) mod P = (- b) mod P).
    rewrite <- (Z.sub_0_l a), <- (Z.sub_0_l b). rewrite Zminus_mod, E, <- Zminus_mod. reflexivity.
  - intros x. change ((0 + x) mod P = x mod P). f_equal; ring.
  - intros x y. change ((x + y) mod P = (y + x) mod P). f_equal; ring.
  - intros x y z. change ((x + (y + z)) mod P = (x + y + z) mod P). f_equal; ring.
  - intros x. change ((1 * x) mod P = x mod P). f_equal; ring.
  - intros x. change ((x * 1) mod P = x mod P). f_equal; ring.
  - intros x y z. change ((x * (y * z)) mod P = (x * y * z) mod P). f_equal; ring.
  - intros x y z. change (((x + y) * z) mod P = (x * z + y * z) mod P). f_equal; ring.
  - intros x y z. change ((z * (x + y)) mod P = (z * x + z * y) mod P). f_equal; ring.
  - intros x y. change ((x - y) mod P = (x + - y) mod P). f_equal; ring.
  - intros x. change ((x + - x) mod P = 0 mod P). f_equal; ring.
Qed.
#[global] Instance Zp_cring : Cring (Rr:=Zp_ring).
Proof. intros x y. change ((x * y) mod P = (y * x) mod P). f_equal. ring. Qed.

Lemma eqP_0 x : eqP x 0 <-> (P | x).
Proof. pose proof P_gt1. unfold eqP. rewrite Z.mod_0_l by lia. apply Z.mod_divide. lia. Qed.

Lemma eqP_mul_0 x y : eqP (x * y) 0 -> eqP x 0 \/ eqP y 0.
Proof. rewrite !eqP_0. apply prime_mult, P_prime. Qed.

#[global] Instance Zp_id : Integral_domain (Rcr:=Zp_cring).
Proof.
  pose proof P_gt1. constructor.
  - intros x y E. exact (eqP_mul_0 x y E).
  - intro E. change (1 mod P = 0 mod P) in E. rewrite Z.mod_0_l, Z.mod_1_l in E by lia. discriminate.
Qed.

(* ---- the model's operations compute in this field ---- *)
Lemma eqP_mod a : eqP (a mod P) a.
Proof. unfold eqP. apply Z.mod_mod. pose proof P_gt1. lia. Qed.

Lemma fmul_eqP a b a' b' : eqP a a' -> eqP b b' -> eqP (fmul a b) (a' * b').
Proof.
  intros H1 H2. unfold fmul. rewrite eqP_mod. unfold eqP in *. pose proof P_gt1.
  rewrite Z.mul_mod, H1, H2, <- Z.mul_mod by lia. reflexivity.
Qed.
Lemma fadd_eqP a b a' b' : eqP a a' -> eqP b b' -> eqP (fadd a b) (a' + b').
Proof.
  intros H1 H2. unfold fadd. rewrite eqP_mod. unfold eqP in *. pose proof P_gt1.
  rewrite Z.add_mod, H1, H2, <- Z.add_mod by lia. reflexivity.
Qed.
Lemma fsub_eqP a b a' b' : eqP a a' -> eqP b b' -> eqP (fsub a b) (a' - b').
Proof.
  intros H1 H2. unfold fsub. rewrite eqP_mod. unfold eqP in *.
  rewrite Zminus_mod, H1, H2, <- Zminus_mod. reflexivity.
Qed.
Lemma mul_eqP a b a' b' : eqP a a' -> eqP b b' -> eqP (a * b) (a' * b').
Proof.
  intros H1 H2. unfold eqP in *. pose proof P_gt1.
  rewrite Z.mul_mod, H1, H2, <- Z.mul_mod by lia. reflexivity.
Qed.
(* nsatz may need c <> 0 in F_P for a small integer constant c *)
Ltac nsatzP := nsatz; try (let E := fresh "E" in intro E; vm_compute in E; discriminate).
Ltac feq := repeat first [apply fmul_eqP | apply fsub_eqP | apply fadd_eqP | reflexivity | eassumption].

Lemma reduced_eq a b : eqP a b -> 0 <= a < P -> 0 <= b < P -> a = b.
Proof. unfold eqP. intros E Ha Hb. rewrite !Z.mod_small in E by lia. exact E. Qed.

Lemma fmul_range a b : 0 <= fmul a b < P. Proof. apply Z.mod_pos_bound. pose proof P_gt1; lia. Qed.
Lemma fsub_range a b : 0 <= fsub a b < P. Proof. apply Z.mod_pos_bound. pose proof P_gt1; lia. Qed.
Lemma fadd_range a b : 0 <= fadd a b < P. Proof. apply Z.mod_pos_bound. pose proof P_gt1; lia. Qed.

(* two reduced model values that are congruent are equal *)
Lemma mod_eq a b : eqP a b -> a mod P = b mod P. Proof. exact (fun H => H). Qed.

Lemma on_curve_eqP x y : on_curve x y = true <-> eqP (y * y) (x * x * x + (1 + 1 + 1)).
Proof.
  unfold on_curve. rewrite Z.eqb_eq.
  assert (A : eqP (fmul y y) (y * y)) by feq.
  assert (B : eqP (fadd (fmul (fmul x x) x) 3) (x * x * x + (1 + 1 + 1))) by (change (1 + 1 + 1) with 3; feq).
  split.
  - intro E. rewrite <- A, E. exact B.
  - intro E. apply reduced_eq; [|apply fmul_range|apply fadd_range]. rewrite A, E. symmetry. exact B.
Qed.

(* ---- inversion: a^(P-2) (gfp.go Invert = exp pMinus2), by Fermat ---- *)
Lemma fpow_pos_spec a q : fpow_pos a q = a ^ Zpos q mod P.
Proof.
  pose proof P_gt1.
  induction q as [q IH|q IH|]; cbn [fpow_pos].
  - rewrite IH. unfold fmul. rewrite Pos2Z.inj_xI.
    replace (2 * Z.pos q + 1) with (Z.pos q + Z.pos q + 1) by lia.
    rewrite !Z.pow_add_r, Z.pow_1_r by lia.
    rewrite <- Z.mul_mod by lia. rewrite Z.mul_mod_idemp_l by lia. reflexivity.
  - rewrite IH. unfold fmul. rewrite Pos2Z.inj_xO.
    replace (2 * Z.pos q) with (Z.pos q + Z.pos q) by lia.
    rewrite Z.pow_add_r by lia. rewrite <- Z.mul_mod by lia. reflexivity.
  - rewrite Z.pow_1_r. reflexivity.
Qed.

Lemma finv_spec a : ~ eqP a 0 -> eqP (finv a * a) 1.
Proof.
  intro Ha. unfold finv. change (P - 2) with (Zpos (Z.to_pos (P - 2))).
  unfold fpow. rewrite fpow_pos_spec. change (Zpos (Z.to_pos (P - 2))) with (P - 2).
  rewrite eqP_0 in Ha. pose proof (fermat_little_Z P P_prime a Ha) as F. pose proof P_gt1.
  unfold eqP. rewrite Z.mul_mod_idemp_l by lia.
  replace (a ^ (P - 2) * a) with (a ^ (P - 1)).
  - rewrite F. symmetry. apply Z.mod_1_l. lia.
  - replace (P - 1) with ((P - 2) + 1) by lia. rewrite Z.pow_add_r, Z.pow_1_r by (vm_compute; congruence). reflexivity.
Qed.

Opaque finv fpow.

Lemma eqP_sub_0 a b : eqP (a - b) 0 -> eqP a b.
Proof. intro H. nsatz. Qed.

(* ---- points ---- *)
Definition g1_pt (v : g1) : Prop :=
  match v with
  | G1Nil => False
  | G1Inf => True
  | G1Aff x y => 0 <= x < P /\ 0 <= y < P /\ on_curve x y = true
  end.

Lemma eqP_reduced_0 a : 0 <= a < P -> (eqP a 0 <-> a = 0).
Proof.
  intro H. unfold eqP. pose proof P_gt1. rewrite Z.mod_small, Z.mod_0_l by lia. tauto.
Qed.

(* doubling a curve point with y <> 0 gives a curve point *)
Lemma double_closed x y : g1_pt (G1Aff x y) -> g1_pt (g1_double (G1Aff x y)).
Proof.
  intros (Hx & Hy & Hc). cbn [g1_double].
  destruct (Z.eqb_spec y 0) as [->|Hy0]; [exact I|].
  cbn [g1_pt]. split; [apply fsub_range|]. split; [apply fsub_range|].
  apply on_curve_eqP in Hc. apply on_curve_eqP.
  assert (N2y : ~ eqP (fmul 2 y) 0).
  { intro E. assert (E' : eqP ((1 + 1) * y) 0) by (etransitivity; [symmetry; change (1 + 1) with 2; feq | exact E]).
    apply eqP_mul_0 in E'. destruct E' as [E'|E'].
    - unfold eqP in E'. vm_compute in E'. discriminate.
    - apply (eqP_reduced_0 y Hy) in E'. contradiction. }
  pose proof (finv_spec _ N2y) as Hi.
  assert (Hd : eqP (fmul 2 y) ((1 + 1) * y)) by (change (1 + 1) with 2; feq).
  assert (Hi' : eqP (finv (fmul 2 y) * ((1 + 1) * y)) 1)
    by (etransitivity; [apply mul_eqP; [reflexivity | symmetry; exact Hd] | exact Hi]).
  clear Hi. set (iv := finv (fmul 2 y)) in *. clearbody iv.
  set (l := fmul (fmul 3 (fmul x x)) iv).
  assert (Hl : eqP l ((1 + 1 + 1) * (x * x) * iv)) by (change (1 + 1 + 1) with 3; unfold l; feq).
  clearbody l.
  assert (Hl2 : eqP (l * ((1 + 1) * y)) ((1 + 1 + 1) * (x * x))) by nsatzP.
  set (x3 := fsub (fmul l l) (fmul 2 x)).
  assert (Hx3 : eqP x3 (l * l - (1 + 1) * x)) by (change (1 + 1) with 2; unfold x3; feq).
  set (y3 := fsub (fmul l (fsub x x3)) y).
  assert (Hy3 : eqP y3 (l * (x - x3) - y)) by (unfold y3; feq).
  clearbody x3 y3. clear Hl Hi' Hd N2y.
  nsatzP.
Qed.

Lemma chord_poly l x1 y1 x2 y2 :
  eqP (y1*y1) (x1*x1*x1 + (1+1+1)) -> eqP (y2*y2) (x2*x2*x2 + (1+1+1)) ->
  eqP (l * (x2 - x1)) (y2 - y1) -> ~ eqP (x2 - x1) 0 ->
  eqP ((l*(x1 - (l*l - x1 - x2)) - y1)*(l*(x1 - (l*l - x1 - x2)) - y1))
      ((l*l - x1 - x2)*(l*l - x1 - x2)*(l*l - x1 - x2) + (1+1+1)).
Proof.
  intros H1 H2 H3 Hd.
  assert (E : eqP ((x2 - x1) * ((l*(x1 - (l*l - x1 - x2)) - y1)*(l*(x1 - (l*l - x1 - x2)) - y1) -
                               ((l*l - x1 - x2)*(l*l - x1 - x2)*(l*l - x1 - x2) + (1+1+1)))) 0) by nsatz.
  apply eqP_mul_0 in E. destruct E as [E|E]; [contradiction|]. nsatz.
Qed.

(* the chord through two curve points with different x meets the curve again *)
Lemma chord_closed x1 y1 x2 y2 : g1_pt (G1Aff x1 y1) -> g1_pt (G1Aff x2 y2) -> x1 <> x2 ->
  g1_pt (g1_add (G1Aff x1 y1) (G1Aff x2 y2)).
Proof.
  intros (Hx1 & Hy1 & Hc1) (Hx2 & Hy2 & Hc2) Hne. cbn [g1_add].
  destruct (Z.eqb_spec x1 x2) as [E|_]; [contradiction|].
  cbn [g1_pt]. split; [apply fsub_range|]. split; [apply fsub_range|].
  apply on_curve_eqP in Hc1, Hc2. apply on_curve_eqP.
  assert (Nd : ~ eqP (fsub x2 x1) 0).
  { intro E. assert (E' : eqP (x2 - x1) 0) by (etransitivity; [symmetry; feq | exact E]).
    apply Hne. symmetry. apply reduced_eq; auto. apply eqP_sub_0. exact E'. }
  pose proof (finv_spec _ Nd) as Hi.
  assert (Hd : eqP (fsub x2 x1) (x2 - x1)) by feq.
  assert (Hi' : eqP (finv (fsub x2 x1) * (x2 - x1)) 1)
    by (etransitivity; [apply mul_eqP; [reflexivity | symmetry; exact Hd] | exact Hi]).
  assert (Nd' : ~ eqP (x2 - x1) 0) by (intro E; apply Nd; etransitivity; [exact Hd | exact E]).
  clear Hi. set (iv := finv (fsub x2 x1)) in *. clearbody iv.
  set (l := fmul (fsub y2 y1) iv).
  assert (Hl : eqP l ((y2 - y1) * iv)) by (unfold l; feq).
  clearbody l.
  assert (Hl2 : eqP (l * (x2 - x1)) (y2 - y1)) by nsatzP.
  set (x3 := fsub (fsub (fmul l l) x1) x2).
  assert (Hx3 : eqP x3 (l * l - x1 - x2)) by (unfold x3; feq).
  set (y3 := fsub (fmul l (fsub x1 x3)) y1).
  assert (Hy3 : eqP y3 (l * (x1 - x3) - y1)) by (unfold y3; feq).
  clearbody x3 y3. clear Hl Hi' Hd Nd.
  pose proof (chord_poly l x1 y1 x2 y2 Hc1 Hc2 Hl2 Nd') as Hp. clear Hc1 Hc2 Hl2 Nd'. nsatzP.
Qed.

(* closure of the whole law *)
Theorem add_closed a b : g1_pt a -> g1_pt b -> g1_pt (g1_add a b).
Proof.
  destruct a as [| |x1 y1], b as [| |x2 y2]; try (cbn [g1_pt g1_add]; tauto).
  intros Ha Hb. destruct (Z.eq_dec x1 x2) as [E|Hne]; [|apply chord_closed; assumption].
  cbn [g1_add]. subst x2. rewrite Z.eqb_refl.
  destruct (Z.eqb_spec y1 y2) as [E|_]; [|exact I].
  apply double_closed. exact Ha.
Qed.

Theorem neg_closed a : g1_pt a -> g1_pt (g1_neg a).
Proof.
  destruct a as [| |x y]; cbn [g1_pt g1_neg]; try tauto.
  intros (Hx & Hy & Hc). split; [exact Hx|]. split; [apply fsub_range|].
  apply on_curve_eqP in Hc. apply on_curve_eqP.
  assert (Hn : eqP (fsub 0 y) (0 - y)) by feq. set (ny := fsub 0 y) in *. clearbody ny. nsatzP.
Qed.

Theorem add_inf_l b : g1_add G1Inf b = b.
Proof. destruct b; reflexivity. Qed.
Theorem add_inf_r a : g1_add a G1Inf = a.
Proof. destruct a; reflexivity. Qed.

(* a + (-a) = O *)
Theorem add_neg a : g1_pt a -> g1_add a (g1_neg a) = G1Inf.
Proof.
  destruct a as [| |x y]; cbn [g1_pt g1_neg g1_add]; try tauto; try (intros _; reflexivity).
  intros (Hx & Hy & Hc). rewrite Z.eqb_refl.
  destruct (Z.eqb_spec y (fsub 0 y)) as [E|_]; [|reflexivity].
  cbn [g1_double]. destruct (Z.eqb_spec y 0) as [|Hy0]; [reflexivity|exfalso].
  (* y = -y mod P with 0 < y < P forces 2y = P, but P is odd *)
  unfold fsub in E. pose proof P_gt1.
  assert (Hm : (0 - y) mod P = P - y).
  { replace (0 - y) with ((P - y) + (-1) * P) by ring. rewrite Z.mod_add by lia. apply Z.mod_small. lia. }
  rewrite Hm in E. pose proof P_odd as Ho. assert (P = 2 * y) by lia.
  rewrite H0 in Ho. rewrite Z.mul_comm, Z.mod_mul in Ho by lia. discriminate.
Qed.

(* commutativity *)
Theorem add_comm a b : g1_pt a -> g1_pt b -> g1_add a b = g1_add b a.
Proof.
  destruct a as [| |x1 y1], b as [| |x2 y2]; cbn [g1_pt]; try tauto; try reflexivity.
  intros (Hx1 & Hy1 & Hc1) (Hx2 & Hy2 & Hc2). cbn [g1_add].
  destruct (Z.eqb_spec x1 x2) as [E|Hne].
  - subst x2. rewrite Z.eqb_refl.
    destruct (Z.eqb_spec y1 y2) as [E|Hn].
    + subst y2. rewrite Z.eqb_refl. reflexivity.
    + destruct (Z.eqb_spec y2 y1) as [E|_]; [congruence|reflexivity].
  - destruct (Z.eqb_spec x2 x1) as [E|_]; [congruence|].
    assert (Nd : ~ eqP (x2 - x1) 0).
    { intro E. apply Hne. symmetry. apply reduced_eq; auto. apply eqP_sub_0. exact E. }
    assert (Nd1 : ~ eqP (fsub x2 x1) 0) by (intro E; apply Nd; etransitivity; [symmetry; feq | exact E]).
    assert (Nd2 : ~ eqP (fsub x1 x2) 0).
    { intro E. apply Nd. assert (E' : eqP (x1 - x2) 0) by (etransitivity; [symmetry; feq | exact E]). nsatzP. }
    pose proof (finv_spec _ Nd1) as Hi1. pose proof (finv_spec _ Nd2) as Hi2.
    assert (Hd1 : eqP (fsub x2 x1) (x2 - x1)) by feq. assert (Hd2 : eqP (fsub x1 x2) (x1 - x2)) by feq.
    assert (Hi1' : eqP (finv (fsub x2 x1) * (x2 - x1)) 1)
      by (etransitivity; [apply mul_eqP; [reflexivity | symmetry; exact Hd1] | exact Hi1]).
    assert (Hi2' : eqP (finv (fsub x1 x2) * (x1 - x2)) 1)
      by (etransitivity; [apply mul_eqP; [reflexivity | symmetry; exact Hd2] | exact Hi2]).
    clear Hi1 Hi2 Nd1 Nd2 Hd1 Hd2.
    set (iv1 := finv (fsub x2 x1)) in *. set (iv2 := finv (fsub x1 x2)) in *. clearbody iv1 iv2.
    set (l1 := fmul (fsub y2 y1) iv1). set (l2 := fmul (fsub y1 y2) iv2).
    assert (Hl1 : eqP l1 ((y2 - y1) * iv1)) by (unfold l1; feq).
    assert (Hl2 : eqP l2 ((y1 - y2) * iv2)) by (unfold l2; feq).
    assert (A1 : eqP (l1 * (x2 - x1)) (y2 - y1)) by nsatzP.
    assert (A2 : eqP (l2 * (x2 - x1)) (y2 - y1)) by nsatzP.
    assert (El : eqP l1 l2).
    { assert (E : eqP ((x2 - x1) * (l1 - l2)) 0) by nsatzP.
      apply eqP_mul_0 in E. destruct E as [E|E]; [contradiction|]. nsatzP. }
    assert (El' : l1 = l2) by (apply reduced_eq; [exact El | apply fmul_range | apply fmul_range]).
    clearbody l1 l2. subst l2.
    set (x3 := fsub (fsub (fmul l1 l1) x1) x2). set (x3' := fsub (fsub (fmul l1 l1) x2) x1).
    assert (Hx3 : eqP x3 (l1 * l1 - x1 - x2)) by (unfold x3; feq).
    assert (Hx3' : eqP x3' (l1 * l1 - x2 - x1)) by (unfold x3'; feq).
    assert (Ex : x3 = x3') by (apply reduced_eq; [nsatz | apply fsub_range | apply fsub_range]).
    clearbody x3 x3'. subst x3'. f_equal.
    set (y3 := fsub (fmul l1 (fsub x1 x3)) y1). set (y3' := fsub (fmul l1 (fsub x2 x3)) y2).
    assert (Hy3 : eqP y3 (l1 * (x1 - x3) - y1)) by (unfold y3; feq).
    assert (Hy3' : eqP y3' (l1 * (x2 - x3) - y2)) by (unfold y3'; feq).
    apply reduced_eq; [|apply fsub_range|apply fsub_range]. clearbody y3 y3'. nsatzP.
Qed.

(* repeated addition stays on the curve; (k+1)a = ka + a, 1a = a *)
Theorem mul_nat_closed k a : g1_pt a -> g1_pt (g1_mul_nat k a).
Proof. intro H. induction k as [|k IH]; cbn [g1_mul_nat]; [exact I|]. apply add_closed; assumption. Qed.
Theorem mul_nat_1 a : g1_mul_nat 1 a = a.
Proof. cbn [g1_mul_nat]. apply add_inf_l. Qed.
Transparent finv fpow.
