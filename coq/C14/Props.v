(* C14 — property theorems only (statements + [exact]); proofs in Proofs.v / Harness.v. *)
From Coq Require Import List NArith ZArith Bool Znumtheory Lia.
From V.Base Require Import Hex BigEndian.
From V.C14 Require Import Model Bytes Proofs Text Curve Jacobian GenOrder Scalar Assoc HashCap Harness.
Import ListNotations.
Local Open Scope Z_scope.

(* ---- the algebra (group elements as discrete logarithms mod the group order r) ---- *)

(* For the key pk = sk*g2 and the hash point H(m) = h*g1, VerifySig accepts a group element exactly
   when it is sk*H(m) — and never the identity. Holds for every modulus r > 1. *)
Theorem C14_unique : forall r, 1 < r -> forall sk h s,
  verify_exp r (pub_exp r sk) h s = true <-> (s mod r = sign_exp r sk h /\ s mod r <> 0).
Proof. exact verify_exp_iff. Qed.
Print Assumptions C14_unique.

Theorem C14_identity_rejected : forall r pk h s, s mod r = 0 -> verify_exp r pk h s = false.
Proof. exact verify_exp_identity. Qed.
Print Assumptions C14_identity_rejected.

(* The honest signature of a non-zero key on a non-zero hash point verifies (r prime). *)
Theorem C14_complete : forall r, 1 < r -> prime r -> forall sk h, sk mod r <> 0 -> h mod r <> 0 ->
  verify_exp r (pub_exp r sk) h (sign_exp r sk h) = true.
Proof. exact verify_exp_complete. Qed.
Print Assumptions C14_complete.

(* Algebraically related candidates alpha*H(m) + beta*g1 (negation, sums with other signatures,
   multiples, shifts by generator multiples): unless (alpha, beta) = (sk, 0) the candidate verifies for
   at most one discrete logarithm h of H(m), i.e. accepting it reveals log H(m) (r prime). *)
Theorem C14_generic : forall r, 1 < r -> prime r -> forall sk alpha beta h1 h2,
  (alpha mod r <> sk mod r \/ beta mod r <> 0) ->
  verify_exp r (pub_exp r sk) h1 (alpha * h1 + beta) = true ->
  verify_exp r (pub_exp r sk) h2 (alpha * h2 + beta) = true ->
  h1 mod r = h2 mod r.
Proof. exact verify_exp_generic. Qed.
Print Assumptions C14_generic.

(* The node's group order R (bn256 Order) is prime (Base/PrimeBn256Order, Pocklington certificate): the
   two statements above without any hypothesis on the modulus. *)
Theorem C14_complete_bn256 : forall sk h, sk mod R <> 0 -> h mod R <> 0 ->
  verify_exp R (pub_exp R sk) h (sign_exp R sk h) = true.
Proof. exact (verify_exp_complete R eq_refl R_prime). Qed.
Theorem C14_generic_bn256 : forall sk alpha beta h1 h2,
  (alpha mod R <> sk mod R \/ beta mod R <> 0) ->
  verify_exp R (pub_exp R sk) h1 (alpha * h1 + beta) = true ->
  verify_exp R (pub_exp R sk) h2 (alpha * h2 + beta) = true ->
  h1 mod R = h2 mod R.
Proof. exact (verify_exp_generic R eq_refl R_prime). Qed.
Theorem C14_unique_bn256 : forall sk h s,
  verify_exp R (pub_exp R sk) h s = true <-> (s mod R = sign_exp R sk h /\ s mod R <> 0).
Proof. exact (verify_exp_iff R eq_refl). Qed.
Print Assumptions C14_generic_bn256.

(* The same uniqueness in any three cyclic groups of order r with a bilinear, non-degenerate pairing
   (the pairing sends the pair of generators to a generator). *)
Theorem C14_unique_abstract :
  forall (A1 A2 AT : Type) (r : Z) (exp1 : Z -> A1) (exp2 : Z -> A2) (expT : Z -> AT)
         (in1 : A1 -> Prop) (pair : A1 -> A2 -> AT),
  (forall a b, exp1 a = exp1 b <-> a mod r = b mod r) ->
  (forall a b, expT a = expT b <-> a mod r = b mod r) ->
  (forall Q, in1 Q -> exists a, Q = exp1 a) ->
  (forall a b, pair (exp1 a) (exp2 b) = expT (a * b)) ->
  forall sk h sigma, in1 sigma ->
  (pair sigma (exp2 1) = pair (exp1 h) (exp2 sk) <-> sigma = exp1 (sk * h)).
Proof. exact abstract_unique. Qed.
Print Assumptions C14_unique_abstract.

(* the hypotheses of the abstract statement are satisfiable: the integers mod r *)
Example C14_abstract_instance : forall r, 1 < r ->
  let ex := fun a : Z => a mod r in
  (forall a b, ex a = ex b <-> a mod r = b mod r) /\
  (forall Q, (0 <= Q < r) -> exists a, Q = ex a) /\
  (forall a b, (fun x y => (x * y) mod r) (ex a) (ex b) = ex (a * b)).
Proof.
  intros r Hr ex. unfold ex. repeat split; try tauto.
  - intros Q HQ. exists Q. symmetry. apply Z.mod_small. exact HQ.
  - intros a b. symmetry. apply Z.mul_mod. lia.
Qed.

(* ---- the byte layer (the code as it is after the three `fix:` commits) ---- *)

(* Signatures survive Serialize / Deserialize. *)
Theorem C14_sig_roundtrip : forall v, g1_wf v -> sig_deserialize (sig_serialize v) = (v, false).
Proof. exact sig_roundtrip. Qed.
Print Assumptions C14_sig_roundtrip.

(* Whatever Signature.Deserialize accepts is byte for byte the serialization of the value it returns:
   no trailing bytes, no unreduced coordinates, a point of the curve. *)
Theorem C14_sig_exact : forall b v, bytes_ok b -> sig_deserialize b = (v, false) -> b = sig_serialize v /\ g1_wf v.
Proof. exact sig_exact. Qed.
Print Assumptions C14_sig_exact.

Theorem C14_pk_roundtrip : forall v, g2_wf v -> v <> G2Inf -> pk_deserialize (g2_marshal v) = Ok v.
Proof. exact pk_roundtrip. Qed.
Print Assumptions C14_pk_roundtrip.

Theorem C14_pk_exact : forall b v, bytes_ok b -> pk_deserialize b = Ok v -> v <> G2Inf -> b = g2_marshal v /\ g2_wf v.
Proof. exact pk_exact. Qed.
Print Assumptions C14_pk_exact.

(* Node level: DeserializeSign + ByteToPublicKey + VerifySig, with the pairing equation deciding as
   C14_unique says (true exactly for the key hpk and its one signature hs): a pair of byte strings is
   accepted iff it is exactly the encoding of that key and that signature. Truncated, over-long,
   bit-flipped, aliased, off-curve, identity and nil inputs are all on the "false" side. *)
Theorem C14_accept_iff_honest_encoding : forall hpk hs pkb sb,
  bytes_ok pkb -> bytes_ok sb -> g2_wf hpk -> hpk <> G2Inf -> g1_wf hs -> hs <> G1Inf ->
  (verify_bytes hpk hs pkb sb = true <-> pkb = g2_marshal hpk /\ sb = sig_serialize hs).
Proof. exact verify_bytes_iff. Qed.
Print Assumptions C14_accept_iff_honest_encoding.

(* The identity signature and the identity key are refused whatever the pairing says. *)
Theorem C14_identity_signature_refused : forall pe pk, verify_sig pe pk G1Inf = false.
Proof. exact verify_sig_identity. Qed.
Theorem C14_identity_key_refused : forall pe s, verify_sig pe G2Inf s = false.
Proof. exact verify_sig_identity_pk. Qed.
Print Assumptions C14_identity_key_refused.

(* scalars: secret keys and ids survive Serialize / Deserialize *)
Theorem C14_seckey_roundtrip : forall v, sk_deserialize (sk_serialize v) = v.
Proof. exact bev_beb. Qed.
Theorem C14_id_roundtrip : forall v b, id_serialize v = Some b -> id_deserialize b = v /\ length b = 32%nat.
Proof.
  intros v b. unfold id_serialize, id_deserialize.
  destruct (32 <? length (beb v))%nat eqn:E; [discriminate|]. intro H. inversion H; subst b.
  apply Nat.ltb_ge in E. split; [rewrite bev_pad_to; apply bev_beb | apply pad_to_length; exact E].
Qed.
Print Assumptions C14_id_roundtrip.

(* hash-to-point (try-and-increment, as modelled and compared with bn256 HashToPoint on real digests)
   returns a point of the curve, so H(m) is a legitimate G1 element; negation stays on the curve *)
Theorem C14_hash_on_curve : forall d, hash_to_g1 d <> G1Nil -> sig_is_valid (hash_to_g1 d) = true.
Proof. exact hash_to_g1_valid. Qed.
(* termination side: the search is not bounded a priori. More fuel never changes an answer already found,
   and for the digest of a concrete message 20 tries find nothing while the search succeeds after 21
   increments: a loop capped at 20 is a different (partial) function. *)
Theorem C14_hash_more_fuel : forall f g x r, hash_point f x = Some r -> hash_point (f + g) x = Some r.
Proof. exact hash_point_more_fuel. Qed.
Theorem C14_hash_cap_20_changes_function :
  hash_point 20 hard_x = None /\ exists y, hash_point 64 hard_x = Some (hard_x + 21, y).
Proof. exact cap_20_changes_the_hash. Qed.
Theorem C14_neg_on_curve : forall x y, on_curve x y = true -> on_curve x (fsub 0 y) = true.
Proof. exact neg_on_curve. Qed.
Print Assumptions C14_hash_on_curve.

(* hex text entry points (SetHexString): an accepted text is "0x" followed by exactly 128 (256) hex digits
   spelling the serialization of the returned value: no trailing digit, junk, sign, space or separator *)
Theorem C14_sig_hex_text_exact : forall s v, sig_set_hex s = (v, false) ->
  exists r, s = with_prefix r /\ String.length r = 128%nat /\ all_hex r = true /\ unhex r = sig_serialize v /\ g1_wf v.
Proof. exact sig_set_hex_exact. Qed.
Theorem C14_pk_hex_text_exact : forall s v, pk_set_hex s = Ok v -> v <> G2Inf ->
  exists r, s = with_prefix r /\ String.length r = 256%nat /\ all_hex r = true /\ unhex r = g2_marshal v /\ g2_wf v.
Proof. exact pk_set_hex_exact. Qed.
Print Assumptions C14_pk_hex_text_exact.
(* before fix 9e75567 a valid hex encoding followed by one more digit was read as the valid value *)
Theorem C14_hex_trailing_refuted :
  exists (s : String.string) (v : g1),
    sig_set_hex_old s = (v, false) /\ g1_wf v /\ s <> with_prefix (hex (sig_serialize v)) /\ sig_set_hex s = (G1Nil, true).
Proof. exact hex_trailing_refuted. Qed.

(* ---- the group G1 of the model: affine chord-and-tangent law on y^2 = x^3 + 3 over F_P, P prime
   (Base/PrimeBn256Field; inversion a^(P-2) by Fermat). Closed, identity, inverses, commutative.
   Associativity is not proved: it is the remaining gap of this layer (see props/C14.json). ---- *)
Theorem C14_field_inverse : forall a, a mod P <> 0 mod P -> (finv a * a) mod P = 1 mod P.
Proof. exact finv_spec. Qed.
Theorem C14_g1_add_closed : forall a b, g1_pt a -> g1_pt b -> g1_pt (g1_add a b).
Proof. exact add_closed. Qed.
Theorem C14_g1_neg_closed : forall a, g1_pt a -> g1_pt (g1_neg a).
Proof. exact neg_closed. Qed.
Theorem C14_g1_identity : forall a, g1_add G1Inf a = a /\ g1_add a G1Inf = a.
Proof. intro a. split; [apply add_inf_l | apply add_inf_r]. Qed.
Theorem C14_g1_inverse : forall a, g1_pt a -> g1_add a (g1_neg a) = G1Inf.
Proof. exact add_neg. Qed.
Theorem C14_g1_comm : forall a b, g1_pt a -> g1_pt b -> g1_add a b = g1_add b a.
Proof. exact add_comm. Qed.
Theorem C14_g1_mul_closed : forall k a, g1_pt a -> g1_pt (g1_mul_nat k a).
Proof. exact mul_nat_closed. Qed.
Print Assumptions C14_g1_comm.

(* curve.go's Jacobian formulas (modelled operation by operation, and compared with G1.ScalarMult / Sign on
   256-bit scalars every run) compute that affine law: one Double and one generic Add of representatives
   (X, Y, Z) ~ (X/Z^2, Y/Z^3) represent the affine double / chord sum. The whole double-and-add loop
   = repeated affine addition is NOT proved (needs associativity). *)
Theorem C14_jacobian_double : forall X Y Zc x y l,
  jrep (X, Y, Zc) x y -> ~ eqP y 0 -> eqP (l * ((1 + 1) * y)) ((1 + 1 + 1) * (x * x)) ->
  jrep (jdouble (X, Y, Zc)) (l * l - (1 + 1) * x) (l * (x - (l * l - (1 + 1) * x)) - y).
Proof. exact jdouble_rep. Qed.
Theorem C14_jacobian_add : forall X1 Y1 Z1 X2 Y2 Z2 x1 y1 x2 y2 l,
  jrep (X1, Y1, Z1) x1 y1 -> jrep (X2, Y2, Z2) x2 y2 -> ~ eqP (x2 - x1) 0 ->
  eqP (l * (x2 - x1)) (y2 - y1) -> 0 <= Z1 < P -> 0 <= Z2 < P ->
  jrep (jadd (X1, Y1, Z1) (X2, Y2, Z2)) (l * l - x1 - x2) (l * (x1 - (l * l - x1 - x2)) - y1).
Proof. exact jadd_rep. Qed.
Print Assumptions C14_jacobian_add.

(* ---- from the curve layer to the exponent layer. The ONLY hypothesis of the *_assuming_assoc theorems
   is associativity of the model's affine law on curve points (written out in each statement); the pairing
   side is abstract (bilinear, non-degenerate). ---- *)
Definition g1_assoc : Prop := forall a b c, g1_pt a -> g1_pt b -> g1_pt c ->
  g1_add (g1_add a b) c = g1_add a (g1_add b c).

(* Jacobian Double / Add (curve.go, all cases: infinity, equal points, opposite points, chord) compute the
   affine law on well-formed values — no hypothesis *)
Theorem C14_jacobian_double_all : forall J, jok J -> jok (jdouble J) /\ j_to_g1 (jdouble J) = g1_double (j_to_g1 J).
Proof. exact jdouble_val. Qed.
Theorem C14_jacobian_add_all : forall J1 J2, jok J1 -> jok J2 ->
  jok (jadd J1 J2) /\ j_to_g1 (jadd J1 J2) = g1_add (j_to_g1 J1) (j_to_g1 J2).
Proof. exact jadd_val. Qed.
(* R * g1 = O, by evaluating the model of the code's double-and-add — no hypothesis *)
Theorem C14_order_times_generator : g1_scalar_mult R gen = G1Inf.
Proof. exact order_times_gen. Qed.
Print Assumptions C14_jacobian_add_all.

(* k*P by repeated addition is a homomorphism in k *)
Theorem C14_scalar_add_assuming_assoc : g1_assoc -> forall a b Q, 0 <= a -> 0 <= b -> g1_pt Q ->
  zmul (a + b) Q = g1_add (zmul a Q) (zmul b Q).
Proof. exact zmul_add. Qed.
Theorem C14_scalar_mul_assuming_assoc : g1_assoc -> forall a b Q, 0 <= a -> 0 <= b -> g1_pt Q ->
  zmul (a * b) Q = zmul a (zmul b Q).
Proof. exact zmul_mul. Qed.
(* curve.go's double-and-add loop (the code of Sign) computes k*P *)
Theorem C14_double_and_add_assuming_assoc : g1_assoc -> forall k Q, 0 < k -> g1_pt Q ->
  g1_scalar_mult k Q = zmul k Q.
Proof. exact scalar_mult_is_zmul. Qed.
(* the generator has order exactly R: scalars act modulo R, and a*g1 = b*g1 only if a = b mod R *)
Theorem C14_order_assuming_assoc : g1_assoc -> forall k, 0 <= k -> zmul k gen = zmul (k mod R) gen.
Proof. exact zmul_mod. Qed.
Theorem C14_generator_injective_assuming_assoc : g1_assoc -> forall a b, exp_g1 a = exp_g1 b <-> a mod R = b mod R.
Proof. exact exp_g1_eq. Qed.
(* Sign(sk, m) with H(m) = h*g1 is the element with discrete logarithm sign_exp R sk h = sk*h mod R:
   the exponent layer (C14_unique, C14_complete_bn256, C14_generic_bn256) speaks about these curve points *)
Theorem C14_sign_is_exponent_assuming_assoc : g1_assoc -> forall sk h, 0 < sk -> 0 <= h ->
  g1_scalar_mult sk (zmul h gen) = zmul (sign_exp R sk h) gen.
Proof. exact sign_is_sign_exp. Qed.
(* ... and with a bilinear non-degenerate pairing on <g1> x G2 the verification equation holds, among the
   points of <g1>, exactly for the point Sign computes *)
Theorem C14_unique_on_curve_assuming_assoc : g1_assoc ->
  forall (A2 AT : Type) (exp2 : Z -> A2) (expT : Z -> AT) (pair : g1 -> A2 -> AT),
  (forall a b, expT a = expT b <-> a mod R = b mod R) ->
  (forall a b, pair (exp_g1 a) (exp2 b) = expT (a * b)) ->
  forall sk h sigma, 0 < sk -> (exists s, sigma = exp_g1 s) ->
  (pair sigma (exp2 1) = pair (exp_g1 h) (exp2 sk) <-> sigma = g1_scalar_mult sk (exp_g1 h)).
Proof. exact unique_on_curve. Qed.
Print Assumptions C14_unique_on_curve_assuming_assoc.

(* associativity itself: proved in the generic case (all four additions are chords) *)
Theorem C14_g1_assoc_generic : forall x1 y1 x2 y2 x3 y3,
  g1_pt (G1Aff x1 y1) -> g1_pt (G1Aff x2 y2) -> g1_pt (G1Aff x3 y3) ->
  x1 <> x2 -> x2 <> x3 ->
  xcoord (g1_add (G1Aff x1 y1) (G1Aff x2 y2)) <> Some x3 ->
  xcoord (g1_add (G1Aff x2 y2) (G1Aff x3 y3)) <> Some x1 ->
  g1_add (g1_add (G1Aff x1 y1) (G1Aff x2 y2)) (G1Aff x3 y3) =
  g1_add (G1Aff x1 y1) (g1_add (G1Aff x2 y2) (G1Aff x3 y3)).
Proof. exact assoc_generic. Qed.
Print Assumptions C14_g1_assoc_generic.

(* parsing is a function of the input only: a failed parse yields the invalid object, which never verifies
   (whatever a reused receiver held before); and in the exponent model an identity argument pairs to 1 *)
Theorem C14_parse_fail_invalid_sig : forall pe pk b v, sig_deserialize b = (v, true) -> verify_sig pe pk v = false.
Proof. exact parse_fail_invalid_sig. Qed.
Theorem C14_parse_fail_invalid_sig_hex : forall pe pk s v, sig_set_hex s = (v, true) -> verify_sig pe pk v = false.
Proof. exact parse_fail_invalid_sig_hex. Qed.
Theorem C14_parse_fail_invalid_pk : forall pe b s e, pk_deserialize b = Err e -> verify_sig pe (byte_to_pk b) s = false.
Proof. exact parse_fail_invalid_pk. Qed.
Theorem C14_pairing_identity_exp : forall r a, e_exp r a 0 = 0 /\ e_exp r 0 a = 0.
Proof. exact e_exp_identity. Qed.

Theorem C14_pairing_negation_exp : forall r a b, 0 < r ->
  (e_exp r a b + e_exp r a (- b)) mod r = 0 /\ (e_exp r a b + e_exp r (- a) b) mod r = 0.
Proof. exact e_exp_neg. Qed.

(* ---- the code before the fixes: the property was false (witnesses re-checked by the kernel) ---- *)
Theorem C14_overlong_refuted :
  exists (hs : g1) (b : bytes), g1_wf hs /\ b <> sig_serialize hs /\
    verify_sig_old (pairing_for_old some_pk' hs) some_pk' (fst (sig_deserialize_old g1_unmarshal_old b)) = true.
Proof. exact overlong_refuted. Qed.
Theorem C14_alias_refuted :
  exists (hs : g1) (b : bytes), g1_wf hs /\ length b = 64%nat /\ b <> sig_serialize hs /\
    verify_sig_old (pairing_for_old some_pk' hs) some_pk' (fst (sig_deserialize_old g1_unmarshal_old b)) = true.
Proof. exact alias_refuted. Qed.
Theorem C14_zero_key_refuted : forall hpk hs,
  verify_sig_old (pairing_for_old hpk hs) G2Inf (fst (sig_deserialize_old g1_unmarshal_old (repeat 0%N 64))) = true.
Proof. exact identity_refuted. Qed.
Print Assumptions C14_zero_key_refuted.

(* the cases files evaluate [check_fast]; a pass is a pass of the direct model evaluation *)
Theorem C14_fast_check_sound : forall c, check_fast c = true -> check c = true.
Proof. exact check_fast_sound. Qed.
Print Assumptions C14_fast_check_sound.

Lemma prime_5 : prime 5.
Proof.
  apply prime_intro; [lia|]. intros n Hn.
  assert (n = 1 \/ n = 2 \/ n = 3 \/ n = 4) as [-> | [-> | [-> | ->]]] by lia;
    apply Zgcd_1_rel_prime; vm_compute; reflexivity.
Qed.

(* Non-vacuity: the generator (1, -2) is a well-formed signature value; its encoding is accepted, the
   encoding followed by a byte, cut by a byte, with x+p for x, and the identity are not. *)
Example C14_example :
  let hs := G1Aff 1 (P - 2) in
  let hb := sig_serialize hs in
  sig_deserialize hb = (hs, false) /\
  sig_deserialize (hb ++ [0%N]) = (G1Nil, true) /\
  sig_deserialize (firstn 63 hb) = (G1Nil, true) /\
  sig_deserialize (be32 (1 + P) ++ be32 (P - 2)) = (G1Nil, true) /\
  verify_sig (pairing_for some_pk' hs) some_pk' (fst (sig_deserialize (repeat 0%N 64))) = false /\
  verify_sig (pairing_for some_pk' hs) some_pk' (fst (sig_deserialize hb)) = true /\
  prime 5 /\ verify_exp 5 (pub_exp 5 3) 2 (sign_exp 5 3 2) = true /\ verify_exp 5 (pub_exp 5 3) 2 4 = false.
Proof.
  cbv zeta. repeat (split; [vm_compute; reflexivity|]).
  split; [exact prime_5 | split; vm_compute; reflexivity].
Qed.
