(* C14 — the try-and-increment hash is not bounded a priori: more fuel never changes an answer already
   found, and there is a concrete message digest (sha256 of "c14-demo-" || 0x00000000000180b2, the witness
   of seeded/C14-8) for which 20 tries find nothing while the unbounded loop (fuel 64 in the model) finds
   the point after 21 increments.  So capping the loop at 20 changes the function.
   One-off evaluation: 22 modular square roots, about one minute of vm_compute. *)
From Coq Require Import ZArith List Lia String.
From V.Base Require Import Hex BigEndian.
From V.C14 Require Import Model.
Import ListNotations.
Local Open Scope Z_scope.

Lemma hash_point_split f : forall g x,
  hash_point (f + g) x = match hash_point f x with Some r => Some r | None => hash_point g (x + Z.of_nat f) end.
Proof.
  induction f as [|f IH]; intros g x.
  - cbn [hash_point Nat.add]. rewrite Z.add_0_r. reflexivity.
  - cbn [Nat.add]. cbn [hash_point]. destruct (fsqrt (fadd (fmul (fmul x x) x) 3)) as [y|]; [reflexivity|].
    rewrite IH. replace (x + 1 + Z.of_nat f) with (x + Z.of_nat (S f)) by lia. reflexivity.
Qed.

(* an answer found with some fuel is the answer with any larger fuel *)
Lemma hash_point_more_fuel f g x r : hash_point f x = Some r -> hash_point (f + g) x = Some r.
Proof. intro H. rewrite hash_point_split, H. reflexivity. Qed.

Definition hard_digest : bytes := unhex "77b9eb6cf70f80fabbae64d003d636e820692e9506fcdfbfe3ed8871c6078334"%string.
Definition hard_x : Z := bytesZ hard_digest mod P.

Lemma hard_20_none : hash_point 20 hard_x = None.
Proof. vm_compute. reflexivity. Qed.

Lemma hard_tail : exists y, hash_point 2 (hard_x + 20) = Some (hard_x + 21, y).
Proof. eexists. vm_compute. reflexivity. Qed.

(* a cap of 20 tries changes the function: 20 tries fail, the uncapped search succeeds *)
Theorem cap_20_changes_the_hash :
  hash_point 20 hard_x = None /\ exists y, hash_point 64 hard_x = Some (hard_x + 21, y).
Proof.
  split; [exact hard_20_none|]. destruct hard_tail as [y Hy]. exists y.
  change 64%nat with (20 + 44)%nat. rewrite hash_point_split, hard_20_none.
  change 44%nat with (2 + 42)%nat. change (Z.of_nat 20) with 20. exact (hash_point_more_fuel 2 42 _ _ Hy).
Qed.
