(* C14 — associativity of the affine law, GENERIC case: (a + b) + c = a + (b + c) when all four additions
   are chords (x1 <> x2, x2 <> x3, x(a+b) <> x3, x(b+c) <> x1).  Polynomial identity by nsatz over F_P with the
   inverses of the four denominators as extra variables.
   NOT proved: the degenerate cases (an operand or an intermediate sum is the identity; a = b, b = c,
   a + b = c, b + c = a (tangent steps); a + b = -c, b + c = -a).  They are the hypothesis of Scalar.v. *)
From Coq Require Import ZArith Lia Nsatz Bool.
From V.C14 Require Import Model Curve.
Local Open Scope Z_scope.

Opaque finv fpow.

(* what one chord addition computes, as congruences *)
Lemma chord_spec x1 y1 x2 y2 : 0 <= x1 < P -> 0 <= x2 < P -> x1 <> x2 ->
  exists i l x3 y3, g1_add (G1Aff x1 y1) (G1Aff x2 y2) = G1Aff x3 y3 /\ 0 <= x3 < P /\ 0 <= y3 < P /\
    eqP (i * (x2 - x1)) 1 /\ eqP l ((y2 - y1) * i) /\ eqP x3 (l * l - x1 - x2) /\ eqP y3 (l * (x1 - x3) - y1).
Proof.
  intros Hx1 Hx2 Hne. cbn [g1_add]. destruct (Z.eqb_spec x1 x2) as [|_]; [contradiction|].
  assert (Nd : ~ eqP (x2 - x1) 0).
  { intro E. apply Hne. symmetry. apply reduced_eq; auto. apply eqP_sub_0. exact E. }
  assert (Hd : eqP (fsub x2 x1) (x2 - x1)) by feq.
  assert (Nd1 : ~ eqP (fsub x2 x1) 0) by (intro Q; apply Nd; etransitivity; [symmetry; exact Hd | exact Q]).
  pose proof (finv_spec _ Nd1) as Hi.
  assert (Hi' : eqP (finv (fsub x2 x1) * (x2 - x1)) 1)
    by (etransitivity; [apply mul_eqP; [reflexivity | symmetry; exact Hd] | exact Hi]).
  exists (finv (fsub x2 x1)), (fmul (fsub y2 y1) (finv (fsub x2 x1))).
  eexists. eexists. split; [reflexivity|]. split; [apply fsub_range|]. split; [apply fsub_range|].
  split; [exact Hi'|]. split; [feq|]. split; feq.
Qed.

Lemma assoc_poly x1 y1 x2 y2 x3 y3 l12 l23 la lb i12 i23 ia ib x12 y12 x23 y23 xa ya xb yb :
  eqP (y1*y1) (x1*x1*x1 + (1+1+1)) -> eqP (y2*y2) (x2*x2*x2 + (1+1+1)) -> eqP (y3*y3) (x3*x3*x3 + (1+1+1)) ->
  eqP (i12 * (x2 - x1)) 1 -> eqP l12 ((y2 - y1) * i12) -> eqP x12 (l12*l12 - x1 - x2) -> eqP y12 (l12*(x1 - x12) - y1) ->
  eqP (i23 * (x3 - x2)) 1 -> eqP l23 ((y3 - y2) * i23) -> eqP x23 (l23*l23 - x2 - x3) -> eqP y23 (l23*(x2 - x23) - y2) ->
  eqP (ia * (x3 - x12)) 1 -> eqP la ((y3 - y12) * ia) -> eqP xa (la*la - x12 - x3) -> eqP ya (la*(x12 - xa) - y12) ->
  eqP (ib * (x23 - x1)) 1 -> eqP lb ((y23 - y1) * ib) -> eqP xb (lb*lb - x1 - x23) -> eqP yb (lb*(x1 - xb) - y1) ->
  eqP xa xb /\ eqP ya yb.
Proof. intros. split; nsatzP. Qed.

Definition xcoord (v : g1) : option Z := match v with G1Aff x _ => Some x | _ => None end.

(* (a + b) + c = a + (b + c) when every addition involved is a chord *)
Theorem assoc_generic x1 y1 x2 y2 x3 y3 :
  g1_pt (G1Aff x1 y1) -> g1_pt (G1Aff x2 y2) -> g1_pt (G1Aff x3 y3) ->
  x1 <> x2 -> x2 <> x3 ->
  xcoord (g1_add (G1Aff x1 y1) (G1Aff x2 y2)) <> Some x3 ->
  xcoord (g1_add (G1Aff x2 y2) (G1Aff x3 y3)) <> Some x1 ->
  g1_add (g1_add (G1Aff x1 y1) (G1Aff x2 y2)) (G1Aff x3 y3) =
  g1_add (G1Aff x1 y1) (g1_add (G1Aff x2 y2) (G1Aff x3 y3)).
Proof.
  intros (Hx1 & Hy1 & Hc1) (Hx2 & Hy2 & Hc2) (Hx3 & Hy3 & Hc3) N12 N23 Na Nb.
  apply on_curve_eqP in Hc1, Hc2, Hc3.
  destruct (chord_spec x1 y1 x2 y2 Hx1 Hx2 N12) as (i12 & l12 & x12 & y12 & E12 & Rx12 & Ry12 & A1 & A2 & A3 & A4).
  destruct (chord_spec x2 y2 x3 y3 Hx2 Hx3 N23) as (i23 & l23 & x23 & y23 & E23 & Rx23 & Ry23 & B1 & B2 & B3 & B4).
  rewrite E12 in *. rewrite E23 in *. cbn [xcoord] in Na, Nb.
  assert (Na' : x12 <> x3) by congruence. assert (Nb' : x1 <> x23) by congruence.
  destruct (chord_spec x12 y12 x3 y3 Rx12 Hx3 Na') as (ia & la & xa & ya & Ea & Rxa & Rya & C1 & C2 & C3 & C4).
  destruct (chord_spec x1 y1 x23 y23 Hx1 Rx23 Nb') as (ib & lb & xb & yb & Eb & Rxb & Ryb & D1 & D2 & D3 & D4).
  rewrite Ea, Eb.
  destruct (assoc_poly x1 y1 x2 y2 x3 y3 l12 l23 la lb i12 i23 ia ib x12 y12 x23 y23 xa ya xb yb) as [Qx Qy]; auto.
  f_equal; apply reduced_eq; auto.
Qed.
Transparent finv fpow.
