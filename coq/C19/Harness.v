(* Evaluation of the C19 model on harness-written histories (correspondence check).
   The model run is [step true] = the code as it stands in /repo (repaired remove). *)
From Coq Require Import List NArith Bool.
From V.C19 Require Import Model KeyModel.
Import ListNotations.
Local Open Scope N_scope.

Inductive hop := HAdd (i pre parent : N) | HRemoveLast | HRemoveFrom (h : N) | HRestart
  | HFork (h : N) (gs : list (N * N * N))     (* fork groups (id, pre, parent), heights h+1, h+2, ... *)
  | HDrop (ids : list N)
  | HSetRow (i h : N).                         (* a wrong or extra sqlite row written behind the chain's back *)

Definition J (i pre parent h : N) : option group := Some (mkG i pre parent h).
Definition X : option group := None.

(* observables after one operation; see harness/cmd/c19/main.go [observe] *)
Inductive obs :=
  Ob (ret cnt : N) (lastg : option group) (byh byid : list (option group)) (wlk : list N)
    (syncs : list (list (option group))) (sqn : N) (sqh : list (option N)).

Definition group_eqb (a b : group) : bool :=
  (gid a =? gid b) && (gpre a =? gpre b) && (gparent a =? gparent b) && (gheight a =? gheight b).

Definition opt_eqb {A} (e : A -> A -> bool) (a b : option A) : bool :=
  match a, b with Some x, Some y => e x y | None, None => true | _, _ => false end.

Fixpoint list_eqb {A} (e : A -> A -> bool) (a b : list A) : bool :=
  match a, b with
  | [], [] => true
  | x :: a', y :: b' => e x y && list_eqb e a' b'
  | _, _ => false
  end.

Fixpoint upto (n : nat) (from : N) : list N :=
  match n with O => [] | S k => from :: upto k (from + 1) end.

Definition op_of (o : hop) : op :=
  match o with
  | HAdd i p q => Add (mkG i p q 0)
  | HRemoveLast => RemoveLast
  | HRemoveFrom h => RemoveFrom h
  | HRestart => Restart
  | HFork h gs => ForkSwitch h (map (fun g => let '(i, p, q) := g in mkG i p q 0) gs)
  | HDrop ids => DropIndex ids
  | HSetRow i h => SetIndexRow i h
  end.

Definition genesis : group := mkG 1 0 0 0.

(* the model's observables for universe size U *)
Definition observe (U : N) (ret : N) (s : state) : obs :=
  let ids := upto (N.to_nat U) 1 in
  Ob ret (count s) (Some (last s))
    (map (get_by_height s) (upto (N.to_nat U + 4) 0))
    (map (get_by_id s) ids)
    (map gid (walk (N.to_nat (count s) + 5) s (last s)))
    (map (sync_by_id s) ids)
    (sq_count (sq (st s)))
    (map (sq_lookup (sq (st s))) ids).

Definition obs_eqb (a b : obs) : bool :=
  let '(Ob r1 c1 l1 h1 i1 w1 s1 n1 q1) := a in
  let '(Ob r2 c2 l2 h2 i2 w2 s2 n2 q2) := b in
  (r1 =? r2) && (c1 =? c2) && opt_eqb group_eqb l1 l2 &&
  list_eqb (opt_eqb group_eqb) h1 h2 && list_eqb (opt_eqb group_eqb) i1 i2 &&
  list_eqb N.eqb w1 w2 && list_eqb (list_eqb (opt_eqb group_eqb)) s1 s2 &&
  (n1 =? n2) && list_eqb (opt_eqb N.eqb) q1 q2.

(* the property on the model's own observables, bounded to the observed heights (an evaluated
   instance of C19_reachable): walk length = count, a group at every height below count, none above *)
Definition spec_okb (U : N) (s : state) : bool :=
  (N.of_nat (length (walk (N.to_nat (count s) + 5) s (last s))) =? count s) &&
  forallb (fun h => match get_by_height s h with
                    | Some g => (h <? count s) && (gheight g =? h)
                    | None => count s <=? h
                    end) (upto (N.to_nat U + 4) 0).

Fixpoint run_check (fx : bool) (U : N) (s : state) (steps : list (hop * obs)) : bool :=
  match steps with
  | [] => true
  | (o, ob) :: r =>
    let '(s', c) := step fx genesis s (op_of o) in
    obs_eqb (observe U c s') ob && (negb fx || spec_okb U s') && run_check fx U s' r
  end.

Definition check (c : N * list (hop * obs)) : bool :=
  let '(U, steps) := c in run_check true U (init genesis) steps.

(* correspondence of the [fx = false] variant with the code before the repair; used by hand against a
   worktree with the fix reverted (see props/C19.json, sensitivity), not by the driver *)
Definition check_original (c : N * list (hop * obs)) : bool :=
  let '(U, steps) := c in run_check false U (init genesis) steps.

(* ---- gated schedules (harness: a parked AddGroup vs competing calls) ----
   case = (U, prefix run sequentially, the parked group, competing calls, order, observation):
   the parked AddGroup(x) runs Has(id) and enters CheckGroup; every competing call runs to completion
   in its own thread (a fork switch as one thread that stops at the first refusal); then x finishes.
   order = false: as described (the competing calls did not wait for x);
   order = true : the competing calls were seen to wait until x had returned, so x runs first.
   The observation is taken at the end; ret = result of x, crets = results of the competing calls. *)
Definition thread_of (o : hop) : thread :=
  match o with
  | HFork h gs => mkT None (RemoveFrom h :: map (fun g => let '(i, p, q) := g in Add (mkG i p q 0)) gs) true []
  | _ => mkT None [op_of o] false []
  end.

Fixpoint reps (n : nat) (i : nat) : list nat := match n with O => [] | S k => i :: reps k i end.

(* enough moves for thread i to return: 4 per call *)
Definition moves (t : thread) : nat := 4 * length (prog t) + 1.

Fixpoint sched_all (ts : list thread) (i : nat) : list nat :=
  match ts with [] => [] | t :: r => reps (moves t) i ++ sched_all r (S i) end.

Definition run_prefix (steps : list hop) : state :=
  fst (run true genesis (init genesis) (map op_of steps)).

(* a competing fork switch reports true/false like triggerOnChain: 0 if no call of the thread failed *)
Definition thread_ret (o : hop) (t : thread) : N :=
  match o with
  | HFork _ _ => match rev (rets t) with
                 | 1 :: _ => 1                              (* no group at the ancestor height *)
                 | l => if forallb (fun c => c =? 0) l then 0 else 2
                 end
  | _ => hd 99 (rets t)
  end.

Definition check_sched (c : N * list hop * (N * N * N) * list hop * bool * obs * list N) : bool :=
  let '(U, pre, x, comp, xfirst, ob, crets) := c in
  let '(xi, xp, xq) := x in
  let s0 := run_prefix pre in
  let tx := mkT None [Add (mkG xi xp xq 0)] false [] in
  let ts := tx :: map thread_of comp in
  let sched := if xfirst then reps 4 0%nat ++ sched_all (map thread_of comp) 1
               else reps 2 0%nat ++ sched_all (map thread_of comp) 1 ++ reps 2 0%nat in
  let '(s', ts') := crun true genesis s0 ts sched in
  let xret := match ts' with t :: _ => hd 99 (rets t) | [] => 99 end in
  obs_eqb (observe U xret s') ob && spec_okb U s' &&
  list_eqb N.eqb (map (fun p => thread_ret (fst p) (snd p)) (combine comp (tl ts'))) crets.

(* ---- key-space collisions (harness: AddGroup of a group whose id is a key of another kind, on a
   freshly initialised store, with a CheckGroup stub that accepts it) ----
   case = (genesis id bytes, id bytes of the added group, observed: AddGroup result, Count,
           GetGroupById(id) <> nil, GetGroupByHeight(1) <> nil, LastGroup.Id = id) *)
Definition is_some {A} (o : option A) : bool := match o with Some _ => true | None => false end.

Definition check_keys (c : bytes * bytes * N * N * bool * bool * bool) : bool :=
  let '(g0id, xid, ret, cnt, byid, byh, lastis) := c in
  let gen := mkBG g0id [] [] 0 in
  let s0 := b_save {| bst := fun _ => None; bcount := 0; blast := gen |} gen in
  let '(s1, r) := b_add_group s0 (mkBG xid g0id g0id 0) in
  let jb := fun _ : bgroup => [123] in
  (r =? ret) && (bcount s1 =? cnt) && Bool.eqb (is_some (b_by_id (bst s1) xid)) byid &&
  Bool.eqb (is_some (b_by_height jb (bst s1) 1)) byh && Bool.eqb (beqb (bid (blast s1)) xid) lastis.

(* ---- a reader without the lock (harness: save / remove parked at Put("gcount"), i.e. between
   count++/count-- and the assignment of lastGroup; Count() and LastGroup() read at that moment) ----
   case = (prefix, true = AddGroup(x) / false = remove(last), x, observed Count(), observed LastGroup()) *)
Definition check_lf (c : list hop * bool * (N * N * N) * N * option group) : bool :=
  let '(pre, isadd, x, cnt, lg) := c in
  let '(xi, xp, xq) := x in
  let s0 := run_prefix pre in
  let m := if isadd then save_mid s0 (mkG xi xp xq 0) else remove_mid s0 (last s0) in
  (fst (lf_read m) =? cnt) && opt_eqb group_eqb (Some (snd (lf_read m))) lg.
