(* Evaluation of the C19 model on harness-written histories (correspondence check).
   The model run is [step true] = the code as it stands in /repo (repaired remove). *)
From Coq Require Import List NArith Bool.
From V.C19 Require Import Model.
Import ListNotations.
Local Open Scope N_scope.

Inductive hop := HAdd (i pre parent : N) | HRemoveLast | HRemoveFrom (h : N) | HRestart
  | HFork (h : N) (gs : list (N * N * N))     (* fork groups (id, pre, parent), heights h+1, h+2, ... *)
  | HDrop (ids : list N).

Definition J (i pre parent h : N) : option group := Some (mkG i pre parent h).
Definition X : option group := None.

(* observables after one operation; see harness/cmd/c19/main.go [observe] *)
Inductive obs :=
  Ob (ret cnt : N) (lastg : option group) (byh byid : list (option group)) (wlk : list N)
    (syncs : list (list (option group))) (sqn : N) (sqh : list (option N)).

Definition group_eqb (a b : group) : bool :=
  (gid a =? gid b) && (gpre a =? gpre b) && (gparent a =? gparent b) && (gheight a =? gheight b).

Definition opt_eqb {A} (e : A -> A -> bool) (a b : option A) : bool :=
  match a, b with Some x, Some y => e x y | None, None => true | _, _ => false end.

Fixpoint list_eqb {A} (e : A -> A -> bool) (a b : list A) : bool :=
  match a, b with
  | [], [] => true
  | x :: a', y :: b' => e x y && list_eqb e a' b'
  | _, _ => false
  end.

Fixpoint upto (n : nat) (from : N) : list N :=
  match n with O => [] | S k => from :: upto k (from + 1) end.

Definition op_of (o : hop) : op :=
  match o with
  | HAdd i p q => Add (mkG i p q 0)
  | HRemoveLast => RemoveLast
  | HRemoveFrom h => RemoveFrom h
  | HRestart => Restart
  | HFork h gs => ForkSwitch h (map (fun g => let '(i, p, q) := g in mkG i p q 0) gs)
  | HDrop ids => DropIndex ids
  end.

Definition genesis : group := mkG 1 0 0 0.

(* the model's observables for universe size U *)
Definition observe (U : N) (ret : N) (s : state) : obs :=
  let ids := upto (N.to_nat U) 1 in
  Ob ret (count s) (Some (last s))
    (map (get_by_height s) (upto (N.to_nat U + 4) 0))
    (map (get_by_id s) ids)
    (map gid (walk (N.to_nat (count s) + 5) s (last s)))
    (map (sync_by_id s) ids)
    (sq_count (sq (st s)))
    (map (sq_lookup (sq (st s))) ids).

Definition obs_eqb (a b : obs) : bool :=
  let '(Ob r1 c1 l1 h1 i1 w1 s1 n1 q1) := a in
  let '(Ob r2 c2 l2 h2 i2 w2 s2 n2 q2) := b in
  (r1 =? r2) && (c1 =? c2) && opt_eqb group_eqb l1 l2 &&
  list_eqb (opt_eqb group_eqb) h1 h2 && list_eqb (opt_eqb group_eqb) i1 i2 &&
  list_eqb N.eqb w1 w2 && list_eqb (list_eqb (opt_eqb group_eqb)) s1 s2 &&
  (n1 =? n2) && list_eqb (opt_eqb N.eqb) q1 q2.

(* the property on the model's own observables, bounded to the observed heights (an evaluated
   instance of C19_reachable): walk length = count, a group at every height below count, none above *)
Definition spec_okb (U : N) (s : state) : bool :=
  (N.of_nat (length (walk (N.to_nat (count s) + 5) s (last s))) =? count s) &&
  forallb (fun h => match get_by_height s h with
                    | Some g => (h <? count s) && (gheight g =? h)
                    | None => count s <=? h
                    end) (upto (N.to_nat U + 4) 0).

Fixpoint run_check (fx : bool) (U : N) (s : state) (steps : list (hop * obs)) : bool :=
  match steps with
  | [] => true
  | (o, ob) :: r =>
    let '(s', c) := step fx genesis s (op_of o) in
    obs_eqb (observe U c s') ob && (negb fx || spec_okb U s') && run_check fx U s' r
  end.

Definition check (c : N * list (hop * obs)) : bool :=
  let '(U, steps) := c in run_check true U (init genesis) steps.

(* correspondence of the [fx = false] variant with the code before the repair; used by hand against a
   worktree with the fix reverted (see props/C19.json, sensitivity), not by the driver *)
Definition check_original (c : N * list (hop * obs)) : bool :=
  let '(U, steps) := c in run_check false U (init genesis) steps.
