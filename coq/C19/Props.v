(* C19 — property theorems only (statements + [exact]); proofs are in Proofs.v.
   [step true]/[run true] is the code as repaired in /repo (remove deletes the height key of the
   removed group); [step false] is remove as originally written (Put(key(count), pre.Id)). *)
From Coq Require Import List NArith Lia.
From V.C19 Require Import Model Proofs Sched KeyModel KeyProofs Extra.
Import ListNotations.
Local Open Scope N_scope.

(* The first start (empty store, one genesis group) establishes the invariant. *)
Theorem C19_inv_init : forall g0, Inv g0 (init g0).
Proof. exact inv_init. Qed.
Print Assumptions C19_inv_init.

(* Every operation of the node — AddGroup (accepted or refused), remove(last), removeFromCommonAncestor,
   the fork switch triggerOnChain, restart — keeps the invariant, and a restart never panics or diverges. *)
Theorem C19_inv_step : forall g0, genesis_ok g0 -> forall s o, Inv g0 s -> op_wf o -> no_loss o ->
  Inv g0 (fst (step true g0 s o)) /\ snd (step true g0 s o) < 98.
Proof. exact inv_step. Qed.
Print Assumptions C19_inv_step.

(* The weak invariant (the sqlite index may miss rows, everything else as in Inv) is kept by every
   operation including the loss of arbitrary sqlite rows outside the node ... *)
Theorem C19_invw_step : forall g0, genesis_ok g0 -> forall s o, InvW g0 s -> op_wf o ->
  InvW g0 (fst (step true g0 s o)) /\ snd (step true g0 s o) < 98.
Proof. exact invw_step. Qed.
Print Assumptions C19_invw_step.

(* ... and a restart (refreshCache's predecessor walk) turns it back into the full invariant. *)
Theorem C19_restart_restores : forall g0, genesis_ok g0 -> forall s, InvW g0 s ->
  Inv g0 (fst (step true g0 s Restart)).
Proof. exact restart_restores. Qed.
Print Assumptions C19_restart_restores.

(* Already the weak invariant implies the property as stated, on the observable lookups only: the
   predecessor walk from the last group ends at genesis having visited the list, count = length,
   height i answers with the i-th group below count and with nothing at or above it, every listed group
   is found by id. *)
Theorem C19_inv_implies_property : forall g0, genesis_ok g0 -> forall s, InvW g0 s -> Spec g0 s.
Proof. exact invw_spec. Qed.
Print Assumptions C19_inv_implies_property.

(* A restart after any state satisfying the full invariant gives back exactly that state. *)
Theorem C19_restart_identity : forall g0 s, Inv g0 s -> boot (st s) g0 = BootOk s.
Proof. exact restart_identity. Qed.
Print Assumptions C19_restart_identity.

(* Headline: after every history of additions, removals, fork switches, restarts and sqlite row losses
   (in any order, including remove followed by adding a different group at the same height) the
   property holds, the sync answer lists exactly the following groups and no restart on the way failed;
   and when no sqlite row was lost since the last restart (or at all) the sqlite index agrees with the
   list and a further restart changes nothing. *)
Theorem C19_reachable : forall g0 ops, genesis_ok g0 -> Forall op_wf ops ->
  let s := fst (run true g0 (init g0) ops) in
  (exists l, SpecL g0 s l /\ SyncL s l) /\
  Forall (fun c => c < 98) (snd (run true g0 (init g0) ops)) /\
  (index_settled ops ->
     sq_count (sq (st s)) = count s /\
     (forall x, sq_lookup (sq (st s)) x = option_map gheight (get_by_id s x)) /\
     step true g0 s Restart = (s, 0)).
Proof. exact reachable_spec. Qed.
Print Assumptions C19_reachable.

(* remove as originally written breaks the property: genesis, add one group, remove it — height 2
   answers with the genesis group while count = 1, and GetSyncGroupsById(genesis) = [nil; genesis]. *)
Theorem C19_remove_refuted :
  genesis_ok wg0 /\ Forall op_wf [Add wg1; RemoveLast] /\
  let s := fst (run false wg0 (init wg0) [Add wg1; RemoveLast]) in
  count s = 1 /\ get_by_height s 2 = Some (set_height wg0 0) /\
  sync_by_id s (gid wg0) = [None; Some (set_height wg0 0)] /\
  ~ Spec wg0 s.
Proof. exact remove_refuted. Qed.
Print Assumptions C19_remove_refuted.

Theorem C19_remove_step_refuted :
  exists g0 s, genesis_ok g0 /\ Inv g0 s /\ ~ Spec g0 (fst (step false g0 s RemoveLast)).
Proof. exact remove_step_refuted. Qed.
Print Assumptions C19_remove_step_refuted.

(* The exact guard that excludes the defect: the original code is correct on histories that never
   remove a group. *)
Theorem C19_original_without_remove : forall g0 ops, genesis_ok g0 -> Forall op_wf ops ->
  Forall no_remove ops -> Spec g0 (fst (run false g0 (init g0) ops)).
Proof. exact original_without_remove. Qed.
Print Assumptions C19_original_without_remove.

(* ---- "at all times": interleavings of concurrent callers (Model.v: tstep / crun) ----
   AddGroup is three steps (Has(id) without lock; CheckGroup without lock; parent/PreGroup checks and
   save in one critical section), remove(last) and removeFromCommonAncestor are one step each; a fork
   switch is a thread that stops at the first refusal.  [InvC] = the weak invariant plus "every listed
   group has the PreGroup its id determines" ([pre_of]: ids are bound to the group by CheckGroup). *)
Theorem C19_schedules_init : forall g0 pre_of, cons_g pre_of g0 -> InvC g0 pre_of (init g0).
Proof. exact invc_init. Qed.
Print Assumptions C19_schedules_init.

(* For the code as it is, under every schedule of any number of threads (hence at every moment: every
   prefix of a schedule is a schedule) the invariant and the property hold. *)
Theorem C19_schedules_locked : forall g0, genesis_ok g0 -> forall pre_of s ts sched,
  InvC g0 pre_of s -> Forall (thread_ok pre_of) ts ->
  let s' := fst (crun true g0 s ts sched) in InvC g0 pre_of s' /\ Spec g0 s'.
Proof. exact locked_schedules. Qed.
Print Assumptions C19_schedules_locked.

(* If the link checks run before CheckGroup and the write lock covers save alone (check-then-act), two
   competing successors of one group break the property: both AddGroup calls return nil, count = 3, the
   predecessor walk from the last group has 2 groups. The same threads satisfy the hypotheses of
   C19_schedules_locked. *)
Theorem C19_schedules_check_then_act_refuted :
  genesis_ok rg0 /\ Forall (thread_ok rpre) rts /\ cons_g rpre rg0 /\
  let r := crun false rg0 (init rg0) rts rsched in
  count (fst r) = 3 /\ map gid (walk 5 (fst r) (last (fst r))) = [2; 1] /\
  map rets (snd r) = [[0]; [0]] /\ ~ Spec rg0 (fst r).
Proof. exact check_then_act_refuted. Qed.
Print Assumptions C19_schedules_check_then_act_refuted.

(* The proviso of C19_schedules_locked is necessary: were two different groups with one id accepted,
   the Has(id) answer read outside the lock goes stale and the code as it is saves a predecessor cycle. *)
Theorem C19_schedules_locked_needs_id_binding :
  let r := crun true rg0 (init rg0) qts qsched in
  count (fst r) = 4 /\ map gid (walk 6 (fst r) (last (fst r))) = [2; 3; 2; 3; 2; 3] /\
  map rets (snd r) = [[0]; [0; 0]] /\ ~ Spec rg0 (fst r).
Proof. exact locked_needs_id_binding. Qed.
Print Assumptions C19_schedules_locked_needs_id_binding.

(* The same with environment events between the steps of the threads: sqlite rows lost at any moment
   and a process exit at any moment between two steps (every goroutine gone, initGroupChain on the files). *)
Theorem C19_schedules_locked_env : forall g0, genesis_ok g0 -> forall pre_of s ts evs,
  InvC g0 pre_of s -> Forall (thread_ok pre_of) ts ->
  let s' := fst (crun_env true g0 s ts evs) in InvC g0 pre_of s' /\ Spec g0 s'.
Proof. exact locked_schedules_env. Qed.
Print Assumptions C19_schedules_locked_env.

(* Readers that take the read lock (GetGroupById, GetGroupByHeight, GetSyncGroupsByHeight,
   Iterator.MovePre) cannot run between the store writes of a write critical section (save, remove and
   the whole removeFromCommonAncestor loop hold the write lock): they see a state after a prefix of the
   schedule, which satisfies the invariant and the property. *)
Theorem C19_locked_readers : forall g0, genesis_ok g0 -> forall pre_of s ts evs n,
  InvC g0 pre_of s -> Forall (thread_ok pre_of) ts ->
  let r := locked_reader_state true g0 s ts evs n in InvC g0 pre_of r /\ Spec g0 r.
Proof. exact locked_readers. Qed.
Print Assumptions C19_locked_readers.

(* A by-id reader WITHOUT the lock: harmless inside save (the id record is written first) ... *)
Theorem C19_unlocked_by_id_reader_save : forall k s g i, i <> gid g ->
  get_by_id (save_sub k s g) i = get_by_id s i.
Proof. exact save_sub_by_id. Qed.
Print Assumptions C19_unlocked_by_id_reader_save.

(* ... but inside remove, whose first write deletes the id record, it sees LastGroup() naming a group
   that cannot be found by id, which no state between operations shows. *)
Theorem C19_unlocked_by_id_reader_refuted :
  let s := fst (run true wg0 (init wg0) [Add wg1]) in
  let m := remove_sub 1 s (last s) in
  last m = set_height wg1 1 /\ count m = 2 /\ get_by_height s 1 = Some (last m) /\
  get_by_id m (gid (last m)) = None /\
  forall s', InvW wg0 s' -> get_by_id s' (gid (last s')) <> None.
Proof. exact unlocked_by_id_reader_refuted. Qed.
Print Assumptions C19_unlocked_by_id_reader_refuted.

(* ---- shutdown.  Close() (as repaired) takes the write lock and writes nothing: in a schedule it is a
   process exit at a step boundary, covered by C19_schedules_locked_env (EExit).  Closing the store
   under a running writer (Close before the repair), or rewriting the tip records from the unlocked
   memory fields, breaks the property after the restart: *)
Theorem C19_close_refuted :
  (let s := fst (run true wg0 (init wg0) [Add wg1]) in
   boot_count_last (st (save_sub 2 s (mkG 3 2 1 0))) wg0 = Some (2, 2) /\
   forall s', InvW wg0 s' -> (count s', gheight (last s')) <> (2, 2)) /\
  (let s := fst (run true wg0 (init wg0) [Add wg1]) in
   boot (st (remove_sub 1 s (last s))) wg0 = BootPanic) /\
  (let s := fst (run true wg0 (init wg0) [Add wg1; Add (mkG 3 2 1 0)]) in
   let c := count s in
   let s' := fst (step true wg0 s RemoveLast) in
   boot_count_last (close_writes c (gid (last s')) (st s')) wg0 = Some (3, 1) /\
   forall s'', InvW wg0 s'' -> (count s'', gheight (last s'')) <> (3, 1)).
Proof.
  split; [exact close_inside_save_refuted|split; [exact close_inside_remove_refuted|exact close_stale_count_refuted]].
Qed.
Print Assumptions C19_close_refuted.

(* ---- readers that do not take the lock (Count(), LastGroup()) ----
   Between operations Count() = LastGroup().GroupHeight + 1. *)
Theorem C19_count_is_last_height_plus_one : forall P g0 s, InvP P g0 s -> count s = gheight (last s) + 1.
Proof. exact inv_count_last. Qed.
Print Assumptions C19_count_is_last_height_plus_one.

(* Inside save (remove) count is assigned before lastGroup: each field read alone has its value of the
   state before or after the operation ... *)
Theorem C19_lockfree_fields : forall s g,
  (count (save_mid s g) = count (save s g) /\ last (save_mid s g) = last s) /\
  (forall pg, get_by_id s (gpre g) = Some pg ->
     count (remove_mid s g) = count (fst (remove true s g)) /\ last (remove_mid s g) = last s).
Proof. intros s g. split; [apply lf_save_fields|intros pg; apply lf_remove_fields]. Qed.
Print Assumptions C19_lockfree_fields.

(* ... but the pair read between the two assignments belongs to no state between operations. *)
Theorem C19_lockfree_pair_refuted :
  (let s := init wg0 in
   lf_read (save_mid s wg1) = (2, set_height wg0 0) /\
   forall s', InvW wg0 s' -> lf_read s' <> lf_read (save_mid s wg1)) /\
  (let s := fst (run true wg0 (init wg0) [Add wg1]) in
   lf_read (remove_mid s (last s)) = (1, set_height wg1 1) /\
   forall s', InvW wg0 s' -> lf_read s' <> lf_read (remove_mid s (last s))).
Proof. split; [exact lockfree_pair_refuted|exact lockfree_pair_remove_refuted]. Qed.
Print Assumptions C19_lockfree_pair_refuted.

(* ---- the key space (KeyModel.v: LevelDB keys as byte strings) ----
   32-byte ids and fewer than HMAX = 0x6763757272656e74 groups: the four kinds of keys cannot collide
   (generateKey(HMAX) = "gcurrent"). *)
Theorem C19_keys_disjoint_32 : forall (i j : bytes) (h h' : N),
  length i = 32%nat -> length j = 32%nat -> h < HMAX -> h' < HMAX ->
  i <> be8 h /\ i <> GCUR /\ i <> GCNT /\ be8 h <> GCUR /\ be8 h <> GCNT /\ GCUR <> GCNT /\
  (be8 h = be8 h' -> h = h') /\ i <> [].
Proof. exact keys_disjoint_32. Qed.
Print Assumptions C19_keys_disjoint_32.

(* The chain's keys (prefix "group") and the fork scratch DB's keys (prefix "groupFork", same LevelDB)
   cannot collide. *)
Theorem C19_chain_fork_keys_disjoint : forall k k' : bytes,
  (length k = 32 \/ length k = 8 \/ length k = 6)%nat ->
  (length k' = 32 \/ length k' = 8 \/ length k' = 11 \/ length k' = 24)%nat ->
  PFX ++ k <> PFXF ++ k'.
Proof. exact chain_fork_keys_disjoint. Qed.
Print Assumptions C19_chain_fork_keys_disjoint.

(* Under these conditions every primitive that computes a key behaves on the byte-level store as the
   model's typed maps do (R = the byte-level state represents the model state): AddGroup/save, remove,
   Has, lookup by id and by height.  All other operations are compositions of these. *)
Theorem C19_keys_refine : forall jb idb,
  (forall i j, idb i = idb j -> i = j) -> idb 0 = [] -> (forall i, i <> 0 -> length (idb i) = 32%nat) ->
  forall bs s g, R idb bs s -> gid g <> 0 -> count s + 1 < HMAX ->
  (R idb (fst (b_add_group bs (gb idb g))) (fst (add_group s g)) /\
   snd (b_add_group bs (gb idb g)) = snd (add_group s g)) /\
  (R idb (fst (b_remove bs (gb idb g))) (fst (remove true s g)) /\
   snd (b_remove bs (gb idb g)) = snd (remove true s g)) /\
  (forall i, b_by_id (bst bs) (idb i) = option_map (gb idb) (get_by_id s i)) /\
  (forall h, h < HMAX -> b_by_height jb (bst bs) h = option_map (gb idb) (get_by_height s h)).
Proof.
  intros jb idb H1 H2 H3 bs s g HR Hg Hc. split; [|split; [|split]].
  - apply refine_add; assumption.
  - apply refine_remove; try assumption. lia.
  - intros i. apply refine_by_id. exact HR.
  - intros h Hh. apply refine_by_height; assumption.
Qed.
Print Assumptions C19_keys_refine.

(* When an id does collide (only with a CheckGroup that accepts it): an 8-byte id equal to the height
   key it is about to receive is accepted and its own record is overwritten (the last group cannot be
   found by id, height 1 answers nothing although count = 2); an id equal to "gcount" (or "gcurrent",
   or an occupied height key) is reported as already existing. *)
Theorem C19_keys_collision_refuted :
  (let r := b_add_group binit (mkBG (be8 1) [1] [1] 0) in
   snd r = 0 /\ bcount (fst r) = 2 /\ bid (blast (fst r)) = be8 1 /\
   b_by_id (bst (fst r)) (be8 1) = None /\ b_by_height wj (bst (fst r)) 1 = None) /\
  (snd (b_add_group binit (mkBG GCNT [1] [1] 0)) = 1 /\ b_by_id (bst binit) GCNT = None) /\
  (snd (b_add_group binit (mkBG (be8 0) [1] [1] 0)) = 1 /\ snd (b_add_group binit (mkBG GCUR [1] [1] 0)) = 1).
Proof.
  split; [exact collide_height_key_refuted|split; [exact collide_gcount_refuted|exact collide_existing_refuted]].
Qed.
Print Assumptions C19_keys_collision_refuted.

(* ---- the SQL group index (groupIndex table of mysql/group_index.go: replace INTO in save, DELETE in
   remove, re-insertion by refreshCache) is the third index: whenever the full invariant holds it has
   exactly one row per group of the list, the row's groupheight being the group's position. *)
Theorem C19_sql_index_is_the_list : forall g0 s, genesis_ok g0 -> Inv g0 s ->
  exists l, SpecL g0 s l /\
    NoDup (map fst (sq (st s))) /\
    (forall i h, In (i, h) (sq (st s)) <->
                 exists g, nth_error l (N.to_nat h) = Some g /\ gid g = i /\ gheight g = h) /\
    length (sq (st s)) = length l.
Proof. exact sql_index_is_the_list. Qed.
Print Assumptions C19_sql_index_is_the_list.

(* ---- wrong or extra sqlite rows ----
   refreshCache's loop on any table: every group it walks over gets its right row, every other hash
   keeps whatever row it had. *)
Theorem C19_refresh_walk_any_table : forall g0, genesis_ok g0 -> forall l gs,
  chain g0 l -> (forall x, gs x = lookup l x) ->
  forall r g q fuel, chain g0 (g :: r) -> incl (g :: r) l -> (length r < fuel)%nat ->
  exists q', refresh_walk fuel gs g q = Some q' /\
    forall x, sq_lookup q' x =
      match lookup (g :: r) x with Some y => Some (gheight y) | None => sq_lookup q x end.
Proof. exact refresh_walk_lookup. Qed.
Print Assumptions C19_refresh_walk_any_table.

(* It runs only when the row COUNT differs from the group count: a wrong row with the right count is
   never repaired; an extra row makes the counts differ at every start and is never removed. *)
Theorem C19_wrong_rows_refuted :
  (let s := fst (run true wg0 (init wg0) [Add wg1; SetIndexRow 2 7; Restart]) in
   count s = 2 /\ sq_count (sq (st s)) = 2 /\ sq_lookup (sq (st s)) 2 = Some 7 /\
   option_map gheight (get_by_id s 2) = Some 1) /\
  (let s := fst (run true wg0 (init wg0) [Add wg1; SetIndexRow 9 4; Restart; Restart]) in
   count s = 2 /\ sq_count (sq (st s)) = 3 /\ sq_lookup (sq (st s)) 9 = Some 4 /\ get_by_id s 9 = None /\
   sq_lookup (sq (st s)) 1 = Some 0 /\ sq_lookup (sq (st s)) 2 = Some 1).
Proof. split; [exact wrong_row_same_count_refuted|exact extra_row_refuted]. Qed.
Print Assumptions C19_wrong_rows_refuted.

(* ---- triggerOnChain entered again after a pause = the uninterrupted triggerOnChain ---- *)
Theorem C19_trigger_reentry : forall fx s anc done rest,
  snd (trigger_on_chain fx s anc done) = true ->
  trigger_reentry (fst (trigger_on_chain fx s anc done)) rest = trigger_on_chain fx s anc (done ++ rest).
Proof. exact trigger_reentry_equiv. Qed.
Print Assumptions C19_trigger_reentry.

(* Non-vacuity: a history with add, remove, re-add of a different group at the same height, a fork
   switch, the loss of sqlite rows and restarts satisfies the hypotheses (the index is settled: the last
   loss is followed by a restart); its final list is genesis, 5, 6, 7 and sqlite has the four rows. *)
Example C19_example :
  let g0 := mkG 1 0 0 0 in
  let ops := [Add (mkG 2 1 1 0); Add (mkG 3 2 1 0); RemoveLast; Restart; Add (mkG 4 2 2 0);
              DropIndex [1; 4]; ForkSwitch 0 [mkG 5 1 1 1; mkG 6 5 1 2]; Restart; Add (mkG 7 6 5 0)] in
  genesis_ok g0 /\ Forall op_wf ops /\ index_settled ops /\
  let s := fst (run true g0 (init g0) ops) in
  count s = 4 /\ map gid (walk 10 s (last s)) = [7; 6; 5; 1] /\
  snd (run true g0 (init g0) ops) = [0;0;0;0;0;0;0;0;0] /\
  map (sq_lookup (sq (st s))) [1; 2; 5; 6; 7] = [Some 0; None; Some 1; Some 2; Some 3].
Proof.
  cbn zeta. split; [split; [discriminate|reflexivity]|].
  split; [repeat constructor; discriminate|].
  split.
  - exists [Add (mkG 2 1 1 0); Add (mkG 3 2 1 0); RemoveLast; Restart; Add (mkG 4 2 2 0);
            DropIndex [1; 4]; ForkSwitch 0 [mkG 5 1 1 1; mkG 6 5 1 2]], [Add (mkG 7 6 5 0)].
    split; [repeat constructor|]. right. reflexivity.
  - vm_compute. repeat split.
Qed.
