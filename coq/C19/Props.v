(* C19 — property theorems only (statements + [exact]); proofs are in Proofs.v.
   [step true]/[run true] is the code as repaired in /repo (remove deletes the height key of the
   removed group); [step false] is remove as originally written (Put(key(count), pre.Id)). *)
From Coq Require Import List NArith.
From V.C19 Require Import Model Proofs Sched.
Import ListNotations.
Local Open Scope N_scope.

(* The first start (empty store, one genesis group) establishes the invariant. *)
Theorem C19_inv_init : forall g0, Inv g0 (init g0).
Proof. exact inv_init. Qed.
Print Assumptions C19_inv_init.

(* Every operation of the node — AddGroup (accepted or refused), remove(last), removeFromCommonAncestor,
   the fork switch triggerOnChain, restart — keeps the invariant, and a restart never panics or diverges. *)
Theorem C19_inv_step : forall g0, genesis_ok g0 -> forall s o, Inv g0 s -> op_wf o -> no_loss o ->
  Inv g0 (fst (step true g0 s o)) /\ snd (step true g0 s o) < 98.
Proof. exact inv_step. Qed.
Print Assumptions C19_inv_step.

(* The weak invariant (the sqlite index may miss rows, everything else as in Inv) is kept by every
   operation including the loss of arbitrary sqlite rows outside the node ... *)
Theorem C19_invw_step : forall g0, genesis_ok g0 -> forall s o, InvW g0 s -> op_wf o ->
  InvW g0 (fst (step true g0 s o)) /\ snd (step true g0 s o) < 98.
Proof. exact invw_step. Qed.
Print Assumptions C19_invw_step.

(* ... and a restart (refreshCache's predecessor walk) turns it back into the full invariant. *)
Theorem C19_restart_restores : forall g0, genesis_ok g0 -> forall s, InvW g0 s ->
  Inv g0 (fst (step true g0 s Restart)).
Proof. exact restart_restores. Qed.
Print Assumptions C19_restart_restores.

(* Already the weak invariant implies the property as stated, on the observable lookups only: the
   predecessor walk from the last group ends at genesis having visited the list, count = length,
   height i answers with the i-th group below count and with nothing at or above it, every listed group
   is found by id. *)
Theorem C19_inv_implies_property : forall g0, genesis_ok g0 -> forall s, InvW g0 s -> Spec g0 s.
Proof. exact invw_spec. Qed.
Print Assumptions C19_inv_implies_property.

(* A restart after any state satisfying the full invariant gives back exactly that state. *)
Theorem C19_restart_identity : forall g0 s, Inv g0 s -> boot (st s) g0 = BootOk s.
Proof. exact restart_identity. Qed.
Print Assumptions C19_restart_identity.

(* Headline: after every history of additions, removals, fork switches, restarts and sqlite row losses
   (in any order, including remove followed by adding a different group at the same height) the
   property holds, the sync answer lists exactly the following groups and no restart on the way failed;
   and when no sqlite row was lost since the last restart (or at all) the sqlite index agrees with the
   list and a further restart changes nothing. *)
Theorem C19_reachable : forall g0 ops, genesis_ok g0 -> Forall op_wf ops ->
  let s := fst (run true g0 (init g0) ops) in
  (exists l, SpecL g0 s l /\ SyncL s l) /\
  Forall (fun c => c < 98) (snd (run true g0 (init g0) ops)) /\
  (index_settled ops ->
     sq_count (sq (st s)) = count s /\
     (forall x, sq_lookup (sq (st s)) x = option_map gheight (get_by_id s x)) /\
     step true g0 s Restart = (s, 0)).
Proof. exact reachable_spec. Qed.
Print Assumptions C19_reachable.

(* remove as originally written breaks the property: genesis, add one group, remove it — height 2
   answers with the genesis group while count = 1, and GetSyncGroupsById(genesis) = [nil; genesis]. *)
Theorem C19_remove_refuted :
  genesis_ok wg0 /\ Forall op_wf [Add wg1; RemoveLast] /\
  let s := fst (run false wg0 (init wg0) [Add wg1; RemoveLast]) in
  count s = 1 /\ get_by_height s 2 = Some (set_height wg0 0) /\
  sync_by_id s (gid wg0) = [None; Some (set_height wg0 0)] /\
  ~ Spec wg0 s.
Proof. exact remove_refuted. Qed.
Print Assumptions C19_remove_refuted.

Theorem C19_remove_step_refuted :
  exists g0 s, genesis_ok g0 /\ Inv g0 s /\ ~ Spec g0 (fst (step false g0 s RemoveLast)).
Proof. exact remove_step_refuted. Qed.
Print Assumptions C19_remove_step_refuted.

(* The exact guard that excludes the defect: the original code is correct on histories that never
   remove a group. *)
Theorem C19_original_without_remove : forall g0 ops, genesis_ok g0 -> Forall op_wf ops ->
  Forall no_remove ops -> Spec g0 (fst (run false g0 (init g0) ops)).
Proof. exact original_without_remove. Qed.
Print Assumptions C19_original_without_remove.

(* ---- "at all times": interleavings of concurrent callers (Model.v: tstep / crun) ----
   AddGroup is three steps (Has(id) without lock; CheckGroup without lock; parent/PreGroup checks and
   save in one critical section), remove(last) and removeFromCommonAncestor are one step each; a fork
   switch is a thread that stops at the first refusal.  [InvC] = the weak invariant plus "every listed
   group has the PreGroup its id determines" ([pre_of]: ids are bound to the group by CheckGroup). *)
Theorem C19_schedules_init : forall g0 pre_of, cons_g pre_of g0 -> InvC g0 pre_of (init g0).
Proof. exact invc_init. Qed.
Print Assumptions C19_schedules_init.

(* For the code as it is, under every schedule of any number of threads (hence at every moment: every
   prefix of a schedule is a schedule) the invariant and the property hold. *)
Theorem C19_schedules_locked : forall g0, genesis_ok g0 -> forall pre_of s ts sched,
  InvC g0 pre_of s -> Forall (thread_ok pre_of) ts ->
  let s' := fst (crun true g0 s ts sched) in InvC g0 pre_of s' /\ Spec g0 s'.
Proof. exact locked_schedules. Qed.
Print Assumptions C19_schedules_locked.

(* If the link checks run before CheckGroup and the write lock covers save alone (check-then-act), two
   competing successors of one group break the property: both AddGroup calls return nil, count = 3, the
   predecessor walk from the last group has 2 groups. The same threads satisfy the hypotheses of
   C19_schedules_locked. *)
Theorem C19_schedules_check_then_act_refuted :
  genesis_ok rg0 /\ Forall (thread_ok rpre) rts /\ cons_g rpre rg0 /\
  let r := crun false rg0 (init rg0) rts rsched in
  count (fst r) = 3 /\ map gid (walk 5 (fst r) (last (fst r))) = [2; 1] /\
  map rets (snd r) = [[0]; [0]] /\ ~ Spec rg0 (fst r).
Proof. exact check_then_act_refuted. Qed.
Print Assumptions C19_schedules_check_then_act_refuted.

(* The proviso of C19_schedules_locked is necessary: were two different groups with one id accepted,
   the Has(id) answer read outside the lock goes stale and the code as it is saves a predecessor cycle. *)
Theorem C19_schedules_locked_needs_id_binding :
  let r := crun true rg0 (init rg0) qts qsched in
  count (fst r) = 4 /\ map gid (walk 6 (fst r) (last (fst r))) = [2; 3; 2; 3; 2; 3] /\
  map rets (snd r) = [[0]; [0; 0]] /\ ~ Spec rg0 (fst r).
Proof. exact locked_needs_id_binding. Qed.
Print Assumptions C19_schedules_locked_needs_id_binding.

(* Non-vacuity: a history with add, remove, re-add of a different group at the same height, a fork
   switch, the loss of sqlite rows and restarts satisfies the hypotheses (the index is settled: the last
   loss is followed by a restart); its final list is genesis, 5, 6, 7 and sqlite has the four rows. *)
Example C19_example :
  let g0 := mkG 1 0 0 0 in
  let ops := [Add (mkG 2 1 1 0); Add (mkG 3 2 1 0); RemoveLast; Restart; Add (mkG 4 2 2 0);
              DropIndex [1; 4]; ForkSwitch 0 [mkG 5 1 1 1; mkG 6 5 1 2]; Restart; Add (mkG 7 6 5 0)] in
  genesis_ok g0 /\ Forall op_wf ops /\ index_settled ops /\
  let s := fst (run true g0 (init g0) ops) in
  count s = 4 /\ map gid (walk 10 s (last s)) = [7; 6; 5; 1] /\
  snd (run true g0 (init g0) ops) = [0;0;0;0;0;0;0;0;0] /\
  map (sq_lookup (sq (st s))) [1; 2; 5; 6; 7] = [Some 0; None; Some 1; Some 2; Some 3].
Proof.
  cbn zeta. split; [split; [discriminate|reflexivity]|].
  split; [repeat constructor; discriminate|].
  split.
  - exists [Add (mkG 2 1 1 0); Add (mkG 3 2 1 0); RemoveLast; Restart; Add (mkG 4 2 2 0);
            DropIndex [1; 4]; ForkSwitch 0 [mkG 5 1 1 1; mkG 6 5 1 2]], [Add (mkG 7 6 5 0)].
    split; [repeat constructor|]. right. reflexivity.
  - vm_compute. repeat split.
Qed.
