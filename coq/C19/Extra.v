(* C19 — further statements: what a reader without the lock can observe, what refreshCache does with
   wrong or extra sqlite rows, and triggerOnChain entered again after a pause. *)
From Coq Require Import List NArith Bool Lia.
From V.C19 Require Import Model Proofs.
Import ListNotations.
Local Open Scope N_scope.

(* ---------------------------------------------------------------- readers without the lock *)
(* in every state between operations: Count() = LastGroup().GroupHeight + 1 *)
Lemma inv_count_last P g0 s : InvP P g0 s -> count s = gheight (last s) + 1.
Proof.
  intros (l & Hc & Hhd & Hn & _). destruct l as [|g r]; [destruct Hc|].
  cbn [hd_error] in Hhd. injection Hhd as <-. rewrite (chain_hd_height _ _ _ Hc), Hn.
  cbn [length]. lia.
Qed.

(* each of the two fields, read alone, has its value of the state before or of the state after *)
Lemma lf_save_fields s g :
  count (save_mid s g) = count (save s g) /\ last (save_mid s g) = last s.
Proof. split; reflexivity. Qed.

Lemma lf_remove_fields s g pg : get_by_id s (gpre g) = Some pg ->
  count (remove_mid s g) = count (fst (remove true s g)) /\ last (remove_mid s g) = last s.
Proof. intros E. unfold remove_mid, remove. rewrite E. split; reflexivity. Qed.

(* ... but the pair (Count(), LastGroup()) read between the two assignments of save is a pair that no
   state between operations has: genesis + AddGroup(2): (2, genesis) *)
Lemma lockfree_pair_refuted :
  let s := init wg0 in
  lf_read (save_mid s wg1) = (2, set_height wg0 0) /\
  forall s', InvW wg0 s' -> lf_read s' <> lf_read (save_mid s wg1).
Proof.
  cbn zeta. split; [reflexivity|]. intros s' HI E.
  pose proof (inv_count_last _ _ _ HI) as Hc. unfold lf_read in E.
  assert (E1 : count s' = 2) by (injection E; auto).
  assert (E2 : last s' = set_height wg0 0) by (injection E; auto).
  rewrite E1, E2 in Hc. cbn in Hc. lia.
Qed.

(* and between the two assignments of remove: genesis, 2; remove(2): (1, group 2) *)
Lemma lockfree_pair_remove_refuted :
  let s := fst (run true wg0 (init wg0) [Add wg1]) in
  lf_read (remove_mid s (last s)) = (1, set_height wg1 1) /\
  forall s', InvW wg0 s' -> lf_read s' <> lf_read (remove_mid s (last s)).
Proof.
  cbn zeta. split; [reflexivity|]. intros s' HI E.
  pose proof (inv_count_last _ _ _ HI) as Hc. unfold lf_read in E.
  assert (E1 : count s' = 1) by (injection E; auto).
  assert (E2 : last s' = set_height wg1 1) by (injection E; auto).
  rewrite E1, E2 in Hc. cbn in Hc. lia.
Qed.

(* ---------------------------------------------------------------- wrong or extra sqlite rows *)
Lemma find_sq_del (i x : N) (q : list (N * N)) : x <> i ->
  find (fun r => fst r =? x) (sq_del i q) = find (fun r => fst r =? x) q.
Proof.
  intros Hne. induction q as [|a q IH]; [reflexivity|].
  unfold sq_del in *. cbn [filter find].
  destruct (N.eqb_spec (fst a) i) as [E|E]; cbn [negb].
  - destruct (N.eqb_spec (fst a) x) as [E'|E']; [congruence|exact IH].
  - cbn [find]. destruct (fst a =? x); [reflexivity|exact IH].
Qed.

Lemma sq_lookup_replace (i h x : N) (q : list (N * N)) :
  sq_lookup (sq_replace i h q) x = if x =? i then Some h else sq_lookup q x.
Proof.
  unfold sq_lookup, sq_replace. cbn [find fst]. rewrite (N.eqb_sym i x).
  destruct (N.eqb_spec x i) as [E|E]; [reflexivity|]. rewrite find_sq_del by exact E. reflexivity.
Qed.

Section Refresh.
Variable g0 : group.
Hypothesis G0 : genesis_ok g0.

(* refreshCache's loop on ANY table: every group it walks over gets its row (replace INTO: a wrong
   height is corrected), every other hash keeps whatever row it had (nothing is ever deleted) *)
Lemma refresh_walk_lookup l gs : chain g0 l -> (forall x, gs x = lookup l x) ->
  forall r g q fuel, chain g0 (g :: r) -> incl (g :: r) l -> (length r < fuel)%nat ->
  exists q', refresh_walk fuel gs g q = Some q' /\
    forall x, sq_lookup q' x =
      match lookup (g :: r) x with Some y => Some (gheight y) | None => sq_lookup q x end.
Proof.
  intros Hc Hgs. pose proof (chain_nodup _ _ Hc) as Hnd.
  induction r as [|p r' IH]; intros g q fuel Hcs Hsub Hf.
  - destruct fuel as [|f]; [lia|]. cbn [refresh_walk]. cbn [chain] in Hcs.
    assert (Hgp : gpre g = null_id) by (rewrite Hcs; cbn [set_height gpre]; apply G0).
    rewrite Hgs, Hgp, (proj2 (lookup_none l null_id) (chain_nonnull _ G0 _ Hc)).
    eexists. split; [reflexivity|]. intros x. rewrite sq_lookup_replace, lookup_cons.
    destruct (x =? gid g); reflexivity.
  - destruct fuel as [|f]; [lia|]. cbn [refresh_walk].
    assert (Hpl : In p l) by (apply Hsub; right; left; reflexivity).
    pose proof (chain_tail _ _ _ _ Hcs) as Ht.
    pose proof (chain_nodup _ _ Hcs) as Hnd'.
    cbn [chain] in Hcs. destruct Hcs as (Hpre & _ & Hni & _).
    rewrite Hgs, Hpre, (lookup_in l p Hnd Hpl).
    destruct (IH p (sq_replace (gid g) (gheight g) q) f Ht) as (q' & E & Hq').
    + intros x Hx. apply Hsub. right. exact Hx.
    + cbn [length] in Hf. lia.
    + exists q'. split; [exact E|]. intros x. rewrite Hq', sq_lookup_replace.
      rewrite (lookup_cons g (p :: r') x).
      destruct (N.eqb_spec x (gid g)) as [->|Ene]; [|reflexivity].
      rewrite (proj2 (lookup_none (p :: r') (gid g)) Hni). reflexivity.
Qed.
End Refresh.

(* not repaired: one wrong row and the right number of rows — refreshCache compares only the counts *)
Lemma wrong_row_same_count_refuted :
  let s := fst (run true wg0 (init wg0) [Add wg1; SetIndexRow 2 7; Restart]) in
  count s = 2 /\ sq_count (sq (st s)) = 2 /\ sq_lookup (sq (st s)) 2 = Some 7 /\
  option_map gheight (get_by_id s 2) = Some 1.
Proof. cbn zeta. repeat split. Qed.

(* never converging: an extra row (a hash that is not on the chain) survives every restart, so the
   counts differ at every start and the whole index is rewritten each time; the listed rows are right *)
Lemma extra_row_refuted :
  let s := fst (run true wg0 (init wg0) [Add wg1; SetIndexRow 9 4; Restart; Restart]) in
  count s = 2 /\ sq_count (sq (st s)) = 3 /\ sq_lookup (sq (st s)) 9 = Some 4 /\ get_by_id s 9 = None /\
  sq_lookup (sq (st s)) 1 = Some 0 /\ sq_lookup (sq (st s)) 2 = Some 1.
Proof. cbn zeta. repeat split. Qed.

(* repaired: a wrong row together with a different count *)
Lemma wrong_row_other_count_repaired :
  let s := fst (run true wg0 (init wg0) [Add wg1; SetIndexRow 2 7; DropIndex [1]; Restart]) in
  sq_count (sq (st s)) = 2 /\ sq_lookup (sq (st s)) 2 = Some 1 /\ sq_lookup (sq (st s)) 1 = Some 0.
Proof. cbn zeta. repeat split. Qed.

(* ---------------------------------------------------------------- triggerOnChain entered again *)
Lemma add_all_app a : forall s b,
  add_all s (a ++ b) =
  if snd (add_all s a) then add_all (fst (add_all s a)) b else add_all s a.
Proof.
  induction a as [|g r IH]; intros s b; [reflexivity|].
  cbn [app add_all]. destruct (add_group s g) as [s' c]. destruct (c =? 0); [apply IH|reflexivity].
Qed.

(* a first entry that adds the fork groups [done] and is paused before [rest] (AddGroup refused because
   the group depends on a block that is not there yet), followed by a second entry that adds [rest], is
   the uninterrupted triggerOnChain on [done ++ rest] *)
Lemma trigger_reentry_equiv fx s anc done rest :
  snd (trigger_on_chain fx s anc done) = true ->
  trigger_reentry (fst (trigger_on_chain fx s anc done)) rest = trigger_on_chain fx s anc (done ++ rest).
Proof.
  unfold trigger_reentry, trigger_on_chain. intros H. rewrite add_all_app, H. reflexivity.
Qed.

(* ---------------------------------------------------------------- readers and the write critical sections *)
(* between operations the last group is found by id *)
Lemma inv_last_by_id P g0 s : InvP P g0 s -> get_by_id s (gid (last s)) = Some (last s).
Proof.
  intros (l & Hc & Hhd & _ & _ & _ & Hg & _). destruct l as [|g r]; [destruct Hc|].
  cbn [hd_error] in Hhd. injection Hhd as <-. unfold get_by_id. rewrite Hg, lookup_cons, N.eqb_refl.
  reflexivity.
Qed.

(* after the 4th store write: the memory state of save_mid / remove_mid (the sqlite row is written later) *)
Lemma save_sub_4 s g : lf_read (save_sub 4 s g) = lf_read (save_mid s g).
Proof. reflexivity. Qed.

Lemma remove_sub_4 s g pg : get_by_id s (gpre g) = Some pg ->
  lf_read (remove_sub 4 s g) = lf_read (remove_mid s g).
Proof. intros E. unfold remove_sub, remove_mid, remove. rewrite E. reflexivity. Qed.

(* save writes the id record first: at every point inside save every group that was retrievable by id
   still is (so a by-id reader without the lock sees nothing wrong during an addition) *)
Lemma save_sub_by_id k s g i : i <> gid g -> get_by_id (save_sub k s g) i = get_by_id s i.
Proof.
  intros H. unfold get_by_id, save_sub. cbn [st groups].
  destruct (Nat.leb 1 k); [|reflexivity]. unfold upd.
  destruct (N.eqb_spec i (gid g)); [congruence|reflexivity].
Qed.

(* remove deletes the id record first: a by-id reader that does not take the lock sees, after that first
   write, LastGroup() (and "gcurrent", the height index, the count) still naming a group that
   GetGroupById cannot find - which no state between operations shows *)
Lemma unlocked_by_id_reader_refuted :
  let s := fst (run true wg0 (init wg0) [Add wg1]) in
  let m := remove_sub 1 s (last s) in
  last m = set_height wg1 1 /\ count m = 2 /\ get_by_height s 1 = Some (last m) /\
  get_by_id m (gid (last m)) = None /\
  forall s', InvW wg0 s' -> get_by_id s' (gid (last s')) <> None.
Proof.
  cbn zeta. repeat split. intros s' HI. rewrite (inv_last_by_id _ _ _ HI). discriminate.
Qed.

(* ---------------------------------------------------------------- the SQL group index is the list *)
Lemma lookup_h_in g0 l : genesis_ok g0 -> chain g0 l -> forall g, In g l -> lookup_h l (gheight g) = Some g.
Proof.
  intros G0. induction l as [|a r IH]; [intros []|].
  intros Hc g [<-|Hin]; rewrite lookup_h_cons.
  - rewrite N.eqb_refl. reflexivity.
  - destruct r as [|p r']; [destruct Hin|].
    pose proof (chain_tail _ _ _ _ Hc) as Ht.
    pose proof (chain_heights_lt _ _ Ht g Hin) as Hlt.
    rewrite (chain_hd_height _ _ _ Hc).
    destruct (N.eqb_spec (gheight g) (N.of_nat (length (p :: r')))) as [E|_]; [lia|].
    apply IH; assumption.
Qed.

(* the groupIndex table (hash, groupheight) holds exactly one row per group of the list, with the
   group's position in the list (genesis first) as groupheight: the third index is the walked list *)
Lemma sql_index_is_the_list g0 s : genesis_ok g0 -> Inv g0 s ->
  exists l, SpecL g0 s l /\
    NoDup (map fst (sq (st s))) /\
    (forall i h, In (i, h) (sq (st s)) <->
                 exists g, nth_error l (N.to_nat h) = Some g /\ gid g = i /\ gheight g = h) /\
    length (sq (st s)) = length l.
Proof.
  intros G0 (l & Hc & Hhd & Hn & Hgc & Hcur & Hg & Hi & [[Hnd Hsub] Hcomp]).
  exists (rev l). split; [apply (inv_specL g0 G0); assumption|]. split; [exact Hnd|]. split.
  - intros i h. split.
    + intros Hin. apply Hsub in Hin. apply in_map_iff in Hin. destruct Hin as (g & E & Hgl).
      injection E as <- <-. exists g. split; [|split; reflexivity].
      pose proof (chain_heights_lt _ _ Hc g Hgl) as Hlt.
      rewrite <- (lookup_h_nth g0 l Hc (N.to_nat (gheight g))) by lia.
      rewrite N2Nat.id. apply (lookup_h_in g0 l G0 Hc g Hgl).
    + intros (g & Hnth & <- & <-). apply Hcomp. apply (in_map row).
      apply in_rev. eapply nth_error_In. exact Hnth.
  - rewrite rev_length. apply sqok_length; [exact (chain_nodup _ _ Hc)|split; [split|]; assumption].
Qed.

(* ---------------------------------------------------------------- shutdown *)
Definition boot_count_last (p : store) (g0 : group) : option (N * N) :=
  match boot p g0 with BootOk r => Some (count r, gheight (last r)) | _ => None end.

(* the store closed under a running save after its first two writes (the code before the repair of
   Close): after the restart Count() = 2 but the last group has height 2 *)
Lemma close_inside_save_refuted :
  let s := fst (run true wg0 (init wg0) [Add wg1]) in
  boot_count_last (st (save_sub 2 s (mkG 3 2 1 0))) wg0 = Some (2, 2) /\
  forall s', InvW wg0 s' -> (count s', gheight (last s')) <> (2, 2).
Proof.
  cbn zeta. split; [reflexivity|]. intros s' HI E.
  pose proof (inv_count_last _ _ _ HI) as Hc. injection E as E1 E2. lia.
Qed.

(* ... and under a running remove after its first write: the restart panics (the last group's record
   is gone, "gcurrent" still names it) *)
Lemma close_inside_remove_refuted :
  let s := fst (run true wg0 (init wg0) [Add wg1]) in
  boot (st (remove_sub 1 s (last s))) wg0 = BootPanic.
Proof. reflexivity. Qed.

(* a Close that rewrites "gcount" from the count field read before a concurrent remove(last) and written
   after it: after the restart Count() = 3 but the last group has height 1 *)
Lemma close_stale_count_refuted :
  let s := fst (run true wg0 (init wg0) [Add wg1; Add (mkG 3 2 1 0)]) in
  let c := count s in
  let s' := fst (step true wg0 s RemoveLast) in
  boot_count_last (close_writes c (gid (last s')) (st s')) wg0 = Some (3, 1) /\
  forall s'', InvW wg0 s'' -> (count s'', gheight (last s'')) <> (3, 1).
Proof.
  cbn zeta. split; [reflexivity|]. intros s' HI E.
  pose proof (inv_count_last _ _ _ HI) as Hc. injection E as E1 E2. lia.
Qed.
