(* C19 — the group store at the level of LevelDB keys (byte strings).  One key space (prefix "group")
   holds four kinds of records, exactly as groupchain.go derives the keys:
       group.Id            -> json(group)
       generateKey(i)      -> id            (8 bytes big-endian)
       "gcurrent"          -> id of the last group
       "gcount"            -> count         (8 bytes big-endian)
   A cell remembers what was written; a read interprets it the way the code does:
   getGroupById = json.Unmarshal of the value: anything that is not a group record fails -> nil;
   getGroupByHeight / "gcurrent" use the value's bytes as an id, whatever they are.
   Puts and Deletes are applied in the order of the statements of save / remove (remove as repaired).
   No proofs here.  sqlite is not part of this layer (its keys are a separate table). *)
From Coq Require Import List NArith Bool.
Import ListNotations.
Local Open Scope N_scope.

Definition bytes := list N.

Fixpoint beqb (a b : bytes) : bool :=
  match a, b with
  | [], [] => true
  | x :: a', y :: b' => (x =? y) && beqb a' b'
  | _, _ => false
  end.

(* little-endian digits, fixed width; be8 = binary.BigEndian.PutUint64 (the value wraps at 2^64) *)
Fixpoint le_n (n : nat) (h : N) : bytes :=
  match n with O => [] | S k => (h mod 256) :: le_n k (h / 256) end.
Definition be8 (h : N) : bytes := rev (le_n 8 h).

Definition GCUR : bytes := [103; 99; 117; 114; 114; 101; 110; 116].      (* "gcurrent" *)
Definition GCNT : bytes := [103; 99; 111; 117; 110; 116].                (* "gcount" *)
(* generateKey(HMAX) = "gcurrent" *)
Definition HMAX : N := 7449927343006903924.

(* LevelDB prefixes (all db.NewDatabase(prefix) share one LevelDB): chain "group", fork scratch "groupFork" *)
Definition PFX : bytes := [103; 114; 111; 117; 112].                     (* "group" *)
Definition FORK : bytes := [70; 111; 114; 107].                          (* "Fork" *)
Definition PFXF : bytes := PFX ++ FORK.                                  (* "groupFork" *)

Record bgroup := mkBG { bid : bytes; bpre : bytes; bparent : bytes; bheight : N }.
Inductive val := VGroup (g : bgroup) | VRaw (b : bytes).
Definition bstore := bytes -> option val.
Definition bupd (m : bstore) (k : bytes) (v : option val) : bstore :=
  fun x => if beqb x k then v else m x.

Record bstate := mkBS { bst : bstore; bcount : N; blast : bgroup }.

Definition bset_height (g : bgroup) (h : N) : bgroup :=
  {| bid := bid g; bpre := bpre g; bparent := bparent g; bheight := h |}.

Section KeyModel.
(* json.Marshal(group) as bytes: only matters when a group record is read back as an id *)
Variable jb : bgroup -> bytes.

Definition raw (v : val) : bytes := match v with VRaw b => b | VGroup g => jb g end.

Definition b_has (m : bstore) (k : bytes) : bool := match m k with Some _ => true | None => false end.
Definition b_by_id (m : bstore) (i : bytes) : option bgroup :=
  match m i with Some (VGroup g) => Some g | _ => None end.
Definition b_by_height (m : bstore) (h : N) : option bgroup :=
  match m (be8 h) with Some v => b_by_id m (raw v) | None => None end.

Definition b_save (s : bstate) (g : bgroup) : bstate :=
  let c := bcount s in
  let g' := bset_height g c in
  let m1 := bupd (bst s) (bid g) (Some (VGroup g')) in          (* Put(group.Id, data)        *)
  let m2 := bupd m1 GCUR (Some (VRaw (bid g))) in                (* Put(gcurrent, group.Id)    *)
  let m3 := bupd m2 (be8 c) (Some (VRaw (bid g))) in             (* Put(key(count), group.Id)  *)
  let m4 := bupd m3 GCNT (Some (VRaw (be8 (c + 1)))) in          (* count++; Put(gcount)       *)
  {| bst := m4; bcount := c + 1; blast := g' |}.

Definition b_add_group (s : bstate) (g : bgroup) : bstate * N :=
  if b_has (bst s) (bid g) then (s, 1)
  else if negb (b_has (bst s) (bparent g)) then (s, 2)
  else if negb (beqb (bid (blast s)) (bpre g)) then (s, 3)
  else (b_save s g, 0).

Definition b_remove (s : bstate) (g : bgroup) : bstate * bool :=
  match b_by_id (bst s) (bpre g) with
  | None => (s, false)
  | Some pg =>
    let c := bcount s in
    let m1 := bupd (bst s) (bid g) None in                       (* Delete(group.Id)           *)
    let m2 := bupd m1 GCUR (Some (VRaw (bid pg))) in             (* Put(gcurrent, pre.Id)      *)
    let m3 := bupd m2 (be8 (c - 1)) None in                      (* Delete(key(count-1))       *)
    let m4 := bupd m3 GCNT (Some (VRaw (be8 (c - 1)))) in        (* count--; Put(gcount)       *)
    ({| bst := m4; bcount := c - 1; blast := pg |}, true)
  end.
End KeyModel.
