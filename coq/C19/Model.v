(* C19 — model of the group chain store (src/core/groupchain.go, groupchain_sync.go) and of the
   sqlite group index (src/middleware/mysql/group_index.go).  No proofs here.

   Projection.  A group is (Id, Header.PreGroup, Header.Parent, GroupHeight); ids are numbers, 0 is
   the nil/empty byte string (the PreGroup of the genesis group).  The LevelDB "group" key space is
   modelled as three disjoint maps (id -> group, 8-byte height -> id, the two named keys): a group id
   that is 8 bytes long or equals "gcurrent"/"gcount" is outside the model (real ids are 32 bytes).
   uint64 wrap-around of count (2^64 groups) is outside the model.  json.Marshal/Unmarshal of a group
   is the identity on the projection.  consensusHelper.CheckGroup is the caller's business (true).
   The sqlite file is separate from LevelDB; losing rows of it behind the node's back is an
   environment event of the model ([DropIndex]) because refreshCache exists to repair exactly that.
   fork_group.go: the fork's own scratch DB is the list of groups handed to [trigger_on_chain]
   (heights consecutive from the ancestor's, as insertGroup stores them). *)
From Coq Require Import List NArith Bool.
Import ListNotations.
Local Open Scope N_scope.

Definition id := N.
Definition null_id : id := 0.

Record group := mkG { gid : id; gpre : id; gparent : id; gheight : N }.

Definition set_height (g : group) (h : N) : group :=
  {| gid := gid g; gpre := gpre g; gparent := gparent g; gheight := h |}.

(* the persistent part: LevelDB prefix "group" + sqlite table groupIndex (hash -> groupheight) *)
Record store := mkP {
  groups : id -> option group;   (* key id        -> json(group)          *)
  idx    : N -> option id;       (* key uint64 BE -> id                   *)
  gcur   : option id;            (* key "gcurrent"                        *)
  gcnt   : N;                    (* key "gcount" (absent reads as 0)      *)
  sq     : list (id * N)         (* sqlite rows, newest first             *)
}.

(* the process: store + the in-memory mirror (chain.count, chain.lastGroup) *)
Record state := mkS { st : store; count : N; last : group }.

Definition upd {A} (m : N -> option A) (k : N) (v : option A) : N -> option A :=
  fun x => if x =? k then v else m x.

(* DELETE FROM groupIndex WHERE hash = ? *)
Definition sq_del (i : id) (q : list (id * N)) : list (id * N) :=
  filter (fun r => negb (fst r =? i)) q.
(* replace INTO groupIndex(hash, ..., groupheight): hash is UNIQUE *)
Definition sq_replace (i : id) (h : N) (q : list (id * N)) : list (id * N) := (i, h) :: sq_del i q.
(* select ... where hash = ? *)
Definition sq_lookup (q : list (id * N)) (i : id) : option N :=
  option_map snd (find (fun r => fst r =? i) q).
(* select count( * ) *)
Definition sq_count (q : list (id * N)) : N := N.of_nat (length q).
(* rows lost outside the node (DeleteGroup-like loss of the rows of the given ids; all ids = an empty file) *)
Definition drop_rows (ids : list id) (q : list (id * N)) : list (id * N) :=
  fold_left (fun q i => sq_del i q) ids q.

(* ---- lookups ---- *)
Definition get_by_id (s : state) (i : id) : option group := groups (st s) i.
Definition has (s : state) (i : id) : bool := match groups (st s) i with Some _ => true | None => false end.
(* getGroupByHeight: no comparison with count, only the stored key decides *)
Definition get_by_height (s : state) (h : N) : option group :=
  match idx (st s) h with Some i => get_by_id s i | None => None end.

(* Iterator(): Current = lastGroup, MovePre = GetGroupById(current.PreGroup); the walk stops at nil *)
Fixpoint walk (fuel : nat) (s : state) (g : group) : list group :=
  match fuel with
  | O => []
  | S f => g :: match get_by_id s (gpre g) with None => [] | Some p => walk f s p end
  end.

(* getSyncGroupsByHeight(height, limit): a stored height key whose group is gone yields a nil entry *)
Fixpoint sync_from (s : state) (h : N) (limit : nat) : list (option group) :=
  match limit with
  | O => []
  | S l => match idx (st s) h with
           | Some i => get_by_id s i :: sync_from s (h + 1) l
           | None => []
           end
  end.
(* GetSyncGroupsById *)
Definition sync_by_id (s : state) (i : id) : list (option group) :=
  match get_by_id s i with None => [] | Some g => sync_from s (gheight g + 1) 5 end.

(* ---- save ---- *)
Definition save (s : state) (g : group) : state :=
  let c := count s in
  let g' := set_height g c in                               (* group.GroupHeight = chain.count *)
  let p := st s in
  {| st := {| groups := upd (groups p) (gid g) (Some g');   (* Put(group.Id, data)             *)
              gcur := Some (gid g);                          (* Put(gcurrent, group.Id)         *)
              idx := upd (idx p) c (Some (gid g));           (* Put(key(count), group.Id)       *)
              gcnt := c + 1;                                 (* count++; Put(gcount, count)     *)
              sq := sq_replace (gid g) c (sq p) |};          (* mysql.InsertGroup(group)        *)
     count := c + 1;
     last := g' |}.

(* ---- AddGroup: 0 ok, 1 already exists, 2 parent missing, 3 PreGroup is not the last group ---- *)
Definition add_group (s : state) (g : group) : state * N :=
  if has s (gid g) then (s, 1)
  else if negb (has s (gparent g)) then (s, 2)
  else if negb (gid (last s) =? gpre g) then (s, 3)
  else (save s g, 0).

(* ---- remove(group).  fx = false: the statement as found (Put(key(count), pre.Id));
                         fx = true : the repaired statement (Delete(key(count-1))). ---- *)
Definition remove (fx : bool) (s : state) (g : group) : state * bool :=
  match get_by_id s (gpre g) with
  | None => (s, false)
  | Some pg =>
    let c := count s in
    let p := st s in
    ({| st := {| groups := upd (groups p) (gid g) None;            (* Delete(group.Id)          *)
                 gcur := Some (gid pg);                             (* Put(gcurrent, pre.Id)     *)
                 idx := if fx then upd (idx p) (c - 1) None         (* Delete(key(count-1))      *)
                        else upd (idx p) c (Some (gid pg));         (* Put(key(count), pre.Id)   *)
                 gcnt := c - 1;                                     (* count--; Put(gcount)      *)
                 sq := sq_del (gid g) (sq p) |};                    (* mysql.DeleteGroup(id)     *)
        count := c - 1;
        last := pg |}, true)
  end.

(* ---- removeFromCommonAncestor(anc) (groupchain_sync.go) ---- *)
Definition chain_height (s : state) : N := if 1 <? count s then count s - 1 else 0.

Fixpoint rm_loop (fx : bool) (n : nat) (h : N) (s : state) : state :=
  match n with
  | O => s
  | S n' =>
    let s' := match get_by_height s h with
              | None => s                                    (* continue *)
              | Some g => fst (remove fx s g)
              end in
    rm_loop fx n' (h - 1) s'
  end.

Definition remove_from (fx : bool) (s : state) (anc : group) : state :=
  let top := chain_height s in
  rm_loop fx (N.to_nat (top - gheight anc)) top s.

(* ---- groupChainFork.triggerOnChain (fork_group.go), first entry (fork.current = fork.header):
        removeFromCommonAncestor(ancestor), then AddGroup of the fork's groups in height order until the
        first refusal.  true = every fork group is on the chain ---- *)
Fixpoint add_all (s : state) (gs : list group) : state * bool :=
  match gs with
  | [] => (s, true)
  | g :: r => let '(s', c) := add_group s g in
              if c =? 0 then add_all s' r else (s', false)
  end.

Definition trigger_on_chain (fx : bool) (s : state) (anc : group) (gs : list group) : state * bool :=
  add_all (remove_from fx s anc) gs.

(* ---- initGroupChain on a store (first start: empty store) ---- *)
Fixpoint refresh_walk (fuel : nat) (gs : id -> option group) (g : group) (q : list (id * N))
  : option (list (id * N)) :=
  match fuel with
  | O => None                                               (* out of fuel: the Go loop would not end *)
  | S f => let q' := sq_replace (gid g) (gheight g) q in
           match gs (gpre g) with
           | None => Some q'
           | Some pg => refresh_walk f gs pg q'
           end
  end.

Definition refresh_cache (p : store) (c : N) (lg : group) : option store :=
  if sq_count (sq p) =? c then Some p
  else match refresh_walk (S (S (N.to_nat c))) (groups p) lg (sq p) with
       | None => None
       | Some q => Some {| groups := groups p; idx := idx p; gcur := gcur p; gcnt := gcnt p; sq := q |}
       end.

Inductive bootres := BootOk (s : state) | BootPanic | BootDiverge.

Definition boot (p : store) (genesis : group) : bootres :=
  match gcur p with
  | Some lid =>
    match groups p lid with
    | None => BootPanic                                     (* json.Unmarshal(nil) -> panic *)
    | Some lg =>
      let c := gcnt p in
      match refresh_cache p c lg with
      | Some p' => BootOk {| st := p'; count := c; last := lg |}
      | None => BootDiverge
      end
    end
  | None => BootOk (save {| st := p; count := 0; last := genesis |} genesis)
  end.

Definition empty_store : store :=
  {| groups := fun _ => None; idx := fun _ => None; gcur := None; gcnt := 0; sq := [] |}.

(* first start with the helper's single genesis group *)
Definition init (genesis : group) : state :=
  save {| st := empty_store; count := 0; last := genesis |} genesis.

(* ---- operations and histories ---- *)
Inductive op :=
| Add (g : group)             (* GroupChain.AddGroup *)
| RemoveLast                  (* remove(lastGroup) *)
| RemoveFrom (h : N)          (* removeFromCommonAncestor(GetGroupByHeight h) *)
| Restart                     (* process exit; initGroupChain on the same files *)
| ForkSwitch (h : N) (gs : list group)
                              (* newGroupChainFork(GetGroupByHeight h), gs inserted, triggerOnChain *)
| DropIndex (ids : list id)   (* environment: the sqlite rows of these ids are lost *)
| SetIndexRow (i : id) (h : N).
                              (* environment: a wrong or extra sqlite row (replace INTO hash i, height h) *)

(* result codes: AddGroup as above; remove 0 = true, 1 = false; RemoveFrom 1 = no such ancestor;
   Restart 98 = panic, 99 = no termination; ForkSwitch 0 = true, 2 = false, 1 = no such ancestor *)
Definition set_sq (s : state) (q : list (id * N)) : state :=
  let p := st s in
  {| st := {| groups := groups p; idx := idx p; gcur := gcur p; gcnt := gcnt p; sq := q |};
     count := count s; last := last s |}.

Definition step (fx : bool) (genesis : group) (s : state) (o : op) : state * N :=
  match o with
  | Add g => add_group s g
  | RemoveLast => let '(s', b) := remove fx s (last s) in (s', if b then 0 else 1)
  | RemoveFrom h => match get_by_height s h with
                    | None => (s, 1)
                    | Some anc => (remove_from fx s anc, 0)
                    end
  | Restart => match boot (st s) genesis with
               | BootOk s' => (s', 0)
               | BootPanic => (s, 98)
               | BootDiverge => (s, 99)
               end
  | ForkSwitch h gs => match get_by_height s h with
                       | None => (s, 1)
                       | Some anc => let '(s', b) := trigger_on_chain fx s anc gs in
                                     (s', if b then 0 else 2)
                       end
  | DropIndex ids => (set_sq s (drop_rows ids (sq (st s))), 0)
  | SetIndexRow i h => (set_sq s (sq_replace i h (sq (st s))), 0)
  end.

Fixpoint run (fx : bool) (genesis : group) (s : state) (ops : list op) : state * list N :=
  match ops with
  | [] => (s, [])
  | o :: r => let '(s', c) := step fx genesis s o in
              let '(s'', cs) := run fx genesis s' r in (s'', c :: cs)
  end.

(* ---- AddGroup step by step (interleavings of concurrent callers) ----
   One AddGroup call is three steps, as the locks of the code make them:
     AHas   : chain.groups.Has(group.Id)            (no lock)
     ACheck : consensusHelper.CheckGroup(group)      (no lock, no access to the chain; accepts)
     ATail  : chain.lock.Lock(); parent present? PreGroup = lastGroup.Id? save    (one critical section)
   lk = true is that code.  lk = false is the check-then-act variant in which the two link checks run
   (under the read lock) before CheckGroup and the write lock covers save alone.
   remove(last) and removeFromCommonAncestor hold the write lock throughout: one step each.
   A thread is a sequence of calls; stop = true gives up at the first refusal (triggerOnChain:
   removeFromCommonAncestor, then AddGroup of the fork groups until one fails). *)
Inductive apc := AHas | ACheck | ATail.
Record thread := mkT { cur : option (group * apc); prog : list op; stop : bool; rets : list N }.

Definition links (s : state) (g : group) : N :=
  if negb (has s (gparent g)) then 2 else if negb (gid (last s) =? gpre g) then 3 else 0.

Definition finish (t : thread) (c : N) : thread :=
  {| cur := None; prog := if stop t && negb (c =? 0) then [] else prog t; stop := stop t;
     rets := c :: rets t |}.
Definition at_pc (t : thread) (g : group) (pc : apc) : thread :=
  {| cur := Some (g, pc); prog := prog t; stop := stop t; rets := rets t |}.

Definition tstep (lk : bool) (g0 : group) (s : state) (t : thread) : option (state * thread) :=
  match cur t with
  | Some (g, AHas) =>
      if has s (gid g) then Some (s, finish t 1)
      else if lk then Some (s, at_pc t g ACheck)
      else if links s g =? 0 then Some (s, at_pc t g ACheck) else Some (s, finish t (links s g))
  | Some (g, ACheck) => Some (s, at_pc t g ATail)
  | Some (g, ATail) =>
      if lk then (if links s g =? 0 then Some (save s g, finish t 0) else Some (s, finish t (links s g)))
      else Some (save s g, finish t 0)
  | None =>
      match prog t with
      | [] => None                                       (* the thread has returned *)
      | Add g :: r => Some (s, {| cur := Some (g, AHas); prog := r; stop := stop t; rets := rets t |})
      | o :: r => let '(s', c) := step true g0 s o in
                  Some (s', finish {| cur := None; prog := r; stop := stop t; rets := rets t |} c)
      end
  end.

Fixpoint upd_nth {A} (n : nat) (x : A) (l : list A) : list A :=
  match l, n with
  | [], _ => []
  | _ :: r, O => x :: r
  | a :: r, S k => a :: upd_nth k x r
  end.

(* a schedule names the thread that moves next; naming a thread that has returned is a no-op *)
Fixpoint crun (lk : bool) (g0 : group) (s : state) (ts : list thread) (sched : list nat)
  : state * list thread :=
  match sched with
  | [] => (s, ts)
  | i :: r => match nth_error ts i with
              | Some t => match tstep lk g0 s t with
                          | Some (s', t') => crun lk g0 s' (upd_nth i t' ts) r
                          | None => crun lk g0 s ts r
                          end
              | None => crun lk g0 s ts r
              end
  end.

(* ---- what a reader that does not take the lock can see (Count() and LastGroup() return the fields
   without locking).  Inside the critical section save assigns  count++  before  lastGroup = group,
   and remove assigns  count--  before  lastGroup = preGroup  (the LevelDB Put of "gcount" sits between
   the two assignments).  [save_mid] / [remove_mid] are the memory states between the two assignments. *)
Definition save_mid (s : state) (g : group) : state :=
  {| st := st (save s g); count := count s + 1; last := last s |}.
Definition remove_mid (s : state) (g : group) : state :=
  {| st := st (fst (remove true s g)); count := count s - 1; last := last s |}.
Definition lf_read (s : state) : N * group := (count s, last s).

(* ---- schedules with environment events: the threads of crun, the loss of sqlite rows at any moment,
   and a process exit at any moment between two steps (every goroutine is gone; a call parked in
   CheckGroup is lost; initGroupChain runs on the files).  A process exit in the middle of a critical
   section is a crash between Puts: out of scope. *)
Inductive event := EThread (i : nat) | ELoss (ids : list id) | EExit.

Fixpoint crun_env (lk : bool) (g0 : group) (s : state) (ts : list thread) (evs : list event)
  : state * list thread :=
  match evs with
  | [] => (s, ts)
  | EThread i :: r =>
      match nth_error ts i with
      | Some t => match tstep lk g0 s t with
                  | Some (s', t') => crun_env lk g0 s' (upd_nth i t' ts) r
                  | None => crun_env lk g0 s ts r
                  end
      | None => crun_env lk g0 s ts r
      end
  | ELoss ids :: r => crun_env lk g0 (set_sq s (drop_rows ids (sq (st s)))) ts r
  | EExit :: r => match boot (st s) g0 with
                  | BootOk s' => crun_env lk g0 s' [] r
                  | _ => (s, ts)
                  end
  end.

(* ---- triggerOnChain entered again after a pause (fork.current > fork.header): no removal, the
   remaining fork groups are added until the first refusal ---- *)
Definition trigger_reentry (s : state) (rest : list group) : state * bool := add_all s rest.

(* ---- inside the write critical sections: the state after the first k store writes of save / remove
   (statement order; count is assigned with the 4th write, lastGroup after it).  No reader that takes
   the read lock can see these states; a reader that does not take it can. ---- *)
Definition save_sub (k : nat) (s : state) (g : group) : state :=
  let c := count s in
  let g' := set_height g c in
  let p := st s in
  {| st := {| groups := if (Nat.leb 1 k) then upd (groups p) (gid g) (Some g') else groups p;
              gcur := if (Nat.leb 2 k) then Some (gid g) else gcur p;
              idx := if (Nat.leb 3 k) then upd (idx p) c (Some (gid g)) else idx p;
              gcnt := if (Nat.leb 4 k) then c + 1 else gcnt p;
              sq := sq p |};
     count := if (Nat.leb 4 k) then c + 1 else c;
     last := last s |}.

Definition remove_sub (k : nat) (s : state) (g : group) : state :=
  match get_by_id s (gpre g) with
  | None => s
  | Some pg =>
    let c := count s in
    let p := st s in
    {| st := {| groups := if (Nat.leb 1 k) then upd (groups p) (gid g) None else groups p;
                gcur := if (Nat.leb 2 k) then Some (gid pg) else gcur p;
                idx := if (Nat.leb 3 k) then upd (idx p) (c - 1) None else idx p;
                gcnt := if (Nat.leb 4 k) then c - 1 else gcnt p;
                sq := sq p |};
       count := if (Nat.leb 4 k) then c - 1 else c;
       last := last s |}
  end.

(* the states a reader holding the read lock can see in a schedule: write critical sections are single
   steps of crun_env, so these are exactly the states after the prefixes of the schedule *)
Definition locked_reader_state (lk : bool) (g0 : group) (s : state) (ts : list thread)
  (evs : list event) (n : nat) : state := fst (crun_env lk g0 s ts (firstn n evs)).

(* ---- shutdown: groupChain.Close() takes the write lock and closes the store; it writes nothing.
   In a schedule it is therefore a process exit at a step boundary (EExit of crun_env).
   Two other Closes, for the record:
   - closing WITHOUT the lock (the code before the repair): the writer's remaining store writes fail
     (their results are ignored), so the files hold the state after the first k writes: [save_sub] /
     [remove_sub], on which initGroupChain then runs;
   - a Close that rewrites the tip records from the memory fields without the lock: count read before a
     concurrent operation, written after it. ---- *)
Definition close_writes (c : N) (lid : id) (p : store) : store :=
  {| groups := groups p; idx := idx p; gcur := Some lid; gcnt := c; sq := sq p |}.
