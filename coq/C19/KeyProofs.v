(* C19 — the byte-level key space: when the four kinds of keys cannot collide, the byte-level store
   behaves as the model's four typed maps (refinement of every primitive that computes a key);
   32-byte ids (what CheckGroup / verifyGroup enforce: g.Id = NewIDFromPubkey(gpk).Serialize(),
   ID_LENGTH = 32) and fewer than HMAX groups make them not collide; the chain's keys and the fork scratch
   DB's keys ("groupFork" inside "group") cannot collide either; and witnesses of what happens when an
   id does collide. *)
From Coq Require Import List NArith Bool Lia.
From V.C19 Require Import Model KeyModel.
Import ListNotations.
Local Open Scope N_scope.

(* ---------------------------------------------------------------- byte strings *)
Lemma beqb_spec a : forall b, reflect (a = b) (beqb a b).
Proof.
  induction a as [|x a IH]; intros [|y b]; cbn [beqb]; try (constructor; congruence).
  destruct (N.eqb_spec x y) as [->|E]; cbn [andb].
  - destruct (IH b) as [->|E]; constructor; congruence.
  - constructor. congruence.
Qed.

Lemma beqb_refl a : beqb a a = true.
Proof. destruct (beqb_spec a a); congruence. Qed.

Lemma beqb_neq a b : a <> b -> beqb a b = false.
Proof. intros H. destruct (beqb_spec a b); congruence. Qed.

Lemma len_neq (a b : bytes) : length a <> length b -> a <> b.
Proof. intros H E. apply H. rewrite E. reflexivity. Qed.

Lemma le_n_length n : forall h, length (le_n n h) = n.
Proof. induction n as [|n IH]; intros h; cbn [le_n length]; [reflexivity|rewrite IH; reflexivity]. Qed.

Lemma be8_length h : length (be8 h) = 8%nat.
Proof. unfold be8. rewrite rev_length. apply le_n_length. Qed.

Lemma le_n_inj n : forall a b, a < 256 ^ N.of_nat n -> b < 256 ^ N.of_nat n ->
  le_n n a = le_n n b -> a = b.
Proof.
  induction n as [|n IH]; intros a b Ha Hb E.
  - cbn in Ha, Hb. lia.
  - cbn [le_n] in E. injection E as Em Ed.
    assert (Hp : 256 ^ N.of_nat (S n) = 256 * 256 ^ N.of_nat n).
    { rewrite Nnat.Nat2N.inj_succ, N.pow_succ_r'. reflexivity. }
    rewrite Hp in Ha, Hb.
    assert (a / 256 = b / 256).
    { apply IH; [apply N.div_lt_upper_bound; lia|apply N.div_lt_upper_bound; lia|exact Ed]. }
    rewrite (N.div_mod' a 256), (N.div_mod' b 256). congruence.
Qed.

Definition W64 : N := 18446744073709551616.

Lemma be8_inj a b : a < W64 -> b < W64 -> be8 a = be8 b -> a = b.
Proof.
  intros Ha Hb E. unfold be8 in E. apply (f_equal (@rev N)) in E. rewrite !rev_involutive in E.
  apply (le_n_inj 8); [exact Ha|exact Hb|exact E].
Qed.

Lemma be8_hmax : be8 HMAX = GCUR.
Proof. reflexivity. Qed.

Lemma hmax_w64 : HMAX < W64.
Proof. reflexivity. Qed.

(* ---------------------------------------------------------------- the keys do not collide *)
(* the four kinds of keys of the chain store, for 32-byte ids and fewer than HMAX groups *)
Theorem keys_disjoint_32 (i j : bytes) (h h' : N) :
  length i = 32%nat -> length j = 32%nat -> h < HMAX -> h' < HMAX ->
  i <> be8 h /\ i <> GCUR /\ i <> GCNT /\ be8 h <> GCUR /\ be8 h <> GCNT /\ GCUR <> GCNT /\
  (be8 h = be8 h' -> h = h') /\ i <> [].
Proof.
  intros Hi Hj Hh Hh'. pose proof hmax_w64.
  repeat split.
  - apply len_neq. rewrite Hi, be8_length. discriminate.
  - apply len_neq. rewrite Hi. discriminate.
  - apply len_neq. rewrite Hi. discriminate.
  - rewrite <- be8_hmax. intros E. apply be8_inj in E; lia.
  - apply len_neq. rewrite be8_length. discriminate.
  - discriminate.
  - intros E. apply be8_inj in E; lia.
  - apply len_neq. rewrite Hi. discriminate.
Qed.

(* the chain store (prefix "group") and the fork scratch DB (prefix "groupFork") share one LevelDB:
   a chain key is a 32-byte id, an 8-byte height key, "gcurrent" (8) or "gcount" (6); a fork key is a
   32-byte id, an 8-byte height key, "latestGroup" (11) or "groupCommonAncestorGroup" (24) *)
Theorem chain_fork_keys_disjoint (k k' : bytes) :
  (length k = 32 \/ length k = 8 \/ length k = 6)%nat ->
  (length k' = 32 \/ length k' = 8 \/ length k' = 11 \/ length k' = 24)%nat ->
  PFX ++ k <> PFXF ++ k'.
Proof.
  intros Hk Hk' E. unfold PFXF in E. rewrite <- app_assoc in E. apply app_inv_head in E.
  apply (f_equal (@length N)) in E. rewrite app_length in E. cbn [FORK length] in E. lia.
Qed.

(* a chain key that does fall into the fork DB's range: an id starting with "Fork" *)
Lemma chain_fork_collision k' : PFX ++ (FORK ++ k') = PFXF ++ k'.
Proof. unfold PFXF. rewrite app_assoc. reflexivity. Qed.

(* ---------------------------------------------------------------- refinement of the primitives *)
Section Refine.
Variable jb : bgroup -> bytes.
(* the bytes of id number i; 0 is the nil id *)
Variable idb : N -> bytes.
Hypothesis idb_inj : forall i j, idb i = idb j -> i = j.
Hypothesis idb_null : idb 0 = [].
Hypothesis idb_len : forall i, i <> 0 -> length (idb i) = 32%nat.

Definition gb (g : group) : bgroup :=
  mkBG (idb (gid g)) (idb (gpre g)) (idb (gparent g)) (gheight g).

Lemma idb_len_cases i : length (idb i) = 0%nat \/ length (idb i) = 32%nat.
Proof. destruct (N.eq_dec i 0) as [->|E]; [left; rewrite idb_null; reflexivity|right; auto]. Qed.

Lemma beqb_idb_idb i j : beqb (idb i) (idb j) = (i =? j).
Proof.
  destruct (N.eqb_spec i j) as [->|E]; [apply beqb_refl|]. apply beqb_neq. intros H. auto.
Qed.
Lemma idb_ne_be8 i h : idb i <> be8 h.
Proof. apply len_neq. rewrite be8_length. destruct (idb_len_cases i) as [-> | ->]; discriminate. Qed.
Lemma idb_ne_gcur i : idb i <> GCUR.
Proof. apply len_neq. destruct (idb_len_cases i) as [-> | ->]; discriminate. Qed.
Lemma idb_ne_gcnt i : idb i <> GCNT.
Proof. apply len_neq. destruct (idb_len_cases i) as [-> | ->]; discriminate. Qed.
Lemma be8_ne_gcnt h : be8 h <> GCNT.
Proof. apply len_neq. rewrite be8_length. discriminate. Qed.
Lemma be8_ne_gcur h : h < HMAX -> be8 h <> GCUR.
Proof. intros Hh. rewrite <- be8_hmax. intros E. pose proof hmax_w64. apply be8_inj in E; lia. Qed.
Lemma beqb_be8_be8 a b : a < HMAX -> b < HMAX -> beqb (be8 a) (be8 b) = (a =? b).
Proof.
  intros Ha Hb. pose proof hmax_w64.
  destruct (N.eqb_spec a b) as [->|E]; [apply beqb_refl|]. apply beqb_neq. intros H'.
  apply be8_inj in H'; lia.
Qed.

Ltac keys :=
  repeat first
    [ rewrite beqb_idb_idb
    | rewrite beqb_refl
    | rewrite (beqb_neq _ _ (idb_ne_be8 _ _))
    | rewrite (beqb_neq _ _ (idb_ne_gcur _))
    | rewrite (beqb_neq _ _ (idb_ne_gcnt _))
    | rewrite (beqb_neq _ _ (fun E => idb_ne_be8 _ _ (eq_sym E)))
    | rewrite (beqb_neq _ _ (fun E => idb_ne_gcur _ (eq_sym E)))
    | rewrite (beqb_neq _ _ (fun E => idb_ne_gcnt _ (eq_sym E)))
    | rewrite (beqb_neq _ _ (be8_ne_gcnt _))
    | rewrite (beqb_neq _ _ (fun E => be8_ne_gcnt _ (eq_sym E))) ].

(* the byte-level state represents the model state (LevelDB part) *)
Definition R (bs : bstate) (s : state) : Prop :=
  (forall i, bst bs (idb i) = option_map (fun g => VGroup (gb g)) (groups (st s) i)) /\
  groups (st s) 0 = None /\
  (forall h, h < HMAX -> bst bs (be8 h) = option_map (fun i => VRaw (idb i)) (idx (st s) h)) /\
  bst bs GCUR = option_map (fun i => VRaw (idb i)) (gcur (st s)) /\
  bst bs GCNT = Some (VRaw (be8 (gcnt (st s)))) /\
  bcount bs = count s /\ blast bs = gb (last s).

Lemma gb_set_height g h : bset_height (gb g) h = gb (set_height g h).
Proof. reflexivity. Qed.

Lemma refine_save bs s g : R bs s -> gid g <> 0 -> count s + 1 < HMAX ->
  R (b_save bs (gb g)) (save s g).
Proof.
  intros (R1 & R0 & R2 & R3 & R5 & Rc & Rl) Hnn Hc.
  unfold b_save, save, R. cbn [bst bcount blast st count last groups idx gcur gcnt gb bid].
  rewrite Rc. repeat split.
  - intros i. unfold bupd, upd. keys.
    destruct (i =? gid g); [rewrite gb_set_height; reflexivity|apply R1].
  - unfold upd. destruct (N.eqb_spec 0 (gid g)); [congruence|exact R0].
  - intros h Hh. unfold bupd, upd. keys.
    rewrite (beqb_neq _ _ (be8_ne_gcur h Hh)), beqb_be8_be8 by lia.
    destruct (h =? count s); [reflexivity|apply R2; exact Hh].
  - unfold bupd. rewrite (beqb_neq GCUR GCNT) by discriminate.
    rewrite (beqb_neq GCUR (be8 (count s))) by (intros E; apply (be8_ne_gcur (count s)); [lia|auto]).
    rewrite beqb_refl. reflexivity.
Qed.

Lemma refine_has bs s i : R bs s -> b_has (bst bs) (idb i) = has s i.
Proof.
  intros (R1 & _). unfold b_has, has. rewrite R1. destruct (groups (st s) i); reflexivity.
Qed.

Lemma refine_by_id bs s i : R bs s -> b_by_id (bst bs) (idb i) = option_map gb (get_by_id s i).
Proof.
  intros (R1 & _). unfold b_by_id, get_by_id. rewrite R1. destruct (groups (st s) i); reflexivity.
Qed.

Lemma refine_by_height bs s h : R bs s -> h < HMAX ->
  b_by_height jb (bst bs) h = option_map gb (get_by_height s h).
Proof.
  intros HR Hh. pose proof HR as (_ & _ & R2 & _). unfold b_by_height, get_by_height.
  rewrite (R2 h Hh). destruct (idx (st s) h) as [i|]; cbn [option_map raw]; [|reflexivity].
  apply refine_by_id. exact HR.
Qed.

Lemma refine_add bs s g : R bs s -> gid g <> 0 -> count s + 1 < HMAX ->
  R (fst (b_add_group bs (gb g))) (fst (add_group s g)) /\
  snd (b_add_group bs (gb g)) = snd (add_group s g).
Proof.
  intros HR Hnn Hc. unfold b_add_group, add_group. cbn [gb bid bparent bpre].
  rewrite !(refine_has bs s _ HR).
  destruct (has s (gid g)); [split; [exact HR|reflexivity]|].
  destruct (has s (gparent g)); cbn [negb]; [|split; [exact HR|reflexivity]].
  pose proof HR as (_ & _ & _ & _ & _ & _ & Rl). rewrite Rl. cbn [gb bid].
  rewrite beqb_idb_idb.
  destruct (gid (last s) =? gpre g); cbn [negb fst snd]; [|split; [exact HR|reflexivity]].
  split; [apply refine_save; assumption|reflexivity].
Qed.

(* remove(g) for a group g that is stored under its id with a non-nil id (the last group) *)
Lemma refine_remove bs s g : R bs s -> gid g <> 0 -> count s < HMAX ->
  R (fst (b_remove bs (gb g))) (fst (remove true s g)) /\
  snd (b_remove bs (gb g)) = snd (remove true s g).
Proof.
  intros HR Hnn Hc. unfold b_remove, remove. cbn [gb bpre bid].
  rewrite (refine_by_id bs s _ HR).
  destruct (get_by_id s (gpre g)) as [pg|]; cbn [option_map fst snd]; [|split; [exact HR|reflexivity]].
  split; [|reflexivity].
  destruct HR as (R1 & R0 & R2 & R3 & R5 & Rc & Rl).
  unfold R. cbn [bst bcount blast st count last groups idx gcur gcnt gb bid].
  rewrite Rc. repeat split.
  - intros i. unfold bupd, upd. keys. destruct (i =? gid g); [reflexivity|apply R1].
  - unfold upd. destruct (N.eqb_spec 0 (gid g)); [reflexivity|exact R0].
  - intros h Hh. unfold bupd, upd. keys.
    rewrite (beqb_neq _ _ (be8_ne_gcur h Hh)), beqb_be8_be8 by lia.
    destruct (h =? count s - 1); [reflexivity|apply R2; exact Hh].
  - unfold bupd. rewrite (beqb_neq GCUR GCNT) by discriminate.
    rewrite (beqb_neq GCUR (be8 (count s - 1))) by (intros E; apply (be8_ne_gcur (count s - 1)); [lia|auto]).
    rewrite beqb_refl. reflexivity.
Qed.
End Refine.

(* ---------------------------------------------------------------- when an id does collide *)
Definition wj (g : bgroup) : bytes := [123].          (* any json: "{" *)
Definition bgen : bgroup := mkBG [1] [] [] 0.
(* first start: save(genesis) on the empty store *)
Definition binit : bstate :=
  b_save {| bst := fun _ => None; bcount := 0; blast := bgen |} bgen.

(* an 8-byte id equal to the height key it is about to receive: AddGroup accepts it (Has = false,
   parent and PreGroup fine) and save overwrites the group's own record with the id bytes:
   the last group is not retrievable by id, and height 1 resolves to nothing although count = 2 *)
Lemma collide_height_key_refuted :
  let g := mkBG (be8 1) [1] [1] 0 in
  let r := b_add_group binit g in
  snd r = 0 /\ bcount (fst r) = 2 /\ bid (blast (fst r)) = be8 1 /\
  b_by_id (bst (fst r)) (be8 1) = None /\ b_by_height wj (bst (fst r)) 1 = None.
Proof. cbn zeta. repeat split. Qed.

(* an id equal to "gcount": Has("gcount") is true on every initialised store, so the group is reported
   as already existing although no such group is on the chain; the store is unchanged *)
Lemma collide_gcount_refuted :
  let g := mkBG GCNT [1] [1] 0 in
  snd (b_add_group binit g) = 1 /\ b_by_id (bst binit) GCNT = None.
Proof. cbn zeta. repeat split. Qed.

(* an 8-byte id equal to an occupied height key is refused as existing; equal to "gcurrent" likewise *)
Lemma collide_existing_refuted :
  snd (b_add_group binit (mkBG (be8 0) [1] [1] 0)) = 1 /\
  snd (b_add_group binit (mkBG GCUR [1] [1] 0)) = 1.
Proof. split; reflexivity. Qed.
