(* C19 — invariant of the group chain store, its preservation by every operation of the repaired
   code, the observable property it implies, and the refutation for [remove] as originally written. *)
From Coq Require Import List NArith Bool Lia.
From V.C19 Require Import Model.
Import ListNotations.
Local Open Scope N_scope.

(* ---------------------------------------------------------------- abstract list (last group first) *)
Definition lookup (l : list group) (x : id) : option group := find (fun g => x =? gid g) l.
Definition lookup_h (l : list group) (h : N) : option group := find (fun g => h =? gheight g) l.

Definition genesis_ok (g0 : group) : Prop := gid g0 <> null_id /\ gpre g0 = null_id.

(* l = [last; ...; genesis]: predecessor links, heights = positions, ids distinct and non-nil *)
Fixpoint chain (g0 : group) (l : list group) : Prop :=
  match l with
  | [] => False
  | g :: r =>
    match r with
    | [] => g = set_height g0 0
    | p :: _ => gpre g = gid p /\ gheight g = N.of_nat (length r) /\
                ~ In (gid g) (map gid r) /\ gid g <> null_id /\ chain g0 r
    end
  end.

Definition row (g : group) : id * N := (gid g, gheight g).

Definition Inv (g0 : group) (s : state) : Prop :=
  exists l,
    chain g0 l /\
    hd_error l = Some (last s) /\
    count s = N.of_nat (length l) /\
    gcnt (st s) = count s /\
    gcur (st s) = Some (gid (last s)) /\
    (forall x, groups (st s) x = lookup l x) /\
    (forall h, idx (st s) h = option_map gid (lookup_h l h)) /\
    sq (st s) = map row l.

(* ---------------------------------------------------------------- facts about [chain] *)
Section Chain.
Variable g0 : group.
Hypothesis G0 : genesis_ok g0.

Lemma chain_tail g p r : chain g0 (g :: p :: r) -> chain g0 (p :: r).
Proof. cbn [chain]. tauto. Qed.

Lemma chain_hd_height g r : chain g0 (g :: r) -> gheight g = N.of_nat (length r).
Proof.
  destruct r as [|p r]; cbn [chain].
  - intros ->. reflexivity.
  - tauto.
Qed.

Lemma chain_heights_lt l : chain g0 l -> forall g, In g l -> gheight g < N.of_nat (length l).
Proof.
  induction l as [|g r IH]; [intros []|].
  intros Hc x [<-|Hin].
  - rewrite (chain_hd_height _ _ Hc). cbn [length]. lia.
  - destruct r as [|p r']; [destruct Hin|].
    specialize (IH (chain_tail _ _ _ Hc) x Hin). cbn [length] in *. lia.
Qed.

Lemma chain_nonnull l : chain g0 l -> ~ In null_id (map gid l).
Proof.
  induction l as [|g r IH]; [intros []|].
  intros Hc. destruct r as [|p r'].
  - cbn [chain] in Hc. subst g. cbn. intros [H|[]]. destruct G0 as [G _]. congruence.
  - pose proof (chain_tail _ _ _ Hc) as Ht. cbn [chain] in Hc.
    destruct Hc as (_ & _ & _ & Hn & _).
    intros [H|H]; [congruence|]. exact (IH Ht H).
Qed.

Lemma chain_nodup l : chain g0 l -> NoDup (map gid l).
Proof.
  induction l as [|g r IH]; [intros []|].
  intros Hc. destruct r as [|p r'].
  - cbn. constructor; [intros []|constructor].
  - pose proof (chain_tail _ _ _ Hc) as Ht. cbn [chain] in Hc.
    destruct Hc as (_ & _ & Hni & _ & _).
    cbn [map]. constructor; [exact Hni|]. exact (IH Ht).
Qed.

Lemma chain_genesis_last l : chain g0 l -> exists r, l = r ++ [set_height g0 0].
Proof.
  induction l as [|g r IH]; [intros []|].
  intros Hc. destruct r as [|p r'].
  - cbn [chain] in Hc. subst. exists []. reflexivity.
  - destruct (IH (chain_tail _ _ _ Hc)) as [r0 E]. exists (g :: r0). rewrite E. reflexivity.
Qed.
End Chain.

(* ---------------------------------------------------------------- facts about lookups *)
Lemma lookup_cons g l x : lookup (g :: l) x = if x =? gid g then Some g else lookup l x.
Proof. reflexivity. Qed.
Lemma lookup_h_cons g l h : lookup_h (g :: l) h = if h =? gheight g then Some g else lookup_h l h.
Proof. reflexivity. Qed.

Lemma lookup_none l x : lookup l x = None <-> ~ In x (map gid l).
Proof.
  induction l as [|g r IH]; cbn [map In].
  - split; [intros _ []|reflexivity].
  - rewrite lookup_cons. destruct (N.eqb_spec x (gid g)) as [E|E].
    + split; [discriminate|]. intros H. exfalso. apply H. left. congruence.
    + rewrite IH. split; [intros H [H'|H']; [congruence|tauto]|tauto].
Qed.

Lemma lookup_in l g : NoDup (map gid l) -> In g l -> lookup l (gid g) = Some g.
Proof.
  induction l as [|a r IH]; [intros _ []|].
  cbn [map]. intros Hnd [->|Hin]; rewrite lookup_cons.
  - rewrite N.eqb_refl. reflexivity.
  - inversion Hnd as [|? ? Hni Hnd']; subst.
    destruct (N.eqb_spec (gid g) (gid a)) as [E|E].
    + exfalso. apply Hni. rewrite <- E. apply in_map. exact Hin.
    + apply IH; assumption.
Qed.

Lemma lookup_h_none l n h :
  (forall g, In g l -> gheight g < n) -> n <= h -> lookup_h l h = None.
Proof.
  induction l as [|a r IH]; [reflexivity|].
  intros Hlt Hle. rewrite lookup_h_cons.
  destruct (N.eqb_spec h (gheight a)) as [E|E].
  - specialize (Hlt a (or_introl eq_refl)). lia.
  - apply IH; [|exact Hle]. intros g Hg. apply Hlt. right. exact Hg.
Qed.

Lemma sq_del_notin l i : ~ In i (map gid l) -> sq_del i (map row l) = map row l.
Proof.
  induction l as [|a r IH]; [reflexivity|].
  cbn [map In]. intros H. unfold sq_del in *. cbn [filter row fst].
  destruct (N.eqb_spec (gid a) i) as [E|E]; [tauto|].
  cbn [negb]. f_equal. apply IH. tauto.
Qed.

Lemma sq_lookup_rows l x : sq_lookup (map row l) x = option_map gheight (lookup l x).
Proof.
  induction l as [|a r IH]; [reflexivity|].
  unfold sq_lookup in *. cbn [map find row fst]. rewrite lookup_cons.
  rewrite (N.eqb_sym (gid a) x). destruct (x =? gid a); [reflexivity|exact IH].
Qed.

(* ---------------------------------------------------------------- the invariant is established and kept *)
Section Preservation.
Variable g0 : group.
Hypothesis G0 : genesis_ok g0.

Lemma inv_init : Inv g0 (init g0).
Proof.
  exists [set_height g0 0]. unfold init, save. cbn [st count last groups idx gcur gcnt sq empty_store].
  split; [reflexivity|]. split; [reflexivity|]. split; [reflexivity|]. split; [reflexivity|].
  split; [reflexivity|]. split; [|split].
  - intros x. unfold upd. rewrite lookup_cons. reflexivity.
  - intros h. unfold upd. rewrite lookup_h_cons. cbn [set_height gheight gid lookup_h find].
    destruct (h =? 0); reflexivity.
  - reflexivity.
Qed.

Lemma inv_save s g :
  Inv g0 s -> gid g <> null_id -> groups (st s) (gid g) = None -> gpre g = gid (last s) ->
  Inv g0 (save s g).
Proof.
  intros (l & Hc & Hhd & Hn & Hgc & Hcur & Hg & Hi & Hsq) Hnn Hnone Hpre.
  destruct l as [|p r]; [destruct Hc|]. cbn [hd_error] in Hhd. injection Hhd as Hp.
  rewrite Hg in Hnone. apply lookup_none in Hnone.
  exists (set_height g (count s) :: p :: r).
  unfold save. cbn [st count last groups idx gcur gcnt sq].
  split; [|split; [|split; [|split; [|split; [|split; [|split]]]]]].
  - cbn [chain set_height gpre gheight gid]. repeat split; try assumption.
    + rewrite Hpre, Hp. reflexivity.
  - reflexivity.
  - rewrite Hn. cbn [length]. lia.
  - reflexivity.
  - reflexivity.
  - intros x. unfold upd. rewrite lookup_cons. cbn [set_height gid]. rewrite Hg. reflexivity.
  - intros h. unfold upd. rewrite lookup_h_cons. cbn [set_height gheight].
    rewrite Hi. destruct (h =? count s); reflexivity.
  - rewrite Hsq. unfold sq_replace. rewrite (sq_del_notin _ _ Hnone). reflexivity.
Qed.

Lemma inv_add s g : Inv g0 s -> gid g <> null_id -> Inv g0 (fst (add_group s g)).
Proof.
  intros HI Hnn. unfold add_group, has.
  destruct (groups (st s) (gid g)) eqn:E1; [exact HI|].
  destruct (groups (st s) (gparent g)) eqn:E2; cbn [negb]; [|exact HI].
  destruct (N.eqb_spec (gid (last s)) (gpre g)) as [E3|E3]; cbn [negb fst]; [|exact HI].
  apply inv_save; auto.
Qed.

(* remove(lastGroup), repaired statement *)
Lemma inv_remove_last s :
  Inv g0 s ->
  let s' := fst (remove true s (last s)) in
  Inv g0 s' /\ (2 <= count s -> count s' = count s - 1).
Proof.
  intros HI. pose proof HI as (l & Hc & Hhd & Hn & Hgc & Hcur & Hg & Hi & Hsq).
  destruct l as [|g r]; [destruct Hc|]. cbn [hd_error] in Hhd. injection Hhd as Hp. subst g.
  unfold remove, get_by_id. rewrite Hg.
  destruct r as [|p r'].
  - (* genesis alone: PreGroup does not resolve, nothing happens *)
    cbn [chain] in Hc. rewrite Hc. cbn [set_height gpre gid lookup find].
    destruct G0 as [Gid Gpre]. rewrite Gpre.
    destruct (N.eqb_spec null_id (gid g0)) as [E|E]; [congruence|].
    cbn [fst]. split; [exact HI|]. cbn [length] in Hn. lia.
  - pose proof (chain_tail _ _ _ _ Hc) as Ht.
    pose proof (chain_heights_lt _ _ Ht) as Hlt.
    pose proof (chain_hd_height _ _ _ Hc) as Hh.
    cbn [chain] in Hc. destruct Hc as (Hpre & _ & Hni & Hnn & _).
    assert (Hne : gid p <> gid (last s)) by (intros E; apply Hni; left; exact E).
    rewrite Hpre, lookup_cons.
    destruct (N.eqb_spec (gid p) (gid (last s))) as [E|_]; [congruence|].
    rewrite lookup_cons, N.eqb_refl. cbn [fst st count last groups idx gcur gcnt sq].
    assert (Hcnt : count s - 1 = N.of_nat (length (p :: r'))) by (rewrite Hn; cbn [length]; lia).
    split; [|intros _; reflexivity].
    exists (p :: r'). cbn [st count last groups idx gcur gcnt sq].
    split; [exact Ht|]. split; [reflexivity|]. split; [exact Hcnt|]. split; [reflexivity|].
    split; [reflexivity|]. split; [|split].
    + intros x. unfold upd. destruct (N.eqb_spec x (gid (last s))) as [->|E].
      * symmetry. apply lookup_none. exact Hni.
      * rewrite Hg, lookup_cons. destruct (N.eqb_spec x (gid (last s))); [congruence|reflexivity].
    + intros h. unfold upd. destruct (N.eqb_spec h (count s - 1)) as [->|E].
      * rewrite (lookup_h_none (p :: r') (count s - 1) (count s - 1)); [reflexivity| |lia].
        intros g Hg'. rewrite Hcnt. apply Hlt. exact Hg'.
      * rewrite Hi, lookup_h_cons.
        destruct (N.eqb_spec h (gheight (last s))) as [E'|_]; [|reflexivity].
        exfalso. apply E. rewrite E', Hh, Hcnt. reflexivity.
    + rewrite Hsq. cbn [map]. unfold sq_del at 1. cbn [filter row fst].
      rewrite N.eqb_refl. cbn [negb]. apply (sq_del_notin (p :: r')). exact Hni.
Qed.

Lemma top_is_last s : Inv g0 s -> get_by_height s (count s - 1) = Some (last s).
Proof.
  intros (l & Hc & Hhd & Hn & _ & _ & Hg & Hi & _).
  destruct l as [|g r]; [destruct Hc|]. cbn [hd_error] in Hhd. injection Hhd as Hp. subst g.
  pose proof (chain_hd_height _ _ _ Hc) as Hh.
  unfold get_by_height, get_by_id. rewrite Hi, lookup_h_cons.
  replace (count s - 1) with (gheight (last s)) by (rewrite Hh, Hn; cbn [length]; lia).
  rewrite N.eqb_refl. cbn [option_map]. rewrite Hg, lookup_cons, N.eqb_refl. reflexivity.
Qed.

Lemma inv_rm_loop n : forall s,
  Inv g0 s -> N.of_nat n < count s -> Inv g0 (rm_loop true n (count s - 1) s).
Proof.
  induction n as [|n IH]; intros s HI Hlt; [exact HI|].
  cbn [rm_loop]. rewrite (top_is_last _ HI).
  destruct (inv_remove_last s HI) as [HI' Hc']. cbn zeta in *.
  assert (H2 : 2 <= count s) by lia.
  specialize (Hc' H2). rewrite <- Hc'. apply IH; [exact HI'|]. lia.
Qed.

Lemma inv_remove_from s anc : Inv g0 s -> Inv g0 (remove_from true s anc).
Proof.
  intros HI. unfold remove_from, chain_height.
  destruct (N.ltb_spec 1 (count s)) as [H|H].
  - apply inv_rm_loop; [exact HI|]. rewrite N2Nat.id. lia.
  - replace (0 - gheight anc) with 0 by lia. exact HI.
Qed.

(* a restart on a reachable store gives back exactly the state before it *)
Lemma restart_identity s : Inv g0 s -> boot (st s) g0 = BootOk s.
Proof.
  intros (l & Hc & Hhd & Hn & Hgc & Hcur & Hg & Hi & Hsq).
  destruct l as [|g r]; [destruct Hc|]. cbn [hd_error] in Hhd. injection Hhd as Hp. subst g.
  unfold boot. rewrite Hcur, Hg, lookup_cons, N.eqb_refl.
  unfold refresh_cache, sq_count. rewrite Hsq, map_length, Hgc, Hn, N.eqb_refl.
  destruct s as [p c lg]. cbn [st count last] in *. rewrite <- Hn. reflexivity.
Qed.

Definition op_wf (o : op) : Prop := match o with Add g => gid g <> null_id | _ => True end.

Lemma inv_step s o :
  Inv g0 s -> op_wf o ->
  Inv g0 (fst (step true g0 s o)) /\ snd (step true g0 s o) < 98.
Proof.
  intros HI Hwf. destruct o as [g| |h|]; cbn [step].
  - split; [apply inv_add; assumption|].
    unfold add_group. destruct (has s (gid g)); [cbn; lia|].
    destruct (negb (has s (gparent g))); [cbn; lia|].
    destruct (negb (gid (last s) =? gpre g)); cbn; lia.
  - destruct (inv_remove_last s HI) as [HI' _]. cbn zeta in HI'.
    destruct (remove true s (last s)) as [s' b]. cbn [fst snd] in *.
    split; [exact HI'|]. destruct b; lia.
  - destruct (get_by_height s h) as [anc|]; cbn [fst snd].
    + split; [apply inv_remove_from; exact HI|lia].
    + split; [exact HI|lia].
  - rewrite (restart_identity s HI). cbn [fst snd]. split; [exact HI|lia].
Qed.

Lemma inv_run ops : forall s,
  Inv g0 s -> Forall op_wf ops ->
  Inv g0 (fst (run true g0 s ops)) /\ Forall (fun c => c < 98) (snd (run true g0 s ops)).
Proof.
  induction ops as [|o r IH]; intros s HI Hwf; cbn [run].
  - split; [exact HI|constructor].
  - inversion Hwf as [|? ? Ho Hr]; subst.
    destruct (inv_step s o HI Ho) as [HI' Hc].
    destruct (step true g0 s o) as [s' c]. cbn [fst snd] in *.
    destruct (IH s' HI' Hr) as [HI'' Hcs].
    destruct (run true g0 s' r) as [s'' cs]. cbn [fst snd] in *.
    split; [exact HI''|constructor; assumption].
Qed.

(* where no group is removed the original and the repaired code are the same function *)
Definition no_remove (o : op) : Prop := match o with RemoveLast | RemoveFrom _ => False | _ => True end.

Lemma step_fx_irrelevant s o : no_remove o -> step false g0 s o = step true g0 s o.
Proof. destruct o; cbn; tauto. Qed.

Lemma run_fx_irrelevant ops : forall s, Forall no_remove ops -> run false g0 s ops = run true g0 s ops.
Proof.
  induction ops as [|o r IH]; intros s H; [reflexivity|].
  inversion H; subst. cbn [run]. rewrite step_fx_irrelevant by assumption.
  destruct (step true g0 s o) as [s' c]. rewrite IH by assumption. reflexivity.
Qed.
End Preservation.

(* ---------------------------------------------------------------- the property, on observables only *)
(* following predecessor links from g visits exactly the list w and then finds no predecessor *)
Inductive walks (s : state) : group -> list group -> Prop :=
| walks_end g : get_by_id s (gpre g) = None -> walks s g [g]
| walks_step g p r : get_by_id s (gpre g) = Some p -> walks s p r -> walks s g (g :: r).

(* l = the group list, genesis first *)
Definition SpecL (g0 : group) (s : state) (l : list group) : Prop :=
    walks s (last s) (rev l) /\
    (exists g, hd_error l = Some g /\ gid g = gid g0) /\
    count s = N.of_nat (length l) /\
    (forall i, i < count s -> get_by_height s i = nth_error l (N.to_nat i)) /\
    (forall i, count s <= i -> get_by_height s i = None) /\
    (forall g, In g l -> get_by_id s (gid g) = Some g).

Definition Spec (g0 : group) (s : state) : Prop := exists l, SpecL g0 s l.

(* GetSyncGroupsById(g.Id) = the (at most five) groups that follow g in the list, none of them nil *)
Definition SyncL (s : state) (l : list group) : Prop :=
  forall g, In g l ->
    sync_by_id s (gid g) = map Some (firstn 5 (skipn (S (N.to_nat (gheight g))) l)).

Section SpecFromInv.
Variable g0 : group.
Hypothesis G0 : genesis_ok g0.

Lemma walks_suffix s l :
  chain g0 l -> (forall x, groups (st s) x = lookup l x) ->
  forall r g, chain g0 (g :: r) -> (forall x, In x (g :: r) -> In x l) -> walks s g (g :: r).
Proof.
  intros Hc Hg. induction r as [|p r' IH]; intros g Hcs Hsub.
  - cbn [chain] in Hcs. subst g. apply walks_end. unfold get_by_id. rewrite Hg.
    cbn [set_height gpre]. destruct G0 as [_ ->]. apply lookup_none. exact (chain_nonnull _ G0 _ Hc).
  - pose proof (chain_tail _ _ _ _ Hcs) as Ht. cbn [chain] in Hcs. destruct Hcs as (Hpre & _).
    apply walks_step with (p := p).
    + unfold get_by_id. rewrite Hg, Hpre. apply lookup_in; [exact (chain_nodup _ _ Hc)|].
      apply Hsub. right. left. reflexivity.
    + apply IH; [exact Ht|]. intros x Hx. apply Hsub. right. exact Hx.
Qed.

Lemma lookup_h_nth l : chain g0 l -> forall i, (i < length l)%nat ->
  lookup_h l (N.of_nat i) = nth_error (rev l) i.
Proof.
  induction l as [|g r IH]; [intros []|].
  intros Hc i Hi. pose proof (chain_hd_height _ _ _ Hc) as Hh.
  rewrite lookup_h_cons. cbn [rev].
  destruct (N.eqb_spec (N.of_nat i) (gheight g)) as [E|E].
  - assert (i = length r) by lia. subst i.
    rewrite nth_error_app2 by (rewrite rev_length; lia).
    rewrite rev_length, PeanoNat.Nat.sub_diag. reflexivity.
  - assert (i < length r)%nat by (cbn [length] in Hi; lia).
    destruct r as [|p r']; [cbn in *; lia|].
    rewrite nth_error_app1 by (rewrite rev_length; assumption).
    apply IH; [exact (chain_tail _ _ _ _ Hc)|assumption].
Qed.

Lemma inv_specL s l :
  chain g0 l -> hd_error l = Some (last s) -> count s = N.of_nat (length l) ->
  (forall x, groups (st s) x = lookup l x) ->
  (forall h, idx (st s) h = option_map gid (lookup_h l h)) ->
  SpecL g0 s (rev l).
Proof.
  intros Hc Hhd Hn Hg Hi.
  pose proof (chain_nodup _ _ Hc) as Hnd.
  unfold SpecL. rewrite rev_involutive, rev_length.
  split; [|split; [|split; [|split; [|split]]]].
  - destruct l as [|g r]; [destruct Hc|]. cbn [hd_error] in Hhd. injection Hhd as <-.
    apply (walks_suffix s (g :: r)); auto.
  - destruct (chain_genesis_last _ _ Hc) as [r E]. exists (set_height g0 0).
    rewrite E, rev_app_distr. split; reflexivity.
  - exact Hn.
  - intros i Hlt. unfold get_by_height. rewrite Hi.
    assert (Hi' : (N.to_nat i < length l)%nat) by lia.
    rewrite <- (N2Nat.id i) at 1. rewrite (lookup_h_nth _ Hc _ Hi').
    destruct (nth_error (rev l) (N.to_nat i)) as [g|] eqn:E.
    + cbn [option_map]. unfold get_by_id. rewrite Hg. apply lookup_in; [exact Hnd|].
      apply in_rev. eapply nth_error_In. exact E.
    + exfalso. apply nth_error_None in E. rewrite rev_length in E. lia.
  - intros i Hle. unfold get_by_height. rewrite Hi.
    rewrite (lookup_h_none l (count s) i); [reflexivity| |exact Hle].
    intros g Hin. rewrite Hn. exact (chain_heights_lt _ _ Hc g Hin).
  - intros g Hin. unfold get_by_id. rewrite Hg. apply lookup_in; [exact Hnd|].
    apply in_rev. exact Hin.
Qed.

(* the sqlite index holds exactly the listed groups with their heights *)
Lemma inv_sqlite s : Inv g0 s ->
  sq_count (sq (st s)) = count s /\
  forall x, sq_lookup (sq (st s)) x = option_map gheight (get_by_id s x).
Proof.
  intros (l & _ & _ & Hn & _ & _ & Hg & _ & Hsq). split.
  - unfold sq_count. rewrite Hsq, map_length. symmetry. exact Hn.
  - intros x. unfold get_by_id. rewrite Hsq, Hg. apply sq_lookup_rows.
Qed.

(* GetSyncGroupsById returns the (at most five) groups that follow, none of them nil *)
Lemma skipn_nth {A} (L : list A) n x : nth_error L n = Some x -> skipn n L = x :: skipn (S n) L.
Proof.
  revert L. induction n as [|n IH]; intros [|a L] H; try discriminate.
  - injection H as ->. reflexivity.
  - cbn [skipn nth_error] in *. rewrite (IH _ H). reflexivity.
Qed.

Lemma sync_from_spec s l : chain g0 l ->
  (forall x, groups (st s) x = lookup l x) ->
  (forall h, idx (st s) h = option_map gid (lookup_h l h)) ->
  forall n k, sync_from s (N.of_nat k) n = map Some (firstn n (skipn k (rev l))).
Proof.
  intros Hc Hg Hi. pose proof (chain_nodup _ _ Hc) as Hnd.
  induction n as [|n IH]; intros k; [reflexivity|].
  cbn [sync_from]. rewrite Hi.
  destruct (PeanoNat.Nat.lt_ge_cases k (length l)) as [Hk|Hk].
  - rewrite (lookup_h_nth _ Hc _ Hk).
    destruct (nth_error (rev l) k) as [g|] eqn:E.
    + cbn [option_map]. rewrite (skipn_nth _ _ _ E). cbn [firstn map].
      unfold get_by_id. rewrite Hg, (lookup_in l g Hnd).
      * f_equal. replace (N.of_nat k + 1) with (N.of_nat (S k)) by lia. apply IH.
      * apply in_rev. eapply nth_error_In. exact E.
    + exfalso. apply nth_error_None in E. rewrite rev_length in E. lia.
  - rewrite (lookup_h_none l (N.of_nat (length l)) (N.of_nat k)).
    + cbn [option_map]. rewrite skipn_all2 by (rewrite rev_length; exact Hk). reflexivity.
    + exact (chain_heights_lt _ _ Hc).
    + lia.
Qed.

Lemma inv_syncL s l :
  chain g0 l ->
  (forall x, groups (st s) x = lookup l x) ->
  (forall h, idx (st s) h = option_map gid (lookup_h l h)) ->
  SyncL s (rev l).
Proof.
  intros Hc Hg Hi g Hin. unfold sync_by_id, get_by_id.
  rewrite Hg, (lookup_in l g (chain_nodup _ _ Hc)) by (apply in_rev; exact Hin).
  replace (gheight g + 1) with (N.of_nat (S (N.to_nat (gheight g)))) by lia.
  apply sync_from_spec; assumption.
Qed.

Lemma inv_spec_sync s : Inv g0 s -> exists l, SpecL g0 s l /\ SyncL s l.
Proof.
  intros (l & Hc & Hhd & Hn & _ & _ & Hg & Hi & _). exists (rev l). split.
  - apply inv_specL; assumption.
  - apply inv_syncL; assumption.
Qed.

Lemma inv_spec s : Inv g0 s -> Spec g0 s.
Proof. intros H. destruct (inv_spec_sync s H) as (l & Hs & _). exists l. exact Hs. Qed.
End SpecFromInv.

(* ---------------------------------------------------------------- remove as originally written *)
Definition wg0 : group := mkG 1 0 0 0.
Definition wg1 : group := mkG 2 1 1 0.

(* genesis, one added group, remove it: height 2 now answers with the genesis group although the
   count is 1 (and GetSyncGroupsById(genesis) returns a nil entry followed by genesis itself) *)
Lemma remove_refuted :
  genesis_ok wg0 /\ Forall op_wf [Add wg1; RemoveLast] /\
  let s := fst (run false wg0 (init wg0) [Add wg1; RemoveLast]) in
  count s = 1 /\ get_by_height s 2 = Some (set_height wg0 0) /\
  sync_by_id s (gid wg0) = [None; Some (set_height wg0 0)] /\
  ~ Spec wg0 s.
Proof.
  split; [split; [discriminate|reflexivity]|].
  split; [repeat constructor; discriminate|].
  cbn zeta. split; [reflexivity|]. split; [reflexivity|]. split; [reflexivity|].
  intros (l & _ & _ & _ & _ & Hge & _).
  specialize (Hge 2). 
  assert (E : get_by_height (fst (run false wg0 (init wg0) [Add wg1; RemoveLast])) 2
              = Some (set_height wg0 0)) by reflexivity.
  rewrite E in Hge.
  assert (Hc : count (fst (run false wg0 (init wg0) [Add wg1; RemoveLast])) = 1) by reflexivity.
  rewrite Hc in Hge. discriminate Hge. lia.
Qed.

(* one-step form: the repaired-code invariant holds before, the property fails after *)
Lemma remove_step_refuted :
  exists g0 s, genesis_ok g0 /\ Inv g0 s /\ ~ Spec g0 (fst (step false g0 s RemoveLast)).
Proof.
  exists wg0, (fst (run true wg0 (init wg0) [Add wg1])).
  assert (G : genesis_ok wg0) by (split; [discriminate|reflexivity]).
  split; [exact G|]. split.
  - apply inv_run; [exact G|apply inv_init|repeat constructor; discriminate].
  - intros (l & _ & _ & _ & _ & Hge & _).
    specialize (Hge 2).
    assert (E : get_by_height (fst (step false wg0 (fst (run true wg0 (init wg0) [Add wg1])) RemoveLast)) 2
                = Some (set_height wg0 0)) by reflexivity.
    rewrite E in Hge.
    assert (Hc : count (fst (step false wg0 (fst (run true wg0 (init wg0) [Add wg1])) RemoveLast)) = 1)
      by reflexivity.
    rewrite Hc in Hge. discriminate Hge. lia.
Qed.

(* ---------------------------------------------------------------- statements over whole histories *)
Lemma reachable_inv g0 ops : genesis_ok g0 -> Forall op_wf ops ->
  Inv g0 (fst (run true g0 (init g0) ops)) /\ Forall (fun c => c < 98) (snd (run true g0 (init g0) ops)).
Proof. intros G H. apply inv_run; [exact G|apply inv_init|exact H]. Qed.

Lemma reachable_spec g0 ops : genesis_ok g0 -> Forall op_wf ops ->
  let s := fst (run true g0 (init g0) ops) in
  (exists l, SpecL g0 s l /\ SyncL s l) /\
  sq_count (sq (st s)) = count s /\
  (forall x, sq_lookup (sq (st s)) x = option_map gheight (get_by_id s x)) /\
  step true g0 s Restart = (s, 0) /\
  Forall (fun c => c < 98) (snd (run true g0 (init g0) ops)).
Proof.
  intros G H. destruct (reachable_inv g0 ops G H) as [HI Hc]. cbn zeta.
  split; [exact (inv_spec_sync g0 G _ HI)|].
  destruct (inv_sqlite g0 _ HI) as [H1 H2].
  split; [exact H1|]. split; [exact H2|]. split; [|exact Hc].
  cbn [step]. rewrite (restart_identity g0 _ HI). reflexivity.
Qed.

Lemma original_without_remove g0 ops : genesis_ok g0 -> Forall op_wf ops -> Forall no_remove ops ->
  Spec g0 (fst (run false g0 (init g0) ops)).
Proof.
  intros G H Hn. rewrite run_fx_irrelevant by exact Hn.
  apply inv_spec; [exact G|]. apply reachable_inv; assumption.
Qed.
