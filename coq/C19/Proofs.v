(* C19 — invariant of the group chain store, its preservation by every operation of the repaired
   code, the observable property it implies, and the refutation for [remove] as originally written. *)
From Coq Require Import List NArith Bool Lia.
From V.C19 Require Import Model.
Import ListNotations.
Local Open Scope N_scope.

(* ---------------------------------------------------------------- abstract list (last group first) *)
Definition lookup (l : list group) (x : id) : option group := find (fun g => x =? gid g) l.
Definition lookup_h (l : list group) (h : N) : option group := find (fun g => h =? gheight g) l.

Definition genesis_ok (g0 : group) : Prop := gid g0 <> null_id /\ gpre g0 = null_id.

(* l = [last; ...; genesis]: predecessor links, heights = positions, ids distinct and non-nil *)
Fixpoint chain (g0 : group) (l : list group) : Prop :=
  match l with
  | [] => False
  | g :: r =>
    match r with
    | [] => g = set_height g0 0
    | p :: _ => gpre g = gid p /\ gheight g = N.of_nat (length r) /\
                ~ In (gid g) (map gid r) /\ gid g <> null_id /\ chain g0 r
    end
  end.

Definition row (g : group) : id * N := (gid g, gheight g).

(* what the sqlite index holds relative to the list: [SqSub] = no duplicate hash, every row is the row
   of a listed group (rows may be missing: the state after rows were lost outside the node);
   [SqOk] = moreover every listed group has its row *)
Definition SqSub (l : list group) (q : list (id * N)) : Prop :=
  NoDup (map fst q) /\ incl q (map row l).
Definition SqOk (l : list group) (q : list (id * N)) : Prop :=
  SqSub l q /\ incl (map row l) q.

Definition InvP (P : list group -> list (id * N) -> Prop) (g0 : group) (s : state) : Prop :=
  exists l,
    chain g0 l /\
    hd_error l = Some (last s) /\
    count s = N.of_nat (length l) /\
    gcnt (st s) = count s /\
    gcur (st s) = Some (gid (last s)) /\
    (forall x, groups (st s) x = lookup l x) /\
    (forall h, idx (st s) h = option_map gid (lookup_h l h)) /\
    P l (sq (st s)).

(* the invariant, and its weakening that survives the loss of sqlite rows *)
Definition Inv : group -> state -> Prop := InvP SqOk.
Definition InvW : group -> state -> Prop := InvP SqSub.

Lemma invp_weaken (P Q : list group -> list (id * N) -> Prop) g0 s :
  (forall l q, P l q -> Q l q) -> InvP P g0 s -> InvP Q g0 s.
Proof.
  intros H (l & H1 & H2 & H3 & H4 & H5 & H6 & H7 & H8).
  exists l. repeat (split; [assumption|]). apply H. exact H8.
Qed.

Lemma inv_invw g0 s : Inv g0 s -> InvW g0 s.
Proof. apply invp_weaken. intros l q [H _]. exact H. Qed.

(* ---------------------------------------------------------------- facts about [chain] *)
Section Chain.
Variable g0 : group.
Hypothesis G0 : genesis_ok g0.

Lemma chain_tail g p r : chain g0 (g :: p :: r) -> chain g0 (p :: r).
Proof. cbn [chain]. tauto. Qed.

Lemma chain_hd_height g r : chain g0 (g :: r) -> gheight g = N.of_nat (length r).
Proof.
  destruct r as [|p r]; cbn [chain].
  - intros ->. reflexivity.
  - tauto.
Qed.

Lemma chain_heights_lt l : chain g0 l -> forall g, In g l -> gheight g < N.of_nat (length l).
Proof.
  induction l as [|g r IH]; [intros []|].
  intros Hc x [<-|Hin].
  - rewrite (chain_hd_height _ _ Hc). cbn [length]. lia.
  - destruct r as [|p r']; [destruct Hin|].
    specialize (IH (chain_tail _ _ _ Hc) x Hin). cbn [length] in *. lia.
Qed.

Lemma chain_nonnull l : chain g0 l -> ~ In null_id (map gid l).
Proof.
  induction l as [|g r IH]; [intros []|].
  intros Hc. destruct r as [|p r'].
  - cbn [chain] in Hc. subst g. cbn. intros [H|[]]. destruct G0 as [G _]. congruence.
  - pose proof (chain_tail _ _ _ Hc) as Ht. cbn [chain] in Hc.
    destruct Hc as (_ & _ & _ & Hn & _).
    intros [H|H]; [congruence|]. exact (IH Ht H).
Qed.

Lemma chain_nodup l : chain g0 l -> NoDup (map gid l).
Proof.
  induction l as [|g r IH]; [intros []|].
  intros Hc. destruct r as [|p r'].
  - cbn. constructor; [intros []|constructor].
  - pose proof (chain_tail _ _ _ Hc) as Ht. cbn [chain] in Hc.
    destruct Hc as (_ & _ & Hni & _ & _).
    cbn [map]. constructor; [exact Hni|]. exact (IH Ht).
Qed.

Lemma chain_genesis_last l : chain g0 l -> exists r, l = r ++ [set_height g0 0].
Proof.
  induction l as [|g r IH]; [intros []|].
  intros Hc. destruct r as [|p r'].
  - cbn [chain] in Hc. subst. exists []. reflexivity.
  - destruct (IH (chain_tail _ _ _ Hc)) as [r0 E]. exists (g :: r0). rewrite E. reflexivity.
Qed.
End Chain.

(* ---------------------------------------------------------------- facts about lookups *)
Lemma lookup_cons g l x : lookup (g :: l) x = if x =? gid g then Some g else lookup l x.
Proof. reflexivity. Qed.
Lemma lookup_h_cons g l h : lookup_h (g :: l) h = if h =? gheight g then Some g else lookup_h l h.
Proof. reflexivity. Qed.

Lemma lookup_none l x : lookup l x = None <-> ~ In x (map gid l).
Proof.
  induction l as [|g r IH]; cbn [map In].
  - split; [intros _ []|reflexivity].
  - rewrite lookup_cons. destruct (N.eqb_spec x (gid g)) as [E|E].
    + split; [discriminate|]. intros H. exfalso. apply H. left. congruence.
    + rewrite IH. split; [intros H [H'|H']; [congruence|tauto]|tauto].
Qed.

Lemma lookup_in l g : NoDup (map gid l) -> In g l -> lookup l (gid g) = Some g.
Proof.
  induction l as [|a r IH]; [intros _ []|].
  cbn [map]. intros Hnd [->|Hin]; rewrite lookup_cons.
  - rewrite N.eqb_refl. reflexivity.
  - inversion Hnd as [|? ? Hni Hnd']; subst.
    destruct (N.eqb_spec (gid g) (gid a)) as [E|E].
    + exfalso. apply Hni. rewrite <- E. apply in_map. exact Hin.
    + apply IH; assumption.
Qed.

Lemma lookup_h_none l n h :
  (forall g, In g l -> gheight g < n) -> n <= h -> lookup_h l h = None.
Proof.
  induction l as [|a r IH]; [reflexivity|].
  intros Hlt Hle. rewrite lookup_h_cons.
  destruct (N.eqb_spec h (gheight a)) as [E|E].
  - specialize (Hlt a (or_introl eq_refl)). lia.
  - apply IH; [|exact Hle]. intros g Hg. apply Hlt. right. exact Hg.
Qed.

Lemma lookup_some l x g : lookup l x = Some g -> In g l /\ gid g = x.
Proof.
  induction l as [|a r IH]; [discriminate|].
  rewrite lookup_cons. destruct (N.eqb_spec x (gid a)) as [E|E].
  - intros H. injection H as <-. split; [left; reflexivity|congruence].
  - intros H. destruct (IH H). split; [right|]; assumption.
Qed.

Lemma gid_inj l x y : NoDup (map gid l) -> In x l -> In y l -> gid x = gid y -> x = y.
Proof.
  intros Hnd Hx Hy E. pose proof (lookup_in l x Hnd Hx) as H1.
  pose proof (lookup_in l y Hnd Hy) as H2. rewrite E in H1. congruence.
Qed.

Lemma map_fst_row l : map fst (map row l) = map gid l.
Proof. rewrite map_map. reflexivity. Qed.

Lemma nodup_rows l : NoDup (map gid l) -> NoDup (map row l).
Proof. intros H. apply (NoDup_map_inv fst). rewrite map_fst_row. exact H. Qed.

(* ---------------------------------------------------------------- facts about the sqlite statements *)
Lemma sq_del_in (i : N) (q : list (N * N)) (r : N * N) : In r (sq_del i q) <-> In r q /\ fst r <> i.
Proof.
  unfold sq_del. rewrite filter_In. cbv beta. destruct (fst r =? i) eqn:E; cbn [negb].
  - apply N.eqb_eq in E. split; [intros [_ H]; discriminate H|tauto].
  - apply N.eqb_neq in E. tauto.
Qed.

Lemma sq_del_nodup (i : N) (q : list (N * N)) : NoDup (map fst q) -> NoDup (map fst (sq_del i q)).
Proof.
  induction q as [|a q IH]; [intros; constructor|].
  cbn [map]. intros H. inversion H as [|? ? Hni Hnd]; subst.
  unfold sq_del in *. cbn [filter]. destruct (negb (fst a =? i)); [|apply IH; exact Hnd].
  cbn [map]. constructor; [|apply IH; exact Hnd].
  intros Hin. apply Hni. apply in_map_iff in Hin. destruct Hin as (r & E & Hr).
  apply filter_In in Hr. apply in_map_iff. exists r. tauto.
Qed.

Lemma sq_del_notin (i : N) (q : list (N * N)) : ~ In i (map fst (sq_del i q)).
Proof.
  intros H. apply in_map_iff in H. destruct H as (r & E & Hr).
  apply sq_del_in in Hr. tauto.
Qed.

Lemma sq_lookup_in (q : list (N * N)) (i h : N) : NoDup (map fst q) -> In (i, h) q -> sq_lookup q i = Some h.
Proof.
  induction q as [|a q IH]; [intros _ []|].
  cbn [map]. intros Hnd Hin. inversion Hnd as [|? ? Hni Hnd']; subst.
  unfold sq_lookup in *. cbn [find].
  destruct Hin as [->|Hin].
  - cbn [fst]. rewrite N.eqb_refl. reflexivity.
  - destruct (N.eqb_spec (fst a) i) as [E|E].
    + exfalso. apply Hni. rewrite E. apply (in_map fst _ _ Hin).
    + apply IH; assumption.
Qed.

Lemma sq_lookup_notin (q : list (N * N)) (i : N) : ~ In i (map fst q) -> sq_lookup q i = None.
Proof.
  induction q as [|a q IH]; [reflexivity|].
  cbn [map In]. intros H. unfold sq_lookup in *. cbn [find].
  destruct (N.eqb_spec (fst a) i) as [E|E]; [tauto|]. apply IH. tauto.
Qed.

Lemma sqsub_fst l q i : SqSub l q -> In i (map fst q) -> In i (map gid l).
Proof.
  intros [_ Hs] H. apply in_map_iff in H. destruct H as (r & <- & Hr).
  rewrite <- map_fst_row. apply in_map. apply Hs. exact Hr.
Qed.

(* save: replace INTO with the row of the new group, whose id is not listed *)
Lemma sqsub_save l g q : SqSub l q -> SqSub (g :: l) (sq_replace (gid g) (gheight g) q).
Proof.
  intros [Hnd Hs]. unfold sq_replace. split.
  - cbn [map fst]. constructor; [apply sq_del_notin|apply sq_del_nodup; exact Hnd].
  - intros r [<-|Hr]; [left; reflexivity|]. right. apply Hs. apply sq_del_in in Hr. tauto.
Qed.

Lemma sqok_save l g q :
  ~ In (gid g) (map gid l) -> SqOk l q -> SqOk (g :: l) (sq_replace (gid g) (gheight g) q).
Proof.
  intros Hni [Hsub Hc]. split; [apply sqsub_save; exact Hsub|].
  intros r [<-|Hr]; [left; reflexivity|]. right. apply sq_del_in. split; [apply Hc; exact Hr|].
  intros E. apply Hni. rewrite <- E, <- map_fst_row. apply in_map. exact Hr.
Qed.

(* remove: DELETE the row of the removed (first) group *)
Lemma sqsub_remove g l q : SqSub (g :: l) q -> SqSub l (sq_del (gid g) q).
Proof.
  intros [Hnd Hs]. split; [apply sq_del_nodup; exact Hnd|].
  intros r Hr. apply sq_del_in in Hr. destruct Hr as [Hr Hne].
  destruct (Hs r Hr) as [<-|H]; [exfalso; apply Hne; reflexivity|exact H].
Qed.

Lemma sqok_remove g l q : NoDup (map gid (g :: l)) -> SqOk (g :: l) q -> SqOk l (sq_del (gid g) q).
Proof.
  intros Hnd [Hsub Hc]. split; [apply sqsub_remove; exact Hsub|].
  intros r Hr. apply sq_del_in. split; [apply Hc; right; exact Hr|].
  intros E. inversion Hnd as [|? ? Hni _]; subst. apply Hni.
  rewrite <- E, <- map_fst_row. apply in_map. exact Hr.
Qed.

(* rows lost outside the node *)
Lemma sqsub_drop l ids : forall q, SqSub l q -> SqSub l (drop_rows ids q).
Proof.
  unfold drop_rows. induction ids as [|i r IH]; intros q H; [exact H|].
  cbn [fold_left]. apply IH. destruct H as [Hnd Hs]. split; [apply sq_del_nodup; exact Hnd|].
  intros x Hx. apply Hs. apply sq_del_in in Hx. tauto.
Qed.

(* no row missing iff the row count is the list length (pigeonhole) *)
Lemma sqok_length l q : NoDup (map gid l) -> SqOk l q -> length q = length l.
Proof.
  intros Hl [[Hnd Hs] Hc]. rewrite <- (map_length row l). apply PeanoNat.Nat.le_antisymm.
  - apply NoDup_incl_length; [exact (NoDup_map_inv fst q Hnd)|exact Hs].
  - apply NoDup_incl_length; [apply nodup_rows; exact Hl|exact Hc].
Qed.

Lemma sqsub_full l q : SqSub l q -> length q = length l -> SqOk l q.
Proof.
  intros [Hnd Hs] Hlen. split; [split; assumption|].
  apply NoDup_length_incl; [exact (NoDup_map_inv fst q Hnd)|rewrite map_length; lia|exact Hs].
Qed.

Lemma sqok_lookup l q x : NoDup (map gid l) -> SqOk l q ->
  sq_lookup q x = option_map gheight (lookup l x).
Proof.
  intros Hl [Hsub Hc]. destruct (lookup l x) as [g|] eqn:E; cbn [option_map].
  - apply lookup_some in E. destruct E as [Hin <-].
    apply sq_lookup_in; [exact (proj1 Hsub)|]. apply Hc. apply (in_map row _ _ Hin).
  - apply sq_lookup_notin. intros H. apply (sqsub_fst _ _ _ Hsub) in H.
    apply lookup_none in E. tauto.
Qed.

(* ---------------------------------------------------------------- the invariant is established and kept *)
Definition op_wf (o : op) : Prop :=
  match o with
  | Add g => gid g <> null_id
  | ForkSwitch _ gs => Forall (fun g => gid g <> null_id) gs
  | SetIndexRow _ _ => False          (* wrong sqlite rows: see refresh_walk_lookup, not the invariant *)
  | _ => True
  end.

(* operations of the node itself (everything but the loss of sqlite rows) *)
Definition no_loss (o : op) : Prop := match o with DropIndex _ => False | _ => True end.

Lemma op_eq_restart o : o = Restart \/ o <> Restart.
Proof. destruct o; [right|right|right|left|right|right|right]; congruence. Qed.

Section Preservation.
Variable g0 : group.
Hypothesis G0 : genesis_ok g0.

Lemma inv_init : Inv g0 (init g0).
Proof.
  exists [set_height g0 0]. unfold init, save. cbn [st count last groups idx gcur gcnt sq empty_store].
  split; [reflexivity|]. split; [reflexivity|]. split; [reflexivity|]. split; [reflexivity|].
  split; [reflexivity|]. split; [|split].
  - intros x. unfold upd. rewrite lookup_cons. reflexivity.
  - intros h. unfold upd. rewrite lookup_h_cons. cbn [set_height gheight gid lookup_h find].
    destruct (h =? 0); reflexivity.
  - unfold sq_replace. cbn. split; [split|].
    + constructor; [intros []|constructor].
    + apply incl_refl.
    + apply incl_refl.
Qed.

(* ---- the part common to the full and the weak invariant ---- *)
Section Generic.
Variable P : list group -> list (id * N) -> Prop.
(* a side condition on the groups handed to AddGroup that P may rely on (trivial for Inv and InvW) *)
Variable okg : group -> Prop.
Hypothesis okg_height : forall g h, okg g -> okg (set_height g h).
Hypothesis P_save : forall l g q,
  okg g -> ~ In (gid g) (map gid l) -> P l q -> P (g :: l) (sq_replace (gid g) (gheight g) q).

Definition op_ok (o : op) : Prop :=
  match o with Add g => okg g | ForkSwitch _ gs => Forall okg gs | _ => True end.
Hypothesis P_remove : forall g l q,
  NoDup (map gid (g :: l)) -> P (g :: l) q -> P l (sq_del (gid g) q).

Lemma inv_save s g :
  InvP P g0 s -> gid g <> null_id -> okg g -> groups (st s) (gid g) = None -> gpre g = gid (last s) ->
  InvP P g0 (save s g).
Proof.
  intros (l & Hc & Hhd & Hn & Hgc & Hcur & Hg & Hi & Hsq) Hnn Hok Hnone Hpre.
  destruct l as [|p r]; [destruct Hc|]. cbn [hd_error] in Hhd. injection Hhd as Hp.
  rewrite Hg in Hnone. apply lookup_none in Hnone.
  exists (set_height g (count s) :: p :: r).
  unfold save. cbn [st count last groups idx gcur gcnt sq].
  split; [|split; [|split; [|split; [|split; [|split; [|split]]]]]].
  - cbn [chain set_height gpre gheight gid]. repeat split; try assumption.
    + rewrite Hpre, Hp. reflexivity.
  - reflexivity.
  - rewrite Hn. cbn [length]. lia.
  - reflexivity.
  - reflexivity.
  - intros x. unfold upd. rewrite lookup_cons. cbn [set_height gid]. rewrite Hg. reflexivity.
  - intros h. unfold upd. rewrite lookup_h_cons. cbn [set_height gheight].
    rewrite Hi. destruct (h =? count s); reflexivity.
  - apply (P_save (p :: r) (set_height g (count s))); try assumption. apply okg_height. exact Hok.
Qed.

Lemma inv_add s g : InvP P g0 s -> gid g <> null_id -> okg g -> InvP P g0 (fst (add_group s g)).
Proof.
  intros HI Hnn Hok. unfold add_group, has.
  destruct (groups (st s) (gid g)) eqn:E1; [exact HI|].
  destruct (groups (st s) (gparent g)) eqn:E2; cbn [negb]; [|exact HI].
  destruct (N.eqb_spec (gid (last s)) (gpre g)) as [E3|E3]; cbn [negb fst]; [|exact HI].
  apply inv_save; auto.
Qed.

(* remove(lastGroup), repaired statement *)
Lemma inv_remove_last s :
  InvP P g0 s ->
  let s' := fst (remove true s (last s)) in
  InvP P g0 s' /\ (2 <= count s -> count s' = count s - 1).
Proof.
  intros HI. pose proof HI as (l & Hc & Hhd & Hn & Hgc & Hcur & Hg & Hi & Hsq).
  destruct l as [|g r]; [destruct Hc|]. cbn [hd_error] in Hhd. injection Hhd as Hp. subst g.
  unfold remove, get_by_id. rewrite Hg.
  destruct r as [|p r'].
  - (* genesis alone: PreGroup does not resolve, nothing happens *)
    cbn [chain] in Hc. rewrite Hc. cbn [set_height gpre gid lookup find].
    destruct G0 as [Gid Gpre]. rewrite Gpre.
    destruct (N.eqb_spec null_id (gid g0)) as [E|E]; [congruence|].
    cbn [fst]. split; [exact HI|]. cbn [length] in Hn. lia.
  - pose proof (chain_tail _ _ _ _ Hc) as Ht.
    pose proof (chain_heights_lt _ _ Ht) as Hlt.
    pose proof (chain_hd_height _ _ _ Hc) as Hh.
    pose proof (chain_nodup _ _ Hc) as Hnd.
    cbn [chain] in Hc. destruct Hc as (Hpre & _ & Hni & Hnn & _).
    assert (Hne : gid p <> gid (last s)) by (intros E; apply Hni; left; exact E).
    rewrite Hpre, lookup_cons.
    destruct (N.eqb_spec (gid p) (gid (last s))) as [E|_]; [congruence|].
    rewrite lookup_cons, N.eqb_refl. cbn [fst st count last groups idx gcur gcnt sq].
    assert (Hcnt : count s - 1 = N.of_nat (length (p :: r'))) by (rewrite Hn; cbn [length]; lia).
    split; [|intros _; reflexivity].
    exists (p :: r'). cbn [st count last groups idx gcur gcnt sq].
    split; [exact Ht|]. split; [reflexivity|]. split; [exact Hcnt|]. split; [reflexivity|].
    split; [reflexivity|]. split; [|split].
    + intros x. unfold upd. destruct (N.eqb_spec x (gid (last s))) as [->|E].
      * symmetry. apply lookup_none. exact Hni.
      * rewrite Hg, lookup_cons. destruct (N.eqb_spec x (gid (last s))); [congruence|reflexivity].
    + intros h. unfold upd. destruct (N.eqb_spec h (count s - 1)) as [->|E].
      * rewrite (lookup_h_none (p :: r') (count s - 1) (count s - 1)); [reflexivity| |lia].
        intros g Hg'. rewrite Hcnt. apply Hlt. exact Hg'.
      * rewrite Hi, lookup_h_cons.
        destruct (N.eqb_spec h (gheight (last s))) as [E'|_]; [|reflexivity].
        exfalso. apply E. rewrite E', Hh, Hcnt. reflexivity.
    + apply P_remove; assumption.
Qed.

Lemma top_is_last s : InvP P g0 s -> get_by_height s (count s - 1) = Some (last s).
Proof.
  intros (l & Hc & Hhd & Hn & _ & _ & Hg & Hi & _).
  destruct l as [|g r]; [destruct Hc|]. cbn [hd_error] in Hhd. injection Hhd as Hp. subst g.
  pose proof (chain_hd_height _ _ _ Hc) as Hh.
  unfold get_by_height, get_by_id. rewrite Hi, lookup_h_cons.
  replace (count s - 1) with (gheight (last s)) by (rewrite Hh, Hn; cbn [length]; lia).
  rewrite N.eqb_refl. cbn [option_map]. rewrite Hg, lookup_cons, N.eqb_refl. reflexivity.
Qed.

Lemma inv_rm_loop n : forall s,
  InvP P g0 s -> N.of_nat n < count s -> InvP P g0 (rm_loop true n (count s - 1) s).
Proof.
  induction n as [|n IH]; intros s HI Hlt; [exact HI|].
  cbn [rm_loop]. rewrite (top_is_last _ HI).
  destruct (inv_remove_last s HI) as [HI' Hc']. cbn zeta in *.
  assert (H2 : 2 <= count s) by lia.
  specialize (Hc' H2). rewrite <- Hc'. apply IH; [exact HI'|]. lia.
Qed.

Lemma inv_remove_from s anc : InvP P g0 s -> InvP P g0 (remove_from true s anc).
Proof.
  intros HI. unfold remove_from, chain_height.
  destruct (N.ltb_spec 1 (count s)) as [H|H].
  - apply inv_rm_loop; [exact HI|]. rewrite N2Nat.id. lia.
  - replace (0 - gheight anc) with 0 by lia. exact HI.
Qed.

(* triggerOnChain: the additions stop at the first refusal *)
Lemma inv_add_all gs : forall s,
  InvP P g0 s -> Forall (fun g => gid g <> null_id) gs -> Forall okg gs -> InvP P g0 (fst (add_all s gs)).
Proof.
  induction gs as [|g r IH]; intros s HI Hwf Hok; [exact HI|].
  inversion Hwf as [|? ? Hg Hr]; subst. inversion Hok as [|? ? Hokg Hokr]; subst. cbn [add_all].
  pose proof (inv_add s g HI Hg Hokg) as HI'.
  destruct (add_group s g) as [s' c]. cbn [fst] in HI'.
  destruct (c =? 0); [apply IH; assumption|exact HI'].
Qed.

Lemma inv_trigger s anc gs :
  InvP P g0 s -> Forall (fun g => gid g <> null_id) gs -> Forall okg gs ->
  InvP P g0 (fst (trigger_on_chain true s anc gs)).
Proof. intros HI Hwf Hok. apply inv_add_all; [apply inv_remove_from; exact HI|exact Hwf|exact Hok]. Qed.

(* every operation of the node except a restart *)
Lemma invp_step_core s o :
  InvP P g0 s -> op_wf o -> op_ok o -> no_loss o -> o <> Restart ->
  InvP P g0 (fst (step true g0 s o)) /\ snd (step true g0 s o) < 98.
Proof.
  intros HI Hwf Hok Hnl Hnr. destruct o as [g| |h| |h gs|ids|i0 h0]; cbn [step]; [| | | | | |destruct Hwf].
  - split; [apply inv_add; assumption|].
    unfold add_group. destruct (has s (gid g)); [cbn; lia|].
    destruct (negb (has s (gparent g))); [cbn; lia|].
    destruct (negb (gid (last s) =? gpre g)); cbn; lia.
  - destruct (inv_remove_last s HI) as [HI' _]. cbn zeta in HI'.
    destruct (remove true s (last s)) as [s' b]. cbn [fst snd] in *.
    split; [exact HI'|]. destruct b; lia.
  - destruct (get_by_height s h) as [anc|]; cbn [fst snd].
    + split; [apply inv_remove_from; exact HI|lia].
    + split; [exact HI|lia].
  - congruence.
  - destruct (get_by_height s h) as [anc|]; cbn [fst snd]; [|split; [exact HI|lia]].
    pose proof (inv_trigger s anc gs HI Hwf Hok) as HI'.
    destruct (trigger_on_chain true s anc gs) as [s' b]. cbn [fst snd] in *.
    split; [exact HI'|]. destruct b; lia.
  - destruct Hnl.
Qed.
End Generic.

Lemma op_ok_true o : op_ok (fun _ => True) o.
Proof. destruct o; cbn; auto. induction gs; constructor; auto. Qed.

(* ---- restart ---- *)
(* a restart on a store satisfying the full invariant gives back exactly the state before it *)
Lemma restart_identity s : Inv g0 s -> boot (st s) g0 = BootOk s.
Proof.
  intros (l & Hc & Hhd & Hn & Hgc & Hcur & Hg & Hi & Hsq).
  pose proof (sqok_length _ _ (chain_nodup _ _ Hc) Hsq) as Hlen.
  destruct l as [|g r]; [destruct Hc|]. cbn [hd_error] in Hhd. injection Hhd as Hp. subst g.
  unfold boot. rewrite Hcur, Hg, lookup_cons, N.eqb_refl.
  unfold refresh_cache, sq_count. rewrite Hlen, Hgc, Hn, N.eqb_refl.
  destruct s as [p c lg]. cbn [st count last] in *. rewrite <- Hn. reflexivity.
Qed.

(* refreshCache's loop: from any group of the list it walks to genesis, and afterwards every group it
   met has its row, no correct row was lost and no wrong row appeared *)
Lemma refresh_walk_spec l gs : chain g0 l -> (forall x, gs x = lookup l x) ->
  forall r g q fuel, chain g0 (g :: r) -> incl (g :: r) l -> (length r < fuel)%nat -> SqSub l q ->
  exists q', refresh_walk fuel gs g q = Some q' /\ SqSub l q' /\ incl q q' /\ incl (map row (g :: r)) q'.
Proof.
  intros Hc Hgs. pose proof (chain_nodup _ _ Hc) as Hnd.
  induction r as [|p r' IH]; intros g q fuel Hcs Hsub Hf HS.
  - destruct fuel as [|f]; [lia|]. cbn [refresh_walk].
    assert (Hgl : In g l) by (apply Hsub; left; reflexivity).
    assert (HS1 : SqSub l (sq_replace (gid g) (gheight g) q)).
    { destruct (sqsub_save l g q HS) as [H1 H2]. split; [exact H1|].
      intros x Hx. destruct (H2 x Hx) as [<-|H]; [apply (in_map row _ _ Hgl)|exact H]. }
    assert (Hq1 : incl q (sq_replace (gid g) (gheight g) q)).
    { intros x Hx. unfold sq_replace. destruct (N.eq_dec (fst x) (gid g)) as [E|E].
      - left. destruct HS as [_ HS2]. specialize (HS2 x Hx). apply in_map_iff in HS2.
        destruct HS2 as (y & <- & Hy). cbn [row fst] in E.
        rewrite (gid_inj l y g Hnd Hy Hgl E). reflexivity.
      - right. apply sq_del_in. tauto. }
    cbn [chain] in Hcs.
    assert (Hgp : gpre g = null_id) by (rewrite Hcs; cbn [set_height gpre]; apply G0).
    rewrite Hgs, Hgp.
    rewrite (proj2 (lookup_none l null_id) (chain_nonnull _ G0 _ Hc)).
    eexists. split; [reflexivity|]. split; [exact HS1|]. split; [exact Hq1|].
    intros x [<-|[]]. left. reflexivity.
  - destruct fuel as [|f]; [lia|]. cbn [refresh_walk].
    assert (Hgl : In g l) by (apply Hsub; left; reflexivity).
    assert (Hpl : In p l) by (apply Hsub; right; left; reflexivity).
    assert (HS1 : SqSub l (sq_replace (gid g) (gheight g) q)).
    { destruct (sqsub_save l g q HS) as [H1 H2]. split; [exact H1|].
      intros x Hx. destruct (H2 x Hx) as [<-|H]; [apply (in_map row _ _ Hgl)|exact H]. }
    assert (Hq1 : incl q (sq_replace (gid g) (gheight g) q)).
    { intros x Hx. unfold sq_replace. destruct (N.eq_dec (fst x) (gid g)) as [E|E].
      - left. destruct HS as [_ HS2]. specialize (HS2 x Hx). apply in_map_iff in HS2.
        destruct HS2 as (y & <- & Hy). cbn [row fst] in E.
        rewrite (gid_inj l y g Hnd Hy Hgl E). reflexivity.
      - right. apply sq_del_in. tauto. }
    pose proof (chain_tail _ _ _ _ Hcs) as Ht. cbn [chain] in Hcs. destruct Hcs as (Hpre & _).
    rewrite Hgs, Hpre, (lookup_in l p Hnd Hpl).
    destruct (IH p (sq_replace (gid g) (gheight g) q) f Ht) as (q' & E & HS' & Hi1 & Hi2).
    + intros x Hx. apply Hsub. right. exact Hx.
    + cbn [length] in Hf. lia.
    + exact HS1.
    + exists q'. split; [exact E|]. split; [exact HS'|]. split.
      * intros x Hx. apply Hi1. apply Hq1. exact Hx.
      * intros x [<-|Hx]; [apply Hi1; left; reflexivity|apply Hi2; exact Hx].
Qed.

(* a restart repairs the sqlite index: from the weak invariant it terminates, does not panic, changes
   nothing but the sqlite rows, and gives the full invariant *)
(* the list-level form: for the list l that represents s, a restart replaces the sqlite rows by a
   complete set for l and touches nothing else *)
Lemma restart_heals_l s l :
  chain g0 l -> hd_error l = Some (last s) -> count s = N.of_nat (length l) ->
  gcnt (st s) = count s -> gcur (st s) = Some (gid (last s)) ->
  (forall x, groups (st s) x = lookup l x) -> SqSub l (sq (st s)) ->
  exists q, boot (st s) g0 = BootOk (set_sq s q) /\ SqOk l q.
Proof.
  intros Hc Hhd Hn Hgc Hcur Hg Hsq.
  pose proof (chain_nodup _ _ Hc) as Hnd.
  assert (exists r, l = last s :: r) as [r El].
  { destruct l as [|g r]; [destruct Hc|]. cbn [hd_error] in Hhd. injection Hhd as ->.
    eexists; reflexivity. }
  assert (Hlen : length l = S (length r)) by (rewrite El; reflexivity).
  assert (Hin : In (last s) l) by (rewrite El; left; reflexivity).
  unfold boot. rewrite Hcur, Hg, (lookup_in l (last s) Hnd Hin).
  unfold refresh_cache.
  assert (Est : forall q, {| st := {| groups := groups (st s); idx := idx (st s); gcur := gcur (st s);
                                      gcnt := gcnt (st s); sq := q |};
                             count := gcnt (st s); last := last s |} = set_sq s q).
  { intros q. unfold set_sq. rewrite Hgc. reflexivity. }
  destruct (N.eqb_spec (sq_count (sq (st s))) (gcnt (st s))) as [E|E].
  - exists (sq (st s)). split.
    + rewrite <- Est. destruct s as [[a b c d e] n lg]. reflexivity.
    + apply sqsub_full; [exact Hsq|]. unfold sq_count in E. lia.
  - destruct (refresh_walk_spec l (groups (st s)) Hc Hg r (last s) (sq (st s))
                (S (S (N.to_nat (gcnt (st s))))))
      as (q' & E' & HS' & _ & Hall).
    + rewrite <- El. exact Hc.
    + rewrite <- El. apply incl_refl.
    + lia.
    + exact Hsq.
    + rewrite E'. exists q'. split; [rewrite Est; reflexivity|].
      split; [exact HS'|]. rewrite El. exact Hall.
Qed.

Lemma restart_heals s : InvW g0 s ->
  exists q, boot (st s) g0 = BootOk (set_sq s q) /\ Inv g0 (set_sq s q).
Proof.
  intros (l & Hc & Hhd & Hn & Hgc & Hcur & Hg & Hi & Hsq).
  destruct (restart_heals_l s l Hc Hhd Hn Hgc Hcur Hg Hsq) as (q & E & Hq).
  exists q. split; [exact E|]. exists l. unfold set_sq. cbn [st count last groups idx gcur gcnt sq].
  repeat (split; [assumption|]). exact Hq.
Qed.

Lemma set_sq_same s : set_sq s (sq (st s)) = s.
Proof. destruct s as [[a b c d e] n lg]. reflexivity. Qed.

(* ---- one step ---- *)
Lemma inv_step s o :
  Inv g0 s -> op_wf o -> no_loss o ->
  Inv g0 (fst (step true g0 s o)) /\ snd (step true g0 s o) < 98.
Proof.
  intros HI Hwf Hnl. destruct (op_eq_restart o) as [->|Hne].
  - cbn [step]. rewrite (restart_identity s HI). cbn [fst snd]. split; [exact HI|lia].
  - apply (invp_step_core SqOk (fun _ => True)); try assumption.
    + intros; exact I.
    + intros l g q _. apply sqok_save.
    + intros g l q. apply sqok_remove.
    + apply op_ok_true.
Qed.

Lemma invw_step s o :
  InvW g0 s -> op_wf o ->
  InvW g0 (fst (step true g0 s o)) /\ snd (step true g0 s o) < 98.
Proof.
  intros HI Hwf. destruct (op_eq_restart o) as [->|Hne].
  - cbn [step]. destruct (restart_heals s HI) as (q & -> & HI'). cbn [fst snd].
    split; [apply inv_invw; exact HI'|lia].
  - destruct o as [g| |h| |h gs|ids|i0 h0]; [| | | | | |destruct Hwf];
      try (apply (invp_step_core SqSub (fun _ => True)); try assumption; try exact I;
           try apply op_ok_true;
           [intros; exact I|intros l g' q _ _; apply sqsub_save|intros g' l q _; apply sqsub_remove]).
    cbn [step fst snd]. split; [|lia].
    destruct HI as (l & H1 & H2 & H3 & H4 & H5 & H6 & H7 & H8).
    exists l. unfold set_sq. cbn [st count last groups idx gcur gcnt sq].
    repeat (split; [assumption|]). apply sqsub_drop. exact H8.
Qed.

(* whatever was lost, a restart gives the full invariant back *)
Lemma restart_restores s : InvW g0 s -> Inv g0 (fst (step true g0 s Restart)).
Proof.
  intros HI. cbn [step]. destruct (restart_heals s HI) as (q & -> & HI'). exact HI'.
Qed.

Lemma invw_run ops : forall s,
  InvW g0 s -> Forall op_wf ops ->
  InvW g0 (fst (run true g0 s ops)) /\ Forall (fun c => c < 98) (snd (run true g0 s ops)).
Proof.
  induction ops as [|o r IH]; intros s HI Hwf; cbn [run].
  - split; [exact HI|constructor].
  - inversion Hwf as [|? ? Ho Hr]; subst.
    destruct (invw_step s o HI Ho) as [HI' Hc].
    destruct (step true g0 s o) as [s' c]. cbn [fst snd] in *.
    destruct (IH s' HI' Hr) as [HI'' Hcs].
    destruct (run true g0 s' r) as [s'' cs]. cbn [fst snd] in *.
    split; [exact HI''|constructor; assumption].
Qed.

Lemma inv_run ops : forall s,
  Inv g0 s -> Forall op_wf ops -> Forall no_loss ops -> Inv g0 (fst (run true g0 s ops)).
Proof.
  induction ops as [|o r IH]; intros s HI Hwf Hnl; cbn [run]; [exact HI|].
  inversion Hwf as [|? ? Ho Hr]; subst. inversion Hnl as [|? ? Hl Hlr]; subst.
  destruct (inv_step s o HI Ho Hl) as [HI' _].
  destruct (step true g0 s o) as [s' c]. cbn [fst] in *.
  specialize (IH s' HI' Hr Hlr).
  destruct (run true g0 s' r) as [s'' cs]. exact IH.
Qed.

Lemma run_app fx a : forall s b,
  fst (run fx g0 s (a ++ b)) = fst (run fx g0 (fst (run fx g0 s a)) b).
Proof.
  induction a as [|o r IH]; intros s b; [reflexivity|].
  cbn [app run]. destruct (step fx g0 s o) as [s' c]. specialize (IH s' b).
  destruct (run fx g0 s' (r ++ b)) as [s1 c1]. destruct (run fx g0 s' r) as [s2 c2].
  cbn [fst] in *. exact IH.
Qed.

(* where no group is removed the original and the repaired code are the same function *)
Definition no_remove (o : op) : Prop :=
  match o with RemoveLast | RemoveFrom _ | ForkSwitch _ _ | SetIndexRow _ _ => False | _ => True end.

Lemma step_fx_irrelevant s o : no_remove o -> step false g0 s o = step true g0 s o.
Proof. destruct o; cbn; tauto. Qed.

Lemma run_fx_irrelevant ops : forall s, Forall no_remove ops -> run false g0 s ops = run true g0 s ops.
Proof.
  induction ops as [|o r IH]; intros s H; [reflexivity|].
  inversion H; subst. cbn [run]. rewrite step_fx_irrelevant by assumption.
  destruct (step true g0 s o) as [s' c]. rewrite IH by assumption. reflexivity.
Qed.
End Preservation.

(* ---------------------------------------------------------------- the property, on observables only *)
(* following predecessor links from g visits exactly the list w and then finds no predecessor *)
Inductive walks (s : state) : group -> list group -> Prop :=
| walks_end g : get_by_id s (gpre g) = None -> walks s g [g]
| walks_step g p r : get_by_id s (gpre g) = Some p -> walks s p r -> walks s g (g :: r).

(* l = the group list, genesis first *)
Definition SpecL (g0 : group) (s : state) (l : list group) : Prop :=
    walks s (last s) (rev l) /\
    (exists g, hd_error l = Some g /\ gid g = gid g0) /\
    count s = N.of_nat (length l) /\
    (forall i, i < count s -> get_by_height s i = nth_error l (N.to_nat i)) /\
    (forall i, count s <= i -> get_by_height s i = None) /\
    (forall g, In g l -> get_by_id s (gid g) = Some g).

Definition Spec (g0 : group) (s : state) : Prop := exists l, SpecL g0 s l.

(* GetSyncGroupsById(g.Id) = the (at most five) groups that follow g in the list, none of them nil *)
Definition SyncL (s : state) (l : list group) : Prop :=
  forall g, In g l ->
    sync_by_id s (gid g) = map Some (firstn 5 (skipn (S (N.to_nat (gheight g))) l)).

Section SpecFromInv.
Variable g0 : group.
Hypothesis G0 : genesis_ok g0.

Lemma walks_suffix s l :
  chain g0 l -> (forall x, groups (st s) x = lookup l x) ->
  forall r g, chain g0 (g :: r) -> (forall x, In x (g :: r) -> In x l) -> walks s g (g :: r).
Proof.
  intros Hc Hg. induction r as [|p r' IH]; intros g Hcs Hsub.
  - cbn [chain] in Hcs. subst g. apply walks_end. unfold get_by_id. rewrite Hg.
    cbn [set_height gpre]. destruct G0 as [_ ->]. apply lookup_none. exact (chain_nonnull _ G0 _ Hc).
  - pose proof (chain_tail _ _ _ _ Hcs) as Ht. cbn [chain] in Hcs. destruct Hcs as (Hpre & _).
    apply walks_step with (p := p).
    + unfold get_by_id. rewrite Hg, Hpre. apply lookup_in; [exact (chain_nodup _ _ Hc)|].
      apply Hsub. right. left. reflexivity.
    + apply IH; [exact Ht|]. intros x Hx. apply Hsub. right. exact Hx.
Qed.

Lemma lookup_h_nth l : chain g0 l -> forall i, (i < length l)%nat ->
  lookup_h l (N.of_nat i) = nth_error (rev l) i.
Proof.
  induction l as [|g r IH]; [intros []|].
  intros Hc i Hi. pose proof (chain_hd_height _ _ _ Hc) as Hh.
  rewrite lookup_h_cons. cbn [rev].
  destruct (N.eqb_spec (N.of_nat i) (gheight g)) as [E|E].
  - assert (i = length r) by lia. subst i.
    rewrite nth_error_app2 by (rewrite rev_length; lia).
    rewrite rev_length, PeanoNat.Nat.sub_diag. reflexivity.
  - assert (i < length r)%nat by (cbn [length] in Hi; lia).
    destruct r as [|p r']; [cbn in *; lia|].
    rewrite nth_error_app1 by (rewrite rev_length; assumption).
    apply IH; [exact (chain_tail _ _ _ _ Hc)|assumption].
Qed.

Lemma inv_specL s l :
  chain g0 l -> hd_error l = Some (last s) -> count s = N.of_nat (length l) ->
  (forall x, groups (st s) x = lookup l x) ->
  (forall h, idx (st s) h = option_map gid (lookup_h l h)) ->
  SpecL g0 s (rev l).
Proof.
  intros Hc Hhd Hn Hg Hi.
  pose proof (chain_nodup _ _ Hc) as Hnd.
  unfold SpecL. rewrite rev_involutive, rev_length.
  split; [|split; [|split; [|split; [|split]]]].
  - destruct l as [|g r]; [destruct Hc|]. cbn [hd_error] in Hhd. injection Hhd as <-.
    apply (walks_suffix s (g :: r)); auto.
  - destruct (chain_genesis_last _ _ Hc) as [r E]. exists (set_height g0 0).
    rewrite E, rev_app_distr. split; reflexivity.
  - exact Hn.
  - intros i Hlt. unfold get_by_height. rewrite Hi.
    assert (Hi' : (N.to_nat i < length l)%nat) by lia.
    rewrite <- (N2Nat.id i) at 1. rewrite (lookup_h_nth _ Hc _ Hi').
    destruct (nth_error (rev l) (N.to_nat i)) as [g|] eqn:E.
    + cbn [option_map]. unfold get_by_id. rewrite Hg. apply lookup_in; [exact Hnd|].
      apply in_rev. eapply nth_error_In. exact E.
    + exfalso. apply nth_error_None in E. rewrite rev_length in E. lia.
  - intros i Hle. unfold get_by_height. rewrite Hi.
    rewrite (lookup_h_none l (count s) i); [reflexivity| |exact Hle].
    intros g Hin. rewrite Hn. exact (chain_heights_lt _ _ Hc g Hin).
  - intros g Hin. unfold get_by_id. rewrite Hg. apply lookup_in; [exact Hnd|].
    apply in_rev. exact Hin.
Qed.

(* the sqlite index holds exactly the listed groups with their heights *)
Lemma inv_sqlite s : Inv g0 s ->
  sq_count (sq (st s)) = count s /\
  forall x, sq_lookup (sq (st s)) x = option_map gheight (get_by_id s x).
Proof.
  intros (l & Hc & _ & Hn & _ & _ & Hg & _ & Hsq).
  pose proof (chain_nodup _ _ Hc) as Hnd. split.
  - unfold sq_count. rewrite (sqok_length _ _ Hnd Hsq). symmetry. exact Hn.
  - intros x. unfold get_by_id. rewrite Hg. apply sqok_lookup; assumption.
Qed.

(* GetSyncGroupsById returns the (at most five) groups that follow, none of them nil *)
Lemma skipn_nth {A} (L : list A) n x : nth_error L n = Some x -> skipn n L = x :: skipn (S n) L.
Proof.
  revert L. induction n as [|n IH]; intros [|a L] H; try discriminate.
  - injection H as ->. reflexivity.
  - cbn [skipn nth_error] in *. rewrite (IH _ H). reflexivity.
Qed.

Lemma sync_from_spec s l : chain g0 l ->
  (forall x, groups (st s) x = lookup l x) ->
  (forall h, idx (st s) h = option_map gid (lookup_h l h)) ->
  forall n k, sync_from s (N.of_nat k) n = map Some (firstn n (skipn k (rev l))).
Proof.
  intros Hc Hg Hi. pose proof (chain_nodup _ _ Hc) as Hnd.
  induction n as [|n IH]; intros k; [reflexivity|].
  cbn [sync_from]. rewrite Hi.
  destruct (PeanoNat.Nat.lt_ge_cases k (length l)) as [Hk|Hk].
  - rewrite (lookup_h_nth _ Hc _ Hk).
    destruct (nth_error (rev l) k) as [g|] eqn:E.
    + cbn [option_map]. rewrite (skipn_nth _ _ _ E). cbn [firstn map].
      unfold get_by_id. rewrite Hg, (lookup_in l g Hnd).
      * f_equal. replace (N.of_nat k + 1) with (N.of_nat (S k)) by lia. apply IH.
      * apply in_rev. eapply nth_error_In. exact E.
    + exfalso. apply nth_error_None in E. rewrite rev_length in E. lia.
  - rewrite (lookup_h_none l (N.of_nat (length l)) (N.of_nat k)).
    + cbn [option_map]. rewrite skipn_all2 by (rewrite rev_length; exact Hk). reflexivity.
    + exact (chain_heights_lt _ _ Hc).
    + lia.
Qed.

Lemma inv_syncL s l :
  chain g0 l ->
  (forall x, groups (st s) x = lookup l x) ->
  (forall h, idx (st s) h = option_map gid (lookup_h l h)) ->
  SyncL s (rev l).
Proof.
  intros Hc Hg Hi g Hin. unfold sync_by_id, get_by_id.
  rewrite Hg, (lookup_in l g (chain_nodup _ _ Hc)) by (apply in_rev; exact Hin).
  replace (gheight g + 1) with (N.of_nat (S (N.to_nat (gheight g)))) by lia.
  apply sync_from_spec; assumption.
Qed.

Lemma inv_spec_sync P s : InvP P g0 s -> exists l, SpecL g0 s l /\ SyncL s l.
Proof.
  intros (l & Hc & Hhd & Hn & _ & _ & Hg & Hi & _). exists (rev l). split.
  - apply inv_specL; assumption.
  - apply inv_syncL; assumption.
Qed.

Lemma inv_spec P s : InvP P g0 s -> Spec g0 s.
Proof. intros H. destruct (inv_spec_sync P s H) as (l & Hs & _). exists l. exact Hs. Qed.

Lemma invw_spec s : InvW g0 s -> Spec g0 s.
Proof. exact (inv_spec SqSub s). Qed.
End SpecFromInv.

(* ---------------------------------------------------------------- remove as originally written *)
Definition wg0 : group := mkG 1 0 0 0.
Definition wg1 : group := mkG 2 1 1 0.

(* genesis, one added group, remove it: height 2 now answers with the genesis group although the
   count is 1 (and GetSyncGroupsById(genesis) returns a nil entry followed by genesis itself) *)
Lemma remove_refuted :
  genesis_ok wg0 /\ Forall op_wf [Add wg1; RemoveLast] /\
  let s := fst (run false wg0 (init wg0) [Add wg1; RemoveLast]) in
  count s = 1 /\ get_by_height s 2 = Some (set_height wg0 0) /\
  sync_by_id s (gid wg0) = [None; Some (set_height wg0 0)] /\
  ~ Spec wg0 s.
Proof.
  split; [split; [discriminate|reflexivity]|].
  split; [repeat constructor; discriminate|].
  cbn zeta. split; [reflexivity|]. split; [reflexivity|]. split; [reflexivity|].
  intros (l & _ & _ & _ & _ & Hge & _).
  specialize (Hge 2). 
  assert (E : get_by_height (fst (run false wg0 (init wg0) [Add wg1; RemoveLast])) 2
              = Some (set_height wg0 0)) by reflexivity.
  rewrite E in Hge.
  assert (Hc : count (fst (run false wg0 (init wg0) [Add wg1; RemoveLast])) = 1) by reflexivity.
  rewrite Hc in Hge. discriminate Hge. lia.
Qed.

(* one-step form: the repaired-code invariant holds before, the property fails after *)
Lemma remove_step_refuted :
  exists g0 s, genesis_ok g0 /\ Inv g0 s /\ ~ Spec g0 (fst (step false g0 s RemoveLast)).
Proof.
  exists wg0, (fst (run true wg0 (init wg0) [Add wg1])).
  assert (G : genesis_ok wg0) by (split; [discriminate|reflexivity]).
  split; [exact G|]. split.
  - apply inv_run; [exact G|apply inv_init|repeat constructor; discriminate|repeat constructor].
  - intros (l & _ & _ & _ & _ & Hge & _).
    specialize (Hge 2).
    assert (E : get_by_height (fst (step false wg0 (fst (run true wg0 (init wg0) [Add wg1])) RemoveLast)) 2
                = Some (set_height wg0 0)) by reflexivity.
    rewrite E in Hge.
    assert (Hc : count (fst (step false wg0 (fst (run true wg0 (init wg0) [Add wg1])) RemoveLast)) = 1)
      by reflexivity.
    rewrite Hc in Hge. discriminate Hge. lia.
Qed.

(* ---------------------------------------------------------------- statements over whole histories *)
(* every history, including losses of sqlite rows *)
Lemma reachable_invw g0 ops : genesis_ok g0 -> Forall op_wf ops ->
  InvW g0 (fst (run true g0 (init g0) ops)) /\ Forall (fun c => c < 98) (snd (run true g0 (init g0) ops)).
Proof. intros G H. apply invw_run; [exact G|apply inv_invw; apply inv_init|exact H]. Qed.

(* the sqlite index is settled at the end of a history when nothing was lost since the last restart
   (or at all) *)
Definition index_settled (ops : list op) : Prop :=
  exists ops1 ops2, Forall no_loss ops2 /\ (ops = ops2 \/ ops = ops1 ++ Restart :: ops2).

Lemma forall_app_r {A} (Q : A -> Prop) a b : Forall Q (a ++ b) -> Forall Q b.
Proof. induction a as [|x a IH]; [auto|]. cbn [app]. intros H. inversion H; subst. auto. Qed.
Lemma forall_app_l {A} (Q : A -> Prop) a b : Forall Q (a ++ b) -> Forall Q a.
Proof.
  induction a as [|x a IH]; [constructor|]. cbn [app]. intros H. inversion H; subst.
  constructor; auto.
Qed.

Lemma reachable_inv g0 ops : genesis_ok g0 -> Forall op_wf ops -> index_settled ops ->
  Inv g0 (fst (run true g0 (init g0) ops)).
Proof.
  intros G Hwf (ops1 & ops2 & Hnl & [->| ->]).
  - apply inv_run; [exact G|apply inv_init|exact Hwf|exact Hnl].
  - rewrite run_app. pose proof (forall_app_l _ _ _ Hwf) as Hwf1.
    pose proof (forall_app_r _ _ _ Hwf) as Hwf2. inversion Hwf2 as [|? ? _ Hwf3]; subst.
    destruct (reachable_invw g0 ops1 G Hwf1) as [HW _].
    pose proof (restart_restores g0 G _ HW) as HI.
    cbn [run]. destruct (step true g0 (fst (run true g0 (init g0) ops1)) Restart) as [s' c].
    cbn [fst] in HI.
    pose proof (inv_run g0 G ops2 s' HI Hwf3 Hnl) as HI2.
    destruct (run true g0 s' ops2) as [s'' cs]. exact HI2.
Qed.

Lemma reachable_spec g0 ops : genesis_ok g0 -> Forall op_wf ops ->
  let s := fst (run true g0 (init g0) ops) in
  (exists l, SpecL g0 s l /\ SyncL s l) /\
  Forall (fun c => c < 98) (snd (run true g0 (init g0) ops)) /\
  (index_settled ops ->
     sq_count (sq (st s)) = count s /\
     (forall x, sq_lookup (sq (st s)) x = option_map gheight (get_by_id s x)) /\
     step true g0 s Restart = (s, 0)).
Proof.
  intros G H. destruct (reachable_invw g0 ops G H) as [HW Hc]. cbn zeta.
  split; [exact (inv_spec_sync g0 G _ _ HW)|]. split; [exact Hc|].
  intros Hs. pose proof (reachable_inv g0 ops G H Hs) as HI.
  destruct (inv_sqlite g0 _ HI) as [H1 H2].
  split; [exact H1|]. split; [exact H2|].
  cbn [step]. rewrite (restart_identity g0 _ HI). reflexivity.
Qed.

Lemma original_without_remove g0 ops : genesis_ok g0 -> Forall op_wf ops -> Forall no_remove ops ->
  Spec g0 (fst (run false g0 (init g0) ops)).
Proof.
  intros G H Hn. rewrite run_fx_irrelevant by exact Hn.
  apply (inv_spec g0 G SqSub). apply reachable_invw; assumption.
Qed.
