(* C19 — interleavings of concurrent callers of the group chain (Model.v: tstep / crun).
   For the code as it is (link checks and save in one critical section) the invariant holds after every
   prefix of every schedule, provided a group id determines the group's PreGroup (real ids are derived
   from the group public key and the header is signed by the parent group; CheckGroup verifies both).
   For the check-then-act variant, and for the real code when that proviso fails, there are schedules
   that break the property. *)
From Coq Require Import List NArith Bool Lia.
From V.C19 Require Import Model Proofs.
Import ListNotations.
Local Open Scope N_scope.

(* ---------------------------------------------------------------- facts about [chain] *)
Lemma chain_pre_closed g0 l : genesis_ok g0 -> chain g0 l ->
  forall X, In X l -> gpre X = null_id \/ In (gpre X) (map gid l).
Proof.
  intros G0. induction l as [|g r IH]; [intros []|].
  intros Hc X HX. destruct r as [|p r'].
  - cbn [chain] in Hc. destruct HX as [<-|[]]. left. rewrite Hc. cbn [set_height gpre]. apply G0.
  - pose proof (chain_tail _ _ _ _ Hc) as Ht. cbn [chain] in Hc. destruct Hc as (Hpre & _).
    destruct HX as [<-|HX].
    + right. rewrite Hpre. right. left. reflexivity.
    + destruct (IH Ht X HX) as [E|E]; [left; exact E|right; right; exact E].
Qed.

Lemma chain_pre_not_head g0 l h : genesis_ok g0 -> chain g0 l -> hd_error l = Some h ->
  forall X, In X l -> gpre X <> gid h.
Proof.
  intros G0 Hc Hh X HX. destruct l as [|g r]; [destruct Hc|]. cbn [hd_error] in Hh. injection Hh as <-.
  destruct r as [|p r'].
  - cbn [chain] in Hc. destruct HX as [<-|[]]. rewrite Hc. cbn [set_height gpre gid].
    destruct G0 as [Gid Gpre]. rewrite Gpre. congruence.
  - pose proof (chain_tail _ _ _ _ Hc) as Ht. cbn [chain] in Hc.
    destruct Hc as (Hpre & _ & Hni & Hnn & _).
    destruct HX as [<-|HX].
    + rewrite Hpre. intros E. apply Hni. rewrite <- E. left. reflexivity.
    + destruct (chain_pre_closed g0 (p :: r') G0 Ht X HX) as [E|E].
      * rewrite E. congruence.
      * intros E'. apply Hni. rewrite <- E'. exact E.
Qed.

(* the walk function agrees with the walk relation whenever the fuel suffices *)
Lemma walks_det s g w : walks s g w -> forall fuel, (length w <= fuel)%nat -> walk fuel s g = w.
Proof.
  induction 1 as [g Hn|g p r Hp Hw IH]; intros fuel Hf.
  - destruct fuel as [|f]; [cbn in Hf; lia|]. cbn [walk]. rewrite Hn. reflexivity.
  - destruct fuel as [|f]; [cbn in Hf; lia|]. cbn [walk]. rewrite Hp. f_equal. apply IH.
    cbn [length] in Hf. lia.
Qed.

Lemma upd_nth_forall {A} (Q : A -> Prop) i x : forall l, Forall Q l -> Q x -> Forall Q (upd_nth i x l).
Proof.
  induction i as [|i IH]; intros [|a l] H Hx; cbn [upd_nth]; try constructor;
    inversion H; subst; auto.
Qed.

Lemma nth_error_forall {A} (Q : A -> Prop) l i x : Forall Q l -> nth_error l i = Some x -> Q x.
Proof. intros H E. rewrite Forall_forall in H. apply H. eapply nth_error_In. exact E. Qed.

(* ---------------------------------------------------------------- the locked code *)
Section Locked.
Variable g0 : group.
Hypothesis G0 : genesis_ok g0.
(* a group id determines the group's predecessor *)
Variable pre_of : id -> id.
Definition cons_g (g : group) : Prop := gpre g = pre_of (gid g).
Hypothesis G0c : cons_g g0.

Definition Pc (l : list group) (q : list (id * N)) : Prop := SqSub l q /\ Forall cons_g l.
Definition InvC : state -> Prop := InvP Pc g0.

Lemma invc_invw s : InvC s -> InvW g0 s.
Proof. apply invp_weaken. intros l q [H _]. exact H. Qed.

Lemma cons_height g h : cons_g g -> cons_g (set_height g h).
Proof. exact (fun H => H). Qed.

Lemma pc_save l g q : cons_g g -> ~ In (gid g) (map gid l) -> Pc l q ->
  Pc (g :: l) (sq_replace (gid g) (gheight g) q).
Proof. intros Hg _ [H1 H2]. split; [apply sqsub_save; exact H1|constructor; assumption]. Qed.

Lemma pc_remove g l q : NoDup (map gid (g :: l)) -> Pc (g :: l) q -> Pc l (sq_del (gid g) q).
Proof.
  intros _ [H1 H2]. split; [apply sqsub_remove; exact H1|]. inversion H2; assumption.
Qed.

Lemma invc_init : InvC (init g0).
Proof.
  exists [set_height g0 0]. unfold init, save. cbn [st count last groups idx gcur gcnt sq empty_store].
  split; [reflexivity|]. split; [reflexivity|]. split; [reflexivity|]. split; [reflexivity|].
  split; [reflexivity|]. split; [|split].
  - intros x. unfold upd. rewrite lookup_cons. reflexivity.
  - intros h. unfold upd. rewrite lookup_h_cons. cbn [set_height gheight gid lookup_h find].
    destruct (h =? 0); reflexivity.
  - unfold sq_replace. cbn. split; [split|].
    + constructor; [intros []|constructor].
    + apply incl_refl.
    + constructor; [exact G0c|constructor].
Qed.

(* the point of the single critical section: PreGroup = lastGroup.Id, read under the write lock, already
   excludes that a group with this id is on the chain, whatever happened since Has(id) was read *)
Lemma tail_fresh s g : InvC s -> cons_g g -> links s g = 0 ->
  groups (st s) (gid g) = None /\ gpre g = gid (last s).
Proof.
  intros (l & Hc & Hhd & _ & _ & _ & Hg & _ & _ & Hcons) Hcg Hl. unfold links in Hl.
  destruct (negb (has s (gparent g))); [discriminate|].
  destruct (N.eqb_spec (gid (last s)) (gpre g)) as [E|E]; cbn [negb] in Hl; [|discriminate].
  split; [|symmetry; exact E].
  rewrite Hg. destruct (lookup l (gid g)) as [X|] eqn:EX; [|reflexivity]. exfalso.
  apply lookup_some in EX. destruct EX as [HX Hid].
  rewrite Forall_forall in Hcons. specialize (Hcons X HX). unfold cons_g in *.
  apply (chain_pre_not_head g0 l (last s) G0 Hc Hhd X HX). congruence.
Qed.

Definition call_ok (o : op) : Prop :=
  match o with
  | Add g => gid g <> null_id /\ cons_g g
  | RemoveLast | RemoveFrom _ => True
  | _ => False
  end.

Definition thread_ok (t : thread) : Prop :=
  match cur t with Some (g, _) => gid g <> null_id /\ cons_g g | None => True end /\
  Forall call_ok (prog t).

Lemma finish_ok t c : Forall call_ok (prog t) -> thread_ok (finish t c).
Proof.
  intros H. split; [exact I|]. unfold finish. cbn [prog].
  destruct (stop t && negb (c =? 0)); [constructor|exact H].
Qed.

Lemma tstep_inv s t s' t' : InvC s -> thread_ok t -> tstep true g0 s t = Some (s', t') ->
  InvC s' /\ thread_ok t'.
Proof.
  intros HI [Hcur Hprog] E. unfold tstep in E.
  destruct (cur t) as [[g pc]|] eqn:Ec.
  - destruct Hcur as [Hnn Hcg]. destruct pc.
    + destruct (has s (gid g)); injection E as <- <-.
      * split; [exact HI|apply finish_ok; exact Hprog].
      * split; [exact HI|]. split; [cbn; auto|exact Hprog].
    + injection E as <- <-. split; [exact HI|]. split; [cbn; auto|exact Hprog].
    + destruct (N.eqb_spec (links s g) 0) as [El|El]; injection E as <- <-.
      * destruct (tail_fresh s g HI Hcg El) as [Hnone Hpre].
        split; [|apply finish_ok; exact Hprog].
        apply (inv_save g0 Pc cons_g cons_height pc_save s g HI Hnn Hcg Hnone Hpre).
      * split; [exact HI|apply finish_ok; exact Hprog].
  - destruct (prog t) as [|o r] eqn:Ep; [discriminate|].
    inversion Hprog as [|? ? Ho Hr]; subst.
    destruct o as [g| |h| |h gs|ids|i0 h0]; cbn [call_ok] in Ho; try (destruct Ho; fail).
    + injection E as <- <-. split; [exact HI|]. split; [exact Ho|exact Hr].
    + destruct (invp_step_core g0 G0 Pc cons_g cons_height pc_save pc_remove s RemoveLast HI I I I)
        as [HI' _]; [discriminate|].
      destruct (step true g0 s RemoveLast) as [s1 c]. injection E as <- <-.
      split; [exact HI'|apply finish_ok; exact Hr].
    + destruct (invp_step_core g0 G0 Pc cons_g cons_height pc_save pc_remove s (RemoveFrom h) HI I I I)
        as [HI' _]; [discriminate|].
      destruct (step true g0 s (RemoveFrom h)) as [s1 c]. injection E as <- <-.
      split; [exact HI'|apply finish_ok; exact Hr].
Qed.

Lemma crun_inv sched : forall s ts, InvC s -> Forall thread_ok ts ->
  InvC (fst (crun true g0 s ts sched)) /\ Forall thread_ok (snd (crun true g0 s ts sched)).
Proof.
  induction sched as [|i r IH]; intros s ts HI Hts; cbn [crun]; [split; assumption|].
  destruct (nth_error ts i) as [t|] eqn:Et; [|apply IH; assumption].
  destruct (tstep true g0 s t) as [[s' t']|] eqn:E; [|apply IH; assumption].
  destruct (tstep_inv s t s' t' HI (nth_error_forall _ _ _ _ Hts Et) E) as [HI' Ht'].
  apply IH; [exact HI'|apply upd_nth_forall; assumption].
Qed.

(* under every schedule (hence after every prefix of every schedule: a prefix is a schedule) *)
Lemma locked_schedules s ts sched : InvC s -> Forall thread_ok ts ->
  let s' := fst (crun true g0 s ts sched) in InvC s' /\ Spec g0 s'.
Proof.
  intros HI Hts. destruct (crun_inv sched s ts HI Hts) as [HI' _]. cbn zeta.
  split; [exact HI'|exact (inv_spec g0 G0 Pc _ HI')].
Qed.

(* the same with environment events between the steps: sqlite rows lost at any moment, a process exit
   at any moment (all threads gone, a call parked in CheckGroup lost, initGroupChain on the files) *)
Lemma invc_set_sq s l q :
  chain g0 l -> hd_error l = Some (last s) -> count s = N.of_nat (length l) ->
  gcnt (st s) = count s -> gcur (st s) = Some (gid (last s)) ->
  (forall x, groups (st s) x = lookup l x) ->
  (forall h, idx (st s) h = option_map gid (lookup_h l h)) -> Pc l q -> InvC (set_sq s q).
Proof.
  intros. exists l. unfold set_sq. cbn [st count last groups idx gcur gcnt sq].
  repeat (split; [assumption|]). assumption.
Qed.

Lemma crun_env_inv evs : forall s ts, InvC s -> Forall thread_ok ts ->
  InvC (fst (crun_env true g0 s ts evs)) /\ Forall thread_ok (snd (crun_env true g0 s ts evs)).
Proof.
  induction evs as [|e r IH]; intros s ts HI Hts; cbn [crun_env]; [split; assumption|].
  destruct e as [i|ids|].
  - destruct (nth_error ts i) as [t|] eqn:Et; [|apply IH; assumption].
    destruct (tstep true g0 s t) as [[s' t']|] eqn:E; [|apply IH; assumption].
    destruct (tstep_inv s t s' t' HI (nth_error_forall _ _ _ _ Hts Et) E) as [HI' Ht'].
    apply IH; [exact HI'|apply upd_nth_forall; assumption].
  - apply IH; [|exact Hts].
    destruct HI as (l & H1 & H2 & H3 & H4 & H5 & H6 & H7 & [H8 H9]).
    apply (invc_set_sq s l); try assumption. split; [apply sqsub_drop; exact H8|exact H9].
  - destruct HI as (l & H1 & H2 & H3 & H4 & H5 & H6 & H7 & [H8 H9]).
    destruct (restart_heals_l g0 G0 s l H1 H2 H3 H4 H5 H6 H8) as (q & -> & [Hq _]).
    apply IH; [|constructor].
    apply (invc_set_sq s l); try assumption. split; assumption.
Qed.

Lemma locked_schedules_env s ts evs : InvC s -> Forall thread_ok ts ->
  let s' := fst (crun_env true g0 s ts evs) in InvC s' /\ Spec g0 s'.
Proof.
  intros HI Hts. destruct (crun_env_inv evs s ts HI Hts) as [HI' _]. cbn zeta.
  split; [exact HI'|exact (inv_spec g0 G0 Pc _ HI')].
Qed.

(* readers that take the read lock see only states after prefixes of the schedule *)
Lemma locked_readers s ts evs n : InvC s -> Forall thread_ok ts ->
  let r := locked_reader_state true g0 s ts evs n in InvC r /\ Spec g0 r.
Proof. intros HI Hts. apply locked_schedules_env; assumption. Qed.
End Locked.

(* ---------------------------------------------------------------- check-then-act is refuted *)
(* genesis 1; two competing successors of genesis, 2 and 3 (different ids, so the proviso holds);
   thread 0 checks its links, thread 1 adds group 3 completely, thread 0 saves group 2:
   count = 3 but the predecessor walk from the last group is 2, 1. *)
Definition rg0 : group := mkG 1 0 0 0.
Definition rX : group := mkG 2 1 1 0.
Definition rY : group := mkG 3 1 1 0.
Definition rts : list thread := [mkT None [Add rX] false []; mkT None [Add rY] false []].
Definition rsched : list nat := [0; 0; 0; 1; 1; 1; 1; 0]%nat.
Definition rpre (i : id) : id := if i =? 1 then 0 else 1.

Lemma check_then_act_refuted :
  genesis_ok rg0 /\ Forall (thread_ok rpre) rts /\ cons_g rpre rg0 /\
  let r := crun false rg0 (init rg0) rts rsched in
  count (fst r) = 3 /\ map gid (walk 5 (fst r) (last (fst r))) = [2; 1] /\
  map rets (snd r) = [[0]; [0]] /\ ~ Spec rg0 (fst r).
Proof.
  split; [split; [discriminate|reflexivity]|].
  split; [repeat constructor; discriminate|].
  split; [reflexivity|]. cbn zeta.
  split; [reflexivity|]. split; [reflexivity|]. split; [reflexivity|].
  intros (l & Hw & _ & Hn & _).
  set (s := fst (crun false rg0 (init rg0) rts rsched)) in *.
  assert (Hc : count s = 3) by reflexivity.
  assert (Hl : length (rev l) = 3%nat) by (rewrite rev_length; lia).
  pose proof (walks_det s (last s) (rev l) Hw 3 ltac:(lia)) as E.
  assert (E2 : length (walk 3 s (last s)) = 2%nat) by reflexivity.
  rewrite E in E2. lia.
Qed.

(* The proviso is needed: with the code as it is, if two different groups may carry one id (a
   CheckGroup that does not bind the id to the header), Has(id) read outside the lock goes stale:
   thread 0 reads Has(2) = false for 2' = (id 2, PreGroup 3); thread 1 adds (id 2, PreGroup 1) and
   (id 3, PreGroup 2); thread 0 passes both link checks and overwrites the record of id 2: the
   predecessor walk 2', 3, 2', 3, ... never reaches genesis. *)
Definition qX' : group := mkG 2 3 1 0.
Definition qX : group := mkG 2 1 1 0.
Definition qB : group := mkG 3 2 1 0.
Definition qts : list thread := [mkT None [Add qX'] false []; mkT None [Add qX; Add qB] false []].
Definition qsched : list nat := [0; 0; 0; 1; 1; 1; 1; 1; 1; 1; 1; 0]%nat.

Lemma locked_needs_id_binding :
  let r := crun true rg0 (init rg0) qts qsched in
  count (fst r) = 4 /\ map gid (walk 6 (fst r) (last (fst r))) = [2; 3; 2; 3; 2; 3] /\
  map rets (snd r) = [[0]; [0; 0]] /\ ~ Spec rg0 (fst r).
Proof.
  cbn zeta. split; [reflexivity|]. split; [reflexivity|]. split; [reflexivity|].
  intros (l & Hw & _ & Hn & _).
  set (s := fst (crun true rg0 (init rg0) qts qsched)) in *.
  assert (Hc : count s = 4) by reflexivity.
  assert (Hl : length (rev l) = 4%nat) by (rewrite rev_length; lia).
  pose proof (walks_det s (last s) (rev l) Hw 5 ltac:(lia)) as E.
  assert (E2 : length (walk 5 s (last s)) = 5%nat) by reflexivity.
  rewrite E in E2. lia.
Qed.
