(* C04 model: the journalled account state of src/storage/account (AccountDB).

   Follows the Go statements branch by branch:
     accountdb.go        getAccountObject/createObject, SetNonce, SetData, Suicide, SetCode, AddLog,
                         AddRefund/SubRefund, access list, transient storage, Snapshot,
                         RevertToSnapshot, Finalise
     transition.go       one [undo] clause per journal entry kind
     account_object.go   GetData/GetCommittedData (cache population), SetData/setData, setNonce,
                         markSuicided, touch, empty()
     accountdb_tuntun.go GetFT/AddFT/SubFT/SetFT for the bound token (= native balance) and for an
                         unbound token name
     account_object_ft.go, access_list.go, transient_storage.go

   Abstractions (held to the code by the correspondence run):
     * addresses, storage keys, code hashes, tx hashes, log payloads are small numbers; the harness
       owns the bijection with the real 20/32-byte values.  Hash id 0 = emptyCodeHash, id 99 = the
       all-zero hash returned for a missing account.
     * the account trie and every storage trie are represented by their content (finite maps); a
       storage trie never holds an empty value (trie.TryUpdate with len(value)=0 deletes).
       "State root" = content of the account trie after Finalise (C02 ties content to the hash).
     * []byte nil and empty are both [] (every comparison in the code is bytes.Compare / len).
     * the balance of [a] is slot [erckey a] of the token contract [token]; the 18-decimal
       conversions FormatDecimalForERC20/Rocket are the identity for decimal = 18 (C18).
     * objects flagged [deleted] only exist after Finalise; the model stops at Finalise.
     * sync.Map / locks: single-threaded use.  Nonce and refund counter wrap modulo 2^64 as Go uint64 does;
       arguments of the operations are below 2^64 (they are uint64 in the Go signatures). *)
From stdpp Require Import gmap.
From RecordUpdate Require Import RecordSet.
From V.Base Require Import Hex BigEndian.
Import RecordSetNotations.

Local Open Scope N_scope.

(* byte strings: [Hex.bytes] unfolded, so that every map in this development has the same value type *)
Notation bytes := (list N) (only parsing).

(* ---------- naming of keys and special addresses ---------- *)
Definition erckey (a : N) : N := 1000 + a.          (* GetERC20Key(a, position) *)
Definition is_erckey (k : N) : bool := 1000 <=? k.
Definition ftkey : N := 900.                        (* "f:" ++ name, for the one unbound token name used *)
Definition ripemd : N := 3.                         (* transition.go: var ripemd *)
(* the 20 bytes of that variable: common.StringToAddress("00..03" (40 digits)) keeps the last 20 ASCII
   characters of the string, so the exempted address is 0x3030..3033, not 0x00..03 (id 13 of the harness) *)
Definition ripemd_bytes : bytes := repeat 48 19 ++ [51].
Definition zerohash : N := 99.

Definition nilb (v : bytes) : bool := match v with [] => true | _ => false end.

(* ---------- committed data ---------- *)
Record acct := Acct { a_nonce : N; a_hash : N; a_store : gmap N bytes }.

(* ---------- accountObject ---------- *)
Record obj := Obj {
  o_nonce : N;
  o_hash : N;                    (* data.NFTSetDefinitionHash *)
  o_code : option bytes;         (* nftSet; None = nil *)
  o_root : gmap N bytes;         (* content of the storage trie at data.Root *)
  o_cached : gmap N bytes;       (* cachedStorage (presence matters: empty()) *)
  o_dirty : gmap N bytes;        (* dirtyStorage *)
  o_suicided : bool;
  o_touched : bool;
  o_armed : bool;                (* onDirty != nil *)
}.
#[export] Instance eta_obj : Settable _ :=
  settable! Obj <o_nonce; o_hash; o_code; o_root; o_cached; o_dirty; o_suicided; o_touched; o_armed>.

(* ---------- journal entries (transition.go) ---------- *)
Inductive entry :=
| ECreate (a : N)
| ESuicide (a : N) (prev : bool) (prevbal : N)
| ENonce (a : N) (prev : N)
| EStorage (a k : N) (prev : bytes)
| ECode (a : N) (prevhash : N) (prev : option bytes)
| ERefund (prev : N)
| ELog (txh : N)
| ETouch (a : N) (prev prevDirty : bool)
| EALAddr (a : N)
| EALSlot (a k : N)
| ETransient (a k prev : N).
(* resetObjectChange is unreachable: createObject(addr, prev) gets prev != nil only when a freshly
   decoded object is flagged deleted, which newAccountObject never does. *)

Record state := St {
  trie : gmap N acct;            (* committed account trie (constant until Finalise) *)
  codes : gmap N bytes;          (* code blobs by hash id *)
  token : N;                     (* rpgContractAddress *)
  p002 : bool;                   (* common.IsProposal002() *)
  objs : gmap N obj;             (* accountObjects *)
  dirtyset : gset N;             (* accountObjectsDirty *)
  journal : list entry;          (* transitions *)
  revs : list (N * nat);         (* validRevisions *)
  nextrev : N;
  refund : N;
  thash : N;
  logs : gmap N (list (N * N));  (* tx hash -> (payload, index) *)
  logsize : N;
  al_addrs : gmap N Z;           (* accessList.addresses *)
  al_slots : list (gset N);      (* accessList.slots *)
  transient : gmap N (gmap N N);
}.
#[export] Instance eta_state : Settable _ :=
  settable! St <trie; codes; token; p002; objs; dirtyset; journal; revs; nextrev; refund; thash;
                logs; logsize; al_addrs; al_slots; transient>.

Definition fresh (tr : gmap N acct) (cs : gmap N bytes) (tok : N) (p : bool) (th : N) : state :=
  St tr cs tok p ∅ ∅ [] [] 0 0 th ∅ 0 ∅ [] ∅.

(* ---------- object table ---------- *)
Definition pristine (ac : acct) : obj :=            (* newAccountObject(adb, addr, data, ...) *)
  Obj (a_nonce ac) (a_hash ac) None (a_store ac) ∅ ∅ false false true.
Definition newobj : obj :=                          (* createObject: Account{} then setNonce(0) *)
  Obj 0 0 None ∅ ∅ ∅ false false false.

Definition push (e : entry) (s : state) : state := s <| journal := journal s ++ [e] |>.
Definition upd (a : N) (f : obj -> obj) (s : state) : state := s <| objs := alter f a (objs s) |>.

(* if ao.onDirty != nil { ao.onDirty(addr); ao.onDirty = nil } *)
Definition mark_dirty (a : N) (s : state) : state :=
  match objs s !! a with
  | Some o => if o_armed o
              then s <| objs := <[a := o <| o_armed := false |>]> (objs s) |>
                     <| dirtyset := {[a]} ∪ dirtyset s |>
              else s
  | None => s
  end.

(* createObject(addr, nil) *)
Definition create_object (a : N) (s : state) : state :=
  push (ECreate a) (s <| objs := <[a := newobj]> (objs s) |> <| dirtyset := {[a]} ∪ dirtyset s |>).

(* getAccountObject(addr, create): afterwards [objs !! a] is the object, or None for nil *)
Definition ensure (create : bool) (a : N) (s : state) : state :=
  match objs s !! a with
  | Some _ => s
  | None => match trie s !! a with
            | Some ac => s <| objs := <[a := pristine ac]> (objs s) |>
            | None => if create then create_object a s else s
            end
  end.

(* ---------- storage of one object ---------- *)
(* accountObject.GetData + GetCommittedData: a committed non-nil value is cached *)
Definition o_getdata (k : N) (o : obj) : obj * bytes :=
  match o_cached o !! k with
  | Some v => (o, v)
  | None => match o_root o !! k with
            | Some v => (o <| o_cached := <[k := v]> (o_cached o) |>, v)
            | None => (o, [])
            end
  end.

(* accountObject.GetCommittedData: reads the trie and OVERWRITES the cache entry *)
Definition o_getcommitted (k : N) (o : obj) : obj * bytes :=
  match o_root o !! k with
  | Some v => (o <| o_cached := <[k := v]> (o_cached o) |>, v)
  | None => (o, [])
  end.

Definition s_getdata (a k : N) (s : state) : state * bytes :=
  match objs s !! a with
  | Some o => let '(o', v) := o_getdata k o in (s <| objs := <[a := o']> (objs s) |>, v)
  | None => (s, [])
  end.

(* accountObject.setData *)
Definition s_setdata_raw (a k : N) (v : bytes) (s : state) : state :=
  mark_dirty a (upd a (fun o => o <| o_cached := <[k := v]> (o_cached o) |>
                                  <| o_dirty := <[k := v]> (o_dirty o) |>) s).

(* accountObject.SetData *)
Definition s_setdata (a k : N) (v : bytes) (s : state) : state :=
  let '(s1, pre) := s_getdata a k s in
  if bytes_eqb v pre then s1
  else s_setdata_raw a k v (push (EStorage a k pre) s1).

(* accountObject.setNonce *)
Definition s_setnonce_raw (a n : N) (s : state) : state :=
  mark_dirty a (upd a (fun o => o <| o_nonce := n |>) s).

(* accountObject.nftSetDefinition: returns the code, caching what the db returned *)
Definition s_loadcode (a : N) (s : state) : state * option bytes :=
  match objs s !! a with
  | Some o =>
      match o_code o with
      | Some c => (s, Some c)
      | None => if o_hash o =? 0 then (s, None)
                else let c := codes s !! o_hash o in
                     (s <| objs := <[a := o <| o_code := c |>]> (objs s) |>, c)
      end
  | None => (s, None)
  end.

(* accountObject.setNFTSetDefinition *)
Definition s_setcode_raw (a h : N) (c : option bytes) (s : state) : state :=
  mark_dirty a (upd a (fun o => o <| o_hash := h |> <| o_code := c |>) s).

(* accountObject.empty() *)
Definition empty (o : obj) : bool :=
  (o_hash o =? 0) && (o_nonce o =? 0) && (size (o_cached o) =? 0)%nat && (size (o_dirty o) =? 0)%nat.

(* accountObject.touch() *)
Definition s_touch (a : N) (s : state) : state :=
  match objs s !! a with
  | Some o =>
      let s1 := push (ETouch a (o_touched o) (negb (o_armed o))) s in
      upd a (fun o => o <| o_touched := true |>) (mark_dirty a s1)
  | None => s
  end.

(* ---------- balances (bound token) ---------- *)
Definition bal_read (a : N) (s : state) : state * N :=       (* GetFT(addr, BLANCE_NAME) *)
  let s1 := ensure true (token s) s in
  let '(s2, v) := s_getdata (token s) (erckey a) s1 in (s2, bev v).

Definition set_balance_raw (a n : N) (s : state) : state :=  (* AccountDB.setBalance *)
  let s1 := ensure true (token s) s in
  s_setdata_raw (token s) (erckey a) (beb n) s1.

Definition bal_write (a : N) (n : N) (s : state) : state :=  (* SetData when Proposal002, else setData *)
  if p002 s then s_setdata (token s) (erckey a) (beb n) s
  else s_setdata_raw (token s) (erckey a) (beb n) s.

Definition add_balance (a n : N) (s : state) : state :=      (* AddFT, bound branch *)
  let '(s1, r) := bal_read a s in bal_write a (r + n) s1.

Definition sub_balance (a n : N) (s : state) : state * N :=  (* SubFT, bound branch; returns left *)
  let '(s1, r) := bal_read a s in
  if r <? n then (s1, r) else (bal_write a (r - n) s1, r - n).

Definition set_balance (a n : N) (s : state) : state :=      (* SetFT, bound branch: always journalled *)
  let s1 := ensure true (token s) s in
  s_setdata (token s) (erckey a) (beb n) s1.

(* ---------- unbound token (account_object_ft.go) ---------- *)
Definition ft_read (a : N) (s : state) : state * option N := (* getFT: nil for nil/empty value *)
  let '(s1, v) := s_getdata a ftkey s in (s1, if nilb v then None else Some (bev v)).

(* ---------- logs, access list, transient storage ---------- *)
Definition getlogs (s : state) (h : N) : list (N * N) := default [] (logs s !! h).

Definition al_add_addr (a : N) (s : state) : state :=
  match al_addrs s !! a with
  | Some _ => s
  | None => push (EALAddr a) (s <| al_addrs := <[a := (-1)%Z]> (al_addrs s) |>)
  end.

Definition al_new_slot (a k : N) (s : state) : state :=
  s <| al_addrs := <[a := Z.of_nat (length (al_slots s))]> (al_addrs s) |>
    <| al_slots := al_slots s ++ [{[k]}] |>.

Definition al_add_slot (a k : N) (s : state) : state :=
  match al_addrs s !! a with
  | None => push (EALSlot a k) (push (EALAddr a) (al_new_slot a k s))
  | Some idx =>
      if (idx =? -1)%Z then push (EALSlot a k) (al_new_slot a k s)
      else match al_slots s !! Z.to_nat idx with
           | Some m => if bool_decide (k ∈ m) then s
                       else push (EALSlot a k) (s <| al_slots := <[Z.to_nat idx := {[k]} ∪ m]> (al_slots s) |>)
           | None => s   (* index out of range: Go panics; excluded by the invariant *)
           end
  end.

Definition al_delete_slot (a k : N) (s : state) : state :=
  match al_addrs s !! a with
  | None => s             (* panic("reverting slot change, address not present in list") *)
  | Some idx =>
      match al_slots s !! Z.to_nat idx with
      | None => s         (* index out of range panic *)
      | Some m =>
          let m' := m ∖ {[k]} in
          if (size m' =? 0)%nat
          then s <| al_slots := take (Z.to_nat idx) (al_slots s) |> <| al_addrs := <[a := (-1)%Z]> (al_addrs s) |>
          else s <| al_slots := <[Z.to_nat idx := m']> (al_slots s) |>
      end
  end.

Definition al_has_slot (s : state) (a k : N) : bool * bool :=
  match al_addrs s !! a with
  | None => (false, false)
  | Some idx => if (idx =? -1)%Z then (true, false)
                else (true, match al_slots s !! Z.to_nat idx with Some m => bool_decide (k ∈ m) | None => false end)
  end.

Definition tget (s : state) (a k : N) : N :=
  match transient s !! a with Some m => default 0 (m !! k) | None => 0 end.

Definition tset (a k v : N) (s : state) : state :=       (* transientStorage.Set *)
  if v =? 0 then
    match transient s !! a with
    | Some m => let m' := delete k m in
                if (size m' =? 0)%nat then s <| transient := delete a (transient s) |>
                else s <| transient := <[a := m']> (transient s) |>
    | None => s
    end
  else s <| transient := <[a := <[k := v]> (default ∅ (transient s !! a))]> (transient s) |>.

(* ---------- undo (transition.go) ---------- *)
Definition undo (e : entry) (s : state) : state :=
  match e with
  | ECreate a => s <| objs := delete a (objs s) |> <| dirtyset := dirtyset s ∖ {[a]} |>
  | ESuicide a prev bal =>
      let s1 := ensure false a s in
      match objs s1 !! a with
      | Some _ => set_balance_raw a bal (upd a (fun o => o <| o_suicided := prev |>) s1)
      | None => s1
      end
  | ENonce a prev => s_setnonce_raw a prev (ensure false a s)       (* nil dereference if absent *)
  | EStorage a k prev => s_setdata_raw a k prev (ensure false a s)
  | ECode a ph pc => s_setcode_raw a ph pc (ensure false a s)
  | ERefund p => s <| refund := p |>
  | ELog h =>
      let l := getlogs s h in
      (if (length l =? 1)%nat then s <| logs := delete h (logs s) |>
       else s <| logs := <[h := removelast l]> (logs s) |>) <| logsize := logsize s - 1 |>
  | ETouch a prev prevDirty =>
      if negb prev && negb (a =? ripemd) then
        let s1 := upd a (fun o => o <| o_touched := prev |>) (ensure false a s) in
        if negb prevDirty then s1 <| dirtyset := dirtyset s1 ∖ {[a]} |> else s1
      else s
  | EALAddr a => s <| al_addrs := delete a (al_addrs s) |>
  | EALSlot a k => al_delete_slot a k s
  | ETransient a k prev => tset a k prev s
  end.

Definition undo_list (es : list entry) (s : state) : state := fold_left (fun s e => undo e s) es s.

(* ---------- Snapshot / RevertToSnapshot ---------- *)
Definition snapshot (s : state) : state * N :=
  (s <| revs := revs s ++ [(nextrev s, length (journal s))] |> <| nextrev := nextrev s + 1 |>, nextrev s).

(* sort.Search(len, id >= revid): first index whose id is >= revid (ids are increasing) *)
Fixpoint search_rev (l : list (N * nat)) (revid : N) (i : nat) : nat :=
  match l with
  | [] => i
  | (id, _) :: r => if revid <=? id then i else search_rev r revid (S i)
  end.

Definition revert (revid : N) (s : state) : state :=
  let idx := search_rev (revs s) revid 0 in
  match revs s !! idx with
  | Some (id, ji) =>
      if id =? revid then
        let s' := undo_list (rev (drop ji (journal s))) s in
        s' <| journal := take ji (journal s) |> <| revs := take idx (revs s) |>
      else s          (* panic: revision id cannot be reverted *)
  | None => s         (* panic *)
  end.

(* ---------- exported operations ---------- *)
Inductive op :=
(* mutators *)
| OSetNonce (a n : N) | OIncNonce (a : N)
| OSetData (a k : N) (v : bytes)
| OAddBalance (a n : N) | OSubBalance (a n : N) | OSetBalance (a n : N) | OTransfer (a b n : N)
| OSetCode (a h : N) (c : bytes)
| OSuicide (a : N) | OCreateAccount (a : N)
| OAddLog (p : N) | OAddRefund (n : N) | OSubRefund (n : N)
| OALAddr (a : N) | OALSlot (a k : N)
| OSetTransient (a k v : N)
| OAddFT (a n : N) | OSubFT (a n : N) | OSetFT (a n : N)
(* queries (several of them fill caches or create the token-contract object) *)
| OGetBalance (a : N) | OGetNonce (a : N) | OGetData (a k : N) | OGetCommitted (a k : N)
| OGetCode (a : N) | OGetCodeHash (a : N) | OGetCodeSize (a : N)
| OExist (a : N) | OSuicided (a : N) | OEmpty (a : N)
| OGetRefund | OGetLogs (h : N) | OALHasAddr (a : N) | OALHasSlot (a k : N)
| OGetTransient (a k : N) | OGetFT (a : N)
(* transaction boundary: AccountDB.Prepare(thash, bhash, txIndex) — not journalled; never inside a bracket *)
| OPrepare (h : N).

Inductive ans :=
| AU | AN (n : N) | AB (b : bool) | ABy (v : bytes) | AP (b1 b2 : bool) | AO (o : option N) | AL (l : list (N * N))
| APanic.                        (* the call panics (SubRefund beyond the counter) after the effects the model shows *)

Definition u64 : N := 18446744073709551616.     (* nonce and refund counter are Go uint64: arithmetic wraps *)

Definition obj_field {A} (s : state) (a : N) (f : obj -> A) (d : A) : A :=
  match objs s !! a with Some o => f o | None => d end.

(* AccountDB.Prepare: the tx hash for the logs, a fresh access list and fresh transient storage.  The journal,
   the revision stack and nextRevisionID are NOT touched: revision ids keep counting over the whole life of
   the AccountDB (until Finalise), so an id names one live revision whatever transaction took it. *)
Definition prepare (h : N) (s : state) : state :=
  s <| thash := h |> <| al_addrs := ∅ |> <| al_slots := [] |> <| transient := ∅ |>.

Definition step (o : op) (s : state) : state * ans :=
  match o with
  | OSetNonce a n =>
      let s1 := ensure true a s in
      (s_setnonce_raw a n (push (ENonce a (obj_field s1 a o_nonce 0)) s1), AU)
  | OIncNonce a =>
      let s1 := ensure true a s in
      let n := obj_field s1 a o_nonce 0 in
      (s_setnonce_raw a ((n + 1) mod u64) (push (ENonce a n) s1), AN ((n + 1) mod u64))
  | OSetData a k v => (s_setdata a k v (ensure true a s), AU)
  | OAddBalance a n => (add_balance a n s, AU)
  | OSubBalance a n => let '(s1, l) := sub_balance a n s in (s1, AN l)
  | OSetBalance a n => (set_balance a n s, AU)
  | OTransfer a b n =>
      if n =? 0 then (s, AU) else (add_balance b n (fst (sub_balance a n s)), AU)
  | OSetCode a h c =>
      let s1 := ensure true a s in
      let '(s2, prev) := s_loadcode a s1 in
      (s_setcode_raw a h (Some c) (push (ECode a (obj_field s2 a o_hash 0) prev) s2), AU)
  | OSuicide a =>
      let s1 := ensure false a s in
      match objs s1 !! a with
      | None => (s1, AB false)
      | Some o =>
          let '(s2, bal) := bal_read a s1 in
          let s3 := push (ESuicide a (o_suicided o) bal) s2 in
          let s4 := mark_dirty a (upd a (fun o => o <| o_suicided := true |>) s3) in
          (set_balance_raw a 0 s4, AB true)
      end
  | OCreateAccount a => (ensure true a s, AU)
  | OAddLog p =>
      let s1 := push (ELog (thash s)) s in
      (s1 <| logs := <[thash s := getlogs s (thash s) ++ [(p, logsize s)]]> (logs s) |>
          <| logsize := logsize s + 1 |>, AU)
  | OAddRefund n => (push (ERefund (refund s)) s <| refund := (refund s + n) mod u64 |>, AU)
  | OSubRefund n =>
      (* the journal entry is appended first; then panic("Refund counter below zero") leaves the counter alone *)
      (push (ERefund (refund s)) s <| refund := if refund s <? n then refund s else refund s - n |>,
       if refund s <? n then APanic else AU)
  | OALAddr a => (al_add_addr a s, AU)
  | OALSlot a k => (al_add_slot a k s, AU)
  | OSetTransient a k v =>
      let prev := tget s a k in
      if prev =? v then (s, AU) else (tset a k v (push (ETransient a k prev) s), AU)
  | OAddFT a n =>
      let s1 := ensure true a s in
      if n =? 0 then ((if obj_field s1 a empty false then s_touch a s1 else s1), AB true)
      else let '(s2, raw) := ft_read a s1 in
           (s_setdata a ftkey (beb (default 0 raw + n)) s2, AB true)
  | OSubFT a n =>
      let s1 := ensure true a s in
      let '(s2, raw) := ft_read a s1 in
      if n =? 0 then (s2, AO (Some (default 0 raw)))
      else match raw with
           | None => (s2, AO None)
           | Some r => if r <? n then (s2, AO None)
                       else (s_setdata a ftkey (beb (r - n)) s2, AO (Some (r - n)))
           end
  | OSetFT a n => (s_setdata a ftkey (beb n) (ensure true a s), AU)
  | OGetBalance a => let '(s1, r) := bal_read a s in (s1, AN r)
  | OGetNonce a => let s1 := ensure false a s in (s1, AN (obj_field s1 a o_nonce 0))
  | OGetData a k => let '(s1, v) := s_getdata a k (ensure false a s) in (s1, ABy v)
  | OGetCommitted a k =>
      let s1 := ensure false a s in
      match objs s1 !! a with
      | Some o => let '(o', v) := o_getcommitted k o in (s1 <| objs := <[a := o']> (objs s1) |>, AN (bev v))
      | None => (s1, AN 0)
      end
  | OGetCode a => let '(s1, c) := s_loadcode a (ensure false a s) in (s1, ABy (default [] c))
  | OGetCodeHash a => let s1 := ensure false a s in (s1, AN (obj_field s1 a o_hash zerohash))
  | OGetCodeSize a =>
      let s1 := ensure false a s in
      (s1, AN (obj_field s1 a (fun o => match o_code o with
                                        | Some c => N.of_nat (length c)
                                        | None => if o_hash o =? 0 then 0
                                                  else N.of_nat (length (default [] (codes s1 !! o_hash o)))
                                        end) 0))
  | OExist a => let s1 := ensure false a s in (s1, AB (bool_decide (is_Some (objs s1 !! a))))
  | OSuicided a => let s1 := ensure false a s in (s1, AB (obj_field s1 a o_suicided false))
  | OEmpty a => let s1 := ensure false a s in (s1, AB (obj_field s1 a empty true))
  | OGetRefund => (s, AN (refund s))
  | OGetLogs h => (s, AL (getlogs s h))
  | OALHasAddr a => (s, AB (bool_decide (is_Some (al_addrs s !! a))))
  | OALHasSlot a k => (s, let '(x, y) := al_has_slot s a k in AP x y)
  | OGetTransient a k => (s, AN (tget s a k))
  | OGetFT a => let '(s1, raw) := ft_read a (ensure true a s) in (s1, AN (default 0 raw))
  | OPrepare h => (prepare h s, AU)
  end.

(* ---------- programs: well-bracketed by construction ---------- *)
(* [Bracket obs body rv]: run the queries [obs] twice (the first round lets their own side effects
   happen: cache fills, creation of the token-contract object; the second round is the record of
   the state at snapshot time); Snapshot; run [body]; if [rv] RevertToSnapshot and run [obs] again.  Covers every valid use of the API: a revision id can be reverted at most once
   and reverting to an outer id discards the inner ones (= inner brackets that were kept). *)
Inductive item :=
| Do (o : op)
| Bracket (obs : list op) (body : list item) (rv : bool).

Fixpoint run_ops (l : list op) (s : state) : state * list ans :=
  match l with
  | [] => (s, [])
  | o :: r => let '(s1, x) := step o s in let '(s2, xs) := run_ops r s1 in (s2, x :: xs)
  end.

Fixpoint run_item (it : item) (s : state) : state * list ans :=
  match it with
  | Do o => let '(s1, x) := step o s in (s1, [x])
  | Bracket obs body rv =>
      let '(sw, xw) := run_ops obs s in
      let '(s0, x0) := run_ops obs sw in
      let '(s1, id) := snapshot s0 in
      let '(s2, xs) := (fix go (l : list item) (s : state) : state * list ans :=
                          match l with
                          | [] => (s, [])
                          | it :: r => let '(s1, x) := run_item it s in let '(s2, y) := go r s1 in (s2, x ++ y)
                          end) body s1 in
      if rv then let '(s3, x3) := run_ops obs (revert id s2) in (s3, xw ++ x0 ++ xs ++ x3)
      else (s2, xw ++ x0 ++ xs)
  end.

Fixpoint run (l : list item) (s : state) : state * list ans :=
  match l with
  | [] => (s, [])
  | it :: r => let '(s1, x) := run_item it s in let '(s2, y) := run r s1 in (s2, x ++ y)
  end.

(* ---------- Finalise / IntermediateRoot ---------- *)
(* content written by updateTrie: dirty entries applied to the storage trie, empty value = delete *)
Definition content (o : obj) : gmap N bytes :=
  merge (fun d r => match d with Some v => if nilb v then None else Some v | None => r end)
        (o_dirty o) (o_root o).

Definition acct_of (o : obj) : acct := Acct (o_nonce o) (o_hash o) (content o).

(* [fixed] selects the repaired emptiness test (no code, nonce 0, no storage content) *)
Definition empty_fixed (o : obj) : bool :=
  (o_hash o =? 0) && (o_nonce o =? 0) && (size (content o) =? 0)%nat.

Definition dead (fixed del : bool) (o : obj) : bool :=
  o_suicided o || (del && (if fixed then empty_fixed o else empty o)).

(* Finalise(deleteEmptyObjects): every dirty address with an object is deleted or rewritten *)
Definition fin_trie (fixed del : bool) (s : state) : gmap N acct :=
  merge (fun t o => match o with
                    | Some o => if dead fixed del o then None else Some (acct_of o)
                    | None => t
                    end)
        (trie s) (filter (fun p => p.1 ∈ dirtyset s) (objs s)).
