(* C04: concrete histories on which the faithful model (= the code as it is) violates the property.
   Every witness is also a directed case of the harness, where the real AccountDB shows the same answers. *)
From stdpp Require Import gmap.
From RecordUpdate Require Import RecordSet.
From V.Base Require Import Hex BigEndian.
From V.C04 Require Import Model Harness Sim Undo Roundtrip Steps Nested Observe.
Import RecordSetNotations.
Local Open Scope N_scope.

(* equalities between finite maps are decided by computation *)
Ltac by_compute := apply (bool_decide_unpack _); vm_compute; exact I.

Definition tok0 : N := 9.

(* 1. deleteEmptyObjects = true: empty() ignores the committed storage root.
      committed A = {nonce 0, no code, slot 1 -> 05}; Snapshot; SetNonce(A,7); RevertToSnapshot. *)
Definition w1_trie : gmap N acct := {[ 1 := Acct 0 0 {[ 1 := [5] ]} ]}.
Definition w1_s : state := fresh w1_trie ∅ tok0 true 0.
Definition w1_body : list item := [Do (OSetNonce 1 7)].

Lemma w1_before : fin_trie false true w1_s !! 1 = Some (Acct 0 0 {[ 1 := [5] ]}).
Proof. by_compute. Qed.
Lemma w1_after : fin_trie false true (after_revert w1_body w1_s) !! 1 = None.
Proof. by_compute. Qed.
(* ... and the same history is harmless when an earlier read has filled cachedStorage *)
Lemma w1_after_read :
  fin_trie false true (after_revert w1_body (fst (step (OGetData 1 1) w1_s))) !! 1 = Some (Acct 0 0 {[ 1 := [5] ]}).
Proof. by_compute. Qed.

(* 2. the dirty mark survives the revert: a committed empty account written inside a reverted bracket
      is deleted by Finalise(true) (also with the repaired empty()) *)
Definition w2_trie : gmap N acct := {[ 1 := Acct 0 0 ∅ ]}.
Definition w2_s : state := fresh w2_trie ∅ tok0 true 0.
Lemma w2_before b : fin_trie b true w2_s !! 1 = Some (Acct 0 0 ∅).
Proof. destruct b; by_compute. Qed.
Lemma w2_after b : fin_trie b true (after_revert [Do (OSetNonce 1 7)] w2_s) !! 1 = None.
Proof. destruct b; by_compute. Qed.

(* 3. empty() counts cache entries: a reverted SetData leaves a nil-valued entry in cachedStorage and
      dirtyStorage, so Empty(A) flips and Finalise(true) keeps the otherwise empty dirty account *)
Definition w3_s : state := fst (step (OCreateAccount 1) (fresh ∅ ∅ tok0 true 0)).
Lemma w3_empty_before : snd (step (OEmpty 1) w3_s) = AB true.
Proof. by_compute. Qed.
Lemma w3_empty_after : snd (step (OEmpty 1) (after_revert [Do (OSetData 1 2 [1])] w3_s)) = AB false.
Proof. by_compute. Qed.
Lemma w3_root_before : fin_trie false true w3_s !! 1 = None.
Proof. by_compute. Qed.
Lemma w3_root_after : fin_trie false true (after_revert [Do (OSetData 1 2 [1])] w3_s) !! 1 = Some (Acct 0 0 ∅).
Proof. by_compute. Qed.

(* 4. GetCommittedState overwrites the cache entry of a modified slot and is not journalled *)
Definition w4_trie : gmap N acct := {[ 1 := Acct 1 0 {[ 2 := [4] ]} ]}.
Definition w4_s : state := fst (step (OSetData 1 2 [8]) (fresh w4_trie ∅ tok0 true 0)).
Lemma w4_before : observe (QData 1 2) w4_s = ABy [8].
Proof. by_compute. Qed.
Lemma w4_after : observe (QData 1 2) (after_revert [Do (OGetCommitted 1 2)] w4_s) = ABy [4].
Proof. by_compute. Qed.

(* 5. before Proposal002 AddFT/SubFT on the bound token write the balance slot without a journal entry *)
Definition w5_s : state := fresh {[ tok0 := Acct 1 0 ∅ ]} ∅ tok0 false 0.
Lemma w5_before : observe (QBalance 1) w5_s = AN 0.
Proof. by_compute. Qed.
Lemma w5_after : observe (QBalance 1) (after_revert [Do (OAddBalance 1 7)] w5_s) = AN 7.
Proof. by_compute. Qed.

(* 6. suicideChange.undo writes the balance back as minimal big-endian bytes *)
Definition w6_trie : gmap N acct := {[ 1 := Acct 1 0 ∅; tok0 := Acct 0 0 {[ erckey 1 := [0; 7] ]} ]}.
Definition w6_s : state := fresh w6_trie ∅ tok0 true 0.
Lemma w6_before : observe (QData tok0 (erckey 1)) w6_s = ABy [0; 7].
Proof. by_compute. Qed.
Lemma w6_after : observe (QData tok0 (erckey 1)) (after_revert [Do (OSuicide 1)] w6_s) = ABy [7].
Proof. by_compute. Qed.
Lemma w6_root_before : a_store <$> fin_trie false false w6_s !! tok0 = Some {[ erckey 1 := [0; 7] ]}.
Proof. by_compute. Qed.
Lemma w6_root_after : a_store <$> fin_trie false false (after_revert [Do (OSuicide 1)] w6_s) !! tok0 = Some {[ erckey 1 := [7] ]}.
Proof. by_compute. Qed.

(* 7. touchChange.undo takes the address out of the dirty set but leaves the object's onDirty callback
      disarmed: a later surviving write is never flushed *)
Definition w7_s : state := fresh w2_trie ∅ tok0 true 0.
Lemma w7_query : observe (QNonce 1) (fst (step (OSetNonce 1 5) (after_revert [Do (OAddFT 1 0)] w7_s))) = AN 5.
Proof. by_compute. Qed.
Lemma w7_root : fin_trie false false (fst (step (OSetNonce 1 5) (after_revert [Do (OAddFT 1 0)] w7_s))) !! 1 = Some (Acct 0 0 ∅).
Proof. by_compute. Qed.
Lemma w7_reference : fin_trie false false (fst (step (OSetNonce 1 5) w7_s)) !! 1 = Some (Acct 5 0 ∅).
Proof. by_compute. Qed.

(* 8. touchChange.undo exempts the ripemd constant: a reverted touch of THAT address is not undone (touched
      flag and dirty mark survive), so Finalise(true) sweeps the committed empty account.  The constant is
      0x3030..3033 (ripemd_bytes), an address no transaction can name; on every other address the touch is undone. *)
Definition w8_s (a : N) : state := fresh {[ a := Acct 0 0 ∅ ]} ∅ tok0 true 0.
Lemma w8_ripemd_before : fin_trie false true (w8_s ripemd) !! ripemd = Some (Acct 0 0 ∅).
Proof. by_compute. Qed.
Lemma w8_ripemd_after : fin_trie false true (after_revert [Do (OAddFT ripemd 0)] (w8_s ripemd)) !! ripemd = None.
Proof. by_compute. Qed.
Lemma w8_other_after : fin_trie false true (after_revert [Do (OAddFT 13 0)] (w8_s 13)) !! 13 = Some (Acct 0 0 ∅).
Proof. by_compute. Qed.

(* ---------- the refutations as existential statements ---------- *)
Definition good (s : state) : Prop := wf_al s /\ rb s.

Lemma good_fresh tr cs tok p th : good (fresh tr cs tok p th).
Proof. split; [apply wf_al_fresh | apply rb_fresh]. Qed.

Lemma good_step1 tr cs tok th o : op_ok true false o -> good (fst (step o (fresh tr cs tok true th))).
Proof.
  intros Ho. rewrite <- run_single.
  destruct (reach_good true false tr cs tok th [Do o]) as (H1&H2&_); [repeat constructor; exact Ho|]. split; assumption.
Qed.

Lemma root_equal_refuted :
  exists s body, good s /\ p002 s = true /\ Forall (item_ok true false) body /\
                 fin_trie false true (after_revert body s) <> fin_trie false true s.
Proof.
  exists w1_s, w1_body. split; [apply good_fresh|]. split; [reflexivity|]. split; [repeat constructor|].
  intros H. pose proof w1_before as H1. pose proof w1_after as H2. rewrite H, H1 in H2. discriminate H2.
Qed.

Lemma dirty_mark_refuted fixed :
  exists s body, good s /\ p002 s = true /\ Forall (item_ok true false) body /\
                 fin_trie fixed true (after_revert body s) <> fin_trie fixed true s.
Proof.
  exists w2_s, [Do (OSetNonce 1 7)]. split; [apply good_fresh|]. split; [reflexivity|]. split; [repeat constructor|].
  intros H. pose proof (w2_before fixed) as H1. pose proof (w2_after fixed) as H2. rewrite H, H1 in H2. discriminate H2.
Qed.

Lemma empty_query_refuted :
  exists s body a, good s /\ p002 s = true /\ Forall (item_ok true false) body /\
                   snd (step (OEmpty a) (after_revert body s)) <> snd (step (OEmpty a) s).
Proof.
  exists w3_s, [Do (OSetData 1 2 [1])], 1. split; [apply good_step1; exact I|]. split; [reflexivity|]. split; [repeat constructor|].
  rewrite w3_empty_before, w3_empty_after. discriminate.
Qed.

Lemma empty_cache_root_refuted :
  exists s body, good s /\ p002 s = true /\ Forall (item_ok true false) body /\
                 fin_trie false true (after_revert body s) <> fin_trie false true s.
Proof.
  exists w3_s, [Do (OSetData 1 2 [1])]. split; [apply good_step1; exact I|]. split; [reflexivity|]. split; [repeat constructor|].
  intros H. pose proof w3_root_before as H1. pose proof w3_root_after as H2. rewrite H, H1 in H2. discriminate H2.
Qed.

Lemma getcommitted_refuted :
  exists s body q, good s /\ p002 s = true /\ observe q (after_revert body s) <> observe q s.
Proof.
  exists w4_s, [Do (OGetCommitted 1 2)], (QData 1 2). split; [apply good_step1; exact I|]. split; [reflexivity|].
  rewrite w4_before, w4_after. discriminate.
Qed.

Lemma pre002_refuted :
  exists s body q, good s /\ p002 s = false /\ Forall (item_ok true false) body /\
                   observe q (after_revert body s) <> observe q s.
Proof.
  exists w5_s, [Do (OAddBalance 1 7)], (QBalance 1). split; [apply good_fresh|]. split; [reflexivity|]. split; [repeat constructor|].
  rewrite w5_before, w5_after. discriminate.
Qed.

Lemma suicide_reencodes_refuted :
  exists s body q, good s /\ p002 s = true /\ Forall (item_ok false false) body /\
                   observe q (after_revert body s) <> observe q s.
Proof.
  exists w6_s, [Do (OSuicide 1)], (QData tok0 (erckey 1)). split; [apply good_fresh|]. split; [reflexivity|].
  split; [repeat constructor|]. rewrite w6_before, w6_after. discriminate.
Qed.

Lemma touch_disarmed_refuted :
  exists s body o, good s /\ p002 s = true /\ Forall (item_ok true true) body /\
    fin_trie false false (fst (step o (after_revert body s))) <> fin_trie false false (fst (step o s)).
Proof.
  exists w7_s, [Do (OAddFT 1 0)], (OSetNonce 1 5). split; [apply good_fresh|]. split; [reflexivity|].
  split; [repeat constructor; right; reflexivity|].
  intros H. pose proof w7_root as H1. pose proof w7_reference as H2. rewrite H, H2 in H1. discriminate H1.
Qed.

Lemma ripemd_exemption_refuted :
  exists s body, good s /\ p002 s = true /\ Forall (item_ok true true) body /\
                 fin_trie false true (after_revert body s) <> fin_trie false true s.
Proof.
  exists (w8_s ripemd), [Do (OAddFT ripemd 0)]. split; [apply good_fresh|]. split; [reflexivity|].
  split; [repeat constructor; right; reflexivity|].
  intros H. pose proof w8_ripemd_before as H1. pose proof w8_ripemd_after as H2. rewrite H, H1 in H2. discriminate H2.
Qed.

(* ---------- which fork gate selects the journalled balance write ---------- *)
(* The model's [p002] flag is the value, at the current height, of the gate the implementation consults when it
   chooses between the journalled SetData and the raw setData in AddFT/SubFT.  At HEAD that gate is Proposal002.
   In the fork window (002 active, 003 not yet) the HEAD choice journals and the revert theorems apply; an
   implementation that consults Proposal003 instead does not journal there, and the revert fails. *)
Record gates := Gates { g002 : bool; g003 : bool }.
Definition fork_window : gates := Gates true false.

Lemma fork_window_gate_refuted :
  g002 fork_window = true /\ g003 fork_window = false /\
  exists s body q, good s /\ p002 s = g003 fork_window /\ Forall (item_ok true false) body /\
                   observe q (after_revert body s) <> observe q s.
Proof. split; [reflexivity|]. split; [reflexivity|]. exact pre002_refuted. Qed.
