(* Evaluation of the C04 model on harness-written cases (correspondence check). *)
From stdpp Require Import gmap.
From V.Base Require Import Hex BigEndian.
From V.C04 Require Import Model.
From Coq Require Import String.

Local Open Scope N_scope.

Definition x (h : string) : bytes := unhex h.

(* committed account as the harness dumps it: (address, nonce, code-hash id, [(key, value)]) *)
Definition dacct : Type := N * N * N * list (N * string).

Definition da (a n h : N) (st : list (N * string)) : dacct := (a, n, h, st).
Definition kv (k : N) (v : string) : N * string := (k, v).
Definition lg (p i : N) : N * N := (p, i).

Definition mk_store (l : list (N * string)) : gmap N bytes :=
  list_to_map (map (fun p => (p.1, unhex p.2)) l).
Definition mk_trie (l : list dacct) : gmap N acct :=
  list_to_map (map (fun d => let '(a, n, h, st) := d in (a, Acct n h (mk_store st))) l).
Definition mk_codes (l : list (N * string)) : gmap N bytes :=
  list_to_map (map (fun p => (p.1, unhex p.2)) l).

#[export] Instance acct_eq_dec : EqDecision acct.
Proof. solve_decision. Defined.
#[export] Instance ans_eq_dec : EqDecision ans.
Proof. solve_decision. Defined.

Record tcase := Case {
  c_trie : list dacct;
  c_codes : list (N * string);
  c_token : N;
  c_p002 : bool;
  c_thash : N;
  c_ripemd : string;                  (* the bytes of `ripemd` read from the running package (verif hook) *)
  c_prog : list item;
  c_answers : list ans;               (* every answer of the real AccountDB, in program order *)
  c_fin_false : list dacct;           (* account trie after IntermediateRoot(false) *)
  c_fin_true : list dacct;            (* account trie after IntermediateRoot(true) (second, identical execution) *)
}.

Definition check (c : tcase) : bool :=
  let s0 := fresh (mk_trie (c_trie c)) (mk_codes (c_codes c)) (c_token c) (c_p002 c) (c_thash c) in
  let '(s1, xs) := run (c_prog c) s0 in
  bytes_eqb (unhex (c_ripemd c)) ripemd_bytes
  && bool_decide (xs = c_answers c)
  && bool_decide (fin_trie false false s1 = mk_trie (c_fin_false c))
  && bool_decide (fin_trie false true s1 = mk_trie (c_fin_true c)).

(* diagnostics for a failing case (used interactively) *)
Definition first_diff (c : tcase) : option (nat * ans * ans) :=
  let s0 := fresh (mk_trie (c_trie c)) (mk_codes (c_codes c)) (c_token c) (c_p002 c) (c_thash c) in
  let '(_, xs) := run (c_prog c) s0 in
  (fix go (i : nat) (l1 l2 : list ans) :=
     match l1, l2 with
     | a :: r1, b :: r2 => if bool_decide (a = b) then go (S i) r1 r2 else Some (i, a, b)
     | a :: _, [] => Some (i, a, AU)
     | [], b :: _ => Some (i, AU, b)
     | [], [] => None
     end) 0%nat xs (c_answers c).

Definition show_fin (del : bool) (c : tcase) : list (N * (N * N * list (N * bytes))) :=
  let s0 := fresh (mk_trie (c_trie c)) (mk_codes (c_codes c)) (c_token c) (c_p002 c) (c_thash c) in
  let '(s1, _) := run (c_prog c) s0 in
  map (fun p => (p.1, (a_nonce p.2, a_hash p.2, map_to_list (a_store p.2)))) (map_to_list (fin_trie false del s1)).
