(* C04 proofs, part 1: the observational equivalence [sim] on journalled states and the basic
   facts about the object table. *)
From stdpp Require Import gmap.
From RecordUpdate Require Import RecordSet.
From V.Base Require Import Hex BigEndian.
From V.C04 Require Import Model.
Import RecordSetNotations.
Local Open Scope N_scope.

(* the object getAccountObject(a, false) would hand out *)
Definition look (s : state) (a : N) : option obj :=
  match objs s !! a with Some o => Some o | None => pristine <$> trie s !! a end.

Definition data_of (o : obj) (k : N) : bytes :=
  match o_cached o !! k with Some v => v | None => default [] (o_root o !! k) end.

Definition code_of (cs : gmap N bytes) (o : obj) : option bytes :=
  match o_code o with Some c => Some c | None => if o_hash o =? 0 then None else cs !! o_hash o end.

(* [ex = true]: byte-exact; [ex = false]: balance slots of the token contract compared as numbers *)
Definition veq (ex : bool) (tok a k : N) (v v' : bytes) : Prop :=
  if negb ex && (a =? tok) && is_erckey k then bev v = bev v' else v = v'.

Record oeq (ex : bool) (tok : N) (cs : gmap N bytes) (a : N) (o o' : obj) : Prop := {
  oeq_nonce : o_nonce o = o_nonce o';
  oeq_hash : o_hash o = o_hash o';
  oeq_code : code_of cs o = code_of cs o';
  oeq_suic : o_suicided o = o_suicided o';
  oeq_data : forall k, veq ex tok a k (data_of o k) (data_of o' k);
}.

Definition orel (ex : bool) (tok : N) (cs : gmap N bytes) (a : N) (x y : option obj) : Prop :=
  match x, y with
  | Some o, Some o' => oeq ex tok cs a o o'
  | None, None => True
  | _, _ => False
  end.

Record sim (ex : bool) (s s' : state) : Prop := {
  sim_trie : trie s = trie s';
  sim_codes : codes s = codes s';
  sim_token : token s = token s';
  sim_p002 : p002 s = p002 s';
  sim_thash : thash s = thash s';
  sim_refund : refund s = refund s';
  sim_logsize : logsize s = logsize s';
  sim_logs : forall h, getlogs s h = getlogs s' h;
  sim_ala : al_addrs s = al_addrs s';
  sim_als : al_slots s = al_slots s';
  sim_tr : forall a k, tget s a k = tget s' a k;
  sim_objs : forall a, orel ex (token s) (codes s) a (look s a) (look s' a);
}.

(* ---------- equivalence ---------- *)
Lemma veq_refl ex tok a k v : veq ex tok a k v v.
Proof. unfold veq. destruct (_ && _); reflexivity. Qed.
Lemma veq_sym ex tok a k v v' : veq ex tok a k v v' -> veq ex tok a k v' v.
Proof. unfold veq. destruct (_ && _); intros ->; reflexivity || congruence. Qed.
Lemma veq_trans ex tok a k v1 v2 v3 : veq ex tok a k v1 v2 -> veq ex tok a k v2 v3 -> veq ex tok a k v1 v3.
Proof. unfold veq. destruct (_ && _); congruence. Qed.
Lemma veq_num ex tok a k v v' : veq ex tok a k v v' -> bev v = bev v'.
Proof. unfold veq. destruct (_ && _); congruence. Qed.
Lemma veq_exact tok a k v v' : veq true tok a k v v' -> v = v'.
Proof. unfold veq. simpl. auto. Qed.
Lemma veq_other ex tok a k v v' : (a =? tok) && is_erckey k = false -> veq ex tok a k v v' -> v = v'.
Proof. unfold veq. rewrite <- andb_assoc. intros ->. rewrite andb_false_r. auto. Qed.

Lemma oeq_refl ex tok cs a o : oeq ex tok cs a o o.
Proof. split; auto using veq_refl. Qed.
Lemma oeq_sym ex tok cs a o o' : oeq ex tok cs a o o' -> oeq ex tok cs a o' o.
Proof. intros []; split; auto using veq_sym. Qed.
Lemma oeq_trans ex tok cs a o1 o2 o3 : oeq ex tok cs a o1 o2 -> oeq ex tok cs a o2 o3 -> oeq ex tok cs a o1 o3.
Proof. intros [] []; split; try congruence. eauto using veq_trans. Qed.

Lemma orel_refl ex tok cs a x : orel ex tok cs a x x.
Proof. destruct x; simpl; auto using oeq_refl. Qed.
Lemma orel_sym ex tok cs a x y : orel ex tok cs a x y -> orel ex tok cs a y x.
Proof. destruct x, y; simpl; auto using oeq_sym. Qed.
Lemma orel_trans ex tok cs a x y z : orel ex tok cs a x y -> orel ex tok cs a y z -> orel ex tok cs a x z.
Proof. destruct x, y, z; simpl; try tauto. apply oeq_trans. Qed.

Lemma sim_refl ex s : sim ex s s.
Proof. split; auto using orel_refl. Qed.
Lemma sim_sym ex s s' : sim ex s s' -> sim ex s' s.
Proof. intros []; split; auto. intros a. rewrite <- sim_token0, <- sim_codes0. auto using orel_sym. Qed.
Lemma sim_trans ex s1 s2 s3 : sim ex s1 s2 -> sim ex s2 s3 -> sim ex s1 s3.
Proof.
  intros H1 H2. split.
  1-7: etransitivity; [apply H1 | apply H2].
  - intros h. rewrite (sim_logs _ _ _ H1). apply H2.
  - etransitivity; [apply H1 | apply H2].
  - etransitivity; [apply H1 | apply H2].
  - intros a k. rewrite (sim_tr _ _ _ H1). apply H2.
  - intros a. eapply orel_trans; [apply H1|]. rewrite (sim_token _ _ _ H1), (sim_codes _ _ _ H1). apply H2.
Qed.

(* relation that only talks about the object table (the other fields are equal on the nose) *)
Definition same_rest (s s' : state) : Prop :=
  trie s = trie s' /\ codes s = codes s' /\ token s = token s' /\ p002 s = p002 s' /\ thash s = thash s' /\
  refund s = refund s' /\ logsize s = logsize s' /\ logs s = logs s' /\ al_addrs s = al_addrs s' /\
  al_slots s = al_slots s' /\ transient s = transient s'.

Lemma sim_of_rest ex s s' :
  same_rest s s' -> (forall a, orel ex (token s) (codes s) a (look s a) (look s' a)) -> sim ex s s'.
Proof.
  intros (?&?&?&?&?&?&?&Hl&?&?&Ht) Ho. split; auto.
  - intros h. unfold getlogs. rewrite Hl. reflexivity.
  - intros a k. unfold tget. rewrite Ht. reflexivity.
Qed.

Lemma same_rest_refl s : same_rest s s.
Proof. repeat split. Qed.
Lemma same_rest_trans s1 s2 s3 : same_rest s1 s2 -> same_rest s2 s3 -> same_rest s1 s3.
Proof. unfold same_rest. intuition congruence. Qed.

(* ---------- primitives: fields they leave alone ---------- *)
Ltac dstate s := destruct s as [tr cs tok pp ob ds jn rv nr rf th lg ls aa asl tn].

Lemma same_rest_push e s : same_rest (push e s) s.
Proof. repeat split. Qed.
Lemma same_rest_upd a f s : same_rest (upd a f s) s.
Proof. repeat split. Qed.
Lemma same_rest_mark a s : same_rest (mark_dirty a s) s.
Proof. unfold mark_dirty. destruct (objs s !! a) as [o|]; [destruct (o_armed o)|]; repeat split. Qed.
Lemma same_rest_ensure c a s : same_rest (ensure c a s) s.
Proof.
  unfold ensure. destruct (objs s !! a); [repeat split|].
  destruct (trie s !! a); [repeat split|]. destruct c; repeat split.
Qed.

Definition ctl_same (s s' : state) : Prop := revs s = revs s' /\ nextrev s = nextrev s'.

Lemma look_push e s a : look (push e s) a = look s a.
Proof. reflexivity. Qed.

Definition settled (s : state) (a : N) : Prop := objs s !! a = look s a.

Lemma loaded_settled s a o : objs s !! a = Some o -> settled s a.
Proof. unfold settled, look. intros ->. reflexivity. Qed.

Lemma ensure_loaded c a s o : objs s !! a = Some o -> ensure c a s = s.
Proof. unfold ensure. intros ->. reflexivity. Qed.

Lemma look_ensure c a s b :
  look (ensure c a s) b =
  if decide (b = a) then match look s a with Some o => Some o | None => if c then Some newobj else None end
  else look s b.
Proof.
  unfold ensure, look. destruct (objs s !! a) as [o|] eqn:Ho.
  - destruct (decide (b = a)) as [->|]; [rewrite Ho|]; reflexivity.
  - destruct (trie s !! a) as [ac|] eqn:Ht; cbn.
    + destruct (decide (b = a)) as [->|].
      * rewrite lookup_insert. reflexivity.
      * rewrite lookup_insert_ne by congruence. reflexivity.
    + destruct c; cbn.
      * destruct (decide (b = a)) as [->|].
        -- rewrite lookup_insert. reflexivity.
        -- rewrite lookup_insert_ne by congruence. reflexivity.
      * destruct (decide (b = a)) as [->|]; [rewrite Ho, Ht|]; reflexivity.
Qed.

Lemma settled_ensure c a s : settled (ensure c a s) a.
Proof.
  unfold settled, ensure, look. destruct (objs s !! a) as [o|] eqn:Ho; [rewrite Ho; reflexivity|].
  destruct (trie s !! a) as [ac|] eqn:Ht; cbn.
  - rewrite lookup_insert. reflexivity.
  - destruct c; cbn; [rewrite lookup_insert | rewrite Ho, Ht]; reflexivity.
Qed.

Lemma settled_ensure_other c b s a : settled s a -> settled (ensure c b s) a.
Proof.
  intros H. destruct (decide (a = b)) as [->|Hn]; [apply settled_ensure|].
  unfold settled in *. rewrite look_ensure. rewrite decide_False by congruence. rewrite <- H.
  unfold ensure. destruct (objs s !! b); [reflexivity|].
  destruct (trie s !! b); cbn; [rewrite lookup_insert_ne by congruence; reflexivity|].
  destruct c; cbn; [rewrite lookup_insert_ne by congruence|]; reflexivity.
Qed.

Lemma trie_mark a s : trie (mark_dirty a s) = trie s.
Proof. apply same_rest_mark. Qed.
Lemma trie_ensure c a s : trie (ensure c a s) = trie s.
Proof. apply same_rest_ensure. Qed.

Lemma look_upd a f s b :
  settled s a -> look (upd a f s) b = if decide (b = a) then f <$> look s a else look s b.
Proof.
  unfold settled, look, upd. cbn. intros H. destruct (decide (b = a)) as [->|Hn].
  - rewrite lookup_alter. destruct (objs s !! a) as [o|] eqn:Ho; cbn; [reflexivity|].
    rewrite <- H. reflexivity.
  - rewrite lookup_alter_ne by congruence. reflexivity.
Qed.

Lemma settled_upd b f s a : settled s a -> settled (upd b f s) a.
Proof.
  unfold settled, look, upd. cbn. destruct (decide (a = b)) as [->|Hn].
  - rewrite lookup_alter. destruct (objs s !! b); cbn; auto.
  - rewrite lookup_alter_ne by congruence. auto.
Qed.

Definition disarm (o : obj) : obj := o <| o_armed := false |>.

Lemma objs_mark a s b :
  objs (mark_dirty a s) !! b = if decide (b = a) then (fun o => if o_armed o then disarm o else o) <$> objs s !! a else objs s !! b.
Proof.
  unfold mark_dirty. destruct (objs s !! a) as [o|] eqn:Ho.
  - destruct (o_armed o) eqn:Ha; cbn.
    + destruct (decide (b = a)) as [->|]; [rewrite lookup_insert; rewrite Ha | rewrite lookup_insert_ne by congruence]; reflexivity.
    + destruct (decide (b = a)) as [->|]; [rewrite Ho; cbn; rewrite Ha|]; reflexivity.
  - destruct (decide (b = a)) as [->|]; [rewrite Ho|]; reflexivity.
Qed.

Lemma look_mark a s b :
  look (mark_dirty a s) b = look s b \/ exists o, look s b = Some o /\ look (mark_dirty a s) b = Some (disarm o).
Proof.
  assert (Hl : look (mark_dirty a s) b =
               match objs (mark_dirty a s) !! b with Some o => Some o | None => pristine <$> trie s !! b end).
  { unfold look. rewrite trie_mark. reflexivity. }
  rewrite Hl, objs_mark. unfold look. destruct (decide (b = a)) as [->|]; [|left; reflexivity].
  destruct (objs s !! a) as [o|]; cbn; [|left; reflexivity].
  destruct (o_armed o); [right; exists o; split; reflexivity | left; reflexivity].
Qed.

Lemma settled_mark b s a : settled s a -> settled (mark_dirty b s) a.
Proof.
  unfold settled, look. rewrite objs_mark, trie_mark. destruct (decide (a = b)) as [->|]; [|auto].
  destruct (objs s !! b); cbn; auto.
Qed.

Lemma oeq_disarm ex tok cs a o : oeq ex tok cs a (disarm o) o.
Proof. split; auto using veq_refl. Qed.

Lemma orel_mark ex tok cs a s b : orel ex tok cs b (look (mark_dirty a s) b) (look s b).
Proof.
  destruct (look_mark a s b) as [->|(o&->&->)]; [apply orel_refl|]. apply oeq_disarm.
Qed.

Lemma sim_mark ex a s : sim ex (mark_dirty a s) s.
Proof.
  apply sim_of_rest; [apply same_rest_mark|]. intros b.
  destruct (same_rest_mark a s) as (_&->&->&_). apply orel_mark.
Qed.

Lemma sim_push ex e s : sim ex (push e s) s.
Proof. apply sim_of_rest; [apply same_rest_push|]. intros b. apply orel_refl. Qed.

Lemma sim_ensure_false ex a s : sim ex (ensure false a s) s.
Proof.
  apply sim_of_rest; [apply same_rest_ensure|]. intros b. rewrite look_ensure.
  destruct (decide (b = a)) as [->|]; [|apply orel_refl]. destruct (look s a); apply orel_refl.
Qed.

Lemma sim_ensure_cong ex c a x y : sim ex x y -> sim ex (ensure c a x) (ensure c a y).
Proof.
  intros H. split; try (destruct (same_rest_ensure c a x) as (?&?&?&?&?&?&?&?&?&?&?);
                        destruct (same_rest_ensure c a y) as (?&?&?&?&?&?&?&?&?&?&?)).
  1-7: etransitivity; [eassumption|]; etransitivity; [apply H|]; symmetry; eassumption.
  - intros h. unfold getlogs. rewrite H7, H18. apply H.
  - rewrite H8, H19. apply H.
  - rewrite H9, H20. apply H.
  - intros b k. unfold tget. rewrite H10, H21. apply H.
  - intros b. rewrite H1, H2. rewrite !look_ensure. destruct (decide (b = a)) as [->|]; [|apply H].
    pose proof (sim_objs _ _ _ H a) as Ho. destruct (look x a), (look y a); cbn in Ho; try tauto.
    destruct c; cbn; auto using oeq_refl.
Qed.

(* object transformers that respect the equivalence *)
Definition omorph (f : obj -> obj) : Prop :=
  forall ex tok cs a o o', oeq ex tok cs a o o' -> oeq ex tok cs a (f o) (f o').

Lemma sim_upd_cong ex a f x y :
  omorph f -> sim ex x y -> settled x a -> settled y a -> sim ex (upd a f x) (upd a f y).
Proof.
  intros Hf H Hx Hy. split; try apply H.
  intros b. cbn. rewrite !look_upd by assumption. destruct (decide (b = a)) as [->|]; [|apply H].
  pose proof (sim_objs _ _ _ H a) as Ho. destruct (look x a), (look y a); cbn in *; try tauto. apply Hf, Ho.
Qed.

Lemma sim_upd_id ex a h s :
  settled s a -> (forall o, look s a = Some o -> oeq ex (token s) (codes s) a (h o) o) -> sim ex (upd a h s) s.
Proof.
  intros Hs Hh. apply sim_of_rest; [apply same_rest_upd|]. intros b. cbn.
  rewrite look_upd by assumption. destruct (decide (b = a)) as [->|]; [|apply orel_refl].
  destruct (look s a) eqn:E; cbn; auto.
Qed.

Lemma upd_upd a f g s : upd a g (upd a f s) = upd a (g ∘ f) s.
Proof. unfold upd. dstate s. cbn. rewrite <- alter_compose. reflexivity. Qed.
