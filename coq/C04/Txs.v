(* C04, part 11: several transactions on one AccountDB.  Prepare (transaction boundary) is not journalled
   and leaves journal, revision stack and nextRevisionID alone; so every state a sequence of transactions
   reaches satisfies the hypotheses of the revert theorems, and a snapshot id taken in a later transaction
   is different from every live id of the earlier ones. *)
From stdpp Require Import gmap.
From RecordUpdate Require Import RecordSet.
From V.Base Require Import Hex BigEndian.
From V.C04 Require Import Model Harness Sim Undo Roundtrip Steps Nested Observe Root.
Import RecordSetNotations.
Local Open Scope N_scope.

(* one transaction: Prepare with its hash, then its program (nested brackets, kept and reverted) *)
Definition run_tx (tx : N * list item) (s : state) : state := fst (run tx.2 (prepare tx.1 s)).
Definition run_txs (txs : list (N * list item)) (s : state) : state := fold_left (fun s tx => run_tx tx s) txs s.

Lemma wf_al_prepare h s : wf_al (prepare h s).
Proof. intros a idx. cbn. rewrite lookup_empty. discriminate. Qed.
Lemma rb_prepare h s : rb s -> rb (prepare h s).
Proof. intros H. exact H. Qed.
Lemma p002_prepare h s : p002 (prepare h s) = p002 s.
Proof. reflexivity. Qed.
Lemma rinv_prepare h s : rinv s -> rinv (prepare h s).
Proof. apply rinv_same; reflexivity. Qed.

(* revision ids keep counting across the boundary; journal and revision stack are untouched *)
Lemma prepare_keeps_revisions h s :
  nextrev (prepare h s) = nextrev s /\ revs (prepare h s) = revs s /\ journal (prepare h s) = journal s.
Proof. repeat split. Qed.

(* the id Snapshot hands out is not the id of any live revision *)
Lemma snapshot_id_fresh s : rb s -> forall p, p ∈ revs s -> p.1 <> snd (snapshot s).
Proof. intros Hb p Hin. cbn. unfold rb in Hb. rewrite Forall_forall in Hb. specialize (Hb p Hin). lia. Qed.

Definition txs_ok (ex tch : bool) (txs : list (N * list item)) : Prop := Forall (fun tx => Forall (item_ok ex tch) tx.2) txs.

Lemma reach_txs ex tch txs : txs_ok ex tch txs ->
  forall s, wf_al s -> rb s -> p002 s = true ->
  wf_al (run_txs txs s) /\ rb (run_txs txs s) /\ p002 (run_txs txs s) = true.
Proof.
  induction 1 as [|tx txs Htx _ IH]; intros s Hw Hb Hp; cbn [run_txs fold_left]; [auto|].
  pose proof (rtq_run ex tch tx.2 Htx (prepare tx.1 s) (wf_al_prepare _ s) (rb_prepare _ s Hb) Hp) as Q.
  apply IH; [eapply rtq_wf, Q | eapply rtq_rb, Q | unfold run_tx; rewrite (rtq_p002 _ _ _ _ Q); exact Hp].
Qed.

Lemma reach_txs_rinv txs : txs_ok true false txs ->
  forall s, wf_al s -> rb s -> p002 s = true -> rinv s -> rinv (run_txs txs s).
Proof.
  induction 1 as [|tx txs Htx _ IH]; intros s Hw Hb Hp Hr; cbn [run_txs fold_left]; [auto|].
  pose proof (rtq_run true false tx.2 Htx (prepare tx.1 s) (wf_al_prepare _ s) (rb_prepare _ s Hb) Hp) as Q.
  apply IH; [eapply rtq_wf, Q | eapply rtq_rb, Q | unfold run_tx; rewrite (rtq_p002 _ _ _ _ Q); exact Hp|].
  apply rinv_run; auto using wf_al_prepare, rb_prepare, rinv_prepare.
Qed.

(* the revert theorem in any later transaction *)
Theorem revert_restores_across_prepare ex tch tr cs tok th txs h body :
  txs_ok ex tch txs -> Forall (item_ok ex tch) body ->
  let s := prepare h (run_txs txs (fresh tr cs tok true th)) in
  sim ex (after_revert body s) s /\ journal (after_revert body s) = journal s /\ revs (after_revert body s) = revs s.
Proof.
  intros Htx Hbody. cbv zeta.
  destruct (reach_txs ex tch txs Htx _ (wf_al_fresh tr cs tok true th) (rb_fresh tr cs tok true th) eq_refl) as (Hw&Hb&Hp).
  set (s0 := run_txs txs (fresh tr cs tok true th)) in *.
  split; [apply (revert_restores ex tch); auto using wf_al_prepare, rb_prepare|].
  apply (good_after_revert ex tch (prepare h s0) body (wf_al_prepare h s0) (rb_prepare h s0 Hb) Hp Hbody).
Qed.

(* ---------- the variant in which Prepare restarts the revision ids ---------- *)
Definition prepare_reset (h : N) (s : state) : state := prepare h s <| nextrev := 0 |>.

(* tx 1: Snapshot (id 0, kept); SetNonce(1,5).  tx 2: Snapshot; SetNonce(1,7); RevertToSnapshot. *)
Definition v_s0 : state := fresh {[ 1 := Acct 0 0 ∅ ]} ∅ 9 true 0.
Definition v_tx1 (s : state) : state := fst (step (OSetNonce 1 5) (fst (snapshot s))).
Definition v_tx2 (s : state) : state :=
  let '(s1, id) := snapshot s in revert id (fst (step (OSetNonce 1 7) s1)).

Lemma id_reset_refuted :
  observe (QNonce 1) (prepare_reset 1 (v_tx1 v_s0)) = AN 5 /\
  observe (QNonce 1) (v_tx2 (prepare_reset 1 (v_tx1 v_s0))) = AN 0 /\       (* tx 1 has been unwound as well *)
  observe (QNonce 1) (v_tx2 (prepare 1 (v_tx1 v_s0))) = AN 5.               (* the code as it is *)
Proof. repeat split; apply (bool_decide_unpack _); vm_compute; exact I. Qed.
